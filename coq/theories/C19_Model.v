(* C19 - model of "parametric maps and secondary captures store the given pixels".
   Mirrors (src/highdicom):
     pm/sop.py     ParametricMap.__init__ (argument checks, frame loop, per-frame
                   groups, pixel data attribute), _get_pixel_data_type_and_attr,
                   _encode_frame (native branch)
     pm/content.py RealWorldValueMapping.__init__ (argument checks),
                   DimensionIndexSequence.get_index_values (+ np.unique ranks)
     sc/sop.py     SCImage.__init__ validation table and pixel encoding
     frame.py      encode_frame (checks + native encoding, pack_bits)
     image.py      _standardize_frame_index, get_raw_frame (native slicing),
                   get_stored_frame(s), get_frame(s) with real world value map
                   (_CombinedPixelTransform, real-world branch), pixels.apply_lut,
                   pixels._select_real_world_value_map
   Pixel elements are opaque words (unsigned integers holding the bit pattern
   of the element: 1/2/4/8 bytes), so NaN payloads, +-inf and -0.0 are ordinary
   values.  Integers are Z, real world values exact rationals. *)
From Coq Require Import String ZArith List Bool QArith.
From HD Require Import Base.Val.
Import ListNotations.
Open Scope Z_scope.

Definition zrange (n : Z) : list Z := map Z.of_nat (seq 0 (Z.to_nat n)).

(* ---- little-endian words <-> bytes ------------------------------------- *)
Fixpoint le_bytes (w : nat) (x : Z) : list Z :=
  match w with O => [] | S w' => x mod 256 :: le_bytes w' (x / 256) end.
Fixpoint le_word (bs : list Z) : Z :=
  match bs with [] => 0 | b :: r => b + 256 * le_word r end.
(* n words of w bytes each *)
Fixpoint unbytes (w n : nat) (bs : list Z) : list Z :=
  match n with O => [] | S n' => le_word (firstn w bs) :: unbytes w n' (skipn w bs) end.

(* pydicom pack_bits / unpack_bits: LSB first *)
Fixpoint le_bits (n : nat) (x : Z) : list Z :=
  match n with O => [] | S n' => x mod 2 :: le_bits n' (x / 2) end.
Fixpoint bits_word (bs : list Z) : Z :=
  match bs with [] => 0 | b :: r => b + 2 * bits_word r end.
Fixpoint pack_bits (nbytes : nat) (bits : list Z) : list Z :=
  match nbytes with O => [] | S n' => bits_word (firstn 8 bits) :: pack_bits n' (skipn 8 bits) end.
Definition unpack_bits (bytes : list Z) : list Z := flat_map (le_bits 8) bytes.

(* ---- element types, pixel data attributes, transfer syntaxes ------------ *)
Inductive dtype := DBool | DU8 | DU16 | DU32 | DU64 | DI8 | DI16 | DI32 | DI64
                 | DF16 | DF32 | DF64 | DC64.
Inductive dkind := KBool | KU | KI | KF | KC.
Definition kind_of (d : dtype) : dkind :=
  match d with
  | DBool => KBool | DU8 | DU16 | DU32 | DU64 => KU | DI8 | DI16 | DI32 | DI64 => KI
  | DF16 | DF32 | DF64 => KF | DC64 => KC
  end.
Inductive attr := PixelData | FloatPixelData | DoubleFloatPixelData.
Definition attr_name (a : attr) : string :=
  match a with PixelData => "PixelData" | FloatPixelData => "FloatPixelData"
             | DoubleFloatPixelData => "DoubleFloatPixelData" end.

(* pm/sop.py _get_pixel_data_type_and_attr: attribute and element width (bytes) *)
Definition pm_attr (d : dtype) : res (attr * nat) :=
  match d with
  | DF32 => Ok (FloatPixelData, 4%nat)
  | DF64 => Ok (DoubleFloatPixelData, 8%nat)
  | DU8 => Ok (PixelData, 1%nat)
  | DU16 => Ok (PixelData, 2%nat)
  | _ => Err "ValueError"
  end.

Inductive tsyn := Implicit | Explicit | RLE | JLS | JLSNear | JPEGBase | J2K | J2KLossless
                | BigEndian | Deflated.
Definition ts_native (t : tsyn) : bool :=
  match t with Implicit | Explicit => true | _ => false end.
Definition pm_ts_ok (d : dtype) (t : tsyn) : bool :=
  match t with
  | Implicit | Explicit => true
  | J2KLossless | JLS | RLE => match kind_of d with KU => true | _ => false end
  | _ => false
  end.

(* ---- ParametricMap argument validation ---------------------------------- *)
(* shape of the real_world_value_mappings argument *)
Inductive mapshape := MFlat (n : Z) | MNested (lens : list Z).

Record pmcfg := {
  c_nsrc : Z;               (* len(source_images) *)
  c_uniform : bool;         (* one study/series/size/frame of reference *)
  c_multiframe : bool;      (* first source is a multi-frame image *)
  c_srcplanes : Z;          (* number of plane positions found in the source(s) *)
  c_dtype : dtype;
  c_ts : tsyn;
  c_wwpos : bool;           (* window_width > 0 *)
  c_shape : list Z;         (* pixel_array.shape *)
  c_maps : mapshape;
  c_pp : option Z           (* len(plane_positions) if given *)
}.

(* (N, R, C, M) after the np.newaxis normalisation *)
Definition pm_dims (shape : list Z) : option (Z * Z * Z * Z) :=
  match shape with
  | [r; c] => Some (1, r, c, 1)
  | [n; r; c] => Some (n, r, c, 1)
  | [n; r; c; m] => Some (n, r, c, m)
  | _ => None
  end.

Definition pm_maps_check (ndim4 : bool) (m : mapshape) : res Z (* len(mappings) after nesting *) :=
  if negb ndim4 then
    match m with
    | MFlat n => if n <=? 0 then Err "TypeError" else Ok 1
    | MNested _ => Err "TypeError"       (* Sequence contents must be Dataset / not a mapping *)
    end
  else
    match m with
    | MFlat n => if n <=? 0 then Err "TypeError" else Err "KeyError"   (* Dataset[0] *)
    | MNested [] => Err "TypeError"
    | MNested (l0 :: ls) => if l0 <=? 0 then Err "TypeError" else Ok (1 + Z.of_nat (length ls))
    end.

Definition pm_validate (c : pmcfg) : res (Z * Z * Z * Z * attr * nat) :=
  if c_nsrc c <=? 0 then Err "ValueError"
  else if negb (c_uniform c) then Err "ValueError"
  else if c_multiframe c && (1 <? c_nsrc c) then Err "ValueError"
  else if negb (pm_ts_ok (c_dtype c) (c_ts c)) then Err "ValueError"
  else if negb (c_wwpos c) then Err "ValueError"
  else match pm_dims (c_shape c) with
  | None => Err "ValueError"
  | Some (n, r, cc, m) =>
    bind (pm_maps_check (Nat.eqb (length (c_shape c)) 4) (c_maps c)) (fun nmaps =>
    if negb (nmaps =? m) then Err "ValueError"
    else if negb (match c_pp c with None => n =? c_srcplanes c | Some k => k =? n end)
      then Err "ValueError"
    else bind (pm_attr (c_dtype c)) (fun aw =>
    if (match c_ts c with J2KLossless => (r <? 32) || (cc <? 32) | _ => false end)
      then Err "ValueError"
    else Ok (n, r, cc, m, fst aw, snd aw)))
  end.

(* ---- stored pixels -------------------------------------------------------- *)
Section Store.
  Variable get : Z -> Z -> Z -> Z -> Z.    (* pixel_array[i, r, c, j] as a word *)
  Variables N R C M : Z.
  (* pixel_array[i, :, :, j].flatten() *)
  Definition frame_words (i j : Z) : list Z :=
    flat_map (fun r => map (fun c => get i r c j) (zrange C)) (zrange R).
  (* for i in range(N): for j in range(M): frames.append(...) *)
  Definition pm_frames : list (list Z) :=
    flat_map (fun i => map (fun j => frame_words i j) (zrange M)) (zrange N).
  Definition pm_words : list Z := concat pm_frames.
  (* b''.join(frames) with frame = plane.flatten().tobytes() *)
  Definition pm_bytes (w : nat) : list Z := flat_map (le_bytes w) pm_words.
End Store.

(* ---- per-frame metadata ------------------------------------------------- *)
(* keys of one dimension column: vectors compared lexicographically (np.unique
   with axis=0), scalars are vectors of length 1.  Coordinates are integers
   (the harness scales the dyadic positions it draws by 1024). *)
Fixpoint lex_cmp (a b : list Z) : comparison :=
  match a, b with
  | [], [] => Eq
  | [], _ :: _ => Lt
  | _ :: _, [] => Gt
  | x :: a', y :: b' => match x ?= y with Eq => lex_cmp a' b' | c => c end
  end.
Definition key_ltb (a b : list Z) : bool := match lex_cmp a b with Lt => true | _ => false end.
Definition key_eqb (a b : list Z) : bool := match lex_cmp a b with Eq => true | _ => false end.
Fixpoint dedup (l : list (list Z)) : list (list Z) :=
  match l with
  | [] => []
  | x :: r => if existsb (key_eqb x) r then dedup r else x :: dedup r
  end.
(* 1-based index of k in np.unique(col, axis=0) *)
Definition rank (col : list (list Z)) (k : list Z) : Z :=
  1 + Z.of_nat (length (filter (fun q => key_ltb q k) (dedup col))).

Inductive placement := Shared | PerFrame (j : Z).
Record frame_meta := { fm_plane : Z; fm_div : list Z; fm_rwvm : placement }.

(* cols: one list of keys per dimension (column-major), each of length N *)
Definition pm_meta (cols : list (list (list Z))) (N M : Z) : list frame_meta :=
  flat_map (fun i =>
    map (fun j => {| fm_plane := i;
                     fm_div := map (fun col => rank col (nth (Z.to_nat i) col [])) cols;
                     fm_rwvm := if 1 <? M then PerFrame j else Shared |})
        (zrange M))
    (zrange N).

(* ---- RealWorldValueMapping ------------------------------------------------ *)
(* constructor checks of pm/content.py RealWorldValueMapping.__init__ *)
Definition rwvm_validate (has_lut has_slope has_intercept float_range : bool)
           (n_lut first last : Z) : res bool (* true = LUT mapping *) :=
  if has_lut then
    if has_slope || has_intercept then Err "TypeError"
    else if float_range then Err "ValueError"
    else if negb (n_lut =? last - first + 1) then Err "ValueError"
    else Ok true
  else
    if negb has_slope || negb has_intercept then Err "TypeError"
    else Ok false.

Inductive mapping :=
| MLin (slope intercept first last : Q)
| MLut (first : Z) (lut : list Q).

Definition out_of_lin (f l : Q) (w : Z) : bool :=
  negb (Qle_bool f (inject_Z w)) || negb (Qle_bool (inject_Z w) l).
Definition out_of_lut (first n : Z) (w : Z) : bool := (w <? first) || (first + n - 1 <? w).

(* _CombinedPixelTransform.__call__ restricted to the real-world branch *)
Definition apply_mapping (m : mapping) (ws : list Z) : res (list Q) :=
  match ws with
  | [] => Err "ValueError"          (* min() of an empty array *)
  | _ =>
    match m with
    | MLin s i f l =>
        if existsb (out_of_lin f l) ws then Err "ValueError"
        else Ok (map (fun w => (inject_Z w * s + i)%Q) ws)
    | MLut first lut =>
        if existsb (out_of_lut first (Z.of_nat (length lut))) ws then Err "ValueError"
        else Ok (map (fun w => nth (Z.to_nat (w - first)) lut 0%Q) ws)
    end
  end.

(* pixels._select_real_world_value_map *)
Inductive selector := SIdx (z : Z) | SLabel (s : string).
Fixpoint find_label (s : string) (l : list (string * mapping)) : option mapping :=
  match l with
  | [] => None
  | (lbl, m) :: r => if String.eqb lbl s then Some m else find_label s r
  end.
Definition select_mapping (l : list (string * mapping)) (sel : selector) : res mapping :=
  match sel with
  | SIdx z =>
      let n := Z.of_nat (length l) in
      let k := if z <? 0 then z + n else z in
      if (k <? 0) || (n <=? k) then Err "IndexError"
      else match nth_error l (Z.to_nat k) with Some p => Ok (snd p) | None => Err "IndexError" end
  | SLabel s => match find_label s l with Some m => Ok m | None => Err "IndexError" end
  end.

(* mappings attached to frame k (0-based): shared iff one channel *)
Definition frame_maps (maps : list (list (string * mapping))) (M k : Z)
  : list (string * mapping) :=
  nth (Z.to_nat (if 1 <? M then k mod M else 0)) maps [].

(* ---- reading through the image interface (integer maps, native) -------- *)
(* image._standardize_frame_index *)
Definition std_index (nframes f : Z) (as_index : bool) : res Z :=
  if as_index then (if (f <? 0) || (nframes <=? f) then Err "IndexError" else Ok f)
  else (if (f <? 1) || (nframes <? f) then Err "IndexError" else Ok (f - 1)).

(* get_raw_frame (native): PixelData[k*len : (k+1)*len]; decode: little endian *)
Definition read_frame (w : nat) (R C : Z) (bytes : list Z) (k : Z) : list Z :=
  let npx := Z.to_nat (R * C) in
  unbytes w npx (firstn (npx * w) (skipn (Z.to_nat k * (npx * w)) bytes)).

Definition get_stored_frame (w : nat) (R C nframes : Z) (bytes : list Z)
           (f : Z) (as_index : bool) : res (list Z) :=
  bind (std_index nframes f as_index) (fun k => Ok (read_frame w R C bytes k)).

Definition get_frame_rw (w : nat) (R C M nframes : Z) (bytes : list Z)
           (maps : list (list (string * mapping))) (sel : selector)
           (f : Z) (as_index : bool) : res (list Q) :=
  bind (std_index nframes f as_index) (fun k =>
  bind (select_mapping (frame_maps maps M k) sel) (fun m =>
  apply_mapping m (read_frame w R C bytes k))).

Fixpoint res_all {A} (l : list (res A)) : res (list A) :=
  match l with
  | [] => Ok []
  | Ok a :: r => bind (res_all r) (fun t => Ok (a :: t))
  | Err k :: _ => Err k
  end.

(* get_frames: the (possibly shared) transform is built from the first requested
   frame; np.stack of nothing raises *)
Definition get_frames_rw (w : nat) (R C M nframes : Z) (bytes : list Z)
           (maps : list (list (string * mapping))) (sel : selector)
           (fs : list Z) (as_index : bool) : res (list (list Q)) :=
  match fs with
  | [] =>                                   (* transform of frame index 0, then np.stack([]) *)
    bind (select_mapping (frame_maps maps M 0) sel) (fun _ => Err "ValueError")
  | f0 :: _ =>
    bind (std_index nframes f0 as_index) (fun k0 =>
    bind (select_mapping (frame_maps maps M k0) sel) (fun _ =>
    res_all (map (fun f => get_frame_rw w R C M nframes bytes maps sel f as_index) fs)))
  end.

(* ---- SCImage ------------------------------------------------------------- *)
Inductive photo := Mono1 | Mono2 | RGB | YbrFull | YbrFull422 | YbrIct | YbrRct | Palette
                 | PInvalid.
Record sccfg := {
  s_dtype : dtype;
  s_ba : Z;                 (* bits_allocated argument *)
  s_shape : list Z;
  s_pi : photo;
  s_ts : tsyn;
  s_max12 : bool            (* pixel_array.max() < 2**12 *)
}.
Definition sc_ts_ok (t : tsyn) : bool :=
  match t with BigEndian | Deflated => false | _ => true end.
Definition photo_in (p : photo) (l : list photo) : bool :=
  existsb (fun q => match p, q with
    | Mono1, Mono1 | Mono2, Mono2 | RGB, RGB | YbrFull, YbrFull | YbrFull422, YbrFull422
    | YbrIct, YbrIct | YbrRct, YbrRct | Palette, Palette => true | _, _ => false end) l.

Inductive encoding := ENative8 | ENative16 | EPacked | ECodec.

(* everything the decision depends on, as finite classes *)
Inductive bacls := B1 | B8 | B12 | B16 | BOther.
Definition ba_class (ba : Z) : bacls :=
  if ba =? 1 then B1 else if ba =? 8 then B8 else if ba =? 12 then B12
  else if ba =? 16 then B16 else BOther.
Inductive shcls := S0 | S1 | S2 | S3 (three_channels : bool) | SMore.
Definition sh_class (sh : list Z) : shcls :=
  match sh with
  | [] => S0 | [_] => S1 | [_; _] => S2 | [_; _; ch] => S3 (ch =? 3) | _ => SMore
  end.
Record sccls := {
  k_dtype : dtype; k_ba : bacls; k_sh : shcls; k_pi : photo; k_ts : tsyn;
  k_max12 : bool;       (* pixel_array.max() < 2**12 *)
  k_mult8 : bool;       (* rows * columns is a multiple of 8 *)
  k_small : bool        (* rows < 32 or columns < 32 *)
}.
Definition sc_classify (c : sccfg) : sccls :=
  let rows := nth 0 (s_shape c) 0 in
  let cols := nth 1 (s_shape c) 0 in
  {| k_dtype := s_dtype c; k_ba := ba_class (s_ba c); k_sh := sh_class (s_shape c);
     k_pi := s_pi c; k_ts := s_ts c; k_max12 := s_max12 c;
     k_mult8 := (rows * cols) mod 8 =? 0;
     k_small := (rows <? 32) || (cols <? 32) |}.

(* SCImage.__init__ checks in source order, then frame.encode_frame's checks;
   result: BitsAllocated, BitsStored, SamplesPerPixel, how the frame is encoded *)
Definition sc_validate_fin (k : sccls) : res (Z * Z * Z * encoding) :=
  if negb (sc_ts_ok (k_ts k)) then Err "ValueError"
  else match k_sh k with
  | S0 | S1 => Err "IndexError"                      (* pixel_array.shape[1] *)
  | sh =>
    match k_dtype k with
    | DBool | DU8 | DU16 =>
      let wrong := match k_dtype k, k_ba k with
                   | DBool, B1 | DU8, B8 | DU16, B12 | DU16, B16 => false
                   | _, _ => true end in
      if wrong then Err "ValueError"
      else match k_ba k with
      | BOther => Err "ValueError"
      | bc =>
        let rle_bad := match k_ts k, bc with RLE, (B1 | B12) => true | _, _ => false end in
        if rle_bad then Err "ValueError"
        else if (match bc with B12 => negb (k_max12 k) | _ => false end) then Err "ValueError"
        else
          let balloc := match bc with B1 => 1 | B8 => 8 | _ => 16 end in
          let bstored := match bc with B1 => 1 | B8 => 8 | B12 => 12 | _ => 16 end in
          match k_pi k with
          | PInvalid => Err "ValueError"
          | p =>
            let encode (spp : Z) : res (Z * Z * Z * encoding) :=
              if ts_native (k_ts k) then
                match bc with
                | B1 => if negb (k_mult8 k) then Err "ValueError" else Ok (balloc, bstored, spp, EPacked)
                | B8 => Ok (balloc, bstored, spp, ENative8)
                | _ => Ok (balloc, bstored, spp, ENative16)
                end
              else match k_ts k with
              | JPEGBase =>
                  match bc with B8 => Ok (balloc, bstored, spp, ECodec) | _ => Err "ValueError" end
              | RLE => Ok (balloc, bstored, spp, ECodec)
              | t =>
                  let depth_ok := match bc, t with
                                  | B1, J2KLossless => true | B1, _ => false | _, _ => true end in
                  if (spp =? 1) && negb depth_ok then Err "ValueError"
                  else if (match t with J2K | J2KLossless => k_small k | _ => false end)
                    then Err "ValueError"
                  else Ok (balloc, bstored, spp, ECodec)
              end in
            match sh with
            | S2 =>
                if negb (photo_in p [Mono1; Mono2]) then Err "ValueError" else encode 1
            | S3 ch3 =>
                let accepted := match k_ts k with
                                | JPEGBase => [YbrFull422] | J2K => [YbrIct]
                                | J2KLossless => [YbrRct] | _ => [RGB; YbrFull] end in
                if negb (photo_in p accepted) then Err "ValueError"
                else if negb ch3 then Err "ValueError"
                else match bc with
                     | B8 => match k_ts k, p with
                             | (JLS | JLSNear), YbrFull => Err "ValueError"   (* encode_frame: required_pi *)
                             | _, _ => encode 3
                             end
                     | _ => Err "ValueError"
                     end
            | _ => Err "ValueError"
            end
          end
      end
    | _ => Err "TypeError"
    end
  end.
Definition sc_validate (c : sccfg) : res (Z * Z * Z * encoding) := sc_validate_fin (sc_classify c).

(* stored PixelData (native) of the flattened words *)
Definition sc_encode (e : encoding) (ws : list Z) : list Z :=
  match e with
  | ENative8 => let b := flat_map (le_bytes 1) ws in         (* odd byte count: trailing null byte (D96) *)
                if Nat.even (length b) then b else b ++ [0]
  | ENative16 => flat_map (le_bytes 2) ws
  | EPacked => let b := pack_bits (length ws / 8) ws in      (* pydicom pack_bits pads to even length *)
               if Nat.even (length b) then b else b ++ [0]
  | ECodec => []
  end.
(* what pydicom's native decoder does with those bytes *)
Definition sc_decode (e : encoding) (n : nat) (bytes : list Z) : list Z :=
  match e with
  | ENative8 => unbytes 1 n bytes
  | ENative16 => unbytes 2 n bytes
  | EPacked => firstn n (unpack_bits bytes)
  | ECodec => []
  end.

(* ---- boundary functions for the correspondence run ---------------------- *)
Definition get_nested (a : list (list (list (list Z)))) (i r c j : Z) : Z :=
  nth (Z.to_nat j) (nth (Z.to_nat c) (nth (Z.to_nat r) (nth (Z.to_nat i) a []) []) []) 0.

Definition vplacement (p : placement) : val :=
  match p with Shared => VS "shared" | PerFrame j => VZ j end.
(* per frame: position keys of its plane (one per dimension), DimensionIndexValues, placement *)
Definition vmeta (cols : list (list (list Z))) (m : frame_meta) : val :=
  VL [VL (map (fun col => vz_list (nth (Z.to_nat (fm_plane m)) col [])) cols);
      vz_list (fm_div m); vplacement (fm_rwvm m)].

(* ParametricMap(...) : error, or [attr; BitsAllocated; NumberOfFrames; Rows; Columns;
   in-memory bytes of the attribute (native) or None; file keeps those bytes;
   frames decoded by pydicom after a file round trip (codec / file I/O premise);
   per-frame metadata] *)
Definition run_pm_store (c : pmcfg) (a : list (list (list (list Z))))
           (cols : list (list (list Z))) : val :=
  vres (fun t => match t with (n, r, cc, m, at_, w) =>
    VL [VS (attr_name at_); VZ (8 * Z.of_nat w); VZ (n * m); VZ r; VZ cc;
        (if ts_native (c_ts c) then vz_list (pm_bytes (get_nested a) n r cc m w) else VNone);
        VB true;
        vz_list2 (pm_frames (get_nested a) n r cc m);
        VL (map (vmeta cols) (pm_meta cols n m))] end)
    (pm_validate c).

(* integer map written natively, then read through the image interface *)
Definition run_pm_read_stored (w : nat) (a : list (list (list (list Z)))) (N R C M : Z)
           (fs : list Z) (as_index : bool) : val :=
  vres vz_list2
    (res_all (map (fun f => get_stored_frame w R C (N * M)
                              (pm_bytes (get_nested a) N R C M w) f as_index) fs)).

Definition run_pm_read_rw (batch : bool) (w : nat) (a : list (list (list (list Z)))) (N R C M : Z)
           (maps : list (list (string * mapping))) (sel : selector)
           (fs : list Z) (as_index : bool) : val :=
  let bytes := pm_bytes (get_nested a) N R C M w in
  vres (fun l => VL (map vq_list l))
    (if batch then get_frames_rw w R C M (N * M) bytes maps sel fs as_index
     else res_all (map (fun f => get_frame_rw w R C M (N * M) bytes maps sel f as_index) fs)).

Definition run_rwvm (has_lut has_slope has_intercept float_range : bool) (n_lut first last : Z) : val :=
  vres VB (rwvm_validate has_lut has_slope has_intercept float_range n_lut first last).

(* SCImage(...) : error, or [BitsAllocated; BitsStored; SamplesPerPixel; stored bytes or None;
   decoded words] *)
Definition run_sc (c : sccfg) (ws : list Z) : val :=
  vres (fun t => match t with (ba, bs, spp, e) =>
    VL [VZ ba; VZ bs; VZ spp;
        (match e with ECodec => VNone | _ => vz_list (sc_encode e ws) end);
        (match e with ECodec => vz_list ws
                    | _ => vz_list (sc_decode e (length ws) (sc_encode e ws)) end)] end)
    (sc_validate c).

(* ======================================================================== *)
(* extension: more read entry points and options of the image interface      *)
(* ======================================================================== *)
(* frame_numbers=None: every frame in stored order, in the requested convention *)
Definition all_frames (nframes : Z) (as_index : bool) : list Z :=
  if as_index then zrange nframes else map (fun k => k + 1) (zrange nframes).

(* image.get_stored_frames: loop of get_stored_frame, then np.stack (refuses nothing to stack) *)
Definition get_stored_frames (w : nat) (R C nframes : Z) (bytes : list Z)
           (fs : option (list Z)) (as_index : bool) : res (list (list Z)) :=
  let l := match fs with Some l => l | None => all_frames nframes as_index end in
  bind (res_all (map (fun f => get_stored_frame w R C nframes bytes f as_index) l)) (fun out =>
  match out with [] => Err "ValueError" | _ => Ok out end).

(* _CombinedPixelTransform.__init__: which transform the three tri-state flags
   (apply_real_world_transform, apply_modality_transform, apply_voi_transform; None/True/False)
   select on a parametric map built by the constructor: monochrome, real world value mappings
   present, identity rescale (PixelValueTransformationSequence) present, a LINEAR window
   (FrameVOILUTSequence) present, PresentationLUTShape IDENTITY *)
Definition tri_use (f : option bool) : bool := match f with None => true | Some b => b end.
Definition tri_req (f : option bool) : bool := match f with None => false | Some b => b end.
Inductive tmode := TRealWorld (require_voi : bool) | TStored | TWindow.
Definition resolve_flags (rw md voi : option bool) : res tmode :=
  let require_rwvm := tri_req rw in
  let require_mod := tri_req md in
  if require_mod && require_rwvm then Err "ValueError"
  else
    let use_rwvm := if require_mod then false else tri_use rw in
    let require_voi := tri_req voi in
    let use_mod := if require_rwvm then false else tri_use md in
    let use_voi := if require_rwvm && negb require_voi then false else tri_use voi in
    if use_voi && negb use_mod then Err "ValueError"
    else if use_rwvm then Ok (TRealWorld require_voi)
    else if use_voi then Ok TWindow
    else Ok TStored.

(* pixels.apply_voi_window, LINEAR, output range (0, 1), not inverted; exact rationals.
   width 1 divides by zero in the code (not drawn; the model's value there is meaningless) *)
Definition qclip01 (q : Q) : Q := if Qle_bool q 0 then 0%Q else if Qle_bool 1 q then 1%Q else q.
Definition voi_linear (center width : Q) (x : Z) : Q :=
  qclip01 ((inject_Z x - (center - width / 2)) * (1 / (width - 1)))%Q.

(* get_frame with the three flags *)
Definition frame_transform (maps_k : list (string * mapping)) (sel : selector)
           (rw md voi : option bool) (center width : Q) : res (list Z -> res (list Q)) :=
  bind (resolve_flags rw md voi) (fun t =>
  match t with
  | TRealWorld require_voi =>
      bind (select_mapping maps_k sel) (fun m =>
      if require_voi then Err "RuntimeError"      (* VOI superseded by the real world mapping *)
      else Ok (apply_mapping m))
  | TStored => Ok (fun ws => Ok (map inject_Z ws))
  | TWindow => Ok (fun ws => Ok (map (voi_linear center width) ws))
  end).

Definition get_frame_flags (w : nat) (R C M nframes : Z) (bytes : list Z)
           (maps : list (list (string * mapping))) (sel : selector)
           (rw md voi : option bool) (center width : Q)
           (f : Z) (as_index : bool) : res (list Q) :=
  bind (std_index nframes f as_index) (fun k =>
  bind (frame_transform (frame_maps maps M k) sel rw md voi center width) (fun t =>
  t (read_frame w R C bytes k))).

Definition get_frames_flags (w : nat) (R C M nframes : Z) (bytes : list Z)
           (maps : list (list (string * mapping))) (sel : selector)
           (rw md voi : option bool) (center width : Q)
           (fs : option (list Z)) (as_index : bool) : res (list (list Q)) :=
  let l := match fs with Some l => l | None => all_frames nframes as_index end in
  match l with
  | [] => bind (frame_transform (frame_maps maps M 0) sel rw md voi center width)
               (fun _ => Err "ValueError")
  | f0 :: _ =>
    bind (std_index nframes f0 as_index) (fun k0 =>
    bind (frame_transform (frame_maps maps M k0) sel rw md voi center width) (fun _ =>
    res_all (map (fun f => get_frame_flags w R C M nframes bytes maps sel rw md voi center width
                             f as_index) l)))
  end.

(* pm/content.py RealWorldValueMapping.apply(array): a LUT needs an integer array *)
Definition rwvm_apply (int_array : bool) (m : mapping) (ws : list Z) : res (list Q) :=
  match m with
  | MLut _ _ => if negb int_array then Err "ValueError" else apply_mapping m ws
  | MLin _ _ _ _ => apply_mapping m ws
  end.

(* Image.get_volume of a single-channel map whose planes differ in the z coordinate only
   (regular spacing is a precondition: the harness draws nothing else): frames must be
   identified by their positions; slices in descending z (image normal of the axial sources) *)
Definition zkey (p : list Z) : Z := nth 2 p 0.
Fixpoint insert_desc (x : list Z * list Z) (l : list (list Z * list Z)) : list (list Z * list Z) :=
  match l with
  | [] => [x]
  | y :: r => if zkey (fst y) <? zkey (fst x) then x :: l else y :: insert_desc x r
  end.
Definition sort_desc (l : list (list Z * list Z)) : list (list Z * list Z) :=
  fold_right insert_desc [] l.
Definition pm_volume (pos : list (list Z)) (frames : list (list Z))
  : res (list (list Z * list Z)) :=
  if (length (dedup pos) <? length pos)%nat then Err "RuntimeError"
  else Ok (sort_desc (combine pos frames)).

(* ---- boundary functions (extension) --------------------------------------- *)
Definition run_pm_read_batch (w : nat) (a : list (list (list (list Z)))) (N R C M : Z)
           (fs : option (list Z)) (as_index : bool) : val :=
  vres vz_list2 (get_stored_frames w R C (N * M) (pm_bytes (get_nested a) N R C M w) fs as_index).

Definition run_pm_read_flags (batch : bool) (w : nat) (a : list (list (list (list Z)))) (N R C M : Z)
           (maps : list (list (string * mapping))) (sel : selector)
           (rw md voi : option bool) (center width : Q)
           (fs : option (list Z)) (as_index : bool) : val :=
  let bytes := pm_bytes (get_nested a) N R C M w in
  vres (fun l => VL (map vq_list l))
    (if batch then get_frames_flags w R C M (N * M) bytes maps sel rw md voi center width fs as_index
     else res_all (map (fun f => get_frame_flags w R C M (N * M) bytes maps sel rw md voi
                                   center width f as_index)
                       (match fs with Some l => l | None => [] end))).

Definition run_rwvm_apply (int_array : bool) (m : mapping) (ws : list Z) : val :=
  vres vq_list (rwvm_apply int_array m ws).

(* stored map read back as a volume: per slice [position; values] *)
Definition run_pm_volume (w : nat) (a : list (list (list (list Z)))) (N R C : Z)
           (pos : list (list Z)) (rw : option mapping) : val :=
  let bytes := pm_bytes (get_nested a) N R C 1 w in
  let frames := map (read_frame w R C bytes) (zrange N) in
  vres (fun l => VL l)
    (bind (pm_volume pos frames) (fun sl =>
     res_all (map (fun pf =>
       match rw with
       | None => Ok (VL [vz_list (fst pf); vz_list (snd pf)])
       | Some m => bind (apply_mapping m (snd pf)) (fun vs => Ok (VL [vz_list (fst pf); vq_list vs]))
       end) sl))).

(* ======================================================================== *)
(* strengthening 3: ONE image object, a sequence of accesses                  *)
(* (image.py keeps the decoded whole pixel array in _pixel_array once          *)
(*  pixel_array has been read; every frame accessor then serves from it)      *)
(* ======================================================================== *)
Inductive op :=
| OPixelArray                                                  (* im.pixel_array *)
| OStoredFrame (f : Z) (ai : bool)                             (* get_stored_frame *)
| OStoredFrames (fs : option (list Z)) (ai : bool)             (* get_stored_frames *)
| OFrame (rw md voi : option bool) (f : Z) (ai : bool)         (* get_frame *)
| OFrames (rw md voi : option bool) (fs : option (list Z)) (ai : bool).   (* get_frames *)

Section Session.
  Variable w : nat.
  Variables R C M n : Z.
  Variable bytes : list Z.
  Variable maps : list (list (string * mapping)).
  Variable sel : selector.
  Variables center width : Q.

  (* state of the object: the cached decoded array (list of frames), if any *)
  Definition cache := option (list (list Z)).

  (* the whole array as decoded at once: frame k of it is PixelData[k*len:(k+1)*len] *)
  Definition decode_all : list (list Z) := map (read_frame w R C bytes) (zrange n).

  (* stored values of the frame with standardised index k:
       _pixel_array is None  -> get_raw_frame + decode_frame
       otherwise             -> pixel_array[k]  (the whole array if there is one frame) *)
  Definition frame_at (st : cache) (k : Z) : list Z :=
    match st with
    | None => read_frame w R C bytes k
    | Some arr => if n =? 1 then nth 0 arr [] else nth (Z.to_nat k) arr []
    end.

  Definition s_stored_frame (st : cache) (f : Z) (ai : bool) : res (list Z) :=
    bind (std_index n f ai) (fun k => Ok (frame_at st k)).

  (* loop over the requested numbers IN THE ORDER GIVEN, one output frame per request *)
  Definition s_stored_frames (st : cache) (fs : option (list Z)) (ai : bool) : res (list (list Z)) :=
    let l := match fs with Some l => l | None => all_frames n ai end in
    bind (res_all (map (fun f => s_stored_frame st f ai) l)) (fun out =>
    match out with [] => Err "ValueError" | _ => Ok out end).

  (* get_frame = index check, get_stored_frame (cache aware), transform of that frame *)
  Definition s_frame (st : cache) (rw md voi : option bool) (f : Z) (ai : bool) : res (list Q) :=
    bind (std_index n f ai) (fun k =>
    bind (frame_transform (frame_maps maps M k) sel rw md voi center width) (fun t =>
    t (frame_at st k))).

  (* get_frames: own loop; transform built from the first requested frame first *)
  Definition s_frames (st : cache) (rw md voi : option bool) (fs : option (list Z)) (ai : bool)
    : res (list (list Q)) :=
    let l := match fs with Some l => l | None => all_frames n ai end in
    match l with
    | [] => bind (frame_transform (frame_maps maps M 0) sel rw md voi center width)
                 (fun _ => Err "ValueError")
    | f0 :: _ =>
      bind (std_index n f0 ai) (fun k0 =>
      bind (frame_transform (frame_maps maps M k0) sel rw md voi center width) (fun _ =>
      res_all (map (fun f => s_frame st rw md voi f ai) l)))
    end.

  (* pixel_array: cached array if present; else decode everything (lazy reader: get_stored_frame(1)
     for one frame, get_stored_frames() otherwise; eager / in-memory: pydicom's decoder of the whole
     element, the same words by oracle premise 2) and keep it *)
  Definition s_pixel_array (st : cache) : res (list (list Z)) * cache :=
    match st with
    | Some arr => (Ok arr, st)
    | None =>
      let r := if n =? 1 then bind (s_stored_frame None 1 false) (fun f => Ok [f])
               else s_stored_frames None None false in
      (r, match r with Ok arr => Some arr | Err _ => None end)
    end.

  Definition exec (st : cache) (o : op) : val * cache :=
    match o with
    | OPixelArray => let (r, st') := s_pixel_array st in (vres vz_list2 r, st')
    | OStoredFrame f ai => (vres vz_list (s_stored_frame st f ai), st)
    | OStoredFrames fs ai => (vres vz_list2 (s_stored_frames st fs ai), st)
    | OFrame rw md voi f ai => (vres vq_list (s_frame st rw md voi f ai), st)
    | OFrames rw md voi fs ai => (vres (fun l => VL (map vq_list l)) (s_frames st rw md voi fs ai), st)
    end.

  Fixpoint session (st : cache) (ops : list op) : list val :=
    match ops with
    | [] => []
    | o :: rest => let (v, st') := exec st o in v :: session st' rest
    end.
End Session.

(* boundary: a freshly opened image of the map built from array a, then the accesses in order;
   one result per access *)
Definition run_pm_session (w : nat) (a : list (list (list (list Z)))) (N R C M : Z)
           (maps : list (list (string * mapping))) (sel : selector) (center width : Q)
           (ops : list op) : val :=
  VL (session w R C M (N * M) (pm_bytes (get_nested a) N R C M w) maps sel center width None ops).

(* ======================================================================== *)
(* extension 4: sub-ranges of the volume read and maps with several channels  *)
(* (Image.get_volume arguments slice_start / slice_end, row_start / row_end,   *)
(*  column_start / column_end, as_indices)                                    *)
(* ======================================================================== *)
Definition zrange2 (a b : Z) : list Z := map (fun k => a + k) (zrange (b - a)).

(* one-based numbers -> zero-based indices (0 is refused, negatives kept) *)
Definition num0 (ai : bool) (v : option Z) : res (option Z) :=
  match v with
  | None => Ok None
  | Some x => if ai then Ok (Some x)
              else if x =? 0 then Err "ValueError"
              else Ok (Some (if 0 <? x then x - 1 else x))
  end.

(* image._standardize_slice_indices (n = number of volume positions) *)
Definition std_slice (ss se : option Z) (n : Z) (ai : bool) : res (Z * Z) :=
  bind (num0 ai ss) (fun ss' =>
  bind (num0 ai se) (fun se' =>
  let s0 := match ss' with None => 0 | Some x => x end in
  let s := if s0 <? 0 then n + s0 else s0 in
  bind (match se' with
        | None => Ok n
        | Some x => if n <? x then Err "IndexError"
                    else if x <? 0 then (if x <? - n then Err "IndexError" else Ok (n + x))
                    else Ok x
        end) (fun e =>
  if e - s <? 1 then Err "ValueError" else Ok (s, e)))).

(* image._standardize_row_column_indices for one axis of n rows (columns), outputs_as_indices=True.
   Rows and columns are checked interleaved in the code; every refusal is a ValueError, so the
   order between the two axes cannot be observed *)
Definition std_axis (st en : option Z) (n : Z) (ai : bool) : res (Z * Z) :=
  let up := fun (o : option Z) (d : Z) =>
    match o with None => d | Some v => if ai && (0 <=? v) then v + 1 else v end in
  let st1 := up st 1 in
  let en1 := up en (n + 1) in
  if st1 =? 0 then Err "ValueError"
  else if en1 =? 0 then Err "ValueError"
  else
    bind (if n <? st1 then Err "ValueError"
          else if st1 <? 0 then (if n + st1 + 1 <? 1 then Err "ValueError" else Ok (n + st1 + 1))
          else Ok st1) (fun s =>
    bind (if n + 1 <? en1 then Err "ValueError"
          else if en1 <? 0 then (if n + en1 + 1 <? 1 then Err "ValueError" else Ok (n + en1 + 1))
          else Ok en1) (fun e =>
    Ok (s - 1, e - 1))).

(* array[:, r0:r1, c0:c1] of one slice stored row-major with C columns *)
Definition crop_frame {A} (d : A) (C r0 r1 c0 c1 : Z) (fr : list A) : list A :=
  flat_map (fun r => map (fun c => nth (Z.to_nat (r * C + c)) fr d) (zrange2 c0 c1)) (zrange2 r0 r1).

Record volargs := {
  v_ss : option Z; v_se : option Z;      (* slice_start, slice_end *)
  v_rs : option Z; v_re : option Z;      (* row_start, row_end *)
  v_cs : option Z; v_ce : option Z;      (* column_start, column_end *)
  v_ai : bool                            (* as_indices *)
}.

(* Image.get_volume (not tiled) of a map with M channels: every plane position occurs M times in
   the frame table; order of the steps as in the code: rows/columns standardised, frames must be
   identified by position, slices standardised (a start below -n passes the standardiser: below -2n
   the geometry refuses the standardised start < -n with a ValueError, otherwise the placement of
   the frames into the output array fails with an IndexError), the requested
   slices are read and transformed (tr), the array is cropped (an empty crop is refused when the
   geometry is indexed).  Result: (rows, columns, [(position of the uncropped slice, values)]) *)
Definition pm_volume_sub {A} (d : A) (tr : list Z -> res (list A)) (R C M : Z)
           (pos : list (list Z)) (frames : list (list Z)) (a : volargs)
  : res (Z * Z * list (list Z * list A)) :=
  bind (std_axis (v_rs a) (v_re a) R (v_ai a)) (fun rr =>
  bind (std_axis (v_cs a) (v_ce a) C (v_ai a)) (fun cc =>
  bind (pm_volume (flat_map (fun p => repeat p (Z.to_nat M)) pos) frames) (fun sl =>
  bind (std_slice (v_ss a) (v_se a) (Z.of_nat (length sl)) (v_ai a)) (fun se =>
  if fst se <? 0 then (if fst se <? - Z.of_nat (length sl) then Err "ValueError" else Err "IndexError")
  else
    bind (res_all (map (fun pf => bind (tr (snd pf)) (fun v => Ok (fst pf, v)))
                       (firstn (Z.to_nat (snd se - fst se)) (skipn (Z.to_nat (fst se)) sl))))
         (fun out =>
    if (snd rr <=? fst rr) || (snd cc <=? fst cc) then Err "IndexError"
    else Ok (snd rr - fst rr, snd cc - fst cc,
             map (fun pf => (fst pf, crop_frame d C (fst rr) (snd rr) (fst cc) (snd cc) (snd pf)))
                 out)))))).

(* boundary: [[rows; columns]; [position; values] per slice] *)
Definition run_pm_volume_sub (w : nat) (a : list (list (list (list Z)))) (N R C M : Z)
           (pos : list (list Z)) (rw : option mapping) (args : volargs) : val :=
  let bytes := pm_bytes (get_nested a) N R C M w in
  let frames := map (read_frame w R C bytes) (zrange (N * M)) in
  match rw with
  | None =>
      vres (fun t => match t with (nr, nc, sl) =>
              VL [vz_list [nr; nc]; VL (map (fun pf => VL [vz_list (fst pf); vz_list (snd pf)]) sl)] end)
           (pm_volume_sub 0 (fun ws => Ok ws) R C M pos frames args)
  | Some m =>
      vres (fun t => match t with (nr, nc, sl) =>
              VL [vz_list [nr; nc]; VL (map (fun pf => VL [vz_list (fst pf); vq_list (snd pf)]) sl)] end)
           (pm_volume_sub 0%Q (apply_mapping m) R C M pos frames args)
  end.
