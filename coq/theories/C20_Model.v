(* C20 - building objects never alters inputs and always yields valid files.

   Part 1  effect language of the from_dataset / from_sequence /
           extract_from_dataset converters, concrete semantics on a tagged
           heap, abstract checker [ok].  The terms are generated from the
           CURRENT source by harness/translate_c20.py (C20_Converters.v).
   Part 2  string guards of valuerep.py and pydicom's validators.
   Part 3  identifier generation (uid.py / pydicom.uid.generate_uid).
   Part 4  run_* boundary functions for the correspondence run.
   Part 5  storage of palette colour look-up tables (content.py).
   Part 6  identifiers of the objects of one multi-object call
           (seg/pyramid.py create_segmentation_pyramid).
   Part 7  little-endian serialisation of native Parametric Map frames
           (pm/sop.py _encode_frame).
   Part 8  SOPClass.__init__ (base.py).  Part 9  one segment plane and the
           ownership algebra of numpy results (seg/sop.py).
   Part 10 SegmentedPaletteColorLUT.__init__: number of expanded entries,
           descriptor, stored bytes (content.py).
   Part 11 the pixel measures a Segmentation records: origin of the sequence
           and copy-before-write (seg/sop.py __init__).
   Part 12 displayed area of a presentation state: which referenced image is
           selected and what happens to the caller's list (pr/content.py).

   No proofs in this file. *)
From Coq Require Import String ZArith List Bool Arith PeanoNat.
From HD Require Import Base.Val.
Import ListNotations.
Close Scope Z_scope.
Open Scope nat_scope.

(* ------------------------------------------------------------------ *)
(** * Part 1a: tagged heap                                              *)
(* ------------------------------------------------------------------ *)

(* TO: object of the caller's argument graph (exists before the call);
   TF: allocated by the converter (deepcopy, Dataset(), [...], nested
   converter called with copy=True).  The tag is ghost state. *)
Inductive tag := TO | TF.
Record obj := { otag : tag; ocls : nat; okids : list nat }.  (* children by address *)
Definition heap := list obj.                                  (* address = position *)
Definition get (h : heap) (a : nat) : option obj := nth_error h a.
Definition env := nat -> nat.                                 (* variable -> address *)
Definition upd_env (e : env) (x a : nat) : env := fun v => if Nat.eqb v x then a else e v.

Inductive reach (h : heap) : nat -> nat -> Prop :=
| reach_refl a : reach h a a
| reach_step a b c o : get h a = Some o -> In b (okids o) -> reach h b c -> reach h a c.

(* every existing object reachable from a was allocated by the converter *)
Definition closedF (h : heap) (a : nat) : Prop :=
  forall b o, reach h a b -> get h b = Some o -> otag o = TF.
Definition rootF (h : heap) (a : nat) : Prop :=
  forall o, get h a = Some o -> otag o = TF.

(* the caller's objects are untouched: content, class tag and ownership *)
Definition O_preserved (h h' : heap) : Prop :=
  forall a o, get h a = Some o -> otag o = TO -> get h' a = Some o.

(* One heap transition.  [M] = objects that may be rewritten (class and
   attribute list), [A] = objects that may become NEW children of rewritten
   or newly allocated objects.  Everything else is framed; tags never change;
   new objects are TF; a child of any object afterwards is an old child of
   the same object, an [A]-object, or a new object. *)
Record upd (A M : nat -> Prop) (h h' : heap) : Prop := {
  u_len : length h <= length h';
  u_frame : forall a o, get h a = Some o -> get h' a = Some o \/ M a;
  u_tag : forall a o o', get h a = Some o -> get h' a = Some o' -> otag o' = otag o;
  u_new : forall a o, length h <= a -> get h' a = Some o -> otag o = TF;
  u_kids : forall a o' k, get h' a = Some o' -> In k (okids o') ->
           (exists o, get h a = Some o /\ In k (okids o)) \/ A k \/ length h <= k
}.

(* ------------------------------------------------------------------ *)
(** * Part 1b: effect language                                          *)
(* ------------------------------------------------------------------ *)

Inductive cflag := FTrue | FFalse | FParam.     (* copy=True | copy=False | copy=copy *)

Inductive stmt :=
| Skip
| Check                                   (* validation that may raise *)
| Alias (x y : nat)                       (* x = y *)
| PathInto (x y : nat)                    (* x = y.attr[i]... : some object reachable from y *)
| New (x : nat) (ys : list nat)           (* x = Dataset() / [y1, y2] / Cls(y1, ...) *)
| Deepcopy (x y : nat)                    (* x = deepcopy(y) *)
| SetClass (x : nat)                      (* x.__class__ = cls *)
| SetAttr (x : nat) (ys : list nat)       (* x.attr = <value built from ys>; x.append(y) *)
| CallConv (x : nat) (f : string) (y : nat) (c : cflag)   (* x = F.from_dataset(y, copy=c) *)
| Seq (s1 s2 : stmt)
| IfCopy (s1 s2 : stmt)                   (* if copy: s1 else: s2 *)
| Choice (s1 s2 : stmt)                   (* any other conditional: both arms analysed *)
| Star (s : stmt).                        (* for-loop / comprehension: zero or more rounds *)

Fixpoint seqs (l : list stmt) : stmt :=
  match l with
  | [] => Skip
  | [s] => s
  | s :: r => Seq s (seqs r)
  end.

(* converter kinds and assumed summaries (assume-guarantee table) *)
Inductive cmode :=
| MStd       (* has a copy parameter, returns the converted argument (or its copy) *)
| MWrap      (* has a copy parameter, returns a NEW container over the converted items *)
| MNoCopy    (* no copy parameter: must never touch the argument *)
| MInPlace.  (* private helper converting its argument in place *)
Record summary := { smode : cmode; sclean : bool }.
    (* sclean: with copying, the result does not reach any caller-owned object *)
Definition modes := string -> option summary.

Inductive ckind := KCopy (clean : bool) | KDeepSame | KDeepWrap.
Definition call_kind (ms : modes) (cp : bool) (f : string) (c : cflag) : option ckind :=
  match ms f with
  | None => None
  | Some s =>
      let eff := match c with FTrue => true | FFalse => false | FParam => cp end in
      match smode s with
      | MNoCopy => Some (KCopy (sclean s))
      | MInPlace => Some KDeepSame
      | MStd => Some (if eff then KCopy (sclean s) else KDeepSame)
      | MWrap => Some (if eff then KCopy (sclean s) else KDeepWrap)
      end
  end.

Definition addrs (e : env) (ys : list nat) : nat -> Prop := fun k => exists y, In y ys /\ k = e y.
Definition nobody : nat -> Prop := fun _ => False.

(* primitive steps: [prim ms cp e h s e' h'] *)
Inductive prim (ms : modes) (cp : bool) (e : env) (h : heap) : stmt -> env -> heap -> Prop :=
| p_skip : prim ms cp e h Skip e h
| p_check : prim ms cp e h Check e h
| p_alias x y : prim ms cp e h (Alias x y) (upd_env e x (e y)) h
| p_path x y b : reach h (e y) b -> prim ms cp e h (PathInto x y) (upd_env e x b) h
| p_new x ys h' r : upd (addrs e ys) nobody h h' -> length h <= r ->
    prim ms cp e h (New x ys) (upd_env e x r) h'
| p_deepcopy x y h' r : upd nobody nobody h h' -> length h <= r ->
    prim ms cp e h (Deepcopy x y) (upd_env e x r) h'
| p_setclass x h' : upd nobody (fun a => a = e x) h h' ->
    prim ms cp e h (SetClass x) e h'
| p_setattr x ys h' : upd (addrs e ys) (fun a => a = e x) h h' ->
    prim ms cp e h (SetAttr x ys) e h'
| p_call_copy x f y c cl h' r : call_kind ms cp f c = Some (KCopy cl) ->
    upd (fun k => cl = false /\ reach h (e y) k) nobody h h' -> length h <= r ->
    prim ms cp e h (CallConv x f y c) (upd_env e x r) h'
| p_call_same x f y c h' : call_kind ms cp f c = Some KDeepSame ->
    upd (reach h (e y)) (reach h (e y)) h h' ->
    prim ms cp e h (CallConv x f y c) (upd_env e x (e y)) h'
| p_call_wrap x f y c h' r : call_kind ms cp f c = Some KDeepWrap ->
    upd (reach h (e y)) (reach h (e y)) h h' -> length h <= r ->
    prim ms cp e h (CallConv x f y c) (upd_env e x r) h'.

(* big-step execution; the flag is [true] for normal termination and [false]
   when an exception left the converter (after any prefix of its effects) *)
Inductive exec (ms : modes) (cp : bool) : stmt -> env -> heap -> bool -> env -> heap -> Prop :=
| ex_prim s e h e' h' : prim ms cp e h s e' h' -> exec ms cp s e h true e' h'
| ex_raise s e h e' h' : prim ms cp e h s e' h' -> exec ms cp s e h false e' h'
| ex_seq s1 s2 e h e1 h1 r e2 h2 :
    exec ms cp s1 e h true e1 h1 -> exec ms cp s2 e1 h1 r e2 h2 -> exec ms cp (Seq s1 s2) e h r e2 h2
| ex_seq_raise s1 s2 e h e1 h1 :
    exec ms cp s1 e h false e1 h1 -> exec ms cp (Seq s1 s2) e h false e1 h1
| ex_ifcopy s1 s2 e h r e' h' :
    exec ms cp (if cp then s1 else s2) e h r e' h' -> exec ms cp (IfCopy s1 s2) e h r e' h'
| ex_choice_l s1 s2 e h r e' h' : exec ms cp s1 e h r e' h' -> exec ms cp (Choice s1 s2) e h r e' h'
| ex_choice_r s1 s2 e h r e' h' : exec ms cp s2 e h r e' h' -> exec ms cp (Choice s1 s2) e h r e' h'
| ex_star_0 s e h : exec ms cp (Star s) e h true e h
| ex_star_S s e h e1 h1 r e2 h2 :
    exec ms cp s e h true e1 h1 -> exec ms cp (Star s) e1 h1 r e2 h2 -> exec ms cp (Star s) e h r e2 h2
| ex_star_raise s e h e1 h1 :
    exec ms cp s e h false e1 h1 -> exec ms cp (Star s) e h false e1 h1.

(* ------------------------------------------------------------------ *)
(** * Part 1c: abstract checker                                         *)
(* ------------------------------------------------------------------ *)

(* per variable: root certainly converter-allocated / nothing caller-owned
   reachable / certainly the argument object itself *)
Record aval := { afresh : bool; aclean : bool; asame : bool }.
Definition bot : aval := {| afresh := false; aclean := false; asame := false |}.
Definition aenv := list (nat * aval).
Fixpoint lookup (ae : aenv) (v : nat) : aval :=
  match ae with
  | [] => bot
  | (w, a) :: r => if Nat.eqb v w then a else lookup r v
  end.
Definition aset (ae : aenv) (v : nat) (a : aval) : aenv := (v, a) :: ae.
Definition unclean (a : aval) : aval := {| afresh := afresh a; aclean := false; asame := asame a |}.
Definition taint (ae : aenv) : aenv := map (fun p => (fst p, unclean (snd p))) ae.
Definition allclean (ae : aenv) (ys : list nat) : bool := forallb (fun y => aclean (lookup ae y)) ys.
(* linking objects that may reach the caller's graph into anything: no
   points-to graph, so every "clean" claim is dropped *)
Definition link (ae : aenv) (ys : list nat) : aenv := if allclean ae ys then ae else taint ae.

Definition ameet (a b : aval) : aval :=
  {| afresh := afresh a && afresh b; aclean := aclean a && aclean b; asame := asame a && asame b |}.
Definition aleb (a b : aval) : bool :=
  implb (afresh a) (afresh b) && implb (aclean a) (aclean b) && implb (asame a) (asame b).
Definition meet (a1 a2 : aenv) : aenv :=
  map (fun p => (fst p, ameet (lookup a1 (fst p)) (lookup a2 (fst p)))) a1.
Definition aenv_leb (a1 a2 : aenv) : bool :=
  forallb (fun p => aleb (lookup a1 (fst p)) (lookup a2 (fst p))) a1.

Fixpoint star_iter (f : aenv -> option aenv) (n : nat) (ae : aenv) : option aenv :=
  match f ae with
  | None => None
  | Some a1 =>
      if aenv_leb ae a1 then Some ae
      else match n with O => None | S n' => star_iter f n' (meet ae a1) end
  end.

(* a mutation through a variable that may be caller-owned is a rejection
   while copy = true; with copy = false the caller asked for it *)
Definition guard (cp b : bool) : bool := negb cp || b.

Fixpoint check (ms : modes) (cp : bool) (s : stmt) (ae : aenv) : option aenv :=
  match s with
  | Skip | Check => Some ae
  | Alias x y => Some (aset ae x (lookup ae y))
  | PathInto x y =>
      let c := aclean (lookup ae y) in
      Some (aset ae x {| afresh := c; aclean := c; asame := false |})
  | New x ys =>
      Some (aset (link ae ys) x {| afresh := true; aclean := allclean ae ys; asame := false |})
  | Deepcopy x y => Some (aset ae x {| afresh := true; aclean := true; asame := false |})
  | SetClass x => if guard cp (afresh (lookup ae x)) then Some ae else None
  | SetAttr x ys => if guard cp (afresh (lookup ae x)) then Some (link ae ys) else None
  | CallConv x f y c =>
      match call_kind ms cp f c with
      | None => None
      | Some (KCopy cl) =>
          let c' := cl || aclean (lookup ae y) in
          Some (aset (if c' then ae else taint ae) x {| afresh := true; aclean := c'; asame := false |})
      | Some KDeepSame =>
          if guard cp (aclean (lookup ae y))
          then Some (aset (link ae [y]) x (lookup (link ae [y]) y)) else None
      | Some KDeepWrap =>
          if guard cp (aclean (lookup ae y))
          then Some (aset (link ae [y]) x {| afresh := true; aclean := aclean (lookup ae y); asame := false |})
          else None
      end
  | Seq s1 s2 => match check ms cp s1 ae with Some a1 => check ms cp s2 a1 | None => None end
  | IfCopy s1 s2 => if cp then check ms cp s1 ae else check ms cp s2 ae
  | Choice s1 s2 =>
      match check ms cp s1 ae, check ms cp s2 ae with
      | Some a1, Some a2 => Some (meet a1 a2)
      | _, _ => None
      end
  | Star s1 => star_iter (check ms cp s1) 4 ae
  end.

(* a converter: variable 0 is the argument *)
Record conv := { cname : string; cbody : stmt; cret : nat }.
Definition init_ae : aenv := [(0, {| afresh := false; aclean := false; asame := true |})].

Definition ok_copy (ms : modes) (sm : summary) (c : conv) : bool :=
  match check ms true (cbody c) init_ae with
  | Some ae => let a := lookup ae (cret c) in afresh a && implb (sclean sm) (aclean a)
  | None => false
  end.
Definition ok_same (ms : modes) (c : conv) : bool :=
  match check ms false (cbody c) init_ae with
  | Some ae => asame (lookup ae (cret c))
  | None => false
  end.
Definition ok_runs (ms : modes) (c : conv) : bool :=
  match check ms false (cbody c) init_ae with Some _ => true | None => false end.

Definition ok (ms : modes) (c : conv) : bool :=
  match ms (cname c) with
  | None => false
  | Some sm =>
      match smode sm with
      | MStd => ok_copy ms sm c && ok_same ms c
      | MWrap => ok_copy ms sm c && ok_runs ms c
      | MNoCopy => ok_copy ms sm c
      | MInPlace => ok_same ms c
      end
  end.

(* constructor bodies [__init__(self, p1, .., pn)]: variable 0 is the object
   being built (converter-allocated, reaches nothing of the caller), nothing is
   assumed about the parameters; checked like a copy=True body *)
Definition ctor_ae : aenv := [(0, {| afresh := true; aclean := true; asame := false |})].
Definition ok_ctor (ms : modes) (s : stmt) : bool :=
  match check ms true s ctor_ae with Some _ => true | None => false end.

(* summary table: declared modes; the [sclean] bits are computed by
   iterating the checker downwards from "all clean" *)
Definition table := list (conv * cmode).
Fixpoint tlookup (t : list (string * summary)) (f : string) : option summary :=
  match t with
  | [] => None
  | (g, s) :: r => if String.eqb f g then Some s else tlookup r f
  end.
Definition clean_of (ms : modes) (c : conv) : bool :=
  match check ms true (cbody c) init_ae with
  | Some ae => aclean (lookup ae (cret c))
  | None => false
  end.
Definition refine1 (tb : table) (t : list (string * summary)) : list (string * summary) :=
  map (fun p => (cname (fst p),
                 {| smode := snd p;
                    sclean := match tlookup t (cname (fst p)) with
                              | Some s => sclean s && clean_of (tlookup t) (fst p)
                              | None => false end |})) tb.
Fixpoint refine (n : nat) (tb : table) (t : list (string * summary)) :=
  match n with O => t | S n' => refine n' tb (refine1 tb t) end.
Definition summaries0 (tb : table) : list (string * summary) :=
  map (fun p => (cname (fst p), {| smode := snd p; sclean := true |})) tb.
Definition summaries (tb : table) : list (string * summary) := refine 6 tb (summaries0 tb).
Definition all_ok (tb : table) : bool :=
  forallb (fun p => ok (tlookup (summaries tb)) (fst p)) tb.

(* ------------------------------------------------------------------ *)
(** * Part 2: string guards (valuerep.py) vs pydicom validators         *)
(* ------------------------------------------------------------------ *)
Open Scope Z_scope.

(* strings are lists of code points (Python len counts code points) *)
Definition str := list Z.
Definition is_upper (c : Z) := (65 <=? c) && (c <=? 90).
Definition is_digit (c : Z) := (48 <=? c) && (c <=? 57).
Definition cs_class (c : Z) := is_upper c || is_digit c || (c =? 32) || (c =? 95).  (* [A-Z0-9_ ] *)
Definition zlen (s : str) : Z := Z.of_nat (length s).
Definition last_is (p : Z -> bool) (s : str) : bool :=
  match rev s with c :: _ => p c | [] => false end.

(* highdicom.valuerep._check_code_string (after fix 5166f58):
     re.match(r'[A-Z0-9_ ]{1,16}\Z')  /  not re.match(r'[0-9 _]{1}.*')  /  not re.match(r'.*[_ ]$') *)
Definition hd_check_cs (s : str) : bool :=
  (1 <=? zlen s) && (zlen s <=? 16) && forallb cs_class s
  && negb (match s with c :: _ => is_digit c || (c =? 32) || (c =? 95) | [] => false end)
  && negb (last_is (fun c => (c =? 95) || (c =? 32)) s).

(* the version before the fix used '$' (which also matches before a final newline) *)
Definition dollar_match (cls : Z -> bool) (s : str) : bool :=
  forallb cls s || match rev s with 10 :: r => forallb cls r | _ => false end.
Definition hd_check_cs_old (s : str) : bool :=
  (match rev s with
   | 10 :: r => (1 <=? zlen r) && (zlen r <=? 16) && forallb cs_class r
   | _ => false end
   || ((1 <=? zlen s) && (zlen s <=? 16) && forallb cs_class s))
  && negb (match s with c :: _ => is_digit c || (c =? 32) || (c =? 95) | [] => false end)
  && negb (match rev s with
           | 10 :: c :: _ => (c =? 95) || (c =? 32)
           | c :: _ => (c =? 95) || (c =? 32)
           | [] => false end).

Definition no_backslash (s : str) : bool := forallb (fun c => negb (c =? 92)) s.
Inductive vr := CS | SH | LO | ST | LT.
Definition max_len (v : vr) : Z :=
  match v with CS => 16 | SH => 16 | LO => 64 | ST => 1024 | LT => 10240 end.
Definition hd_guard (v : vr) (s : str) : bool :=
  match v with
  | CS => hd_check_cs s
  | _ => (zlen s <=? max_len v) && no_backslash s
  end.

(* pydicom.valuerep.VALIDATORS: CS = length + regex '^[A-Z0-9 _]*$' with re.match
   plus the explicit "last character is newline" rejection (empty values skip
   the regex); SH/LO/ST/LT = type + length only *)
Definition pydicom_valid (v : vr) (s : str) : bool :=
  (zlen s <=? max_len v) &&
  match v with
  | CS => match s with
          | [] => true
          | _ => dollar_match cs_class s && negb (last_is (fun c => c =? 10) s)
          end
  | _ => true
  end.

(* ------------------------------------------------------------------ *)
(** * Part 3: identifiers                                               *)
(* ------------------------------------------------------------------ *)

(* decimal digits of n >= 0, most significant first (Python str(int)) *)
Fixpoint digits_aux (fuel : nat) (n : Z) : list Z :=
  match fuel with
  | O => [n mod 10]
  | S f => if n <? 10 then [n] else digits_aux f (n / 10) ++ [n mod 10]
  end.
(* fuel: a number with bit length b has at most b decimal digits *)
Definition dfuel (n : Z) : nat := S (Z.to_nat (Z.log2 n)).
Definition digits (n : Z) : list Z := digits_aux (dfuel n) n.
Definition dec (n : Z) : str := map (fun d => 48 + d) (digits n).

(* '2.25.' and highdicom's root '1.2.826.0.1.3680043.10.511.3.' *)
Definition prefix_uuid : str := [50; 46; 50; 53; 46].
Definition prefix_hd : str :=
  [49;46;50;46;56;50;54;46;48;46;49;46;51;54;56;48;48;52;51;46;49;48;46;53;49;49;46;51;46].
Definition uid_of (prefix : str) (n : Z) : str := prefix ++ dec n.

(* pydicom's UI validator: len <= 64 and the regex 'component (dot component) star'
   where component = 0 | [1-9][0-9] star; no trailing newline *)
Fixpoint split_dot (s : str) (cur : str) : list str :=
  match s with
  | [] => [rev cur]
  | c :: r => if c =? 46 then rev cur :: split_dot r [] else split_dot r (c :: cur)
  end.
Definition component_ok (c : str) : bool :=
  match c with
  | [] => false
  | [d] => is_digit d
  | d :: r => is_digit d && negb (d =? 48) && forallb is_digit r
  end.
Definition uid_valid (s : str) : bool :=
  (zlen s <=? 64) && forallb component_ok (split_dot s []).

(* ------------------------------------------------------------------ *)
(** * Part 4: boundary functions                                        *)
(* ------------------------------------------------------------------ *)
Definition run_guard (v : vr) (s : str) : val := VB (hd_guard v s).
Definition run_valid (v : vr) (s : str) : val := VB (pydicom_valid v s).
Definition run_uid (which : Z) (n : Z) : val :=
  vz_list (uid_of (if which =? 0 then prefix_uuid else prefix_hd) n).
Definition run_uid_valid (s : str) : val := VB (uid_valid s).

(* ------------------------------------------------------------------ *)
(** * Part 5: look-up table storage (content.py)                        *)
(* ------------------------------------------------------------------ *)

(* PaletteColorLUT.__init__: the table is stored as the OW value
   [lut_data.tobytes()]; an 8-bit table with an odd number of entries gets one
   zero byte so that the value has even length (pydicom would otherwise pad it
   when WRITING, and the file read back would differ from the object).
   PaletteColorLUTTransformation.__init__ copies descriptor and stored bytes of
   its three tables; the [lut_data] property strips the pad byte again. *)
Definition le16 (v : Z) : list Z := [v mod 256; v / 256].
Definition lut_bytes (bits : Z) (data : list Z) : list Z :=
  if bits =? 8 then data else flat_map le16 data.
Definition lut_pad (bits : Z) (data : list Z) : list Z :=
  if (bits =? 8) && Z.odd (zlen data) then [0] else [].
Definition palette_store (bits : Z) (data : list Z) : list Z := lut_bytes bits data ++ lut_pad bits data.
Definition entries_field (n : Z) : Z := if n =? 65536 then 0 else n.
Definition lut_descriptor (bits first : Z) (data : list Z) : list Z := [entries_field (zlen data); first; bits].

(* guards of PaletteColorLUT.__init__ (all ValueError): dtype, first mapped
   value in [0, 2^bits), 1 <= entries <= 2^bits *)
Definition palette_ok (bits first : Z) (data : list Z) : bool :=
  ((bits =? 8) || (bits =? 16)) && (0 <=? first) && (first <? 2 ^ bits) &&
  (1 <=? zlen data) && (zlen data <=? 2 ^ bits).
Definition palette_lut (bits first : Z) (data : list Z) : res (list Z * list Z) :=
  if palette_ok bits first data then Ok (lut_descriptor bits first data, palette_store bits data)
  else Err "ValueError".

(* LUT.__init__ (also VOILUT / ModalityLUT / PresentationLUT): first mapped
   value < 2^16, at most 2^16 entries for either width; stored little endian
   and padded to even length like the palette tables (since fix 90091a0, D93) *)
Definition plain_ok (bits first : Z) (data : list Z) : bool :=
  ((bits =? 8) || (bits =? 16)) && (0 <=? first) && (first <? 65536) &&
  (1 <=? zlen data) && (zlen data <=? 65536).
Definition plain_lut (bits first : Z) (data : list Z) : res (list Z * list Z) :=
  if plain_ok bits first data then Ok (lut_descriptor bits first data, palette_store bits data)
  else Err "ValueError".

(* the [lut_data] property *)
Fixpoint words16 (l : list Z) : list Z :=
  match l with a :: b :: r => (a + 256 * b) :: words16 r | _ => [] end.
Definition palette_read (bits n : Z) (stored : list Z) : list Z :=
  let d := if (bits =? 8) && Z.odd n && (zlen stored =? n + 1) then removelast stored else stored in
  if bits =? 8 then d else words16 d.

(* PaletteColorLUTTransformation.__init__ on three tables of one width and one
   first mapped value: equal numbers of entries or ValueError *)
Definition palette_tf (bits first : Z) (r g b : list Z) : res (list Z * list (list Z)) :=
  bind (palette_lut bits first r) (fun pr =>
  bind (palette_lut bits first g) (fun pg =>
  bind (palette_lut bits first b) (fun pb =>
  if (zlen r =? zlen g) && (zlen g =? zlen b)
  then Ok (fst pr, [snd pr; snd pg; snd pb]) else Err "ValueError"))).

(* ------------------------------------------------------------------ *)
(** * Part 6: identifiers of the objects built by one call              *)
(* ------------------------------------------------------------------ *)

(* create_segmentation_pyramid: number of output levels from the numbers of
   source images / pixel arrays and the down-sampling factors (given in
   quarters, so that 4 stands for 1.0), with the guards in source order *)
Fixpoint ascending (l : list Z) : bool :=
  match l with
  | a :: (b :: _) as r => (a <=? b) && ascending r
  | _ => true
  end.
Definition pyramid_outputs (n_src n_pix : Z) (factors4 : option (list Z)) : res Z :=
  if n_src =? 0 then Err "ValueError" else
  if n_pix =? 0 then Err "ValueError" else
  if (n_src =? 1) && (n_pix =? 1) then
    match factors4 with
    | None => Err "TypeError"
    | Some fs =>
        if zlen fs <? 1 then Err "ValueError" else
        if existsb (fun f => f <=? 4) fs then Err "ValueError" else
        if negb (ascending fs) then Err "ValueError" else Ok (zlen fs + 1)
    end
  else
    match factors4 with
    | Some _ => Err "TypeError"
    | None =>
        if (1 <? n_src) && (1 <? n_pix) then
          (if n_src =? n_pix then Ok n_src else Err "ValueError")
        else Ok (Z.max n_src n_pix)
    end.

(* the SOP Instance UID of each level: the caller's list (length checked) or
   one FRESH draw per level *)
Definition alloc_ids (n : Z) (given : option (list str)) (draws : list Z) : res (list str) :=
  match given with
  | Some l => if Z.of_nat (length l) =? n then Ok l else Err "ValueError"
  | None => Ok (map (uid_of prefix_hd) (firstn (Z.to_nat n) draws))
  end.

(* observation: every identifier is replaced by the position of its first
   occurrence; [canon l = 0, 1, 2, ...] exactly when no identifier repeats *)
Fixpoint str_eqb (a b : str) : bool :=
  match a, b with
  | [], [] => true
  | x :: a', y :: b' => (x =? y) && str_eqb a' b'
  | _, _ => false
  end.
Fixpoint first_index (l : list str) (x : str) : Z :=
  match l with
  | [] => 0
  | y :: r => if str_eqb y x then 0 else 1 + first_index r x
  end.
Definition canon (l : list str) : list Z := map (first_index l) l.
Definition iota (n : nat) : list Z := map Z.of_nat (seq 0 n).

(* ------------------------------------------------------------------ *)
(** * Part 7: native frames of a Parametric Map                         *)
(* ------------------------------------------------------------------ *)

(* An array element is the list of its bytes in MEMORY order; [be] says that
   the array has big-endian byte order.  Pixel data elements are little endian,
   frames are ordered plane-major / mapping-minor, pixels row-major. *)
Definition item_le (be : bool) (it : list Z) : list Z := if be then rev it else it.
Fixpoint le_val (l : list Z) : Z := match l with [] => 0 | b :: r => b + 256 * le_val r end.
Definition mem_val (be : bool) (it : list Z) : Z := le_val (item_le be it).
Definition pm_frame (be : bool) (plane : list (list (list Z))) (j : nat) : list Z :=
  flat_map (fun px => item_le be (nth j px [])) plane.
Definition pm_native (be : bool) (m : nat) (arr : list (list (list (list Z)))) : list Z :=
  flat_map (fun plane => flat_map (pm_frame be plane) (seq 0 m)) arr.

(* ------------------------------------------------------------------ *)
(** * boundary functions for parts 5-7                                  *)
(* ------------------------------------------------------------------ *)
Definition vlut (p : list Z * list Z) : val := VL [vz_list (fst p); vz_list (snd p)].
Definition run_palette_lut (bits first : Z) (data : list Z) : val := vres vlut (palette_lut bits first data).
Definition run_plain_lut (bits first : Z) (data : list Z) : val := vres vlut (plain_lut bits first data).
Definition run_palette_tf (bits first : Z) (r g b : list Z) : val :=
  vres (fun p => VL [vz_list (fst p); vz_list2 (snd p)]) (palette_tf bits first r g b).
Definition run_palette_read (bits : Z) (data : list Z) : val :=
  vz_list (palette_read bits (zlen data) (palette_store bits data)).

(* [given]: the caller's identifiers as draws (uid_of prefix_hd d); None: the
   library draws, and distinct draws are what secrets.randbelow is assumed to
   give (checked at run time by the uid_unique kind) *)
Definition run_pyramid_ids (n_src n_pix : Z) (factors4 : option (list Z)) (given : option (list Z)) : val :=
  vres (fun l => VL [VZ (Z.of_nat (length l)); vz_list (canon l)])
       (bind (pyramid_outputs n_src n_pix factors4) (fun n =>
        alloc_ids n (option_map (map (uid_of prefix_hd)) given) (iota (Z.to_nat n)))).

Definition run_pm_native (be : bool) (m : Z) (arr : list (list (list (list Z)))) : val :=
  vz_list (pm_native be (Z.to_nat m) arr).

(* ------------------------------------------------------------------ *)
(** * Part 8: SOPClass.__init__ (base.py): file meta and mandatory modules *)
(* ------------------------------------------------------------------ *)

(* transfer syntax argument: 0 absent (-> Implicit VR Little Endian), 1 implicit
   LE, 2 explicit LE, 3 explicit BIG endian, 4 deflated, 5 any encapsulated,
   other = a UID that is not a transfer syntax (pydicom raises ValueError) *)
Definition ts_known (t : Z) : bool := (0 <=? t) && (t <=? 5).
Definition ts_le (t : Z) : bool := negb (t =? 3).
Definition ts_stored (t : Z) : Z := if t =? 0 then 1 else t.

(* enumerations: None / Some 0 = '' (kept as it is) / 1..k members / else refused *)
Definition enum_ok (k : Z) (blank_ok : bool) (o : option Z) : bool :=
  match o with
  | None => true
  | Some v => ((v =? 0) && blank_ok) || ((1 <=? v) && (v <=? k))
  end.
Definition lo_ok (o : option str) : bool :=
  match o with None => true | Some s => hd_guard LO s end.

Record sop_args := {
  a_ts : Z;
  a_study : str; a_series : str; a_instance : str; a_class : str;
  a_series_number : option Z; a_instance_number : option Z;
  a_sex : option Z;                       (* M F O = 1 2 3 *)
  a_series_desc : option str; a_manufacturer : option str; a_model : option str;
  a_serial : option str; a_software : option str;
  a_institution : option str; a_department : option str;
  a_qualification : option Z              (* PRODUCT RESEARCH SERVICE = 1 2 3 *)
}.

Record sop_obj := {
  fm_ts : Z; fm_class : str; fm_instance : str;          (* file meta information *)
  ds_class : str; ds_instance : str; ds_study : str; ds_series : str;
  ds_series_number : Z; ds_instance_number : Z;
  ds_sex : option Z;
  ds_lo : list (option str);   (* SeriesDescription Manufacturer ManufacturerModelName DeviceSerialNumber
                                  SoftwareVersions InstitutionName InstitutionalDepartmentName; None = absent/empty *)
  ds_qualification : option Z
}.

(* the guards in source order; the first failing one decides the exception *)
Definition sop_init (a : sop_args) : res sop_obj :=
  if negb (ts_known (a_ts a)) then Err "ValueError" else
  if negb (ts_le (a_ts a)) then Err "ValueError" else
  if negb (enum_ok 3 true (a_sex a)) then Err "ValueError" else
  match a_series_number a with
  | None => Err "TypeError"
  | Some sn =>
    if sn <? 1 then Err "ValueError" else
    if negb (lo_ok (a_series_desc a)) then Err "ValueError" else
    if negb (lo_ok (a_manufacturer a)) then Err "ValueError" else
    if negb (lo_ok (a_model a)) then Err "ValueError" else
    if negb (lo_ok (a_serial a)) then Err "ValueError" else
    if negb (lo_ok (a_software a)) then Err "ValueError" else
    if negb (lo_ok (a_institution a)) then Err "ValueError" else
    if negb (match a_institution a with None => true | Some _ => lo_ok (a_department a) end)
    then Err "ValueError" else
    match a_instance_number a with
    | None => Err "TypeError"
    | Some inn =>
      if inn <? 1 then Err "ValueError" else
      if negb (enum_ok 3 false (a_qualification a)) then Err "ValueError" else
      Ok {| fm_ts := ts_stored (a_ts a); fm_class := a_class a; fm_instance := a_instance a;
            ds_class := a_class a; ds_instance := a_instance a;
            ds_study := a_study a; ds_series := a_series a;
            ds_series_number := sn; ds_instance_number := inn;
            ds_sex := match a_sex a with Some 0 => None | o => o end;
            ds_lo := [a_series_desc a; a_manufacturer a; a_model a; a_serial a; a_software a;
                      a_institution a;
                      match a_institution a with None => None | Some _ => a_department a end];
            ds_qualification := a_qualification a |}
    end
  end.

Definition sop_accepts (a : sop_args) : bool :=
  ts_known (a_ts a) && ts_le (a_ts a) && enum_ok 3 true (a_sex a) &&
  match a_series_number a with Some sn => 1 <=? sn | None => false end &&
  lo_ok (a_series_desc a) && lo_ok (a_manufacturer a) && lo_ok (a_model a) && lo_ok (a_serial a) &&
  lo_ok (a_software a) && lo_ok (a_institution a) &&
  match a_institution a with None => true | Some _ => lo_ok (a_department a) end &&
  match a_instance_number a with Some n => 1 <=? n | None => false end &&
  enum_ok 3 false (a_qualification a).

(* several objects built by one call (create_segmentation_pyramid): the same
   arguments, one SOP Instance UID per object *)
Definition with_instance (a : sop_args) (u : str) : sop_args :=
  {| a_ts := a_ts a; a_study := a_study a; a_series := a_series a; a_instance := u; a_class := a_class a;
     a_series_number := a_series_number a; a_instance_number := a_instance_number a; a_sex := a_sex a;
     a_series_desc := a_series_desc a; a_manufacturer := a_manufacturer a; a_model := a_model a;
     a_serial := a_serial a; a_software := a_software a; a_institution := a_institution a;
     a_department := a_department a; a_qualification := a_qualification a |}.
Fixpoint build_levels (a : sop_args) (ids : list str) : res (list sop_obj) :=
  match ids with
  | [] => Ok []
  | u :: r => bind (sop_init (with_instance a u)) (fun o => bind (build_levels a r) (fun os => Ok (o :: os)))
  end.

(* ------------------------------------------------------------------ *)
(** * Part 9: one segment plane (seg/sop.py _get_segment_pixel_array)    *)
(* ------------------------------------------------------------------ *)

(* ownership of a numpy result relative to the array the caller passed *)
Inductive own := View | Fresh.
Inductive aop :=
| OKeep        (* the same array object *)
| OSlice       (* basic indexing: a view *)
| OCopy        (* astype / arithmetic / comparison / around: a new array *)
| OInplace.    (* x *= k, out=x: writes into x's buffer *)
(* [run_ops o ops] = (ownership of the result, did a write reach the caller's buffer) *)
Fixpoint run_ops (o : own) (ops : list aop) : own * bool :=
  match ops with
  | [] => (o, false)
  | op :: r =>
      let o' := match op with OCopy => Fresh | _ => o end in
      let w := match op, o with OInplace, View => true | _, _ => false end in
      let (o2, w2) := run_ops o' r in (o2, w || w2)
  end.

Record plane_cfg := {
  p_float : bool;        (* dtype float32 / float64 *)
  p_ndim3 : bool;        (* Rows x Columns x Segments (else a label map / single plane) *)
  p_single1 : bool;      (* described segment numbers are exactly [1] *)
  p_dtype_eq : bool;     (* the array already has the output dtype *)
  p_fractional : bool;   (* segmentation type FRACTIONAL *)
  p_mfv1 : bool          (* max_fractional_value = 1 *)
}.
(* the numpy operations of the kernel, in source order *)
Definition plane_ops_gen (scale : aop) (c : plane_cfg) : list aop :=
  if p_float c then
    [if p_ndim3 c then OSlice else OKeep; OCopy; OCopy; OCopy]
  else
    (if p_ndim3 c then OSlice :: (if p_dtype_eq c then [] else [OCopy])
     else if p_single1 c then (if p_dtype_eq c then [OKeep] else [OCopy])
     else [OCopy; OCopy])
    ++ (if p_fractional c && negb (p_mfv1 c) then [scale] else []).
Definition plane_ops := plane_ops_gen OCopy.          (* segment_array = segment_array * k *)
Definition plane_ops_old := plane_ops_gen OInplace.   (* segment_array *= k  (before fix, D24) *)

(* _check_and_cast_pixel_array: what it returns relative to its argument *)
Record cast_cfg := { c_float : bool; c_type : Z (* 0 BINARY 1 FRACTIONAL 2 LABELMAP *); c_ndim4 : bool; c_one : bool }.
Definition cast_ops (c : cast_cfg) : list aop :=
  (if c_float c && negb (c_type c =? 1) then [OCopy] else [OKeep]) ++
  (if c_type c =? 2 then (if c_ndim4 c then (if c_one c then [OSlice; OCopy] else [OCopy; OCopy; OCopy]) else [OCopy])
   else []).
(* the path of the caller's array to one encoded plane: cast, take the plane, take the segment *)
Definition ctor_chain (c1 : cast_cfg) (c2 : plane_cfg) : list aop := cast_ops c1 ++ [OSlice] ++ plane_ops c2.

(* values: round half to even of n/d (np.around), d > 0 *)
Definition rhe (n d : Z) : Z :=
  let q := n / d in let r := n mod d in
  if 2 * r <? d then q else if d <? 2 * r then q + 1 else if Z.even q then q else q + 1.
(* float pixels are given in quarters (4 = 1.0) *)
Definition plane_value (c : plane_cfg) (seg mfv : Z) (px : list Z) : Z :=
  let ch := if p_ndim3 c then nth (Z.to_nat (seg - 1)) px 0 else hd 0 px in
  if p_float c then rhe (ch * mfv) 4
  else
    let b := if p_ndim3 c then ch else if p_single1 c then ch else (if ch =? seg then 1 else 0) in
    if p_fractional c && negb (p_mfv1 c) then b * mfv else b.
Definition seg_plane (c : plane_cfg) (seg mfv : Z) (plane : list (list Z)) : bool * list Z :=
  (snd (run_ops View (plane_ops c)), map (plane_value c seg mfv) plane).

(* ------------------------------------------------------------------ *)
(** * boundary functions for parts 8-9                                  *)
(* ------------------------------------------------------------------ *)
Definition vostr (o : option str) : val := vopt vz_list o.
Definition voz (o : option Z) : val := vopt VZ o.
Definition vsop (o : sop_obj) : val :=
  VL [VZ (fm_ts o); vz_list (fm_class o); vz_list (fm_instance o); vz_list (ds_class o); vz_list (ds_instance o);
      vz_list (ds_study o); vz_list (ds_series o); VZ (ds_series_number o); VZ (ds_instance_number o);
      voz (ds_sex o); VL (map vostr (ds_lo o)); voz (ds_qualification o)].
Definition run_sop_init (a : sop_args) : val := vres vsop (sop_init a).
Definition run_seg_plane (fl nd3 s1 deq fr : bool) (seg mfv : Z) (plane : list (list Z)) : val :=
  let c := {| p_float := fl; p_ndim3 := nd3; p_single1 := s1; p_dtype_eq := deq; p_fractional := fr;
              p_mfv1 := mfv =? 1 |} in
  let r := seg_plane c seg mfv plane in VL [VB (fst r); vz_list (snd r)].

(* ------------------------------------------------------------------ *)
(** * Part 10: SegmentedPaletteColorLUT.__init__ (content.py)           *)
(* ------------------------------------------------------------------ *)

(* The number of entries the segments expand to - the while loop in source
   order.  opcode 0 = discrete segment (length, value); opcode 1 = linear
   segment (length, end value): it starts from the previous entry
   (expanded_lut_values[offset - 1] on an empty table is an IndexError), a
   length of 1 divides by zero and int(nan) is a ValueError, a length of 0 adds
   nothing; opcode 2 (indirect) and any other opcode are ValueErrors; data that
   end inside a segment are an IndexError of the numpy array.  The VALUES of the
   expanded table are not stored in the object's elements and are not modelled. *)
Fixpoint seg_count (data : list Z) (n : Z) : res Z :=
  match data with
  | [] => Ok n
  | op :: rest =>
      if op =? 0 then
        match rest with
        | len :: _ :: r => seg_count r (n + len)
        | _ => Err "IndexError"
        end
      else if op =? 1 then
        match rest with
        | len :: _ :: r =>
            if n =? 0 then Err "IndexError" else
            if len =? 1 then Err "ValueError" else seg_count r (n + len)
        | _ => Err "IndexError"
        end
      else Err "ValueError"
  end.

(* guards in front of the loop (all ValueError): dtype, first mapped value in
   [0, 2^bits), 1 <= size of the segmented data <= 2^bits *)
Definition segmented_ok (bits first : Z) (data : list Z) : bool :=
  ((bits =? 8) || (bits =? 16)) && (0 <=? first) && (first <? 2 ^ bits) &&
  (1 <=? zlen data) && (zlen data <=? 2 ^ bits).

(* [rule n] = what is recorded as number of entries for a table of n entries.
   The library: [entries_field] applied to the EXPANDED length. *)
(* after the loop (since fix cf58852, D110): a table of no entries or of more
   than 2^16 entries is refused (ValueError) *)
Definition segmented_lut_gen (rule : list Z -> Z -> Z) (bits first : Z) (data : list Z)
  : res (list Z * list Z * Z) :=
  if segmented_ok bits first data then
    bind (seg_count data 0) (fun n =>
      if (n =? 0) || (65536 <? n) then Err "ValueError"
      else Ok ([rule data n; first; bits], palette_store bits data, n))
  else Err "ValueError".
(* the constructor before that fix *)
Definition segmented_lut_unguarded (bits first : Z) (data : list Z) : res (list Z * list Z * Z) :=
  if segmented_ok bits first data then
    bind (seg_count data 0) (fun n => Ok ([entries_field n; first; bits], palette_store bits data, n))
  else Err "ValueError".
Definition segmented_lut := segmented_lut_gen (fun _ n => entries_field n).
(* a variant that applies the 2^16 rule to the (already folded) length of the
   segmented data instead of the expanded length: the branch is dead *)
Definition stale_len (bits : Z) (data : list Z) : Z := if zlen data =? 2 ^ bits then 0 else zlen data.
Definition segmented_lut_stale (bits first : Z) (data : list Z) :=
  segmented_lut_gen (fun d n => if stale_len bits d =? 65536 then 0 else n) bits first data.

(* the segmented_lut_data accessor: the stored value as entries; for 8-bit data
   the end of the last complete segment is found (3 entries, 4 for opcode 2) and
   ONE dangling entry after it - the pad byte - is dropped *)
Fixpoint seg_walk (arr : list Z) : list Z :=
  match arr with
  | op :: a :: b :: r =>
      if op =? 2 then
        match r with
        | c :: r' => op :: a :: b :: c :: seg_walk r'
        | [] => arr
        end
      else op :: a :: b :: seg_walk r
  | [_] => []
  | _ => arr
  end.
Definition segmented_read (bits : Z) (stored : list Z) : list Z :=
  if bits =? 8 then seg_walk stored else words16 stored.

(* the number_of_entries accessor; a value of VR US (what a descriptor can hold) *)
Definition entries_read (v : Z) : Z := if v =? 0 then 65536 else v.
Definition fits_us (v : Z) : bool := (0 <=? v) && (v <? 65536).

(* ------------------------------------------------------------------ *)
(** * Part 11: the pixel measures of a Segmentation (seg/sop.py __init__) *)
(* ------------------------------------------------------------------ *)

(* Where the PixelMeasuresSequence the constructor works on comes from, and
   what is done to it, in the ownership algebra of part 9 ([View] = an object the
   caller owns: the argument, or the source image's own sequence; OCopy =
   deepcopy; OInplace = pixel_measures[0].SpacingBetweenSlices = ...). *)
Record measures_cfg := {
  m_user : bool;         (* pixel_measures passed by the caller *)
  m_multiframe : bool;   (* multi-frame source: _get_pixel_measures_sequence returns the source's own sequence *)
  m_patient : bool;      (* patient coordinate system (else slide / none) *)
  m_has_spacing : bool;  (* SpacingBetweenSlices already in the measures *)
  m_regular : bool       (* get_volume_positions finds a slice spacing *)
}.
Definition measures_origin (c : measures_cfg) : own :=
  if m_user c then View else if m_multiframe c then View else Fresh.
Definition measures_derive (c : measures_cfg) : bool :=
  m_patient c && negb (m_has_spacing c) && m_regular c.
Definition measures_ops_gen (copy_when : measures_cfg -> bool) (c : measures_cfg) : list aop :=
  if measures_derive c then (if copy_when c then [OCopy] else []) ++ [OInplace] else [].
Definition measures_ops := measures_ops_gen (fun _ => true).
(* a variant that copies only measures passed by the caller *)
Definition measures_ops_user_only := measures_ops_gen m_user.
(* (was an object of the caller written to, does the new object record a spacing) *)
Definition seg_measures (c : measures_cfg) : bool * bool :=
  (snd (run_ops (measures_origin c) (measures_ops c)), m_has_spacing c || measures_derive c).

(* ------------------------------------------------------------------ *)
(** * Part 12: displayed area of a presentation state (pr/content.py)   *)
(* ------------------------------------------------------------------ *)

(* _add_displayed_area_attributes: the referenced images as (position in the
   caller's list, TotalPixelMatrixRows, TotalPixelMatrixColumns) - Rows / Columns
   for images that are not tiled.  sorted() is a stable sort of a COPY; the
   image whose area is displayed is the first of the sorted copy (tiled) or the
   first of the list. *)
Definition img := (Z * (Z * Z))%type.
Definition img_key (i : img) : Z := fst (snd i) * snd (snd i).
Fixpoint insert_img (x : img) (l : list img) : list img :=
  match l with
  | [] => [x]
  | y :: r => if img_key x <=? img_key y then x :: y :: r else y :: insert_img x r
  end.
Fixpoint isort_img (l : list img) : list img :=
  match l with [] => [] | x :: r => insert_img x (isort_img r) end.
Fixpoint number_from (k : Z) (l : list (Z * Z)) : list img :=
  match l with [] => [] | s :: r => (k, s) :: number_from (k + 1) r end.
(* [inplace]: list.sort() on the caller's list instead of sorted() *)
Definition displayed_area_gen (inplace tiled : bool) (refs : list img) : res (img * list img) :=
  match refs with
  | [] => Err "IndexError"
  | first :: _ =>
      if tiled then
        match isort_img refs with
        | low :: _ => Ok (low, if inplace then isort_img refs else refs)
        | [] => Err "IndexError"
        end
      else Ok (first, refs)
  end.
Definition displayed_area := displayed_area_gen false.

(* ------------------------------------------------------------------ *)
(** * boundary functions for parts 10-12                                *)
(* ------------------------------------------------------------------ *)
(* [descriptor; stored bytes; number of expanded entries; what segmented_lut_data returns] *)
Definition run_segmented_lut (bits first : Z) (data : list Z) : val :=
  vres (fun p => VL [vz_list (fst (fst p)); vz_list (snd (fst p)); VZ (snd p);
                     vz_list (segmented_read bits (snd (fst p)))]) (segmented_lut bits first data).
Definition run_seg_measures (user multiframe patient has_spacing regular : bool) : val :=
  let r := seg_measures {| m_user := user; m_multiframe := multiframe; m_patient := patient;
                           m_has_spacing := has_spacing; m_regular := regular |} in
  VL [VB (fst r); VB (snd r)].
(* output: [bottom right hand corner = (columns, rows) of the selected image; position of the selected
   image; the caller's list after the call as positions in the list before] *)
Definition run_displayed_area (tiled : bool) (sizes : list (Z * Z)) : val :=
  vres (fun p => VL [vz_list [snd (snd (fst p)); fst (snd (fst p))]; VZ (fst (fst p)); vz_list (map fst (snd p))])
       (displayed_area tiled (number_from 0 sizes)).
