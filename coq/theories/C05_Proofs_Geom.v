(* C05 - proofs about a LAZILY read image whose GEOMETRY is edited (Rows / Columns / NumberOfFrames /
   BitsAllocated), state after the D118 fix: read_frame_raw locates a native frame from the CURRENT
   metadata, so every read with nothing cached - raw frame, one frame, batch in any order, get_frames
   (transforms off), the complete batch, decode of the raw bytes - answers exactly as the in-memory image
   does, for EVERY history of reads and edits that leave a valid image.  (The statement was false before
   the fix - the reader kept the offsets of the moment the file was opened; the witness found by this
   check is kept as lazy_geometry_regression.) *)
From Coq Require Import String ZArith List Bool Lia ZifyBool Arith.
From HD Require Import Base.Val Base.ListZ C05_Model C05_Proofs C05_Proofs_State C05_Proofs_Ext C05_Proofs_Lazy.
Import ListNotations.
Open Scope Z_scope.
Ltac Zify.zify_post_hook ::= Z.to_euclidean_division_equations.

Lemma py_nth_map_zrange : forall (g : Z -> Z) n i, 0 <= i < n -> py_nth (map g (zrange n)) i = Some (g i).
Proof.
  intros g n i Hi. unfold py_nth.
  assert (L : zlen (map g (zrange n)) = n) by (unfold zlen; rewrite map_length, zrange_length; lia).
  rewrite L. replace (i <? 0) with false by lia. replace ((i <? 0) || (n <=? i)) with false by lia.
  rewrite nth_error_map, nth_error_zrange by lia. cbn [option_map]. now rewrite Z2Nat.id by lia.
Qed.

(* the reader's own entry point as modelled before the fix (offset looked up in the table built for the
   SAME description) and as it is now (offset computed) are one function: for every index, in or out of
   the image - so the theorems about read_frame_raw_native keep describing the code *)
Lemma read_frame_raw_native_cur : forall bits bs sg npx n pd i,
  read_frame_raw_native bits npx n pd i = read_frame_raw_cur (Fmt bits bs sg npx n) pd i.
Proof.
  intros bits bs sg npx n pd i. unfold read_frame_raw_native, read_frame_raw_cur. cbn [f_bits f_npx f_frames].
  destruct ((i <? 0) || (i >=? n)) eqn:G; [reflexivity|].
  rewrite py_nth_map_zrange by lia. reflexivity.
Qed.

(* what _read_metadata still tabulates is where read_frame_raw now looks, as long as nothing is edited *)
Lemma native_table_entry : forall m i, 0 <= i < f_frames m ->
  py_nth (native_table m) i = Some (lazy_offset (f_bits m) (f_npx m) i).
Proof. intros m i Hi. unfold native_table. now apply py_nth_map_zrange. Qed.

Lemma pyslice_nonempty : forall {A} s k (l : list A), 0 <= s -> 1 <= k -> s < zlen l -> pyslice s (s + k) l <> [].
Proof.
  intros A s k l Hs Hk Hl E. apply (f_equal (@length A)) in E.
  unfold pyslice, zfirstn, zskipn, zlen in *. rewrite firstn_length, skipn_length in E. cbn [length] in E. lia.
Qed.

(* read_frame_raw on a valid image: the bytes of the frame's range (never empty, never an error) *)
Lemma read_cur_ok : forall m pd i, valid_fmt m -> enough m pd -> 0 <= i < f_frames m ->
  read_frame_raw_cur m pd i = Ok (raw_of_range (lazy_range (f_bits m) (f_npx m) i) pd).
Proof.
  intros [bits bs sg npx n] pd i (Hb & Hn & Hf) He Hi. unfold read_frame_raw_cur, enough in *.
  cbn [f_bits f_stored f_signed f_npx f_frames] in *.
  replace ((i <? 0) || (i >=? n)) with false by lia.
  cbv zeta. unfold raw_of_range, lazy_range. cbn [fst snd].
  set (off := lazy_offset bits npx i). set (k := lazy_nbytes bits npx i).
  assert (Hne : pyslice off (off + k) pd <> []).
  { assert (P0 : 0 <= i * npx) by nia. assert (P1 : (i + 1) * npx <= n * npx) by nia.
    assert (P2 : (i + 1) * npx = i * npx + npx) by ring.
    apply pyslice_nonempty; subst off k; unfold lazy_offset, lazy_nbytes, lazy_bpf;
      destruct Hb as [?|[?|[?|?]]]; subst bits; cbn [Z.eqb Pos.eqb] in *;
      try replace (npx * 8 / 8) with npx by lia; try replace (npx * 16 / 8) with (npx * 2) by lia;
      try replace (npx * 32 / 8) with (npx * 4) by lia;
      try replace (16 / 8) with 2 in He by reflexivity; try replace (32 / 8) with 4 in He by reflexivity;
      try replace (8 / 8) with 1 in He by reflexivity; try lia. }
  destruct (pyslice off (off + k) pd) eqn:S; [now elim Hne|reflexivity].
Qed.

Lemma g_raw_spec : forall c pd f ai, valid_c c -> enough (c_fmt c) pd ->
  g_raw (GImg c pd) f ai = get_raw_frame false (c_fmt c) pd f ai.
Proof.
  intros c pd f ai (Hv & _) He. rewrite <- raw_frame_lazy_eager. unfold g_raw, get_raw_frame.
  cbn [g_c g_pd]. cbv zeta.
  destruct (index_total (f_frames (c_fmt c)) f ai) as [(i & E & Hi) | E]; rewrite E; cbn [bind]; [|reflexivity].
  now apply read_cur_ok.
Qed.

Lemma g_one_spec : forall c pd f ai, valid_c c -> enough (c_fmt c) pd ->
  g_one (GImg c pd) f ai = answer c pd f ai.
Proof.
  intros c pd f ai Hv He. unfold g_one. rewrite g_raw_spec by assumption.
  cbn [g_c]. cbv zeta. unfold answer, get_raw_frame.
  destruct (index_total (f_frames (c_fmt c)) f ai) as [(i & E & Hi) | E]; rewrite E; cbn [bind]; [|reflexivity].
  apply (frame_eager_c_ok c pd i Hv He Hi).
Qed.

Lemma g_batch_spec : forall c pd fs ai, valid_c c -> enough (c_fmt c) pd ->
  g_batch (GImg c pd) fs ai = ref_batch c pd fs ai.
Proof.
  intros c pd fs ai Hv He. unfold g_batch, ref_batch. destruct fs as [|f r]; [reflexivity|].
  f_equal. apply map_ext. intros x. now apply g_one_spec.
Qed.

(* get_frames (transforms off) walks the path of get_stored_frames: same answer for every request, valid
   image or not *)
Lemma g_frames_eq : forall st fs ai, g_frames st fs ai = g_batch st fs ai.
Proof.
  intros st fs ai. unfold g_frames, g_batch. cbv zeta. destruct fs as [|f0 r]; [reflexivity|].
  assert (E : forall f, bind (std_index (f_frames (c_fmt (g_c st))) f ai) (fun i =>
                bind (read_frame_raw_cur (c_fmt (g_c st)) (g_pd st) i)
                     (fun raw => decode_native_c (g_c st) i raw)) = g_one st f ai).
  { intros f. unfold g_one, g_raw. cbv zeta.
    destruct (std_index (f_frames (c_fmt (g_c st))) f ai); reflexivity. }
  rewrite (map_ext _ _ E).
  destruct (std_index (f_frames (c_fmt (g_c st))) f0 ai) eqn:S; [reflexivity|].
  cbn [map sequence]. rewrite <- (E f0), S. reflexivity.
Qed.

(* the gop of a history as an op of the in-memory image; the requests with frame_numbers=None are the
   complete request for the number of frames the image has at that moment *)
Definition op_of_gop (n : Z) (o : gop) : op :=
  match o with
  | GOne f ai => OOne f ai | GBatch fs ai => OBatch fs ai | GRaw f ai => ORaw f ai
  | GDecodeRaw f ai => ODecodeRaw f ai | GHeader c => OHeader c
  | GFrames fs ai => OFrames fs ai
  | GBatchAll ai => OBatch (default_request n ai) ai
  | GFramesAll ai => OFrames (default_request n ai) ai
  end.

Fixpoint ops_of_gops (x : cfmt * list Z) (ops : list gop) : list op :=
  match ops with
  | [] => []
  | o :: r => let o' := op_of_gop (f_frames (c_fmt (fst x))) o in o' :: ops_of_gops (fst (ref_step x o')) r
  end.

Definition gcontent (st : gimg) : cfmt * list Z := (g_c st, g_pd st).

Lemma gstep_spec : forall st o, valid_c (g_c st) -> enough (c_fmt (g_c st)) (g_pd st) ->
  let o' := op_of_gop (f_frames (c_fmt (g_c st))) o in
  snd (gstep st o) = snd (ref_step (gcontent st) o') /\
  gcontent (fst (gstep st o)) = fst (ref_step (gcontent st) o').
Proof.
  intros [c pd] o Hv He. cbn [g_c g_pd] in *.
  destruct o as [f ai|fs ai|f ai|f ai|c'|fs ai|ai|ai]; unfold gstep, ref_step, gcontent, op_of_gop;
    cbn [fst snd g_c g_pd]; rewrite ?g_frames_eq.
  - rewrite g_one_spec by assumption. repeat split.
  - rewrite g_batch_spec by assumption. repeat split.
  - rewrite g_raw_spec by assumption. repeat split.
  - rewrite g_one_spec by assumption. repeat split.
  - repeat split.
  - rewrite g_batch_spec by assumption. repeat split.
  - rewrite g_batch_spec by assumption. repeat split.
  - rewrite g_batch_spec by assumption. repeat split.
Qed.

(* ANY history of reads and edits - geometry included - that leave a valid image: every answer is the one
   the cache-free reference gives for the current content, from ANY state *)
Lemma lazy_geometry_history_from : forall ops st,
  ops_valid (gcontent st) (ops_of_gops (gcontent st) ops) ->
  grun_ops st ops = ref_ops (gcontent st) (ops_of_gops (gcontent st) ops).
Proof.
  induction ops as [|o r IH]; intros st Hval; [reflexivity|].
  cbn [ops_of_gops ops_valid] in Hval. cbv zeta in Hval. destruct Hval as (Hv & He & Hr). cbn [gcontent fst snd] in Hv, He.
  destruct (gstep_spec st o Hv He) as (S1 & S2). cbv zeta in S1, S2.
  cbn [grun_ops ops_of_gops ref_ops]. cbv zeta. cbn [gcontent fst] in *.
  rewrite S1. f_equal.
  rewrite <- S2 in Hr. rewrite (IH _ Hr). now rewrite S2.
Qed.

(* the lazily read image, opened on (c, pd): as the in-memory image and as the cache-free reference *)
Lemma lazy_geometry_history : forall ops c pd,
  ops_valid (c, pd) (ops_of_gops (c, pd) ops) ->
  grun_ops (g_open c pd) ops = run_ops (Img c pd None) (ops_of_gops (c, pd) ops) /\
  grun_ops (g_open c pd) ops = ref_ops (c, pd) (ops_of_gops (c, pd) ops).
Proof.
  intros ops c pd Hval.
  assert (G : grun_ops (g_open c pd) ops = ref_ops (c, pd) (ops_of_gops (c, pd) ops))
    by apply (lazy_geometry_history_from ops (g_open c pd) Hval).
  split; [|exact G]. rewrite G. symmetry.
  apply (history_irrelevant (ops_of_gops (c, pd) ops) (Img c pd None) Hval).
Qed.

(* ------------------------------------------------------------------ *)
(* the complete batch (frame_numbers=None) is the whole pixel array     *)
(* ------------------------------------------------------------------ *)
Lemma default_request_nonempty : forall n ai, 1 <= n -> default_request n ai <> [].
Proof.
  intros n ai Hn E. apply (f_equal (@length Z)) in E. unfold default_request in E.
  destruct ai; rewrite ?map_length, zrange_length in E; cbn [length] in E; lia.
Qed.

Lemma ref_batch_default : forall c pd ai, valid_c c -> enough (c_fmt c) pd ->
  ref_batch c pd (default_request (f_frames (c_fmt c)) ai) ai = whole_array_c c pd.
Proof.
  intros c pd ai Hv He. rewrite whole_array_c_spec by assumption.
  set (n := f_frames (c_fmt c)).
  assert (Hn : 1 <= n) by (destruct Hv as ((_ & _ & H) & _); exact H).
  unfold ref_batch. pose proof (default_request_nonempty n ai Hn) as NE.
  destruct (default_request n ai) as [|x r] eqn:D; [now elim NE|]. rewrite <- D. clear D NE x r.
  rewrite (sequence_all_ok _ (fun f => spec_frame_c c pd (if ai then f else f - 1))).
  - f_equal. unfold default_request. destruct ai; [reflexivity|]. rewrite map_map. apply map_ext.
    intros k. f_equal. lia.
  - intros f Hf. unfold ref_one. fold n.
    assert (Hi : 0 <= (if ai then f else f - 1) < n).
    { unfold default_request in Hf. destruct ai.
      - now apply In_zrange.
      - apply in_map_iff in Hf. destruct Hf as (k & <- & Hk). apply In_zrange in Hk. lia. }
    assert (E : std_index n f ai = Ok (if ai then f else f - 1)).
    { apply index_rule. destruct ai; [left|right]; repeat split; lia. }
    rewrite E. reflexivity.
Qed.

(* "in batches" = "from the whole pixel array" for the request every caller gets by default: in-memory
   image in any cache state (get_stored_frames and get_frames), lazily read image in any coherent cache
   state, lazily read image with nothing cached (after any edit) *)
Lemma all_frames_default : forall c pd ai, valid_c c -> enough (c_fmt c) pd ->
  let req := default_request (f_frames (c_fmt c)) ai in
  (forall cache, snd (st_batch (Img c pd cache) req ai) = whole_array_c c pd) /\
  (forall cache, snd (st_frames (Img c pd cache) req ai) = whole_array_c c pd) /\
  (forall cache, lcoherent (LImg c pd cache) -> snd (lz_batch (LImg c pd cache) req ai) = whole_array_c c pd) /\
  g_batch (GImg c pd) req ai = whole_array_c c pd /\ g_frames (GImg c pd) req ai = whole_array_c c pd.
Proof.
  intros c pd ai Hv He req. pose proof (ref_batch_default c pd ai Hv He) as R. fold req in R.
  split; [|split; [|split; [|split]]].
  - intros cache. rewrite <- R. exact (proj1 (st_batch_spec req (Img c pd cache) ai Hv He)).
  - intros cache. rewrite st_frames_eq, <- R. exact (proj1 (st_batch_spec req (Img c pd cache) ai Hv He)).
  - intros cache Hc. rewrite <- R. exact (proj1 (lz_batch_spec req (LImg c pd cache) ai Hv He Hc)).
  - rewrite <- R. now apply g_batch_spec.
  - rewrite g_frames_eq, <- R. now apply g_batch_spec.
Qed.

(* one read after ANY edit that leaves a valid image, the sentence of the property: the `answer` of
   every_way_same, and the raw bytes of the in-memory route *)
Lemma lazy_geometry_one : forall c0 c pd f ai, valid_c c -> enough (c_fmt c) pd ->
  g_one (fst (gstep (g_open c0 pd) (GHeader c))) f ai = answer c pd f ai /\
  g_raw (fst (gstep (g_open c0 pd) (GHeader c))) f ai = get_raw_frame false (c_fmt c) pd f ai.
Proof.
  intros c0 c pd f ai Hv He. cbn [gstep fst g_open g_pd].
  split; [apply g_one_spec|apply g_raw_spec]; assumption.
Qed.

(* ------------------------------------------------------------------ *)
(* the witnesses of finding D118, now answered correctly               *)
(* ------------------------------------------------------------------ *)
(* 3 frames of 4 x 2 8-bit pixels, opened lazily; Rows := 2 (the same PixelData now holds the 3 frames of
   2 x 2 pixels - and 12 bytes more).  Frame 2 of the edited image is bytes 4..7 (before the fix the reader
   still went to byte 8 = the start of the old frame 2).  With NumberOfFrames := 6 as well, frame 4 is
   bytes 12..15 (before the fix: a bare IndexError of the table lookup). *)
Definition geo_c0 : cfmt := CFmt (Fmt 8 8 false 8 3) 1 false 4.
Definition geo_c1 : cfmt := CFmt (Fmt 8 8 false 4 3) 1 false 2.
Definition geo_c2 : cfmt := CFmt (Fmt 8 8 false 4 6) 1 false 2.
Definition geo_c3 : cfmt := CFmt (Fmt 8 8 false 8 2) 1 false 2.
Definition geo_pd : list Z := zrange 24.

Lemma lazy_geometry_regression :
  ops_valid (geo_c0, geo_pd) (ops_of_gops (geo_c0, geo_pd) [GHeader geo_c1; GOne 2 false; GHeader geo_c2; GOne 4 false]) /\
  grun_ops (g_open geo_c0 geo_pd) [GHeader geo_c1; GOne 2 false; GHeader geo_c2; GOne 4 false] =
    [VNone; VL [meta geo_c1; vz_list [4; 5; 6; 7]]; VNone; VL [meta geo_c2; vz_list [12; 13; 14; 15]]] /\
  py_nth (native_table (c_fmt geo_c0)) 1 = Some 8 /\ py_nth (native_table (c_fmt geo_c0)) 3 = None.
Proof.
  split; [|split; [|split]]; try (vm_compute; reflexivity).
  cbn [ops_of_gops op_of_gop ops_valid ref_step fst snd].
  unfold valid_c, valid_fmt, enough, geo_c0, geo_c1, geo_c2. cbn [c_fmt c_planar f_bits f_npx f_frames].
  repeat split; try lia; try (intro; discriminate); vm_compute; intro; discriminate.
Qed.

(* non-vacuity of the history statement: Rows <-> Columns swapped and the last frame dropped, then the
   complete batch through get_frames *)
Lemma lazy_geometry_example :
  ops_valid (geo_c0, geo_pd) (ops_of_gops (geo_c0, geo_pd) [GOne 3 false; GHeader geo_c3; GOne 2 false; GBatch [2; 1] false; GOne 3 false; GFramesAll true]) /\
  grun_ops (g_open geo_c0 geo_pd) [GOne 3 false; GHeader geo_c3; GOne 2 false; GBatch [2; 1] false; GOne 3 false; GFramesAll true] =
    [VL [meta geo_c0; vz_list [16; 17; 18; 19; 20; 21; 22; 23]]; VNone;
     VL [meta geo_c3; vz_list [8; 9; 10; 11; 12; 13; 14; 15]];
     VL [meta geo_c3; vz_list2 [[8; 9; 10; 11; 12; 13; 14; 15]; [0; 1; 2; 3; 4; 5; 6; 7]]];
     VErr "IndexError";
     VL [VL [VS "int64"; vz_list [2; 4]]; vz_list2 [[0; 1; 2; 3; 4; 5; 6; 7]; [8; 9; 10; 11; 12; 13; 14; 15]]]].
Proof.
  split.
  - cbn [ops_of_gops op_of_gop ops_valid ref_step fst snd].
    unfold valid_c, valid_fmt, enough, geo_c0, geo_c3. cbn [c_fmt c_planar f_bits f_npx f_frames].
    repeat split; try lia; try (intro; discriminate); vm_compute; intro; discriminate.
  - vm_compute. reflexivity.
Qed.

(* ------------------------------------------------------------------ *)
(* encapsulated data: NumberOfFrames lowered on the lazily read image   *)
(* ------------------------------------------------------------------ *)
(* the number of frames enters read_frame_raw's encapsulated branch through the guard only *)
Lemma read_frame_raw_enc_guard_only : forall t its n n' i, 0 <= i < n -> 0 <= i < n' ->
  read_frame_raw_enc t its n i = read_frame_raw_enc t its n' i.
Proof.
  intros t its n n' i H H'. unfold read_frame_raw_enc.
  replace ((i <? 0) || (i >=? n)) with false by lia. replace ((i <? 0) || (i >=? n')) with false by lia.
  reflexivity.
Qed.

(* open the file, lower NumberOfFrames to n (drop the last frames), ask for frame number f: the bytes of
   frame f as before for the numbers of the smaller image, IndexError for the others - the table of the
   moment the file was opened still says where the remaining frames are *)
Lemma lazy_raw_enc_lowered : forall pfs bot eot n f ai, good_pframes pfs -> pfs <> [] ->
  (forall f, In f pfs -> marked_pframe f) \/ (forall f, In f pfs -> exists p, f = [p]) ->
  (eot = None \/ eot = Some (frame_offsets 0 (items_of pfs))) ->
  (bot = [] \/ bot = frame_offsets 0 (items_of pfs)) ->
  n <= zlen pfs ->
  lazy_raw_enc_bytes_edited eot bot (concat pfs) (zlen pfs) n f ai =
    bind (std_index n f ai) (fun i => Ok (concat (nth (Z.to_nat i) pfs []))).
Proof.
  intros pfs bot eot n f ai Hg Hne Hshape He Hb Hn.
  assert (HN : 0 < zlen pfs) by (destruct pfs; [congruence|unfold zlen; cbn [length]; lia]).
  unfold lazy_raw_enc_bytes_edited.
  destruct (offset_table eot bot (map item_of (concat pfs)) (zlen pfs)) eqn:T; cbn [bind].
  - destruct (index_total n f ai) as [(i & E & Hi) | E]; rewrite E; cbn [bind]; [|reflexivity].
    pose proof (reader_enc_bytes_correct pfs bot eot i Hg Hne Hshape He Hb) as R.
    replace ((i <? 0) || (i >=? zlen pfs)) with false in R by lia.
    unfold reader_enc_bytes in R. rewrite T in R. cbn [bind] in R.
    rewrite (read_frame_raw_enc_guard_only _ _ n (zlen pfs) i) by lia. exact R.
  - exfalso. pose proof (reader_enc_bytes_correct pfs bot eot 0 Hg Hne Hshape He Hb) as R.
    unfold reader_enc_bytes in R. rewrite T in R. cbn [bind] in R.
    replace ((0 <? 0) || (0 >=? zlen pfs)) with false in R by lia. discriminate.
Qed.

(* NumberOfFrames RAISED above the number of frames the table was built for: a number inside the edited
   image but outside the table is refused (the Python list lookup), never answered with another frame *)
Lemma lazy_raw_enc_raised : forall eot bot pls n0 n t i,
  offset_table eot bot (map item_of pls) n0 = Ok t -> zlen t <= i < n ->
  lazy_raw_enc_bytes_edited eot bot pls n0 n i true = Err "IndexError".
Proof.
  intros eot bot pls n0 n t i T Hi. unfold lazy_raw_enc_bytes_edited. rewrite T. cbn [bind].
  assert (H0 : 0 <= zlen t) by (unfold zlen; lia).
  assert (E : std_index n i true = Ok i).
  { apply index_rule. left. repeat split; lia. }
  rewrite E. cbn [bind]. unfold read_frame_raw_enc.
  replace ((i <? 0) || (i >=? n)) with false by lia.
  unfold py_nth. replace (i <? 0) with false by lia.
  replace ((i <? 0) || (zlen t <=? i)) with true by lia. reflexivity.
Qed.

(* ------------------------------------------------------------------ *)
(* ANY PixelData length: a frame is answered iff it lies inside the data *)
(* ------------------------------------------------------------------ *)
(* frame i of the image described by m lies wholly inside PixelData (for the image as a whole: enough) *)
Definition frame_inside (m : fmt) (pd : list Z) (i : Z) : Prop :=
  if f_bits m =? 1 then (i + 1) * f_npx m <= 8 * zlen pd
  else (i + 1) * f_npx m * (f_bits m / 8) <= zlen pd.

Lemma zlen_pyslice_le : forall {A} s e (l : list A), 0 <= s ->
  zlen (pyslice s e l) <= zlen l - s \/ zlen (pyslice s e l) = 0.
Proof.
  intros A s e l Hs. unfold pyslice, zfirstn, zskipn, zlen. rewrite firstn_length, skipn_length. lia.
Qed.

Lemma unpack_zlen : forall l, zlen (unpack_bits l) = 8 * zlen l.
Proof. intros l. unfold zlen. rewrite unpack_length. lia. Qed.

(* the frame's bytes through the reader decode to the frame as soon as THAT frame lies inside the data *)
Lemma frame_lazy_inside : forall m pd i, valid_fmt m -> 0 <= i -> frame_inside m pd i ->
  frame_lazy m pd i = Ok (spec_frame m pd i).
Proof.
  intros [bits bs sg npx n] pd i (Hb & Hn & Hf) Hi He. unfold frame_inside in He.
  cbn [f_bits f_stored f_signed f_npx f_frames] in *.
  rewrite frame_lazy_eager.
  unfold frame_eager, spec_frame, raw_of_range. cbn [f_bits f_stored f_signed f_npx f_frames].
  destruct Hb as [-> | Hb].
  - cbn [Z.eqb Pos.eqb] in *. rewrite <- raw_ranges_agree.
    pose proof (lazy_range_covers npx i ltac:(lia) Hn) as C. cbv zeta in C.
    destruct (lazy_range 1 npx i) as [a b]. cbn [fst snd] in *.
    apply decode_bits_ok; try lia.
  - assert (Hb1 : (bits =? 1) = false) by lia. rewrite Hb1 in *.
    assert (Hw : 1 <= bits / 8) by lia.
    rewrite eager_range_words by exact Hb. cbn [fst snd].
    apply decode_words_ok; try lia.
Qed.

(* conversely: whatever the reader + decode_frame ANSWER for a frame that does not lie inside the data is an
   error - never a partial or shifted frame *)
Lemma frame_read_inside : forall m pd i raw a, valid_fmt m -> 0 <= i < f_frames m ->
  read_frame_raw_cur m pd i = Ok raw ->
  decode_native (f_bits m) (f_stored m) (f_signed m) (f_npx m) i raw = Ok a ->
  frame_inside m pd i.
Proof.
  intros [bits bs sg npx n] pd i raw a (Hb & Hn & Hf) Hi R D. unfold frame_inside, read_frame_raw_cur in *.
  cbn [f_bits f_stored f_signed f_npx f_frames] in *.
  replace ((i <? 0) || (i >=? n)) with false in R by lia. cbv zeta in R.
  set (off := lazy_offset bits npx i) in *. set (k := lazy_nbytes bits npx i) in *.
  assert (P0 : 0 <= i * npx) by nia. assert (P2 : (i + 1) * npx = i * npx + npx) by ring.
  assert (Hoff : 0 <= off).
  { subst off. unfold lazy_offset, lazy_bpf. destruct Hb as [?|[?|[?|?]]]; subst bits; cbn [Z.eqb Pos.eqb];
      try replace (npx * 8 / 8) with npx by lia; try replace (npx * 16 / 8) with (npx * 2) by lia;
      try replace (npx * 32 / 8) with (npx * 4) by lia; lia. }
  destruct (pyslice off (off + k) pd) as [|x r] eqn:S; [discriminate|]. inversion R; subst raw. clear R.
  destruct (zlen_pyslice_le off (off + k) pd Hoff) as [L | L]; rewrite S in L;
    [|unfold zlen in L; cbn [length] in L; lia].
  assert (Lpos : 1 <= zlen (x :: r)) by (unfold zlen; cbn [length]; lia).
  unfold decode_native in D. destruct (bits =? 1) eqn:B.
  - assert (bits = 1) by lia. subst bits.
    destruct (zlen (zfirstn npx (zskipn ((i * npx) mod 8) (unpack_bits (x :: r)))) <? npx) eqn:G; [discriminate|].
    assert (G' : npx <= zlen (zfirstn npx (zskipn ((i * npx) mod 8) (unpack_bits (x :: r))))) by lia.
    unfold zfirstn, zskipn in G'. unfold zlen in G' at 1. rewrite firstn_length, skipn_length in G'.
    pose proof (unpack_zlen (x :: r)) as U. unfold zlen in U at 1.
    subst off. unfold lazy_offset in L. cbn [Z.eqb Pos.eqb] in L. lia.
  - destruct (zlen (x :: r) <? npx * (bits / 8)) eqn:G; [discriminate|].
    subst off. unfold lazy_offset, lazy_bpf in L. rewrite B in L.
    destruct Hb as [?|[?|[?|?]]]; subst bits; try discriminate;
      try replace (npx * 8 / 8) with npx in L by lia; try replace (npx * 16 / 8) with (npx * 2) in L by lia;
      try replace (npx * 32 / 8) with (npx * 4) in L by lia;
      try replace (16 / 8) with 2 in * by reflexivity; try replace (32 / 8) with 4 in * by reflexivity;
      try replace (8 / 8) with 1 in * by reflexivity; lia.
Qed.

(* get_stored_frame on the lazily read image, ANY PixelData length (a description edited beyond what the file
   holds included): frame number f is answered iff it is inside the image AND its bytes are inside the data,
   and then with exactly the values those bytes say *)
Lemma lazy_frame_answered_iff : forall c pd f ai a, valid_c c ->
  (g_one (GImg c pd) f ai = Ok a <->
   exists i, std_index (f_frames (c_fmt c)) f ai = Ok i /\ frame_inside (c_fmt c) pd i /\ a = spec_frame_c c pd i).
Proof.
  intros c pd f ai a Hv. destruct Hv as [Hv Hp]. unfold g_one, g_raw. cbn [g_c g_pd]. cbv zeta.
  destruct (index_total (f_frames (c_fmt c)) f ai) as [(i & E & Hi) | E]; rewrite E; cbn [bind].
  2: { split; [discriminate|]. intros (i & H & _). discriminate. }
  assert (Dc : forall raw, decode_native_c c i raw =
                 rmap (deplane_on c) (decode_native (f_bits (c_fmt c)) (f_stored (c_fmt c)) (f_signed (c_fmt c))
                                                    (f_npx (c_fmt c)) i raw)).
  { intros raw. unfold decode_native_c. cbv zeta. destruct (f_bits (c_fmt c) =? 1) eqn:B; [|reflexivity].
    unfold deplane_on. destruct (c_planar c) eqn:P; [exfalso; apply Hp; [reflexivity|lia]|].
    destruct (decode_native _ _ _ _ i raw); reflexivity. }
  split.
  - intros H. destruct (read_frame_raw_cur (c_fmt c) pd i) as [raw|] eqn:R; cbn [bind] in H; [|discriminate].
    rewrite Dc in H.
    destruct (decode_native (f_bits (c_fmt c)) (f_stored (c_fmt c)) (f_signed (c_fmt c)) (f_npx (c_fmt c)) i raw)
      as [v|] eqn:D; cbn [rmap bind] in H; [|discriminate].
    pose proof (frame_read_inside (c_fmt c) pd i raw v Hv Hi R D) as In.
    exists i. split; [reflexivity|split; [exact In|]].
    pose proof (frame_lazy_inside (c_fmt c) pd i Hv ltac:(lia) In) as FL. unfold frame_lazy in FL.
    assert (Rr : raw = raw_of_range (lazy_range (f_bits (c_fmt c)) (f_npx (c_fmt c)) i) pd).
    { unfold read_frame_raw_cur in R. replace ((i <? 0) || (i >=? f_frames (c_fmt c))) with false in R by lia.
      cbv zeta in R. unfold raw_of_range, lazy_range. cbn [fst snd].
      destruct (pyslice _ _ pd); [discriminate|]. now inversion R. }
    rewrite <- Rr, D in FL. inversion FL; subst v. inversion H. reflexivity.
  - intros (i' & E' & In & ->). inversion E'; subst i'.
    pose proof (frame_lazy_inside (c_fmt c) pd i Hv ltac:(lia) In) as FL. unfold frame_lazy in FL.
    assert (R : read_frame_raw_cur (c_fmt c) pd i = Ok (raw_of_range (lazy_range (f_bits (c_fmt c)) (f_npx (c_fmt c)) i) pd)).
    { unfold read_frame_raw_cur. replace ((i <? 0) || (i >=? f_frames (c_fmt c))) with false by lia.
      cbv zeta. unfold raw_of_range, lazy_range. cbn [fst snd].
      destruct (pyslice (lazy_offset (f_bits (c_fmt c)) (f_npx (c_fmt c)) i)
                        (lazy_offset (f_bits (c_fmt c)) (f_npx (c_fmt c)) i + lazy_nbytes (f_bits (c_fmt c)) (f_npx (c_fmt c)) i) pd) eqn:S;
        [|reflexivity].
      exfalso. unfold raw_of_range, lazy_range in FL. cbn [fst snd] in FL. rewrite S in FL.
      destruct Hv as (Hb & Hn & _). unfold decode_native in FL.
      destruct (f_bits (c_fmt c) =? 1) eqn:B.
      - unfold unpack_bits, zskipn, zfirstn in FL. cbn [flat_map] in FL. rewrite skipn_nil, firstn_nil in FL.
        unfold zlen in FL at 1. cbn [length] in FL. change (Z.of_nat 0) with 0 in FL. replace (0 <? f_npx (c_fmt c)) with true in FL by lia. discriminate FL.
      - unfold zlen in FL at 1. cbn [length] in FL. change (Z.of_nat 0) with 0 in FL.
        replace (0 <? f_npx (c_fmt c) * (f_bits (c_fmt c) / 8)) with true in FL; [discriminate FL|].
        destruct Hb as [?|[?|[?|?]]]; lia. }
    rewrite R. cbn [bind]. rewrite Dc, FL. reflexivity.
Qed.
