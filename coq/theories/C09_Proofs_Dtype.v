(* C09 - the dtype of the index array given to VolumeToVolumeTransformer.__call__:
   the rounded mapping is independent of the input dtype exactly when the rounded indices fit the output
   integer type (the signed input type, int64 for unsigned and floating inputs), hence agrees with the
   route through physical space for every such dtype; the unrounded mapping is dtype independent (signed,
   unsigned - fix D112 - and floating inputs; rounding to float32 is an oracle premise) *)
From Coq Require Import String ZArith List Bool Lia ZifyBool QArith Qround Qfield Lqa.
From HD Require Import Base.Val Base.PySlice C09_Model C09_Proofs C09_Proofs_Index.
Import ListNotations.
Open Scope Z_scope.

Definition zfits (w : width) (z : Z) : Prop := smin w <= z <= smax w.
Definition vfits (w : width) (v : vec3) : Prop :=
  zfits w (rne (vx v)) /\ zfits w (rne (vy v)) /\ zfits w (rne (vz v)).

Lemma wrap_s_range : forall w z, zfits w (wrap_s w z).
Proof.
  intros w z. unfold zfits, smin, smax, wrap_s. destruct w; cbn [wbits];
  match goal with |- context [?a mod ?b] => pose proof (Z.mod_pos_bound a b ltac:(lia)) end; lia.
Qed.

(* astype(signed integer type) is the identity exactly on the values the type can hold *)
Lemma wrap_s_id_iff : forall w z, wrap_s w z = z <-> zfits w z.
Proof.
  intros w z. split.
  - intros H. rewrite <- H. apply wrap_s_range.
  - unfold zfits, smin, smax, wrap_s. destruct w; cbn [wbits]; intros H; rewrite Z.mod_small; lia.
Qed.

Lemma cast_round_id_iff : forall dt v, cast_out dt true v = vround v <-> vfits (round_width dt) v.
Proof.
  intros dt v. unfold cast_out, vmapz, vround, vfits. split.
  - intros H. injection H as H1 H2 H3.
    repeat split; apply (proj1 (wrap_s_id_iff _ _)); assumption.
  - intros (H1 & H2 & H3).
    now rewrite (proj2 (wrap_s_id_iff _ _) H1), (proj2 (wrap_s_id_iff _ _) H2), (proj2 (wrap_s_id_iff _ _) H3).
Qed.

Lemma map_cast_round : forall dt l, Forall (vfits (round_width dt)) l -> map (cast_out dt true) l = map vround l.
Proof.
  intros dt l H. induction H as [|v l Hv _ IH]; cbn [map]; [reflexivity|].
  now rewrite (proj2 (cast_round_id_iff dt v) Hv), IH.
Qed.

(* rounded mapping: whenever every rounded index fits the output integer type, the result (values, acceptance,
   refusal) is the dtype-independent one *)
Theorem v2v_dt_rounded_exact : forall dt A B shape check pts,
  Forall (vfits (round_width dt)) (map (phys (v2v_aff A B)) pts) ->
  v2v_dt dt A B shape true check pts = v2v A B shape true check pts.
Proof.
  intros dt A B shape check pts H. unfold v2v_dt, v2v.
  now rewrite (map_cast_round dt _ H).
Qed.

(* ... and ONLY then (no bounds check: the returned list differs from the dtype-independent one as soon as one
   rounded index does not fit) *)
Theorem v2v_dt_rounded_exact_iff : forall dt A B shape pts, ~ (det B == 0)%Q ->
  (v2v_dt dt A B shape true false pts = v2v A B shape true false pts <->
   Forall (vfits (round_width dt)) (map (phys (v2v_aff A B)) pts)).
Proof.
  intros dt A B shape pts Hd. split; [|apply v2v_dt_rounded_exact].
  unfold v2v_dt, v2v. rewrite (det_nz B Hd). intros H. injection H as H.
  generalize dependent (map (phys (v2v_aff A B)) pts). intros l. induction l as [|v l IH]; intros H; [constructor|].
  cbn [map] in H. pose proof (f_equal (hd v) H) as Hv. pose proof (f_equal (@tl vec3) H) as Hl.
  cbn [hd tl] in Hv, Hl. constructor; [apply cast_round_id_iff; exact Hv|apply IH; exact Hl].
Qed.

(* unsigned and floating inputs: the rounded output is int64 whatever the width of the input type, so
   NEGATIVE indices (points before the first voxel of the target) are returned as they are *)
Corollary v2v_dt_nonint_rounded : forall dt A B shape check pts, input_is_int dt = false ->
  Forall (vfits W64) (map (phys (v2v_aff A B)) pts) ->
  v2v_dt dt A B shape true check pts = v2v A B shape true check pts.
Proof.
  intros dt A B shape check pts Hi H. apply v2v_dt_rounded_exact.
  destruct dt; [discriminate Hi|exact H|exact H].
Qed.

(* unrounded mapping: independent of the dtype of the index array - signed, UNSIGNED (fix D112) and floating *)
Lemma cast_unrounded_id : forall dt v, cast_out dt false v = v.
Proof. intros dt v. unfold cast_out, to_float. destruct dt; reflexivity. Qed.

Theorem v2v_dt_unrounded_exact : forall dt A B shape check pts,
  v2v_dt dt A B shape false check pts = v2v A B shape false check pts.
Proof.
  intros dt A B shape check pts. unfold v2v_dt, v2v.
  assert (E : map (cast_out dt false) (map (phys (v2v_aff A B)) pts) = map (phys (v2v_aff A B)) pts).
  { rewrite (map_ext _ (fun v => v) (cast_unrounded_id dt)). apply map_id. }
  now rewrite E.
Qed.

(* "index mapping between two volumes agrees with mapping through physical space" for every input dtype *)
Theorem v2v_dt_rounded_agrees_with_physical_route : forall dt A B shape check pts, ~ (det B == 0)%Q ->
  Forall (vfits (round_width dt)) (map (phys (v2v_aff A B)) pts) ->
  (forall l, v2v_dt dt A B shape true check pts = Ok l -> ref2idx B shape true check (idx2ref A pts) = Ok l) /\
  (forall e, ref2idx B shape true check (idx2ref A pts) = Err e ->
             exists e', v2v_dt dt A B shape true check pts = Err e').
Proof.
  intros dt A B shape check pts Hd H. rewrite (v2v_dt_rounded_exact dt A B shape check pts H).
  now apply v2v_rounded_agrees_with_physical_route.
Qed.

Theorem v2v_dt_unrounded_agrees_with_physical_route : forall dt A B shape check pts, ~ (det B == 0)%Q ->
  agree (v2v_dt dt A B shape false check pts) (ref2idx B shape false check (idx2ref A pts)) /\
  (forall e, v2v_dt dt A B shape false check pts = Err e -> e = VE /\ check = true) /\
  (forall e, ref2idx B shape false check (idx2ref A pts) = Err e ->
             check = true /\ (e = RT \/ pts = [] /\ e = VE)).
Proof.
  intros dt A B shape check pts Hd. rewrite (v2v_dt_unrounded_exact dt A B shape check pts).
  now apply v2v_agrees_with_physical_route.
Qed.

(* the witness of fixed defect D112 (identity geometries, the target shifted by 5/2 voxels and 300 voxels long, the
   uint8 point (1,2,3) maps to (-3/2,2,3); the code used to return (255,2,3) and to ACCEPT it): now refused by the
   bounds check, and returned as it is without the check *)
Definition rf_A : aff := Aff (V3 1 0 0) (V3 0 1 0) (V3 0 0 1) (V3 0 0 0).
Definition rf_B : aff := Aff (V3 1 0 0) (V3 0 1 0) (V3 0 0 1) (V3 (5 # 2) 0 0).
Lemma d112_unsigned_unrounded_now_exact :
  ~ (det rf_B == 0)%Q /\
  v2v_dt (DUInt W8) rf_A rf_B (T3 300 10 10) false true [V3 1 2 3] = Err VE /\
  ref2idx rf_B (T3 300 10 10) false true (idx2ref rf_A [V3 1 2 3]) = Err RT /\
  exists l, v2v_dt (DUInt W8) rf_A rf_B (T3 300 10 10) false false [V3 1 2 3] = Ok l /\
            Forall2 veq l [V3 (- (3 # 2)) 2 3].
Proof.
  split; [vm_compute; discriminate|]. split; [vm_compute; reflexivity|]. split; [vm_compute; reflexivity|].
  eexists. split; [vm_compute; reflexivity|]. constructor; [|constructor]. repeat split; reflexivity.
Qed.
