(* C20 - model, part 6 (strengthening round 6).  NO proofs in this file.

   Part 16: spatial.create_affine_matrix_from_components, the helper behind
            hd.Volume.from_components / hd.VolumeGeometry.from_components: the
            guards in source order, the affine matrix that is returned, and - in
            the ownership algebra of part 9 - what happens to the direction
            matrix THE CALLER passed (np.array = a new array, reshape = a view,
            direction * spacing = a new array).
   Part 17: decimal and integer strings.  pydicom's validators for the value
            representations DS (16 characters) and IS (12 characters), the shapes
            of the strings DS(x, auto_format=True) / format_number_as_ds produce
            (fixed and scientific notation), and the choice between the shortest
            repr of a float and the re-formatted string. *)
From Coq Require Import String ZArith List Bool.
From HD Require Import Base.Val C20_Model.
Import ListNotations.
Open Scope string_scope.
Open Scope list_scope.
Open Scope Z_scope.

(* ------------------------------------------------------------------ *)
(** * Part 16: create_affine_matrix_from_components (spatial.py)        *)
(* ------------------------------------------------------------------ *)

(* the FORM in which the caller holds the direction matrix *)
Inductive dform :=
| DSeq         (* a (nested or flat) list / tuple *)
| DArr64       (* a numpy array of dtype float64, any memory layout *)
| DArrOther.   (* a numpy array of another dtype (float32, integer, longdouble, non-native byte order) *)

(* Numbers: spacing, position and center_position in QUARTERS (4 = 1.0), the
   entries of the direction matrix and the spatial shape are integers. *)
Record comp_args := {
  g_form : dform;
  g_dir : option (list Z);      (* direction: its entries row by row; None = not passed *)
  g_dshape : Z;                 (* its shape as an array: 0 = (3, 3), 1 = (9,), other = another shape *)
  g_orient : option (list Z);   (* patient_orientation: 0 L, 1 R, 2 P, 3 A, 4 H, 5 F, other = no such letter *)
  g_spacing : list Z;           (* a scalar spacing is three equal values *)
  g_pos : option (list Z);
  g_center : option (list Z);
  g_shape : option (list Z)
}.

Definition is_none {A} (o : option A) : bool := match o with None => true | Some _ => false end.

(* _is_matrix_orthogonal(m, require_unit=True) on integer entries: squared column
   norms are 1 and m.T @ m is diagonal (the tolerance cannot matter for integers) *)
Definition orthonormal (m : list Z) : bool :=
  match m with
  | [a; b; c; d; e; f; g; h; i] =>
      (a * a + d * d + g * g =? 1) && (b * b + e * e + h * h =? 1) && (c * c + f * f + i * i =? 1) &&
      (a * b + d * e + g * h =? 0) && (a * c + d * f + g * i =? 0) && (b * c + e * f + h * i =? 0)
  | _ => false
  end.
(* direction * spacing: column j is multiplied by spacing[j] *)
Definition scale_cols (m s : list Z) : list Z :=
  match m, s with
  | [a; b; c; d; e; f; g; h; i], [x; y; z] => [a * x; b * y; c * z; d * x; e * y; f * z; g * x; h * y; i * z]
  | _, _ => []
  end.

(* rotation_for_patient_orientation: letter -> (axis, sign) *)
Definition letter_axis (l : Z) : option (Z * Z) :=
  if l =? 0 then Some (0, 1) else if l =? 1 then Some (0, -1) else
  if l =? 2 then Some (1, 1) else if l =? 3 then Some (1, -1) else
  if l =? 4 then Some (2, 1) else if l =? 5 then Some (2, -1) else None.
Definition zmem (x : Z) (l : list Z) : bool := existsb (Z.eqb x) l.
(* _normalize_patient_orientation: three letters, each one a letter, one of L/R, one of A/P, one of F/H *)
Definition orient_ok (o : list Z) : bool :=
  (zlen o =? 3) && forallb (fun l => negb (is_none (letter_axis l))) o &&
  xorb (zmem 0 o) (zmem 1 o) && xorb (zmem 2 o) (zmem 3 o) && xorb (zmem 4 o) (zmem 5 o).
(* column j is the unit vector of letter j *)
Definition orient_dir (o : list Z) : list Z :=
  flat_map (fun i => map (fun l => match letter_axis l with
                                   | Some (ax, sg) => if ax =? i then sg else 0
                                   | None => 0 end) o) [0; 1; 2].

(* center_position -> position of voxel (0, 0, 0), in EIGHTHS:
   center - scaled_direction @ ((shape - 1) / 2) *)
Definition center_to_pos (sd c n : list Z) : list Z :=
  match sd, c, n with
  | [a; b; c0; d; e; f; g; h; i], [cx; cy; cz], [n0; n1; n2] =>
      [2 * cx - (a * (n0 - 1) + b * (n1 - 1) + c0 * (n2 - 1));
       2 * cy - (d * (n0 - 1) + e * (n1 - 1) + f * (n2 - 1));
       2 * cz - (g * (n0 - 1) + h * (n1 - 1) + i * (n2 - 1))]
  | _, _, _ => []
  end.
(* _stack_affine_matrix, row by row, in EIGHTHS (sd in quarters, t in eighths) *)
Definition affine8 (sd t : list Z) : list Z :=
  match sd, t with
  | [a; b; c; d; e; f; g; h; i], [tx; ty; tz] =>
      [2 * a; 2 * b; 2 * c; tx; 2 * d; 2 * e; 2 * f; ty; 2 * g; 2 * h; 2 * i; tz; 0; 0; 0; 8]
  | _, _ => []
  end.

(* the direction matrix the function works with *)
Definition comp_direction (a : comp_args) : res (list Z) :=
  match g_dir a with
  | Some d =>
      if ((g_dshape a =? 0) || (g_dshape a =? 1)) && (zlen d =? 9) then
        (if orthonormal d then Ok d else Err "ValueError")
      else Err "ValueError"
  | None =>
      match g_orient a with
      | Some o => if orient_ok o then Ok (orient_dir o) else Err "ValueError"
      | None => Err "TypeError"
      end
  end.
(* the translation, in eighths *)
Definition comp_translation (a : comp_args) (sd : list Z) : res (list Z) :=
  match g_pos a with
  | Some p => if zlen p =? 3 then Ok (map (Z.mul 2) p) else Err "ValueError"
  | None =>
      match g_shape a with
      | None => Err "TypeError"
      | Some n =>
          if negb (zlen n =? 3) then Err "ValueError" else
          match g_center a with
          | Some c => if zlen c =? 3 then Ok (center_to_pos sd c n) else Err "ValueError"
          | None => Err "TypeError"
          end
      end
  end.
(* the guards in source order; the result row by row in eighths *)
Definition comp_affine (a : comp_args) : res (list Z) :=
  if Bool.eqb (is_none (g_dir a)) (is_none (g_orient a)) then Err "TypeError" else
  if Bool.eqb (is_none (g_pos a)) (is_none (g_center a)) then Err "TypeError" else
  if negb (zlen (g_spacing a) =? 3) then Err "ValueError" else
  if negb (forallb (fun s => 0 <? s) (g_spacing a)) then Err "ValueError" else
  bind (comp_direction a) (fun d =>
  let sd := scale_cols d (g_spacing a) in
  bind (comp_translation a sd) (fun t => Ok (affine8 sd t))).

(* every guard as one predicate *)
Definition comp_accepts (a : comp_args) : bool :=
  negb (Bool.eqb (is_none (g_dir a)) (is_none (g_orient a))) &&
  negb (Bool.eqb (is_none (g_pos a)) (is_none (g_center a))) &&
  (zlen (g_spacing a) =? 3) && forallb (fun s => 0 <? s) (g_spacing a) &&
  match g_dir a with
  | Some d => ((g_dshape a =? 0) || (g_dshape a =? 1)) && (zlen d =? 9) && orthonormal d
  | None => match g_orient a with Some o => orient_ok o | None => false end
  end &&
  match g_pos a with
  | Some p => zlen p =? 3
  | None => match g_shape a, g_center a with
            | Some n, Some c => (zlen n =? 3) && (zlen c =? 3)
            | _, _ => false
            end
  end.

(* What is done to the array the caller passed as direction, in source order:
   [conv] = how it is turned into a float64 array, a (9,) array is reshaped (a
   view), [scale] = how the columns are scaled. *)
Definition comp_ops_gen (conv : dform -> aop) (scale : aop) (a : comp_args) : list aop :=
  match g_dir a with
  | Some _ => [conv (g_form a)] ++ (if g_dshape a =? 1 then [OSlice] else []) ++ [scale]
  | None => []          (* the matrix is built by the function itself *)
  end.
Definition conv_array (_ : dform) : aop := OCopy.          (* np.array(direction, dtype=np.float64) *)
Definition conv_asarray (f : dform) : aop :=               (* np.asarray: no copy for a float64 ndarray *)
  match f with DArr64 => OKeep | _ => OCopy end.
Definition comp_ops := comp_ops_gen conv_array OCopy.                      (* the library *)
Definition comp_ops_asarray := comp_ops_gen conv_asarray OCopy.            (* only the conversion changed *)
Definition comp_ops_inplace := comp_ops_gen conv_array OInplace.           (* only scaled_direction *= spacing *)
Definition comp_ops_asarray_inplace := comp_ops_gen conv_asarray OInplace. (* both *)
Definition comp_written (a : comp_args) : bool := snd (run_ops View (comp_ops a)).

(* ------------------------------------------------------------------ *)
(** * Part 17: decimal strings (DS) and integer strings (IS)            *)
(* ------------------------------------------------------------------ *)

(* pydicom.valuerep.VALIDATORS[DS] / [IS] = validate_length_and_type_and_regex:
   at most 16 / 12 characters and (for a non-empty value) re.match of
     DS  ^ *[+\-]?(\d+|\d+\.\d*|\.\d+)([eE][+\-]?\d+)? *$
     IS  ^ *[+\-]?\d+ *$
   and the last character is not a newline ('$' alone would tolerate one).
   Characters are code points; only ASCII digits are modelled. *)
Fixpoint skip_spaces (s : str) : str :=
  match s with c :: r => if c =? 32 then skip_spaces r else s | [] => [] end.
Definition skip_sign (s : str) : str :=
  match s with c :: r => if (c =? 43) || (c =? 45) then r else s | [] => [] end.
Fixpoint span_digits (s : str) : nat * str :=
  match s with
  | c :: r => if is_digit c then (let (n, t) := span_digits r in (S n, t)) else (O, s)
  | [] => (O, [])
  end.
Definition all_spaces (s : str) : bool := forallb (fun c => c =? 32) s.

Definition ds_exponent (s : str) : bool :=
  match s with
  | c :: r =>
      if (c =? 101) || (c =? 69) then
        (let (n, t) := span_digits (skip_sign r) in negb (Nat.eqb n 0) && all_spaces t)
      else all_spaces s
  | [] => true
  end.
Definition ds_regex (s : str) : bool :=
  let (n1, s2) := span_digits (skip_sign (skip_spaces s)) in
  match s2 with
  | c :: r =>
      if c =? 46 then
        (let (n2, s3) := span_digits r in negb (Nat.eqb (n1 + n2) 0) && ds_exponent s3)
      else negb (Nat.eqb n1 0) && ds_exponent s2
  | [] => negb (Nat.eqb n1 0)
  end.
Definition is_regex (s : str) : bool :=
  let (n, r) := span_digits (skip_sign (skip_spaces s)) in negb (Nat.eqb n 0) && all_spaces r.

Inductive nvr := DS | IS.
Definition num_max_len (v : nvr) : Z := match v with DS => 16 | IS => 12 end.
Definition pydicom_valid_num (v : nvr) (s : str) : bool :=
  (zlen s <=? num_max_len v) &&
  match s with
  | [] => true
  | _ => match v with DS => ds_regex s | IS => is_regex s end
  end.

(* the strings of C's %.<k>f and %.<k>e for a finite number: digits are code points 48..57 *)
Definition sign_str (neg : bool) : str := if neg then [45] else [].
Definition fixed_str (neg : bool) (ip fp : str) : str := sign_str neg ++ ip ++ [46] ++ fp.
Definition sci_str (neg : bool) (d : Z) (fp : str) (eneg : bool) (ep : str) : str :=
  sign_str neg ++ [d] ++ [46] ++ fp ++ [101] ++ [if eneg then 45 else 43] ++ ep.
Definition sign_len (neg : bool) : Z := if neg then 1 else 0.
(* format_number_as_ds: decimals asked for in fixed notation when floor(log10 |x|) = e,
   in scientific notation when the exponent has [ne] digits (2, or 3: one decimal less) *)
Definition fixed_decimals (neg : bool) (e : Z) : Z := 14 - sign_len neg - (if 1 <=? e then e else 0).
Definition sci_decimals (neg : bool) (ne : Z) : Z := 10 - sign_len neg - (if ne =? 2 then 0 else 1).
(* DS(x, auto_format=True): the shortest repr of the float when it fits, else the re-formatted string *)
Definition ds_auto (repr formatted : str) : str := if zlen repr <=? 16 then repr else formatted.
(* a plain float assigned to a DS element: written with its repr *)
Definition ds_plain (repr formatted : str) : str := repr.

(* ------------------------------------------------------------------ *)
(** * boundary functions for parts 16-17                                *)
(* ------------------------------------------------------------------ *)
(* output: [was the caller's direction array written to; the 16 entries of the affine matrix in eighths] *)
Definition run_affine_components (form dshape : Z) (dir orient : option (list Z)) (spacing : list Z)
    (pos center shape : option (list Z)) : val :=
  let a := {| g_form := if form =? 0 then DSeq else if form =? 1 then DArr64 else DArrOther;
              g_dir := dir; g_dshape := dshape; g_orient := orient; g_spacing := spacing;
              g_pos := pos; g_center := center; g_shape := shape |} in
  vres (fun m => VL [VB (comp_written a); vz_list m]) (comp_affine a).
Definition run_valid_num (v : nvr) (s : str) : val := VB (pydicom_valid_num v s).
