(* C19 - sub-ranges of the volume read with the real world value mapping: element by element *)
From Coq Require Import String ZArith List Bool QArith Lia ZifyBool Permutation Sorted.
From HD Require Import Base.Val C19_Model C19_Proofs C19_Proofs_Ext C19_Proofs_Vol C19_Proofs_Vol2.
Import ListNotations.
Open Scope Z_scope.

Lemma Forall2_nth_error {A B} (P : A -> B -> Prop) : forall l t, Forall2 P l t ->
  forall k x, nth_error l k = Some x -> exists y, nth_error t k = Some y /\ P x y.
Proof.
  induction 1 as [|a b l t Hab _ IH]; intros k x Hk.
  - destruct k; discriminate.
  - destruct k as [|k]; cbn [nth_error] in *.
    + inversion Hk; subst. eauto.
    + apply IH. exact Hk.
Qed.

(* an applied mapping assigns to every stored value the value the mapping designates *)
Lemma apply_mapping_ok_inv m ws vs : apply_mapping m ws = Ok vs -> Forall2 (maps_to m) ws vs.
Proof.
  intros H.
  assert (Hne : ws <> []).
  { intros ->. cbn in H. discriminate. }
  assert (Hin : forall x, In x ws -> in_range m x = true).
  { intros x Hx. destruct (in_range m x) eqn:E; [reflexivity|]. exfalso.
    assert (E' : apply_mapping m ws = Err "ValueError") by (apply apply_mapping_err; right; eauto).
    congruence. }
  destruct (apply_mapping_ok m ws Hne Hin) as (vs' & H1 & H2). congruence.
Qed.

Lemma volume_sub_rw_roundtrip : forall get N R C w pos m a nr nc out,
  (forall i r c j, 0 <= get i r c j < 256 ^ Z.of_nat w) -> 0 < R -> 0 < C -> 0 <= N ->
  length pos = Z.to_nat N ->
  pm_volume_sub 0%Q (apply_mapping m) R C 1 pos
    (map (read_frame w R C (pm_bytes get N R C 1 w)) (zrange N)) a = Ok (nr, nc, out) ->
  exists s e r0 r1 c0 c1,
    std_slice (v_ss a) (v_se a) N (v_ai a) = Ok (s, e) /\
    std_axis (v_rs a) (v_re a) R (v_ai a) = Ok (r0, r1) /\
    std_axis (v_cs a) (v_ce a) C (v_ai a) = Ok (c0, c1) /\
    nr = r1 - r0 /\ nc = c1 - c0 /\ length out = Z.to_nat (e - s) /\
    forall p, 0 <= p < e - s ->
      exists q i vals,
        nth_error out (Z.to_nat p) = Some (q, vals) /\
        0 <= i < N /\ nth_error pos (Z.to_nat i) = Some q /\
        forall r c, 0 <= r < r1 - r0 -> 0 <= c < c1 - c0 ->
          exists v, nth_error vals (Z.to_nat (r * (c1 - c0) + c)) = Some v /\
                    maps_to m (get i (r0 + r) (c0 + c) 0) v.
Proof.
  intros get N R C w pos m a nr nc out Hfit HR HC HN Hlen H.
  apply volume_sub_transformed in H.
  destruct H as (sl & s & e & r0 & r1 & c0 & c1 & Hr & Hc & Hv & Hs & Hs0 & Hrr & Hcc & -> & -> & HF).
  destruct (pm_volume_roundtrip get N R C w pos sl Hfit ltac:(lia) ltac:(lia) HN Hlen Hv)
    as (_ & Hlensl & Hin).
  rewrite Hlensl, Z2Nat.id in Hs by lia.
  pose proof (std_axis_bounds _ _ _ _ _ _ HR Hr) as Br.
  pose proof (std_axis_bounds _ _ _ _ _ _ HC Hc) as Bc.
  pose proof (std_slice_bounds _ _ _ _ _ _ HN Hs) as Bs.
  exists s, e, r0, r1, c0, c1.
  split; [exact Hs|]. split; [exact Hr|]. split; [exact Hc|]. split; [reflexivity|]. split; [reflexivity|].
  split.
  { rewrite <- (Forall2_length' _ _ _ HF), firstn_length, skipn_length. lia. }
  intros p Hp.
  destruct (nth_error sl (Z.to_nat (s + p))) as [[q fr]|] eqn:En.
  2:{ apply nth_error_None in En. lia. }
  pose proof (nth_error_In _ _ En) as HIn. apply Hin in HIn. destruct HIn as (i & Hi & Hq & ->).
  assert (Ew : nth_error (firstn (Z.to_nat (e - s)) (skipn (Z.to_nat s) sl)) (Z.to_nat p)
               = Some (q, frame_words get R C i 0)).
  { rewrite nth_error_firstn' by lia. rewrite nth_error_skipn'.
    replace (Z.to_nat s + Z.to_nat p)%nat with (Z.to_nat (s + p)) by lia. exact En. }
  destruct (Forall2_nth_error _ _ _ HF _ _ Ew) as (o & Ho & vs & Hvs & ->). cbn [fst snd] in *.
  exists q, i, (crop_frame 0%Q C r0 r1 c0 c1 vs).
  split; [exact Ho|]. split; [exact Hi|]. split; [exact Hq|].
  intros r c Hr' Hc'. rewrite crop_nth by lia.
  apply apply_mapping_ok_inv in Hvs.
  destruct (pm_frame_order get N R C 1 i 0 (r0 + r) (c0 + c)) as (_ & _ & Hnth); try lia.
  destruct (Forall2_nth_error _ _ _ Hvs _ _ Hnth) as (v & Hv1 & Hv2).
  exists v. split; [|exact Hv2]. f_equal. apply nth_error_nth. exact Hv1.
Qed.

Lemma vol_rw_example :
  let get := fun i r c (j : Z) => 100 * i + 10 * r + c in
  let pos := [[0; 0; 8]; [0; 0; 24]; [0; 0; 16]] in
  let frames := map (read_frame 1 3 2 (pm_bytes get 3 3 2 1 1)) (zrange 3) in
  let a := {| v_ss := Some 2; v_se := None; v_rs := Some 2; v_re := None; v_cs := Some (-1);
              v_ce := None; v_ai := false |} in
  pm_volume_sub 0%Q (apply_mapping (MLin (1 # 2) 1 0 255)) 3 2 1 pos frames a
    = Ok (2, 1, [([0; 0; 16], [213 # 2; 223 # 2]%Q); ([0; 0; 8], [13 # 2; 23 # 2]%Q)]) /\
  pm_volume_sub 0%Q (apply_mapping (MLin (1 # 2) 1 0 100)) 3 2 1 pos frames a = Err "ValueError".
Proof. vm_compute. split; reflexivity. Qed.
