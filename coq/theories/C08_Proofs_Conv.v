From Coq Require Import String ZArith List Bool Lia ZifyBool Ring QArith Qcanon.
From HD Require Import C08_Model C08_Proofs C08_Proofs_Qc C08_Proofs_Top C08_Proofs_Inv.
Import ListNotations.
Open Scope Z_scope.

(* get_affine(output_convention) re-expresses the SAME physical point: the affine in another
   convention sends every (real-valued) index to the convention image of the point the LPH affine
   sends it to - for all row codes, valid or not *)
Theorem convention_moves_no_voxel : forall d0 d1 d2 (A : aff Qc) (i j k : Qc),
  phys Qc Qcplus Qcmult (conv_aff d0 d1 d2 A) i j k = conv_vec d0 d1 d2 (phys Qc Qcplus Qcmult A i j k).
Proof.
  intros d0 d1 d2 [[a0 a1 a2] [b0 b1 b2] [e0 e1 e2] [t0 t1 t2]] i j k.
  unfold conv_aff, conv_vec, phys, vadd, smul, sel3. cbn [c0 c1 c2 tr vx vy vz].
  apply vec_eq; cbn [vx vy vz].
  - destruct (d0 / 2 =? 0), (d0 / 2 =? 1), (d0 mod 2 =? 0); ring.
  - destruct (d1 / 2 =? 0), (d1 / 2 =? 1), (d1 mod 2 =? 0); ring.
  - destruct (d2 / 2 =? 0), (d2 / 2 =? 1), (d2 mod 2 =? 0); ring.
Qed.

(* ... and get_plane_position(k) is the physical coordinate of voxel (k, 0, 0) *)
Theorem plane_position_is_voxel_coordinate : forall A0 A shape vals k,
  0 <= k < (let '(n0, _, _) := shape in n0) ->
  observe A0 A shape vals (QPlanePos [k]) = VL [VL (vvec (q_phys A (k, 0, 0)))].
Proof.
  intros A0 A [[n0 n1] n2] vals k Hk. unfold observe. cbn [map].
  replace ((k <? 0) || (n0 <=? k)) with false by lia. reflexivity.
Qed.
