(* C20 - model, part 5 (strengthening round 3).  NO proofs in this file.

   Part 14: the Softcopy VOI LUT module of a presentation state
            (pr/content.py _add_softcopy_voi_lut_attributes): several VOI LUT
            transformations that refer to frames of the referenced images.  The
            frame numbers the CALLER'S transformations hold are threaded through
            the check as a heap of cells, the per-image accumulators of the check
            (prev_ref_frames) are either lists of their own or ALIASES of such a
            cell, so that "the constructor leaves the transformations as they
            were" is a statement about the function and not true by construction.
   Part 15: copies of objects that already are objects of the library
            (image.py _Image.__getstate__ / from_dataset(copy=True) = deepcopy):
            the state handed to the copier in the ownership algebra of part 9. *)
From Coq Require Import String ZArith List Bool Arith PeanoNat.
From HD Require Import Base.Val C20_Model.
Import ListNotations.
Open Scope string_scope.
Open Scope Z_scope.

(* ------------------------------------------------------------------ *)
(** * Part 14: VOI LUT transformations and the frames they refer to     *)
(* ------------------------------------------------------------------ *)

(* a referenced image of the presentation state: is_multiframe_image, NumberOfFrames (1 if absent) *)
Record rimg := { ri_mf : bool; ri_n : Z }.
(* ReferencedFrameNumber of one item of a ReferencedImageSequence: absent, or
   its value(s); ONE value is a scalar element (the code wraps it in a new
   list), TWO OR MORE are a pydicom MultiValue - an object the caller owns *)
Definition fref := option (list Z).
(* (position of the image among referenced_images - a position beyond the end: an
   image that is not among them -, frame numbers) *)
Definition ritem := (nat * fref)%type.
(* a SoftcopyVOILUTTransformation: no ReferencedImageSequence | its items *)
Definition vtrans := option (list ritem).

(* the caller's frame-number values, by transformation and item *)
Definition cells := list (list fref).
Definition cells_of (ts : list vtrans) : cells :=
  map (fun t => match t with Some its => map snd its | None => [] end) ts.
Definition cell_get (c : cells) (t k : nat) : list Z :=
  match nth_error c t with
  | Some row => match nth_error row k with Some (Some l) => l | _ => [] end
  | None => []
  end.
Fixpoint upd_nth {A} (l : list A) (k : nat) (f : A -> A) : list A :=
  match l, k with
  | [], _ => []
  | x :: r, O => f x :: r
  | x :: r, S k' => x :: upd_nth r k' f
  end.
(* list.append / list.extend on the object held by cell (t, k) *)
Definition cell_app (c : cells) (t k : nat) (fs : list Z) : cells :=
  upd_nth c t (fun row => upd_nth row k (fun v => match v with Some l => Some (l ++ fs)%list | None => None end)).

(* an accumulator prev_ref_frames[uids]: a list of the function's own, or the
   very object held by the caller's cell (t, k) *)
Inductive acc := AFresh (l : list Z) | AAlias (t k : nat).
Definition contents (c : cells) (a : acc) : list Z :=
  match a with AFresh l => l | AAlias t k => cell_get c t k end.
Definition acc_app (c : cells) (a : acc) (fs : list Z) : cells * acc :=
  match a with
  | AFresh l => (c, AFresh (l ++ fs)%list)
  | AAlias t k => (cell_app c t k fs, AAlias t k)
  end.
Definition store := list (nat * acc).          (* the dictionary, keyed by image *)
Fixpoint lookup_acc (s : store) (i : nat) : option acc :=
  match s with
  | [] => None
  | (j, a) :: r => if Nat.eqb j i then Some a else lookup_acc r i
  end.
Fixpoint set_acc (s : store) (i : nat) (a : acc) : store :=
  match s with
  | [] => [(i, a)]
  | (j, b) :: r => if Nat.eqb j i then (j, a) :: r else (j, b) :: set_acc r i a
  end.
Definition keyed (s : store) (i : nat) : bool := match lookup_acc s i with Some _ => true | None => false end.
Definition zmem (f : Z) (l : list Z) : bool := existsb (Z.eqb f) l.

Definition all_frames (n : Z) : list Z := map Z.of_nat (seq 1 (Z.to_nat n)).
Definition ref_frames (im : rimg) (f : fref) : list Z :=
  match f with Some l => l | None => all_frames (ri_n im) end.

(* the code as it is:  for f in ref_frames:
                           if f in prev_ref_frames[uids]: raise ValueError
                           prev_ref_frames[uids].append(f)
   (prev_ref_frames is a defaultdict(list): the key appears with the first frame) *)
Fixpoint add_frames (c : cells) (s : store) (i : nat) (fs : list Z) : res (cells * store) :=
  match fs with
  | [] => Ok (c, s)
  | f :: r =>
      let a := match lookup_acc s i with Some a => a | None => AFresh [] end in
      if zmem f (contents c a) then Err "ValueError"
      else let (c', a') := acc_app c a [f] in add_frames c' (set_acc s i a') i r
  end.
(* a variant (seed C20-m10): the first reference to an image stores ref_frames
   ITSELF - the caller's MultiValue when the item lists two or more frames -,
   later references are compared with it and then seen_frames.extend(ref_frames) *)
Definition add_frames_alias (c : cells) (s : store) (i t k : nat) (f : fref) (fs : list Z)
  : res (cells * store) :=
  match lookup_acc s i with
  | None =>
      let a := match f with
               | Some l => if (2 <=? length l)%nat then AAlias t k else AFresh fs
               | None => AFresh fs
               end in
      Ok (c, set_acc s i a)
  | Some a =>
      if existsb (fun x => zmem x (contents c a)) fs then Err "ValueError"
      else let (c', a') := acc_app c a fs in Ok (c', set_acc s i a')
  end.

Definition voi_item (alias : bool) (imgs : list rimg) (cs : cells * store) (t k : nat) (it : ritem)
  : res (cells * store) :=
  let (c, s) := cs in
  let (i, f) := it in
  match nth_error imgs i with
  | None => Err "ValueError"                       (* not included in "referenced_images" *)
  | Some im =>
      if keyed s i && negb (ri_mf im) then Err "ValueError"       (* a single-frame image referenced twice *)
      else if alias then add_frames_alias c s i t k f (ref_frames im f)
           else add_frames c s i (ref_frames im f)
  end.
Fixpoint voi_items (alias : bool) (imgs : list rimg) (cs : cells * store) (t k : nat) (its : list ritem)
  : res (cells * store) :=
  match its with
  | [] => Ok cs
  | it :: r => bind (voi_item alias imgs cs t k it) (fun cs' => voi_items alias imgs cs' t (S k) r)
  end.
Fixpoint voi_trans (alias : bool) (imgs : list rimg) (cs : cells * store) (t : nat) (ts : list vtrans)
  : res (cells * store) :=
  match ts with
  | [] => Ok cs
  | tr :: r =>
      bind (match tr with Some its => voi_items alias imgs cs t 0 its | None => Ok cs end)
           (fun cs' => voi_trans alias imgs cs' (S t) r)
  end.
Definition has_refs (t : vtrans) : bool := match t with Some _ => true | None => false end.
(* result: the frame numbers the caller's transformations hold afterwards (the
   object built holds the SAME items: dataset.SoftcopyVOILUTSequence = voi_lut_transformations) *)
Definition voi_refs_gen (alias : bool) (imgs : list rimg) (ts : list vtrans) : res cells :=
  match ts with
  | [] => Err "ValueError"
  | _ =>
      if (1 <? length ts)%nat && negb (forallb has_refs ts) then Err "ValueError"
      else bind (voi_trans alias imgs (cells_of ts, []) 0 ts) (fun cs => Ok (fst cs))
  end.
Definition voi_refs := voi_refs_gen false.
Definition voi_refs_aliasing := voi_refs_gen true.

(* what the transformations claim: (image, frame) pairs in the order of the check *)
Definition item_claims (imgs : list rimg) (it : ritem) : list (nat * Z) :=
  match nth_error imgs (fst it) with
  | Some im => map (fun f => (fst it, f)) (ref_frames im (snd it))
  | None => []
  end.
Definition all_items (ts : list vtrans) : list ritem :=
  flat_map (fun t => match t with Some its => its | None => [] end) ts.
Definition claims (imgs : list rimg) (ts : list vtrans) : list (nat * Z) :=
  flat_map (item_claims imgs) (all_items ts).

(* ------------------------------------------------------------------ *)
(** * Part 15: copying an object that already is an object of the library *)
(* ------------------------------------------------------------------ *)

(* what is applied to the object *)
Inductive cop := CFromCopy | CFromNoCopy | CDeepcopy | CPickle.
(* the operations on the instance dictionary of the ORIGINAL ([View] = the
   caller's object) in the algebra of part 9.  An _Image subclass installs
   __getstate__:  state = <dict>.copy() | <dict> itself;  del state['_db_con'];
   state['db_data'] = ...;  the copier then builds the new object from a deep
   copy of the state.  Other datasets are copied by pydicom / copy.deepcopy
   (a new object).  from_dataset(copy=False) hands the argument back. *)
Definition getstate_ops (copy_first : bool) : list aop :=
  [if copy_first then OCopy else OKeep; OInplace; OInplace].
Definition obj_copy_ops_gen (copy_first : bool) (image_object : bool) (op : cop) : list aop :=
  match op with
  | CFromNoCopy => [OKeep]
  | _ => ((if image_object then getstate_ops copy_first else []) ++ [OCopy])%list
  end.
Definition obj_copy_ops := obj_copy_ops_gen true.           (* state = super().__dict__.copy() *)
Definition obj_copy_ops_vars := obj_copy_ops_gen false.     (* state = vars(self)  (seed C20-m12) *)
(* (the result is the argument itself, the original was written to) *)
Definition obj_copy (image_object : bool) (op : cop) : bool * bool :=
  let r := run_ops View (obj_copy_ops image_object op) in
  (match fst r with View => true | Fresh => false end, snd r).

(* ------------------------------------------------------------------ *)
(** * boundary functions for parts 14-15                                *)
(* ------------------------------------------------------------------ *)
Definition vfref (f : fref) : val := vopt vz_list f.
Definition vcells (c : cells) : val := VL (map (fun row => VL (map vfref row)) c).
(* imgs: (multi-frame?, number of frames); ts: per transformation None | items (image, frames);
   output: [the caller's frame numbers afterwards; the frame numbers the object holds] *)
Definition run_voi_refs (imgs : list (bool * Z)) (ts : list vtrans) : val :=
  vres (fun c => VL [vcells c; vcells c])
       (voi_refs (map (fun p => {| ri_mf := fst p; ri_n := snd p |}) imgs) ts).
(* op: 0 from_dataset(copy=True / default), 1 from_dataset(copy=False), 2 copy.deepcopy, 3 pickle *)
Definition run_obj_copy (image_object : bool) (op : Z) : val :=
  let o := if op =? 1 then CFromNoCopy else if op =? 2 then CDeepcopy else if op =? 3 then CPickle else CFromCopy in
  let r := obj_copy image_object o in VL [VB (fst r); VB (snd r)].
