(* C03 - proofs, part 2: exact geometry over Q (equalities are Qeq, componentwise). *)
From Coq Require Import String ZArith List Bool Lia QArith Qround Qfield Lqa.
From HD Require Import Base.Val Base.PySlice C03_Model.
Import ListNotations.
Open Scope Q_scope.

Definition veq (a b : v3) : Prop := vx a == vx b /\ vy a == vy b /\ vz a == vz b.
Definition aeq (A B : aff) : Prop :=
  veq (a0 A) (a0 B) /\ veq (a1 A) (a1 B) /\ veq (a2 A) (a2 B) /\ veq (atr A) (atr B).
Infix "=v=" := veq (at level 70).

Lemma veq_refl : forall a, a =v= a.
Proof. intros a; repeat split; reflexivity. Qed.
Lemma veq_sym : forall a b, a =v= b -> b =v= a.
Proof. intros a b (H1 & H2 & H3); repeat split; symmetry; assumption. Qed.
Lemma veq_trans : forall a b c, a =v= b -> b =v= c -> a =v= c.
Proof. intros a b c (H1 & H2 & H3) (K1 & K2 & K3); repeat split; etransitivity; eassumption. Qed.

(* ---------------------------------------------------------------------- *)
(* sub-regions: the affine of geometry[f0:, f1:, f2:] places voxel (i,j,k)  *)
(* where the parent places (f0+i, f1+j, f2+k)                              *)
(* ---------------------------------------------------------------------- *)
Lemma sub_aff_phys : forall A f0 f1 f2 i j k,
  phys (sub_aff A f0 f1 f2) i j k =v=
  phys A (inject_Z f0 + i) (inject_Z f1 + j) (inject_Z f2 + k).
Proof.
  intros [[x0 y0 z0] [x1 y1 z1] [x2 y2 z2] [tx ty tz]] f0 f1 f2 i j k.
  unfold veq, sub_aff, physZ; unfold phys, vadd, vscale; cbn [vx vy vz a0 a1 a2 atr]; unfold phys, vadd, vscale; cbn [vx vy vz a0 a1 a2 atr].
  repeat split; ring.
Qed.

Lemma sub_aff_physZ : forall A f0 f1 f2 i j k,
  physZ (sub_aff A f0 f1 f2) i j k =v= physZ A (f0 + i) (f1 + j) (f2 + k).
Proof.
  intros. unfold physZ. rewrite !inject_Z_plus. apply sub_aff_phys.
Qed.

Lemma sub_aff_origin : forall A f0 f1 f2, physZ (sub_aff A f0 f1 f2) 0 0 0 =v= physZ A f0 f1 f2.
Proof.
  intros. eapply veq_trans; [apply sub_aff_physZ|]. rewrite !Z.add_0_r. apply veq_refl.
Qed.

(* two nested sub-regions compose (get_volume slices the slice axis first,
   then rows and columns) *)
Lemma sub_aff_compose : forall A f0 f1 f2 i j k,
  physZ (sub_aff (sub_aff A f0 0 0) 0 f1 f2) i j k =v= physZ A (f0 + i) (f1 + j) (f2 + k).
Proof.
  intros. eapply veq_trans; [apply sub_aff_physZ|]. eapply veq_trans; [apply sub_aff_physZ|].
  replace (f0 + (0 + i))%Z with (f0 + i)%Z by lia.
  replace (0 + (f1 + j))%Z with (f1 + j)%Z by lia.
  replace (0 + (f2 + k))%Z with (f2 + k)%Z by lia. apply veq_refl.
Qed.

(* ---------------------------------------------------------------------- *)
(* numpy round on integers                                                 *)
(* ---------------------------------------------------------------------- *)
Lemma rne_integer : forall q k, q == inject_Z k -> rne q = k.
Proof.
  intros q k H. unfold rne.
  assert (Hf : Qfloor q = k) by (rewrite H; apply Qfloor_Z).
  rewrite Hf.
  assert (Hc : (q - inject_Z k ?= 1 # 2) = Lt).
  { apply Qlt_alt. setoid_replace (q - inject_Z k) with 0 by (rewrite H; ring). reflexivity. }
  rewrite Hc. reflexivity.
Qed.

(* ---------------------------------------------------------------------- *)
(* a volume written as a stack of planes and read back                     *)
(* ---------------------------------------------------------------------- *)
Section RoundTrip.
  Variables (pos d0 d1 d2 : v3) (s0 s1 s2 : Q).
  (* unit, mutually orthogonal in-plane directions; stacking direction is
     +-(d1 x d2): sg = 1 right-handed, sg = -1 left-handed *)
  Variable sg : Z.
  Hypothesis Hsg : (sg = 1 \/ sg = -1)%Z.
  Hypothesis H11 : vdot d1 d1 == 1.
  Hypothesis H22 : vdot d2 d2 == 1.
  Hypothesis H12 : vdot d1 d2 == 0.
  Hypothesis H0 : d0 =v= vscale (inject_Z sg) (vcross d1 d2).
  Hypothesis Hs0 : 0 < s0.

  Let A := vol_aff pos d0 d1 d2 s0 s1 s2.
  (* what the segmentation records: row cosines d2, column cosines d1 *)
  Let n := normal d2 d1.

  Lemma normal_unit : vdot n n == 1.
  Proof.
    subst n. unfold normal.
    assert (L : vdot (vcross d1 d2) (vcross d1 d2) ==
                vdot d1 d1 * vdot d2 d2 - vdot d1 d2 * vdot d1 d2).
    { destruct d1 as [a b c], d2 as [d e f]. unfold vdot, vcross; cbn [vx vy vz]. ring. }
    rewrite L, H11, H22, H12. ring.
  Qed.

  Lemma normal_dot_d0 : vdot n d0 == inject_Z sg.
  Proof.
    pose proof normal_unit as U. subst n. unfold normal in *.
    destruct H0 as (X & Y & Z).
    assert (E : vdot (vcross d1 d2) d0 == inject_Z sg * vdot (vcross d1 d2) (vcross d1 d2)).
    { unfold vdot at 1. rewrite X, Y, Z. unfold vdot, vscale; cbn [vx vy vz]. ring. }
    rewrite E, U. ring.
  Qed.

  (* signed distance of plane i along the recorded normal *)
  Lemma plane_distance : forall i j : Q,
    vdot n (phys A i 0 0) - vdot n (phys A j 0 0) == inject_Z sg * s0 * (i - j).
  Proof.
    intros i j. pose proof normal_dot_d0 as D.
    assert (E : vdot n (phys A i 0 0) - vdot n (phys A j 0 0) == (i - j) * s0 * vdot n d0).
    { subst A. destruct n as [nx ny nz], d0 as [a b c], d1 as [x1 y1 z1], d2 as [x2 y2 z2], pos as [px py pz].
      unfold vdot, phys, vol_aff, vadd, vscale; cbn [vx vy vz a0 a1 a2 atr]. ring. }
    rewrite E, D. ring.
  Qed.

  (* volume index that get_volume_positions assigns to plane i when plane j
     is the one at minimal distance: round((d_i - d_j) / spacing) = sg (i - j) *)
  Lemma plane_index : forall i j : Z,
    rne ((vdot n (physZ A i 0 0) - vdot n (physZ A j 0 0)) / s0) = (sg * (i - j))%Z.
  Proof.
    intros i j. apply rne_integer. unfold physZ.
    rewrite plane_distance. rewrite inject_Z_mult. unfold Zminus. rewrite inject_Z_plus, inject_Z_opp.
    field. lra.
  Qed.

  Lemma sg_sq : inject_Z sg * inject_Z sg == 1.
  Proof. destruct Hsg as [-> | ->]; reflexivity. Qed.

  (* voxel_fixed: the geometry rebuilt from the recorded attributes with plane
     j as origin puts voxel (sg (i - j), r, c) where the input put (i, r, c) *)
  Lemma voxel_fixed : forall i j r c : Z,
    physZ (attr_aff (physZ A j 0 0) d2 d1 s1 s2 s0) (sg * (i - j)) r c =v= physZ A i r c.
  Proof.
    intros i j r c. pose proof sg_sq as SQ. destruct H0 as (X & Y & Z).
    unfold physZ. rewrite inject_Z_mult. unfold Zminus. rewrite inject_Z_plus, inject_Z_opp.
    set (g := inject_Z sg) in *. clearbody g.
    generalize (inject_Z i) (inject_Z j) (inject_Z r) (inject_Z c). intros qi qj qr qc.
    subst A. unfold attr_aff, normal, vol_aff, phys, vadd, vscale, veq in *; cbn [vx vy vz a0 a1 a2 atr] in *.
    rewrite X, Y, Z.
    destruct d1 as [x1 y1 z1], d2 as [x2 y2 z2], pos as [px py pz]; cbn [vx vy vz vcross] in *.
    repeat split; ring.
  Qed.
End RoundTrip.

(* right-handed input: the rebuilt affine with plane 0 as origin IS the input affine *)
Lemma roundtrip_rh_affine : forall pos d0 d1 d2 s0 s1 s2,
  d0 =v= vcross d1 d2 ->
  aeq (attr_aff (physZ (vol_aff pos d0 d1 d2 s0 s1 s2) 0 0 0) d2 d1 s1 s2 s0)
      (vol_aff pos d0 d1 d2 s0 s1 s2).
Proof.
  intros [px py pz] [a b c] [x1 y1 z1] [x2 y2 z2] s0 s1 s2 (X & Y & Z).
  unfold aeq, veq, attr_aff, normal, vol_aff, physZ, phys, vadd, vscale, vcross in *;
    cbn [vx vy vz a0 a1 a2 atr] in *.
  rewrite X, Y, Z. repeat split; ring.
Qed.

(* left-handed input: origin moves to the last plane, slice axis is negated *)
Lemma roundtrip_lh_affine : forall pos d0 d1 d2 s0 s1 s2 S,
  d0 =v= vscale (-1) (vcross d1 d2) ->
  let A := vol_aff pos d0 d1 d2 s0 s1 s2 in
  aeq (attr_aff (physZ A (S - 1) 0 0) d2 d1 s1 s2 s0)
      (Aff (vscale (-1) (a0 A)) (a1 A) (a2 A) (physZ A (S - 1) 0 0)).
Proof.
  intros [px py pz] [a b c] [x1 y1 z1] [x2 y2 z2] s0 s1 s2 S (X & Y & Z) A. subst A.
  unfold aeq, veq, attr_aff, normal, vol_aff, physZ, phys, vadd, vscale, vcross in *;
    cbn [vx vy vz a0 a1 a2 atr] in *.
  rewrite X, Y, Z. repeat split; ring.
Qed.

(* ---------------------------------------------------------------------- *)
(* aligned source stack: planes at origin + m_i * sbs * n, any order        *)
(* ---------------------------------------------------------------------- *)
Lemma source_voxel_fixed : forall (p0 rowcos colcos : v3) (spr spc sbs : Q) (mi mj r c : Z),
  let n := normal rowcos colcos in
  let plane m := vadd p0 (vscale (inject_Z m * sbs) n) in
  physZ (attr_aff (plane mj) rowcos colcos spr spc sbs) (mi - mj) r c =v=
  vadd (vadd (plane mi) (vscale (inject_Z r * spr) colcos)) (vscale (inject_Z c * spc) rowcos).
Proof.
  intros [px py pz] [x1 y1 z1] [x2 y2 z2] spr spc sbs mi mj r c n plane. subst n plane.
  unfold physZ. unfold Zminus. rewrite inject_Z_plus, inject_Z_opp.
  generalize (inject_Z mi) (inject_Z mj) (inject_Z r) (inject_Z c). intros qi qj qr qc.
  unfold attr_aff, normal, phys, vadd, vscale, veq, vcross; cbn [vx vy vz a0 a1 a2 atr].
  repeat split; ring.
Qed.

Lemma source_plane_index : forall (p0 rowcos colcos : v3) (sbs : Q) (mi mj : Z),
  vdot rowcos rowcos == 1 -> vdot colcos colcos == 1 -> vdot rowcos colcos == 0 -> 0 < sbs ->
  let n := normal rowcos colcos in
  let plane m := vadd p0 (vscale (inject_Z m * sbs) n) in
  rne ((vdot n (plane mi) - vdot n (plane mj)) / sbs) = (mi - mj)%Z.
Proof.
  intros p0 rowcos colcos sbs mi mj Hr Hc Hrc Hs n plane. apply rne_integer.
  assert (U : vdot n n == 1).
  { subst n. unfold normal.
    assert (L : vdot (vcross colcos rowcos) (vcross colcos rowcos) ==
                vdot colcos colcos * vdot rowcos rowcos - vdot rowcos colcos * vdot rowcos colcos).
    { destruct rowcos as [a b c], colcos as [d e f]. unfold vdot, vcross; cbn [vx vy vz]. ring. }
    rewrite L, Hr, Hc, Hrc. ring. }
  assert (E : vdot n (plane mi) - vdot n (plane mj) == (inject_Z mi - inject_Z mj) * sbs * vdot n n).
  { subst plane. destruct n as [nx ny nz], p0 as [px py pz].
    unfold vdot, vadd, vscale; cbn [vx vy vz]. ring. }
  rewrite E, U. unfold Zminus. rewrite inject_Z_plus, inject_Z_opp. field. lra.
Qed.

(* ---------------------------------------------------------------------- *)
(* pyramid levels                                                          *)
(* ---------------------------------------------------------------------- *)
Lemma pyr_level_extent : forall R C spr spc f Rl Cl a b,
  pyr_level R C spr spc f = (Rl, Cl, a, b) -> (1 <= Rl)%Z -> (1 <= Cl)%Z ->
  inject_Z Rl * a == inject_Z R * spr /\ inject_Z Cl * b == inject_Z C * spc.
Proof.
  intros R C spr spc f Rl Cl a b H HR HC. unfold pyr_level in H.
  pose proof (f_equal (fun t => fst (fst (fst t))) H) as E1.
  pose proof (f_equal (fun t => snd (fst (fst t))) H) as E2.
  pose proof (f_equal (fun t => snd (fst t)) H) as E3.
  pose proof (f_equal (fun t => snd t) H) as E4. cbn [fst snd] in E1, E2, E3, E4. clear H.
  rewrite <- E3, <- E4. rewrite E1, E2. clear E1 E2 E3 E4.
  assert (0 < inject_Z Rl) by (change 0 with (inject_Z 0); rewrite <- Zlt_Qlt; lia).
  assert (0 < inject_Z Cl) by (change 0 with (inject_Z 0); rewrite <- Zlt_Qlt; lia).
  split; field; lra.
Qed.

Lemma pyr_level_size : forall R C spr spc f Rl Cl a b, 0 < f ->
  pyr_level R C spr spc f = (Rl, Cl, a, b) ->
  inject_Z Rl * f <= inject_Z R /\ inject_Z R < (inject_Z Rl + 1) * f /\
  inject_Z Cl * f <= inject_Z C /\ inject_Z C < (inject_Z Cl + 1) * f.
Proof.
  intros R C spr spc f Rl Cl a b Hf H. unfold pyr_level in H.
  pose proof (f_equal (fun t => fst (fst (fst t))) H) as E1.
  pose proof (f_equal (fun t => snd (fst (fst t))) H) as E2. cbn [fst snd] in E1, E2. clear H.
  subst Rl Cl.
  pose proof (Qfloor_le (inject_Z R / f)) as L1. pose proof (Qlt_floor (inject_Z R / f)) as U1.
  pose proof (Qfloor_le (inject_Z C / f)) as L2. pose proof (Qlt_floor (inject_Z C / f)) as U2.
  rewrite inject_Z_plus in U1, U2.
  set (x := inject_Z (Qfloor (inject_Z R / f))) in *. set (y := inject_Z (Qfloor (inject_Z C / f))) in *.
  assert (ER : inject_Z R == (inject_Z R / f) * f) by (field; lra).
  assert (EC : inject_Z C == (inject_Z C / f) * f) by (field; lra).
  set (q1 := inject_Z R / f) in *. set (q2 := inject_Z C / f) in *.
  clearbody q1 q2 x y. change (inject_Z 1) with 1 in *.
  assert (P1 : 0 <= (q1 - x) * f) by (apply Qmult_le_0_compat; lra).
  assert (P2 : 0 < (x + 1 - q1) * f) by (apply Qmult_lt_0_compat; lra).
  assert (P3 : 0 <= (q2 - y) * f) by (apply Qmult_le_0_compat; lra).
  assert (P4 : 0 < (y + 1 - q2) * f) by (apply Qmult_lt_0_compat; lra).
  repeat split; lra.
Qed.

Lemma pyramid_levels_ok : forall R C spr spc fs ls l,
  pyramid R C spr spc fs = Ok ls -> In l ls ->
  let '(Rl, Cl, a, b) := l in
  (1 <= R -> 1 <= C -> 1 <= Rl /\ 1 <= Cl)%Z /\
  ((1 <= R)%Z -> (1 <= C)%Z -> inject_Z Rl * a == inject_Z R * spr /\ inject_Z Cl * b == inject_Z C * spc).
Proof.
  intros R C spr spc fs ls l H Hin. unfold pyramid in H.
  destruct fs as [|f0 fs']; [discriminate|].
  destruct (existsb (fun f => Qle_bool f 1) (f0 :: fs')) eqn:E1; [discriminate|].
  destruct (negb (ascending (f0 :: fs'))) eqn:E2; [discriminate|].
  set (levels := map (pyr_level R C spr spc) (f0 :: fs')) in *.
  destruct (existsb _ levels) eqn:E3; [discriminate|].
  injection H as <-. destruct Hin as [<- | Hin].
  - split; [lia|]. intros HR HC. split; ring.
  - destruct l as [[[Rl Cl] a] b].
    assert (Hl : (1 <= Rl /\ 1 <= Cl)%Z).
    { rewrite <- not_true_iff_false in E3.
      destruct (Z_lt_le_dec Rl 1) as [L|L]; [exfalso; apply E3; apply existsb_exists; exists (Rl, Cl, a, b);
        split; [exact Hin|apply orb_true_iff; left; apply Z.ltb_lt; exact L]|].
      destruct (Z_lt_le_dec Cl 1) as [L'|L']; [exfalso; apply E3; apply existsb_exists; exists (Rl, Cl, a, b);
        split; [exact Hin|apply orb_true_iff; right; apply Z.ltb_lt; exact L']|].
      split; assumption. }
    split; [intros; exact Hl|]. intros HR HC.
    subst levels. apply in_map_iff in Hin as (f & Hf & _).
    apply (pyr_level_extent R C spr spc f); [exact Hf|apply Hl|apply Hl].
Qed.

(* ---------------------------------------------------------------------- *)
(* get_volume agrees with the geometry the image reports for itself:        *)
(* its affine is the geometry's affine moved to the first voxel of the       *)
(* region, and every accepted request passed both standardisers             *)
(* ---------------------------------------------------------------------- *)
Lemma get_volume_inv : forall am st ss se rs re cs ce ai sh A' arr,
  get_volume am st ss se rs re cs ce ai = Ok (sh, A', arr) ->
  exists G n0 idx r0 r1 c0 c1 s e f0 z0 f1 z1 f2 z2,
    stacked_full am st = Ok (G, n0, idx) /\
    std_rc rs re cs ce (st_rows st) (st_cols st) ai true = Ok (r0, r1, c0, c1) /\
    std_slice ss se n0 ai = Ok (s, e) /\
    slice_first_size (Some s) (Some e) n0 = Some (f0, z0) /\
    slice_first_size (Some r0) (Some r1) (st_rows st) = Some (f1, z1) /\
    slice_first_size (Some c0) (Some c1) (st_cols st) = Some (f2, z2) /\
    sh = (z0, z1, z2) /\ A' = sub_aff (sub_aff G f0 0 0) 0 f1 f2 /\
    get_volume_geometry am st = Ok (Some (G, (n0, st_rows st, st_cols st))).
Proof.
  intros am st ss se rs re cs ce ai sh A' arr. unfold get_volume, bind.
  destruct (std_rc rs re cs ce (st_rows st) (st_cols st) ai true) as [[[[r0 r1] c0] c1]|] eqn:Erc;
    [|cbv beta iota; intros H; discriminate H].
  destruct (stacked_full am st) as [[[G n0] idx]|] eqn:Efull; [|cbv beta iota; intros H; discriminate H].
  destruct (std_slice ss se n0 ai) as [[s e]|] eqn:Esl; [|cbv beta iota; intros H; discriminate H].
  unfold geom_getitem at 1. cbn [fst snd].
  destruct (negb _) eqn:Ec1; [cbv beta iota; intros H; discriminate H|].
  destruct (slice_first_size (Some s) (Some e) n0) as [[f0 z0]|] eqn:S0; [|cbv beta iota; intros H; discriminate H].
  destruct (slice_first_size None None (st_rows st)) as [[? ?]|] eqn:S1; [|cbv beta iota; intros H; discriminate H].
  destruct (slice_first_size None None (st_cols st)) as [[? ?]|] eqn:S2; [|cbv beta iota; intros H; discriminate H].
  destruct (existsb _ idx) eqn:Eex; [cbv beta iota; intros H; discriminate H|].
  unfold geom_getitem. cbn [fst snd].
  match goal with |- context[if negb ?c then _ else _] => destruct (negb c) eqn:Ec2 end;
    [cbv beta iota; intros H; discriminate H|].
  destruct (slice_first_size None None z0) as [[? ?]|] eqn:S3; [|cbv beta iota; intros H; discriminate H].
  destruct (slice_first_size (Some r0) (Some r1) (st_rows st)) as [[f1 z1']|] eqn:S4; [|cbv beta iota; intros H; discriminate H].
  destruct (slice_first_size (Some c0) (Some c1) (st_cols st)) as [[f2 z2']|] eqn:S5; [|cbv beta iota; intros H; discriminate H].
  intros H. injection H as <- <- <-.
  exists G, n0, idx, r0, r1, c0, c1, s, e, f0, z0, f1, z1', f2, z2'.
  repeat split; try reflexivity; try assumption.
  unfold get_volume_geometry. rewrite Efull. reflexivity.
Qed.

(* the first voxel of a slice [a, b) of an axis of length n that passed the
   bounds check is the Python meaning of a, and the size is b - a *)
Lemma slice_first_size_spec : forall a b n f z, (0 <= a)%Z -> (a < b <= n)%Z ->
  slice_first_size (Some a) (Some b) n = Some (f, z) -> f = a /\ z = (b - a)%Z.
Proof.
  intros a b n f z Ha Hb. unfold slice_first_size, slice_indices, clamp_idx, hd_size.
  replace (1 <? 0)%Z with false by reflexivity.
  replace (a <? 0)%Z with false by lia. replace (b <? 0)%Z with false by lia.
  replace (n <? a)%Z with false by lia. replace (n <? b)%Z with false by lia.
  replace (b - a =? 0)%Z with false by lia. replace (b - a <? 0)%Z with false by lia.
  cbn [orb negb Bool.eqb]. intros [= <- <-]. split; [reflexivity|].
  rewrite Z.abs_eq by lia. change (Z.abs 1) with 1%Z. rewrite Z.div_1_r. lia.
Qed.

(* ---------------------------------------------------------------------- *)
(* tiled segmentation placed by the caller: the recorded origin is the      *)
(* caller's, whichever branch ('locations preserved' or not) wrote it        *)
(* ---------------------------------------------------------------------- *)
Lemma v3_eqb_veq : forall a b, v3_eqb a b = true -> a =v= b.
Proof.
  intros a b H. unfold v3_eqb in H.
  apply andb_true_iff in H as (H & Hz). apply andb_true_iff in H as (Hx & Hy).
  repeat split; apply Qeq_bool_eq; assumption.
Qed.

Lemma placed_origin_recorded :
  forall src_org usr_org npos rp cp o_given src_rc src_cc u_rc u_cc m_given
         src_spr src_spc u_spr u_spc srcR srcC MR MC src_th src_tw th tw o,
  placed_origin src_org usr_org npos rp cp o_given src_rc src_cc u_rc u_cc m_given
                src_spr src_spc u_spr u_spc srcR srcC MR MC src_th src_tw th tw = Ok o ->
  o =v= usr_org.
Proof.
  intros src_org usr_org npos rp cp o_given src_rc src_cc u_rc u_cc m_given
         src_spr src_spc u_spr u_spc srcR srcC MR MC src_th src_tw th tw o.
  unfold placed_origin.
  destruct (negb (npos =? 1)%Z); [discriminate|].
  destruct (negb ((rp =? 1)%Z && (cp =? 1)%Z)); [discriminate|].
  destruct (v3_eqb usr_org src_org) eqn:E; cbn [andb].
  - destruct ((negb o_given || (v3_eqb u_rc src_rc && v3_eqb u_cc src_cc)) &&
              (negb m_given || (Qeq_bool u_spr src_spr && Qeq_bool u_spc src_spc))).
    + destruct (negb ((MR =? srcR)%Z && (MC =? srcC)%Z)); [discriminate|].
      destruct ((th =? src_th)%Z && (tw =? src_tw)%Z); intros [= <-].
      * apply veq_sym, v3_eqb_veq, E.
      * apply veq_refl.
    + intros [= <-]. apply veq_refl.
  - intros [= <-]. apply veq_refl.
Qed.

(* exact characterisation of the refusals of the constructor *)
Lemma placed_origin_refused_iff :
  forall src_org usr_org npos rp cp o_given src_rc src_cc u_rc u_cc m_given
         src_spr src_spc u_spr u_spc srcR srcC MR MC src_th src_tw th tw k,
  placed_origin src_org usr_org npos rp cp o_given src_rc src_cc u_rc u_cc m_given
                src_spr src_spc u_spr u_spc srcR srcC MR MC src_th src_tw th tw = Err k <->
  (k = "ValueError"%string /\
   (negb (npos =? 1)%Z
    || negb ((rp =? 1)%Z && (cp =? 1)%Z)
    || (v3_eqb usr_org src_org
        && (negb o_given || (v3_eqb u_rc src_rc && v3_eqb u_cc src_cc))
        && (negb m_given || (Qeq_bool u_spr src_spr && Qeq_bool u_spc src_spc))
        && negb ((MR =? srcR)%Z && (MC =? srcC)%Z))) = true).
Proof.
  intros. unfold placed_origin.
  destruct (negb (npos =? 1)%Z); cbn [orb].
  { split; [intros [= <-]; split; reflexivity|intros (-> & _); reflexivity]. }
  destruct (negb ((rp =? 1)%Z && (cp =? 1)%Z)); cbn [orb].
  { split; [intros [= <-]; split; reflexivity|intros (-> & _); reflexivity]. }
  destruct (v3_eqb usr_org src_org && (negb o_given || (v3_eqb u_rc src_rc && v3_eqb u_cc src_cc)) &&
            (negb m_given || (Qeq_bool u_spr src_spr && Qeq_bool u_spc src_spc))); cbn [andb].
  - destruct (negb ((MR =? srcR)%Z && (MC =? srcC)%Z)).
    + split; [intros [= <-]; split; reflexivity|intros (-> & _); reflexivity].
    + split; [discriminate|intros (_ & H); discriminate H].
  - split; [discriminate|intros (_ & H); discriminate H].
Qed.

(* a tile recorded per frame lies on the geometry rebuilt from the same origin *)
Lemma tile_on_geometry : forall org rowcos colcos spr spc sbs r0 c0,
  tile_pos org rowcos colcos spr spc r0 c0 =v=
  physZ (tiled_geometry org rowcos colcos spr spc sbs) 0 r0 c0.
Proof.
  intros [px py pz] [x1 y1 z1] [x2 y2 z2] spr spc sbs r0 c0.
  unfold tile_pos, tiled_geometry, physZ.
  generalize (inject_Z r0) (inject_Z c0). intros qr qc.
  change (inject_Z 0) with 0.
  unfold attr_aff, normal, phys, vadd, vscale, veq, vcross; cbn [vx vy vz a0 a1 a2 atr].
  repeat split; ring.
Qed.

Lemma tile_frames_on_geometry : forall org rowcos colcos spr spc sbs MR MC th tw M omit r c p,
  In (r, c, p) (tile_frames org rowcos colcos spr spc MR MC th tw M omit) ->
  p =v= physZ (tiled_geometry org rowcos colcos spr spc sbs) 0 (r - 1) (c - 1).
Proof.
  intros org rowcos colcos spr spc sbs MR MC th tw M omit r c p H.
  unfold tile_frames in H. apply in_map_iff in H as ([r0 c0] & E & _).
  cbn [fst snd] in E. injection E as <- <- <-.
  replace (r0 + 1 - 1)%Z with r0 by lia. replace (c0 + 1 - 1)%Z with c0 by lia.
  apply tile_on_geometry.
Qed.

(* end to end for the placement: voxel (0, r, c) of the geometry the image
   reports lies where the caller's affine (any stacking direction d0 and slice
   spacing s0) put it *)
Lemma placed_voxel_fixed :
  forall src_org usr_org npos rp cp o_given src_rc src_cc u_rc u_cc m_given
         src_spr src_spc u_spr u_spc srcR srcC MR MC src_th src_tw th tw o,
  placed_origin src_org usr_org npos rp cp o_given src_rc src_cc u_rc u_cc m_given
                src_spr src_spc u_spr u_spc srcR srcC MR MC src_th src_tw th tw = Ok o ->
  forall rowcos colcos spr spc sbs d0 s0 (r c : Z),
  physZ (tiled_geometry o rowcos colcos spr spc sbs) 0 r c =v=
  physZ (vol_aff usr_org d0 colcos rowcos s0 spr spc) 0 r c.
Proof.
  intros until o. intros H rowcos colcos spr spc sbs d0 s0 r c.
  apply placed_origin_recorded in H. destruct H as (X & Y & Z).
  unfold physZ. generalize (inject_Z r) (inject_Z c). intros qr qc. change (inject_Z 0) with 0.
  destruct o as [ox oy oz], usr_org as [ux uy uz], rowcos as [x1 y1 z1], colcos as [x2 y2 z2], d0 as [a b e].
  unfold tiled_geometry, attr_aff, vol_aff, normal, phys, vadd, vscale, veq, vcross in *;
    cbn [vx vy vz a0 a1 a2 atr] in *.
  rewrite X, Y, Z. repeat split; ring.
Qed.
