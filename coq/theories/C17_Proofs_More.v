(* C17 - proofs, part 6: what the earlier parts left as residue.
   (A) from_code of ANY argument: accepted exactly for a concept (same object) or 3 / 4 strings (a Code, a tuple, a str
       of that length) whose meaning has at most 64 characters; a plain pydicom Dataset is always refused.
   (B) == over a whole reachable heap: concepts, plain datasets and nested sequence items in any mix - total and the
       same answer in both operand orders (the nested items are compared by Python's list equality).
   (C) nested items that go through the API themselves.
   (D) the larger machine (attribute deletions, shallow copies): conservative over the base machine; objects on one
       element store carry the same elements in every reachable state, hence hash alike and compare alike; hash of a
       malformed concept is refused, never invented. *)
From Coq Require Import String ZArith List Bool Ascii Lia.
From HD Require Import Base.Val C17_Model C17_Proofs C17_Proofs_Ext.
Import ListNotations.
Open Scope string_scope.
Open Scope Z_scope.

(* ---- (A) from_code of anything ------------------------------------------------------------------------ *)
Lemma from_code_plain_refused : forall h d q,
  exists k, from_code_any h (FCPlain d q) = Err k /\
    ((3 <= n_elems d q <= 4 /\ k = "AttributeError") \/ ((n_elems d q < 3 \/ 4 < n_elems d q) /\ k = "TypeError")).
Proof.
  intros h d q. cbn [from_code_any]. unfold from_code_plain_err.
  destruct (n_elems d q <? 3) eqn:A; destruct (4 <? n_elems d q) eqn:B; cbn [orb];
    eexists; (split; [reflexivity|]);
    rewrite ?Z.ltb_lt, ?Z.ltb_ge in A, B; first [left; split; [lia|reflexivity] | right; split; [lia|reflexivity]].
Qed.

(* the Code an argument amounts to, if any *)
Definition code_like (x : fcarg) : option code :=
  match x with
  | FCRef (RCode c) => Some c
  | FCStrings [v; s; m] => Some (Code v s m None)
  | FCStrings [v; s; m; ver] => Some (Code v s m (Some ver))
  | _ => None
  end.

Lemma from_code_any_ok_iff : forall h x h' r,
  from_code_any h x = Ok (h', r) <->
  ((exists a, x = FCRef (RConcept a) /\ h' = h /\ r = a) \/
   (exists c d, code_like x = Some c /\ init_code c = Ok d /\ h' = (h ++ [d])%list /\ r = length h)).
Proof.
  intros h x h' r. split.
  - intros H. destruct x as [[c|a]|d q| |l]; cbn [from_code_any] in H.
    + right. cbn [from_code] in H. destruct (init_code c) as [d|k] eqn:E; cbn [bind] in H; [|discriminate].
      injection H as <- <-. exists c, d. auto.
    + left. cbn [from_code] in H. injection H as <- <-. eauto.
    + discriminate.
    + discriminate.
    + destruct l as [|v [|s [|m [|ver [|x l]]]]]; try discriminate; right; cbn [from_code] in H;
        match type of H with bind (init_code ?c) _ = _ =>
          destruct (init_code c) as [d|k] eqn:E; cbn [bind] in H; [|discriminate];
          injection H as <- <-; exists c, d; auto end.
  - intros [[a [-> [-> ->]]]|[c [d [C [I [-> ->]]]]]]; [reflexivity|].
    destruct x as [[c'|a]|d' q| |l]; cbn [code_like] in C; try discriminate.
    + injection C as ->. cbn [from_code_any from_code]. now rewrite I.
    + destruct l as [|v [|s [|m [|ver [|x l]]]]]; try discriminate; injection C as <-;
        cbn [from_code_any from_code]; now rewrite I.
Qed.

(* accepted iff a concept or something that amounts to a code whose meaning fits; the new concept equals that code *)
Lemma from_code_any_accepts : forall h x,
  (exists h' r, from_code_any h x = Ok (h', r)) <->
  ((exists a, x = FCRef (RConcept a)) \/ (exists c, code_like x = Some c /\ slen (c_meaning c) <= 64)).
Proof.
  intros h x. split.
  - intros [h' [r H]]. apply from_code_any_ok_iff in H as [[a [-> _]]|[c [d [C [I _]]]]]; [eauto|].
    right. exists c. split; [exact C|]. unfold init_code in I. apply (proj1 (init_ok_iff (c_value c) (c_scheme c) (c_meaning c) (c_version c))). eauto.
  - intros [[a ->]|[c [C L]]].
    + exists h, a. reflexivity.
    + destruct (proj2 (init_ok_iff (c_value c) (c_scheme c) (c_meaning c) (c_version c)) L) as [d I].
      exists (h ++ [d])%list, (length h). apply from_code_any_ok_iff. right. exists c, d. auto.
Qed.

Lemma from_code_any_is_the_code : forall srt h x h' r c, code_like x = Some c -> from_code_any h x = Ok (h', r) ->
  exists d, nth_error h' r = Some d /\ r = length h /\ d_cc d = true /\ wf_concept d /\
            (forall i, (i < length h)%nat -> nth_error h' i = nth_error h i) /\
            obj_eq srt (HD d) (PD c) = Ok true /\ obj_eq srt (PD c) (HD d) = Ok true /\
            hash_key (HD d) = hash_key (PD c).
Proof.
  intros srt h x h' r c C H.
  assert (F : from_code h (RCode c) = Ok (h', r)).
  { apply from_code_any_ok_iff in H as [[a [-> _]]|[c' [d [C' [I [-> ->]]]]]]; [discriminate|].
    rewrite C in C'. injection C' as <-. cbn [from_code]. now rewrite I. }
  destruct (from_code_code srt h c h' r F) as [d [I [R [N [Fr [E1 [E2 Hk]]]]]]].
  exists d. repeat split; auto.
  - unfold init_code, init in I. destruct (64 <? slen (c_meaning c)); [discriminate|]. now injection I as <-.
  - unfold init_code in I. eapply init_wf; eauto.
  - unfold init_code in I. eapply init_wf; eauto.
  - unfold init_code in I. eapply init_wf; eauto.
Qed.

(* inside a history: from_code(plain Dataset) is refused and nothing changes *)
Lemma step_from_code_plain : forall srt h kids a d, nth_error h a = Some d -> d_cc d = false ->
  exists k, step srt (h, kids) (OFromCode (RConcept a)) = ((h, kids), VErr k) /\ (k = "TypeError" \/ k = "AttributeError").
Proof.
  intros srt h kids a d Ha C. cbn [step]. rewrite Ha, C. eexists. split; [reflexivity|].
  unfold from_code_plain_err. destruct (_ || _); auto.
Qed.

(* ---- (B) == over a whole reachable heap ------------------------------------------------------------------ *)
Definition okc (d : dsobj) : Prop := d_cc d = true -> wf_concept d.

(* two datasets of a heap that satisfies the invariant (each a concept or a plain dataset): == is total and symmetric *)
Lemma py_eq_heap : forall srt x y, okc x -> okc y ->
  py_eq srt (as_pyval x) (as_pyval y) = py_eq srt (as_pyval y) (as_pyval x) /\
  exists r, py_eq srt (as_pyval x) (as_pyval y) = Ok r.
Proof.
  intros srt x y Wx Wy. unfold as_pyval.
  destruct (d_cc x) eqn:Cx, (d_cc y) eqn:Cy.
  - rewrite !py_eq_objs. destruct (wf_ready x (Wx Cx)) as [Rx _]. destruct (wf_ready y (Wy Cy)) as [Ry _].
    split; [apply eq_sym_obj; assumption|].
    apply (proj2 (eq_defined_iff srt (HD x) (HD y))). split; [exact Rx | now apply self_ready_other].
  - destruct (py_eq_concept_plain srt x y) as [-> ->]. eauto.
  - destruct (py_eq_concept_plain srt y x) as [-> ->]. eauto.
  - unfold py_eq; cbn. rewrite (fields_eqb_sym y x). eauto.
Qed.

Lemma item_eq_heap : forall srt cx cy x y, okc x -> okc y ->
  item_eq srt cx cy x y = item_eq srt cy cx y x /\ exists r, item_eq srt cx cy x y = Ok r.
Proof.
  intros srt cx cy x y Wx Wy. unfold item_eq. rewrite (Nat.eqb_sym cy cx).
  destruct (Nat.eqb cx cy); [eauto|]. apply py_eq_heap; assumption.
Qed.

(* the value of heap[a] == heap[b] *)
Definition oeq (srt : string -> option string) (st : state) (a b : nat) : val := snd (step srt st (OEq a b)).

(* local form (no invariant of the whole heap: usable in the larger machine too): the two operands and their nested items
   are each a plain dataset or exactly one code *)
Lemma oeq_sym_total_local : forall srt h kids a b da db,
  nth_error h a = Some da -> nth_error h b = Some db -> okc da -> okc db ->
  (forall c x, kid_of kids a = Some c -> nth_error h c = Some x -> okc x) ->
  (forall c x, kid_of kids b = Some c -> nth_error h c = Some x -> okc x) ->
  oeq srt (h, kids) a b = oeq srt (h, kids) b a /\ exists r : bool, oeq srt (h, kids) a b = VB r.
Proof.
  intros srt h kids a b da db Ha Hb Wa Wb Ka Kb. unfold oeq. cbn [step]. rewrite Ha, Hb. cbn [snd].
  rewrite (Nat.eqb_sym b a). destruct (Nat.eqb a b) eqn:Eab.
  - apply Nat.eqb_eq in Eab. subst b. rewrite Ha in Hb. injection Hb as <-. split; [reflexivity|].
    destruct (d_cc da) eqn:C; [|eauto]. destruct (wf_ready da (Wa C)) as [Ra _].
    rewrite (eq_refl_obj srt (HD da) Ra). cbn. eauto.
  - destruct (d_cc da) eqn:Ca, (d_cc db) eqn:Cb; cbn [andb negb].
    + destruct (wf_ready da (Wa Ca)) as [Ra _]. destruct (wf_ready db (Wb Cb)) as [Rb _].
      rewrite (eq_sym_obj srt (HD db) (HD da) Rb Ra). split; [reflexivity|].
      destruct (proj2 (eq_defined_iff srt (HD da) (HD db)) (conj Ra (self_ready_other _ Rb))) as [r ->]. cbn. eauto.
    + unfold as_pyval. rewrite Ca, Cb. destruct (py_eq_concept_plain srt da db) as [-> ->]. cbn [bind].
      destruct (fields_eqb da db); [|cbn; eauto].
      destruct (kid_of kids a) as [ca|], (kid_of kids b) as [cb|]; try (cbn; eauto).
      destruct (nth_error h ca) as [x|] eqn:Ex, (nth_error h cb) as [y|] eqn:Ey; try (cbn; eauto).
      destruct (item_eq_heap srt ca cb x y) as [_ [r ->]]; [eapply Ka; eauto | eapply Kb; eauto |]. cbn. eauto.
    + unfold as_pyval. rewrite Ca, Cb. destruct (py_eq_concept_plain srt db da) as [-> ->]. cbn [bind].
      destruct (fields_eqb db da); [|cbn; eauto].
      destruct (kid_of kids a) as [ca|], (kid_of kids b) as [cb|]; try (cbn; eauto).
      destruct (nth_error h ca) as [x|] eqn:Ex, (nth_error h cb) as [y|] eqn:Ey; try (cbn; eauto).
      destruct (item_eq_heap srt cb ca y x) as [_ [r ->]]; [eapply Kb; eauto | eapply Ka; eauto |]. cbn. eauto.
    + unfold as_pyval. rewrite Ca, Cb. unfold py_eq; cbn [reflected_first eq_method ds_eq_method bind].
      rewrite (fields_eqb_sym db da).
      destruct (fields_eqb da db); [|cbn; eauto].
      destruct (kid_of kids a) as [ca|], (kid_of kids b) as [cb|]; try (cbn; eauto).
      destruct (nth_error h ca) as [x|] eqn:Ex, (nth_error h cb) as [y|] eqn:Ey; try (cbn; eauto).
      destruct (item_eq_heap srt cb ca y x) as [S [r R]]; [eapply Kb; eauto | eapply Ka; eauto |].
      rewrite <- S, R. cbn. eauto.
Qed.

Lemma oeq_sym_total : forall srt h kids a b da db, Inv h ->
  nth_error h a = Some da -> nth_error h b = Some db ->
  oeq srt (h, kids) a b = oeq srt (h, kids) b a /\ exists r : bool, oeq srt (h, kids) a b = VB r.
Proof.
  intros srt h kids a b da db I Ha Hb.
  apply (oeq_sym_total_local srt h kids a b da db Ha Hb).
  - intros C; eapply (Forall_nth_error _ h a da I Ha); exact C.
  - intros C; eapply (Forall_nth_error _ h b db I Hb); exact C.
  - intros c x _ Hx C. eapply (Forall_nth_error _ h c x I Hx); exact C.
  - intros c x _ Hx C. eapply (Forall_nth_error _ h c x I Hx); exact C.
Qed.

(* in EVERY reachable heap: any two objects - concepts, plain datasets, nested items, in any mix - compare without an
   exception and with the same answer in both operand orders *)
Lemma reachable_eq_symmetric_total : forall srt ops h kids vs a b da db,
  run_ops srt ([], []) ops = ((h, kids), vs) -> nth_error h a = Some da -> nth_error h b = Some db ->
  oeq srt (h, kids) a b = oeq srt (h, kids) b a /\ exists r : bool, oeq srt (h, kids) a b = VB r.
Proof.
  intros srt ops h kids vs a b da db R Ha Hb.
  pose proof (reachable_inv srt ops) as I. rewrite R in I. cbn [fst] in I.
  eapply oeq_sym_total; eauto.
Qed.

(* ---- (C) a nested item goes through the API itself ------------------------------------------------------- *)
(* from_dataset(parent.seq[0], copy=False): the item is converted in place - it stays the parent's item;
   copy=True: a fresh top-level concept, the item and its parent untouched; an item that is not exactly one code is
   refused and nothing changes *)
Lemma item_through_api : forall srt h kids p c dc, kid_of kids p = Some c -> nth_error h c = Some dc ->
  (wf_concept dc ->
     step srt (h, kids) (OFromDataset (Addr c) false) = ((update h c (set_cc dc), kids), vnat c) /\
     nth_error (update h c (set_cc dc)) c = Some (set_cc dc) /\ kid_of kids p = Some c /\
     (forall i, i <> c -> nth_error (update h c (set_cc dc)) i = nth_error h i)) /\
  (wf_concept dc -> kid_of kids c = None ->
     step srt (h, kids) (OFromDataset (Addr c) true) = (((h ++ [set_cc dc])%list, kids), vnat (length h)) /\
     (forall i, (i < length h)%nat -> nth_error (h ++ [set_cc dc])%list i = nth_error h i)) /\
  (~ wf_concept dc -> forall copy,
     step srt (h, kids) (OFromDataset (Addr c) copy) = ((h, kids), VErr "AttributeError")).
Proof.
  intros srt h kids p c dc Hk Hc.
  assert (Lc : (c < length h)%nat) by (apply nth_error_Some; congruence).
  split; [|split].
  - intros W. split; [now apply alias_shares_nested|]. split; [now apply nth_error_update_same|]. split; [exact Hk|].
    intros i Hi. now apply nth_error_update_other.
  - intros W Hn. split.
    + cbn [step from_dataset]. rewrite Hc. apply fd_check_ok in W. rewrite W. cbn [bind]. rewrite Hn. reflexivity.
    + intros i Hi. now rewrite nth_error_app1.
  - intros W copy. cbn [step from_dataset]. rewrite Hc.
    destruct (fd_check dc) as [[]|k] eqn:F; [exfalso; apply W; now apply fd_check_ok|].
    cbn [bind]. unfold fd_check in F.
    destruct (negb (count_cv dc =? 1)); [now injection F as <-|].
    destruct (negb (isSome (d_meaning dc))); [now injection F as <-|].
    destruct (negb (isSome (d_scheme dc))); [now injection F as <-|discriminate].
Qed.

(* ---- (D) the larger machine ------------------------------------------------------------------------------- *)
Definition fields (d : dsobj) := (d_cv d, d_lcv d, d_urn d, d_meaning d, d_scheme d, d_version d).

Lemma fields_share : forall s o, fields (share s o) = fields s.
Proof. reflexivity. Qed.
Lemma share_self : forall d, share d d = d.
Proof. now intros []. Qed.

(* everything hash and == read is in [fields] *)
Lemma fields_obs : forall x y, fields x = fields y ->
  hash_key (HD x) = hash_key (HD y) /\ view_self (HD x) = view_self (HD y) /\ view_other (HD x) = view_other (HD y) /\
  fd_check x = fd_check y /\ (forall p, fields_eqb x p = fields_eqb y p) /\ (wf_concept x <-> wf_concept y).
Proof.
  intros [a b c d e f g] [a' b' c' d' e' f' g'] H. unfold fields in H. cbn in H.
  injection H as -> -> -> -> -> ->.
  split; [reflexivity|]. split; [reflexivity|]. split; [reflexivity|]. split; [reflexivity|]. split; [reflexivity|].
  unfold wf_concept, count_cv; cbn. tauto.
Qed.

Lemma nth_error_combine_seq : forall (h : heap) s b,
  nth_error (combine (seq s (length h)) h) b = option_map (fun d => ((s + b)%nat, d)) (nth_error h b).
Proof.
  induction h as [|x h IH]; intros s [|b]; cbn; try reflexivity.
  - now rewrite Nat.add_0_r.
  - rewrite IH. now rewrite Nat.add_succ_r.
Qed.

Lemma nth_error_sync : forall l w h b dw, nth_error h w = Some dw ->
  nth_error (sync l w h) b =
  option_map (fun db => if Nat.eqb (root l b) (root l w) then share dw db else db) (nth_error h b).
Proof.
  intros l w h b dw Hw. unfold sync. rewrite Hw. rewrite nth_error_map, nth_error_combine_seq.
  destruct (nth_error h b); reflexivity.
Qed.

Lemma sync_none : forall l w h, nth_error h w = None -> sync l w h = h.
Proof. intros l w h H. unfold sync. now rewrite H. Qed.

Lemma list_ext : forall (l1 l2 : heap), (forall n, nth_error l1 n = nth_error l2 n) -> l1 = l2.
Proof.
  induction l1 as [|x l1 IH]; intros [|y l2] H.
  - reflexivity.
  - specialize (H 0%nat). discriminate.
  - specialize (H 0%nat). discriminate.
  - pose proof (H 0%nat) as H0. cbn in H0. injection H0 as ->. f_equal. apply IH. intros n. apply (H (S n)).
Qed.

(* without shallow copies the larger machine IS the base machine *)
Lemma sync_nolinks : forall w h, sync [] w h = h.
Proof.
  intros w h. destruct (nth_error h w) as [dw|] eqn:Hw; [|now apply sync_none].
  apply list_ext. intros n. rewrite (nth_error_sync [] w h n dw Hw). cbn [root].
  destruct (nth_error h n) as [d|] eqn:Hn; [|reflexivity]. cbn [option_map].
  destruct (Nat.eqb n w) eqn:E; [|reflexivity]. apply Nat.eqb_eq in E. subst n.
  rewrite Hw in Hn. injection Hn as <-. now rewrite share_self.
Qed.

Lemma step2_conservative : forall srt st o,
  step2 srt (st, []) (Std o) = ((fst (step srt st o), []), snd (step srt st o)).
Proof.
  intros srt [h kids] o. cbn [step2]. destruct (step srt (h, kids) o) as [[h' kids'] v]. cbn [fst snd].
  destruct (written kids o); [rewrite sync_nolinks|]; reflexivity.
Qed.

Lemma run_ops2_conservative : forall srt ops st,
  run_ops2 srt (st, []) (map Std ops) = ((fst (run_ops srt st ops), []), snd (run_ops srt st ops)).
Proof.
  intros srt ops. induction ops as [|o ops IH]; intros st; cbn [map run_ops2 run_ops]; [reflexivity|].
  rewrite step2_conservative. destruct (step srt st o) as [st' v]. cbn [fst snd]. rewrite IH.
  destruct (run_ops srt st' ops) as [st'' vs]. reflexivity.
Qed.

(* frame of one step of the base machine: the heap only grows, and the elements of an object change only if the
   operation writes that very object *)
Definition frame (h h' : heap) (w : option nat) : Prop :=
  (length h <= length h')%nat /\
  forall b db, nth_error h b = Some db ->
    exists db', nth_error h' b = Some db' /\ (w <> Some b -> fields db' = fields db).

Lemma frame_refl : forall h w, frame h h w.
Proof. intros h w. split; [lia|]. intros b db Hb. exists db. auto. Qed.
Lemma frame_app : forall h t w, frame h (h ++ t)%list w.
Proof.
  intros h t w. split; [rewrite app_length; lia|]. intros b db Hb. exists db. split; [|auto].
  rewrite nth_error_app1; [exact Hb | apply nth_error_Some; congruence].
Qed.
Lemma frame_upd_same_fields : forall h a d d' w, nth_error h a = Some d -> fields d' = fields d -> frame h (update h a d') w.
Proof.
  intros h a d d' w Ha F. split; [rewrite length_update; lia|]. intros b db Hb.
  destruct (Nat.eq_dec b a) as [->|N].
  - exists d'. split; [apply nth_error_update_same; apply nth_error_Some; congruence|].
    intros _. rewrite Ha in Hb. injection Hb as <-. exact F.
  - exists db. split; [now rewrite nth_error_update_other | auto].
Qed.
Lemma frame_upd_written : forall h a d', (a < length h)%nat -> frame h (update h a d') (Some a).
Proof.
  intros h a d' La. split; [rewrite length_update; lia|]. intros b db Hb.
  destruct (Nat.eq_dec b a) as [->|N].
  - exists d'. split; [now apply nth_error_update_same|]. intros C. now contradiction C.
  - exists db. split; [now rewrite nth_error_update_other | auto].
Qed.

Lemma step_frame : forall srt h kids o, frame h (fst (fst (step srt (h, kids) o))) (written kids o).
Proof.
  intros srt h kids o.
  destruct o as [v s m ver|x|x copy|d nested|a m|a m|a b|a k v|a s|a ver|a|a|a b]; cbn [step written].
  - destruct (init v s m ver); cbn [fst]; [apply frame_app | apply frame_refl].
  - destruct x as [c|a].
    + cbn [from_code]. destruct (init_code c); cbn [bind fst]; [apply frame_app | apply frame_refl].
    + destruct (nth_error h a) as [d|]; [destruct (d_cc d)|]; apply frame_refl.
  - destruct x as [|a]; cbn [from_dataset]; [apply frame_refl|].
    destruct (nth_error h a) as [d|] eqn:Ha; [|apply frame_refl].
    destruct (fd_check d) as [[]|k]; cbn [bind]; [|apply frame_refl].
    destruct copy.
    + destruct (kid_of kids a) as [c|]; [destruct (nth_error h c) as [dc|]|]; cbn [fst];
        rewrite <- ?app_assoc; apply frame_app.
    + cbn [fst]. eapply frame_upd_same_fields; [exact Ha | reflexivity].
  - destruct nested; cbn [fst]; apply frame_app.
  - destruct (nth_error h a) as [d|] eqn:Ha; cbn [fst]; [|apply frame_refl].
    apply frame_upd_written. apply nth_error_Some. congruence.
  - destruct (kid_of kids a) as [c|]; [|apply frame_refl].
    destruct (nth_error h c) as [d|] eqn:Hc; cbn [fst]; [|apply frame_refl].
    apply frame_upd_written. apply nth_error_Some. congruence.
  - destruct (nth_error h a), (nth_error h b); apply frame_refl.
  - destruct (nth_error h a) as [d|] eqn:Ha; cbn [fst]; [|apply frame_refl].
    apply frame_upd_written. apply nth_error_Some. congruence.
  - destruct (nth_error h a) as [d|] eqn:Ha; cbn [fst]; [|apply frame_refl].
    apply frame_upd_written. apply nth_error_Some. congruence.
  - destruct (nth_error h a) as [d|] eqn:Ha; cbn [fst]; [|apply frame_refl].
    apply frame_upd_written. apply nth_error_Some. congruence.
  - destruct (nth_error h a) as [d|]; cbn [fst]; [|apply frame_refl].
    destruct (kid_of kids a) as [c|]; [destruct (nth_error h c) as [dc|]|]; cbn [fst]; apply frame_app.
  - destruct (nth_error h a); apply frame_refl.
  - destruct (nth_error h a), (nth_error h b); apply frame_refl.
Qed.

(* the invariant of the larger machine: every object carries the elements of the representative of its store *)
Definition LInv (s2 : state2) : Prop :=
  let h := fst (fst s2) in let l := snd s2 in
  (forall b, root l (root l b) = root l b) /\
  (forall b, (b < length h)%nat -> (root l b < length h)%nat) /\
  (forall b, (length h <= b)%nat -> root l b = b) /\
  (forall b db dr, nth_error h b = Some db -> nth_error h (root l b) = Some dr -> fields db = fields dr).

(* a write to w (frame) followed by the refresh of w's store restores the invariant *)
Lemma sync_restores : forall h kids l h' kids' w, LInv ((h, kids), l) -> frame h h' (Some w) ->
  (forall b, (length h <= b)%nat -> (b < length h')%nat -> False) ->
  LInv ((sync l w h', kids'), l).
Proof.
  intros h kids l h' kids' w [Idem [Bound [Fresh Same]]] [Len Fr] NoNew. cbn [fst snd] in *.
  assert (Leq : length h' = length h).
  { destruct (Nat.eq_dec (length h') (length h)) as [E|N]; [exact E|]. exfalso. apply (NoNew (length h)); lia. }
  assert (Lsync : length (sync l w h') = length h').
  { unfold sync. destruct (nth_error h' w); [|reflexivity]. rewrite map_length, combine_length, seq_length. lia. }
  unfold LInv. cbn [fst snd]. rewrite Lsync, Leq. split; [exact Idem|]. split; [exact Bound|]. split; [exact Fresh|].
  intros b db dr Hb Hr.
  destruct (nth_error h' w) as [dw|] eqn:Hw.
  - rewrite (nth_error_sync l w h' b dw Hw) in Hb. rewrite (nth_error_sync l w h' (root l b) dw Hw) in Hr.
    destruct (nth_error h' b) as [xb|] eqn:Eb; [|discriminate]. destruct (nth_error h' (root l b)) as [xr|] eqn:Er; [|discriminate].
    cbn [option_map] in Hb, Hr. rewrite Idem in Hr. injection Hb as <-. injection Hr as <-.
    destruct (Nat.eqb (root l b) (root l w)) eqn:E; [now rewrite !fields_share|].
    apply Nat.eqb_neq in E.
    assert (Lb : (b < length h)%nat) by (rewrite <- Leq; apply nth_error_Some; congruence).
    destruct (nth_error h b) as [ob|] eqn:Ob; [|apply nth_error_None in Ob; lia].
    destruct (nth_error h (root l b)) as [or|] eqn:Or; [|apply nth_error_None in Or; specialize (Bound b Lb); lia].
    destruct (Fr b ob Ob) as [xb' [Xb Fb]]. rewrite Eb in Xb. injection Xb as <-.
    destruct (Fr (root l b) or Or) as [xr' [Xr Frr]]. rewrite Er in Xr. injection Xr as <-.
    rewrite Fb by (intros C; injection C as ->; now apply E).
    rewrite Frr by (intros C; injection C as C; apply E; rewrite C; symmetry; apply Idem).
    eapply Same; eauto.
  - rewrite (sync_none l w h' Hw) in Hb, Hr.
    assert (Lb : (b < length h)%nat) by (rewrite <- Leq; apply nth_error_Some; congruence).
    assert (Lw : (length h <= w)%nat) by (rewrite <- Leq; now apply nth_error_None).
    destruct (nth_error h b) as [ob|] eqn:Ob; [|apply nth_error_None in Ob; lia].
    destruct (nth_error h (root l b)) as [or|] eqn:Or; [|apply nth_error_None in Or; specialize (Bound b Lb); lia].
    destruct (Fr b ob Ob) as [xb' [Xb Fb]]. rewrite Hb in Xb. injection Xb as <-.
    destruct (Fr (root l b) or Or) as [xr' [Xr Frr]]. rewrite Hr in Xr. injection Xr as <-.
    rewrite Fb by (intros C; injection C as ->; lia).
    rewrite Frr by (intros C; injection C as C; specialize (Bound b Lb); lia).
    eapply Same; eauto.
Qed.

Lemma written_no_growth : forall srt h kids o w, written kids o = Some w ->
  length (fst (fst (step srt (h, kids) o))) = length h.
Proof.
  intros srt h kids o w W.
  destruct o as [v s m ver|x|x copy|d nested|a m|a m|a b|a k v|a s|a ver|a|a|a b]; cbn [written] in W; try discriminate;
    cbn [step].
  - destruct (nth_error h a); cbn [fst]; [apply length_update | reflexivity].
  - rewrite W. destruct (nth_error h w); cbn [fst]; [apply length_update | reflexivity].
  - destruct (nth_error h a); cbn [fst]; [apply length_update | reflexivity].
  - destruct (nth_error h a); cbn [fst]; [apply length_update | reflexivity].
  - destruct (nth_error h a); cbn [fst]; [apply length_update | reflexivity].
Qed.

Lemma frame_keeps : forall h kids l h' kids', LInv ((h, kids), l) -> frame h h' None -> LInv ((h', kids'), l).
Proof.
  intros h kids l h' kids' [Idem [Bound [Fresh Same]]] [Len Fr]. cbn [fst snd] in *. unfold LInv. cbn [fst snd].
  split; [exact Idem|]. split; [|split].
  - intros b Lb. destruct (Nat.lt_ge_cases b (length h)) as [L|G]; [specialize (Bound b L); lia | rewrite (Fresh b G); exact Lb].
  - intros b Lb. apply Fresh. lia.
  - intros b db dr Hb Hr. destruct (Nat.lt_ge_cases b (length h)) as [L|G].
    + destruct (nth_error h b) as [ob|] eqn:Ob; [|apply nth_error_None in Ob; lia].
      destruct (nth_error h (root l b)) as [or|] eqn:Or; [|apply nth_error_None in Or; specialize (Bound b L); lia].
      destruct (Fr b ob Ob) as [x [X F1]]. rewrite Hb in X. injection X as <-.
      destruct (Fr (root l b) or Or) as [y [Y F2]]. rewrite Hr in Y. injection Y as <-.
      rewrite F1, F2 by discriminate. eapply Same; eauto.
    + rewrite (Fresh b G) in Hr. rewrite Hb in Hr. now injection Hr as <-.
Qed.

Lemma step2_linv : forall srt s2 o, LInv s2 -> LInv (fst (step2 srt s2 o)).
Proof.
  intros srt [[h kids] l] o L. destruct o as [o|a k|a]; cbn [step2].
  - pose proof (step_frame srt h kids o) as F. pose proof (written_no_growth srt h kids o) as G.
    destruct (step srt (h, kids) o) as [[h' kids'] v]. cbn [fst] in *.
    destruct (written kids o) as [w|].
    + eapply sync_restores; [exact L | exact F |]. intros b B1 B2. rewrite (G w eq_refl) in B2. lia.
    + eapply frame_keeps; eauto.
  - destruct (nth_error h a) as [d|] eqn:Ha; cbn [fst]; [|exact L].
    assert (La : (a < length h)%nat) by (apply nth_error_Some; congruence).
    eapply sync_restores; [exact L | apply frame_upd_written; exact La |].
    intros b B1 B2. rewrite length_update in B2. lia.
  - destruct (nth_error h a) as [d|] eqn:Ha; cbn [fst]; [|exact L].
    assert (La : (a < length h)%nat) by (apply nth_error_Some; congruence).
    destruct L as [Idem [Bound [Fresh Same]]]. cbn [fst snd] in *. unfold LInv. cbn [fst snd root].
    set (n := length h) in *.
    assert (Rn : forall b, b <> n -> (if Nat.eqb n b then root l a else root l b) = root l b).
    { intros b Hb. destruct (Nat.eqb n b) eqn:E; [apply Nat.eqb_eq in E; congruence | reflexivity]. }
    rewrite app_length. cbn [length]. fold n.
    split; [|split; [|split]].
    + intros b. destruct (Nat.eqb n b) eqn:E.
      * rewrite Rn by (specialize (Bound a La); lia). apply Idem.
      * apply Nat.eqb_neq in E. rewrite Rn; [apply Idem|].
        destruct (Nat.lt_ge_cases b n) as [Lt|Ge]; [specialize (Bound b Lt); lia | rewrite (Fresh b Ge); congruence].
    + intros b Lb. destruct (Nat.eqb n b) eqn:E; [specialize (Bound a La); lia|].
      apply Nat.eqb_neq in E. assert (b < n)%nat by lia. specialize (Bound b H). lia.
    + intros b Lb. rewrite Rn by lia. apply Fresh. lia.
    + intros b db dr Hb Hr. destruct (Nat.eqb n b) eqn:E.
      * apply Nat.eqb_eq in E. subst b. unfold n in Hb. rewrite nth_error_app2, Nat.sub_diag in Hb by lia.
        cbn in Hb. injection Hb as <-. rewrite nth_error_app1 in Hr by (specialize (Bound a La); fold n; lia).
        eapply Same; eauto.
      * apply Nat.eqb_neq in E. assert (Lb : (b < n)%nat).
        { assert (b < length (h ++ [d]))%nat by (apply nth_error_Some; congruence). rewrite app_length in H. cbn in H. fold n in H. lia. }
        rewrite nth_error_app1 in Hb by (fold n; lia). rewrite nth_error_app1 in Hr by (specialize (Bound b Lb); fold n; lia).
        eapply Same; eauto.
Qed.

Lemma run_ops2_linv : forall srt ops s2, LInv s2 -> LInv (fst (run_ops2 srt s2 ops)).
Proof.
  intros srt ops. induction ops as [|o ops IH]; intros s2 L; cbn [run_ops2]; [exact L|].
  pose proof (step2_linv srt s2 o L) as L1. destruct (step2 srt s2 o) as [s2' v]. cbn [fst] in L1.
  specialize (IH s2' L1). destruct (run_ops2 srt s2' ops) as [s2'' vs]. exact IH.
Qed.

Lemma linv_init : LInv (([], []), []).
Proof.
  unfold LInv. cbn. repeat split; auto. intros b db dr H. destruct b; discriminate.
Qed.

(* END-TO-END: in every state the larger machine can reach - whatever was deleted, edited, converted, copied, hashed in
   between, through whichever of the objects - two objects on one element store carry the same elements; hence they hash
   alike (or both refuse), present the same operand to ==, are accepted / refused alike by from_dataset, and a shallow
   copy of a concept can never drift away from the original *)
Lemma reachable2_one_store_one_code : forall srt ops h kids l vs b c db dc,
  run_ops2 srt (([], []), []) ops = (((h, kids), l), vs) ->
  root l b = root l c -> nth_error h b = Some db -> nth_error h c = Some dc ->
  fields db = fields dc /\
  hash_key (HD db) = hash_key (HD dc) /\ view_self (HD db) = view_self (HD dc) /\ view_other (HD db) = view_other (HD dc) /\
  fd_check db = fd_check dc /\ (wf_concept db <-> wf_concept dc).
Proof.
  intros srt ops h kids l vs b c db dc R E Hb Hc.
  pose proof (run_ops2_linv srt ops _ linv_init) as L. rewrite R in L. cbn [fst] in L.
  destruct L as [Idem [Bound [Fresh Same]]]. cbn [fst snd] in *.
  assert (Lb : (b < length h)%nat) by (apply nth_error_Some; congruence).
  destruct (nth_error h (root l b)) as [dr|] eqn:Hr; [|apply nth_error_None in Hr; specialize (Bound b Lb); lia].
  assert (F : fields db = fields dc).
  { rewrite (Same b db dr Hb Hr). symmetry. apply (Same c dc dr Hc). now rewrite <- E. }
  split; [exact F|]. destruct (fields_obs db dc F) as [A [B [C [D [_ G]]]]]. auto.
Qed.

(* a shallow copy is a new object on the store of its source; it shares the nested item of its source *)
Lemma shallow_is_linked : forall srt h kids l a d, nth_error h a = Some d -> LInv ((h, kids), l) ->
  exists kids' l', step2 srt ((h, kids), l) (OShallow a) = ((((h ++ [d])%list, kids'), l'), vnat (length h)) /\
    root l' (length h) = root l' a /\ nth_error h (length h) = None /\
    (forall c, kid_of kids a = Some c -> kid_of kids' (length h) = Some c) /\
    (forall p, p <> length h -> kid_of kids' p = kid_of kids p).
Proof.
  intros srt h kids l a d Ha [Idem [Bound [Fresh Same]]]. cbn [fst snd] in *.
  assert (La : (a < length h)%nat) by (apply nth_error_Some; congruence).
  cbn [step2]. rewrite Ha. eexists _, _. split; [reflexivity|]. cbn [root]. rewrite Nat.eqb_refl.
  replace (Nat.eqb (length h) a) with false by (symmetry; apply Nat.eqb_neq; lia).
  split; [reflexivity|]. split; [apply nth_error_None; lia|].
  destruct (kid_of kids a) as [c|] eqn:K.
  - split; [intros c' [= <-]; cbn [kid_of]; now rewrite Nat.eqb_refl|]. intros p Hp. cbn [kid_of].
    replace (Nat.eqb (length h) p) with false by (symmetry; apply Nat.eqb_neq; lia). reflexivity.
  - split; [discriminate | reflexivity].
Qed.

(* ... in particular a concept and its shallow copy are equal both ways as long as they are one code at all *)
Lemma reachable2_shallow_equal : forall srt ops h kids l vs b c db dc,
  run_ops2 srt (([], []), []) ops = (((h, kids), l), vs) ->
  root l b = root l c -> nth_error h b = Some db -> nth_error h c = Some dc -> wf_concept db ->
  obj_eq srt (HD db) (HD dc) = Ok true /\ obj_eq srt (HD dc) (HD db) = Ok true /\
  hash_key (HD db) = hash_key (HD dc) /\ exists k, hash_key (HD db) = Ok k.
Proof.
  intros srt ops h kids l vs b c db dc R E Hb Hc W.
  destruct (reachable2_one_store_one_code srt ops h kids l vs b c db dc R E Hb Hc) as [_ [Hk [Vs [Vo _]]]].
  destruct (wf_ready db W) as [Rb Sb].
  pose proof (eq_refl_obj srt (HD db) Rb) as Rf.
  split; [|split; [|split]].
  - unfold obj_eq in *. now rewrite <- Vo.
  - unfold obj_eq in *. now rewrite <- Vs.
  - exact Hk.
  - destruct (proj2 (hash_defined_iff (fun _ => 0) (HD db)) Sb) as [z Hz]. unfold obj_hash in Hz.
    destruct (hash_key (HD db)) as [k|k]; [eauto | discriminate].
Qed.

(* hash of a concept that lost attributes: refused (AttributeError without a scheme designator, TypeError without a
   code value), never invented; the meaning plays no part *)
Lemma hash_obs_cases : forall d, d_cc d = true ->
  match d_scheme d, ds_value d with
  | None, _ => hash_obs d = Err "AttributeError"
  | Some s, None => hash_obs d = Err "TypeError"
  | Some s, Some v => hash_obs d = Ok ((s ++ v)%string, true)
  end.
Proof.
  intros [cv lcv urn m s ver cc] C. cbn [d_cc] in C. subst cc.
  unfold hash_obs, hashable, hash_eq, code_of, hash_key, ds_scheme, req, ds_value.
  cbn [d_cc d_scheme d_cv d_lcv d_urn d_version bind c_scheme c_value].
  destruct s as [s|]; cbn [bind]; [|reflexivity].
  destruct cv as [v|]; [|destruct lcv as [v|]; [|destruct urn as [v|]]];
    cbn [bind c_scheme c_value]; rewrite ?String.eqb_refl; reflexivity.
Qed.

(* non-vacuity: a concept, its shallow copy, an edit through the COPY, a deletion through the ORIGINAL *)
Definition ex2_ops : list op2 :=
  [Std (OInit "T-04000" "SRT" "Breast" None); OShallow 0%nat; Std (OSetCode 1%nat ALongCodeValue "ABCDEFGHIJKLMNOPQ");
   Std (OHash 0%nat); Std (OEq 0%nat 1%nat); ODelAttr 0%nat 2; Std (OHash 1%nat)].
Lemma ex2_run :
  run_history2 [] ex2_ops =
  VL [VL [VZ 0; VZ 1; VZ 1; VL [VS "SRTABCDEFGHIJKLMNOPQ"; VB true]; VB true; VZ 0; VErr "AttributeError"];
      VL [VL [VB true; VNone; VS "ABCDEFGHIJKLMNOPQ"; VNone; VS "Breast"; VNone; VNone];
          VL [VB true; VNone; VS "ABCDEFGHIJKLMNOPQ"; VNone; VS "Breast"; VNone; VNone]];
      VL [VNone; VNone]; VL [VErr "AttributeError"; VErr "AttributeError"]].
Proof. vm_compute. reflexivity. Qed.

(* non-vacuity for (B), (C): a plain dataset whose nested item is a code; the item itself is converted in place
   (copy=False), the parent is deep-copied, parent == copy and copy == parent (items compared as concepts), the item is
   hashed, from_code refuses the plain parent (4 elements: AttributeError) *)
Definition ex_item_ops : list op :=
  [ONewDataset (DS (Some "abc") None None (Some "m") (Some "DCM") None false)
               (Some (DS (Some "T-04000") None None (Some "inner") (Some "SRT") None false));
   OFromDataset (Addr 1%nat) false; OClone 0%nat; OSetMeaning 3%nat "other"; OEq 0%nat 2%nat; OEq 2%nat 0%nat;
   OHash 1%nat; OFromCode (RConcept 0%nat); OEq 1%nat 3%nat].
Lemma ex_item_run :
  snd (run_ops (fun _ => None) ([], []) ex_item_ops) =
    [VZ 0; VZ 1; VZ 2; VZ 3; VB true; VB true; VL [VS "SRTT-04000"; VB true]; VErr "AttributeError"; VB true].
Proof. vm_compute. reflexivity. Qed.

Lemma reachable2_linv : forall srt ops, LInv (fst (run_ops2 srt (([], []), []) ops)).
Proof. intros srt ops. apply run_ops2_linv. exact linv_init. Qed.
