(* C11 - converse of the unsorted mode: an accepted answer with sort = False means the planes were
   passed in strictly monotone order along the normal (atol = 0, rtol < 1). *)
From Coq Require Import String ZArith List Bool QArith Lia Lqa Permutation Sorted.
From HD Require Import Base.Val C11_Model C11_Proofs C11_Proofs_Stack C11_Proofs_Sort.
Import ListNotations.
Open Scope Q_scope.

Lemma Qabs_le_inv x b : Qabs_ x <= b -> - b <= x /\ x <= b.
Proof.
  unfold Qabs_. destruct (Qle_bool 0 x) eqn:E; intro H.
  - apply Qle_bool_iff in E. lra.
  - assert (~ 0 <= x) by (intro L; apply Qle_bool_iff in L; congruence). lra.
Qed.

Lemma same_sign_pos rtol S l : 0 <= rtol -> rtol < 1 -> 0 < S ->
  Forall (fun x => Qabs_ (x - S) <= 0 + rtol * Qabs_ S) l -> Forall (fun x => 0 < x) l.
Proof.
  intros R0 R1 SP F. eapply Forall_impl; [|exact F]. cbn. intros x H.
  apply Qabs_le_inv in H. rewrite (Qabs_pos S) in H by lra. nra.
Qed.
Lemma same_sign_neg rtol S l : 0 <= rtol -> rtol < 1 -> S < 0 ->
  Forall (fun x => Qabs_ (x - S) <= 0 + rtol * Qabs_ S) l -> Forall (fun x => x < 0) l.
Proof.
  intros R0 R1 SP F. eapply Forall_impl; [|exact F]. cbn. intros x H.
  apply Qabs_le_inv in H. rewrite (Qabs_neg S) in H by lra. nra.
Qed.

Lemma dot_vsub n a b : dot n (vsub a b) == dot n a - dot n b.
Proof. unfold dot, vsub; cbn [vx vy vz]. ring. Qed.

Lemma is_perp_nonzero nv span : is_perp nv span = true -> ~ dot nv span == 0.
Proof.
  unfold is_perp. rewrite andb_true_iff. intros [H _] Z. apply Qlt_b_true in H.
  rewrite Z in H.
  assert (0 <= dot span span).
  { unfold dot. nra. }
  assert (0 < (1 - perp_tol) * (1 - perp_tol)) by (unfold perp_tol; reflexivity).
  nra.
Qed.

Lemma nthQ_map_dot nv uniq j : (j < length uniq)%nat -> nthQ (map (dot nv) uniq) j = dot nv (nthV uniq j).
Proof.
  intro H. unfold nthQ, nthV. rewrite (nth_indep _ 0 (dot nv (V3 0 0 0))) by (rewrite map_length; lia).
  now rewrite map_nth.
Qed.
Lemma hd_nth (l : list Q) : hd 0 l = nthQ l 0.
Proof. destruct l; reflexivity. Qed.
Lemma last_nth (l : list Q) : last l 0 = nthQ l (length l - 1).
Proof.
  induction l as [|x l IH]; [reflexivity|]. destruct l as [|y l]; [reflexivity|].
  change (last (x :: y :: l) 0) with (last (y :: l) 0). rewrite IH. unfold nthQ. cbn [length].
  replace (S (S (length l)) - 1)%nat with (S (S (length l) - 1)) by lia. reflexivity.
Qed.

Lemma unsorted_monotone : forall uniq uidx nv rtol enforce hint sp idx,
  (2 <= length uniq)%nat -> 0 <= rtol -> rtol < 1 ->
  gvp_core uniq uidx nv rtol 0 false false enforce hint = Ok (Some (sp, idx)) ->
  let ds := map (dot nv) uniq in
  (Forall (fun x => 0 < x) (diffs ds) \/ (enforce = false /\ Forall (fun x => x < 0) (diffs ds))) /\
  idx = map (fun u => nth u (map Z.of_nat (seq 0 (length uniq))) 0%Z) uidx.
Proof.
  intros uniq uidx nv rtol enforce hint sp idx M R0 R1 H.
  apply core_sound in H. cbv zeta in H. unfold sort_idx in H. rewrite map_length in H.
  set (ds := map (dot nv) uniq) in *.
  assert (Lds : length ds = length uniq) by (unfold ds; apply map_length).
  replace (map (nthQ ds) (seq 0 (length uniq))) with ds in H by (rewrite <- Lds; symmetry; apply map_nth_seq).
  destruct H as [F [Perp [_ [Enf [_ Hidx]]]]].
  rewrite inverse_perm_seq in Hidx. split; [|exact Hidx].
  rewrite last_seq, hd_seq in Perp by lia.
  apply is_perp_nonzero in Perp. rewrite dot_vsub in Perp.
  rewrite <- !nthQ_map_dot in Perp by lia. fold ds in Perp.
  set (S := mean_sp ds (length uniq)) in *.
  assert (NZ : ~ S == 0).
  { intro Z. apply Perp. unfold S, mean_sp in Z. rewrite hd_nth, last_nth, Lds in Z.
    set (D := nthQ ds (length uniq - 1) - nthQ ds 0) in *.
    assert (N : ~ inject_Z (Z.of_nat (length uniq - 1)) == 0).
    { intro E. assert (L : (0 < Z.of_nat (length uniq - 1))%Z) by lia.
      rewrite Zlt_Qlt in L. change (inject_Z 0) with 0 in L. lra. }
    assert (E : D == (D / inject_Z (Z.of_nat (length uniq - 1))) * inject_Z (Z.of_nat (length uniq - 1))) by (field; exact N).
    rewrite E, Z. ring. }
  destruct (Q_dec S 0) as [[Sn|Sp]|Z]; [| |contradiction].
  - right. split.
    + destruct enforce; [|reflexivity]. specialize (Enf eq_refl). lra.
    + now apply (same_sign_neg rtol S).
  - left. now apply (same_sign_pos rtol S).
Qed.
