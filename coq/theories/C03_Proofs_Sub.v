(* C03 - proofs, part 4: the pixel array of a sub-volume request on a stacked image is the
   documented numpy slice full[s:e, r0:r1, c0:c1] of the array get_volume() returns without
   arguments - for ANY stored image (no geometric hypotheses). *)
From Coq Require Import String ZArith List Bool Lia ZifyBool QArith.
From HD Require Import Base.Val Base.PySlice C03_Model C03_Proofs C03_Proofs_Geom C03_Proofs_Stack.
Import ListNotations.
Open Scope Z_scope.

(* ---- cut ------------------------------------------------------------------------ *)
Lemma cut_map : forall {A B} (g : A -> B) f z l, cut f z (map g l) = map g (cut f z l).
Proof. intros. unfold cut. rewrite skipn_map, firstn_map. reflexivity. Qed.

Lemma cut_cut0 : forall {A} (l : list A) f z n, 0 <= f -> 0 <= z -> f + z <= n ->
  cut f z (cut 0 n l) = cut f z l.
Proof.
  intros A l f z n Hf Hz Hn. unfold cut. cbn [Z.to_nat skipn].
  rewrite skipn_firstn_comm, firstn_firstn. f_equal. lia.
Qed.

Lemma trim_region : forall rows cols r0 zr c0 zc (X : plane),
  0 <= r0 -> 0 <= zr -> r0 + zr <= rows -> 0 <= c0 -> 0 <= zc -> c0 + zc <= cols ->
  map (cut c0 zc) (cut r0 zr (trim rows cols X)) = map (cut c0 zc) (cut r0 zr X).
Proof.
  intros rows cols r0 zr c0 zc X H1 H2 H3 H4 H5 H6. unfold trim.
  rewrite cut_map, map_map. rewrite (cut_cut0 X r0 zr rows) by lia.
  apply map_ext. intros row. apply cut_cut0; lia.
Qed.

Lemma zrange_shift : forall n a, zrange_from a n = map (Z.add a) (zrange_from 0 n).
Proof.
  induction n as [|n IH]; intros a; [reflexivity|]. cbn [zrange_from map].
  rewrite Z.add_0_r. f_equal. rewrite (IH (a + 1)), (IH (0 + 1)), map_map.
  apply map_ext. intros x. lia.
Qed.

Lemma skipn_zrange : forall k n a, (k <= n)%nat -> skipn k (zrange_from a n) = zrange_from (a + Z.of_nat k) (n - k).
Proof.
  induction k as [|k IH]; intros n a H.
  - cbn [skipn]. rewrite Z.add_0_r, Nat.sub_0_r. reflexivity.
  - destruct n as [|n]; [lia|]. cbn [zrange_from skipn]. rewrite IH by lia. f_equal. lia.
Qed.
Lemma firstn_zrange : forall k n a, (k <= n)%nat -> firstn k (zrange_from a n) = zrange_from a k.
Proof.
  induction k as [|k IH]; intros n a H; [reflexivity|].
  destruct n as [|n]; [lia|]. cbn [zrange_from firstn]. rewrite IH by lia. reflexivity.
Qed.
Lemma cut_zrange : forall s z N, 0 <= s -> 0 <= z -> s + z <= N ->
  cut s z (zrange_from 0 (Z.to_nat N)) = zrange_from s (Z.to_nat z).
Proof.
  intros s z N Hs Hz HN. unfold cut. rewrite skipn_zrange by lia. rewrite firstn_zrange by lia.
  f_equal. lia.
Qed.

(* ---- the first voxel and size of an accepted slice ---------------------------------- *)
Lemma slice_first_size_inv : forall a b n f z, 0 <= a <= n -> 0 <= b <= n ->
  slice_first_size (Some a) (Some b) n = Some (f, z) -> f = a /\ z = b - a /\ a < b.
Proof.
  intros a b n f z Ha Hb. unfold slice_first_size, slice_indices, clamp_idx, hd_size.
  replace (1 <? 0) with false by reflexivity.
  replace (a <? 0) with false by lia. replace (b <? 0) with false by lia.
  replace (n <? a) with false by lia. replace (n <? b) with false by lia.
  destruct (b - a =? 0) eqn:E0; cbn [orb]; [discriminate|].
  destruct (b - a <? 0) eqn:E1; cbn [negb Bool.eqb]; [discriminate|].
  intros [= <- <-]. split; [reflexivity|]. split; [|lia].
  rewrite Z.abs_eq by lia. change (Z.abs 1) with 1. rewrite Z.div_1_r. lia.
Qed.

Lemma std_rc_bounds : forall rs re cs ce rows cols ai r0 r1 c0 c1, 1 <= rows -> 1 <= cols ->
  std_rc rs re cs ce rows cols ai true = Ok (r0, r1, c0, c1) ->
  0 <= r0 <= rows - 1 /\ 0 <= r1 <= rows /\ 0 <= c0 <= cols - 1 /\ 0 <= c1 <= cols.
Proof.
  intros rs re cs ce rows cols ai r0 r1 c0 c1 Hr Hc H.
  apply std_rc_chain in H. cbv zeta in H.
  destruct H as ((A1 & A2) & (B1 & B2) & (C1 & C2) & (D1 & D2) & E).
  injection E as -> -> -> ->. unfold norm1.
  repeat match goal with |- context[if ?c then _ else _] => destruct c eqn:? end; lia.
Qed.

(* ---- inversion of get_volume keeping the pixel array --------------------------------- *)
Lemma get_volume_inv_arr : forall am st ss se rs re cs ce ai sh A' arr,
  get_volume am st ss se rs re cs ce ai = Ok (sh, A', arr) ->
  exists G n0 idx r0 r1 c0 c1 s e f0 z0 f1 z1 f2 z2,
    stacked_full am st = Ok (G, n0, idx) /\
    std_rc rs re cs ce (st_rows st) (st_cols st) ai true = Ok (r0, r1, c0, c1) /\
    std_slice ss se n0 ai = Ok (s, e) /\
    slice_first_size (Some s) (Some e) n0 = Some (f0, z0) /\
    slice_first_size (Some r0) (Some r1) (st_rows st) = Some (f1, z1) /\
    slice_first_size (Some c0) (Some c1) (st_cols st) = Some (f2, z2) /\
    arr = map (fun k => map (cut f2 z2)
                            (cut f1 z1 (plane_at (s + k) idx (map snd (st_planes st))
                                                 (zeros_plane (st_rows st) (st_cols st)))))
              (zrange_from 0 (Z.to_nat z0)).
Proof.
  intros am st ss se rs re cs ce ai sh A' arr. unfold get_volume, bind.
  destruct (std_rc rs re cs ce (st_rows st) (st_cols st) ai true) as [[[[r0 r1] c0] c1]|] eqn:Erc;
    [|cbv beta iota; intros H; discriminate H].
  destruct (stacked_full am st) as [[[G n0] idx]|] eqn:Efull; [|cbv beta iota; intros H; discriminate H].
  destruct (std_slice ss se n0 ai) as [[s e]|] eqn:Esl; [|cbv beta iota; intros H; discriminate H].
  unfold geom_getitem at 1. cbn [fst snd].
  destruct (negb _) eqn:Ec1; [cbv beta iota; intros H; discriminate H|].
  destruct (slice_first_size (Some s) (Some e) n0) as [[f0 z0]|] eqn:S0; [|cbv beta iota; intros H; discriminate H].
  destruct (slice_first_size None None (st_rows st)) as [[? ?]|] eqn:S1; [|cbv beta iota; intros H; discriminate H].
  destruct (slice_first_size None None (st_cols st)) as [[? ?]|] eqn:S2; [|cbv beta iota; intros H; discriminate H].
  destruct (existsb _ idx) eqn:Eex; [cbv beta iota; intros H; discriminate H|].
  unfold geom_getitem. cbn [fst snd].
  match goal with |- context[if negb ?c then _ else _] => destruct (negb c) eqn:Ec2 end;
    [cbv beta iota; intros H; discriminate H|].
  destruct (slice_first_size None None z0) as [[? ?]|] eqn:S3; [|cbv beta iota; intros H; discriminate H].
  destruct (slice_first_size (Some r0) (Some r1) (st_rows st)) as [[f1 z1']|] eqn:S4; [|cbv beta iota; intros H; discriminate H].
  destruct (slice_first_size (Some c0) (Some c1) (st_cols st)) as [[f2 z2']|] eqn:S5; [|cbv beta iota; intros H; discriminate H].
  intros H. injection H as <- <- <-.
  exists G, n0, idx, r0, r1, c0, c1, s, e, f0, z0, f1, z1', f2, z2'.
  repeat split; try reflexivity; try assumption.
Qed.

(* get_volume() without arguments succeeds whenever stacked_full does *)
Lemma get_volume_all' : forall am st G n0 idx ai,
  stacked_full am st = Ok (G, n0, idx) -> 1 <= st_rows st -> 1 <= st_cols st -> 1 <= n0 ->
  get_volume am st None None None None None None ai =
  Ok ((n0, st_rows st, st_cols st), sub_aff (sub_aff G 0 0 0) 0 0 0,
      map (fun k => trim (st_rows st) (st_cols st)
                         (plane_at (0 + k) idx (map snd (st_planes st)) (zeros_plane (st_rows st) (st_cols st))))
          (zrange_from 0 (Z.to_nat n0))).
Proof.
  intros am st G n0 idx ai E Hr Hc Hn. unfold get_volume, bind.
  rewrite (std_rc_all _ _ ai Hr Hc), E, (std_slice_all _ ai Hn).
  unfold geom_getitem, check_slice. cbn [fst snd].
  replace (0 <? - n0) with false by lia. replace (n0 <=? 0) with false by lia.
  replace (n0 <? - n0 - 1) with false by lia. replace (n0 <? n0) with false by lia.
  cbn [orb negb andb].
  rewrite (slice_first_size_some 0 n0 n0) by lia.
  rewrite (slice_first_size_none _ Hr), (slice_first_size_none _ Hc).
  rewrite existsb_false by (intros i Hi; lia).
  replace (n0 - 0) with n0 by lia.
  replace (0 <? - st_rows st) with false by lia. replace (st_rows st <=? 0) with false by lia.
  replace (st_rows st <? - st_rows st - 1) with false by lia. replace (st_rows st <? st_rows st) with false by lia.
  replace (0 <? - st_cols st) with false by lia. replace (st_cols st <=? 0) with false by lia.
  replace (st_cols st <? - st_cols st - 1) with false by lia. replace (st_cols st <? st_cols st) with false by lia.
  cbn [orb negb andb].
  rewrite (slice_first_size_none _ Hn).
  rewrite (slice_first_size_some 0 (st_rows st) (st_rows st)) by lia.
  rewrite (slice_first_size_some 0 (st_cols st) (st_cols st)) by lia.
  replace (st_rows st - 0) with (st_rows st) by lia. replace (st_cols st - 0) with (st_cols st) by lia.
  reflexivity.
Qed.

Lemma stacked_full_n0 : forall am st G n0 idx, stacked_full am st = Ok (G, n0, idx) -> 1 <= n0.
Proof.
  intros am st G n0 idx. unfold stacked_full, bind.
  destruct (get_volume_positions _ _ _ _ _) as [[[sp ix]|]|]; try discriminate.
  destruct (find_idx0 ix _); [|discriminate]. intros [= _ <- _].
  destruct (zmax_list_spec ix 0) as (_ & H & _). lia.
Qed.

(* THE SUB-VOLUME IS THE DOCUMENTED SLICE OF THE FULL VOLUME *)
Theorem subvolume_is_slice : forall am st ss se rs re cs ce ai sh A' out,
  1 <= st_rows st -> 1 <= st_cols st ->
  get_volume am st ss se rs re cs ce ai = Ok (sh, A', out) ->
  exists G n0 full s e r0 r1 c0 c1,
    get_volume am st None None None None None None ai = Ok ((n0, st_rows st, st_cols st), G, full) /\
    std_slice ss se n0 ai = Ok (s, e) /\
    std_rc rs re cs ce (st_rows st) (st_cols st) ai true = Ok (r0, r1, c0, c1) /\
    (0 <= s ->
       sh = (e - s, r1 - r0, c1 - c0) /\ r0 < r1 /\ c0 < c1 /\
       out = map (fun p => map (cut c0 (c1 - c0)) (cut r0 (r1 - r0) p)) (cut s (e - s) full)).
Proof.
  intros am st ss se rs re cs ce ai sh A' out Hr Hc HV.
  pose proof (get_volume_inv _ _ _ _ _ _ _ _ _ _ _ _ HV) as
    (G0 & n00 & idx0 & r00 & r10 & c00 & c10 & s00 & e00 & f00 & z00 & f10 & z10 & f20 & z20 &
     EF0 & Erc0 & Esl0 & S00 & S10 & S20 & Esh & _ & _).
  apply get_volume_inv_arr in HV as (G & n0 & idx & r0 & r1 & c0 & c1 & s & e & f0 & z0 & f1 & z1 & f2 & z2 &
                                     EF & Erc & Esl & S0 & S1 & S2 & Earr).
  rewrite EF in EF0. injection EF0 as <- <- <-.
  rewrite Erc in Erc0. injection Erc0 as <- <- <- <-.
  rewrite Esl in Esl0. injection Esl0 as <- <-.
  rewrite S0 in S00. injection S00 as <- <-. rewrite S1 in S10. injection S10 as <- <-.
  rewrite S2 in S20. injection S20 as <- <-.
  pose proof (stacked_full_n0 _ _ _ _ _ EF) as Hn0.
  eexists _, n0, _, s, e, r0, r1, c0, c1.
  split; [apply (get_volume_all' am st G n0 idx ai EF Hr Hc Hn0)|]. split; [exact Esl|]. split; [exact Erc|].
  intros Hs.
  destruct (std_slice_ok_bounds _ _ _ _ _ _ Hn0 Esl) as (Hse & _).
  destruct (std_rc_bounds _ _ _ _ _ _ _ _ _ _ _ Hr Hc Erc) as (B1 & B2 & B3 & B4).
  apply slice_first_size_inv in S0 as (-> & -> & _); [|lia|lia].
  apply slice_first_size_inv in S1 as (-> & -> & L1); [|lia|lia].
  apply slice_first_size_inv in S2 as (-> & -> & L2); [|lia|lia].
  split; [exact Esh|]. split; [exact L1|]. split; [exact L2|].
  rewrite Earr. rewrite cut_map, (cut_zrange s (e - s) n0) by lia. rewrite map_map.
  rewrite (zrange_shift _ s), map_map. apply map_ext. intros k.
  rewrite Z.add_0_l. symmetry. apply trim_region; lia.
Qed.
