(* Universal result type used at the model/implementation boundary.
   The harness renders the implementation's canonicalised outputs as [val]
   literals; each model's [run_*] functions produce [val]s; [mismatches]
   compares them inside Coq (vm_compute) so only a list of indices has to be
   parsed from coqc's output. *)
From Coq Require Import ZArith List Bool String QArith.
Import ListNotations.
Open Scope Z_scope.

Inductive val : Type :=
| VZ (z : Z)
| VB (b : bool)
| VNone
| VS (s : string)
| VQ (q : Q)
| VErr (k : string)
| VL (l : list val).

Definition Qabs' (q : Q) : Q := if Qle_bool 0 q then q else Qopp q.

(* |a - b| <= tol * (1 + |b|);  tol = 0 gives Qeq_bool *)
Definition Qclose (tol a b : Q) : bool :=
  Qle_bool (Qabs' (Qminus a b)) (Qmult tol (Qplus 1 (Qabs' b))).

Section Eqb.
  Variable tol : Q.
  Fixpoint val_eqb (a b : val) {struct a} : bool :=
    match a, b with
    | VZ x, VZ y => Z.eqb x y
    | VB x, VB y => Bool.eqb x y
    | VNone, VNone => true
    | VS x, VS y => String.eqb x y
    | VQ x, VQ y => Qclose tol x y
    | VZ x, VQ y => Qclose tol (inject_Z x) y
    | VQ x, VZ y => Qclose tol x (inject_Z y)
    | VErr x, VErr y => String.eqb x y
    | VL xs, VL ys =>
        (fix go (xs ys : list val) {struct xs} : bool :=
           match xs, ys with
           | [], [] => true
           | x :: xs', y :: ys' => val_eqb x y && go xs' ys'
           | _, _ => false
           end) xs ys
    | _, _ => false
    end.

  Fixpoint mismatches_from (i : nat) (rs es : list val) : list nat :=
    match rs, es with
    | r :: rs', e :: es' =>
        if val_eqb r e then mismatches_from (S i) rs' es'
        else i :: mismatches_from (S i) rs' es'
    | [], [] => []
    | _, _ => [i]
    end.
End Eqb.

Definition mismatches (rs es : list val) : list nat := mismatches_from 0%Q 0 rs es.
Definition mismatches_tol (tol : Q) (rs es : list val) : list nat := mismatches_from tol 0 rs es.

(* helpers for writing run_* functions *)
Definition vz_list (l : list Z) : val := VL (map VZ l).
Definition vz_list2 (l : list (list Z)) : val := VL (map vz_list l).
Definition vpair (a b : val) : val := VL [a; b].
Definition vopt {A} (f : A -> val) (o : option A) : val :=
  match o with Some x => f x | None => VNone end.
Definition vq_list (l : list Q) : val := VL (map VQ l).
Definition vb_list (l : list bool) : val := VL (map VB l).

Inductive res (A : Type) : Type := Ok (a : A) | Err (k : string).
Arguments Ok {A} a.
Arguments Err {A} k.
Definition vres {A} (f : A -> val) (r : res A) : val :=
  match r with Ok a => f a | Err k => VErr k end.
Definition bind {A B} (r : res A) (f : A -> res B) : res B :=
  match r with Ok a => f a | Err k => Err k end.
