(* PyExt - second part of the shallow embedding used by harness/translate_int.py (T-int):
   the value forms added to the straight-line integer fragment of Base/PyInt.v.

   Values:   bool | None -> option bool   (tri-state flags; `x is None` is a [match], `bool(x)` on the
                                           narrowed value is the value)
             str         -> string        (opaque: the translator only moves strings around; every
                                           OBSERVATION of a string - len(s), s.startswith('lit'),
                                           'lit' in s, s == 'lit' - is an explicit extra parameter of the
                                           generated definition, instantiated in the equivalence theorem)
             str | None  -> option string
             float       -> Q             (exact rationals, as in the hand models; a float literal is read
                                           as the decimal rational its source text denotes)
             float | None -> option Q
             a closed `class X(Enum)`  -> a finite inductive [E_X] generated from the class body as it
                                           is NOW, with a decidable equality [E_X_eqb]
             isinstance(p, T) on a parameter -> an explicit boolean parameter
             `self.KW = e` for a declared store slot -> an output of type option (absent until written)
   No axioms, no parameters. *)
From Coq Require Import String ZArith List Bool QArith.
From HD Require Import Base.Val Base.PyInt.
Open Scope Z_scope.

(* comparisons of floats (modelled over Q) *)
Definition py_qle (a b : Q) : bool := Qle_bool a b.
Definition py_qlt (a b : Q) : bool := negb (Qle_bool b a).
Definition py_qeq (a b : Q) : bool := Qeq_bool a b.
(* abs(x) *)
Definition py_qabs (q : Q) : Q := if Qle_bool 0 q then q else (- q)%Q.

Lemma py_qlt_spec : forall a b, py_qlt a b = true <-> (a < b)%Q.
Proof.
  intros a b. unfold py_qlt. rewrite negb_true_iff. split; intro H.
  - apply Qnot_le_lt. intro L. apply Qle_bool_iff in L. congruence.
  - destruct (Qle_bool b a) eqn:E; [|reflexivity]. apply Qle_bool_iff in E.
    exfalso. exact (Qlt_not_le _ _ H E).
Qed.
Lemma py_qle_spec : forall a b, py_qle a b = true <-> (a <= b)%Q.
Proof. intros. apply Qle_bool_iff. Qed.
Lemma py_qeq_spec : forall a b, py_qeq a b = true <-> (a == b)%Q.
Proof. intros. apply Qeq_bool_iff. Qed.

(* tri-state flag helpers for statements of equivalence theorems *)
Definition tri_use (x : option bool) : bool := match x with Some b => b | None => true end.
Definition tri_require (x : option bool) : bool := match x with Some b => b | None => false end.

(* int(((a / K) % 1) * K) for an int a and a power-of-two literal K (frame.decode_frame: the bit offset of a
   frame inside its first byte).  TRUSTED reading of the floating-point steps: for |a| < 2^53 the true
   division a / K by a power of two is exact, x % 1 (float modulo, sign of the divisor) is the exact
   fractional part in [0, 1) of a multiple of 1 / K, the product with K is exact and int() of that integral
   float is the integer itself; so the value is  a mod K  (Z.modulo: non-negative for K > 0). *)
Definition py_frac_scaled (a k : Z) : Z := a mod k.
