(* PyInt - shallow embedding of the straight-line integer fragment of Python that
   harness/translate_int.py (T-int) translates highdicom's index helpers into.

   Values:   int  -> Z          int | None -> option Z        bool -> bool
             tuples -> Coq tuples               range(a, b) -> list Z ([py_range])
   Outcomes: [Base.Val.res]:  [Ok v]  or  [Err "<ExceptionClass>"]  (messages are ignored)
   Control:  a statement block that may raise is a term of type [res (tuple of the
             variables it assigns)], sequenced with [bind]; `if x is None` is a
             [match] on the option (so a narrowed variable really has type Z - no
             default values); every OTHER use of an `int | None` variable where an int
             is required goes through [as_int], which yields Python's TypeError on None;
             `//` and `%` with a divisor that is not a non-zero literal go through
             [py_floordiv] / [py_mod], which yield ZeroDivisionError on 0.
   For b <> 0 Python's floor division and modulo on ints are exactly Z.div / Z.modulo
   (both round towards minus infinity; the remainder has the sign of the divisor).

   No axioms, no parameters.  The lemmas at the end are the small toolbox used by the
   equivalence proofs (coq/templates/TInt_Eq_*.v). *)
From Coq Require Import String ZArith List Bool Lia ZifyBool.
From HD Require Import Base.Val.
Import ListNotations.
Ltac Zify.zify_post_hook ::= Z.to_euclidean_division_equations.
Open Scope Z_scope.

Definition ret {A} (a : A) : res A := Ok a.
Definition raise {A} (k : string) : res A := Err k.

(* use of an `int | None` value where an int is required (arithmetic, ordering) *)
Definition as_int (x : option Z) : res Z :=
  match x with Some v => Ok v | None => Err "TypeError"%string end.

Definition is_none {A} (x : option A) : bool :=
  match x with None => true | Some _ => false end.

(* `==` between int | None values never raises *)
Definition opt_eqb (x y : option Z) : bool :=
  match x, y with
  | Some a, Some b => a =? b
  | None, None => true
  | _, _ => false
  end.

Definition py_floordiv (a b : Z) : res Z :=
  if b =? 0 then Err "ZeroDivisionError"%string else Ok (a / b).
Definition py_mod (a b : Z) : res Z :=
  if b =? 0 then Err "ZeroDivisionError"%string else Ok (a mod b).

(* int(np.ceil(a / b)) on ints: true (float) division, then ceiling.
   TRUSTED reading of the floating-point step: for |a| < 2^53, 0 < |b| < 2^53 the
   correctly rounded quotient a / b is an integer only if b divides a (a non-integral
   quotient is at least 1/|b| away from the nearest integer, the rounding error is at
   most |a/b| * 2^-53 < 1/|b|), so ceil of the float is the exact ceiling  -((-a) // b).
   Division by 0 raises ZeroDivisionError for Python ints. *)
Definition py_ceildiv (a b : Z) : res Z :=
  if b =? 0 then Err "ZeroDivisionError"%string else Ok (- ((- a) / b)).

(* list(range(lo, hi)) *)
Definition py_range (lo hi : Z) : list Z :=
  map (fun k => lo + Z.of_nat k) (seq 0 (Z.to_nat (hi - lo))).

(* list(itertools.product(xs, ys)) *)
Definition py_product {A B} (xs : list A) (ys : list B) : list (A * B) :=
  flat_map (fun x => map (fun y => (x, y)) ys) xs.

(* ---------------------------------------------------------------------- *)
(* toolbox for the equivalence proofs                                      *)
(* ---------------------------------------------------------------------- *)
Lemma bind_Ok : forall {A B} (a : A) (k : A -> res B), bind (Ok a) k = k a.
Proof. reflexivity. Qed.
Lemma bind_Err : forall {A B} (e : string) (k : A -> res B), bind (Err e) k = Err e.
Proof. reflexivity. Qed.
Lemma bind_ret : forall {A B} (a : A) (k : A -> res B), bind (ret a) k = k a.
Proof. reflexivity. Qed.
Lemma bind_ext : forall {A B} (m m' : res A) (k k' : A -> res B),
  m = m' -> (forall a, k a = k' a) -> bind m k = bind m' k'.
Proof. intros A B m m' k k' -> H. destruct m'; cbn; auto. Qed.
Lemma bind_assoc : forall {A B C} (m : res A) (k : A -> res B) (h : B -> res C),
  bind (bind m k) h = bind m (fun a => bind (k a) h).
Proof. intros. destruct m; reflexivity. Qed.
Lemma bind_if : forall {A B} (c : bool) (x y : res A) (k : A -> res B),
  bind (if c then x else y) k = if c then bind x k else bind y k.
Proof. intros. destruct c; reflexivity. Qed.

Lemma py_range_map_succ : forall n,
  py_range 1 (n + 1) = map (fun c => c + 1) (map Z.of_nat (seq 0 (Z.to_nat n))).
Proof.
  intros n. unfold py_range. replace (n + 1 - 1) with n by lia.
  rewrite map_map. apply map_ext. intros; lia.
Qed.

(* one head step of symbolic execution of a translated term *)
Ltac py_simpl :=
  cbn [bind ret raise as_int is_none opt_eqb fst snd negb andb orb Bool.eqb] in *.

(* case split on the first boolean test in the goal (innermost scrutinee first) *)
Ltac py_case :=
  match goal with
  | |- context [if ?c then _ else _] =>
      lazymatch c with
      | context [if _ then _ else _] => fail
      | _ => let E := fresh "E" in destruct c eqn:E
      end
  end.

(* write every comparison with <? / <=? so that code and model share their tests *)
Ltac py_norm := rewrite ?Z.gtb_ltb, ?Z.geb_leb in *.

Ltac py_crush := py_norm; repeat (py_simpl; try py_case); py_simpl; try reflexivity; try lia;
                 try (f_equal; lia); try (repeat f_equal; lia).

(* [bind B K = bind B' K'] : split into the block and the continuation *)
Ltac py_bind_ext := apply bind_ext; [ | intros ].
