(* Small list lemmas missing from the 8.16 standard library. *)
From Coq Require Import ZArith List Lia Arith.
Import ListNotations.

Lemma nth_firstn' {A} : forall n (l : list A) i d, (i < n)%nat -> nth i (firstn n l) d = nth i l d.
Proof.
  induction n as [|n IH]; intros l i d H; [lia|].
  destruct l as [|x l]; [now destruct i|]. destruct i as [|i]; cbn; [reflexivity|]. apply IH; lia.
Qed.

Lemma nth_skipn' {A} : forall n (l : list A) i d, nth i (skipn n l) d = nth (n + i) l d.
Proof.
  induction n as [|n IH]; intros l i d; [reflexivity|].
  destruct l as [|x l]; [now destruct i|]. cbn. apply IH.
Qed.

Lemma NoDup_app' {A} : forall (l1 l2 : list A), NoDup l1 -> NoDup l2 ->
  (forall x, In x l1 -> In x l2 -> False) -> NoDup (l1 ++ l2).
Proof.
  induction l1 as [|a l1 IH]; intros l2 H1 H2 Hd; [exact H2|].
  inversion H1 as [|? ? Hna Hnd]; subst. cbn. constructor.
  - rewrite in_app_iff. intros [H|H]; [contradiction|]. apply (Hd a); [now left|exact H].
  - apply IH; auto. intros x Hx1 Hx2. apply (Hd x); [now right|exact Hx2].
Qed.

Lemma NoDup_flat_map {A B} : forall (g : A -> list B) (l : list A),
  NoDup l -> (forall x, In x l -> NoDup (g x)) ->
  (forall x y z, In x l -> In y l -> In z (g x) -> In z (g y) -> x = y) ->
  NoDup (flat_map g l).
Proof.
  induction l as [|a l IH]; intros Hl Hg Hd; cbn; [constructor|].
  inversion Hl as [|? ? Hna Hnd]; subst.
  apply NoDup_app'.
  - apply Hg; now left.
  - apply IH; auto.
    + intros x Hx; apply Hg; now right.
    + intros x y z Hx Hy; apply Hd; now right.
  - intros z Hz1 Hz2. apply in_flat_map in Hz2 as (y & Hy & Hzy).
    assert (a = y) by (apply (Hd a y z); auto; [now left|now right]). subst. contradiction.
Qed.

Lemma NoDup_map_inj {A B} : forall (f : A -> B) (l : list A),
  (forall x y, In x l -> In y l -> f x = f y -> x = y) -> NoDup l -> NoDup (map f l).
Proof.
  induction l as [|a l IH]; intros Hinj Hl; cbn; [constructor|].
  inversion Hl as [|? ? Hna Hnd]; subst. constructor.
  - rewrite in_map_iff. intros (y & Hfy & Hy).
    assert (y = a) by (apply Hinj; auto; [now right|now left]). subst. contradiction.
  - apply IH; auto. intros x y Hx Hy; apply Hinj; now right.
Qed.

Lemma map_flat_map {A B C} : forall (f : B -> C) (g : A -> list B) (l : list A),
  map f (flat_map g l) = flat_map (fun x => map f (g x)) l.
Proof. induction l as [|a l IH]; cbn; [reflexivity|]. now rewrite map_app, IH. Qed.

Lemma length_flat_map_const {A B} : forall (g : A -> list B) (l : list A) n,
  (forall x, In x l -> length (g x) = n) -> length (flat_map g l) = (length l * n)%nat.
Proof.
  induction l as [|a l IH]; intros n H; cbn; [reflexivity|].
  rewrite app_length, (H a) by now left. f_equal. apply IH. intros x Hx; apply H; now right.
Qed.
