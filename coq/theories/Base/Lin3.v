From Coq Require Import Ring List ZArith QArith.
Section Lin3.
Variable R : Type.
Variables (rO rI : R) (radd rmul rsub : R -> R -> R) (ropp : R -> R).
Variable Rth : ring_theory rO rI radd rmul rsub ropp (@eq R).
Add Ring Rr : Rth.
Infix "+" := radd. Infix "*" := rmul. Infix "-" := rsub. Notation "- x" := (ropp x).

Record vec := V { vx : R; vy : R; vz : R }.
Record aff := Aff { c0 : vec; c1 : vec; c2 : vec; tr : vec }.   (* three columns + translation *)
Definition vadd a b := V (vx a + vx b) (vy a + vy b) (vz a + vz b).
Definition smul k a := V (k * vx a) (k * vy a) (k * vz a).
Definition dot a b := vx a * vx b + vy a * vy b + vz a * vz b.
Definition phys (A : aff) (i j k : R) : vec := vadd (vadd (vadd (smul i (c0 A)) (smul j (c1 A))) (smul k (c2 A))) (tr A).

(* volume.py:_prepare_getitem_index: new column d = old column d * step_d ; origin = A . first *)
Definition getitem_aff (A : aff) (f0 f1 f2 s0 s1 s2 : R) : aff :=
  Aff (smul s0 (c0 A)) (smul s1 (c1 A)) (smul s2 (c2 A)) (phys A f0 f1 f2).

Lemma vec_eq : forall a b, vx a = vx b -> vy a = vy b -> vz a = vz b -> a = b.
Proof. intros [] [] ; cbn; intros; subst; reflexivity. Qed.

Theorem getitem_fixes_voxels : forall A f0 f1 f2 s0 s1 s2 i j k,
  phys (getitem_aff A f0 f1 f2 s0 s1 s2) i j k = phys A (f0 + i * s0) (f1 + j * s1) (f2 + k * s2).
Proof. intros. apply vec_eq; cbn; ring. Qed.

Definition ortho (A : aff) := dot (c0 A) (c1 A) = rO /\ dot (c0 A) (c2 A) = rO /\ dot (c1 A) (c2 A) = rO.
Theorem getitem_keeps_ortho : forall A f0 f1 f2 s0 s1 s2, ortho A -> ortho (getitem_aff A f0 f1 f2 s0 s1 s2).
Proof.
  intros A f0 f1 f2 s0 s1 s2 (H01 & H02 & H12). unfold ortho, getitem_aff, dot, smul in *; cbn in *. repeat split.
  - transitivity (s0 * s1 * (vx (c0 A) * vx (c1 A) + vy (c0 A) * vy (c1 A) + vz (c0 A) * vz (c1 A))); [ring|]. rewrite H01; ring.
  - transitivity (s0 * s2 * (vx (c0 A) * vx (c2 A) + vy (c0 A) * vy (c2 A) + vz (c0 A) * vz (c2 A))); [ring|]. rewrite H02; ring.
  - transitivity (s1 * s2 * (vx (c1 A) * vx (c2 A) + vy (c1 A) * vy (c2 A) + vz (c1 A) * vz (c2 A))); [ring|]. rewrite H12; ring.
Qed.
End Lin3.
