From Coq Require Import Arith List Lia PeanoNat.
Import ListNotations.

Section Bits.
Variable A : Type.

(* window of a list: elements [a, b) *)
Definition window (a b : nat) (l : list A) : list A := firstn (b - a) (skipn a l).

Lemma skipn_skipn' : forall (x y : nat) (l : list A), skipn x (skipn y l) = skipn (y + x) l.
Proof. intros x y l. revert x l. induction y as [|y IH]; intros x l; [reflexivity|]. destruct l; [now rewrite !skipn_nil|]. cbn. apply IH. Qed.

(* reading through a covering window: the bits [p, p+n) seen through window [a,b) at local offset p-a *)
Lemma window_inner : forall (l : list A) a b p n,
  a <= p -> p + n <= b ->
  firstn n (skipn (p - a) (window a b l)) = firstn n (skipn p l).
Proof.
  intros l a b p n Hap Hb. unfold window.
  assert (E : skipn p l = skipn (p - a) (skipn a l)).
  { rewrite skipn_skipn'. f_equal. lia. }
  rewrite E. rewrite skipn_firstn_comm. rewrite firstn_firstn. f_equal. lia.
Qed.

(* frames of equal length n: frame i sits at [i*n, i*n+n) of the concatenation *)
Lemma concat_frame : forall (fs : list (list A)) n i d,
  (forall f, In f fs -> length f = n) -> i < length fs ->
  firstn n (skipn (i * n) (concat fs ++ d)) = nth i fs [].
Proof.
  induction fs as [|f fs IH]; intros n i d Hlen Hi; [cbn in Hi; lia|].
  assert (Hf : length f = n) by (apply Hlen; now left).
  destruct i as [|i]; cbn [concat nth Nat.mul].
  - cbn. rewrite <- app_assoc. rewrite firstn_app. rewrite Hf, Nat.sub_diag. cbn. rewrite app_nil_r.
    rewrite <- Hf. apply firstn_all.
  - rewrite <- app_assoc. replace (n + i * n) with (length f + i * n) by lia.
    rewrite skipn_app. rewrite skipn_all2 by lia. cbn [app].
    replace (length f + i * n - length f) with (i * n) by lia.
    apply IH; [intros g Hg; apply Hlen; now right | cbn in Hi; lia].
Qed.
End Bits.

(* the arithmetic of image.py:get_raw_frame + frame.py:decode_frame for bit-packed frames *)
Lemma raw_range_covers : forall i n, 0 < n ->
  let a := (i * n) / 8 in let b := ((i + 1) * n + 7) / 8 in
  8 * a <= i * n /\ i * n + n <= 8 * b /\ i * n - 8 * a = (i * n) mod 8.
Proof.
  intros i n Hn a b. subst a b.
  pose proof (Nat.div_mod (i * n) 8 ltac:(lia)).
  pose proof (Nat.mod_upper_bound (i * n) 8 ltac:(lia)).
  pose proof (Nat.div_mod ((i + 1) * n + 7) 8 ltac:(lia)).
  pose proof (Nat.mod_upper_bound ((i + 1) * n + 7) 8 ltac:(lia)).
  lia.
Qed.
