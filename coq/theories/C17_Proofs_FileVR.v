(* C17 - proofs, part 7: the file round trip per value representation (trailing NUL / blank for SH, LO, UC; trailing
   white space for UR).  Generic rule of [rstrip_by p]; the blank-only rule of part 4 is the special case of values
   without NUL and control characters. *)
From Coq Require Import String ZArith List Bool Ascii Lia.
From HD Require Import Base.Val C17_Model C17_Proofs C17_Proofs_Ext C17_Proofs_File.
Import ListNotations.
Open Scope string_scope.
Open Scope Z_scope.

Fixpoint sall (f : ascii -> bool) (s : string) : bool :=
  match s with EmptyString => true | String c t => f c && sall f t end.
Fixpoint last_by (p : ascii -> bool) (s : string) : bool :=
  match s with
  | EmptyString => false
  | String c t => match t with EmptyString => p c | _ => last_by p t end
  end.

Lemma rstrip_by_space : forall s, rstrip_by is_space s = rstrip s.
Proof. induction s as [|c t IH]; [reflexivity|]. cbn [rstrip_by rstrip]. now rewrite IH. Qed.

Lemma rstrip_by_agree : forall p q s, sall (fun c => Bool.eqb (p c) (q c)) s = true -> rstrip_by p s = rstrip_by q s.
Proof.
  intros p q. induction s as [|c t IH]; intros H; [reflexivity|]. cbn [sall] in H. apply andb_true_iff in H as [Hc Ht].
  cbn [rstrip_by]. rewrite (IH Ht). apply Bool.eqb_prop in Hc. now rewrite Hc.
Qed.

(* rstrip_by p removes a run of trailing p-characters and nothing else *)
Lemma rstrip_by_split : forall p s, exists t, s = rstrip_by p s ++ t /\ sall p t = true.
Proof.
  intros p. induction s as [|c t [u [IH A]]]; [exists ""; auto|]. cbn [rstrip_by].
  destruct (rstrip_by p t) as [|a r] eqn:E.
  - cbn [append] in IH. destruct (p c) eqn:Pc.
    + exists (String c u). cbn [append sall]. rewrite Pc, A. split; [now rewrite <- IH | reflexivity].
    + exists u. cbn [append]. split; [now rewrite <- IH | exact A].
  - exists u. cbn [append] in *. split; [now rewrite <- IH | exact A].
Qed.

Lemma rstrip_by_last : forall p s, last_by p (rstrip_by p s) = false.
Proof.
  intros p. induction s as [|c t IH]; [reflexivity|]. cbn [rstrip_by].
  destruct (rstrip_by p t) as [|a u] eqn:E.
  - destruct (p c) eqn:Pc; [reflexivity | cbn; exact Pc].
  - exact IH.
Qed.

Lemma rstrip_by_all : forall p t, sall p t = true -> rstrip_by p t = "".
Proof.
  intros p. induction t as [|c t IH]; intros H; [reflexivity|]. cbn [sall] in H. apply andb_true_iff in H as [Hc Ht].
  cbn [rstrip_by]. now rewrite (IH Ht), Hc.
Qed.

Lemma rstrip_by_app : forall p x t, sall p t = true -> rstrip_by p (x ++ t) = rstrip_by p x.
Proof.
  intros p. induction x as [|c x IH]; intros t H; cbn [append]; [now apply rstrip_by_all|]. cbn [rstrip_by]. now rewrite IH.
Qed.

Lemma rstrip_by_clean : forall p s, last_by p s = false -> rstrip_by p s = s.
Proof.
  intros p. induction s as [|c t IH]; intros H; [reflexivity|]. cbn [rstrip_by]. destruct t as [|a u].
  - cbn in H |- *. now rewrite H.
  - cbn [last_by] in H. rewrite (IH H). reflexivity.
Qed.

(* the result is THE prefix not ending in a p-character that differs from s by p-characters only *)
Lemma rstrip_by_unique : forall p s x t, s = x ++ t -> sall p t = true -> last_by p x = false -> rstrip_by p s = x.
Proof. intros p s x t -> A L. rewrite rstrip_by_app by exact A. now apply rstrip_by_clean. Qed.

Lemma rstrip_by_id_iff : forall p s, rstrip_by p s = s <-> last_by p s = false.
Proof. intros p s. split; [intros <-; apply rstrip_by_last | apply rstrip_by_clean]. Qed.

Lemma rstrip_by_idem : forall p s, rstrip_by p (rstrip_by p s) = rstrip_by p s.
Proof. intros p s. apply rstrip_by_clean, rstrip_by_last. Qed.

(* ---- which characters: ordinary text = no NUL and no white space other than the blank -------------------- *)
Definition textc (c : ascii) : bool := negb (Ascii.eqb c "000") && (negb (is_ws c) || is_space c).

Lemma textc_pad : forall c, textc c = true -> is_pad c = is_space c.
Proof.
  intros c H. unfold textc in H. apply andb_true_iff in H as [N _]. unfold is_pad, is_space.
  destruct (Ascii.eqb c "000"); [discriminate|]. now rewrite orb_false_r.
Qed.
Lemma is_space_ws : forall c, is_space c = true -> is_ws c = true.
Proof. intros c H. apply Ascii.eqb_eq in H. subst c. reflexivity. Qed.
Lemma textc_ws : forall c, textc c = true -> is_ws c = is_space c.
Proof.
  intros c H. unfold textc in H. apply andb_true_iff in H as [_ W].
  destruct (is_space c) eqn:S; [now apply is_space_ws|]. rewrite orb_false_r in W. now destruct (is_ws c).
Qed.

Lemma rstrip_pad_text : forall s, sall textc s = true -> rstrip_by is_pad s = rstrip s.
Proof.
  intros s H. rewrite <- rstrip_by_space. apply rstrip_by_agree. revert H.
  induction s as [|c t IH]; [reflexivity|]. cbn [sall]. intros H. apply andb_true_iff in H as [Hc Ht].
  rewrite (IH Ht), (textc_pad c Hc). now rewrite Bool.eqb_reflx.
Qed.
Lemma rstrip_ws_text : forall s, sall textc s = true -> rstrip_by is_ws s = rstrip s.
Proof.
  intros s H. rewrite <- rstrip_by_space. apply rstrip_by_agree. revert H.
  induction s as [|c t IH]; [reflexivity|]. cbn [sall]. intros H. apply andb_true_iff in H as [Hc Ht].
  rewrite (IH Ht), (textc_ws c Hc). now rewrite Bool.eqb_reflx.
Qed.

Definition otext (o : option string) : Prop := match o with Some s => sall textc s = true | None => True end.
Definition text_ds (d : dsobj) : Prop :=
  otext (d_cv d) /\ otext (d_lcv d) /\ otext (d_urn d) /\ otext (d_meaning d) /\ otext (d_scheme d) /\ otext (d_version d).

(* on ordinary text the per-VR reader IS the blank-only reader of part 4: everything proved there carries over *)
Lemma file_roundtrip_vr_text : forall d, text_ds d -> file_roundtrip_vr d = file_roundtrip d.
Proof.
  intros d [A [B [C [D [E F]]]]]. unfold file_roundtrip_vr, file_roundtrip.
  destruct (d_cv d), (d_lcv d), (d_urn d), (d_meaning d), (d_scheme d), (d_version d); cbn in *;
    rewrite ?rstrip_pad_text, ?rstrip_ws_text by assumption; reflexivity.
Qed.

Lemma init_text : forall v s m ver d, init v s m ver = Ok d ->
  sall textc v = true -> sall textc s = true -> sall textc m = true -> otext ver -> text_ds d.
Proof.
  intros v s m ver d H Cv Cs Cm Cver. unfold init in H. destruct (64 <? slen m); [discriminate|]. injection H as <-.
  destruct (select_attr v); repeat split; cbn; auto.
Qed.

Lemma store_file_load_vr_text : forall v s m ver,
  sall textc v = true -> sall textc s = true -> sall textc m = true -> otext ver ->
  store_file_load_vr v s m ver = store_file_load v s m ver.
Proof.
  intros v s m ver Cv Cs Cm Cver. unfold store_file_load_vr, store_file_load.
  destruct (init v s m ver) as [d|k] eqn:E; cbn [bind]; [|reflexivity].
  now rewrite (file_roundtrip_vr_text d (init_text v s m ver d E Cv Cs Cm Cver)).
Qed.

(* ---- store -> file -> load, per VR ------------------------------------------------------------------------- *)
Definition strip_of (a : attr) : ascii -> bool := match a with AURNCodeValue => is_ws | _ => is_pad end.

Lemma store_file_load_vr_spec : forall v s m ver, slen m <= 64 ->
  exists d', store_file_load_vr v s m ver = Ok d' /\
    attr_slot (select_attr v) d' = Some (rstrip_by (strip_of (select_attr v)) v) /\
    (forall a, a <> select_attr v -> attr_slot a d' = None) /\
    ds_value d' = Some (rstrip_by (strip_of (select_attr v)) v) /\ ds_scheme d' = Ok (rstrip_by is_pad s) /\
    ds_meaning d' = Ok (rstrip_by is_pad m) /\ ds_version d' = option_map (rstrip_by is_pad) ver /\ d_cc d' = true.
Proof.
  intros v s m ver Hm. unfold store_file_load_vr, init.
  replace (64 <? slen m) with false by (symmetry; apply Z.ltb_ge; exact Hm). cbn [bind].
  destruct (select_attr v) eqn:E; cbn; eexists; (split; [reflexivity|]); cbn; rewrite ?E;
    repeat split; intros [] Hn; try reflexivity; contradiction.
Qed.

(* "read back unchanged": exactly when no attribute ends in a character its VR treats as padding *)
Lemma store_file_load_vr_unchanged : forall v s m ver, slen m <= 64 ->
  last_by (strip_of (select_attr v)) v = false -> last_by is_pad s = false -> last_by is_pad m = false ->
  match ver with Some x => last_by is_pad x = false | None => True end ->
  exists d', store_file_load_vr v s m ver = Ok d' /\ init v s m ver = Ok d' /\
    attr_slot (select_attr v) d' = Some v /\ ds_value d' = Some v /\ ds_scheme d' = Ok s /\ ds_meaning d' = Ok m /\
    ds_version d' = ver.
Proof.
  intros v s m ver Hm Cv Cs Cm Cver. unfold store_file_load_vr, init.
  replace (64 <? slen m) with false by (symmetry; apply Z.ltb_ge; exact Hm). cbn [bind].
  destruct ver as [x|]; destruct (select_attr v) eqn:E; cbn in Cv |- *; rewrite ?E;
    unfold file_roundtrip_vr, set_cc; cbn;
    rewrite ?(rstrip_by_clean _ v Cv), ?(rstrip_by_clean _ s Cs), ?(rstrip_by_clean _ m Cm), ?(rstrip_by_clean _ x Cver);
    eexists; repeat split; reflexivity.
Qed.

(* observation: NUL padding is lost in SH / LO / UC but kept in UR; a trailing TAB is lost in UR only *)
Lemma vr_padding_observation :
  exists d1 d2 d3 d4,
    store_file_load_vr (String "a" (String "000" "")) "DCM" "m" None = Ok d1 /\ ds_value d1 = Some "a" /\
    store_file_load_vr (String "u" (String "r" (String "n" (String "000" "")))) "DCM" "m" None = Ok d2 /\
    ds_value d2 = Some (String "u" (String "r" (String "n" (String "000" "")))) /\
    store_file_load_vr (String "u" (String "r" (String "n" (String "009" "")))) "DCM" "m" None = Ok d3 /\ ds_value d3 = Some "urn" /\
    store_file_load_vr (String "a" (String "009" "")) "DCM" "m" None = Ok d4 /\ ds_value d4 = Some (String "a" (String "009" "")).
Proof. do 4 eexists. repeat split; vm_compute; reflexivity. Qed.

Lemma rstrip_by_rule : forall p s,
  (exists t, s = rstrip_by p s ++ t /\ sall p t = true) /\ last_by p (rstrip_by p s) = false /\
  (forall x t, s = x ++ t -> sall p t = true -> last_by p x = false -> rstrip_by p s = x) /\
  (rstrip_by p s = s <-> last_by p s = false).
Proof.
  intros p s. split; [apply rstrip_by_split|]. split; [apply rstrip_by_last|]. split; [apply rstrip_by_unique|].
  apply rstrip_by_id_iff.
Qed.
