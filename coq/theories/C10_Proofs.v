(* C10 - proofs, part 1: linear algebra, affine shape, inverse pairs, half pixel,
   pixel-to-pixel, helpers *)
From Coq Require Import String Ascii ZArith List Bool QArith Qabs Qround Lia Lqa Qfield Setoid Morphisms.
From HD Require Import Base.Val C10_Model.
Import ListNotations.
Open Scope Q_scope.

Ltac proj := cbn [vx vy vz c0 c1 c2 lin tr fst snd].
Ltac unf := unfold aapply, acomp, mapply, mmul, mred, vred, vadd, vsub, vneg, smul, shift2, mident,
                   transpose, row0, row1, row2, det, dot, cross in *.
Ltac qred := rewrite ?Qred_correct.

(* ---------- setoid plumbing ---------- *)
Lemma veq_refl v : veq v v. Proof. repeat split; reflexivity. Qed.
Lemma veq_sym a b : veq a b -> veq b a. Proof. intros (H1 & H2 & H3); repeat split; symmetry; assumption. Qed.
Lemma veq_trans a b c : veq a b -> veq b c -> veq a c.
Proof. intros (H1 & H2 & H3) (K1 & K2 & K3); repeat split; etransitivity; eassumption. Qed.
Add Parametric Relation : vec veq reflexivity proved by veq_refl symmetry proved by veq_sym
  transitivity proved by veq_trans as veq_rel.

Lemma vred_eq v : veq (vred v) v.
Proof. unfold veq, vred; proj; qred; repeat split; reflexivity. Qed.
Lemma aapply_proper A x y : veq x y -> veq (aapply A x) (aapply A y).
Proof. intros (H1 & H2 & H3). unfold veq; unf; proj. rewrite H1, H2, H3. repeat split; reflexivity. Qed.

(* ---------- dot / cross identities ---------- *)
Lemma dot_comm a b : dot a b == dot b a. Proof. unf; ring. Qed.
Lemma dot_neg_neg a b : dot (vneg a) (vneg b) == dot a b. Proof. unf; proj; ring. Qed.
Lemma dot_neg_l a b : dot (vneg a) b == - dot a b. Proof. unf; proj; ring. Qed.
Lemma dot_neg_r a b : dot a (vneg b) == - dot a b. Proof. unf; proj; ring. Qed.
Lemma dot_smul k l a b : dot (smul k a) (smul l b) == k * l * dot a b. Proof. unf; proj; ring. Qed.
Lemma dot_cross_l a b : dot a (cross a b) == 0. Proof. unf; proj; ring. Qed.
Lemma dot_cross_r a b : dot b (cross a b) == 0. Proof. unf; proj; ring. Qed.
Lemma lagrange a b : dot (cross a b) (cross a b) == dot a a * dot b b - dot a b * dot a b.
Proof. unf; proj; ring. Qed.

Lemma orthonormal_swap a b : orthonormal a b -> orthonormal b a.
Proof. intros (H1 & H2 & H3); repeat split; try assumption. rewrite dot_comm; assumption. Qed.
Lemma normal_unit a b : orthonormal a b -> dot (cross a b) (cross a b) == 1.
Proof. intros (H1 & H2 & H3). rewrite lagrange, H1, H2, H3. ring. Qed.

Lemma conv_vec_orthonormal r c d0 d1 :
  pix_valid d0 d1 = true -> orthonormal r c -> orthonormal (conv_vec d0 r c) (conv_vec d1 r c).
Proof.
  intros V (H1 & H2 & H3).
  assert (H3' : dot c r == 0) by (rewrite dot_comm; exact H3).
  destruct d0, d1; try discriminate V; unfold conv_vec, orthonormal;
    rewrite ?dot_neg_neg, ?dot_neg_l, ?dot_neg_r, ?H1, ?H2, ?H3, ?H3'; repeat split; ring.
Qed.

(* ---------- shape of the rotation matrix ---------- *)
Lemma core_shape a b sa sb ss sf h :
  orthonormal a b ->
  let n := normal h a b in
  let M := if sf : bool then M3 (smul ss n) (smul sa a) (smul sb b) else M3 (smul sa a) (smul sb b) (smul ss n) in
  ortho_cols M /\
  veq (norms_sq M) (vsq (if sf then V3 ss sa sb else V3 sa sb ss)) /\
  det M == hand_sign h * (sa * sb * ss).
Proof.
  intros O n M.
  pose proof O as (H1 & H2 & H3).
  assert (H3' : dot b a == 0) by (rewrite dot_comm; exact H3).
  assert (Hn : dot n n == 1).
  { subst n; destruct h; cbn [normal]; [apply normal_unit; exact O | apply normal_unit, orthonormal_swap; exact O]. }
  assert (Han : dot a n == 0) by (subst n; destruct h; cbn [normal]; [apply dot_cross_l | apply dot_cross_r]).
  assert (Hbn : dot b n == 0) by (subst n; destruct h; cbn [normal]; [apply dot_cross_r | apply dot_cross_l]).
  assert (Hna : dot n a == 0) by (rewrite dot_comm; exact Han).
  assert (Hnb : dot n b == 0) by (rewrite dot_comm; exact Hbn).
  assert (Hdet : dot a (cross b n) == hand_sign h).
  { subst n; destruct h; cbn [normal hand_sign].
    - transitivity (dot (cross a b) (cross a b)); [unf; proj; ring | apply normal_unit; exact O].
    - transitivity (- dot (cross b a) (cross b a)); [unf; proj; ring |].
      rewrite (normal_unit b a (orthonormal_swap _ _ O)). reflexivity. }
  subst M; destruct sf; unfold ortho_cols, norms_sq, vsq, veq; proj; rewrite !dot_smul;
    rewrite ?H1, ?H2, ?H3, ?H3', ?Hn, ?Han, ?Hbn, ?Hna, ?Hnb; (split; [repeat split; ring | split; [repeat split; ring |]]).
  - transitivity (sa * sb * ss * dot a (cross b n)); [unfold det; unf; proj; ring | rewrite Hdet; ring].
  - transitivity (sa * sb * ss * dot a (cross b n)); [unfold det; unf; proj; ring | rewrite Hdet; ring].
Qed.

Lemma rotation_shape r c d0 d1 sf h sr sc ss :
  orthonormal r c -> pix_valid d0 d1 = true ->
  let M := rotation_core r c d0 d1 sf h sr sc ss in
  ortho_cols M /\
  veq (norms_sq M) (vsq (axis_spacings d0 d1 sf sr sc ss)) /\
  det M == hand_sign h * (conv_sp d0 sr sc * conv_sp d1 sr sc * ss).
Proof.
  intros O V. pose proof (conv_vec_orthonormal r c d0 d1 V O) as O'.
  pose proof (core_shape _ _ (conv_sp d0 sr sc) (conv_sp d1 sr sc) ss sf h O') as H.
  unfold rotation_core, axis_spacings. destruct sf; exact H.
Qed.

Lemma conv_sp_product d0 d1 sr sc : pix_valid d0 d1 = true -> conv_sp d0 sr sc * conv_sp d1 sr sc == sr * sc.
Proof. destruct d0, d1; intro V; try discriminate V; cbn [conv_sp]; ring. Qed.

Lemma rotation_handedness r c d0 d1 sf h sr sc ss :
  orthonormal r c -> pix_valid d0 d1 = true -> 0 < sr -> 0 < sc -> 0 < ss ->
  (0 < det (rotation_core r c d0 d1 sf h sr sc ss) <-> h = RH) /\
  (det (rotation_core r c d0 d1 sf h sr sc ss) < 0 <-> h = LH).
Proof.
  intros O V Hr Hc Hs.
  destruct (rotation_shape r c d0 d1 sf h sr sc ss O V) as (_ & _ & D).
  assert (P : 0 < sr * sc * ss) by (apply Qmult_lt_0_compat; [apply Qmult_lt_0_compat|]; assumption).
  assert (D' : det (rotation_core r c d0 d1 sf h sr sc ss) == hand_sign h * (sr * sc * ss)).
  { rewrite D. rewrite <- (conv_sp_product d0 d1 sr sc V). ring. }
  rewrite D'. destruct h; cbn [hand_sign]; split; split; intro X; try reflexivity; try discriminate X; try lra.
Qed.

(* ---------- the Python boundary of the constructors ---------- *)
Lemma Qle_bool_false a b : b < a -> Qle_bool a b = false.
Proof.
  intro H. destruct (Qle_bool a b) eqn:E; [|reflexivity].
  apply Qle_bool_iff in E. exfalso. apply (Qlt_not_le _ _ H E).
Qed.

Lemma create_rotation_matrix_ok rx ry rz cx cy cz conv d0 d1 sf hs h sr sc ss :
  normalize_pix conv = Ok (d0, d1) -> hand_of_string hs = Ok h -> 0 < sr -> 0 < sc ->
  create_rotation_matrix [rx; ry; rz; cx; cy; cz] conv sf hs (ASeq [sr; sc]) ss
  = Ok (rotation_core (V3 rx ry rz) (V3 cx cy cz) d0 d1 sf h sr sc ss).
Proof.
  intros N H Hr Hc. unfold create_rotation_matrix. cbn [ori_of bind]. rewrite N. cbn [bind]. rewrite H.
  cbn [bind spacing2 pair_of fst snd]. rewrite (Qle_bool_false _ _ Hr), (Qle_bool_false _ _ Hc). reflexivity.
Qed.

Lemma create_rotation_matrix_refuses_spacing ori conv sf hs sr sc ss :
  sr <= 0 \/ sc <= 0 -> exists k, create_rotation_matrix ori conv sf hs (ASeq [sr; sc]) ss = Err k.
Proof.
  intro H. unfold create_rotation_matrix.
  destruct (ori_of ori) as [rc|k]; [|eexists; reflexivity]. cbn [bind].
  destruct (normalize_pix conv) as [dd|k]; [|eexists; reflexivity]. cbn [bind].
  destruct (hand_of_string hs) as [h|k]; [|eexists; reflexivity]. cbn [bind spacing2 pair_of].
  assert (E : Qle_bool sr 0 || Qle_bool sc 0 = true).
  { destruct H as [H|H]; apply Qle_bool_iff in H; rewrite H; [reflexivity | apply orb_true_r]. }
  rewrite E. eexists; reflexivity.
Qed.

Lemma normalize_pix_valid conv d0 d1 : normalize_pix conv = Ok (d0, d1) -> pix_valid d0 d1 = true.
Proof.
  unfold normalize_pix. destruct conv as [|a [|b [|]]]; try discriminate.
  destruct (pdir_of_ascii a); try discriminate. destruct (pdir_of_ascii b); try discriminate.
  unfold pix_valid. destruct (xorb _ _) eqn:E; intro H; inversion H; subst; exact E.
Qed.

Definition no_LU (d0 d1 : pdir) : bool :=
  negb (pdir_eqb d0 PL || pdir_eqb d0 PU || pdir_eqb d1 PL || pdir_eqb d1 PU).

Lemma affine_from_attributes_ok px py pz rx ry rz cx cy cz conv d0 d1 sf hs h sr sc ss :
  normalize_pix conv = Ok (d0, d1) -> no_LU d0 d1 = true -> hand_of_string hs = Ok h -> 0 < sr -> 0 < sc ->
  affine_from_attributes (ASeq [px; py; pz]) (ASeq [rx; ry; rz; cx; cy; cz]) (ASeq [sr; sc]) ss conv sf hs
  = Ok (Aff (rotation_core (V3 rx ry rz) (V3 cx cy cz) d0 d1 sf h sr sc ss) (V3 px py pz)).
Proof.
  intros N L H Hr Hc. unfold affine_from_attributes, check_args. cbn [seq_len length Nat.eqb bind vec_of].
  rewrite N. cbn [bind fst snd]. unfold no_LU in L. apply negb_true_iff in L. rewrite L.
  rewrite (create_rotation_matrix_ok _ _ _ _ _ _ _ _ _ _ _ _ _ _ _ N H Hr Hc). reflexivity.
Qed.

Lemma affine_from_attributes_refuses_LU pos ori sp ss conv d0 d1 sf hs :
  normalize_pix conv = Ok (d0, d1) -> no_LU d0 d1 = false ->
  exists k, affine_from_attributes pos ori sp ss conv sf hs = Err k.
Proof.
  intros N L. unfold affine_from_attributes.
  destruct (check_args pos ori sp) as [[[pv o] s]|k]; [|eexists; reflexivity]. cbn [bind].
  rewrite N. cbn [bind fst snd]. unfold no_LU in L. apply negb_false_iff in L. rewrite L. eexists; reflexivity.
Qed.

(* ---------- inverse ---------- *)
Lemma mapply_proper M x y : veq x y -> veq (mapply M x) (mapply M y).
Proof. intros (H1 & H2 & H3). unfold veq; unf; proj. rewrite H1, H2, H3. repeat split; reflexivity. Qed.
Lemma mapply_vadd M u w : veq (mapply M (vadd u w)) (vadd (mapply M u) (mapply M w)).
Proof. unfold veq; unf; proj. repeat split; ring. Qed.
Lemma mapply_vneg M u : veq (mapply M (vneg u)) (vneg (mapply M u)).
Proof. unfold veq; unf; proj. repeat split; ring. Qed.

Definition adj_apply (M : mat) (v : vec) : vec :=
  V3 (dot (cross (c1 M) (c2 M)) v) (dot (cross (c2 M) (c0 M)) v) (dot (cross (c0 M) (c1 M)) v).

Lemma inv3_rows M Mi : inv3 M = Ok Mi ->
  ~ det M == 0 /\ forall v, veq (mapply Mi v) (smul (/ det M) (adj_apply M v)).
Proof.
  unfold inv3. remember (det M) as d eqn:Hd. clear Hd.
  destruct (Qeq_bool (Qred d) 0) eqn:E; [discriminate|].
  intro H. injection H as <-.
  apply Qeq_bool_neq in E. rewrite Qred_correct in E. split; [exact E|].
  intro v.
  unfold veq, adj_apply, mapply, mred, vred, transpose, row0, row1, row2, smul, vadd, dot; proj.
  rewrite !Qred_correct. repeat split; ring.
Qed.

Lemma adj_left M p : veq (adj_apply M (mapply M p)) (smul (det M) p).
Proof. unfold veq, adj_apply; unf; proj. repeat split; ring. Qed.
Lemma adj_right M p : veq (mapply M (adj_apply M p)) (smul (det M) p).
Proof. unfold veq, adj_apply; unf; proj. repeat split; ring. Qed.
Lemma adj_apply_proper M x y : veq x y -> veq (adj_apply M x) (adj_apply M y).
Proof. intros (H1 & H2 & H3). unfold veq, adj_apply, dot; proj. rewrite H1, H2, H3. repeat split; reflexivity. Qed.
Lemma smul_proper k x y : veq x y -> veq (smul k x) (smul k y).
Proof. intros (H1 & H2 & H3). unfold veq, smul; proj. rewrite H1, H2, H3. repeat split; reflexivity. Qed.
Lemma mapply_smul M k u : veq (mapply M (smul k u)) (smul k (mapply M u)).
Proof. unfold veq; unf; proj. repeat split; ring. Qed.
Lemma smul_inv d p : ~ d == 0 -> veq (smul (/ d) (smul d p)) p.
Proof. intro H. unfold veq, smul; proj. repeat split; field; exact H. Qed.

Lemma inv3_ok M Mi : inv3 M = Ok Mi ->
  forall p, veq (mapply Mi (mapply M p)) p /\ veq (mapply M (mapply Mi p)) p.
Proof.
  intros H p. destruct (inv3_rows M Mi H) as (D & R). split.
  - rewrite R. rewrite (smul_proper _ _ _ (adj_left M p)). apply smul_inv; exact D.
  - rewrite (mapply_proper M _ _ (R p)). rewrite mapply_smul.
    rewrite (smul_proper _ _ _ (adj_right M p)). apply smul_inv; exact D.
Qed.

Lemma inv3_exists M : ~ det M == 0 -> exists Mi, inv3 M = Ok Mi.
Proof.
  intro H. unfold inv3. destruct (Qeq_bool (Qred (det M)) 0) eqn:E.
  - apply Qeq_bool_eq in E. rewrite Qred_correct in E. contradiction.
  - eexists; reflexivity.
Qed.
Lemma inv3_singular M : det M == 0 -> inv3 M = Err EValue.
Proof.
  intro H. unfold inv3. rewrite <- (Qred_correct (det M)) in H. apply Qeq_eq_bool in H. rewrite H. reflexivity.
Qed.

Lemma vadd_proper a b c d : veq a b -> veq c d -> veq (vadd a c) (vadd b d).
Proof. intros (H1 & H2 & H3) (K1 & K2 & K3). unfold veq, vadd; proj. rewrite H1, H2, H3, K1, K2, K3. repeat split; reflexivity. Qed.
Lemma vadd_cancel_r a t : veq (vadd (vadd a t) (vneg t)) a.
Proof. unfold veq, vadd, vneg; proj. repeat split; ring. Qed.
Lemma vadd_cancel_l a t : veq (vadd (vadd a (vneg t)) t) a.
Proof. unfold veq, vadd, vneg; proj. repeat split; ring. Qed.

(* an affine and the affine built from its inverse rotation, as the code does *)
Lemma aff_inverse A Mi : inv3 (lin A) = Ok Mi ->
  let B := Aff Mi (vred (vneg (mapply Mi (tr A)))) in
  forall p, veq (aapply B (aapply A p)) p /\ veq (aapply A (aapply B p)) p.
Proof.
  intros H B p. pose proof (inv3_ok _ _ H) as I. subst B. unfold aapply; proj. split.
  - transitivity (vadd (vadd (mapply Mi (mapply (lin A) p)) (mapply Mi (tr A))) (vneg (mapply Mi (tr A)))).
    + apply vadd_proper; [apply mapply_vadd | apply vred_eq].
    + transitivity (vadd (vadd p (mapply Mi (tr A))) (vneg (mapply Mi (tr A)))).
      * apply vadd_proper; [apply vadd_proper; [apply (proj1 (I p)) | reflexivity] | reflexivity].
      * apply vadd_cancel_r.
  - transitivity (vadd (mapply (lin A) (mapply Mi (vadd p (vneg (tr A))))) (tr A)).
    + apply vadd_proper; [|reflexivity]. apply mapply_proper.
      transitivity (vadd (mapply Mi p) (vneg (mapply Mi (tr A)))).
      * apply vadd_proper; [reflexivity | apply vred_eq].
      * symmetry. transitivity (vadd (mapply Mi p) (mapply Mi (vneg (tr A)))).
        -- apply mapply_vadd.
        -- apply vadd_proper; [reflexivity | apply mapply_vneg].
    + transitivity (vadd (vadd p (vneg (tr A))) (tr A)).
      * apply vadd_proper; [apply (proj2 (I _)) | reflexivity].
      * apply vadd_cancel_l.
Qed.

Lemma mapply_mred M p : veq (mapply (mred M) p) (mapply M p).
Proof. unfold veq, mapply, mred, vred, vadd, smul; proj. rewrite !Qred_correct. repeat split; reflexivity. Qed.
Lemma mapply_mmul A B p : veq (mapply (mmul A B) p) (mapply A (mapply B p)).
Proof. unfold veq, mmul, mapply, vadd, smul; proj. repeat split; ring. Qed.
Lemma vadd_assoc a b c : veq (vadd (vadd a b) c) (vadd a (vadd b c)).
Proof. unfold veq, vadd; proj. repeat split; ring. Qed.
Lemma acomp_apply A B p : veq (aapply (acomp A B) p) (aapply A (aapply B p)).
Proof.
  unfold aapply, acomp; proj.
  transitivity (vadd (mapply (lin A) (mapply (lin B) p)) (vadd (mapply (lin A) (tr B)) (tr A))).
  - apply vadd_proper; [|apply vred_eq].
    transitivity (mapply (mmul (lin A) (lin B)) p); [apply mapply_mred | apply mapply_mmul].
  - symmetry. transitivity (vadd (vadd (mapply (lin A) (mapply (lin B) p)) (mapply (lin A) (tr B))) (tr A)).
    + apply vadd_proper; [apply mapply_vadd | reflexivity].
    + apply vadd_assoc.
Qed.

(* ---------- rounding ---------- *)
Lemma rne_integer q z : q == inject_Z z -> rne q = z.
Proof.
  intro H. unfold rne.
  assert (Hf : Qfloor q = z) by (rewrite H; apply Qfloor_Z).
  rewrite Hf.
  assert (Hc : Qcompare (q - inject_Z z) (1 # 2) = Lt).
  { rewrite H. setoid_replace (inject_Z z - inject_Z z) with 0 by ring. reflexivity. }
  rewrite Hc. reflexivity.
Qed.
Lemma qtrunc_integer z : qtrunc (inject_Z z) = z.
Proof. unfold qtrunc. destruct (Qle_bool 0 (inject_Z z)); [apply Qfloor_Z | apply Qceiling_Z]. Qed.
