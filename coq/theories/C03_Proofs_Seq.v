(* C03 - proofs, part 10: histories of requests to ONE image object.
   The answer to a request does not depend on what the object was asked before, and in
   every history the answers agree with each other: a sub-volume is the documented part
   of the volume the same history gets from get_volume() and is placed at the position of
   its first voxel in the geometry the same history gets from get_volume_geometry(). *)
From Coq Require Import String ZArith List Bool Lia ZifyBool QArith.
From HD Require Import Base.Val Base.PySlice C03_Model C03_Proofs C03_Proofs_Geom C03_Proofs_Stack C03_Proofs_Sub
  C03_Model_PM C03_Model_Seq.
Import ListNotations.
Open Scope Z_scope.

(* ---- serving a history --------------------------------------------------------------- *)
Lemma serve_all_spec : forall hist st, serve_all st hist = (st, map (answer_of st) hist).
Proof.
  induction hist as [|r hist IH]; intros st; cbn [serve_all map]; [reflexivity|].
  unfold serve. rewrite IH. reflexivity.
Qed.

(* the object is the same afterwards, and answer k is the answer of an object that was
   never asked anything *)
Lemma history_independent : forall st hist k r,
  nth_error hist k = Some r ->
  fst (serve_all st hist) = st /\
  nth_error (snd (serve_all st hist)) k = Some (answer_of st r) /\
  snd (serve_all st [r]) = [answer_of st r].
Proof.
  intros st hist k r H. rewrite serve_all_spec. cbn [fst snd].
  split; [reflexivity|]. split; [apply map_nth_error; exact H|reflexivity].
Qed.

(* whatever was asked before and whatever is asked afterwards *)
Lemma history_any_context : forall st before r after,
  nth_error (snd (serve_all st (before ++ r :: after))) (length before) = Some (answer_of st r) /\
  length (snd (serve_all st (before ++ r :: after))) = (length before + 1 + length after)%nat.
Proof.
  intros st before r after. rewrite serve_all_spec. cbn [snd]. split.
  - apply map_nth_error. rewrite nth_error_app2 by lia. rewrite Nat.sub_diag. reflexivity.
  - rewrite map_length, app_length. cbn [length]. lia.
Qed.

(* ---- one accepted request against the full volume and the geometry -------------------- *)
Lemma subvolume_full_geometry : forall am st ss se rs re cs ce ai sh A' out,
  1 <= st_rows st -> 1 <= st_cols st ->
  get_volume am st ss se rs re cs ce ai = Ok (sh, A', out) ->
  exists G n0 full s e r0 r1 c0 c1,
    (forall ai', get_volume am st None None None None None None ai'
                 = Ok ((n0, st_rows st, st_cols st), sub_aff (sub_aff G 0 0 0) 0 0 0, full)) /\
    get_volume_geometry am st = Ok (Some (G, (n0, st_rows st, st_cols st))) /\
    std_slice ss se n0 ai = Ok (s, e) /\
    std_rc rs re cs ce (st_rows st) (st_cols st) ai true = Ok (r0, r1, c0, c1) /\
    (0 <= s ->
       sh = (e - s, r1 - r0, c1 - c0) /\
       A' = sub_aff (sub_aff G s 0 0) 0 r0 c0 /\
       out = map (fun p => map (cut c0 (c1 - c0)) (cut r0 (r1 - r0) p)) (cut s (e - s) full)).
Proof.
  intros am st ss se rs re cs ce ai sh A' out Hr Hc HV.
  pose proof (get_volume_inv _ _ _ _ _ _ _ _ _ _ _ _ HV) as
    (G & n0 & idx & r0 & r1 & c0 & c1 & s & e & f0 & z0 & f1 & z1 & f2 & z2 &
     EF & Erc & Esl & S0 & S1 & S2 & Esh & EA & EG).
  pose proof (subvolume_is_slice _ _ _ _ _ _ _ _ _ _ _ _ Hr Hc HV) as
    (G' & n0' & full & s' & e' & r0' & r1' & c0' & c1' & Efull & Esl' & Erc' & Hsl).
  pose proof (stacked_full_n0 _ _ _ _ _ EF) as Hn0.
  rewrite (get_volume_all' am st G n0 idx ai EF Hr Hc Hn0) in Efull.
  injection Efull as En EG' Ef. subst n0' full.
  rewrite Esl in Esl'. injection Esl' as Es Ee. subst s' e'.
  rewrite Erc in Erc'. injection Erc' as E1 E2 E3 E4. subst r0' r1' c0' c1'.
  eexists G, n0, _, s, e, r0, r1, c0, c1.
  split.
  { intros ai'. exact (get_volume_all' am st G n0 idx ai' EF Hr Hc Hn0). }
  split; [exact EG|]. split; [exact Esl|]. split; [exact Erc|].
  intros Hs. destruct (Hsl Hs) as (Hsh & L1 & L2 & Hout).
  destruct (std_slice_ok_bounds _ _ _ _ _ _ Hn0 Esl) as (Hse & _).
  destruct (std_rc_bounds _ _ _ _ _ _ _ _ _ _ _ Hr Hc Erc) as (B1 & B2 & B3 & B4).
  apply slice_first_size_inv in S0 as (-> & _ & _); [|lia|lia].
  apply slice_first_size_inv in S1 as (-> & _ & _); [|lia|lia].
  apply slice_first_size_inv in S2 as (-> & _ & _); [|lia|lia].
  split; [exact Hsh|]. split; [exact EA|exact Hout].
Qed.

(* ---- the answers of one history agree with each other -------------------------------- *)
Theorem history_consistent : forall st hist i am ss se rs re cs ce ai sh A' out,
  1 <= st_rows st -> 1 <= st_cols st ->
  nth_error hist i = Some (ReqVol am ss se rs re cs ce ai) ->
  nth_error (snd (serve_all st hist)) i = Some (AnsVol (Ok (sh, A', out))) ->
  exists G n0 full s e r0 r1 c0 c1,
    (forall j ai', nth_error hist j = Some (ReqVol am None None None None None None ai') ->
       nth_error (snd (serve_all st hist)) j
       = Some (AnsVol (Ok ((n0, st_rows st, st_cols st), sub_aff (sub_aff G 0 0 0) 0 0 0, full)))) /\
    (forall l, nth_error hist l = Some (ReqGeom am) ->
       nth_error (snd (serve_all st hist)) l
       = Some (AnsGeom (Ok (Some (G, (n0, st_rows st, st_cols st)))))) /\
    std_slice ss se n0 ai = Ok (s, e) /\
    std_rc rs re cs ce (st_rows st) (st_cols st) ai true = Ok (r0, r1, c0, c1) /\
    (0 <= s ->
       sh = (e - s, r1 - r0, c1 - c0) /\
       A' = sub_aff (sub_aff G s 0 0) 0 r0 c0 /\
       out = map (fun p => map (cut c0 (c1 - c0)) (cut r0 (r1 - r0) p)) (cut s (e - s) full)).
Proof.
  intros st hist i am ss se rs re cs ce ai sh A' out Hr Hc Hreq Hans.
  destruct (history_independent st hist i _ Hreq) as (_ & Hi & _).
  rewrite Hi in Hans. cbn [answer_of] in Hans. injection Hans as HV.
  destruct (subvolume_full_geometry _ _ _ _ _ _ _ _ _ _ _ _ Hr Hc HV) as
    (G & n0 & full & s & e & r0 & r1 & c0 & c1 & Hfull & Hgeo & Hsl & Hrc & Hsub).
  exists G, n0, full, s, e, r0, r1, c0, c1.
  split.
  { intros j ai' Hj. destruct (history_independent st hist j _ Hj) as (_ & Hj' & _).
    rewrite Hj'. cbn [answer_of]. rewrite Hfull. reflexivity. }
  split.
  { intros l Hl. destruct (history_independent st hist l _ Hl) as (_ & Hl' & _).
    rewrite Hl'. cbn [answer_of]. rewrite Hgeo. reflexivity. }
  split; [exact Hsl|]. split; [exact Hrc|exact Hsub].
Qed.
