(* C11 - dups_and_gaps, acceptance direction: a stack with missing slices (ranks a subset of 0..K containing
   0 and K), passed in ANY order, with declared duplicates, is accepted under allow_missing_positions with
   spacing s and, for every plane, its rank - when the spacing is given by a hint equal to s, or inferred as
   the smallest consecutive spacing (two planes of adjacent ranks present, s above the equality tolerance). *)
From Coq Require Import String ZArith List Bool QArith Qround Lia Lqa Permutation Sorted.
From HD Require Import Base.Val C11_Model C11_Proofs C11_Proofs_Stack C11_Proofs_Sort C11_Proofs_Mono
  C11_Proofs_Rank C11_Proofs_Top C11_Proofs_Perm C11_Proofs_Hint.
Import ListNotations.
Open Scope Q_scope.

(* ---------- min_list ------------------------------------------------------------------------- *)
Lemma fold_min_spec l : forall x,
  (fold_left Qmin_ l x = x \/ In (fold_left Qmin_ l x) l) /\ fold_left Qmin_ l x <= x /\
  Forall (fun y => fold_left Qmin_ l x <= y) l.
Proof.
  induction l as [|y l IH]; intro x; cbn [fold_left].
  - split; [now left|]. split; [lra|constructor].
  - destruct (IH (Qmin_ x y)) as [I [Le F]]. unfold Qmin_ in *. destruct (Qle_bool x y) eqn:E.
    + apply Qle_bool_iff in E. split; [destruct I as [I|I]; [now left|right; now right]|].
      split; [exact Le|]. constructor; [lra|exact F].
    + assert (N : ~ x <= y) by (intro H; apply Qle_bool_iff in H; congruence).
      split; [destruct I as [I|I]; [right; left; now symmetry|right; now right]|].
      split; [lra|]. constructor; [exact Le|exact F].
Qed.
Lemma min_list_spec l : l <> [] -> In (min_list l) l /\ Forall (fun y => min_list l <= y) l.
Proof.
  destruct l as [|x l]; [congruence|]. intros _. unfold min_list.
  destruct (fold_min_spec l x) as [I [Le F]]. split.
  - destruct I as [I|I]; [left; now symmetry|now right].
  - constructor; assumption.
Qed.

(* ---------- rounding an integer ------------------------------------------------------------------- *)
Lemma rne_int q k : q == inject_Z k -> rne q = k.
Proof.
  intro E. unfold rne.
  assert (F : Qfloor q = k) by (rewrite E; apply Qfloor_Z). rewrite F.
  replace (Qlt_b (q - inject_Z k) (1 # 2)) with true; [reflexivity|]. symmetry. apply Qlt_b_true. lra.
Qed.

(* ---------- sorted lists: first is least, last is greatest ------------------------------------------- *)
Lemma ssorted_hd_le l : StronglySorted Qle l -> Forall (fun x => hd 0 l <= x) l.
Proof. destruct 1 as [|x l S F]; [constructor|]. cbn [hd]. constructor; [lra|exact F]. Qed.
Lemma ssorted_le_last l : StronglySorted Qle l -> Forall (fun x => x <= last l 0) l.
Proof.
  induction 1 as [|x l S IH F]; [constructor|]. destruct l as [|y l]; [constructor; [cbn; lra|constructor]|].
  change (last (x :: y :: l) 0) with (last (y :: l) 0). constructor; [|exact IH].
  inversion F as [|? ? Fxy _]; subst. inversion IH as [|? ? Hy _]; subst. lra.
Qed.
Lemma hd_map {A B} (f : A -> B) l d d' : l <> [] -> hd d' (map f l) = f (hd d l).
Proof. destruct l; [congruence|reflexivity]. Qed.
Lemma last_map' {A B} (f : A -> B) l d d' : l <> [] -> last (map f l) d' = f (last l d).
Proof.
  induction l as [|x l IH]; [congruence|]. intros _. destruct l as [|y l]; [reflexivity|].
  change (last (map f (x :: y :: l)) d') with (last (map f (y :: l)) d').
  change (last (x :: y :: l) d) with (last (y :: l) d). apply IH. discriminate.
Qed.
Lemma hd_In {A} (l : list A) d : l <> [] -> In (hd d l) l.
Proof. destruct l; [congruence|now left]. Qed.
Lemma last_In {A} (l : list A) d : l <> [] -> In (last l d) l.
Proof.
  induction l as [|x l IH]; [congruence|]. intros _. destruct l as [|y l]; [now left|].
  right. apply IH. discriminate.
Qed.

(* ---------- consecutive differences of strictly increasing naturals -------------------------------- *)
Fixpoint zdiffs (l : list Z) : list Z :=
  match l with
  | a :: (b :: _) as t => (b - a)%Z :: zdiffs t
  | _ => []
  end.
Lemma zdiffs_ge1 l : StronglySorted le l -> NoDup l -> Forall (fun z => (1 <= z)%Z) (zdiffs (map Z.of_nat l)).
Proof.
  induction 1 as [|x l S IH F]; intro N; [constructor|]. inversion N as [|? ? Nx Nl]; subst.
  destruct l as [|y l]; [constructor|]. cbn [map zdiffs]. constructor; [|exact (IH Nl)].
  inversion F as [|? ? Hxy _]; subst. assert (x <> y) by (intro; subst; apply Nx; now left). lia.
Qed.
Lemma zdiffs_adjacent l k : StronglySorted le l -> NoDup l -> In k l -> In (S k) l ->
  In 1%Z (zdiffs (map Z.of_nat l)).
Proof.
  induction 1 as [|x l S IH F]; intros N Ik ISk; [contradiction|]. inversion N as [|? ? Nx Nl]; subst.
  rewrite Forall_forall in F.
  destruct l as [|y l].
  - destruct Ik as [<-|[]]. destruct ISk as [E|[]]. lia.
  - cbn [map zdiffs]. destruct Ik as [<-|Ik].
    + destruct ISk as [E|ISk]; [lia|]. left.
      assert (x <= y)%nat by (apply F; now left). assert (x <> y) by (intro; subst; apply Nx; now left).
      inversion S as [|? ? _ Fy]; subst. rewrite Forall_forall in Fy.
      destruct ISk as [E|ISk]; [lia|]. specialize (Fy _ ISk). lia.
    + destruct ISk as [E|ISk]; [specialize (F _ Ik); lia|]. right. exact (IH Nl Ik ISk).
Qed.

Lemma Forall2_In_l {A B} (R : A -> B -> Prop) l l' x : Forall2 R l l' -> In x l -> exists y, In y l' /\ R x y.
Proof.
  induction 1 as [|a b l l' H F IH]; [contradiction|]. intros [<-|I].
  - exists b. split; [now left|exact H].
  - destruct (IH I) as [y [Iy Ry]]. exists y. split; [now right|exact Ry].
Qed.
Lemma Forall2_In_r {A B} (R : A -> B -> Prop) l l' y : Forall2 R l l' -> In y l' -> exists x, In x l /\ R x y.
Proof.
  induction 1 as [|a b l l' H F IH]; [contradiction|]. intros [<-|I].
  - exists a. split; [now left|exact H].
  - destruct (IH I) as [x [Ix Rx]]. exists x. split; [now right|exact Rx].
Qed.

Section Kappa.
  Variables (a s : Q) (kappa : Q * nat -> nat).
  Lemma diffs_kappa : forall l,
    Forall (fun p => fst p == a + inject_Z (Z.of_nat (kappa p)) * s) l ->
    Forall2 (fun d z => d == inject_Z z * s) (diffs (map fst l)) (zdiffs (map Z.of_nat (map kappa l))).
  Proof.
    induction l as [|x l IH]; intro F; [constructor|]. inversion F as [|? ? Fx Fl]; subst.
    destruct l as [|y l]; [constructor|]. cbn [map diffs zdiffs]. constructor; [|exact (IH Fl)].
    inversion Fl as [|? ? Fy _]; subst. rewrite Fx, Fy. unfold Z.sub. rewrite inject_Z_plus, inject_Z_opp. ring.
  Qed.
End Kappa.

(* ---------- the unfolded allow_missing branch -------------------------------------------------------- *)
Definition spacing_choice (ds : list Q) (hint : option Q) : option Q :=
  match hint with
  | Some h => Some h
  | None => let s0 := min_list (diffs (map (nthQ ds) (argsort ds))) in
            if Qle_bool (Qabs_ s0) eq_tol then None else Some s0
  end.
Lemma gvp_core_missing uniq uidx nv rtol atol enforce hint :
  gvp_core uniq uidx nv rtol atol true true enforce hint =
  let ds := map (dot nv) uniq in
  match spacing_choice ds hint with
  | None => Ok None
  | Some spacing =>
      let mults := map (fun d => (d - min_list ds) / spacing) ds in
      let reg := forallb (fun x => isclose rtol atol x (inject_Z (rne x))) mults in
      let span := vsub (nthV uniq (last (argsort ds) 0%nat)) (nthV uniq (hd 0%nat (argsort ds))) in
      if reg && enforce && Qlt_b spacing 0 then Ok None
      else if reg && is_perp nv span
           then Ok (Some (Qabs_ spacing, map (fun u => nth u (map rne mults) 0%Z) uidx))
           else Ok None
  end.
Proof. unfold gvp_core, spacing_choice. destruct hint; reflexivity. Qed.

Section Gaps.
  Variables (nv : vec3) (a s : Q) (r : vec3 -> nat) (L : list vec3) (K : nat).
  Hypothesis S : 0 < s.
  Hypothesis H1 : forall p, In p L -> dot nv p == a + inject_Z (Z.of_nat (r p)) * s.
  Hypothesis H3 : forall p q, In p L -> In q L -> r p = r q -> veqb p q = true.
  Hypothesis H0 : exists p, In p L /\ r p = 0%nat.
  Hypothesis HK : exists p, In p L /\ r p = K.
  Hypothesis Hle : forall p, In p L -> (r p <= K)%nat.
  Hypothesis Perp : forall p0 p1, In p0 L -> In p1 L -> r p0 = 0%nat -> r p1 = K -> is_perp nv (vsub p1 p0) = true.

  Let uq := lexuniq L.
  Let ds := map (dot nv) uq.

  Lemma uq_has p : In p L -> exists q, In q uq /\ r q = r p.
  Proof.
    intro Ip. assert (Ir : In (r p) (map r uq)).
    { eapply Permutation_in; [symmetry; apply Permutation_map, isort_perm|].
      apply (ranks_kept nv a s r L S H1); [apply incl_refl|exact Ip]. }
    apply in_map_iff in Ir. destruct Ir as [q [E I]]. now exists q.
  Qed.
  Lemma uq_dot p : In p uq -> dot nv p == a + inject_Z (Z.of_nat (r p)) * s.
  Proof. intro I. apply H1. now apply In_lexuniq. Qed.
  Lemma uq_nonempty : uq <> [].
  Proof. destruct H0 as [p [Ip _]]. destruct (uq_has p Ip) as [q [Iq _]]. intro E. rewrite E in Iq. contradiction. Qed.
  Lemma ds_nonempty : ds <> [].
  Proof. unfold ds. intro E. apply map_eq_nil in E. now apply uq_nonempty. Qed.
  Lemma inject_nat_mono (x y : nat) : (x <= y)%nat -> inject_Z (Z.of_nat x) * s <= inject_Z (Z.of_nat y) * s.
  Proof.
    intro H. assert (Z : (Z.of_nat x <= Z.of_nat y)%Z) by lia. rewrite Zle_Qle in Z. nra.
  Qed.

  Lemma dmin_is_a : min_list ds == a.
  Proof.
    destruct (min_list_spec ds ds_nonempty) as [I F].
    apply Qle_antisym.
    - destruct H0 as [p [Ip E0]]. destruct (uq_has p Ip) as [q [Iq Eq]].
      rewrite Forall_forall in F. assert (Hq : min_list ds <= dot nv q) by (apply F; unfold ds; now apply in_map).
      rewrite (uq_dot q Iq), Eq, E0 in Hq. change (inject_Z (Z.of_nat 0)) with 0 in Hq. lra.
    - unfold ds in I at 2. apply in_map_iff in I. destruct I as [q [E Iq]]. rewrite <- E, (uq_dot q Iq).
      pose proof (inject_nat_mono 0 (r q) (Nat.le_0_l _)) as M. change (inject_Z (Z.of_nat 0)) with 0 in M. lra.
  Qed.

  (* the planes at the two ends of the sorted order have rank 0 and rank K *)
  Let sidx := argsort ds.
  Lemma sidx_nonempty : sidx <> [].
  Proof.
    intro E. pose proof (Permutation_length (argsort_perm ds)) as P. fold sidx in P. rewrite E, seq_length in P.
    apply ds_nonempty. now apply length_zero_iff_nil.
  Qed.
  Lemma sidx_lt j : In j sidx -> (j < length uq)%nat.
  Proof.
    intro I. apply (Permutation_in _ (argsort_perm ds)) in I. apply in_seq in I.
    unfold ds in I. rewrite map_length in I. lia.
  Qed.
  Lemma sds_ssorted : StronglySorted Qle (map (nthQ ds) sidx).
  Proof. apply Sorted_StronglySorted; [exact Qle_trans|apply argsort_sorted]. Qed.

  Lemma end_ranks :
    let p0 := nthV uq (hd 0%nat sidx) in let p1 := nthV uq (last sidx 0%nat) in
    In p0 L /\ In p1 L /\ r p0 = 0%nat /\ r p1 = K.
  Proof.
    cbv zeta.
    assert (L0 : (hd 0%nat sidx < length uq)%nat) by (apply sidx_lt, hd_In, sidx_nonempty).
    assert (L1 : (last sidx 0%nat < length uq)%nat) by (apply sidx_lt, last_In, sidx_nonempty).
    assert (I0 : In (nthV uq (hd 0%nat sidx)) uq) by (now apply nthV_In).
    assert (I1 : In (nthV uq (last sidx 0%nat)) uq) by (now apply nthV_In).
    split; [now apply In_lexuniq|]. split; [now apply In_lexuniq|].
    pose proof (ssorted_hd_le _ sds_ssorted) as Fh. pose proof (ssorted_le_last _ sds_ssorted) as Fl.
    rewrite (hd_map (nthQ ds) sidx 0%nat 0 sidx_nonempty) in Fh.
    rewrite (last_map' (nthQ ds) sidx 0%nat 0 sidx_nonempty) in Fl.
    unfold ds in Fh at 1. unfold ds in Fl at 1. rewrite nthQ_map_dot' in Fh, Fl by assumption.
    assert (Fh' : Forall (fun x => dot nv (nthV uq (hd 0%nat sidx)) <= x) ds)
      by (eapply Permutation_Forall; [apply sorted_dists_perm|exact Fh]).
    assert (Fl' : Forall (fun x => x <= dot nv (nthV uq (last sidx 0%nat))) ds)
      by (eapply Permutation_Forall; [apply sorted_dists_perm|exact Fl]).
    rewrite Forall_forall in Fh', Fl'. split.
    - destruct H0 as [p [Ip E0]]. destruct (uq_has p Ip) as [q [Iq Eq]].
      assert (Hq : dot nv (nthV uq (hd 0%nat sidx)) <= dot nv q) by (apply Fh'; unfold ds; now apply in_map).
      rewrite (uq_dot _ I0), (uq_dot q Iq), Eq, E0 in Hq.
      apply Nat.le_antisymm; [|apply Nat.le_0_l]. apply (inject_nat_le _ _ a s S). exact Hq.
    - destruct HK as [p [Ip EK]]. destruct (uq_has p Ip) as [q [Iq Eq]].
      assert (Hq : dot nv q <= dot nv (nthV uq (last sidx 0%nat))) by (apply Fl'; unfold ds; now apply in_map).
      rewrite (uq_dot _ I1), (uq_dot q Iq), Eq, EK in Hq.
      apply Nat.le_antisymm; [apply Hle; now apply In_lexuniq|]. apply (inject_nat_le _ _ a s S). exact Hq.
  Qed.

  Lemma gaps_core : forall rtol atol enforce hint spacing,
    0 <= rtol -> 0 <= atol -> spacing == s -> spacing_choice ds hint = Some spacing ->
    gvp_core uq (map (fun p => index_of p uq) L) nv rtol atol true true enforce hint =
      Ok (Some (Qabs_ spacing, map (fun p => Z.of_nat (r p)) L)).
  Proof.
    intros rtol atol enforce hint spacing Hr Ha Esp Hsp.
    rewrite gvp_core_missing. cbv zeta. fold ds. rewrite Hsp. fold sidx.
    assert (Mult : forall q, In q uq -> (dot nv q - min_list ds) / spacing == inject_Z (Z.of_nat (r q))).
    { intros q Iq. rewrite (uq_dot q Iq), dmin_is_a, Esp. field. lra. }
    assert (Rnd : map rne (map (fun d => (d - min_list ds) / spacing) ds) = map (fun q => Z.of_nat (r q)) uq).
    { unfold ds. rewrite !map_map. apply map_ext_in. intros q Iq. apply rne_int. now apply Mult. }
    assert (Reg : forallb (fun x => isclose rtol atol x (inject_Z (rne x)))
                    (map (fun d => (d - min_list ds) / spacing) ds) = true).
    { apply forallb_forall. intros x Hx. unfold ds in Hx at 2. rewrite map_map in Hx. apply in_map_iff in Hx.
      destruct Hx as [q [<- Iq]]. apply isclose_eq; try assumption.
      rewrite (rne_int _ _ (Mult q Iq)). now apply Mult. }
    rewrite Reg, Rnd. cbn [andb].
    replace (Qlt_b spacing 0) with false by (symmetry; apply Qlt_b_false; lra). rewrite andb_false_r.
    destruct end_ranks as [I0 [I1 [R0 R1]]]. rewrite (Perp _ _ I0 I1 R0 R1).
    do 3 f_equal. rewrite map_map. apply map_ext_in. intros p Ip.
    destruct (index_rank nv a s r L S H1 H3 p Ip) as [Hl Hrk]. fold uq in Hl, Hrk.
    rewrite (nth_indep _ 0%Z (Z.of_nat (r (V3 0 0 0)))) by (now rewrite map_length).
    rewrite (map_nth (fun q => Z.of_nat (r q))). fold (nthV uq (index_of p uq)). now rewrite Hrk.
  Qed.

  (* the smallest consecutive spacing of the sorted distances is s when two adjacent ranks are present *)
  Hypothesis Hadj : exists p q, In p L /\ In q L /\ r q = Datatypes.S (r p).

  Lemma min_spacing_is_s : min_list (diffs (map (nthQ ds) (argsort ds))) == s.
  Proof.
    set (ranks := map r uq).
    assert (Len : length ranks = length ds) by (unfold ranks, ds; now rewrite !map_length).
    assert (Hd : forall j, (j < length ds)%nat -> nthQ ds j == a + inject_Z (Z.of_nat (nth j ranks 0%nat)) * s).
    { intros j Hj. unfold ds in Hj. rewrite map_length in Hj. unfold ds, ranks.
      rewrite nthQ_map_dot' by exact Hj. unfold uq. rewrite (nth_ranks r L j Hj). apply uq_dot. now apply nthV_In. }
    set (kappa := fun p : Q * nat => nth (snd p) ranks 0%nat).
    set (Srt := isort key_leb (tag ds)).
    pose proof (srt_forall a s ranks ds Hd) as SF. fold Srt in SF.
    pose proof (sorted_kappa a s ranks S Srt (isort_sorted (tag ds)) SF) as SK. fold kappa in SK.
    assert (PK : Permutation (map kappa Srt) ranks).
    { rewrite <- (kappa_tag ranks ds Len). apply Permutation_map, isort_perm. }
    assert (ND : NoDup (map kappa Srt)).
    { eapply Permutation_NoDup; [symmetry; exact PK|]. unfold ranks, uq, lexuniq.
      eapply Permutation_NoDup; [symmetry; apply Permutation_map, isort_perm|]. apply (nodup_ranks r L H3), incl_refl. }
    assert (SS : StronglySorted le (map kappa Srt)).
    { apply Sorted_StronglySorted; [intros x y z; lia|exact SK]. }
    rewrite sorted_dists_eq. fold Srt.
    pose proof (diffs_kappa a s kappa Srt SF) as F2.
    pose proof (zdiffs_ge1 _ SS ND) as G1. rewrite Forall_forall in G1.
    assert (NE : diffs (map fst Srt) <> []).
    { destruct Hadj as [p [q [Ip [Iq E]]]]. destruct (uq_has p Ip) as [p' [Ip' Ep]]. destruct (uq_has q Iq) as [q' [Iq' Eq]].
      assert (A1 : In 1%Z (zdiffs (map Z.of_nat (map kappa Srt)))).
      { apply (zdiffs_adjacent _ (r p) SS ND); (eapply Permutation_in; [symmetry; exact PK|]); unfold ranks.
        - rewrite <- Ep. now apply in_map.
        - rewrite <- E, <- Eq. now apply in_map. }
      destruct (Forall2_In_r _ _ _ _ F2 A1) as [d [Id _]]. intro N. rewrite N in Id. contradiction. }
    destruct (min_list_spec _ NE) as [I F]. rewrite Forall_forall in F.
    apply Qle_antisym.
    - destruct Hadj as [p [q [Ip [Iq E]]]]. destruct (uq_has p Ip) as [p' [Ip' Ep]]. destruct (uq_has q Iq) as [q' [Iq' Eq]].
      assert (A1 : In 1%Z (zdiffs (map Z.of_nat (map kappa Srt)))).
      { apply (zdiffs_adjacent _ (r p) SS ND); (eapply Permutation_in; [symmetry; exact PK|]); unfold ranks.
        - rewrite <- Ep. now apply in_map.
        - rewrite <- E, <- Eq. now apply in_map. }
      destruct (Forall2_In_r _ _ _ _ F2 A1) as [d [Id Rd]]. specialize (F d Id).
      change (inject_Z 1) with 1 in Rd. lra.
    - destruct (Forall2_In_l _ _ _ _ F2 I) as [z [Iz Rz]]. specialize (G1 z Iz).
      rewrite Zle_Qle in G1. change (inject_Z 1) with 1 in G1. rewrite Rz. nra.
  Qed.

  Lemma gaps_core_inferred : forall rtol atol enforce,
    0 <= rtol -> 0 <= atol -> eq_tol < s ->
    exists sp, sp == s /\
      gvp_core uq (map (fun p => index_of p uq) L) nv rtol atol true true enforce None =
        Ok (Some (sp, map (fun p => Z.of_nat (r p)) L)).
  Proof.
    intros rtol atol enforce Hr Ha Tol.
    pose proof min_spacing_is_s as Em. set (s0 := min_list (diffs (map (nthQ ds) (argsort ds)))) in *.
    exists (Qabs_ s0). split; [rewrite (Qabs_compat _ _ Em); apply Qabs_pos; lra|].
    apply gaps_core; try assumption. unfold spacing_choice. fold s0. cbv zeta.
    replace (Qle_bool (Qabs_ s0) eq_tol) with false; [reflexivity|]. symmetry.
    destruct (Qle_bool (Qabs_ s0) eq_tol) eqn:E; [|reflexivity]. apply Qle_bool_iff in E.
    rewrite (Qabs_compat _ _ Em), (Qabs_pos s) in E by lra. lra.
  Qed.
End Gaps.

(* ---------- top level ------------------------------------------------------------------------------- *)
(* a stack with gaps: ranks in 0..K with 0 and K present (not necessarily all), otherwise as regular_stack *)
Definition gapped_stack (nv : vec3) (a s : Q) (r : vec3 -> nat) (K : nat) (L : list vec3) : Prop :=
  0 < s /\ (1 <= K)%nat /\
  (forall p, In p L -> dot nv p == a + inject_Z (Z.of_nat (r p)) * s) /\
  (forall p q, In p L -> In q L -> r p = r q -> veqb p q = true) /\
  (exists p, In p L /\ r p = 0%nat) /\ (exists p, In p L /\ r p = K) /\
  (forall p, In p L -> (r p <= K)%nat) /\
  (forall p0 p1, In p0 L -> In p1 L -> r p0 = 0%nat -> r p1 = K -> is_perp nv (vsub p1 p0) = true).

(* how the spacing is determined: by a hint equal to s, or inferred from two planes of adjacent ranks *)
Definition spacing_known (s : Q) (r : vec3 -> nat) (L : list vec3) (hint : option Q) : Prop :=
  match hint with
  | Some h => h == s
  | None => eq_tol < s /\ exists p q, In p L /\ In q L /\ r q = Datatypes.S (r p)
  end.

Lemma lexuniq_length_le l : (length (lexuniq l) <= length l)%nat.
Proof.
  unfold lexuniq. rewrite isort_length. induction l as [|x l IH]; [apply le_n|].
  cbn [vnodup]. destruct (vmem x l); cbn [length]; lia.
Qed.

Lemma gaps_accepted : forall ps rowc colc o nv rtol atol a s r K hint,
  o_sort o = true -> o_missing o = true -> norm_hint (o_hint o) = Ok hint ->
  tolerances (o_rtol o) (o_atol o) = Ok (rtol, atol) -> 0 <= rtol -> 0 <= atol ->
  normal_vector rowc colc (o_c0 o) (o_c1 o) (o_rh o) = Ok nv ->
  gapped_stack nv a s r K (map vred ps) ->
  spacing_known s r (map vred ps) hint ->
  (o_dups o = true \/ length (lexuniq (map vred ps)) = length ps) ->
  exists sp, sp == s /\
    get_volume_positions ps rowc colc o = Ok (Some (sp, map (fun p => Z.of_nat (r p)) (map vred ps))).
Proof.
  intros ps rowc colc o nv rtol atol a s r K hint Hs Hm Hh T Hr Ha N
         [S [K1 [H1 [H3 [H0 [HK [Hle Hp]]]]]]] Hk D.
  set (L := map vred ps) in *.
  (* at least two distinct planes *)
  destruct H0 as [p0 [I0 E0]]. destruct HK as [pK [IK EK]].
  destruct (uq_has nv a s r L S H1 p0 I0) as [q0 [Iq0 Eq0]].
  destruct (uq_has nv a s r L S H1 pK IK) as [qK [IqK EqK]].
  assert (U2 : (2 <= length (lexuniq L))%nat).
  { destruct (lexuniq L) as [|x [|y l]] eqn:EU; [contradiction| |cbn; lia].
    destruct Iq0 as [<-|[]]. destruct IqK as [<-|[]]. lia. }
  assert (L2 : (2 <= length ps)%nat).
  { pose proof (lexuniq_length_le L) as LE. unfold L in LE at 2. rewrite map_length in LE. lia. }
  assert (C : exists sp, sp == s /\
      gvp_core (lexuniq L) (map (fun p => index_of p (lexuniq L)) L) nv rtol atol true true (o_enforce o) hint =
        Ok (Some (sp, map (fun p => Z.of_nat (r p)) L))).
  { destruct hint as [h|]; cbn [spacing_known] in Hk.
    - exists (Qabs_ h). split; [rewrite (Qabs_compat _ _ Hk); apply Qabs_pos; lra|].
      apply (gaps_core nv a s r L K S H1 H3); try assumption; eauto.
    - destruct Hk as [Tol Adj]. apply (gaps_core_inferred nv a s r L K S H1 H3); try assumption; eauto. }
  destruct C as [sp [Esp C]]. exists sp. split; [exact Esp|].
  rewrite (gvp_long ps) by exact L2. unfold gvp_head. rewrite Hs, Hh, T, N. cbn [negb andb].
  unfold gvp_body. fold L. rewrite Hs, Hm.
  replace (negb (o_dups o) && (length (lexuniq L) <? length ps)%nat) with false.
  2:{ destruct D as [D|D]; [now rewrite D|]. rewrite D, Nat.ltb_irrefl. now rewrite andb_false_r. }
  replace (length (lexuniq L) =? 1)%nat with false by (symmetry; apply Nat.eqb_neq; lia).
  exact C.
Qed.
