(* C04 - the order in which the selected frames are pasted is irrelevant (the
   ORDER BY of the region query "is not logically necessary"): for frames at
   distinct grid positions every permutation of the frame list gives the same
   region; and the model's ORDER BY does sort by (row position, column position). *)
From Coq Require Import String ZArith List Bool Lia ZifyBool Arith Permutation Sorted.
From HD Require Import Base.Val Base.ListZ C12_Model C12_Proofs C04_Model C04_Proofs C04_Proofs_Arr.
Import ListNotations.
Ltac Zify.zify_post_hook ::= Z.to_euclidean_division_equations.
Open Scope Z_scope.

(* the loop over an arbitrary frame order *)
Definition region_in_order (l : list tile) (s e cs ce th tw : Z) : list (list Z) :=
  map (fun i => map (fun j => out_cell l s e cs ce th tw i j) (zrange (ce - cs))) (zrange (e - s)).

Lemma read_region_in_order : forall ts s e cs ce th tw,
  read_region ts s e cs ce th tw = region_in_order (sort_tiles ts) s e cs ce th tw.
Proof. reflexivity. Qed.

Lemma positions_unique_perm : forall l l', Permutation l l' -> positions_unique l -> positions_unique l'.
Proof.
  intros l l' Hp Hu t t' Ht Ht'. apply Hu; eapply Permutation_in; try apply Permutation_sym; eassumption.
Qed.

Lemma out_cell_perm : forall l l' s e cs ce th tw i j, 1 <= th -> 1 <= tw ->
  Permutation l l' -> (forall t, In t l -> on_grid th tw t) -> positions_unique l ->
  1 <= s -> 1 <= cs -> 0 <= i < e - s -> 0 <= j < ce - cs ->
  out_cell l s e cs ce th tw i j = out_cell l' s e cs ce th tw i j.
Proof.
  intros l l' s e cs ce th tw i j Hh Hw Hp Hg Hu Hs Hcs Hi Hj.
  assert (Hg' : forall t, In t l' -> on_grid th tw t).
  { intros t Ht. apply Hg. eapply Permutation_in; [apply Permutation_sym; exact Hp|exact Ht]. }
  pose proof (positions_unique_perm l l' Hp Hu) as Hu'.
  destruct (out_cell_spec l s e cs ce th tw i j Hh Hw Hg Hu Hs Hcs Hi Hj) as [(t & Ht & Hpos & E)|[Hno E]];
  destruct (out_cell_spec l' s e cs ce th tw i j Hh Hw Hg' Hu' Hs Hcs Hi Hj) as [(t' & Ht' & Hpos' & E')|[Hno' E']];
  rewrite E, E'.
  - assert (t = t'); [|now subst].
    destruct Hpos as [P1 P2]. destruct Hpos' as [Q1 Q2].
    apply Hu; [exact Ht|eapply Permutation_in; [apply Permutation_sym; exact Hp|exact Ht']| |]; congruence.
  - exfalso. apply (Hno' t); [eapply Permutation_in; eassumption|exact Hpos].
  - exfalso. apply (Hno t'); [eapply Permutation_in; [apply Permutation_sym; exact Hp|exact Ht']|exact Hpos'].
  - reflexivity.
Qed.

(* ORDER-IRRELEVANCE: whatever order the database returns the selected frames in *)
Theorem region_order_irrelevant : forall ts l s e cs ce th tw, 1 <= th -> 1 <= tw ->
  Permutation ts l -> (forall t, In t ts -> on_grid th tw t) -> unique_positions ts = true ->
  1 <= s -> 1 <= cs ->
  region_in_order l s e cs ce th tw = read_region ts s e cs ce th tw.
Proof.
  intros ts l s e cs ce th tw Hh Hw Hp Hg Hu Hs Hcs. unfold read_region, region_in_order.
  apply map_ext_in. intros i Hi. apply map_ext_in. intros j Hj.
  apply in_zrange in Hi. apply in_zrange in Hj.
  symmetry. apply out_cell_perm; auto.
  - eapply perm_trans; [apply Permutation_sym, sort_perm|exact Hp].
  - intros t Ht. apply Hg. now apply in_sort.
  - apply (positions_unique_perm ts); [apply sort_perm|now apply unique_positions_sound].
Qed.

(* the stored frame order does not matter either *)
Corollary read_region_perm : forall ts ts' s e cs ce th tw, 1 <= th -> 1 <= tw ->
  Permutation ts ts' -> (forall t, In t ts -> on_grid th tw t) -> unique_positions ts = true ->
  1 <= s -> 1 <= cs ->
  read_region ts' s e cs ce th tw = read_region ts s e cs ce th tw.
Proof.
  intros ts ts' s e cs ce th tw Hh Hw Hp Hg Hu Hs Hcs. rewrite (read_region_in_order ts').
  apply region_order_irrelevant; auto. eapply perm_trans; [exact Hp|apply sort_perm].
Qed.

(* ---- ORDER BY RowPosition, ColumnPosition ----------------------------------------------- *)
Definition tile_le (a b : tile) : Prop := tile_leb a b = true.

Lemma tile_leb_total : forall a b, tile_leb a b = false -> tile_leb b a = true.
Proof. intros a b. unfold tile_leb. lia. Qed.

Lemma tile_leb_trans : forall a b c, tile_leb a b = true -> tile_leb b c = true -> tile_leb a c = true.
Proof. intros a b c. unfold tile_leb. lia. Qed.

Lemma insert_sorted : forall t l, StronglySorted tile_le l -> StronglySorted tile_le (insert_tile t l).
Proof.
  intros t l Hs. induction Hs as [|x r Hr IH Hall]; cbn [insert_tile].
  - constructor; constructor.
  - destruct (tile_leb t x) eqn:E.
    + constructor; [now constructor|]. constructor; [exact E|].
      eapply Forall_impl; [|exact Hall]. intros y Hy. unfold tile_le in *. now apply (tile_leb_trans t x y).
    + constructor; [exact IH|].
      assert (Hin : forall y, In y (insert_tile t r) -> tile_le x y).
      { intros y Hy. apply (Permutation_in _ (Permutation_sym (insert_perm t r))) in Hy.
        destruct Hy as [<-|Hy]; [now apply tile_leb_total|].
        rewrite Forall_forall in Hall. now apply Hall. }
      now apply Forall_forall.
Qed.

Theorem sort_tiles_sorted : forall l, StronglySorted tile_le (sort_tiles l).
Proof. induction l as [|a l IH]; cbn; [constructor|now apply insert_sorted]. Qed.

(* ---- the array loop over ANY order of the selected frames ---------------------------------- *)
Lemma out_cell_filter : forall l s e cs ce th tw i j,
  out_cell (filter (tile_selected s e cs ce th tw) l) s e cs ce th tw i j = out_cell l s e cs ce th tw i j.
Proof. intros. unfold out_cell. apply fold_filter_selected. Qed.

(* whatever order the database returns the rows of the WHERE clause in, np.zeros +
   the slice assignments yield the region of the theorems (no ORDER BY premise) *)
Theorem array_loop_any_order : forall ts l s e cs ce th tw,
  1 <= th -> 1 <= tw -> 0 <= e - s -> 0 <= ce - cs -> 1 <= s -> 1 <= cs ->
  Permutation (filter (tile_selected s e cs ce th tw) ts) l ->
  (forall t, In t ts -> on_grid th tw t) -> unique_positions ts = true ->
  fold_left (fun acc t => bind acc (fun o => paste s e cs ce th tw o t)) l (Ok (zeros2 (e - s) (ce - cs))) =
  Ok (read_region ts s e cs ce th tw).
Proof.
  intros ts l s e cs ce th tw Hh Hw He Hce Hs Hcs Hp Hg Hu.
  set (F := filter (tile_selected s e cs ce th tw) ts) in *.
  assert (HinF : forall t, In t F -> In t ts) by (intros t Ht; now apply filter_In in Ht).
  destruct (loop_spec s e cs ce th tw l (zeros2 (e - s) (ce - cs)) He Hce Hh Hw (shape_zeros _ _))
    as (out' & E & Sh & Hc).
  { intros t Ht. apply (Permutation_in _ (Permutation_sym Hp)) in Ht. now apply filter_In in Ht. }
  rewrite E. f_equal. apply (arr_ext (e - s) (ce - cs)); [exact Sh|apply shape_read_region|].
  intros i j Hi Hj. rewrite (Hc i j Hi Hj), cell_zeros by lia.
  change (out_cell l s e cs ce th tw i j = cell (read_region ts s e cs ce th tw) i j).
  rewrite read_region_cell by lia.
  pose proof (unique_positions_sound ts Hu) as HuP.
  assert (HgF : forall t, In t F -> on_grid th tw t) by (intros t Ht; apply Hg; now apply HinF).
  assert (HuF : positions_unique F) by (intros t t' Ht Ht'; apply HuP; now apply HinF).
  rewrite <- (out_cell_perm F l s e cs ce th tw i j Hh Hw Hp HgF HuF Hs Hcs Hi Hj).
  unfold F. rewrite out_cell_filter.
  apply out_cell_perm; auto. apply sort_perm.
Qed.
