(* C11 - regular_accepted with a spacing hint (sort = True, no gaps): a regular stack in any order is
   accepted iff the hint is within tolerance of the true spacing, otherwise RuntimeError (as coded);
   and a refutation of the converse of unsorted_mode for a large absolute tolerance. *)
From Coq Require Import String ZArith List Bool QArith Lia Lqa Permutation Sorted.
From HD Require Import Base.Val C11_Model C11_Proofs C11_Proofs_Stack C11_Proofs_Sort C11_Proofs_Rank C11_Proofs_Top
  C11_Proofs_Perm.
Import ListNotations.
Open Scope Q_scope.

Lemma Qabs_compat a b : a == b -> Qabs_ a == Qabs_ b.
Proof.
  intro E. destruct (Qlt_le_dec a 0) as [N|P].
  - rewrite (Qabs_neg a), (Qabs_neg b); lra.
  - rewrite (Qabs_pos a), (Qabs_pos b); lra.
Qed.
Lemma Qle_bool_compat a a' b b' : a == a' -> b == b' -> Qle_bool a b = Qle_bool a' b'.
Proof.
  intros Ea Eb. destruct (Qle_bool a' b') eqn:B.
  - apply Qle_bool_iff in B. apply Qle_bool_iff. lra.
  - destruct (Qle_bool a b) eqn:A; [|reflexivity]. apply Qle_bool_iff in A.
    assert (T : Qle_bool a' b' = true) by (apply Qle_bool_iff; lra). congruence.
Qed.
Lemma isclose_compat rtol atol a a' b : a == a' -> isclose rtol atol a b = isclose rtol atol a' b.
Proof.
  intro E. unfold isclose. apply Qle_bool_compat; [|reflexivity]. apply Qabs_compat. lra.
Qed.

(* the hint only adds one test in front of the no-hint computation *)
Lemma gvp_core_hint uniq uidx nv rtol atol sort enforce h :
  gvp_core uniq uidx nv rtol atol sort false enforce (Some h) =
  if isclose rtol atol
       (Qabs_ (mean_sp (map (nthQ (map (dot nv) uniq)) (sort_idx sort (map (dot nv) uniq))) (length uniq))) h
  then gvp_core uniq uidx nv rtol atol sort false enforce None else Err "RuntimeError"%string.
Proof.
  unfold gvp_core, sort_idx, mean_sp. rewrite map_length. cbv zeta.
  destruct (isclose rtol atol _ h); reflexivity.
Qed.

Definition hint_matches (rtol atol s : Q) (hint : option Q) : bool :=
  match hint with Some h => isclose rtol atol s h | None => true end.

Lemma regular_accepted_hint : forall ps rowc colc o nv rtol atol a s r M hint,
  o_sort o = true -> o_missing o = false -> norm_hint (o_hint o) = Ok hint ->
  tolerances (o_rtol o) (o_atol o) = Ok (rtol, atol) -> 0 <= rtol -> 0 <= atol ->
  normal_vector rowc colc (o_c0 o) (o_c1 o) (o_rh o) = Ok nv ->
  regular_stack nv a s r M (map vred ps) ->
  (o_dups o = true \/ length ps = M) ->
  exists sp, sp == s /\
    get_volume_positions ps rowc colc o =
      if hint_matches rtol atol s hint
      then Ok (Some (sp, map (fun p => Z.of_nat (r p)) (map vred ps)))
      else Err "RuntimeError"%string.
Proof.
  intros ps rowc colc o nv rtol atol a s r M hint Hs Hm Hh T Hr Ha N [S [M2 [H1 [H3 [Hc [Hl Hp]]]]]] D.
  destruct (top_core nv a s r (map vred ps) M S H1 H3 Hc Hl rtol atol (o_enforce o) M2 Hr Ha Hp) as [sp [Esp C]].
  pose proof (uq_length nv a s r (map vred ps) M S H1 H3 Hc Hl) as LU.
  exists sp. split; [exact Esp|].
  assert (L2 : (2 <= length ps)%nat).
  { destruct ps as [|x [|y l]]; [| |cbn; lia].
    - destruct (Hc 0%nat) as [p [[] _]]. lia.
    - destruct (Hc 0%nat) as [p0 [I0 E0]]; [lia|]. destruct (Hc 1%nat) as [p1 [I1 E1]]; [lia|].
      cbn in I0, I1. destruct I0 as [<-|[]]. destruct I1 as [<-|[]]. congruence. }
  rewrite (gvp_long ps) by exact L2. unfold gvp_head. rewrite Hs, Hh, T, N. cbn [negb andb].
  unfold gvp_body. rewrite Hs, Hm, LU.
  replace (negb (o_dups o) && (M <? length ps)%nat) with false.
  2:{ destruct D as [D|D]; [now rewrite D|]. rewrite D, Nat.ltb_irrefl. now rewrite andb_false_r. }
  replace (M =? 1)%nat with false by (symmetry; apply Nat.eqb_neq; lia).
  destruct hint as [h|]; cbn [hint_matches]; [|exact C].
  rewrite gvp_core_hint, C.
  pose proof (core_sound _ _ _ _ _ _ _ _ _ _ C) as Snd. cbv zeta in Snd.
  destruct Snd as [_ [_ [Esp' _]]]. rewrite <- Esp'.
  rewrite (isclose_compat rtol atol sp s h Esp). reflexivity.
Qed.

(* ---- unsorted_mode, converse with atol > 0: REFUTED.  Distances 0, 2, 1, 3 along the normal (not
   monotone) examined in the order passed with an absolute tolerance of twice the spacing are accepted
   with indices 0, 1, 2, 3. *)
Lemma unsorted_converse_atol_refuted :
  exists uniq uidx nv atol enforce sp idx,
    gvp_core uniq uidx nv 0 atol false false enforce None = Ok (Some (sp, idx)) /\
    ~ (Forall (fun x => 0 < x) (diffs (map (dot nv) uniq)) \/
       Forall (fun x => x < 0) (diffs (map (dot nv) uniq))).
Proof.
  exists [V3 0 0 0; V3 0 0 2; V3 0 0 1; V3 0 0 3], [0; 1; 2; 3]%nat, (V3 0 0 1), 2, true.
  eexists. eexists. split; [vm_compute; reflexivity|].
  cbn. intros [H|H].
  - inversion H as [|? ? _ H']. inversion H' as [|? ? N _]. revert N. compute. discriminate.
  - inversion H as [|? ? N _]. revert N. compute. discriminate.
Qed.
