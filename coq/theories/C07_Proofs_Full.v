(* C07 - RLE Lossless at full strength: the Bits Stored range of the content is
   not a precondition but a CONSEQUENCE of acceptance (pydicom's
   EncodeRunner._validate_array refuses content outside it). *)
From Coq Require Import String ZArith List Bool Lia ZifyBool.
From HD Require Import Base.Val C07_Model C07_Proofs C07_Proofs_RLE.
Import ListNotations.
Open Scope Z_scope.
Ltac Zify.zify_post_hook ::= Z.to_euclidean_division_equations.

Lemma fits_stored_values_fit : forall p f,
  fits_stored p (list_min f) (list_max f) = true -> 1 <= p_bstored p -> values_fit p f.
Proof.
  intros p f H Hb. unfold values_fit, fits_stored in *. rewrite Forall_forall. intros v Hv.
  pose proof (list_min_le f v Hv). pose proof (list_max_ge f v Hv).
  destruct (p_pixrep p =? 1); lia.
Qed.

(* whatever passes pydicom's encoder validation has its content in range *)
Lemma encoder_accepts_values_fit : forall p f,
  is_native default_tables p = false -> uses_pydicom_encoder p = true ->
  check default_tables p (list_min f) (list_max f) = None -> values_fit p f.
Proof.
  intros p f Hn Hu H. unfold check in H.
  destruct (check_cascade default_tables p (list_min f) (list_max f)) eqn:Hcas; [discriminate|].
  unfold check_encoder in H. rewrite Hn, Hu in H. cbn [orb negb] in H.
  destruct (check_pydicom default_tables p) eqn:Hpy; [discriminate|].
  destruct (fits_stored p (list_min f) (list_max f)) eqn:Hfs; [|discriminate].
  apply fits_stored_values_fit; [exact Hfs|].
  unfold check_pydicom in Hpy.
  repeat match type of Hpy with (if ?c then _ else _) = None => destruct c eqn:?; [discriminate|] end.
  lia.
Qed.

Theorem rle_accepts_values_fit : forall p f bs,
  p_ts p = TRLE -> encode_rle default_tables p f = Ok bs -> values_fit p f.
Proof.
  intros p f bs Hts He. unfold encode_rle in He.
  destruct (check default_tables p (list_min f) (list_max f)) eqn:Hc; [discriminate|].
  apply encoder_accepts_values_fit; [unfold is_native| unfold uses_pydicom_encoder| exact Hc];
    rewrite Hts; reflexivity.
Qed.

(* RLE Lossless, no codec premise, no range precondition: every frame of the
   right size that encode_frame turns into bytes is returned by decode_frame *)
Theorem rle_roundtrip_full : forall p f bs,
  p_ts p = TRLE ->
  encode_rle default_tables p f = Ok bs ->
  open_gap p = false ->
  Z.of_nat (length f) = npix p ->
  decode_rle p bs = Ok (DArr (out_shape p) f).
Proof.
  intros p f bs Hts He Hg Hlen.
  apply rle_roundtrip; auto. exact (rle_accepts_values_fit p f bs Hts He).
Qed.

From HD Require Import C07_Proofs_Ext.

Lemma ts_eqb_true : forall a b, ts_eqb a b = true -> a = b.
Proof. intros a b H. destruct a, b; try reflexivity; discriminate H. Qed.

Section LosslessFull.
  Variable codec_encode : params -> list Z -> option (list Z).
  Variable codec_decode : params -> list Z -> res decoded.
  Hypothesis codec_lossless : forall p f bs,
    p_ts p = TJLS \/ p_ts p = TJ2KL ->
    accepts default_tables p (list_min f) (list_max f) = true ->
    Z.of_nat (length f) = npix p -> values_fit p f ->
    codec_encode p f = Some bs -> codec_decode p bs = Ok (DArr (out_shape p) f).

  (* the range precondition is only needed where the encoder does not check it
     itself (native syntaxes; 1-bit JPEG 2000) *)
  Theorem lossless_roundtrip_full : forall p f bs,
    lossless_ts p ->
    encode_any codec_encode default_tables p f = Ok bs ->
    open_gap p = false ->
    Z.of_nat (length f) = npix p -> (p_ts p <> TRLE -> values_fit p f) -> p_dsize p <= 8 ->
    decode_any codec_decode default_tables p bs = Ok (DArr (out_shape p) f).
  Proof.
    intros p f bs Hts He Hgap Hlen Hfit Hds.
    apply (lossless_roundtrip codec_encode codec_decode codec_lossless p f bs); auto.
    destruct (ts_eqb (p_ts p) TRLE) eqn:E.
    - apply ts_eqb_true in E. unfold encode_any in He.
      assert (Hnn : is_native default_tables p = false) by (unfold is_native; rewrite E; reflexivity).
      rewrite Hnn, E in He. change (ts_eqb TRLE TRLE) with true in He. cbv iota in He.
      exact (rle_accepts_values_fit p f bs E He).
    - apply Hfit. intros H. rewrite H in E. discriminate E.
  Qed.
End LosslessFull.

(* ------------- the entry point: decode_frame_model after an accepted encode *)
(* with the parameters of an accepted encoding none of decode_frame's own
   refusals fires and no plane re-ordering happens: it is the path decoder *)
Lemma entry_native : forall p f bs,
  native_ts p -> encode_frame default_tables p f = Ok bs ->
  decode_frame_model p 0 bs = decode_native p 0 bs.
Proof.
  intros p f bs Hn He.
  apply encode_frame_Ok in He. destruct He as [Hc ->].
  destruct (check_None_native p _ _ Hn Hc) as (Hcc & Hcn & _).
  destruct (check_common_None _ _ Hcc) as (_ & Hpr & Hpi & Hpl).
  destruct (check_native_None _ Hcn) as (Hspp & Hpl3 & _).
  unfold decode_frame_model, decode_native.
  rewrite (proj2 (is_native_default p) Hn). cbn [andb].
  destruct (p_balloc p =? 1) eqn:B1; [reflexivity|].
  replace (negb ((p_pixrep p =? 0) || (p_pixrep p =? 1))) with false by lia.
  replace (is_none (p_pi p)) with false by (destruct (p_pi p); [reflexivity|congruence]).
  assert (Hts : ts_eqb (p_ts p) TRLE = false) by (destruct Hn as [-> | ->]; reflexivity).
  destruct Hspp as [S1|S3].
  - replace (1 <? spp p) with false by lia. cbn [andb]. rewrite Hts.
    destruct (decode_words p _) as [[sh vals|raw]|e]; reflexivity.
  - rewrite (Hpl3 S3). cbn [is_none optZ_eqb]. change (0 =? 0) with true. change (0 =? 1) with false.
    cbn [orb negb andb]. rewrite !andb_false_r. cbn [andb]. rewrite Hts.
    destruct (decode_words p _) as [[sh vals|raw]|e]; reflexivity.
Qed.

Theorem entry_native_roundtrip : forall p f bs,
  native_ts p ->
  encode_frame default_tables p f = Ok bs ->
  Z.of_nat (length f) = npix p -> p_dsize p <= 8 -> values_fit p f ->
  (spp p = 3 -> p_balloc p <> 1 -> p_pi p <> Some YBR_FULL) ->
  decode_frame_model p 0 bs = Ok (DArr (out_shape p) f).
Proof.
  intros p f bs Hn He Hlen Hds Hfit G.
  rewrite (entry_native p f bs Hn He). now apply native_roundtrip_partial.
Qed.

Theorem entry_rle_roundtrip : forall p f bs,
  p_ts p = TRLE ->
  encode_rle default_tables p f = Ok bs ->
  open_gap p = false -> Z.of_nat (length f) = npix p ->
  decode_frame_model p 0 bs = Ok (DArr (out_shape p) f).
Proof.
  intros p f bs Hts He Hg Hlen.
  rewrite <- (rle_roundtrip_full p f bs Hts He Hg Hlen).
  unfold encode_rle in He.
  destruct (check default_tables p (list_min f) (list_max f)) eqn:Hc; [discriminate|].
  destruct (rle_check_facts p _ _ Hts Hc) as (Hspp & _ & _ & _ & _ & _ & Hpr & Hpl).
  assert (Hcc : check_common default_tables p = None).
  { unfold check, check_cascade, check_hd in Hc. destruct (check_common default_tables p); [discriminate|reflexivity]. }
  destruct (check_common_None _ _ Hcc) as (_ & _ & Hpi & Hpl').
  unfold decode_frame_model.
  replace (is_native default_tables p) with false by (unfold is_native; rewrite Hts; reflexivity).
  cbn [andb].
  replace (negb ((p_pixrep p =? 0) || (p_pixrep p =? 1))) with false by lia.
  replace (is_none (p_pi p)) with false by (destruct (p_pi p); [reflexivity|congruence]).
  rewrite Hts. change (ts_eqb TRLE TRLE) with true.
  destruct (1 <? spp p) eqn:S1; cbn [andb]; [|reflexivity].
  assert (Hnd : p_ndim3 p = true) by (unfold spp in S1; destruct (p_ndim3 p); [reflexivity|discriminate]).
  destruct (Hpl' Hnd) as [-> | ->]; reflexivity.
Qed.

(* the guard of fix 6c3f345 (D70) is necessary: without it (all other checks
   pass) pydicom narrows the samples to one byte but writes two segments, and
   the stream cannot be decoded *)
Lemma rle_guard_d70_necessary : exists p f bs,
  check_pydicom default_tables p = None /\ check_profile default_tables p = None
  /\ values_fit p f /\ rle_encode_frame p f = Ok bs /\ decode_rle p bs = Err ERT.
Proof.
  exists (mkP TRLE 1 2 false 0 16 8 (Some MONO2) 0 None KUInt 2), [1; 2]. eexists.
  split; [reflexivity|]. split; [reflexivity|].
  split; [unfold values_fit; repeat constructor; cbn; lia|].
  split; vm_compute; reflexivity.
Qed.
