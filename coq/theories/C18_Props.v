(* C18 - property theorems.  Nothing but statements, `exact <lemma>` and
   Print Assumptions.  Coordinates / measurement values are IEEE bit patterns
   (words); [dbl] selects binary64.  [encode] = AnnotationGroup.__init__,
   [decode] = get_graphic_data on the parsed group, [m_encode]/[m_decode] =
   Measurements.__init__/get_values, [get_group(s)] = get_annotation_group(s). *)
From Coq Require Import String ZArith List Bool.
From HD Require Import Base.Val C18_Model C18_Proofs C18_Proofs_Meas C18_Proofs_Index C18_Proofs_General C18_Proofs_History
  C18_Proofs_Parsed C18_Proofs_Object C18_Proofs_Int32 C18_Proofs_Finite C18_Proofs_Counts C18_Proofs_Edited.
Import ListNotations.
Open Scope Z_scope.

(* ---- graphic data --------------------------------------------------------------- *)
(* LongPrimitivePointIndexList entry i = 1 + number of values stored before annotation i *)
Theorem C18_index_list_is_prefix_sums : forall sd (gd : list annot) i, gd <> [] ->
  nth_error (point_index_list sd gd) i =
  if (i <? length gd)%nat then Some (1 + sumz (firstn i (map (fun a => zlen a * sd) gd))) else None.
Proof. exact index_list_nth. Qed.
Print Assumptions C18_index_list_is_prefix_sums.

(* every accepted list of annotations - any graphic type, 2-D, 3-D with shared z,
   3-D with varying z, single or double precision - decodes to itself, bit for bit.
   [z_agree]: z words that are IEEE-equal are identical (false only if +0.0 and
   -0.0 are mixed in a z column that is otherwise constant). *)
Theorem C18_graphic_roundtrip : forall dbl gt gd e,
  encode dbl gt gd = Ok e -> z_agree dbl gd = true -> decode e (dim gd) = Ok gd.
Proof. exact graphic_roundtrip. Qed.
Print Assumptions C18_graphic_roundtrip.

Theorem C18_graphic_roundtrip_shared_z : forall dbl gt gd e cd,
  encode dbl gt gd = Ok e -> z_agree dbl gd = true -> common_z dbl gd = true -> decode e cd = Ok gd.
Proof. exact graphic_roundtrip_common. Qed.
Print Assumptions C18_graphic_roundtrip_shared_z.

(* without the guard: exactly what comes back ([returned]: when the z column is
   constant as floats every z is the first row's z), and it is numerically the
   input - same x/y words, z words IEEE-equal *)
Theorem C18_graphic_decode_general : forall dbl gt gd e,
  encode dbl gt gd = Ok e -> decode e (dim gd) = Ok (returned dbl gd).
Proof. exact decode_general. Qed.
Print Assumptions C18_graphic_decode_general.

Theorem C18_graphic_roundtrip_numeric : forall dbl gt gd e,
  encode dbl gt gd = Ok e ->
  exists gd', decode e (dim gd) = Ok gd' /\ Forall2 (Forall2 (row_same dbl)) gd gd'.
Proof. exact graphic_roundtrip_numeric. Qed.
Print Assumptions C18_graphic_roundtrip_numeric.

(* per annotation number: get_coordinates k = item k-1, errors outside 1..n *)
Theorem C18_per_annotation : forall dbl gt gd e k,
  encode dbl gt gd = Ok e -> z_agree dbl gd = true -> 1 <= k <= zlen gd ->
  exists a, nth_error gd (Z.to_nat (k - 1)) = Some a /\ get_coordinates (decode e (dim gd)) k = Ok a.
Proof. exact per_annotation_in_range. Qed.
Print Assumptions C18_per_annotation.

Theorem C18_per_annotation_out_of_range : forall dbl gt gd e k,
  encode dbl gt gd = Ok e -> z_agree dbl gd = true ->
  (k < 1 -> get_coordinates (decode e (dim gd)) k = Err VE) /\
  (zlen gd < k -> get_coordinates (decode e (dim gd)) k = Err "IndexError"%string).
Proof. exact per_annotation_out_of_range. Qed.
Print Assumptions C18_per_annotation_out_of_range.

(* _get_coordinate_index k selects, inside the stored flat data, exactly the stored
   coordinates of annotation k (z dropped when shared), and stays in range *)
Theorem C18_coordinate_index_selects : forall dbl gt gd e k a,
  encode dbl gt gd = Ok e -> 1 <= k -> nth_error gd (Z.to_nat (k - 1)) = Some a ->
  exists ci, coordinate_index e k (dim gd) (zlen (e_data e)) = Ok ci /\
             map (fun j => nth (Z.to_nat j) (e_data e) 0) ci = flat_stored dbl gd a /\
             Forall (fun j => 0 <= j < zlen (e_data e)) ci.
Proof. exact coordinate_index_selects. Qed.
Print Assumptions C18_coordinate_index_selects.

(* ---- access order: one group object, any sequence of accessor calls -------------------
   [run_ops e c ops]: the answers of the calls [ops] (HAll cd = get_graphic_data,
   HOne k cd = get_coordinates k) made in that order on one object whose decode cache
   is c (None = parsed group, nothing decoded yet; Some = freshly built group).
   [answer gd o]: the stored data - the whole list / item k-1 / ValueError for k<1 /
   IndexError for k>n. *)
(* a parsed group answers every call of every history as if it were the first call *)
Theorem C18_history_independent : forall e cd ops, Forall (fun o => op_cd o = cd) ops ->
  run_ops e None ops = map (stateless e) ops.
Proof. exact history_parsed. Qed.
Print Assumptions C18_history_independent.

(* ... and that answer is the stored data: per annotation number BEFORE the whole group
   was ever decoded just as well as after *)
Theorem C18_access_order_parsed : forall dbl gt gd e ops,
  encode dbl gt gd = Ok e -> z_agree dbl gd = true ->
  Forall (fun o => op_cd o = dim gd) ops ->
  run_ops e None ops = map (answer gd) ops.
Proof. exact access_order_parsed. Qed.
Print Assumptions C18_access_order_parsed.

Theorem C18_access_order_fresh : forall dbl gt gd e ops,
  encode dbl gt gd = Ok e -> Forall (fun o => op_cd o = dim gd) ops ->
  run_ops e (Some (row_dim gd, gd)) ops = map (answer gd) ops.
Proof. exact access_order_fresh. Qed.
Print Assumptions C18_access_order_fresh.

Theorem C18_parsed_like_fresh : forall dbl gt gd e ops,
  encode dbl gt gd = Ok e -> z_agree dbl gd = true ->
  Forall (fun o => op_cd o = dim gd) ops ->
  run_ops e None ops = run_ops e (Some (row_dim gd, gd)) ops.
Proof. exact parsed_like_fresh. Qed.
Print Assumptions C18_parsed_like_fresh.

(* the cache is keyed by coordinate type: a call under the other type is refused and
   leaves the object as it was *)
Theorem C18_other_type_refused : forall e cd0 gd o, op_cd o <> cd0 ->
  hstep e (Some (cd0, gd)) o =
  (match o with HAll _ => RAll (Err VE) | HOne _ _ => ROne (Err VE) end, Some (cd0, gd)).
Proof. exact other_type_refused. Qed.
Print Assumptions C18_other_type_refused.

(* ---- integer input: precision choice and the 2^53 guard ------------------------------ *)
(* single precision is kept only when every integer is m * 2^e with |m| < 2^24,
   i.e. binary32-representable, so the cast changes no value *)
Theorem C18_single_precision_ints_exact : forall vs, ints_double vs = false ->
  forall v, In v vs -> exists m e, v = m * 2 ^ e /\ Z.abs m < 2 ^ 24 /\ 0 <= e.
Proof. exact single_precision_ints_exact. Qed.
Print Assumptions C18_single_precision_ints_exact.

Theorem C18_small_ints_single : forall vs, (forall v, In v vs -> Z.abs v <= 2 ^ 24) -> ints_double vs = false.
Proof. exact small_ints_single. Qed.
Print Assumptions C18_small_ints_single.

Theorem C18_reject_unrepresentable_ints : forall vs r, r <> VErr "ValueError"%string ->
  (guard_ints vs r = VErr "ValueError"%string <-> exists v, In v vs /\ 2 ^ 53 < Z.abs v).
Proof. exact guard_ints_iff. Qed.
Print Assumptions C18_reject_unrepresentable_ints.

(* ---- malformed graphic data ------------------------------------------------------- *)
Theorem C18_accepted_iff_admissible : forall dbl gt gd,
  (exists e, encode dbl gt gd = Ok e) <-> admissible dbl gt gd.
Proof. exact encode_accepts_iff. Qed.
Print Assumptions C18_accepted_iff_admissible.

Theorem C18_malformed_rejected : forall dbl gt gd, ~ admissible dbl gt gd <-> encode dbl gt gd = Err VE.
Proof. exact malformed_rejected. Qed.
Print Assumptions C18_malformed_rejected.

Theorem C18_reject_wrong_count : forall dbl gt gd a,
  In a gd -> count_ok gt (zlen a) = false -> encode dbl gt gd = Err VE.
Proof. exact reject_wrong_count. Qed.
Print Assumptions C18_reject_wrong_count.

Theorem C18_reject_closed_polygon : forall dbl gd a,
  In a gd -> closed dbl a = true -> encode dbl POLYGON gd = Err VE.
Proof. exact reject_closed_polygon. Qed.
Print Assumptions C18_reject_closed_polygon.

Theorem C18_reject_non_finite : forall dbl gt gd a r w,
  In a gd -> In r a -> In w r -> is_finite dbl w = false -> encode dbl gt gd = Err VE.
Proof. exact reject_non_finite. Qed.
Print Assumptions C18_reject_non_finite.

Theorem C18_reject_bad_dimension : forall dbl gt gd a r,
  In a gd -> In r a -> zlen r <> 2 -> zlen r <> 3 -> encode dbl gt gd = Err VE.
Proof. exact reject_bad_dimension. Qed.
Print Assumptions C18_reject_bad_dimension.

Theorem C18_reject_mixed_dimension : forall dbl gt gd a r a' r',
  In a gd -> In r a -> In a' gd -> In r' a' -> zlen r <> zlen r' -> encode dbl gt gd = Err VE.
Proof. exact reject_mixed_dimension. Qed.
Print Assumptions C18_reject_mixed_dimension.

Theorem C18_reject_empty : forall dbl gt, encode dbl gt [] = Err VE.
Proof. exact reject_empty. Qed.
Print Assumptions C18_reject_empty.

(* ---- measurements --------------------------------------------------------------------- *)
(* every vector, every NaN pattern: present values come back bit for bit, absent
   ones (NaN of any payload) as the canonical NaN *)
Theorem C18_measurements_roundtrip : forall vs, m_decode (m_encode vs) (zlen vs) = Ok (map canon vs).
Proof. exact measurements_roundtrip. Qed.
Print Assumptions C18_measurements_roundtrip.

Theorem C18_measurements_roundtrip_parsed : forall vs,
  m_decode (m_parsed (m_encode vs)) (zlen vs) = Ok (map canon vs).
Proof. exact measurements_roundtrip. Qed.
Print Assumptions C18_measurements_roundtrip_parsed.

Theorem C18_measurements_pointwise : forall vs out i v,
  m_decode (m_encode vs) (zlen vs) = Ok out -> nth_error vs i = Some v ->
  nth_error out i = Some (if is_nan false v then canonical_nan32 else v).
Proof. exact measurements_pointwise. Qed.
Print Assumptions C18_measurements_pointwise.

(* a group accepts a constructed measurement vector iff its length is the number of annotations *)
Theorem C18_mismatch_rejected : forall vs n, accepts_one n (m_encode vs) = true <-> n = zlen vs.
Proof. exact mismatch_rejected. Qed.
Print Assumptions C18_mismatch_rejected.

Theorem C18_group_measurements_accepted_iff : forall n (ms : list (Z * list word)),
  group_accepts_measurements n (map (fun m => (fst m, m_encode (snd m))) ms) = true
  <-> forall m, In m ms -> zlen (snd m) = n.
Proof. exact group_measurements_accepted_iff. Qed.
Print Assumptions C18_group_measurements_accepted_iff.

(* parsed datasets (length not recorded): what get_values still detects *)
Theorem C18_dense_parsed_mismatch : forall vs n, existsb (is_nan false) vs = false -> n <> zlen vs ->
  exists k, m_decode (m_parsed (m_encode vs)) n = Err k.
Proof. exact dense_parsed_mismatch. Qed.
Print Assumptions C18_dense_parsed_mismatch.

Theorem C18_sparse_parsed_beyond : forall vs n p, 0 <= n -> existsb (is_nan false) vs = true ->
  In p (positions_from 1 present vs) -> n < p ->
  m_decode (m_parsed (m_encode vs)) n = Err "IndexError"%string.
Proof. exact sparse_parsed_beyond. Qed.
Print Assumptions C18_sparse_parsed_beyond.

Theorem C18_sparse_parsed_iff : forall vs n, 0 <= n -> existsb (is_nan false) vs = true ->
  (m_decode (m_parsed (m_encode vs)) n = Err "IndexError"%string <->
   exists p, In p (positions_from 1 present vs) /\ n < p).
Proof. exact sparse_parsed_iff. Qed.
Print Assumptions C18_sparse_parsed_iff.

(* get_measurements: the selected names and, per name, the stored column *)
Theorem C18_get_measurements_exact : forall n (ms : list (Z * list word)) name,
  (forall m, In m ms -> zlen (snd m) = n) ->
  get_measurements n (map (fun m => (fst m, m_encode (snd m))) ms) name =
  let sel := filter (fun m => match name with None => true | Some q => fst m =? q end) ms in
  Ok (map fst sel, map (fun m => map canon (snd m)) sel).
Proof. exact get_measurements_exact. Qed.
Print Assumptions C18_get_measurements_exact.

(* ---- group lookup -------------------------------------------------------------------------- *)
Theorem C18_lookup_exact : forall gs q, get_groups gs q = filter (matches q) gs.
Proof. exact lookup_exact. Qed.
Print Assumptions C18_lookup_exact.

Theorem C18_lookup_by_number_found : forall gs k u, sop_accepts gs = true -> 1 <= k <= zlen gs ->
  exists g, nth_error gs (Z.to_nat (k - 1)) = Some g /\ g_number g = k /\ get_group gs (Some k) u = Ok g.
Proof. exact lookup_by_number_found. Qed.
Print Assumptions C18_lookup_by_number_found.

Theorem C18_lookup_by_number_missing : forall gs k u, sop_accepts gs = true -> (k < 1 \/ zlen gs < k) ->
  get_group gs (Some k) u = Err VE.
Proof. exact lookup_by_number_missing. Qed.
Print Assumptions C18_lookup_by_number_missing.

Theorem C18_lookup_by_uid_sound : forall gs u g, get_group gs None (Some u) = Ok g -> In g gs /\ g_uid g = u.
Proof. exact lookup_by_uid_sound. Qed.
Print Assumptions C18_lookup_by_uid_sound.

Theorem C18_lookup_by_uid_complete : forall gs g, NoDup (map g_uid gs) -> In g gs ->
  get_group gs None (Some (g_uid g)) = Ok g.
Proof. exact lookup_by_uid_complete. Qed.
Print Assumptions C18_lookup_by_uid_complete.

Theorem C18_lookup_needs_a_key : forall gs, get_group gs None None = Err "TypeError"%string.
Proof. exact lookup_needs_a_key. Qed.
Print Assumptions C18_lookup_needs_a_key.

(* ---- non-vacuity: concrete non-trivial instances meet the hypotheses --------------------- *)
(* binary32 words: 1.0 = 1065353216, 2.0 = 1073741824, 3.0 = 1077936128, 4.0 = 1082130432,
   5.0 = 1084227584, 0.5 = 1056964608, -0.0 = 2147483648, NaN = 2143289344, +inf = 2139095040 *)
Definition ex_poly3d_shared : list annot :=
  [ [[1065353216; 1073741824; 1056964608]; [1077936128; 1082130432; 1056964608]; [1084227584; 1065353216; 1056964608]];
    [[1073741824; 1073741824; 1056964608]; [1077936128; 1077936128; 1056964608]; [1082130432; 1065353216; 1056964608];
     [1084227584; 1084227584; 1056964608]] ].
Definition ex_poly3d_varying : list annot :=
  [ [[1065353216; 1073741824; 1056964608]; [1077936128; 1082130432; 1065353216]];
    [[1073741824; 1073741824; 0]; [1077936128; 1077936128; 2147483648]; [1082130432; 1065353216; 1056964608]] ].
Definition ex_rect2d : list annot :=
  [ [[0; 0]; [1065353216; 0]; [1065353216; 1065353216]; [0; 1065353216]];
    [[1073741824; 2147483648]; [1077936128; 0]; [1077936128; 1065353216]; [1073741824; 1065353216]] ].

Example C18_example_graphic :
  (exists e, encode false POLYGON ex_poly3d_shared = Ok e /\ e_cz e = Some 1056964608 /\
             e_idx e = Some [1; 7] /\ zlen (e_data e) = 14 /\
             z_agree false ex_poly3d_shared = true /\ common_z false ex_poly3d_shared = true /\
             decode e 3 = Ok ex_poly3d_shared /\
             coordinate_index e 2 3 14 = Ok [6; 7; 8; 9; 10; 11; 12; 13]) /\
  (exists e, encode false POLYLINE ex_poly3d_varying = Ok e /\ e_cz e = None /\ e_idx e = Some [1; 7] /\
             z_agree false ex_poly3d_varying = true /\ decode e 3 = Ok ex_poly3d_varying) /\
  (exists e, encode false RECTANGLE ex_rect2d = Ok e /\ e_idx e = None /\
             z_agree false ex_rect2d = true /\ dim ex_rect2d = 2 /\ decode e 2 = Ok ex_rect2d /\
             get_coordinates (decode e 2) 2 =
               Ok [[1073741824; 2147483648]; [1077936128; 0]; [1077936128; 1065353216]; [1073741824; 1065353216]]) /\
  encode false POLYGON [[[0; 0]; [1065353216; 0]; [2147483648; 0]]] = Err VE /\
  encode false POINT [[[2143289344; 0]]] = Err VE /\
  encode true POINT [[[9218868437227405312; 0]]] = Err VE.
Proof.
  repeat split; try (eexists; repeat split; vm_compute; reflexivity); vm_compute; reflexivity.
Qed.
Print Assumptions C18_example_graphic.

(* cold parsed polygon group with shared z: LAST annotation first, then the whole group,
   then numbers 1, 3 (beyond), 0 *)
Example C18_example_access_order :
  exists e, encode false POLYGON ex_poly3d_shared = Ok e /\
    Forall (fun o => op_cd o = dim ex_poly3d_shared) [HOne 2 3; HAll 3; HOne 1 3; HOne 3 3; HOne 0 3] /\
    run_ops e None [HOne 2 3; HAll 3; HOne 1 3; HOne 3 3; HOne 0 3] =
      [ROne (Ok (nth 1 ex_poly3d_shared [])); RAll (Ok ex_poly3d_shared); ROne (Ok (nth 0 ex_poly3d_shared []));
       ROne (Err "IndexError"%string); ROne (Err VE)] /\
    run_ops e None [HOne 2 2; HAll 3] = [ROne (Ok (nth 1 ex_poly3d_shared [])); RAll (Err VE)].
Proof. eexists. split; [vm_compute; reflexivity|]. split; [repeat constructor|]. split; vm_compute; reflexivity. Qed.
Print Assumptions C18_example_access_order.

Example C18_example_ints :
  ints_double [16777216; 33554436; -16777218; 0] = false /\ ints_double [33554434] = true /\ ints_double [5; 16777217] = true /\
  ints_double [33554433] = true /\ ints_double [9007199254740992] = false /\
  ints_ok [9007199254740992; -9007199254740992] = true /\ ints_ok [1; 9007199254740993] = false.
Proof. repeat split; vm_compute; reflexivity. Qed.
Print Assumptions C18_example_ints.

Example C18_example_measurements :
  m_encode [1065353216; 2143289344; 2139095040; 4290774085] =
    mkMenc [1065353216; 2139095040] (Some [1; 3]) (Some 4) /\
  m_decode (m_encode [1065353216; 2143289344; 2139095040; 4290774085]) 4 =
    Ok [1065353216; 2143289344; 2139095040; 2143289344] /\
  accepts_one 3 (m_encode [1065353216; 2143289344]) = false /\
  accepts_one 3 (m_parsed (m_encode [1065353216; 2143289344])) = true /\
  m_decode (m_encode [1065353216]) 3 = Err "IndexError"%string.
Proof. repeat split; vm_compute; reflexivity. Qed.
Print Assumptions C18_example_measurements.

Example C18_example_lookup :
  let gs := [mkG 1 10 0 0 1 POINT 0 None; mkG 2 11 1 0 2 POLYGON 2 (Some (0, 1, 0));
             mkG 3 12 0 1 1 POLYGON 2 (Some (1, 1, 0))] in
  sop_accepts gs = true /\
  map g_number (get_groups gs (mkQ None None None (Some POLYGON) None None (Some 0) (Some 1))) = [2; 3] /\
  map g_number (get_groups gs (mkQ None None (Some 0) None None None None None)) = [1; 3] /\
  map g_number (get_groups gs (mkQ None None (Some 0) None None (Some 1) None None)) = [3] /\
  get_group gs (Some 4) None = Err VE.
Proof. repeat split; vm_compute; reflexivity. Qed.
Print Assumptions C18_example_lookup.

(* ==== extension: complete get_values, value matrix, the whole object ========================== *)
(* ---- Measurements.get_values for EVERY requested count, constructed or parsed ------------------
   negative count: ValueError; dense vector (nothing absent): only its own length, else
   IndexError; sparse vector: IndexError iff a value is stored for an annotation number
   beyond the count, otherwise the vector cut / padded with "absent" ([resize]) *)
Theorem C18_get_values_exact : forall vs n,
  m_decode (m_encode vs) n =
  if n <? 0 then Err VE
  else if existsb (is_nan false) vs
       then (if existsb (fun p => n <? p) (positions_from 1 present vs) then Err "IndexError"%string
             else Ok (resize n (map canon vs)))
       else (if n =? zlen vs then Ok vs else Err "IndexError"%string).
Proof. exact get_values_exact. Qed.
Print Assumptions C18_get_values_exact.

Theorem C18_get_values_exact_parsed : forall vs n,
  m_decode (m_parsed (m_encode vs)) n =
  if n <? 0 then Err VE
  else if existsb (is_nan false) vs
       then (if existsb (fun p => n <? p) (positions_from 1 present vs) then Err "IndexError"%string
             else Ok (resize n (map canon vs)))
       else (if n =? zlen vs then Ok vs else Err "IndexError"%string).
Proof. exact get_values_exact_parsed. Qed.
Print Assumptions C18_get_values_exact_parsed.

(* what the written dataset still tells about the vector length: everything for a dense
   vector, only a lower bound for a sparse one *)
Theorem C18_dense_parsed_iff : forall vs n, existsb (is_nan false) vs = false ->
  ((exists out, m_decode (m_parsed (m_encode vs)) n = Ok out) <-> n = zlen vs).
Proof. exact dense_parsed_iff. Qed.
Print Assumptions C18_dense_parsed_iff.

Theorem C18_sparse_parsed_accepts : forall vs n, 0 <= n -> existsb (is_nan false) vs = true ->
  (forall p, In p (positions_from 1 present vs) -> p <= n) ->
  m_decode (m_parsed (m_encode vs)) n = Ok (resize n (map canon vs)).
Proof. exact sparse_parsed_accepts. Qed.
Print Assumptions C18_sparse_parsed_accepts.

Theorem C18_sparse_length_not_recoverable : exists vs vs',
  zlen vs <> zlen vs' /\ m_parsed (m_encode vs) = m_parsed (m_encode vs') /\
  existsb (is_nan false) vs = true.
Proof. exact sparse_length_not_recoverable. Qed.
Print Assumptions C18_sparse_length_not_recoverable.

(* get_measurements as returned (np.vstack(columns).T): n rows, one column per selected
   measurement, entry (i, j) = value of measurement j for annotation i+1 *)
Theorem C18_measurement_matrix_exact : forall n (ms : list (Z * list word)) name, 0 <= n ->
  (forall m, In m ms -> zlen (snd m) = n) ->
  let sel := filter (fun m => match name with None => true | Some q => fst m =? q end) ms in
  exists mat, get_measurement_matrix n (map (fun m => (fst m, m_encode (snd m))) ms) name = Ok (map fst sel, mat) /\
    zlen mat = n /\
    forall i j m v, nth_error sel j = Some m -> nth_error (snd m) i = Some v ->
      exists row, nth_error mat i = Some row /\ zlen row = zlen sel /\ nth_error row j = Some (canon v).
Proof. exact measurement_matrix_exact. Qed.
Print Assumptions C18_measurement_matrix_exact.

(* ---- access order on a parsed group without the z_agree guard ------------------------------ *)
Theorem C18_access_order_parsed_general : forall dbl gt gd e ops,
  encode dbl gt gd = Ok e -> Forall (fun o => op_cd o = dim gd) ops ->
  run_ops e None ops = map (answer (returned dbl gd)) ops.
Proof. exact access_order_parsed_general. Qed.
Print Assumptions C18_access_order_parsed_general.

(* ---- the whole object ---------------------------------------------------------------------------
   [build_full h ss]: the constructors (AnnotationGroup per [gspec], then the instance);
   [view parsed os]: the groups as built / as parsed from the written dataset;
   [holds parsed s o]: object o carries the identification given in s (algorithm
   identification only when the type is not MANUAL), NumberOfAnnotations = number of arrays,
   answers EVERY history of get_graphic_data / get_coordinates calls under its coordinate
   type with the given coordinates (whole list, item k-1, ValueError k<1, IndexError k>n;
   parsed: [returned] = the same with a float-constant z column written once) and every
   get_measurements(name) with the selected names and vectors. *)
(* constructor of one group: accepted iff number >= 1, algorithm type a member, algorithm
   identification present unless MANUAL, graphic data admissible, every measurement vector
   as long as the list of annotations *)
Theorem C18_group_accepted_iff : forall s, (exists o, build_group s = Ok o) <-> group_ok s.
Proof. exact build_group_accepts_iff. Qed.
Print Assumptions C18_group_accepted_iff.

Theorem C18_group_type_error_iff : forall s,
  build_group s = Err "TypeError"%string <->
  1 <= g_number (s_info s) /\ 1 <= g_algtype (s_info s) <= 2 /\ g_alg (s_info s) = None.
Proof. exact build_group_type_error_iff. Qed.
Print Assumptions C18_group_type_error_iff.

Theorem C18_instance_accepted_iff : forall h ss,
  (exists os, build_full h ss = Ok os) <-> Forall group_ok ss /\ header_ok h /\ numbers_ok ss.
Proof. exact build_full_accepts_iff. Qed.
Print Assumptions C18_instance_accepted_iff.

Theorem C18_instance_errors : forall h ss k, build_full h ss = Err k -> k = VE \/ k = "TypeError"%string.
Proof. exact build_full_errors. Qed.
Print Assumptions C18_instance_errors.

Theorem C18_instance_rejects_bad_group : forall h ss s, In s ss -> ~ group_ok s ->
  exists k, build_full h ss = Err k.
Proof. exact build_full_rejects_bad_group. Qed.
Print Assumptions C18_instance_rejects_bad_group.

(* every group of an accepted instance holds what was given for it, fresh and parsed *)
Theorem C18_object_holds : forall h ss os parsed, build_full h ss = Ok os ->
  Forall2 (holds parsed) ss (view parsed os) /\ numbered_from 1 (map o_info (view parsed os)) = true.
Proof. exact object_holds. Qed.
Print Assumptions C18_object_holds.

(* THE property sentence: group number k of an accepted instance is found by number, and the
   object found holds the coordinates and measurements given for group k *)
Theorem C18_end_to_end_by_number : forall h ss os parsed k s u,
  build_full h ss = Ok os -> 1 <= k -> nth_error ss (Z.to_nat (k - 1)) = Some s ->
  exists o, get_group_obj (view parsed os) (Some k) u = Ok o /\ holds parsed s o /\ g_number (o_info o) = k.
Proof. exact end_to_end_by_number. Qed.
Print Assumptions C18_end_to_end_by_number.

Theorem C18_end_to_end_number_missing : forall h ss os parsed k u,
  build_full h ss = Ok os -> (k < 1 \/ zlen ss < k) -> get_group_obj (view parsed os) (Some k) u = Err VE.
Proof. exact end_to_end_number_missing. Qed.
Print Assumptions C18_end_to_end_number_missing.

Theorem C18_end_to_end_by_uid : forall h ss os parsed s,
  build_full h ss = Ok os -> NoDup (map (fun s => g_uid (s_info s)) ss) -> In s ss ->
  exists o, get_group_obj (view parsed os) None (Some (g_uid (s_info s))) = Ok o /\ holds parsed s o.
Proof. exact end_to_end_by_uid. Qed.
Print Assumptions C18_end_to_end_by_uid.

(* label / property / graphic type / algorithm filters return exactly the groups whose given
   identification meets every criterion, in order, each holding its data *)
Theorem C18_end_to_end_filter : forall h ss os parsed q, build_full h ss = Ok os ->
  Forall2 (holds parsed) (filter (fun s => matches q (norm_info (s_info s))) ss)
          (get_groups_obj (view parsed os) q).
Proof. exact end_to_end_filter. Qed.
Print Assumptions C18_end_to_end_filter.

(* ---- non-vacuity of the extension ------------------------------------------------------------------ *)
(* two groups (3-D): #1 MANUAL polygons with shared z, an algorithm identification that is
   NOT stored, two measurements (one with an absent value); #2 AUTOMATIC polylines, varying z *)
Definition ex_hdr : sophdr := mkH true true 1 1 true.
Definition ex_specs : list gspec :=
  [ mkGS (mkG 1 10 0 0 1 POLYGON 0 (Some (0, 0, 0))) false ex_poly3d_shared
         [(0, [1065353216; 2143289344]); (1, [1073741824; 1077936128])];
    mkGS (mkG 2 11 1 0 2 POLYLINE 2 (Some (0, 1, 0))) false ex_poly3d_varying [] ].

Example C18_example_object :
  Forall group_ok ex_specs /\ header_ok ex_hdr /\ numbers_ok ex_specs /\
  exists os, build_full ex_hdr ex_specs = Ok os /\
    (exists o, get_group_obj (view true os) None (Some 11) = Ok o /\ g_number (o_info o) = 2 /\
       run_ops (o_enc o) (o_cache o) [HOne 2 3; HAll 3; HOne 3 3] =
         [ROne (Ok (nth 1 ex_poly3d_varying [])); RAll (Ok ex_poly3d_varying); ROne (Err "IndexError"%string)]) /\
    (exists o, get_group_obj (view true os) (Some 1) None = Ok o /\
       get_measurement_matrix (e_n (o_enc o)) (o_ms o) None =
         Ok ([0; 1], [[1065353216; 1073741824]; [2143289344; 1077936128]]) /\
       get_measurement_matrix (e_n (o_enc o)) (o_ms o) (Some 1) = Ok ([1], [[1073741824]; [1077936128]])) /\
    map (fun o => g_number (o_info o))
        (get_groups_obj (view false os) (mkQ None None None None None (Some 0) None None)) = [2] /\
    build_full ex_hdr (tl ex_specs) = Err VE /\
    build_full (mkH true false 2 1 true) ex_specs = Err VE /\
    build_full ex_hdr [mkGS (mkG 1 10 0 0 1 POLYLINE 1 None) false ex_poly3d_varying []] = Err "TypeError"%string /\
    build_full ex_hdr [mkGS (mkG 1 10 0 0 1 POLYLINE 0 None) false ex_poly3d_varying [(0, [1065353216])]] = Err VE.
Proof.
  split.
  { apply Forall_forall. intros s Hs. apply build_group_accepts_iff.
    cbn [ex_specs In] in Hs. destruct Hs as [<-|[<-|[]]]; eexists; vm_compute; reflexivity. }
  split; [apply sop_header_ok_iff; vm_compute; reflexivity|].
  split; [intros i s Hs; destruct i as [|[|[|i]]]; cbn in Hs; inversion Hs; subst; reflexivity|].
  eexists. split; [vm_compute; reflexivity|].
  split; [eexists; split; [vm_compute; reflexivity|split; vm_compute; reflexivity]|].
  split; [eexists; split; [vm_compute; reflexivity|split; vm_compute; reflexivity]|].
  split; [vm_compute; reflexivity|].
  split; [vm_compute; reflexivity|].
  split; [vm_compute; reflexivity|].
  split; vm_compute; reflexivity.
Qed.
Print Assumptions C18_example_object.

Example C18_example_get_values :
  (* [1.0; NaN; 2.0; NaN] parsed: 3, 4, 6 annotations accepted (cut / padded), 2 refused *)
  let m := m_parsed (m_encode [1065353216; 2143289344; 1073741824; 4290774085]) in
  m_decode m 3 = Ok [1065353216; 2143289344; 1073741824] /\
  m_decode m 4 = Ok [1065353216; 2143289344; 1073741824; 2143289344] /\
  m_decode m 6 = Ok [1065353216; 2143289344; 1073741824; 2143289344; 2143289344; 2143289344] /\
  m_decode m 2 = Err "IndexError"%string /\ m_decode m (-1) = Err VE /\
  resize 3 [5; 6; 7; 8] = [5; 6; 7] /\
  m_decode (m_parsed (m_encode [1065353216; 1073741824])) 3 = Err "IndexError"%string.
Proof. repeat split; vm_compute; reflexivity. Qed.
Print Assumptions C18_example_get_values.

(* ---- int32 arithmetic of the index list ---------------------------------------------------------
   [point_index_list32]: LongPrimitivePointIndexList as numpy accumulates it, in wrapping
   int32; it is the unbounded list of the round-trip theorems for every group that stores
   fewer than 2^31 - 1 coordinate values, every entry is an int32, and beyond the bound the
   lists do differ *)
Theorem C18_index_list_int32_exact : forall sd (gd : list annot), 0 <= sd ->
  sd * zlen (concat gd) < 2147483647 -> point_index_list32 sd gd = point_index_list sd gd.
Proof. exact index_list32_exact_rows. Qed.
Print Assumptions C18_index_list_int32_exact.

Theorem C18_index_list_int32_in_range : forall spans i,
  In i (index_list32_of_spans spans) -> -2147483648 <= i < 2147483648.
Proof. exact index_list32_in_range. Qed.
Print Assumptions C18_index_list_int32_in_range.

Theorem C18_index_list_int32_wraps_beyond : exists spans, Forall (fun x => 0 <= x) spans /\
  sumz spans = 2147483647 + 2 /\
  index_list32_of_spans spans <> 1 :: removelast (map (fun c => c + 1) (cumsum_from 0 spans)).
Proof. exact index_list32_wraps_beyond. Qed.
Print Assumptions C18_index_list_int32_wraps_beyond.

(* ---- from_dataset guards ------------------------------------------------------------------------- *)
Theorem C18_parse_guard_accepts_iff : forall p,
  parse_sop_guard p = Ok tt <-> exists fm, p = PDataset true fm /\ fm <> Some false.
Proof. exact parse_guard_accepts_iff. Qed.
Print Assumptions C18_parse_guard_accepts_iff.

Theorem C18_parse_guard_errors : forall p k, parse_sop_guard p = Err k ->
  (k = "TypeError"%string /\ p = PNotDataset) \/ (k = VE /\ p <> PNotDataset).
Proof. exact parse_guard_errors. Qed.
Print Assumptions C18_parse_guard_errors.

Example C18_example_int32 :
  point_index_list32 3 ex_poly3d_varying = [1; 7] /\ point_index_list 3 ex_poly3d_varying = [1; 7] /\
  3 * zlen (concat ex_poly3d_varying) < 2147483647 /\
  cumsum32_from 0 [2147483646; 2; 1] = [2147483646; -2147483648; -2147483647] /\
  parse_sop_guard (PDataset true None) = Ok tt /\ parse_sop_guard (PDataset true (Some false)) = Err VE.
Proof. repeat split; vm_compute; reflexivity. Qed.
Print Assumptions C18_example_int32.

(* ---- the non-finite guard looks at the INPUT, before the shared z leaves the point data --------- *)
(* whatever an accepted group writes - (Double)PointCoordinatesData and CommonZCoordinateValue - is finite *)
Theorem C18_stored_words_finite : forall dbl gt gd e, encode dbl gt gd = Ok e ->
  (forall w, In w (e_data e) -> is_finite dbl w = true) /\
  (forall z, e_cz e = Some z -> is_finite dbl z = true).
Proof. exact stored_words_finite. Qed.
Print Assumptions C18_stored_words_finite.

Theorem C18_reject_non_finite_z : forall dbl gt gd a r, In a gd -> In r a -> zlen r = 3 ->
  is_finite dbl (third r) = false -> encode dbl gt gd = Err VE.
Proof. exact reject_non_finite_z. Qed.
Print Assumptions C18_reject_non_finite_z.

(* every row carries one and the same non-finite z word (all NaN / all +inf / all -inf): refused,
   although that column would not be part of the point data *)
Theorem C18_reject_non_finite_shared_z : forall dbl gt gd z, concat gd <> [] ->
  (forall a r, In a gd -> In r a -> zlen r = 3 /\ third r = z) ->
  is_finite dbl z = false -> encode dbl gt gd = Err VE.
Proof. exact reject_non_finite_shared_z. Qed.
Print Assumptions C18_reject_non_finite_shared_z.

(* on non-empty input that passes the shape rules: accepted <-> every word of every row is finite *)
Theorem C18_accepted_iff_all_finite : forall dbl gt gd, gd <> [] ->
  forallb (annot_ok dbl gt) gd = true ->
  (exists d, (d = 2 \/ d = 3) /\ forall a r, In a gd -> In r a -> zlen r = d) ->
  ((exists e, encode dbl gt gd = Ok e) <->
   (forall a r w, In a gd -> In r a -> In w r -> is_finite dbl w = true)).
Proof. exact accepted_iff_all_finite. Qed.
Print Assumptions C18_accepted_iff_all_finite.

(* a test of the would-be point data (x, y of every row) alone is strictly weaker than the guard *)
Theorem C18_point_data_check_insufficient : exists dbl gt gd,
  forallb (is_finite dbl) (xy_words gd) = true /\ encode dbl gt gd = Err VE /\
  forallb (annot_ok dbl gt) gd = true.
Proof. exact point_data_check_insufficient. Qed.
Print Assumptions C18_point_data_check_insufficient.

(* non-vacuity: a polyline and a point whose z column is all +inf (binary64) / all NaN with one payload
   (binary32) meet the hypotheses of C18_reject_non_finite_shared_z; the same rows with a finite shared z
   are accepted and store that z *)
Example C18_example_non_finite_shared_z :
  let inf64 := 9218868437227405312 in
  let gd64 := [[[4607182418800017408; 4611686018427387904; inf64]; [4613937818241073152; 4616189618054758400; inf64]]] in
  let gd32 := [[[1065353216; 1073741824; 2143289345]]; [[1077936128; 1082130432; 2143289345]]] in
  let ok32 := [[[1065353216; 1073741824; 1084227584]]; [[1077936128; 1082130432; 1084227584]]] in
  is_finite true inf64 = false /\ encode true POLYLINE gd64 = Err VE /\
  is_finite false 2143289345 = false /\ encode false POINT gd32 = Err VE /\
  forallb (is_finite false) (xy_words gd32) = true /\
  encode false POINT ok32 = Ok (mkEnc false POINT 2 [1065353216; 1073741824; 1077936128; 1082130432] (Some 1084227584) None).
Proof. repeat split; vm_compute; reflexivity. Qed.
Print Assumptions C18_example_non_finite_shared_z.

(* ---- the point count rule holds for EVERY annotation, whatever the total -------------------------
   [fixed_count]: POINT 1, ELLIPSE 4, RECTANGLE 4; [min_count]: POLYLINE 2, POLYGON 3 *)
Theorem C18_accepted_counts : forall dbl gt gd e, encode dbl gt gd = Ok e ->
  forall a, In a gd -> count_ok gt (zlen a) = true.
Proof. exact accepted_counts. Qed.
Print Assumptions C18_accepted_counts.

Theorem C18_accepted_counts_fixed : forall dbl gt gd e k, encode dbl gt gd = Ok e -> fixed_count gt = Some k ->
  (forall a, In a gd -> zlen a = k) /\ zlen (concat gd) = k * zlen gd.
Proof. exact accepted_counts_fixed. Qed.
Print Assumptions C18_accepted_counts_fixed.

(* one annotation of another size anywhere: ValueError, also when the sizes add up to k * n *)
Theorem C18_reject_wrong_count_any_total : forall dbl gt gd k a, fixed_count gt = Some k ->
  In a gd -> zlen a <> k -> encode dbl gt gd = Err VE.
Proof. exact reject_wrong_count_any_total. Qed.
Print Assumptions C18_reject_wrong_count_any_total.

Theorem C18_reject_too_few_points : forall dbl gt gd a,
  In a gd -> zlen a < min_count gt -> encode dbl gt gd = Err VE.
Proof. exact reject_too_few_points. Qed.
Print Assumptions C18_reject_too_few_points.

(* on non-empty input passing every other rule: accepted <-> every annotation obeys the count rule *)
Theorem C18_accepted_iff_counts : forall dbl gt gd, gd <> [] ->
  (gt = POLYGON -> forall a, In a gd -> closed dbl a = false) ->
  (exists d, (d = 2 \/ d = 3) /\ forall a r, In a gd -> In r a -> zlen r = d) ->
  (forall a r w, In a gd -> In r a -> In w r -> is_finite dbl w = true) ->
  ((exists e, encode dbl gt gd = Ok e) <-> (forall a, In a gd -> count_ok gt (zlen a) = true)).
Proof. exact accepted_iff_counts. Qed.
Print Assumptions C18_accepted_iff_counts.

(* a test of the total number of points alone is strictly weaker than the rule: outlines of 3 + 5
   points (8 = 4 * 2), a pair of points next to an empty array (2 = 1 * 2), polylines of 1 + 3 and open
   polygons of 2 + 6 points - everything else in order, all refused *)
Theorem C18_total_count_check_insufficient :
  (forall gt, gt = ELLIPSE \/ gt = RECTANGLE ->
     zlen (concat three_five) = 4 * zlen three_five /\ others_in_order false three_five /\
     encode false gt three_five = Err VE) /\
  (zlen (concat two_zero) = 1 * zlen two_zero /\ others_in_order false two_zero /\
   encode false POINT two_zero = Err VE) /\
  (2 * zlen [firstn 1 eight_points; skipn 5 eight_points] <= zlen (concat [firstn 1 eight_points; skipn 5 eight_points]) /\
   encode false POLYLINE [firstn 1 eight_points; skipn 5 eight_points] = Err VE) /\
  (3 * zlen [firstn 2 eight_points; skipn 2 eight_points] <= zlen (concat [firstn 2 eight_points; skipn 2 eight_points]) /\
   closed false (firstn 2 eight_points) = false /\ closed false (skipn 2 eight_points) = false /\
   encode false POLYGON [firstn 2 eight_points; skipn 2 eight_points] = Err VE).
Proof. exact total_count_check_insufficient. Qed.
Print Assumptions C18_total_count_check_insufficient.

(* non-vacuity: the 3 + 5 group, had it been written, decodes to 4 + 4 (same points, another partition);
   the well-formed 4 + 4 group of the same points is accepted and meets C18_accepted_counts_fixed *)
Example C18_example_counts :
  (let e := mkEnc false ELLIPSE (zlen three_five) (concat (concat three_five)) None None in
   decode e 2 = Ok [firstn 4 eight_points; skipn 4 eight_points] /\
   concat [firstn 4 eight_points; skipn 4 eight_points] = concat three_five /\
   [firstn 4 eight_points; skipn 4 eight_points] <> three_five) /\
  (exists e, encode false ELLIPSE [firstn 4 eight_points; skipn 4 eight_points] = Ok e /\
             decode e 2 = Ok [firstn 4 eight_points; skipn 4 eight_points]) /\
  fixed_count ELLIPSE = Some 4 /\ In (firstn 3 eight_points) three_five /\ zlen (firstn 3 eight_points) <> 4.
Proof.
  split; [exact total_count_moves_points|]. split; [eexists; split; vm_compute; reflexivity|].
  split; [reflexivity|]. split; [now left|]. vm_compute. discriminate.
Qed.
Print Assumptions C18_example_counts.

(* ==== groups are found by the NUMBER THEY CARRY, not by their position ==========================
   On a constructed instance item i carries number i+1, and the theorems above use that.  from_dataset
   and annread check nothing about Annotation Group Numbers: an instance can reach them with groups
   removed, items stored in another order, sparse numbers, a number carried twice.  The theorems
   below are about ARBITRARY item sequences ([onum o] = the AnnotationGroupNumber carried by o), then
   about [edit_items (view parsed os) ed] = the sequence of an accepted instance rearranged by [ed]
   (per entry: position of the item taken, optional new number). *)
(* the group handed back is an item of the sequence, carries the number asked for, and no other
   item does *)
Theorem C18_by_number_sound : forall os k u o, get_group_obj os (Some k) u = Ok o ->
  In o os /\ onum o = k /\ forall x, In x os -> onum x = k -> x = o.
Proof. exact obj_by_number_sound_only. Qed.
Print Assumptions C18_by_number_sound.

(* distinct numbers, in any order and with any gaps: every group is found by its number *)
Theorem C18_by_number_complete : forall os o u, NoDup (map onum os) -> In o os ->
  get_group_obj os (Some (onum o)) u = Ok o.
Proof. exact obj_by_number_complete. Qed.
Print Assumptions C18_by_number_complete.

(* exact: found iff exactly one item carries the number *)
Theorem C18_by_number_iff : forall os k u o,
  get_group_obj os (Some k) u = Ok o <->
  exists l1 l2, os = l1 ++ o :: l2 /\ onum o = k /\ ~ In k (map onum l1) /\ ~ In k (map onum l2).
Proof. exact obj_by_number_iff. Qed.
Print Assumptions C18_by_number_iff.

(* a number nobody carries: ValueError - however many items there are; a number carried twice:
   ValueError *)
Theorem C18_by_number_absent_or_ambiguous :
  (forall os k u, ~ In k (map onum os) -> get_group_obj os (Some k) u = Err VE) /\
  (forall l1 a l2 b l3 k u, onum a = k -> onum b = k ->
     get_group_obj (l1 ++ a :: l2 ++ b :: l3) (Some k) u = Err VE).
Proof. exact (conj obj_by_number_absent obj_by_number_ambiguous). Qed.
Print Assumptions C18_by_number_absent_or_ambiguous.

(* position does not matter: the order in which the items are stored changes no lookup (by number,
   by uid, without key), and removing a group that carries another number changes nothing *)
Theorem C18_lookup_position_independent :
  (forall os os' number uid, Permutation.Permutation os os' ->
     get_group_obj os number uid = get_group_obj os' number uid) /\
  (forall l1 x l2 k u, onum x <> k ->
     get_group_obj (l1 ++ x :: l2) (Some k) u = get_group_obj (l1 ++ l2) (Some k) u).
Proof. exact (conj obj_lookup_order_independent obj_by_number_removal). Qed.
Print Assumptions C18_lookup_position_independent.

(* the same on identification records ([get_group]): sound, complete under distinct numbers,
   ValueError when absent / carried twice, independent of the order *)
Theorem C18_lookup_records_by_number :
  (forall gs k u g, get_group gs (Some k) u = Ok g -> In g gs /\ g_number g = k) /\
  (forall gs g u, NoDup (map g_number gs) -> In g gs -> get_group gs (Some (g_number g)) u = Ok g) /\
  (forall gs k u, ~ In k (map g_number gs) -> get_group gs (Some k) u = Err VE) /\
  (forall l1 a l2 b l3 k u, g_number a = k -> g_number b = k ->
     get_group (l1 ++ a :: l2 ++ b :: l3) (Some k) u = Err VE) /\
  (forall gs gs' number uid, Permutation.Permutation gs gs' -> get_group gs number uid = get_group gs' number uid).
Proof.
  exact (conj by_number_sound (conj by_number_complete (conj by_number_absent
          (conj by_number_ambiguous lookup_order_independent)))).
Qed.
Print Assumptions C18_lookup_records_by_number.

(* every item of a rearranged instance holds the data given for the group it was made from *)
Theorem C18_edited_holds : forall h ss os parsed ed o, build_full h ss = Ok os ->
  In o (edit_items (view parsed os) ed) ->
  exists p r s, In (p, r) ed /\ 0 <= p /\ nth_error ss (Z.to_nat p) = Some s /\ holds parsed (renumber_spec r s) o.
Proof. exact edited_holds. Qed.
Print Assumptions C18_edited_holds.

(* THE property sentence on a rearranged instance (fresh or parsed): the numbers carried being
   distinct, the item made from group p is found by the number it carries - wherever it is stored,
   whatever else was removed - and answers every accessor history and every get_measurements call
   with what was given for group p *)
Theorem C18_end_to_end_edited_by_number : forall h ss os parsed ed p r s u,
  build_full h ss = Ok os -> NoDup (map onum (edit_items (view parsed os) ed)) ->
  In (p, r) ed -> 0 <= p -> nth_error ss (Z.to_nat p) = Some s ->
  exists o, get_group_obj (edit_items (view parsed os) ed) (Some (spec_number r s)) u = Ok o /\
            holds parsed (renumber_spec r s) o /\ onum o = spec_number r s.
Proof. exact end_to_end_edited_by_number. Qed.
Print Assumptions C18_end_to_end_edited_by_number.

(* without any hypothesis on the numbers: what is handed back for number k carries k and holds the
   data of the group it was made from; a number no item carries is reported *)
Theorem C18_end_to_end_edited_sound :
  (forall h ss os parsed ed k u o,
     build_full h ss = Ok os -> get_group_obj (edit_items (view parsed os) ed) (Some k) u = Ok o ->
     onum o = k /\
     exists p r s, In (p, r) ed /\ 0 <= p /\ nth_error ss (Z.to_nat p) = Some s /\
                   holds parsed (renumber_spec r s) o) /\
  (forall h ss os parsed ed k u,
     build_full h ss = Ok os -> ~ In k (map onum (edit_items (view parsed os) ed)) ->
     get_group_obj (edit_items (view parsed os) ed) (Some k) u = Err VE).
Proof. exact (conj end_to_end_edited_sound end_to_end_edited_number_missing). Qed.
Print Assumptions C18_end_to_end_edited_sound.

(* the numbers carried by the rearranged sequence are computable from the specification, and the
   identity rearrangement is the constructed instance (so the theorems above extend the
   constructor-numbered ones) *)
Theorem C18_edited_numbers :
  (forall h ss os parsed ed, build_full h ss = Ok os ->
     map onum (edit_items (view parsed os) ed) =
     flat_map (fun e => if fst e <? 0 then [] else
                        match nth_error ss (Z.to_nat (fst e)) with
                        | Some s => [spec_number (snd e) s]
                        | None => []
                        end) ed) /\
  (forall os : list gobj, edit_items os (map (fun i => (Z.of_nat i, None)) (seq 0 (length os))) = os).
Proof. exact (conj edited_numbers edit_items_identity). Qed.
Print Assumptions C18_edited_numbers.

(* non-vacuity, and position <> number: the two groups of ex_specs; (a) group #1 removed from
   the parsed instance: number 2 is found - at position 0 - with the polylines of group #2, number
   1 is reported missing; (b) items stored in reverse order: both found by number, each with its
   own data; (c) group #2 renumbered 7: found as 7, not as 2; (d) both items carry number 2:
   ValueError, lookup by uid still tells them apart *)
Example C18_example_edited :
  exists os, build_full ex_hdr ex_specs = Ok os /\
    (let os' := edit_items (view true os) [(1, None)] in
     map onum os' = [2] /\ get_group_obj os' (Some 1) None = Err VE /\
     exists o, get_group_obj os' (Some 2) None = Ok o /\ nth_error os' 0 = Some o /\ ouid o = 11 /\
       run_ops (o_enc o) (o_cache o) [HOne 2 3; HAll 3] =
         [ROne (Ok (nth 1 ex_poly3d_varying [])); RAll (Ok ex_poly3d_varying)]) /\
    (let os' := edit_items (view true os) [(1, None); (0, None)] in
     map onum os' = [2; 1] /\
     (exists o, get_group_obj os' (Some 1) None = Ok o /\ nth_error os' 1 = Some o /\ ouid o = 10 /\
        run_ops (o_enc o) (o_cache o) [HAll 3] = [RAll (Ok ex_poly3d_shared)]) /\
     (exists o, get_group_obj os' (Some 2) None = Ok o /\ nth_error os' 0 = Some o /\ ouid o = 11)) /\
    (let os' := edit_items (view false os) [(0, None); (1, Some 7)] in
     get_group_obj os' (Some 2) None = Err VE /\
     exists o, get_group_obj os' (Some 7) None = Ok o /\ ouid o = 11) /\
    (let os' := edit_items (view true os) [(0, Some 2); (1, None)] in
     get_group_obj os' (Some 2) None = Err VE /\ get_group_obj os' (Some 1) None = Err VE /\
     exists o, get_group_obj os' None (Some 10) = Ok o /\ onum o = 2).
Proof.
  eexists. split; [vm_compute; reflexivity|].
  split; [split; [vm_compute; reflexivity|split; [vm_compute; reflexivity|
          eexists; repeat split; vm_compute; reflexivity]]|].
  split; [split; [vm_compute; reflexivity|split;
          eexists; repeat split; vm_compute; reflexivity]|].
  split; [split; [vm_compute; reflexivity|eexists; split; vm_compute; reflexivity]|].
  split; [vm_compute; reflexivity|split; [vm_compute; reflexivity|eexists; split; vm_compute; reflexivity]].
Qed.
Print Assumptions C18_example_edited.
