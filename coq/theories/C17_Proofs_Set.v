(* C17 - proofs, part 3: sets and dictionaries keyed by codes (several keys). *)
From Coq Require Import String ZArith List Bool Ascii Lia.
From HD Require Import Base.Val C17_Model C17_Proofs.
Import ListNotations.
Open Scope string_scope.
Open Scope Z_scope.

(* ---- generic: a table searched with a relation that is an equivalence on the keys in use ---- *)
Section Dedup.
  Context {A : Type}.
  Variable P : A -> Prop.
  Variable R : A -> A -> bool.
  Hypothesis Rrefl : forall a, P a -> R a a = true.
  Hypothesis Rsym : forall a b, R a b = R b a.
  Hypothesis Rtrans : forall a b c, R a b = true -> R b c = true -> R a c = true.

  Fixpoint pfind (s : list A) (x : A) : option nat :=
    match s with
    | [] => None
    | e :: t => if R e x then Some O else option_map S (pfind t x)
    end.
  Definition padd (s : list A) (x : A) : list A :=
    match pfind s x with Some _ => s | None => (s ++ [x])%list end.
  Definition pset (l : list A) : list A := fold_left padd l [].

  (* no two stored keys match *)
  Definition Sep (s : list A) : Prop :=
    forall i j a b, (i < j)%nat -> nth_error s i = Some a -> nth_error s j = Some b -> R a b = false.

  Lemma pfind_Some : forall s x i, pfind s x = Some i ->
    exists e, nth_error s i = Some e /\ R e x = true /\
              forall j e', (j < i)%nat -> nth_error s j = Some e' -> R e' x = false.
  Proof.
    induction s as [|e t IH]; intros x i H; cbn [pfind] in H; [discriminate|].
    destruct (R e x) eqn:E.
    - injection H as <-. exists e. repeat split; auto. intros j e' Hj. lia.
    - destruct (pfind t x) as [k|] eqn:F; cbn in H; [|discriminate]. injection H as <-.
      destruct (IH x k F) as [e0 [H1 [H2 H3]]]. exists e0. repeat split; auto.
      intros [|j] e' Hj Hn; cbn in Hn; [congruence|]. eapply H3; eauto. lia.
  Qed.

  Lemma pfind_None : forall s x, pfind s x = None <-> forall e, In e s -> R e x = false.
  Proof.
    induction s as [|e t IH]; intros x; cbn [pfind].
    - split; [intros _ e [] | reflexivity].
    - destruct (R e x) eqn:E.
      + split; [discriminate | intros H; rewrite (H e (or_introl eq_refl)) in E; discriminate].
      + destruct (pfind t x) as [k|] eqn:F; cbn.
        * split; [discriminate|]. intros H. assert (N : pfind t x = None) by (apply IH; intros; apply H; now right).
          congruence.
        * split; [|reflexivity]. intros _ e' [<-|Hin]; [exact E|]. now apply (proj1 (IH x) F).
  Qed.

  Lemma pfind_lt : forall s x i, pfind s x = Some i -> (i < length s)%nat.
  Proof.
    intros s x i H. destruct (pfind_Some s x i H) as [e [Hn _]]. apply nth_error_Some. congruence.
  Qed.

  Lemma pfind_app : forall s k x,
    pfind (s ++ [k]) x = match pfind s x with
                         | Some j => Some j
                         | None => if R k x then Some (length s) else None
                         end.
  Proof.
    induction s as [|e t IH]; intros k x; cbn [pfind app length].
    - now destruct (R k x).
    - destruct (R e x); [reflexivity|]. rewrite IH. destruct (pfind t x); cbn; [reflexivity|].
      now destruct (R k x).
  Qed.

  Lemma Sep_app : forall s x, Sep s -> (forall e, In e s -> R e x = false) -> Sep (s ++ [x]).
  Proof.
    intros s x S N i j a b Hij Ha Hb.
    assert (Lj : (j < length (s ++ [x]))%nat) by (apply nth_error_Some; congruence).
    rewrite app_length in Lj. cbn [length] in Lj.
    assert (Li : (i < length s)%nat) by lia.
    rewrite (nth_error_app1 s [x] Li) in Ha.
    destruct (Nat.eq_dec j (length s)) as [Ej|Hne].
    - subst j. rewrite nth_error_app2 in Hb by lia. rewrite Nat.sub_diag in Hb. cbn in Hb. injection Hb as <-.
      apply N. eapply nth_error_In; eauto.
    - assert (Lj' : (j < length s)%nat) by lia. rewrite (nth_error_app1 s [x] Lj') in Hb. exact (S i j a b Hij Ha Hb).
  Qed.

  (* what one insertion keeps true *)
  Definition Rep (l s : list A) : Prop :=
    (forall e, In e s -> In e l) /\ (forall x, In x l -> exists e, In e s /\ R e x = true) /\ Sep s.

  Lemma padd_Rep : forall l s x, Rep l s -> P x -> Rep (l ++ [x]) (padd s x).
  Proof.
    intros l s x [I1 [I2 I3]] Px. unfold padd. destruct (pfind s x) as [i|] eqn:F.
    - destruct (pfind_Some s x i F) as [e [Hn [He _]]]. repeat split; auto.
      + intros e' Hin. apply in_or_app. left. auto.
      + intros y Hy. apply in_app_or in Hy as [Hy|[<-|[]]]; auto. exists e. split; [eapply nth_error_In; eauto|exact He].
    - pose proof (proj1 (pfind_None s x) F) as N. repeat split.
      + intros e Hin. apply in_app_or in Hin as [Hin|[<-|[]]]; apply in_or_app; [left; auto | right; now left].
      + intros y Hy. apply in_app_or in Hy as [Hy|[<-|[]]].
        * destruct (I2 y Hy) as [e [He1 He2]]. exists e. split; [apply in_or_app; now left | exact He2].
        * exists x. split; [apply in_or_app; right; now left | now apply Rrefl].
      + now apply Sep_app.
  Qed.

  Lemma fold_padd_Rep : forall l l0 s0, Rep l0 s0 -> Forall P l -> Rep (l0 ++ l) (fold_left padd l s0).
  Proof.
    induction l as [|x l IH]; intros l0 s0 H F; cbn [fold_left].
    - now rewrite app_nil_r.
    - inversion F; subst. replace (l0 ++ x :: l)%list with ((l0 ++ [x]) ++ l)%list by (rewrite <- app_assoc; reflexivity).
      apply IH; [now apply padd_Rep | assumption].
  Qed.

  Lemma pset_Rep : forall l, Forall P l -> Rep l (pset l).
  Proof.
    intros l F. apply (fold_padd_Rep l [] [] ); [|exact F].
    split; [intros ? []|]. split; [intros ? []|]. intros i j a b _ Ha. destruct i; discriminate.
  Qed.

  (* membership in the table = some inserted key matches *)
  Lemma pset_mem : forall l x, Forall P l ->
    (pfind (pset l) x <> None <-> exists e, In e l /\ R e x = true).
  Proof.
    intros l x F. destruct (pset_Rep l F) as [I1 [I2 I3]]. split.
    - intros H. destruct (pfind (pset l) x) as [i|] eqn:E; [|congruence].
      destruct (pfind_Some _ _ _ E) as [e [Hn [He _]]]. exists e. split; [apply I1; eapply nth_error_In; eauto | exact He].
    - intros [e [Hin He]] N. destruct (I2 e Hin) as [e' [Hin' He']].
      assert (T : R e' x = true) by (exact (Rtrans e' e x He' He)).
      rewrite (proj1 (pfind_None _ _) N e' Hin') in T. discriminate.
  Qed.

  (* exactly one stored key stands for each inserted key *)
  Lemma pset_unique : forall l x i j a b, Forall P l ->
    nth_error (pset l) i = Some a -> nth_error (pset l) j = Some b -> R a x = true -> R b x = true -> i = j.
  Proof.
    intros l x i j a b F Ha Hb Ra Rb. destruct (pset_Rep l F) as [_ [_ S]].
    assert (Rab : R a b = true) by (eapply Rtrans; [exact Ra | now rewrite Rsym]).
    destruct (Nat.lt_trichotomy i j) as [L|[E|L]]; [|exact E|].
    - rewrite (S i j a b L Ha Hb) in Rab. discriminate.
    - rewrite Rsym in Rab. rewrite (S j i b a L Hb Ha) in Rab. discriminate.
  Qed.

  (* a key matching one already present changes nothing *)
  Lemma padd_absorb : forall s a b, pfind s a <> None -> R a b = true -> padd s b = s.
  Proof.
    intros s a b Ha Rab. unfold padd. destruct (pfind s b) eqn:E; [reflexivity|].
    destruct (pfind s a) as [i|] eqn:F; [|congruence].
    destruct (pfind_Some _ _ _ F) as [e [Hn [He _]]].
    assert (T : R e b = true) by (exact (Rtrans e a b He Rab)).
    rewrite (proj1 (pfind_None _ _) E e (nth_error_In _ _ Hn)) in T. discriminate.
  Qed.

  Lemma pset_snoc : forall l x, pset (l ++ [x]) = padd (pset l) x.
  Proof. intros. unfold pset. now rewrite fold_left_app. Qed.

  (* ---- dictionary ---------------------------------------------------------------------- *)
  Definition pdset (d : list (A * Z)) (x : A) (v : Z) : list (A * Z) :=
    match pfind (map fst d) x with
    | Some i => (fix upd (d : list (A * Z)) (i : nat) : list (A * Z) :=
                   match d, i with
                   | [], _ => []
                   | (k, _) :: t, O => (k, v) :: t
                   | kv :: t, S i' => kv :: upd t i'
                   end) d i
    | None => (d ++ [(x, v)])%list
    end.
  Definition pdget (d : list (A * Z)) (x : A) : option Z :=
    match pfind (map fst d) x with
    | Some i => option_map snd (nth_error d i)
    | None => None
    end.
  Definition pdict (l : list (A * Z)) : list (A * Z) := fold_left (fun d kv => pdset d (fst kv) (snd kv)) l [].
  (* the value written last under a matching key *)
  Definition plast (l : list (A * Z)) (x : A) : option Z :=
    fold_left (fun acc kv => if R (fst kv) x then Some (snd kv) else acc) l None.

  Fixpoint upd (v : Z) (d : list (A * Z)) (i : nat) : list (A * Z) :=
    match d, i with
    | [], _ => []
    | (k, _) :: t, O => (k, v) :: t
    | kv :: t, S i' => kv :: upd v t i'
    end.

  Lemma pdset_upd : forall d x v, pdset d x v = match pfind (map fst d) x with Some i => upd v d i | None => (d ++ [(x, v)])%list end.
  Proof.
    intros. unfold pdset. destruct (pfind (map fst d) x) as [i|]; [|reflexivity].
    revert i. induction d as [|[k w] t IH]; intros [|i]; cbn; try reflexivity. now rewrite IH.
  Qed.

  Lemma map_fst_upd : forall v d i, map fst (upd v d i) = map fst d.
  Proof. intros v. induction d as [|[k w] t IH]; intros [|i]; cbn; try reflexivity. now rewrite IH. Qed.

  Lemma nth_upd_same : forall v d i k w, nth_error d i = Some (k, w) -> nth_error (upd v d i) i = Some (k, v).
  Proof. intros v. induction d as [|[k' w'] t IH]; intros [|i] k w H; cbn in *; try discriminate; [congruence | eauto]. Qed.

  Lemma nth_upd_other : forall v d i j, i <> j -> nth_error (upd v d i) j = nth_error d j.
  Proof.
    intros v. induction d as [|[k' w'] t IH]; intros [|i] [|j] H; cbn; try reflexivity; try contradiction.
    apply IH. congruence.
  Qed.

  (* the keys of the dictionary are the set of the keys written: the key object stored first stays *)
  Lemma pdict_keys_gen : forall l d, map fst (fold_left (fun d kv => pdset d (fst kv) (snd kv)) l d) =
                                     fold_left padd (map fst l) (map fst d).
  Proof.
    induction l as [|[k v] l IH]; intros d; cbn [fold_left map fst snd]; [reflexivity|].
    rewrite IH. f_equal. rewrite pdset_upd. unfold padd. destruct (pfind (map fst d) k) as [i|].
    - apply map_fst_upd.
    - rewrite map_app. reflexivity.
  Qed.

  Lemma pdict_keys : forall l, map fst (pdict l) = pset (map fst l).
  Proof. intros. apply (pdict_keys_gen l []). Qed.

  Lemma Forall_P_keys : forall l, Forall P (map fst l) -> Forall P (map fst (pdict l)).
  Proof.
    intros l F. rewrite pdict_keys. destruct (pset_Rep _ F) as [I1 _].
    apply Forall_forall. intros e He. rewrite Forall_forall in F. auto.
  Qed.

  (* one write *)
  Lemma pdget_pdset : forall d k v x, Sep (map fst d) ->
    pdget (pdset d k v) x = if R k x then Some v else pdget d x.
  Proof.
    intros d k v x S. rewrite pdset_upd. unfold pdget.
    destruct (pfind (map fst d) k) as [i|] eqn:Fk.
    - rewrite map_fst_upd.
      destruct (pfind_Some _ _ _ Fk) as [ki [Hki [Rki _]]].
      assert (Hdi : exists w, nth_error d i = Some (ki, w)).
      { rewrite nth_error_map in Hki. destruct (nth_error d i) as [[k' w]|]; cbn in Hki; [|discriminate].
        injection Hki as ->. eauto. }
      destruct Hdi as [w Hdi].
      destruct (pfind (map fst d) x) as [j|] eqn:Fx.
      + destruct (pfind_Some _ _ _ Fx) as [kj [Hkj [Rkj _]]].
        destruct (R k x) eqn:Rkx.
        * assert (Rij : R ki kj = true).
          { eapply Rtrans; [eapply Rtrans; [exact Rki | exact Rkx] | now rewrite Rsym]. }
          assert (i = j).
          { destruct (Nat.lt_trichotomy i j) as [L|[E|L]]; [|exact E|].
            - rewrite (S i j ki kj L Hki Hkj) in Rij. discriminate.
            - rewrite Rsym in Rij. rewrite (S j i kj ki L Hkj Hki) in Rij. discriminate. }
          subst j. now rewrite (nth_upd_same v d i ki w Hdi).
        * assert (i <> j).
          { intros ->. rewrite Hki in Hkj. injection Hkj as <-.
            assert (R k x = true) by (eapply Rtrans; [rewrite Rsym; exact Rki | exact Rkj]). congruence. }
          now rewrite nth_upd_other.
      + destruct (R k x) eqn:Rkx; [|reflexivity].
        assert (R ki x = true) by (eapply Rtrans; eauto).
        rewrite (proj1 (pfind_None _ _) Fx ki (nth_error_In _ _ Hki)) in H. discriminate.
    - rewrite map_app. cbn [map fst]. rewrite pfind_app.
      destruct (pfind (map fst d) x) as [j|] eqn:Fx.
      + destruct (pfind_Some _ _ _ Fx) as [kj [Hkj [Rkj _]]].
        assert (Lj : (j < length d)%nat) by (rewrite <- (map_length fst); eapply pfind_lt; eauto).
        rewrite nth_error_app1 by lia.
        destruct (R k x) eqn:Rkx; [|reflexivity].
        assert (R kj k = true) by (eapply Rtrans; [exact Rkj | now rewrite Rsym]).
        rewrite (proj1 (pfind_None _ _) Fk kj (nth_error_In _ _ Hkj)) in H. discriminate.
      + destruct (R k x); [|reflexivity].
        rewrite map_length, nth_error_app2, Nat.sub_diag by lia. reflexivity.
  Qed.

  Lemma pdict_snoc : forall l kv, pdict (l ++ [kv]) = pdset (pdict l) (fst kv) (snd kv).
  Proof. intros. unfold pdict. now rewrite fold_left_app. Qed.

  (* reading the dictionary = the last write under a matching key *)
  Lemma pdget_pdict : forall l x, Forall P (map fst l) -> pdget (pdict l) x = plast l x.
  Proof.
    intros l x. induction l as [|kv l IH] using rev_ind; intros F; [reflexivity|].
    rewrite map_app in F. apply Forall_app in F as [F1 F2].
    rewrite pdict_snoc, pdget_pdset.
    - unfold plast. rewrite fold_left_app. cbn [fold_left]. fold (plast l x). now rewrite IH.
    - rewrite pdict_keys. apply (pset_Rep _ F1).
  Qed.
End Dedup.

(* ---- instance: codes as keys ------------------------------------------------------------------------ *)
(* e matches x: equal hashed strings and equal normal forms (pure; defined when both can be hashed and read) *)
Definition omatch (srt : string -> option string) (a b : obj) : bool :=
  match hash_key a, hash_key b, oview a, oview b with
  | Ok ka, Ok kb, Some va, Some vb => String.eqb ka kb && code_eq srt va vb
  | _, _, _, _ => false
  end.
Definition ready (o : obj) : Prop := self_ready o = true /\ exists p, scheme_value o = Some p.
(* [U i] is the object whose identity is i *)
Definition eok (U : nat -> obj) (e : entry) : Prop := snd e = U (fst e) /\ ready (snd e).
Definition ematch (srt : string -> option string) (e x : entry) : bool := omatch srt (snd e) (snd x).

Lemma ready_parts : forall o, ready o -> exists k v, hash_key o = Ok k /\ oview o = Some v.
Proof.
  intros o [R [[s x] S]]. destruct (scheme_value_oview o s x S) as [ver V].
  rewrite hash_key_scheme_value, S. destruct o; eauto.
Qed.

Lemma omatch_refl : forall srt o, ready o -> omatch srt o o = true.
Proof.
  intros srt o R. destruct (ready_parts o R) as [k [v [Hk Hv]]]. unfold omatch. rewrite Hk, Hv.
  now rewrite String.eqb_refl, code_eq_refl.
Qed.

Lemma omatch_sym : forall srt a b, omatch srt a b = omatch srt b a.
Proof.
  intros srt a b. unfold omatch.
  destruct (hash_key a), (hash_key b), (oview a), (oview b); try reflexivity.
  now rewrite String.eqb_sym, code_eq_sym.
Qed.

Lemma omatch_trans : forall srt a b c, omatch srt a b = true -> omatch srt b c = true -> omatch srt a c = true.
Proof.
  intros srt a b c. unfold omatch.
  destruct (hash_key a), (hash_key b), (hash_key c), (oview a), (oview b), (oview c); try discriminate.
  rewrite !andb_true_iff, !String.eqb_eq. intros [-> E1] [-> E2]. split; [reflexivity|]. eapply code_eq_trans; eauto.
Qed.

(* on keys in use: matches = same hash and == *)
Lemma omatch_spec : forall srt a b, ready a -> ready b ->
  (omatch srt a b = true <-> hash_key a = hash_key b /\ obj_eq srt a b = Ok true).
Proof.
  intros srt a b Ra Rb. destruct (ready_parts a Ra) as [ka [va [Hka Hva]]]. destruct (ready_parts b Rb) as [kb [vb [Hkb Hvb]]].
  unfold omatch. rewrite Hka, Hkb, Hva, Hvb, (obj_eq_ready srt a b va vb (proj1 Ra) Hva Hvb).
  rewrite andb_true_iff, String.eqb_eq. split.
  - intros [-> ->]. split; reflexivity.
  - intros [[= ->] [= ->]]. split; reflexivity.
Qed.

Lemma slot_match_ready : forall srt U e x, eok U e -> eok U x -> slot_match srt e x = Ok (ematch srt e x).
Proof.
  intros srt U [ie oe] [ix ox] [Ue Re] [Ux Rx]. cbn [fst snd] in *.
  destruct (ready_parts oe Re) as [ke [ve [Hke Hve]]]. destruct (ready_parts ox Rx) as [kx [vx [Hkx Hvx]]].
  unfold slot_match, hash_eq, ematch, omatch. cbn [fst snd]. rewrite Hke, Hkx, Hve, Hvx. cbn [bind].
  destruct (String.eqb ke kx) eqn:E; [|reflexivity]. cbn [andb].
  destruct (Nat.eqb ie ix) eqn:I.
  - apply Nat.eqb_eq in I. subst ix. rewrite <- Ue in Ux. subst ox. rewrite Hve in Hvx. injection Hvx as <-.
    now rewrite code_eq_refl.
  - apply (obj_eq_ready srt oe ox ve vx (proj1 Re) Hve Hvx).
Qed.

Lemma set_find_ready : forall srt U s x, Forall (eok U) s -> eok U x ->
  set_find srt s x = Ok (pfind (ematch srt) s x).
Proof.
  intros srt U s x F Hx. induction F as [|e t He Ft IH]; cbn [set_find pfind]; [reflexivity|].
  rewrite (slot_match_ready srt U e x He Hx). cbn [bind]. destruct (ematch srt e x); [reflexivity|].
  now rewrite IH.
Qed.

Lemma set_lookup_ix_ready : forall srt U s x, Forall (eok U) s -> eok U x ->
  set_lookup_ix srt s x = Ok (pfind (ematch srt) s x).
Proof.
  intros srt U s x F Hx. unfold set_lookup_ix. destruct (ready_parts _ (proj2 Hx)) as [k [v [Hk _]]].
  rewrite Hk. cbn [bind]. eapply set_find_ready; eauto.
Qed.

Lemma set_add_ready : forall srt U s x, Forall (eok U) s -> eok U x ->
  set_add srt s x = Ok (padd (ematch srt) s x).
Proof.
  intros srt U s x F Hx. unfold set_add, padd. rewrite (set_lookup_ix_ready srt U s x F Hx). cbn [bind].
  now destruct (pfind (ematch srt) s x).
Qed.

Lemma padd_eok : forall srt U s x, Forall (eok U) s -> eok U x -> Forall (eok U) (padd (ematch srt) s x).
Proof.
  intros srt U s x F Hx. unfold padd. destruct (pfind (ematch srt) s x); [exact F|].
  apply Forall_app. split; [exact F | now constructor].
Qed.

Lemma set_fold_ready : forall srt U l s0, Forall (eok U) s0 -> Forall (eok U) l ->
  fold_left (fun acc x => bind acc (fun s => set_add srt s x)) l (Ok s0) = Ok (fold_left (padd (ematch srt)) l s0).
Proof.
  intros srt U l. induction l as [|x l IH]; intros s0 F0 F; cbn [fold_left]; [reflexivity|].
  inversion F; subst. cbn [bind]. rewrite (set_add_ready srt U s0 x F0 H1). apply IH; [now apply padd_eok | assumption].
Qed.

Lemma set_of_list_ready : forall srt U l, Forall (eok U) l -> set_of_list srt l = Ok (pset (ematch srt) l).
Proof. intros. unfold set_of_list, pset. eapply set_fold_ready; eauto. Qed.

Lemma ematch_refl : forall srt U e, eok U e -> ematch srt e e = true.
Proof. intros srt U e [_ R]. now apply omatch_refl. Qed.

(* the set built from any list of codes *)
Lemma set_of_codes : forall srt U l, Forall (eok U) l ->
  exists s, set_of_list srt l = Ok s /\
    (forall e, In e s -> In e l) /\
    (forall x, eok U x -> exists b, set_contains srt s x = Ok b /\
        (b = true <-> exists e, In e l /\ hash_key (snd e) = hash_key (snd x) /\ obj_eq srt (snd e) (snd x) = Ok true)) /\
    (forall i j a b, (i < j)%nat -> nth_error s i = Some a -> nth_error s j = Some b -> ematch srt a b = false) /\
    (forall x i j a b, nth_error s i = Some a -> nth_error s j = Some b ->
        ematch srt a x = true -> ematch srt b x = true -> i = j).
Proof.
  intros srt U l F. exists (pset (ematch srt) l). split; [now apply (set_of_list_ready srt U)|].
  pose proof (pset_Rep (eok U) (ematch srt) (ematch_refl srt U) l F) as [I1 [I2 I3]].
  assert (Fs : Forall (eok U) (pset (ematch srt) l)).
  { apply Forall_forall. intros e He. rewrite Forall_forall in F. auto. }
  split; [exact I1|]. split; [|split].
  - intros x Hx. unfold set_contains. rewrite (set_lookup_ix_ready srt U _ x Fs Hx). cbn [bind].
    eexists. split; [reflexivity|].
    pose proof (pset_mem (eok U) (ematch srt) (ematch_refl srt U)
                  (fun a b c => omatch_trans srt (snd a) (snd b) (snd c)) l x F) as M.
    split.
    + intros Hb. destruct (pfind (ematch srt) (pset (ematch srt) l) x) eqn:E; [|discriminate].
      destruct (proj1 M) as [e [Hin He]]; [congruence|]. exists e. split; [exact Hin|].
      rewrite Forall_forall in F. apply omatch_spec; auto; [apply (F e Hin) | apply Hx].
    + intros [e [Hin [Hk He]]].
      assert (ematch srt e x = true).
      { rewrite Forall_forall in F. apply omatch_spec; auto; [apply (F e Hin) | apply Hx]. }
      destruct (pfind (ematch srt) (pset (ematch srt) l) x) eqn:E; [reflexivity|].
      exfalso. apply (proj2 M); eauto.
  - exact I3.
  - intros x i j a b. eapply (pset_unique (eok U) (ematch srt) (ematch_refl srt U)); eauto.
    + intros; apply omatch_sym.
    + intros a0 b0 c0. apply omatch_trans.
Qed.

(* same scheme, value and version => one key, whichever class represents them *)
Lemma same_code_matches : forall srt a b, ready a -> ready b ->
  scheme_value a = scheme_value b -> oview a = oview b -> omatch srt a b = true.
Proof.
  intros srt a b Ra Rb S V. apply omatch_spec; auto. destruct Ra as [Ra [p Sa]]. rewrite Sa in S. symmetry in S. split.
  - rewrite (hash_key_scheme_value a), (hash_key_scheme_value b), Sa, S. now destruct a, b.
  - destruct (view_self_oview a Ra) as [va [Hva _]]. rewrite (obj_eq_ready srt a b va va Ra Hva); [now rewrite code_eq_refl | now rewrite <- V].
Qed.

Lemma set_treats_as_one_many : forall srt U s a b, Forall (eok U) s -> eok U a -> eok U b ->
  scheme_value (snd a) = scheme_value (snd b) -> oview (snd a) = oview (snd b) ->
  (* adding both is adding one *)
  (exists s1, set_add srt s a = Ok s1 /\ set_add srt s1 b = Ok s1 /\ set_contains srt s1 b = Ok true) /\
  (* and whoever finds a finds b *)
  set_contains srt s a = set_contains srt s b.
Proof.
  intros srt U s a b F Ha Hb S V.
  assert (M : ematch srt a b = true) by (apply same_code_matches; auto; [apply Ha | apply Hb]).
  assert (T : forall x y z : entry, ematch srt x y = true -> ematch srt y z = true -> ematch srt x z = true)
    by (intros x y z; apply omatch_trans).
  assert (Sy : forall x y : entry, ematch srt x y = ematch srt y x) by (intros; apply omatch_sym).
  split.
  - exists (padd (ematch srt) s a). split; [now apply (set_add_ready srt U)|].
    assert (F1 : Forall (eok U) (padd (ematch srt) s a)) by now apply padd_eok.
    assert (Fa : pfind (ematch srt) (padd (ematch srt) s a) a <> None).
    { unfold padd. destruct (pfind (ematch srt) s a) eqn:E; [congruence|].
      rewrite pfind_app, E, (ematch_refl srt U a Ha). discriminate. }
    assert (Ab : padd (ematch srt) (padd (ematch srt) s a) b = padd (ematch srt) s a)
      by (eapply padd_absorb; eauto).
    split.
    + rewrite (set_add_ready srt U _ b F1 Hb). now rewrite Ab.
    + unfold set_contains. rewrite (set_lookup_ix_ready srt U _ b F1 Hb). cbn [bind].
      destruct (pfind (ematch srt) (padd (ematch srt) s a) b) eqn:E; [reflexivity|].
      exfalso. destruct (pfind (ematch srt) (padd (ematch srt) s a) a) as [i|] eqn:E2; [|congruence].
      destruct (pfind_Some _ _ _ _ E2) as [e [Hn [He _]]].
      assert (ematch srt e b = true) by eauto.
      rewrite (proj1 (pfind_None _ _ _) E e (nth_error_In _ _ Hn)) in H. discriminate.
  - unfold set_contains. rewrite (set_lookup_ix_ready srt U s a F Ha), (set_lookup_ix_ready srt U s b F Hb). cbn [bind].
    f_equal. destruct (pfind (ematch srt) s a) as [i|] eqn:Ea, (pfind (ematch srt) s b) as [j|] eqn:Eb; try reflexivity; exfalso.
    + destruct (pfind_Some _ _ _ _ Ea) as [e [Hn [He _]]]. assert (ematch srt e b = true) by eauto.
      rewrite (proj1 (pfind_None _ _ _) Eb e (nth_error_In _ _ Hn)) in H. discriminate.
    + destruct (pfind_Some _ _ _ _ Eb) as [e [Hn [He _]]].
      assert (ematch srt e a = true) by (eapply T; [exact He | now rewrite Sy]).
      rewrite (proj1 (pfind_None _ _ _) Ea e (nth_error_In _ _ Hn)) in H. discriminate.
Qed.

(* ---- dictionaries ------------------------------------------------------------------------------------- *)
Lemma set_nth_value_upd : forall d i v, set_nth_value d i v = upd v d i.
Proof. induction d as [|[k w] t IH]; intros [|i] v; cbn; try reflexivity. now rewrite IH. Qed.

Lemma dict_set_ready : forall srt U (d : dict) x v, Forall (eok U) (map fst d) -> eok U x ->
  dict_set srt d x v = Ok (pdset (ematch srt) d x v).
Proof.
  intros srt U d x v F Hx. unfold dict_set. rewrite (set_lookup_ix_ready srt U _ x F Hx). cbn [bind].
  rewrite pdset_upd. destruct (pfind (ematch srt) (map fst d) x); [now rewrite set_nth_value_upd | reflexivity].
Qed.

Lemma dict_get_ready : forall srt U (d : dict) x, Forall (eok U) (map fst d) -> eok U x ->
  dict_get srt d x = Ok (pdget (ematch srt) d x).
Proof.
  intros srt U d x F Hx. unfold dict_get, pdget. rewrite (set_lookup_ix_ready srt U _ x F Hx). reflexivity.
Qed.

Lemma pdset_keys_eok : forall srt U (d : dict) x v, Forall (eok U) (map fst d) -> eok U x ->
  Forall (eok U) (map fst (pdset (ematch srt) d x v)).
Proof.
  intros srt U d x v F Hx. rewrite pdset_upd. destruct (pfind (ematch srt) (map fst d) x).
  - now rewrite map_fst_upd.
  - rewrite map_app. apply Forall_app. split; [exact F | now constructor].
Qed.

Lemma dict_fold_ready : forall srt U l (d0 : dict), Forall (eok U) (map fst d0) -> Forall (eok U) (map fst l) ->
  fold_left (fun acc kv => bind acc (fun d => dict_set srt d (fst kv) (snd kv))) l (Ok d0) =
  Ok (fold_left (fun d kv => pdset (ematch srt) d (fst kv) (snd kv)) l d0).
Proof.
  intros srt U l. induction l as [|[k v] l IH]; intros d0 F0 F; cbn [fold_left]; [reflexivity|].
  cbn [map fst snd] in *. inversion F; subst. cbn [bind]. rewrite (dict_set_ready srt U d0 k v F0 H1).
  apply IH; [now apply pdset_keys_eok | assumption].
Qed.

(* a dictionary written with any sequence of codes: its keys are the set of the keys (first key object kept),
   and reading under x gives the value written last under a key that matches x *)
Lemma dict_of_codes : forall srt U l, Forall (eok U) (map fst l) ->
  exists d, dict_of_list srt l = Ok d /\
    set_of_list srt (map fst l) = Ok (map fst d) /\
    forall x, eok U x -> dict_get srt d x = Ok (plast (ematch srt) l x).
Proof.
  intros srt U l F. exists (pdict (ematch srt) l). split; [|split].
  - unfold dict_of_list, pdict. apply (dict_fold_ready srt U l []); [constructor | exact F].
  - rewrite pdict_keys. now apply (set_of_list_ready srt U).
  - intros x Hx.
    assert (Fk : Forall (eok U) (map fst (pdict (ematch srt) l))).
    { eapply (Forall_P_keys (eok U) (ematch srt) (ematch_refl srt U)); eauto. }
    rewrite (dict_get_ready srt U _ x Fk Hx). f_equal.
    apply (pdget_pdict (eok U) (ematch srt) (ematch_refl srt U)); auto.
    + intros; apply omatch_sym.
    + intros a b c. apply omatch_trans.
Qed.

(* everything the API builds can be a key *)
Lemma wf_is_ready : forall d, wf_concept d -> ready (HD d).
Proof.
  intros d W. destruct (wf_ready d W) as [R S]. split; [exact R|].
  destruct (scheme_value (HD d)) as [p|]; [eauto | congruence].
Qed.
Lemma code_is_ready : forall c, ready (PD c).
Proof. intros c. split; [reflexivity | eexists; reflexivity]. Qed.

(* ---- non-vacuity -------------------------------------------------------------------------------- *)
Definition ex_k0 : obj := HD (DS (Some "121") None None (Some "Finding") (Some "DCM") None true).
Definition ex_k1 : obj := PD (Code "121" "DCM" "another meaning" None).
Definition ex_k2 : obj := PD (Code "121" "DCM" "Finding" (Some "2020")).
Definition ex_k3 : obj := HD (DS None (Some "121") None (Some "x") (Some "DCM") None true).
Definition ex_U (i : nat) : obj := nth i [ex_k0; ex_k1; ex_k2; ex_k3] ex_k0.

Lemma set_example :
  Forall (eok ex_U) [(0%nat, ex_k0); (1%nat, ex_k1); (2%nat, ex_k2); (3%nat, ex_k3)] /\
  (* concept, Code with another meaning, Code with another version, concept holding the value in LongCodeValue *)
  set_of_list (fun _ => None) [(0%nat, ex_k0); (1%nat, ex_k1); (2%nat, ex_k2); (3%nat, ex_k3)] =
    Ok [(0%nat, ex_k0); (2%nat, ex_k2)] /\
  set_contains (fun _ => None) [(0%nat, ex_k0); (2%nat, ex_k2)] (1%nat, ex_k1) = Ok true /\
  (exists d, dict_of_list (fun _ => None) [((0%nat, ex_k0), 10); ((2%nat, ex_k2), 20); ((1%nat, ex_k1), 30)] = Ok d /\
     map fst d = [(0%nat, ex_k0); (2%nat, ex_k2)] /\
     dict_get (fun _ => None) d (3%nat, ex_k3) = Ok (Some 30) /\ dict_get (fun _ => None) d (2%nat, ex_k2) = Ok (Some 20)).
Proof.
  split; [|split; [reflexivity|split; [reflexivity|eexists; split; [vm_compute; reflexivity|repeat split]]]].
  repeat constructor; cbn; eexists; reflexivity.
Qed.
