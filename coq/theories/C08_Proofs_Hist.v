(* C08 - proofs: the PROVENANCE of every voxel of the result of a finite history.
   Every voxel of the final object either descends from a voxel of the initial object
   (the composed index map says [Some i]) or descends from a padding voxel that exactly one
   pad call of the history created - and then it lies where that padding voxel lay and
   carries the pad value written at that moment.  "New voxels are padding" for histories. *)
From Coq Require Import String ZArith List Bool Lia ZifyBool QArith Qcanon.
From HD Require Import C08_Model C08_Proofs C08_Proofs_Step C08_Proofs_More C08_Proofs_Qc C08_Proofs_Ext C08_Proofs_Top C08_Proofs_Inv.
Import ListNotations.
Ltac Zify.zify_post_hook ::= Z.to_euclidean_division_equations.
Open Scope Z_scope.

Section Hist.
Variable R : Type.
Variables (rO rI : R) (radd rmul rsub : R -> R -> R) (ropp : R -> R).
Variable inj : Z -> R.
Variable ltb : R -> R -> bool.
Variable Vx : Type.
Variable padval : pmode -> bool -> Vx -> list Vx -> Vx.

Notation volT := (vol R Vx).
Notation physz := (physZ R radd rmul inj).
Notation so := (scaled_orthogonal R rO radd rmul).
Notation vget := (vol_get R radd rmul inj Vx).
Notation vpad := (vol_pad R radd rmul inj Vx padval).
Notation vstep_sp := (vol_step_sp R rO radd rmul rsub ropp inj ltb Vx padval).
Notation vstep_tr := (step_tr R rO radd rmul rsub ropp inj ltb Vx padval).
Notation vstep := (step R rO radd rmul rsub ropp inj ltb Vx padval).
Notation vrun_tr := (run_tr R rO radd rmul rsub ropp inj ltb Vx padval).
Notation vrun := (run R rO radd rmul rsub ropp inj ltb Vx padval).
Notation sstep := (step_skip_tr R rO radd rmul rsub ropp inj ltb Vx padval).

Lemma sstep_ok : forall (v v1 : volT) g o f, vstep_tr v o = Ok (v1, f) -> sstep (v, g) o = (v1, imap_comp f g).
Proof. intros v v1 g o f E. unfold step_skip_tr. cbn [fst snd]. rewrite E. reflexivity. Qed.
Lemma sstep_err : forall (v : volT) g o k, vstep_tr v o = Err k -> sstep (v, g) o = (v, g).
Proof. intros v g o k E. unfold step_skip_tr. cbn [fst snd]. rewrite E. reflexivity. Qed.

(* the traced fold with an arbitrary accumulated map *)
Lemma fold_acc : forall ops (v : volT) g j,
  fst (fold_left sstep ops (v, g)) = fst (fold_left sstep ops (v, imap_id)) /\
  snd (fold_left sstep ops (v, g)) j =
    match snd (fold_left sstep ops (v, imap_id)) j with Some m => g m | None => None end.
Proof.
  induction ops as [|o ops IH]; intros v g j; [cbn; auto|].
  cbn [fold_left].
  destruct (vstep_tr v o) as [[v1 f]|k] eqn:E.
  - rewrite !(sstep_ok v v1 _ o f E).
    destruct (IH v1 (imap_comp f g) j) as (F1 & S1). destruct (IH v1 (imap_comp f imap_id) j) as (F2 & S2).
    split; [congruence|]. rewrite S1, S2.
    destruct (snd (fold_left sstep ops (v1, imap_id)) j) as [m|]; [|reflexivity].
    unfold imap_comp, imap_id. destruct (f m); reflexivity.
  - rewrite !(sstep_err v _ o k E). apply IH.
Qed.

Lemma run_tr_cons_ok : forall o ops (v v1 : volT) f j, vstep_tr v o = Ok (v1, f) ->
  fst (vrun_tr v (o :: ops)) = fst (vrun_tr v1 ops) /\
  snd (vrun_tr v (o :: ops)) j =
    match snd (vrun_tr v1 ops) j with Some m => f m | None => None end.
Proof.
  intros o ops v v1 f j E. unfold run_tr. cbn [fold_left]. rewrite (sstep_ok v v1 _ o f E).
  destruct (fold_acc ops v1 (imap_comp f imap_id) j) as (F & S).
  split; [exact F|]. rewrite S. destruct (snd (fold_left sstep ops (v1, imap_id)) j) as [m|]; [|reflexivity].
  unfold imap_comp, imap_id. destruct (f m); reflexivity.
Qed.

Lemma run_tr_cons_err : forall o ops (v : volT) k, vstep_tr v o = Err k ->
  vrun_tr v (o :: ops) = vrun_tr v ops.
Proof.
  intros o ops v k E. unfold run_tr. cbn [fold_left]. rewrite (sstep_err v _ o k E). reflexivity.
Qed.

Lemma run_cons_ok : forall o ops (v v1 : volT) f, vstep_tr v o = Ok (v1, f) -> vrun v (o :: ops) = vrun v1 ops.
Proof.
  intros o ops v v1 f E. unfold run. cbn [fold_left]. unfold step_skip at 2, step. rewrite E. reflexivity.
Qed.
Lemma run_cons_err : forall o ops (v : volT) k, vstep_tr v o = Err k -> vrun v (o :: ops) = vrun v ops.
Proof.
  intros o ops v k E. unfold run. cbn [fold_left]. unfold step_skip at 2, step. rewrite E. reflexivity.
Qed.

Lemma step_tr_wf : forall (v : volT) o v' f, vstep_tr v o = Ok (v', f) -> wf (v_shape _ _ v) -> wf (v_shape _ _ v').
Proof.
  intros v o v' f E W.
  pose proof (step_tr_Inj R rO radd rmul rsub ropp inj ltb Vx padval v o v' f eq_refl E) as I.
  exact (proj1 (I W)).
Qed.

(* [Born ops v j vmid f m]: voxel j of the result of the history descends from voxel m of an
   intermediate object vmid, which the operation that produced vmid CREATED (f m = None) *)
Definition Born (ops : list (op Vx)) (v : volT) (j : idx) (o : op Vx) (vmid : volT) (f : imap) (m : idx)
           (ops2 : list (op Vx)) : Prop :=
  exists ops1, ops = (ops1 ++ o :: ops2)%list /\
  vstep_tr (vrun v ops1) o = Ok (vmid, f) /\
  inr (v_shape _ _ vmid) m /\ f m = None /\
  fst (vrun_tr vmid ops2) = fst (vrun_tr v ops) /\
  snd (vrun_tr vmid ops2) j = Some m.

Theorem history_provenance : forall ops (v : volT), wf (v_shape _ _ v) ->
  forall j, inr (v_shape _ _ (fst (vrun_tr v ops))) j ->
  (exists i, snd (vrun_tr v ops) j = Some i /\ inr (v_shape _ _ v) i) \/
  (snd (vrun_tr v ops) j = None /\ exists o vmid f m ops2, Born ops v j o vmid f m ops2).
Proof.
  induction ops as [|o ops IH]; intros v W j Hj.
  - left. exists j. split; [reflexivity|exact Hj].
  - destruct (vstep_tr v o) as [[v1 f]|k] eqn:E.
    + destruct (run_tr_cons_ok o ops v v1 f j E) as (F & S). rewrite F in Hj.
      pose proof (step_tr_wf v o v1 f E W) as W1.
      destruct (IH v1 W1 j Hj) as [(m1 & Em & Im)|(En & o' & vmid & f' & m & ops2 & ops1 & Eo & Es & Hm & Hf & Ff & Sf)].
      * rewrite Em in S. destruct (f m1) as [i|] eqn:Ef.
        -- left. exists i. split; [exact S|].
           pose proof (step_tr_Inj R rO radd rmul rsub ropp inj ltb Vx padval v o v1 f eq_refl E W) as (_ & Rg & _).
           exact (Rg m1 i Im Ef).
        -- right. split; [exact S|]. exists o, v1, f, m1, ops, []. split; [reflexivity|].
           split; [exact E|]. split; [exact Im|]. split; [exact Ef|]. split; [symmetry; exact F|exact Em].
      * right. rewrite En in S. split; [exact S|]. exists o', vmid, f', m, ops2, (o :: ops1).
        split; [rewrite Eo; reflexivity|]. split; [rewrite (run_cons_ok o ops1 v v1 f E); exact Es|].
        split; [exact Hm|]. split; [exact Hf|]. split; [congruence|exact Sf].
    + rewrite (run_tr_cons_err o ops v k E) in *.
      destruct (IH v W j Hj) as [L|(En & o' & vmid & f' & m & ops2 & ops1 & Eo & Es & Hm & Hf & Ff & Sf)]; [left; exact L|].
      right. split; [exact En|]. exists o', vmid, f', m, ops2, (o :: ops1).
      split; [rewrite Eo; reflexivity|]. split; [rewrite (run_cons_err o ops1 v k E); exact Es|].
      split; [exact Hm|]. split; [exact Hf|]. split; [rewrite (run_tr_cons_err o ops v k E); exact Ff|exact Sf].
Qed.

(* a voxel without pre-image is written by a pad call: the object that holds it IS the result of
   a call of Volume.pad (directly, from pad_to_spatial_shape, or as the second half of
   pad_or_crop_to_spatial_shape), and the voxel is a new voxel of that call *)
Theorem new_voxel_comes_from_pad : forall (v : volT) o v' f m,
  vstep_sp v o = Ok (v', f) -> wf (v_shape _ _ v) -> inr (v_shape _ _ v') m -> f m = None ->
  nopad o = false /\
  exists vpre w md cv pc fp l,
    vpad vpre w md cv pc = Ok (v', fp) /\ prep_pad_width w = Ok l /\ fp m = None /\
    wf (v_shape _ _ vpre) /\ v_chans _ _ vpre = v_chans _ _ v.
Proof.
  intros v o v' f m H W Hm Hf.
  destruct (nopad o) eqn:En.
  { destruct (step_nopad_total R rO radd rmul rsub ropp inj ltb Vx padval v o v' f En H W) as (_ & T).
    destruct (T m Hm) as (i & Ei & _). congruence. }
  split; [reflexivity|].
  assert (PW : forall vp w md cv pc fp, vpad vp w md cv pc = Ok (v', fp) -> exists l, prep_pad_width w = Ok l).
  { intros vp w md cv pc fp E. unfold vol_pad in E. destruct md; try discriminate;
      (destruct (prep_pad_width w) as [l|]; [exists l; reflexivity|discriminate]). }
  destruct o; cbn [nopad] in En; try discriminate; unfold vol_step_sp in H; cbn [step_sp] in H.
  - destruct (PW _ _ _ _ _ _ H) as (l & El). exists v, w, m0, cval, pc, f, l. auto.
  - unfold pad_to in H. destruct (negb _); [discriminate|]. inv_bind H as w Ew.
    destruct (PW _ _ _ _ _ _ H) as (l & El). exists v, (PWNest w), m0, cval, pc, f, l. auto.
  - unfold pad_or_crop_to in H. destruct (negb _); [discriminate|].
    destruct (pad_or_crop_plan _ _) as [pw cr]. inv_bind H as c Ec. inv_bind H as p Ep.
    destruct c as [vc fc], p as [vp fp]. cbn [fst snd] in *. inversion H; subst v' f; clear H.
    destruct (PW _ _ _ _ _ _ Ep) as (l & El). exists vc, (PWNest pw), m0, cval, pc, fp, l.
    split; [exact Ep|]. split; [exact El|]. split.
    + unfold imap_comp in Hf. destruct (fp m) as [k|] eqn:Ek; [|reflexivity].
      unfold vol_get in Ec. inv_bind Ec as pl Epl. inversion Ec; subst. destruct k as [[k0 k1] k2].
      unfold get_map in Hf. destruct (gp_f pl) as [[? ?] ?], (gp_s pl) as [[? ?] ?]. discriminate.
    + pose proof (vol_get_VTot R radd rmul inj Vx v _ vc fc Ec W) as (Wc & _). split; [exact Wc|].
      unfold vol_get in Ec. inv_bind Ec as pl Epl. inversion Ec; subst. reflexivity.
Qed.

(* ---- the end-to-end statement: where every voxel of the result of a history comes from *)
Hypothesis ZR : Zring R rO rI radd rmul rsub ropp inj.

Theorem history_new_voxels_are_padding : forall ops (v : volT), wf (v_shape _ _ v) ->
  let r := vrun_tr v ops in
  forall j, inr (v_shape _ _ (fst r)) j ->
  match snd r j with
  | Some i => inr (v_shape _ _ v) i /\ physz (v_aff _ _ (fst r)) j = physz (v_aff _ _ v) i
  | None =>
      exists ops1 s ops2 vpre w md cv pc vmid fp l m,
        ops = (ops1 ++ Sp s :: ops2)%list /\ nopad s = false /\
        vstep (vrun v ops1) (Sp s) = Ok vmid /\
        vpad vpre w md cv pc = Ok (vmid, fp) /\ prep_pad_width w = Ok l /\
        wf (v_shape _ _ vpre) /\ v_chans _ _ vpre = v_chans _ _ (vrun v ops1) /\
        inr (v_shape _ _ vmid) m /\ fp m = None /\
        fst (vrun_tr vmid ops2) = fst r /\ snd (vrun_tr vmid ops2) j = Some m /\
        physz (v_aff _ _ (fst r)) j = physz (v_aff _ _ vmid) m /\
        (no_with_array ops2 = true ->
         exists psi : list Z -> list Z, forall c, v_arr _ _ (fst r) j c = v_arr _ _ vmid m (psi c))
  end.
Proof.
  intros ops v W r j Hj. subst r.
  destruct (history_provenance ops v W j Hj) as [(i & Ei & Ii)|(En & o & vmid & f & m & ops2 & ops1 & Eo & Es & Hm & Hf & Ff & Sf)].
  - rewrite Ei. split; [exact Ii|].
    destruct (top_history R rO rI radd rmul rsub ropp inj ltb Vx padval ZR ops v W) as (_ & _ & _ & _ & _ & P & _).
    exact (proj2 (P j Hj i Ei)).
  - rewrite En.
    assert (W1 : wf (v_shape _ _ (vrun v ops1))).
    { pose proof (history_injective R rO radd rmul rsub ropp inj ltb Vx padval ops1 v W) as (W1 & _).
      unfold run_tr in W1. rewrite run_tr_fst in W1. exact W1. }
    destruct o as [s| | | | |];
      [|(match type of Es with step_tr _ _ _ _ _ _ _ _ _ _ ?vv ?oo = _ =>
           pose proof (step_tr_Tot R rO radd rmul rsub ropp inj ltb Vx padval vv oo vmid f eq_refl Es W1) as (_ & T) end;
           destruct (T m Hm) as (i & Ei & _); congruence)..].
    assert (Es' : vstep_sp (vrun v ops1) s = Ok (vmid, f)) by exact Es.
    destruct (new_voxel_comes_from_pad _ s vmid f m Es' W1 Hm Hf)
      as (Np & vpre & w & md & cv & pc & fp & l & Ep & El & Efp & Wp & Ech).
    exists ops1, s, ops2, vpre, w, md, cv, pc, vmid, fp, l, m.
    split; [exact Eo|]. split; [exact Np|].
    split; [unfold step; rewrite Es; reflexivity|].
    split; [exact Ep|]. split; [exact El|]. split; [exact Wp|]. split; [exact Ech|].
    split; [exact Hm|]. split; [exact Efp|]. split; [exact Ff|]. split; [exact Sf|].
    pose proof (step_tr_wf _ _ _ _ Es W1) as Wm.
    destruct (top_history R rO rI radd rmul rsub ropp inj ltb Vx padval ZR ops2 vmid Wm) as (_ & _ & _ & _ & _ & P & V).
    rewrite Ff in P, V. split.
    + exact (proj2 (P j Hj m Sf)).
    + intros Hn. destruct (V Hn) as (psi & Hpsi). exists psi. intros c. exact (Hpsi j Hj m Sf c).
Qed.

End Hist.

(* ---- non-vacuity: ex_vol2 (2x3x2, rotated, left-handed) is reversed along axis 0, padded /
   cropped to 3x2x3 with the MEAN of the cropped array (pad_or_crop_to_spatial_shape), then
   flipped, cyclically permuted, EDGE-padded by 1 and cropped to 4x4x3.  Voxel (2,1,1) of the
   result is initial voxel (1,0,1); voxel (1,3,1) has no pre-image: it descends from voxel
   (2,0,2) of the 3x2x3 object, which the MEAN pad created with value 5; voxel (0,0,0) was
   created by the later EDGE pad *)
Definition ex_h_ops1 : list qop := [Sp (OGet (XTup [ISlc None None (Some (-1))]))].
Definition ex_h_pad : sop Q := OPadOrCropTo [3; 2; 3] PMean (Qmake 0 1) false.
Definition ex_h_ops2 : list qop :=
  [Sp (OFlip (FInt 2)); Sp (OPermute [2; 0; 1]); Sp (OPad (PWInt 1) PEdge (Qmake 0 1) false); Sp (OCropTo [4; 4; 3])].
Definition q_run_tr := run_tr Qc (Q2Qc 0) Qcplus Qcmult Qcminus Qcopp qc_inj qc_ltb Q q_padval.
Definition q_run := run Qc (Q2Qc 0) Qcplus Qcmult Qcminus Qcopp qc_inj qc_ltb Q q_padval.

Lemma ex_history_padding :
  wf (v_shape _ _ ex_vol2) /\ no_with_array ex_h_ops2 = true /\ nopad ex_h_pad = false /\
  let r := q_run_tr ex_vol2 (ex_h_ops1 ++ Sp ex_h_pad :: ex_h_ops2) in
  v_shape _ _ (fst r) = (4, 4, 3) /\ snd r (2, 1, 1) = Some (1, 0, 1) /\
  snd r (1, 3, 1) = None /\ snd r (0, 0, 0) = None /\
  match q_step_tr (q_run ex_vol2 ex_h_ops1) (Sp ex_h_pad) with
  | Ok (vmid, f) =>
      v_shape _ _ vmid = (3, 2, 3) /\ f (2, 0, 2) = None /\
      snd (q_run_tr vmid ex_h_ops2) (1, 3, 1) = Some (2, 0, 2) /\
      snd (q_run_tr vmid ex_h_ops2) (0, 0, 0) = None /\
      v_arr _ _ (fst r) (1, 3, 1) [] = v_arr _ _ vmid (2, 0, 2) [] /\
      v_arr _ _ vmid (2, 0, 2) [] = inject_Z 5
  | Err _ => False
  end.
Proof. split; [cbn; lia|]. vm_compute. repeat split; reflexivity. Qed.

(* ---- the residue of [orientation_reached]: WITH ties the statement is false of the faithful
   model.  Columns (1,1,0), (1,-1,0), (0,0,1): scaled orthogonal, the first two at exactly 45
   degrees between the L/R and the A/P axis.  Closest orientation (greedy, ties resolved by
   column order) = L A H.  The request A L H is accepted, the plan is "swap the first two
   axes", and the closest orientation of the RESULT is L P H, not the request.  (No voxel
   moves: theorems 1-3 hold for this operation as for every other.)  Replayed on the real
   code: get_closest_patient_orientation(v.to_patient_orientation('ALH').affine) = L P H. *)
Definition tie_aff : aff Qc :=
  Aff (V (q 1 1) (q 1 1) (q 0 1)) (V (q 1 1) (q (-1) 1) (q 0 1)) (V (q 0 1) (q 0 1) (q 1 1))
      (V (q 0 1) (q 0 1) (q 0 1)).
Definition tie_vol : qvol :=
  mkvol tie_aff (2, 3, 2) [] (map inject_Z [1;2;3;4;5;6;7;8;9;10;11;12]) true true (Some 5).

Lemma tie_so : scaled_orthogonal Qc (Q2Qc 0) Qcplus Qcmult (v_aff _ _ tie_vol).
Proof.
  split.
  - repeat split; apply Qc_is_canon; vm_compute; reflexivity.
  - cbn [tie_vol mkvol v_aff tie_aff]. unfold cols_nonzero, vzero; cbn [c0 c1 c2 vx vy vz].
    repeat split; intros (X & Y & Z).
    + apply (qc_nz 1 1) in X; [exact X|lia].
    + apply (qc_nz 1 1) in X; [exact X|lia].
    + apply (qc_nz 1 1) in Z; [exact Z|lia].
Qed.

Theorem orientation_reached_with_ties_refuted :
  exists (v : qvol) o v' f,
    wf (v_shape _ _ v) /\ scaled_orthogonal Qc (Q2Qc 0) Qcplus Qcmult (v_aff _ _ v) /\
    v_patient _ _ v = true /\ normalize_orientation o = Ok o /\
    closest Qc (Q2Qc 0) Qcopp qc_ltb (v_aff _ _ v) = [0; 3; 4] /\
    q_step_tr v (Sp (OOrient o)) = Ok (v', f) /\
    o = [3; 0; 4] /\ closest Qc (Q2Qc 0) Qcopp qc_ltb (v_aff _ _ v') = [0; 2; 4] /\
    closest Qc (Q2Qc 0) Qcopp qc_ltb (v_aff _ _ v') <> o.
Proof.
  destruct (q_step_tr tie_vol (Sp (OOrient [3; 0; 4]))) as [[v' f]|] eqn:E; [|vm_compute in E; discriminate].
  exists tie_vol, [3; 0; 4], v', f.
  split; [cbn; lia|]. split; [exact tie_so|]. split; [reflexivity|]. split; [reflexivity|].
  split; [vm_compute; reflexivity|]. split; [exact E|]. split; [reflexivity|].
  assert (C : closest Qc (Q2Qc 0) Qcopp qc_ltb (v_aff _ _ v') = [0; 2; 4]).
  { assert (X : match q_step_tr tie_vol (Sp (OOrient [3; 0; 4])) with
                | Ok (w, _) => closest Qc (Q2Qc 0) Qcopp qc_ltb (v_aff _ _ w) = [0; 2; 4]
                | Err _ => False end) by (vm_compute; reflexivity).
    rewrite E in X. exact X. }
  split; [exact C|]. rewrite C. discriminate.
Qed.

(* ---- index items of foreign types (numpy integers, floats, lists, None, Ellipsis): an index
   holding one is never accepted, so every object __getitem__ returns comes from an index of
   ints and slices - to which theorems 1-3 apply *)
Lemma check_items_ext_ok : forall l shape d its, check_items_ext shape d l = Ok its ->
  l = map Some its /\ exists sl, check_items shape d its = Ok sl.
Proof.
  induction l as [|[it|] l IH]; intros shape d its H; cbn [check_items_ext] in H.
  - inversion H; subst. split; [reflexivity|]. exists []. reflexivity.
  - inv_bind H as s Es. inv_bind H as r Er. inversion H; subst; clear H.
    destruct (IH shape (d + 1) r Er) as (-> & sl & Esl). split; [reflexivity|].
    exists (s :: sl). cbn [check_items]. rewrite Es. cbn [bind]. rewrite Esl. reflexivity.
  - discriminate.
Qed.

Theorem getitem_ext_sound : forall shape x ix, getitem_ext shape x = Ok ix ->
  exists its, x = XOk (map Some its) /\ ix = XTup its /\ Z.of_nat (length its) <= 3 /\
              exists sl, check_items shape 0 its = Ok sl.
Proof.
  intros shape [l|] ix H; cbn [getitem_ext] in H; [|discriminate].
  destruct (3 <? Z.of_nat (length l)) eqn:E3; [discriminate|]. inv_bind H as its Ei. inversion H; subst; clear H.
  destruct (check_items_ext_ok l shape 0 its Ei) as (-> & sl & Esl). exists its.
  rewrite map_length in E3. split; [reflexivity|]. split; [reflexivity|]. split; [lia|]. exists sl. exact Esl.
Qed.

Lemma check_items_ext_none : forall l shape d, In None l -> exists k, check_items_ext shape d l = Err k.
Proof.
  induction l as [|[it|] l IH]; intros shape d Hin; cbn [check_items_ext].
  - destruct Hin.
  - destruct Hin as [Hd|Hin]; [discriminate|].
    destruct (check_item (sel3 shape d) it) as [s|k]; cbn [bind]; [|exists k; reflexivity].
    destruct (IH shape (d + 1) Hin) as (k & ->). exists k. reflexivity.
  - exists "TypeError"%string. reflexivity.
Qed.

Theorem getitem_ext_foreign_refused : forall shape,
  getitem_ext shape XBadType = Err "TypeError"%string /\
  forall l, In None l -> exists k, getitem_ext shape (XOk l) = Err k.
Proof.
  intros shape. split; [reflexivity|]. intros l Hin. cbn [getitem_ext].
  destruct (3 <? Z.of_nat (length l)); [exists "IndexError"%string; reflexivity|].
  destruct (check_items_ext_none l shape 0 Hin) as (k & ->). exists k. reflexivity.
Qed.

(* exactly when the refusal is a TypeError: at most three items, and every item before the first
   foreign one passes its own bounds check *)
Theorem getitem_ext_type_error_iff : forall shape l,
  getitem_ext shape (XOk l) = Err "TypeError"%string <->
  (Z.of_nat (length l) <= 3 /\
   exists pre post sl, l = (map Some pre ++ None :: post)%list /\ check_items shape 0 pre = Ok sl).
Proof.
  intros shape l. cbn [getitem_ext]. destruct (3 <? Z.of_nat (length l)) eqn:E3.
  { split; [discriminate|]. intros (Hl & _). lia. }
  assert (G : forall l d, (exists r, bind (check_items_ext shape d l) (fun its => Ok (XTup its)) = Err "TypeError"%string /\ r = tt) <->
              exists pre post sl, l = (map Some pre ++ None :: post)%list /\ check_items shape d pre = Ok sl).
  { clear. induction l as [|[it|] l IH]; intros d; cbn [check_items_ext].
    - split; [intros (_ & H & _); discriminate|]. intros (pre & post & sl & H & _). destruct pre; discriminate.
    - destruct (check_item (sel3 shape d) it) as [s|k] eqn:Ec; cbn [bind].
      + specialize (IH (d + 1)). split.
        * intros (_ & H & _).
          assert (H' : bind (check_items_ext shape (d + 1) l) (fun its => Ok (XTup its)) = Err "TypeError"%string).
          { destruct (check_items_ext shape (d + 1) l); cbn [bind] in *; [discriminate|exact H]. }
          destruct (proj1 IH (ex_intro _ tt (conj H' eq_refl))) as (pre & post & sl & -> & Esl).
          exists (it :: pre), post, (s :: sl). split; [reflexivity|]. cbn [check_items]. rewrite Ec. cbn [bind].
          rewrite Esl. reflexivity.
        * intros (pre & post & sl & Hl & Esl). destruct pre as [|p pre]; [discriminate|].
          cbn [map app] in Hl. inversion Hl; subst. cbn [check_items] in Esl. rewrite Ec in Esl. cbn [bind] in Esl.
          destruct (check_items shape (d + 1) pre) as [sl'|] eqn:Esl'; [|discriminate].
          destruct (proj2 IH (ex_intro _ pre (ex_intro _ post (ex_intro _ sl' (conj eq_refl Esl'))))) as (_ & H & _).
          exists tt. split; [|reflexivity].
          destruct (check_items_ext shape (d + 1) (map Some pre ++ None :: post)); cbn [bind] in *; [discriminate|exact H].
      + split.
        * intros (_ & H & _). exfalso. destruct it as [v|a b st]; cbn [check_item] in Ec.
          -- destruct (_ || _); inversion Ec; subst; discriminate.
          -- destruct (match a with Some x => _ | None => false end); [inversion Ec; subst; discriminate|].
             destruct (match b with Some x => _ | None => false end); inversion Ec; subst; discriminate.
        * intros (pre & post & sl & Hl & Esl). destruct pre as [|p pre]; [discriminate|].
          cbn [map app] in Hl. inversion Hl; subst. cbn [check_items] in Esl. rewrite Ec in Esl. discriminate.
    - split; [|intros _; exists tt; split; reflexivity].
      intros _. exists [], l, []. split; reflexivity. }
  split.
  - intros H. split; [lia|]. apply (proj1 (G l 0)). exists tt. split; [exact H|reflexivity].
  - intros (_ & H). destruct (proj2 (G l 0) H) as (_ & H' & _). exact H'.
Qed.

(* ---- VolumeToVolumeTransformer.__call__ (plain, and rounded with bounds check) asked of the
   result of ANY finite history for an initial voxel that survives: the answer is the voxel
   that descends from it *)
Lemma qc_round_inj : forall z, qc_round (qc_inj z) = Some z.
Proof.
  intros z. unfold qc_round, qc_inj. cbn [this Q2Qc].
  rewrite Qred_identity by (cbn; apply Z.gcd_1_r). cbn [Qnum Qden inject_Z].
  replace (1 =? 2) with false by reflexivity. f_equal. lia.
Qed.

Lemma inr_in_box : forall s j, inr s j -> in_box s j = true.
Proof. intros [[n0 n1] n2] [[j0 j1] j2] H. cbn in *. lia. Qed.

Theorem history_transformer_call_finds_voxels : forall (ops : list qop) (v : qvol),
  wf (v_shape _ _ v) -> scaled_orthogonal Qc (Q2Qc 0) Qcplus Qcmult (v_aff _ _ v) ->
  let v' := fst (q_run_tr v ops) in
  let Phi := snd (q_run_tr v ops) in
  forall j, inr (v_shape _ _ v') j -> forall i, Phi j = Some i ->
  forall vals,
    observe (v_aff _ _ v) (v_aff _ _ v') (v_shape _ _ v') vals (QXfCall [i]) = VL (vvec (vecZ j)) /\
    observe (v_aff _ _ v) (v_aff _ _ v') (v_shape _ _ v') vals (QXfRound [i]) =
      VL [let '(j0, j1, j2) := j in VL [VZ j0; VZ j1; VZ j2]].
Proof.
  intros ops v W S v' Phi j Hj i Hi vals.
  destruct (history_lookup_finds_voxels ops v W S) as (D & K).
  destruct (K j Hj i Hi) as (_ & _ & X & _).
  assert (Sg : Qc_eq_bool (q_det (v_aff _ _ v')) q_zero = false).
  { destruct (Qc_eq_bool _ _) eqn:E; [|reflexivity]. apply Qc_eq_bool_correct in E. contradiction. }
  assert (A : apply_aff (q_xform (v_aff _ _ v) (v_aff _ _ v')) i = vecZ j).
  { destruct i as [[i0 i1] i2]. exact X. }
  unfold observe. fold v'. rewrite Sg. cbn [flat_map map]. rewrite A, app_nil_r. split; [reflexivity|].
  destruct j as [[j0 j1] j2]. cbn [vecZ vx vy vz]. rewrite !qc_round_inj.
  rewrite (inr_in_box _ _ Hj). reflexivity.
Qed.

(* ---- the property sentence as ONE statement, for every finite history *)
Definition op_spatial {Vx} (o : op Vx) : bool := match o with Sp _ | Copy => true | _ => false end.

Section E2E.
Variable R : Type.
Variables (rO rI : R) (radd rmul rsub : R -> R -> R) (ropp : R -> R).
Variable inj : Z -> R.
Variable ltb : R -> R -> bool.
Variable Vx : Type.
Variable padval : pmode -> bool -> Vx -> list Vx -> Vx.
Hypothesis ZR : Zring R rO rI radd rmul rsub ropp inj.

Notation volT := (vol R Vx).
Notation physz := (physZ R radd rmul inj).
Notation so := (scaled_orthogonal R rO radd rmul).
Notation vstep_tr := (step_tr R rO radd rmul rsub ropp inj ltb Vx padval).
Notation vrun_tr := (run_tr R rO radd rmul rsub ropp inj ltb Vx padval).
Notation vrun := (run R rO radd rmul rsub ropp inj ltb Vx padval).
Notation grunR := (grun R rO radd rmul rsub ropp inj ltb Vx).

Lemma spatial_history_keeps_channels : forall ops (v : volT), forallb op_spatial ops = true ->
  v_chans _ _ (vrun v ops) = v_chans _ _ v.
Proof.
  induction ops as [|o ops IH]; intros v H; [reflexivity|].
  cbn [forallb] in H. apply andb_prop in H as [Ho H].
  destruct (vstep_tr v o) as [[v1 f]|k] eqn:E.
  - rewrite (run_cons_ok R rO radd rmul rsub ropp inj ltb Vx padval o ops v v1 f E). rewrite (IH v1 H).
    destruct o; try discriminate.
    + exact (proj1 (top_channels_untouched R rO rI radd rmul rsub ropp inj ltb Vx padval ZR v o v1 f E)).
    + cbn [step_tr] in E. inversion E; subst. reflexivity.
  - rewrite (run_cons_err R rO radd rmul rsub ropp inj ltb Vx padval o ops v k E). exact (IH v H).
Qed.

(* the property sentence, for every finite history of spatial operations and copies *)
Theorem property_end_to_end : forall ops (v : volT),
  wf (v_shape _ _ v) -> so (v_aff _ _ v) -> Forall (op_modes_ok Vx) ops ->
  let r := vrun_tr v ops in
  let v' := fst r in
  (* the result: shape >= 1, affine scaled orthogonal, same coordinate system and frame of reference *)
  wf (v_shape _ _ v') /\ so (v_aff _ _ v') /\
  v_patient _ _ v' = v_patient _ _ v /\ v_for _ _ v' = v_for _ _ v /\
  (* every voxel of the result is a retained voxel at its old coordinate or padding *)
  (forall j, inr (v_shape _ _ v') j ->
     match snd r j with
     | Some i => inr (v_shape _ _ v) i /\ physz (v_aff _ _ v') j = physz (v_aff _ _ v) i
     | None => exists ops1 s ops2 vpre w md cv pc vmid fp l m,
         ops = (ops1 ++ Sp s :: ops2)%list /\ nopad s = false /\
         vol_pad R radd rmul inj Vx padval vpre w md cv pc = Ok (vmid, fp) /\ prep_pad_width w = Ok l /\
         inr (v_shape _ _ vmid) m /\ fp m = None /\ snd (vrun_tr vmid ops2) j = Some m /\
         physz (v_aff _ _ v') j = physz (v_aff _ _ vmid) m
     end) /\
  (* no voxel is duplicated *)
  (forall j j' i, inr (v_shape _ _ v') j -> inr (v_shape _ _ v') j' ->
     snd r j = Some i -> snd r j' = Some i -> j = j') /\
  (* values: retained voxels keep theirs (up to one channel re-indexing when channel operations occur) *)
  (no_with_array ops = true ->
   exists psi : list Z -> list Z, forall j, inr (v_shape _ _ v') j -> forall i, snd r j = Some i ->
     forall c, v_arr _ _ v' j c = v_arr _ _ v i (psi c)) /\
  (* channel dimensions and descriptors untouched by spatial operations *)
  (forallb op_spatial ops = true -> v_chans _ _ v' = v_chans _ _ v) /\
  (* a geometry-only object undergoes the identical change *)
  geom_of _ _ v' = grunR (geom_of _ _ v) ops.
Proof.
  intros ops v W S M r v'. subst r v'.
  destruct (top_history R rO rI radd rmul rsub ropp inj ltb Vx padval ZR ops v W) as (E & W' & S' & Pa & Fo & _ & V).
  split; [exact W'|]. split; [exact (S' S)|]. split; [exact Pa|]. split; [exact Fo|].
  split.
  { intros j Hj.
    pose proof (history_new_voxels_are_padding R rO rI radd rmul rsub ropp inj ltb Vx padval ZR ops v W j Hj) as H.
    cbv zeta in H. destruct (snd (vrun_tr v ops) j) as [i|]; [exact H|].
    destruct H as (ops1 & s & ops2 & vpre & w & md & cv & pc & vmid & fp & l & m & H).
    exists ops1, s, ops2, vpre, w, md, cv, pc, vmid, fp, l, m. tauto. }
  split.
  { pose proof (history_injective R rO radd rmul rsub ropp inj ltb Vx padval ops v W) as (_ & _ & I). exact I. }
  split; [exact V|]. split.
  { intros Hs. rewrite E. apply spatial_history_keeps_channels. exact Hs. }
  rewrite E. apply history_geometry_commutes. exact M.
Qed.
End E2E.

Lemma ex_end_to_end :
  let ops := (ex_h_ops1 ++ Sp ex_h_pad :: ex_h_ops2)%list in
  wf (v_shape _ _ ex_vol2) /\ scaled_orthogonal Qc (Q2Qc 0) Qcplus Qcmult (v_aff _ _ ex_vol2) /\
  Forall (op_modes_ok Q) ops /\ forallb op_spatial ops = true /\ no_with_array ops = true /\
  v_shape _ _ (fst (q_run_tr ex_vol2 ops)) = (4, 4, 3).
Proof.
  split; [cbn; lia|]. split; [exact ex_so|]. split.
  - repeat constructor; cbn; try discriminate; auto.
  - vm_compute. repeat split; reflexivity.
Qed.
