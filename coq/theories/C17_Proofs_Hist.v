(* C17 - proofs, part 5: objects with a past.
   Histories now contain user edits of the code itself (value / form, scheme designator, version), copies made
   outside the API (deepcopy, pickle) and uses of an object as a key (hash, set, dict) BEFORE such edits.
   What is proved: none of this leaves a trace - in every reachable heap the hash of a concept is the hash of the
   pydicom Code with the scheme and value it carries NOW, and a set / dict keyed by it and the Code of the same
   scheme, value and version are interchangeable, whatever happened to the object (or to the object it was
   copied from) before. *)
From Coq Require Import String ZArith List Bool Ascii Lia.
From HD Require Import Base.Val C17_Model C17_Proofs C17_Proofs_Ext C17_Proofs_Set.
Import ListNotations.
Open Scope string_scope.
Open Scope Z_scope.

(* ---- the pydicom Code of the code an object carries now ------------------------------------------- *)
Lemma wf_code_of : forall d, wf_concept d ->
  exists s v, ds_scheme d = Ok s /\ ds_value d = Some v /\
    code_of d = Ok (Code v s "x" (ds_version d)) /\
    hash_key (HD d) = Ok (s ++ v) /\
    (forall m ver, hash_key (PD (Code v s m ver)) = Ok (s ++ v)) /\
    oview (HD d) = Some (Some v, s, ds_version d) /\
    scheme_value (HD d) = Some (s, v).
Proof.
  intros d W. destruct (wf_value d W) as [a [v [_ [Hv _]]]]. destruct W as [_ [_ Hs]].
  destruct (d_scheme d) as [s|] eqn:Es; [|contradiction]. exists s, v.
  unfold code_of, hash_key, ds_scheme, req, oview, scheme_value. rewrite Es, Hv. cbn [bind].
  repeat split; reflexivity.
Qed.

(* hash(obj) of a concept: the hashed string is scheme ++ value of the record as it is, and it is the hash of
   the pydicom Code (any meaning, any version) of that scheme and value - for every hash function H *)
Lemma hash_obs_wf : forall d, wf_concept d -> d_cc d = true ->
  exists s v, ds_scheme d = Ok s /\ ds_value d = Some v /\ hash_obs d = Ok (s ++ v, true) /\
    forall (H : string -> Z) m ver,
      obj_hash H (HD d) = Ok (H (s ++ v)) /\ obj_hash H (PD (Code v s m ver)) = obj_hash H (HD d).
Proof.
  intros d W C. destruct (wf_code_of d W) as [s [v [Hs [Hv [Hc [Hk [Hp _]]]]]]].
  exists s, v. split; [exact Hs|]. split; [exact Hv|]. split.
  - unfold hash_obs, hashable, hash_eq. rewrite C. cbn [bind]. rewrite Hk. cbn [bind]. rewrite Hc. cbn [bind].
    rewrite (Hp "x" (ds_version d)). cbn [bind]. now rewrite String.eqb_refl.
  - intros H m ver. unfold obj_hash. rewrite Hk, (Hp m ver). split; reflexivity.
Qed.

Lemma hash_obs_plain : forall d, d_cc d = false -> hash_obs d = Err "TypeError".
Proof. intros d C. unfold hash_obs, hashable. now rewrite C. Qed.

(* ---- operations that only look ------------------------------------------------------------------------ *)
Lemma observations_leave_no_trace : forall srt st a b,
  fst (step srt st (OHash a)) = st /\ fst (step srt st (OLookup a b)) = st /\ fst (step srt st (OEq a b)) = st.
Proof.
  intros srt [h kids] a b. cbn [step]. repeat split.
  - destruct (nth_error h a); reflexivity.
  - destruct (nth_error h a), (nth_error h b); reflexivity.
  - destruct (nth_error h a), (nth_error h b); reflexivity.
Qed.

(* the answer of hash(obj) is a function of the object's record at the time of the call *)
Lemma hash_reads_the_present : forall srt h kids h' kids' a d,
  nth_error h a = Some d -> nth_error h' a = Some d ->
  snd (step srt (h, kids) (OHash a)) = snd (step srt (h', kids') (OHash a)).
Proof. intros srt h kids h' kids' a d E E'. cbn [step]. now rewrite E, E'. Qed.

(* ---- the main statement: hash after ANY history ------------------------------------------------------ *)
Lemma reachable_hash_follows_code : forall srt ops h kids vs a d,
  run_ops srt ([], []) ops = ((h, kids), vs) -> nth_error h a = Some d -> d_cc d = true ->
  exists s v, ds_scheme d = Ok s /\ ds_value d = Some v /\
    step srt (h, kids) (OHash a) = ((h, kids), VL [VS (s ++ v); VB true]) /\
    forall (H : string -> Z) m ver,
      obj_hash H (HD d) = Ok (H (s ++ v)) /\ obj_hash H (PD (Code v s m ver)) = obj_hash H (HD d).
Proof.
  intros srt ops h kids vs a d R Ha C.
  pose proof (reachable_inv srt ops) as I. rewrite R in I. cbn [fst] in I.
  pose proof (Forall_nth_error _ h a d I Ha C) as W.
  destruct (hash_obs_wf d W C) as [s [v [Hs [Hv [Ho HH]]]]].
  exists s, v. split; [exact Hs|]. split; [exact Hv|]. split; [|exact HH].
  cbn [step]. rewrite Ha, Ho. reflexivity.
Qed.

(* two concepts of a reachable heap with the same scheme and value hash equally - whichever was hashed, copied,
   pickled or edited before *)
Lemma reachable_same_code_same_hash : forall srt ops h kids vs a b da db (H : string -> Z),
  run_ops srt ([], []) ops = ((h, kids), vs) -> nth_error h a = Some da -> nth_error h b = Some db ->
  d_cc da = true -> d_cc db = true -> ds_scheme da = ds_scheme db -> ds_value da = ds_value db ->
  obj_hash H (HD da) = obj_hash H (HD db) /\ exists z, obj_hash H (HD da) = Ok z.
Proof.
  intros srt ops h kids vs a b da db H R Ha Hb Ca Cb Es Ev.
  destruct (reachable_hash_follows_code srt ops h kids vs a da R Ha Ca) as [s [v [Hs [Hv [_ HHa]]]]].
  destruct (reachable_hash_follows_code srt ops h kids vs b db R Hb Cb) as [s' [v' [Hs' [Hv' [_ HHb]]]]].
  rewrite Es, Hs' in Hs. injection Hs as <-. rewrite Ev, Hv' in Hv. injection Hv as <-.
  destruct (HHa H "x" None) as [Ea _]. destruct (HHb H "x" None) as [Eb _]. rewrite Ea, Eb. eauto.
Qed.

(* ---- the scenario spelled out: use as a key, copy, edit the copy ------------------------------------- *)
Lemma nth_error_snoc : forall (h : heap) x t, nth_error (h ++ x :: t)%list (length h) = Some x.
Proof. intros. rewrite nth_error_app2, Nat.sub_diag by lia. reflexivity. Qed.

Lemma clone_fresh : forall srt h kids a d, nth_error h a = Some d ->
  exists h' kids', step srt (h, kids) (OClone a) = ((h', kids'), vnat (length h)) /\
    nth_error h' (length h) = Some d /\ (forall i, (i < length h)%nat -> nth_error h' i = nth_error h i).
Proof.
  intros srt h kids a d E. cbn [step]. rewrite E.
  destruct (kid_of kids a) as [c|]; [destruct (nth_error h c) as [dc|]|]; do 2 eexists;
    (split; [reflexivity|]); (split; [apply nth_error_snoc|]); intros i Hi; now rewrite nth_error_app1.
Qed.

(* hash the original (before and after), clone it (deepcopy / pickle), give the clone another code:
   the clone hashes as its NEW code, the original as its own *)
Lemma hashed_then_cloned_then_edited : forall srt h kids a d k v', nth_error h a = Some d ->
  wf_concept d -> d_cc d = true ->
  exists s v st1 st2,
    ds_scheme d = Ok s /\ ds_value d = Some v /\
    step srt (h, kids) (OHash a) = ((h, kids), VL [VS (s ++ v); VB true]) /\
    step srt (h, kids) (OClone a) = (st1, vnat (length h)) /\
    step srt st1 (OSetCode (length h) k v') = (st2, vnat (length h)) /\
    snd (step srt st2 (OHash (length h))) = VL [VS (s ++ v'); VB true] /\
    snd (step srt st2 (OHash a)) = VL [VS (s ++ v); VB true].
Proof.
  intros srt h kids a d k v' E W C.
  assert (La : (a < length h)%nat) by (apply nth_error_Some; congruence).
  destruct (hash_obs_wf d W C) as [s [v [Hs [Hv [Ho _]]]]].
  destruct (clone_fresh srt h kids a d E) as [h1 [kids1 [S1 [N1 O1]]]].
  assert (L1 : (length h < length h1)%nat) by (apply nth_error_Some; congruence).
  exists s, v, (h1, kids1), (update h1 (length h) (set_code k v' d), kids1).
  split; [exact Hs|]. split; [exact Hv|]. split; [cbn [step]; now rewrite E, Ho|]. split; [exact S1|].
  split; [cbn [step]; now rewrite N1|]. split.
  - cbn [step]. rewrite nth_error_update_same by exact L1.
    assert (W' : wf_concept (set_code k v' d)) by now apply wf_set_code.
    destruct (hash_obs_wf _ W' C) as [s2 [v2 [Hs2 [Hv2 [Ho2 _]]]]]. rewrite Ho2. cbn [vres fst snd].
    assert (s2 = s) by (unfold ds_scheme in *; cbn in Hs2; congruence). subst s2.
    assert (v2 = v') by (destruct k; cbn in Hv2; congruence). subst v2. reflexivity.
  - cbn [step]. rewrite nth_error_update_other by lia. rewrite (O1 a La), E, Ho. reflexivity.
Qed.

(* the same for an edit of the object itself (also reached through an alias: from_dataset(copy=False) returns the
   same address), of its scheme designator, and of its form *)
Lemma hashed_then_edited : forall srt h kids a d, nth_error h a = Some d -> wf_concept d -> d_cc d = true ->
  exists s v, ds_scheme d = Ok s /\ ds_value d = Some v /\
    (forall k v', snd (step srt (fst (step srt (h, kids) (OSetCode a k v'))) (OHash a)) = VL [VS (s ++ v'); VB true]) /\
    (forall s', snd (step srt (fst (step srt (h, kids) (OSetScheme a s'))) (OHash a)) = VL [VS (s' ++ v); VB true]) /\
    (forall m, snd (step srt (fst (step srt (h, kids) (OSetMeaning a m))) (OHash a)) = VL [VS (s ++ v); VB true]) /\
    (forall ver, snd (step srt (fst (step srt (h, kids) (OSetVersion a ver))) (OHash a)) = VL [VS (s ++ v); VB true]).
Proof.
  intros srt h kids a d E W C.
  assert (La : (a < length h)%nat) by (apply nth_error_Some; congruence).
  destruct (wf_code_of d W) as [s [v [Hs [Hv _]]]]. exists s, v. split; [exact Hs|]. split; [exact Hv|].
  assert (G : forall d', wf_concept d' -> d_cc d' = true -> forall s2 v2, ds_scheme d' = Ok s2 -> ds_value d' = Some v2 ->
              snd (step srt (update h a d', kids) (OHash a)) = VL [VS (s2 ++ v2); VB true]).
  { intros d' W' C' s2 v2 Hs2 Hv2. cbn [step]. rewrite nth_error_update_same by exact La.
    destruct (hash_obs_wf d' W' C') as [s3 [v3 [Hs3 [Hv3 [Ho3 _]]]]]. rewrite Ho3. cbn [vres fst snd]. congruence. }
  repeat split.
  - intros k v'. cbn [step]. rewrite E. cbn [fst]. apply G; [now apply wf_set_code | exact C | exact Hs | destruct k; reflexivity].
  - intros s'. cbn [step]. rewrite E. cbn [fst]. apply G; [now apply wf_set_scheme | exact C | reflexivity | exact Hv].
  - intros m. cbn [step]. rewrite E. cbn [fst]. apply G; [now apply wf_set_meaning | exact C | exact Hs | exact Hv].
  - intros ver. cbn [step]. rewrite E. cbn [fst]. apply G; [now apply wf_set_version | exact C | exact Hs | exact Hv].
Qed.

(* ---- sets and dictionaries keyed by an object with a past ------------------------------------------- *)
Lemma bind_ok : forall {A B} (r : res A) (f : A -> res B) x, r = Ok x -> bind r f = f x.
Proof. intros A B r f x ->. reflexivity. Qed.

Lemma omatch_ext : forall srt a a' b b', hash_key a = hash_key a' -> oview a = oview a' ->
  hash_key b = hash_key b' -> oview b = oview b' -> omatch srt a b = omatch srt a' b'.
Proof. intros srt a a' b b' K V K' V'. unfold omatch. now rewrite K, V, K', V'. Qed.

Lemma set_of_single : forall srt U e, eok U e -> set_of_list srt [e] = Ok [e].
Proof.
  intros srt U e He. destruct (ready_parts _ (proj2 He)) as [k [v [Hk _]]].
  unfold set_of_list. cbn [fold_left bind]. unfold set_add, set_lookup_ix. rewrite Hk. reflexivity.
Qed.

Lemma set_contains_single : forall srt U e x, eok U e -> eok U x -> set_contains srt [e] x = Ok (ematch srt e x).
Proof.
  intros srt U e x He Hx. destruct (ready_parts _ (proj2 Hx)) as [k [v [Hk _]]].
  unfold set_contains, set_lookup_ix. rewrite Hk. cbn [bind set_find].
  rewrite (slot_match_ready srt U e x He Hx). cbn [bind]. destruct (ematch srt e x); reflexivity.
Qed.

Lemma dict_of_single : forall srt U e z, eok U e -> dict_of_list srt [(e, z)] = Ok [(e, z)].
Proof.
  intros srt U e z He. destruct (ready_parts _ (proj2 He)) as [k [v [Hk _]]].
  unfold dict_of_list. cbn [fold_left bind fst snd]. unfold dict_set, set_lookup_ix. cbn [map fst]. rewrite Hk. reflexivity.
Qed.

Lemma dict_get_single : forall srt U e z x, eok U e -> eok U x ->
  dict_get srt [(e, z)] x = Ok (if ematch srt e x then Some z else None).
Proof.
  intros srt U e z x He Hx. destruct (ready_parts _ (proj2 Hx)) as [k [v [Hk _]]].
  unfold dict_get, set_lookup_ix. cbn [map fst]. rewrite Hk. cbn [bind set_find].
  rewrite (slot_match_ready srt U e x He Hx). cbn [bind]. destruct (ematch srt e x); reflexivity.
Qed.

(* {oa} / {oa: 1} probed with ob, with Code(ob), {Code(oa)} probed with ob: one answer, which is "same hashed string
   and ==" ; oa and its own Code always find each other *)
Lemma lookup_obs_wf : forall srt n a b da db, wf_concept da -> wf_concept db -> d_cc da = true -> d_cc db = true ->
  (a < n)%nat -> (b < n)%nat -> (a = b -> da = db) ->
  exists r, lookup_obs srt n a b da db = Ok [r; r; r; r; true; true] /\
    (r = true <-> hash_key (HD da) = hash_key (HD db) /\ obj_eq srt (HD da) (HD db) = Ok true) /\
    (a = b -> r = true).
Proof.
  intros srt n a b da db Wa Wb Ca Cb La Lb Eab.
  destruct (wf_code_of da Wa) as [sa [va [Hsa [Hva [Hca [Hka [Hpa [Hoa Hsva]]]]]]]].
  destruct (wf_code_of db Wb) as [sb [vb [Hsb [Hvb [Hcb [Hkb [Hpb [Hob Hsvb]]]]]]]].
  set (ca := Code va sa "x" (ds_version da)) in *. set (cb := Code vb sb "x" (ds_version db)) in *.
  set (U := fun i : nat => if Nat.eqb i n then PD ca else if Nat.eqb i (S n) then PD cb
                           else if Nat.eqb i a then HD da else HD db).
  assert (Ra : ready (HD da)) by now apply wf_is_ready. assert (Rb : ready (HD db)) by now apply wf_is_ready.
  assert (Ea : eok U (a, HD da)).
  { split; [|exact Ra]. cbn [fst snd]. unfold U.
    replace (Nat.eqb a n) with false by (symmetry; apply Nat.eqb_neq; lia).
    replace (Nat.eqb a (S n)) with false by (symmetry; apply Nat.eqb_neq; lia). now rewrite Nat.eqb_refl. }
  assert (Eb : eok U (b, HD db)).
  { split; [|exact Rb]. cbn [fst snd]. unfold U.
    replace (Nat.eqb b n) with false by (symmetry; apply Nat.eqb_neq; lia).
    replace (Nat.eqb b (S n)) with false by (symmetry; apply Nat.eqb_neq; lia).
    destruct (Nat.eqb b a) eqn:E; [|reflexivity]. apply Nat.eqb_eq in E. symmetry in E. now rewrite (Eab E). }
  assert (Eca : eok U (n, PD ca)).
  { split; [|apply code_is_ready]. cbn [fst snd]. unfold U. now rewrite Nat.eqb_refl. }
  assert (Ecb : eok U (S n, PD cb)).
  { split; [|apply code_is_ready]. cbn [fst snd]. unfold U.
    replace (Nat.eqb (S n) n) with false by (symmetry; apply Nat.eqb_neq; lia). now rewrite Nat.eqb_refl. }
  exists (omatch srt (HD da) (HD db)).
  assert (Kca : hash_key (PD ca) = hash_key (HD da)) by (rewrite Hka; apply Hpa).
  assert (Kcb : hash_key (PD cb) = hash_key (HD db)) by (rewrite Hkb; apply Hpb).
  assert (Vca : oview (PD ca) = oview (HD da)) by (rewrite Hoa; reflexivity).
  assert (Vcb : oview (PD cb) = oview (HD db)) by (rewrite Hob; reflexivity).
  split; [|split].
  - unfold lookup_obs, hashable. rewrite Ca, Cb. cbn [bind].
    erewrite bind_ok by (eapply (set_of_single srt U); exact Ea). cbn beta.
    erewrite bind_ok by (eapply (dict_of_single srt U); exact Ea). cbn beta.
    erewrite bind_ok by (eapply (set_contains_single srt U); [exact Ea | exact Eb]). cbn beta.
    erewrite bind_ok by (eapply (dict_get_single srt U); [exact Ea | exact Eb]). cbn beta.
    erewrite bind_ok by exact Hca. cbn beta. erewrite bind_ok by exact Hcb. cbn beta.
    erewrite bind_ok by (eapply (set_contains_single srt U); [exact Ea | exact Ecb]). cbn beta.
    erewrite bind_ok by (eapply (set_of_single srt U); exact Eca). cbn beta.
    erewrite bind_ok by (eapply (set_contains_single srt U); [exact Eca | exact Eb]). cbn beta.
    erewrite bind_ok by (eapply (set_contains_single srt U); [exact Ea | exact Eca]). cbn beta.
    erewrite bind_ok by (eapply (set_contains_single srt U); [exact Eca | exact Ea]). cbn beta.
    unfold ematch. cbn [snd].
    rewrite (omatch_ext srt (HD da) (HD da) (PD cb) (HD db) eq_refl eq_refl Kcb Vcb).
    rewrite (omatch_ext srt (PD ca) (HD da) (HD db) (HD db) Kca Vca eq_refl eq_refl).
    rewrite (omatch_ext srt (HD da) (HD da) (PD ca) (HD da) eq_refl eq_refl Kca Vca).
    rewrite (omatch_ext srt (PD ca) (HD da) (HD da) (HD da) Kca Vca eq_refl eq_refl).
    rewrite (omatch_refl srt (HD da) Ra). destruct (omatch srt (HD da) (HD db)); reflexivity.
  - apply omatch_spec; assumption.
  - intros E. rewrite <- (Eab E). now apply omatch_refl.
Qed.

Lemma reachable_lookup : forall srt ops h kids vs a b da db,
  run_ops srt ([], []) ops = ((h, kids), vs) -> nth_error h a = Some da -> nth_error h b = Some db ->
  d_cc da = true -> d_cc db = true ->
  exists r, step srt (h, kids) (OLookup a b) = ((h, kids), VL [VB r; VB r; VB r; VB r; VB true; VB true]) /\
    (r = true <-> hash_key (HD da) = hash_key (HD db) /\ obj_eq srt (HD da) (HD db) = Ok true) /\
    (a = b -> r = true).
Proof.
  intros srt ops h kids vs a b da db R Ha Hb Ca Cb.
  pose proof (reachable_inv srt ops) as I. rewrite R in I. cbn [fst] in I.
  pose proof (Forall_nth_error _ h a da I Ha Ca) as Wa. pose proof (Forall_nth_error _ h b db I Hb Cb) as Wb.
  assert (La : (a < length h)%nat) by (apply nth_error_Some; congruence).
  assert (Lb : (b < length h)%nat) by (apply nth_error_Some; congruence).
  assert (Eab : a = b -> da = db) by (intros ->; congruence).
  destruct (lookup_obs_wf srt (length h) a b da db Wa Wb Ca Cb La Lb Eab) as [r [Hr [Hi Hs]]].
  exists r. split; [|split; assumption]. cbn [step]. rewrite Ha, Hb, Hr. reflexivity.
Qed.

(* ---- non-vacuity: the history of the seeded scenario, evaluated ---------------------------------------- *)
Definition ex_past_ops : list op :=
  [OInit "373098007" "SCT" "Mean" None; OHash 0%nat; OClone 0%nat; OSetCode 1%nat ACodeValue "373099004";
   OHash 1%nat; OHash 0%nat; OFromDataset (Addr 0%nat) true; OSetScheme 2%nat "99TEST"; OHash 2%nat;
   OSetCode 0%nat ALongCodeValue "some_code_value_longer_than_sixteen_chars"; OLookup 0%nat 0%nat; OLookup 0%nat 1%nat;
   OLookup 1%nat 1%nat].

Lemma past_example :
  exists h kids, run_ops (fun _ => None) ([], []) ex_past_ops =
    ((h, kids),
     [VZ 0; VL [VS "SCT373098007"; VB true]; VZ 1; VZ 1; VL [VS "SCT373099004"; VB true];
      VL [VS "SCT373098007"; VB true]; VZ 2; VZ 2; VL [VS "99TEST373098007"; VB true]; VZ 0;
      VL [VB true; VB true; VB true; VB true; VB true; VB true];
      VL [VB false; VB false; VB false; VB false; VB true; VB true];
      VL [VB true; VB true; VB true; VB true; VB true; VB true]]) /\
    length h = 3%nat /\
    map (fun d => vres VS (bind (hashable d) hash_key)) h =
      [VS "SCTsome_code_value_longer_than_sixteen_chars"; VS "SCT373099004"; VS "99TEST373098007"].
Proof. do 2 eexists. split; [vm_compute; reflexivity|]. split; reflexivity. Qed.
