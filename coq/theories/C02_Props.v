(* C02 - property theorems.  Statements + `exact <lemma>` + Print Assumptions only.
   Vocabulary (C02_Model / C02_Proofs):
     mask st key s        stored pixels of the frame of (plane key, segment s), zeros if none
     lm_raw st key        stored label-map plane of plane key, zeros if none
     lm_label req rl v    v (or 1 + position of v in req when relabelling) if v is requested, else 0
     label_at rl k s      s, or k + 1 when relabelling (k = 0-based position in the request)
     req_covers st key req p f k   frame f of plane key belongs to the k-th requested segment and is > 0 at pixel p *)
From Coq Require Import String ZArith List Bool Lia Permutation.
From HD Require Import Base.Val C02_Model C02_Proofs C02_Proofs_Ext C02_Proofs_Ix C02_Proofs_Ptr.
Import ListNotations.
Open Scope Z_scope.

(* ---- stacked_channel ------------------------------------------------ *)
(* BINARY / FRACTIONAL: channel k of output frame i is exactly the stored mask of
   (i-th requested plane, k-th requested segment) (divided by MaximumFractionalValue when rescaling) *)
Theorem C02_stacked_channel : forall st keys req o d r,
  s_ty st <> LABELMAP -> o_combine o = false -> wf_opts o ->
  1 <= s_maxfrac st <= 255 -> wf_values st (stored_bound st) ->
  seg_frame st keys req o = Ok (d, r) ->
  let A := map (fun key => map (mask st key) req) keys in
  r = if o_rescale o && segtype_eqb (s_ty st) FRACTIONAL then OStackQ A (s_maxfrac st) else OStack A.
Proof. exact stacked_channel. Qed.
Print Assumptions C02_stacked_channel.

Theorem C02_mask_is_the_stored_frame : forall st f,
  unique_frames false (s_frames st) = true -> In f (s_frames st) -> mask st (fkey f) (fseg f) = fpix f.
Proof. exact mask_unique. Qed.
Print Assumptions C02_mask_is_the_stored_frame.

Theorem C02_mask_of_absent_frame_is_empty : forall st key s,
  (forall f, In f (s_frames st) -> ~ (fkey f = key /\ fseg f = s)) -> mask st key s = zeros (s_npix st).
Proof. exact mask_absent. Qed.
Print Assumptions C02_mask_of_absent_frame_is_empty.

(* LABELMAP: channel k is the indicator of "stored value = k-th requested number" *)
Theorem C02_stacked_channel_labelmap : forall st keys req o d r,
  wf_labelmap st -> s_ty st = LABELMAP -> wf_opts o -> o_combine o = false -> req <> [] -> NoDup req ->
  seg_frame st keys req o = Ok (d, r) ->
  r = OStack (map (fun key => map (fun s => map (fun v => if v =? s then 1 else 0) (lm_raw st key)) req) keys).
Proof. exact labelmap_stacked_read. Qed.
Print Assumptions C02_stacked_channel_labelmap.

(* ---- combined_pixel --------------------------------------------------- *)
Theorem C02_combined_pixel_labelmap : forall st keys req o d r,
  wf_labelmap st -> s_ty st = LABELMAP -> wf_opts o -> o_combine o = true -> req <> [] ->
  seg_frame st keys req o = Ok (d, r) ->
  r = OComb (map (fun key => map (lm_label req (o_relabel o)) (lm_raw st key)) keys).
Proof. exact labelmap_combined_read. Qed.
Print Assumptions C02_combined_pixel_labelmap.

(* unrequested_never_appear (label maps): a pixel is 0 unless its stored segment is requested *)
Theorem C02_unrequested_never_appear_labelmap : forall req relabel v,
  lm_label req relabel v = 0 /\ ~ In v req \/
  In v req /\ lm_label req relabel v = (if relabel then index_of v req + 1 else v).
Proof. exact lm_label_cases. Qed.
Print Assumptions C02_unrequested_never_appear_labelmap.

(* BINARY: each pixel of the combined result is 0 iff no requested segment covers it, otherwise the label
   of a requested covering segment (so unrequested segments never appear), namely the largest one *)
Theorem C02_combined_pixel_binary : forall st keys req o d a,
  wf_binary st -> wf_opts o -> o_combine o = true ->
  seg_frame st keys req o = Ok (d, OComb a) ->
  Forall2 (fun key plane =>
    length plane = Z.to_nat (s_npix st) /\
    forall p, (p < Z.to_nat (s_npix st))%nat ->
      (nth p plane 0 = 0 <-> forall f k, ~ req_covers st key req p f k) /\
      (nth p plane 0 <> 0 -> exists f k, req_covers st key req p f k /\
                                         nth p plane 0 = label_at (o_relabel o) k (fseg f)) /\
      (forall f k, req_covers st key req p f k -> label_at (o_relabel o) k (fseg f) <= nth p plane 0))
    keys a.
Proof. exact binary_combined_read. Qed.
Print Assumptions C02_combined_pixel_binary.

(* ---- overlap_refused ------------------------------------------------- *)
(* with the overlap check on, the read fails with RuntimeError exactly when the same read with the check
   off succeeds and some pixel of a requested plane is covered by two requested (frame, position) pairs *)
Theorem C02_overlap_refused : forall st keys req o,
  wf_binary st -> wf_opts o -> o_combine o = true -> o_skip o = false ->
  (seg_frame st keys req o = Err "RuntimeError"%string <->
   (forallb (fun s => memz s (s_segs st)) req = true /\
    (exists d, seg_frame st keys req (mkOpts true (o_relabel o) true (o_rescale o) (o_dtype o)) = Ok d) /\
    exists key p, In key keys /\ (p < Z.to_nat (s_npix st))%nat /\
                  (2 <= cnt p (join_plane st key (chan_table req true (o_relabel o))))%nat)).
Proof. exact binary_overlap_read. Qed.
Print Assumptions C02_overlap_refused.

(* ---- no_truncation ----------------------------------------------------- *)
Theorem C02_no_truncation : forall d v, wf_dtype d -> 0 <= v <= dtype_max d -> cast d v = v.
Proof. exact cast_id. Qed.
Print Assumptions C02_no_truncation.

Theorem C02_default_dtype_holds_maximum : forall m, 0 <= m < 2 ^ 32 -> m <= dtype_max (unsigned_dtype m).
Proof. exact unsigned_dtype_fits. Qed.
Print Assumptions C02_default_dtype_holds_maximum.

(* the remap intermediate dtype holds every stored label (segment numbers up to 65535) *)
Theorem C02_intermediate_dtype_holds_labels : forall st req,
  wf_labelmap st -> forallb (fun s => memz s (s_segs st)) req = true ->
  list_max (s_segs st) <= dtype_max (unsigned_dtype (2 ^ s_bits st - 1)).
Proof. exact idt_holds. Qed.
Print Assumptions C02_intermediate_dtype_holds_labels.

(* ---- missing_frames_policy ----------------------------------------------- *)
Theorem C02_policy_source_instance : forall st keys am,
  policy EInstance am st keys = None <-> (am = true \/ forall k, In k keys -> In k (s_known st)).
Proof. exact policy_instance. Qed.
Print Assumptions C02_policy_source_instance.

Theorem C02_policy_source_frame : forall st keys am,
  policy EFrame am st keys = None <-> (am = true \/ forall k, In k keys -> k <= max_ref st).
Proof. exact policy_frame. Qed.
Print Assumptions C02_policy_source_frame.

Theorem C02_policy_dimension_index : forall st keys am,
  policy EDimIdx am st keys = None <->
  (am = true \/ forall k, In k keys -> exists f, In f (s_frames st) /\ fkey f = k).
Proof. exact policy_dimidx. Qed.
Print Assumptions C02_policy_dimension_index.

Theorem C02_policy_volume : forall st keys am,
  policy EVolume am st keys = None <->
  (am = true \/ forall k, In k keys -> exists f, In f (s_frames st) /\ fkey f = k).
Proof. exact policy_volume. Qed.
Print Assumptions C02_policy_volume.

Theorem C02_read_refused_by_policy : forall e am st keys req o k,
  policy e am st keys = Some k -> exists k', read e am st keys req o = Err k'.
Proof. exact read_refused_by_policy. Qed.
Print Assumptions C02_read_refused_by_policy.

(* every successful read of any entry point went through its policy and is the seg-frame result *)
Theorem C02_read_ok : forall e am st keys req o r,
  read e am st keys req o = Ok r ->
  req <> [] /\ policy e am st keys = None /\
  unique_frames (segtype_eqb (s_ty st) LABELMAP) (s_frames st) = true /\
  seg_frame st keys req o = Ok r.
Proof. exact read_ok. Qed.
Print Assumptions C02_read_ok.

(* ---- search_exact ---------------------------------------------------------- *)
Theorem C02_search_exact : forall ds bg q,
  get_segment_numbers ds bg q = map d_num (filter (fun d => matches q d && negb (is_background bg d)) ds).
Proof. exact search_exact. Qed.
Print Assumptions C02_search_exact.

Theorem C02_segment_numbers : forall ds bg,
  segment_numbers ds bg = map d_num (filter (fun d => negb (is_background bg d)) ds).
Proof. exact segment_numbers_spec. Qed.
Print Assumptions C02_segment_numbers.

Theorem C02_tracking_ids_exact : forall ds q i u,
  In (i, u) (get_tracking_ids ds q) <->
  exists d, In d ds /\ d_tid d = Some i /\ d_tuid d = Some u /\ tmatches q d = true.
Proof. exact tracking_exact. Qed.
Print Assumptions C02_tracking_ids_exact.

Theorem C02_tracking_ids_no_duplicates : forall ds q, NoDup (get_tracking_ids ds q).
Proof. exact (fun ds q => dedup_NoDup (tracking_pairs ds q)). Qed.
Print Assumptions C02_tracking_ids_no_duplicates.

(* ---- non-vacuity: concrete non-trivial instances meet the hypotheses ----------- *)
Example C02_example_binary :
  wf_binary ex_bin /\ wf_opts (mkOpts true true false true None) /\
  seg_frame ex_bin [2; 1; 3] [2; 1] (mkOpts true true false true None) = Ok (DU 8, OComb [[0;2;0;0]; [2;1;1;0]; [0;0;0;0]]) /\
  seg_frame ex_bin [2] [3; 1] (mkOpts true false false true None) = Err "RuntimeError" /\
  seg_frame ex_bin [2] [3; 1] (mkOpts true false true true None) = Ok (DU 8, OComb [[0;3;0;3]]) /\
  seg_frame ex_bin [1; 2] [3; 1] (mkOpts false false false true (Some DBool)) =
    Ok (DBool, OStack [[[0;0;0;0]; [1;0;0;0]]; [[0;1;0;1]; [0;1;0;0]]]).
Proof. exact example_binary. Qed.
Print Assumptions C02_example_binary.

Example C02_example_labelmap :
  wf_labelmap ex_lm /\
  seg_frame ex_lm [3; 2; 1] [65535; 7] (mkOpts true false false true None) =
    Ok (DU 16, OComb [[0;0;0;65535]; [0;0;0;0]; [0;7;0;65535]]) /\
  seg_frame ex_lm [1] [65535; 7] (mkOpts true true false true None) = Ok (DU 8, OComb [[0;2;0;1]]) /\
  seg_frame ex_lm [1] [300; 65535] (mkOpts false false false true None) = Ok (DU 8, OStack [[[0;0;1;0]; [0;0;0;1]]]) /\
  seg_frame ex_lm [1] [300; 65535] (mkOpts true false false true (Some (DU 8))) = Err "ValueError".
Proof. exact example_labelmap. Qed.
Print Assumptions C02_example_labelmap.

(* ====================================================================== *)
(* extension: repeated requests, FRACTIONAL combine, refusals, construction, descriptions, end-to-end *)

(* LABELMAP stacked read when the request may name a segment more than once (first_positions step) *)
Theorem C02_stacked_channel_labelmap_repeats : forall st keys req o d r,
  wf_labelmap st -> s_ty st = LABELMAP -> wf_opts o -> o_combine o = false -> req <> [] ->
  zlen req <= 2 ^ s_bits st - 1 ->
  seg_frame st keys req o = Ok (d, r) ->
  r = OStack (map (fun key => map (fun s => map (fun v => if v =? s then 1 else 0) (lm_raw st key)) req) keys).
Proof. exact labelmap_stacked_read_gen. Qed.
Print Assumptions C02_stacked_channel_labelmap_repeats.

(* ---- FRACTIONAL combine ------------------------------------------------ *)
Theorem C02_fractional_combine_is_binary_combine : forall st keys req o,
  wf_fractional_binary st -> o_combine o = true -> o_rescale o = true ->
  seg_frame st keys req o = seg_frame (binarize st) keys req o.
Proof. exact fractional_combine_as_binary. Qed.
Print Assumptions C02_fractional_combine_is_binary_combine.

Theorem C02_combined_pixel_fractional : forall st keys req o d a,
  wf_fractional_binary st -> wf_opts o -> o_combine o = true ->
  seg_frame st keys req o = Ok (d, OComb a) ->
  o_rescale o = true /\
  Forall2 (fun key plane =>
    length plane = Z.to_nat (s_npix st) /\
    forall p, (p < Z.to_nat (s_npix st))%nat ->
      (nth p plane 0 = 0 <-> forall f k, ~ req_covers st key req p f k) /\
      (nth p plane 0 <> 0 -> exists f k, req_covers st key req p f k /\
                                         nth p plane 0 = label_at (o_relabel o) k (fseg f)) /\
      (forall f k, req_covers st key req p f k -> label_at (o_relabel o) k (fseg f) <= nth p plane 0))
    keys a.
Proof. exact fractional_combined_read. Qed.
Print Assumptions C02_combined_pixel_fractional.

Theorem C02_overlap_refused_fractional : forall st keys req o,
  wf_fractional_binary st -> wf_opts o -> o_combine o = true -> o_rescale o = true -> o_skip o = false ->
  (seg_frame st keys req o = Err "RuntimeError"%string <->
   (forallb (fun s => memz s (s_segs st)) req = true /\
    (exists d, seg_frame st keys req (mkOpts true (o_relabel o) true true (o_dtype o)) = Ok d) /\
    exists key p, In key keys /\ (p < Z.to_nat (s_npix st))%nat /\
                  (2 <= cnt p (join_plane st key (chan_table req true (o_relabel o))))%nat)).
Proof. exact fractional_overlap_read. Qed.
Print Assumptions C02_overlap_refused_fractional.

Theorem C02_fractional_combine_needs_rescale : forall st keys req o,
  s_ty st = FRACTIONAL -> o_combine o = true -> o_rescale o = false ->
  seg_frame st keys req o = Err "ValueError".
Proof. exact fractional_combine_needs_rescale. Qed.
Print Assumptions C02_fractional_combine_needs_rescale.

Theorem C02_fractional_nonbinary_refused : forall st keys req o key f lab,
  s_ty st = FRACTIONAL -> o_combine o = true ->
  In key keys -> In (f, lab) (join_plane st key (chan_table req true (o_relabel o))) ->
  binary_valued (s_maxfrac st) f = false ->
  exists k, seg_frame st keys req o = Err k.
Proof. exact fractional_nonbinary_refused. Qed.
Print Assumptions C02_fractional_nonbinary_refused.

(* ---- refusals: capacity / dtype kind / rescale-needs-float / unknown segment -------- *)
Theorem C02_argument_checks_refuse : forall st keys req o,
  args_ok st req o = false -> seg_frame st keys req o = Err "ValueError".
Proof. exact args_refused. Qed.
Print Assumptions C02_argument_checks_refuse.

Theorem C02_result_dtype : forall st keys req o d r,
  seg_frame st keys req o = Ok (d, r) -> d = out_dtype st req o.
Proof. exact seg_frame_dtype. Qed.
Print Assumptions C02_result_dtype.

Theorem C02_refusals_binary : forall st keys req o,
  wf_binary st -> wf_opts o ->
  (seg_frame st keys req o = Err "ValueError" <-> args_ok st req o = false) /\
  (forall k, seg_frame st keys req o = Err k -> k = "ValueError"%string \/
             (k = "RuntimeError"%string /\ o_combine o = true /\ o_skip o = false)) /\
  (args_ok st req o = true -> o_combine o = false \/ o_skip o = true -> exists r, seg_frame st keys req o = Ok r).
Proof. exact binary_refusals. Qed.
Print Assumptions C02_refusals_binary.

Theorem C02_refusals_labelmap : forall st keys req o,
  wf_labelmap st -> s_ty st = LABELMAP -> wf_opts o -> req <> [] -> zlen req <= 2 ^ s_bits st - 1 ->
  ((exists r, seg_frame st keys req o = Ok r) <-> args_ok st req o = true) /\
  (forall k, seg_frame st keys req o = Err k -> k = "ValueError"%string).
Proof. exact labelmap_refusals. Qed.
Print Assumptions C02_refusals_labelmap.

(* ---- combine_at_construction ----------------------------------------------- *)
Theorem C02_combine_at_construction : forall segs d px out,
  wf_dtype d -> NoDup segs -> (forall s, In s segs -> 0 < s <= dtype_max d) -> zlen segs <= dtype_max d ->
  1 <= dtype_max d -> segs <> [] ->
  (forall p v, In p px -> In v p -> 0 <= v) ->
  ctor_labelmap4 segs d px = Ok out ->
  Forall2 (fun p v =>
    (forall k s, nth_error segs k = Some s -> (nth k p 0 = 1 <-> v = s)) /\
    (v = 0 <-> forall x, In x p -> x = 0)) px out.
Proof. exact ctor4_exact. Qed.
Print Assumptions C02_combine_at_construction.

(* ---- descriptions ------------------------------------------------------------ *)
Theorem C02_describe_exact : forall ds n,
  (forall d, get_segment_description ds n = Ok d ->
     d_num d = n /\ exists l1 l2, ds = l1 ++ d :: l2 /\ forall x, In x l1 -> d_num x <> n) /\
  (get_segment_description ds n = Err "IndexError" <-> forall d, In d ds -> d_num d <> n) /\
  (forall k, get_segment_description ds n = Err k -> k = "IndexError"%string).
Proof. exact describe_exact. Qed.
Print Assumptions C02_describe_exact.

Theorem C02_property_categories_exact : forall ds bg c,
  In c (property_categories ds bg) <-> exists d, In d ds /\ is_background bg d = false /\ d_cat d = c.
Proof. exact categories_exact. Qed.
Print Assumptions C02_property_categories_exact.

Theorem C02_property_types_exact : forall ds bg c,
  In c (property_types ds bg) <-> exists d, In d ds /\ is_background bg d = false /\ d_type d = c.
Proof. exact types_exact. Qed.
Print Assumptions C02_property_types_exact.

Theorem C02_property_lists_no_duplicates : forall seen l, NoDup (first_seen seen l).
Proof. exact first_seen_NoDup. Qed.
Print Assumptions C02_property_lists_no_duplicates.

(* ---- end to end: any entry point, any segmentation type --------------------------- *)
(* "channel k of a stacked result is the mask of the k-th requested segment" *)
Theorem C02_read_stacked_exact : forall e am st keys req o d r,
  wf_stored st -> wf_opts o -> NoDup req -> o_combine o = false ->
  read e am st keys req o = Ok (d, r) ->
  let A := map (fun key => map (seg_mask st key) req) keys in
  r = if o_rescale o && segtype_eqb (s_ty st) FRACTIONAL then OStackQ A (s_maxfrac st) else OStack A.
Proof. exact read_stacked_exact. Qed.
Print Assumptions C02_read_stacked_exact.

(* "a combined result holds at each pixel the requested segment covering it (its own number, or its 1-based
   position in the request when relabelling) and 0 where none does, and segments that were not requested
   never appear" (combined_pixel_spec, C02_Proofs_Ext) *)
Theorem C02_read_combined_exact : forall e am st keys req o d r,
  wf_stored st ->
  (s_ty st = FRACTIONAL -> forall f, In f (s_frames st) ->
     length (fpix f) = Z.to_nat (s_npix st) /\ forall v, In v (fpix f) -> v = 0 \/ v = s_maxfrac st) ->
  (forall s, In s (s_segs st) -> 0 < s) ->
  wf_opts o -> NoDup req -> o_combine o = true ->
  read e am st keys req o = Ok (d, r) ->
  exists a, r = OComb a /\
    Forall2 (fun key plane =>
      length plane = Z.to_nat (s_npix st) /\
      forall p, (p < Z.to_nat (s_npix st))%nat ->
        (nth p plane 0 = 0 <-> forall k s, ~ covered st key req p k s) /\
        (nth p plane 0 <> 0 -> exists k s, covered st key req p k s /\ nth p plane 0 = label_at (o_relabel o) k s) /\
        (forall k s, covered st key req p k s -> label_at (o_relabel o) k s <= nth p plane 0))
      keys a.
Proof. exact read_combined_exact. Qed.
Print Assumptions C02_read_combined_exact.

(* ---- non-vacuity of the extension ---------------------------------------------------- *)
Example C02_example_fractional :
  wf_fractional_binary ex_frac /\ wf_stored ex_frac /\ NoDup [2; 1] /\
  read EInstance false ex_frac [2; 1] [2; 1] (mkOpts true true false true None) =
    Ok (DU 8, OComb [[0;0;0;1]; [2;1;1;0]]) /\
  read EInstance false ex_frac [1] [2; 1] (mkOpts true false false false None) = Err "ValueError" /\
  read EInstance false ex_frac [1; 3] [2; 1] (mkOpts true false false true None) = Err "KeyError" /\
  read_default EInstance true ex_frac [1; 3] (mkOpts false false false true None) =
    Ok (DF 32, OStackQ [[[100;0;0;0]; [0;100;100;0]]; [[0;0;0;0]; [0;0;0;0]]] 100).
Proof. exact example_fractional. Qed.
Print Assumptions C02_example_fractional.

Example C02_example_construction :
  ctor_labelmap4 [5; 7; 300] (DU 16) [[0;1;0]; [1;0;0]; [0;0;0]; [0;0;1]] = Ok [7; 5; 0; 300] /\
  ctor_labelmap4 [1; 2] (DU 8) [[1;1]; [0;0]] = Err "ValueError" /\
  ctor_labelmap4 [1; 2] (DU 8) [[2;0]] = Err "ValueError" /\
  ctor_labelmap3 [5; 7] (DU 8) [0; 7; 5] = Ok [0; 7; 5] /\
  ctor_labelmap3 [5; 7] (DU 8) [0; 7; 6] = Err "ValueError".
Proof. exact example_construction. Qed.
Print Assumptions C02_example_construction.

Example C02_example_repeated_request :
  seg_frame (mkStored LABELMAP [1; 7; 300] 16 1 4 0 [mkFrame 1 0 [0;7;300;7]] [1])
            [1] [7; 300; 7] (mkOpts false false false true None) =
  Ok (DU 8, OStack [[[0;1;0;1]; [0;0;1;0]; [0;1;0;1]]]).
Proof. exact example_repeated_request. Qed.
Print Assumptions C02_example_repeated_request.

(* ---- construction: which inputs are accepted ------------------------------------------ *)
Theorem C02_construction_accepts_iff : forall segs d px,
  wf_dtype d -> zlen segs <= dtype_max d -> 1 <= dtype_max d -> segs <> [] ->
  (forall p v, In p px -> In v p -> 0 <= v) ->
  ((exists out, ctor_labelmap4 segs d px = Ok out) <->
   forall p, In p px -> zlen p = zlen segs /\ (forall v, In v p -> v = 0 \/ v = 1) /\ zsum p <= 1) /\
  (forall k, ctor_labelmap4 segs d px = Err k -> k = "ValueError"%string).
Proof. exact ctor4_accepts_iff. Qed.
Print Assumptions C02_construction_accepts_iff.

Theorem C02_construction_labelmap_input_accepts_iff : forall segs d px,
  (forall v, In v px -> 0 <= v) ->
  ((exists out, ctor_labelmap3 segs d px = Ok out) <-> forall v, In v px -> v = 0 \/ In v segs) /\
  (forall out, ctor_labelmap3 segs d px = Ok out -> out = map (cast d) px) /\
  (forall k, ctor_labelmap3 segs d px = Err k -> k = "ValueError"%string).
Proof. exact ctor3_accepts_iff. Qed.
Print Assumptions C02_construction_labelmap_input_accepts_iff.

(* ---- which reads are accepted, at the entry points ------------------------------------------ *)
Theorem C02_read_accepts_iff : forall e am st keys req o r,
  read e am st keys req o = Ok r <->
  (req <> [] /\ entry_args_ok e keys = true /\
   unique_frames (segtype_eqb (s_ty st) LABELMAP) (s_frames st) = true /\
   policy e am st keys = None /\ seg_frame st keys req o = Ok r).
Proof. exact read_accepts_iff. Qed.
Print Assumptions C02_read_accepts_iff.

Theorem C02_refusals_fractional_stacked : forall st keys req o,
  s_ty st = FRACTIONAL -> 1 <= s_maxfrac st <= 255 -> wf_values st (s_maxfrac st) -> wf_opts o ->
  o_combine o = false ->
  ((exists r, seg_frame st keys req o = Ok r) <-> args_ok st req o = true) /\
  (forall k, seg_frame st keys req o = Err k -> k = "ValueError"%string).
Proof. exact fractional_stacked_refusals. Qed.
Print Assumptions C02_refusals_fractional_stacked.

Theorem C02_refusals_fractional_combined : forall st keys req o,
  wf_fractional_binary st -> wf_opts o -> o_combine o = true ->
  (seg_frame st keys req o = Err "ValueError" <-> args_ok st req o = false) /\
  (forall k, seg_frame st keys req o = Err k -> k = "ValueError"%string \/
             (k = "RuntimeError"%string /\ o_skip o = false)) /\
  (args_ok st req o = true -> o_skip o = true -> exists r, seg_frame st keys req o = Ok r).
Proof. exact fractional_combined_refusals. Qed.
Print Assumptions C02_refusals_fractional_combined.

(* ---- objects with foreign DimensionIndexValues ---------------------------------------------- *)
(* Every FrameLUT row xs carries the value columns of its frame and arbitrary index columns (x_kix along
   the plane dimensions, x_six along ReferencedSegmentNumber).  On every entry point the read equals the
   read of the plain object: the index values along the segment dimension are never consulted (segments
   are selected by NUMBER), and the entry point that addresses planes by dimension index values depends
   on the plane index values only through the injective naming enc of the planes.  Hence every theorem
   above about [read] holds for such objects. *)
Theorem C02_dimension_index_encoding_irrelevant : forall (enc : Z -> Z),
  (forall a b, enc a = enc b -> a = b) ->
  forall e am st xs keys req o,
  (forall x, In x xs -> x_kix x = enc (fkey (x_frame x))) ->
  read_ix e am st xs (if stack_use_indices e then map enc keys else keys) req o =
  read e am (with_frames st (map x_frame xs)) keys req o.
Proof. exact read_ix_by_number. Qed.
Print Assumptions C02_dimension_index_encoding_irrelevant.

Example C02_dimension_index_nonvacuous :
  read_ix EDimIdx false ex_ix_st ex_ix_frames [5; 3] [3; 2] (mkOpts false false false false None)
  = Ok (DU 8, OStack [[[1; 1]; [0; 0]]; [[0; 1]; [0; 0]]]) /\
  read_ix EDimIdx false ex_ix_st ex_ix_frames [3; 5] [1; 3] (mkOpts true false false false None)
  = Ok (DU 8, OComb [[1; 3]; [3; 3]]).
Proof. exact ex_ix_reads. Qed.
Print Assumptions C02_dimension_index_nonvacuous.

(* ---- explicit dimension index pointers ------------------------------------------------------- *)
(* get_pixels_by_dimension_index_values with dimension_index_pointers = any selection ps of the plane
   dimensions of the object (positions in the DimensionIndexSequence, segment dimension excluded) and rows
   of values, one value per pointer.  [permute sigma l] lists entries sigma_0, sigma_1, ... of l.
   The ORDER in which the dimensions are named is irrelevant: permuting the pointers and every row of
   values alike gives the same answer - same refusal or same pixels (the model is a function of the stored
   object; that the CODE keeps no state between reads that could mix up two orders is what the `pointers`
   histories of the correspondence run exercise). *)
Theorem C02_dimension_pointer_order_irrelevant : forall sigma am st nd dfs ps rows req o,
  Permutation sigma (seq 0 (length ps)) ->
  (forall p, In p ps -> 0 <= p < nd) ->
  (forall r, In r rows -> length r = length ps) ->
  read_dim am st nd dfs (Some (permute sigma ps)) (map (permute sigma) rows) req o =
  read_dim am st nd dfs (Some ps) rows req o.
Proof. exact pointer_order_irrelevant. Qed.
Print Assumptions C02_dimension_pointer_order_irrelevant.

(* Whatever selection of dimensions is used, it only NAMES the planes: if two stored frames agree along
   the selected dimensions exactly when they belong to the same plane, and row i carries the values of
   plane key i (values that no stored frame carries if the plane has no frame), the read is the read by
   plane of the plain object - so read_stacked_exact, read_combined_exact, read_accepts_iff and the
   missing-frame policy hold for it. *)
Theorem C02_dimension_pointers_name_planes : forall dfs ps,
  (forall f g, In f dfs -> In g dfs ->
     (fkey (d_frame f) = fkey (d_frame g) <-> proj ps (d_ix f) = proj ps (d_ix g))) ->
  forall am st nd keys rows req o,
  ps <> [] -> (forall p, In p ps -> 0 <= p < nd) ->
  (forall r, In r rows -> length r = length ps) ->
  Forall2 (fun k row => forall f, In f dfs -> (fkey (d_frame f) = k <-> proj ps (d_ix f) = row)) keys rows ->
  read_dim am st nd dfs (Some ps) rows req o =
  read EDimIdx am (with_frames st (map d_frame dfs)) keys req o.
Proof. exact read_dim_names_planes. Qed.
Print Assumptions C02_dimension_pointers_name_planes.

(* a requested combination of values that no stored frame carries is refused (ValueError) unless the
   caller asserts that missing frames are empty - for every selection and order of the pointers, also when
   the same values in another order, or its values one by one, do occur in the object *)
Theorem C02_dimension_read_absent_refused : forall st nd dfs ps rows req o row,
  (forall p, In p ps -> 0 <= p < nd) ->
  In row rows -> (forall f, In f dfs -> proj ps (d_ix f) <> row) ->
  read_dim false st nd dfs (Some ps) rows req o = Err "ValueError".
Proof. exact read_dim_absent_refused. Qed.
Print Assumptions C02_dimension_read_absent_refused.

(* dimension_index_pointers=None stands for all plane dimensions of the object in their own order *)
Theorem C02_dimension_default_pointers : forall am st nd dfs rows req o, 0 < nd ->
  read_dim am st nd dfs None rows req o = read_dim am st nd dfs (Some (zrange 0 nd)) rows req o.
Proof. exact read_dim_default_pointers. Qed.
Print Assumptions C02_dimension_default_pointers.

Example C02_dimension_pointers_nonvacuous :
  read_dim false ex_ptr_st 3 ex_ptr_frames (Some [0; 1]) [[2; 1]; [1; 1]] [2; 1] ex_ptr_opts
  = Ok (DU 8, OStack [[[1; 0]; [0; 1]]; [[0; 0]; [1; 0]]]) /\
  read_dim false ex_ptr_st 3 ex_ptr_frames (Some [1; 0]) [[1; 2]; [1; 1]] [2; 1] ex_ptr_opts
  = Ok (DU 8, OStack [[[1; 0]; [0; 1]]; [[0; 0]; [1; 0]]]) /\
  read_dim false ex_ptr_st 3 ex_ptr_frames (Some [0; 1]) [[1; 2]] [1] ex_ptr_opts = Err "ValueError" /\
  read_dim true ex_ptr_st 3 ex_ptr_frames (Some [0; 1]) [[1; 2]] [1] ex_ptr_opts = Ok (DU 8, OStack [[[0; 0]]]) /\
  read_dim false ex_ptr_st 3 ex_ptr_frames (Some [2; 1]) [[1; 2]] [2] ex_ptr_opts = Ok (DU 8, OStack [[[1; 1]]]) /\
  read_dim false ex_ptr_st 3 ex_ptr_frames (Some [0]) [[2]] [2] ex_ptr_opts = Err "RuntimeError".
Proof. exact ex_ptr_reads. Qed.
Print Assumptions C02_dimension_pointers_nonvacuous.
