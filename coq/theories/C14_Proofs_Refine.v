(* C14 - refinement: a ContentSequence behaves exactly like a plain Python list with
   the admission rule in front of it and every query recomputed from that list.
   [ref_step] never looks at the name index; the theorems say the model's list after
   any history is the reference's list and every query is a function of that list. *)
From Coq Require Import String ZArith List Bool Lia ZifyBool Permutation.
From HD Require Import Base.Val Base.PySlice C14_Model C14_Proofs C14_Proofs_Ext C14_Proofs_Slice.
Import ListNotations.
Open Scope Z_scope.
Ltac Zify.zify_post_hook ::= Z.to_euclidean_division_equations.

(* ---- the reference: list operations only ------------------------------------------------------ *)
Fixpoint good_prefix (rule : item -> option string) (xs : list item) : list item :=
  match xs with
  | [] => []
  | x :: xs' => match rule x with None => x :: good_prefix rule xs' | Some _ => [] end
  end.

(* the Python list operation itself (meaningful when [guard] lets it through) *)
Definition list_apply (l : list item) (o : op) : list item :=
  match o with
  | Append x => l ++ [x]
  | Extend xs | IAdd xs => l ++ xs
  | Insert pos x => let p := Z.to_nat (insert_pos pos (zlen l)) in firstn p l ++ x :: skipn p l
  | SetInt i x => match norm_index i (zlen l) with
                  | Some p => firstn p l ++ x :: skipn (S p) l
                  | None => l
                  end
  | SetSlice a b c xs =>
      let '(f, e, st) := slice_indices a b (step_of c) (zlen l) in
      if st =? 1 then firstn (Z.to_nat f) l ++ xs ++ skipn (Z.to_nat (Z.max f e)) l
      else replace_sel (mask f e st (length l)) l (if st <? 0 then rev xs else xs)
  | DelInt i => match norm_index i (zlen l) with
                | Some p => firstn p l ++ skipn (S p) l
                | None => l
                end
  | DelSlice a b c => let '(f, e, st) := slice_indices a b (step_of c) (zlen l) in slice_del f e st l
  end.

(* one operation of the reference: flags and list in, list out *)
Definition ref_step (root sr : bool) (l : list item) (o : op) : list item :=
  match o with
  | Extend xs | IAdd xs => l ++ good_prefix (init_check root sr) xs
  | _ => match guard (St l empty_lut root sr) o with None => list_apply l o | Some _ => l end
  end.

Lemma guard_ext s s' o : items s = items s' -> is_root s = is_root s' -> is_sr s = is_sr s' -> guard s o = guard s' o.
Proof. intros E R S. unfold guard, in_range. rewrite E, R, S. reflexivity. Qed.

Lemma extend_items xs : forall s,
  items (fst (extend s xs)) = items s ++ good_prefix (init_check (is_root s) (is_sr s)) xs.
Proof.
  induction xs as [|x xs IH]; intros s; cbn [extend good_prefix]; [now rewrite app_nil_r|].
  unfold append, add_check. destruct (init_check (is_root s) (is_sr s) x); cbn [fst]; [now rewrite app_nil_r|].
  rewrite IH. cbn [items is_root is_sr]. rewrite <- app_assoc. reflexivity.
Qed.

Theorem step_refines s o : Inv s -> items (fst (step s o)) = ref_step (is_root s) (is_sr s) (items s) o.
Proof.
  intros HI.
  assert (G : guard (St (items s) empty_lut (is_root s) (is_sr s)) o = guard s o) by (apply guard_ext; reflexivity).
  pose proof (step_error_exact s o HI) as Herr.
  destruct o as [x|xs|xs|pos x|i x|a b c xs|i|a b c]; unfold ref_step; try rewrite G; try apply extend_items;
    unfold C14_Model.step in *; cbn [guard list_apply] in *.
  - unfold append, add_check. destruct (init_check _ _ x); reflexivity.
  - unfold insert, add_check. destruct (init_check _ _ x); reflexivity.
  - unfold setitem_int in *. destruct (norm_index i (zlen (items s))) as [p|] eqn:Ep.
    + destruct (nth_error (items s) p) eqn:En.
      * destruct (first_err (set_check s) [x]) eqn:Ef; cbn [snd fst] in *.
        -- rewrite <- Herr. reflexivity.
        -- rewrite finish_set_items. rewrite <- Herr.
           destruct (finish_set_inv s (firstn p (items s) ++ x :: skipn (S p) (items s)) [i0] [x]
                       (firstn p (items s) ++ skipn (S p) (items s)) HI) as (f' & -> & _); [| |reflexivity].
           ++ rewrite (nth_error_split3 _ _ _ En) at 1. cbn [app]. symmetry. apply Permutation_middle.
           ++ cbn [app]. symmetry. apply Permutation_middle.
      * cbn [snd fst] in *. rewrite <- Herr. reflexivity.
    + cbn [snd fst] in *. rewrite <- Herr. reflexivity.
  - unfold setitem_slice in *. destruct (step_of c =? 0) eqn:E0; [reflexivity|].
    destruct (slice_indices a b (step_of c) (zlen (items s))) as [[f l] s0] eqn:Es.
    assert (Es0 : s0 = step_of c) by (unfold slice_indices in Es; inversion Es; reflexivity). subst s0.
    unfold set_check in *. destruct (first_err (init_check (is_root s) (is_sr s)) xs); [reflexivity|].
    destruct (step_of c =? 1) eqn:E1; [apply finish_set_items|].
    pose proof (slice_get_length a b (step_of c) (items s) f l (step_of c) ltac:(lia) Es) as Hlen.
    rewrite Hlen. destruct (zlen xs =? range_len f l (step_of c)); cbn [negb fst]; [apply finish_set_items|reflexivity].
  - unfold delitem_int in *. destruct (norm_index i (zlen (items s))) as [p|] eqn:Ep.
    + destruct (nth_error (items s) p) eqn:En.
      * destruct (finish_del_inv s (firstn p (items s) ++ skipn (S p) (items s)) [i0] HI) as (f' & E & _).
        -- rewrite (nth_error_split3 _ _ _ En) at 1. cbn [app]. symmetry. apply Permutation_middle.
        -- rewrite E in *. cbn [fst snd items] in *. rewrite <- Herr. reflexivity.
      * cbn [snd fst] in *. rewrite <- Herr. reflexivity.
    + cbn [snd fst] in *. rewrite <- Herr. reflexivity.
  - unfold delitem_slice in *. destruct (step_of c =? 0) eqn:E0; [reflexivity|].
    destruct (slice_indices a b (step_of c) (zlen (items s))) as [[f l] s0] eqn:Es.
    assert (Hf : step_of c = 1 -> 0 <= f).
    { intros E1. destruct (slice_indices_pos_bounds a b (step_of c) _ f l s0 ltac:(lia) (zlen_nonneg _) Es) as [? _]. lia. }
    destruct (finish_del_inv s (slice_del f l (step_of c) (items s)) (slice_get f l (step_of c) (items s)) HI
                (slice_get_del_perm f l (step_of c) (items s) Hf)) as (f' & -> & _).
    assert (Es0 : s0 = step_of c) by (unfold slice_indices in Es; inversion Es; reflexivity). subst s0. reflexivity.
Qed.

(* ---- queries as functions of the list ------------------------------------------------------------- *)
Theorem index_exact s x : Inv s ->
  index s x = if negb (is_item x) then Err ETYPE
              else match pos_of x (items s) 0 with Some k => Ok k | None => Err EVALUE end.
Proof.
  intros HI. unfold index. destruct (negb (is_item x)); [reflexivity|].
  destruct (existsb (fun y => item_eqb y x) (lut s (iname x))) eqn:E; [reflexivity|].
  destruct (pos_of x (items s) 0) eqn:Ep; [|reflexivity]. exfalso.
  assert (Hin : In x (items s)).
  { destruct (pos_of_some _ _ _ _ Ep) as (_ & Hn & _). eapply nth_error_In, Hn. }
  apply (in_lut_iff s x HI) in Hin. apply existsb_eqb_In in Hin. congruence.
Qed.

(* ---- histories ---------------------------------------------------------------------------------------- *)
Theorem run_refines ops : forall s, Inv s ->
  items (run s ops) = fold_left (ref_step (is_root s) (is_sr s)) ops (items s).
Proof.
  unfold run. induction ops as [|o ops IH]; intros s HI; cbn [fold_left]; [reflexivity|].
  rewrite (IH _ (inv_step s o HI)). destruct (step_flags s o) as [-> ->]. rewrite (step_refines s o HI). reflexivity.
Qed.

(* the property, as an observational equivalence with the plain-list reference:
   L = the reference's list after the same history *)
Theorem refinement l root sr s0 ops : init l root sr = Ok s0 ->
  let t := run s0 ops in
  let L := fold_left (ref_step root sr) ops l in
  items t = L /\
  (forall n, exists r, find t n = Ok r /\ Permutation r (filter (has n) L)) /\
  (forall x, index t x = if negb (is_item x) then Err ETYPE
                         else match pos_of x L 0 with Some k => Ok k | None => Err EVALUE end) /\
  (forall x, is_item x = true -> contains t x = Ok (existsb (fun y => item_eqb y x) L)) /\
  (forall x, count t x = Z.of_nat (count_occ item_eq_dec L x)) /\
  get_nodes t = Ok (filter inode L) /\
  is_root t = root /\ is_sr t = sr.
Proof.
  intros H t L. destruct (inv_init _ _ _ _ H) as (HI0 & Hl & Hr & Hs).
  assert (EL : items t = L).
  { subst t L. rewrite (run_refines ops s0 HI0). now rewrite Hl, Hr, Hs. }
  destruct (history_summary l root sr s0 ops H) as (HI & Hfind & _ & _ & Hnodes & _). fold t in HI, Hfind, Hnodes.
  destruct (run_flags ops s0) as [R S]. fold t in R, S.
  rewrite <- EL. split; [reflexivity|]. split; [exact Hfind|]. split; [intros x; exact (index_exact t x HI)|].
  split.
  - intros x Hx. unfold contains. rewrite (index_exact t x HI). rewrite Hx. cbn [negb].
    destruct (pos_of x (items t) 0) eqn:Ep.
    + destruct (pos_of_some _ _ _ _ Ep) as (_ & Hn & _). apply nth_error_In in Hn.
      apply existsb_eqb_In in Hn. now rewrite Hn.
    + apply pos_of_none in Ep. cbn.
      destruct (existsb (fun y => item_eqb y x) (items t)) eqn:E; [apply existsb_eqb_In in E; tauto|reflexivity].
  - split; [intros x; apply count_spec|]. split; [exact Hnodes|]. split; congruence.
Qed.

(* ---- the same for ALL operations and both constructors ------------------------------------------------ *)
Definition remove_at (p : nat) (l : list item) : list item := firstn p l ++ skipn (S p) l.

Definition xref_step (root sr : bool) (l : list item) (o : xop) : list item :=
  match o with
  | Op o => ref_step root sr l o
  | Pop i => match norm_index i (zlen l) with Some p => remove_at p l | None => l end
  | Remove x => if is_item x then match pos_of x l 0 with Some k => remove_at (Z.to_nat k) l | None => l end
                else l
  | Reverse => rev l
  | Clear => []
  | ExtendSelf | IAddSelf => l ++ l
  end.

Theorem xstep_refines s o : Inv s -> Strict s ->
  items (fst (xstep s o)) = xref_step (is_root s) (is_sr s) (items s) o.
Proof.
  intros HI HS. destruct o as [o|i|x| | | |]; cbn [xstep xref_step fst];
    try (apply (extend_self_spec s HI HS)).
  - apply step_refines, HI.
  - destruct (norm_index i (zlen (items s))) as [p|] eqn:Ep.
    + pose proof (norm_index_some _ _ _ Ep) as [_ Hp].
      assert (Hr : - zlen (items s) <= i < zlen (items s)).
      { destruct (Z_lt_dec i (- zlen (items s))); [exfalso|destruct (Z_lt_dec i (zlen (items s))); [lia|exfalso]];
          assert (Hn : ~ (- zlen (items s) <= i < zlen (items s))) by lia; apply norm_index_none in Hn; congruence. }
      destruct (pop_in_range s i HI Hr) as (p0 & v & Hp0 & _ & _ & Hi & _).
      assert (p0 = p) by lia. subst p0. destruct (pop s i) as [s1 r]. exact Hi.
    + apply norm_index_none in Ep. now rewrite pop_out_of_range.
  - destruct (is_item x) eqn:Hx; [|now rewrite remove_junk].
    unfold remove. rewrite (index_exact s x HI), Hx. cbn [negb].
    destruct (pos_of x (items s) 0) as [k|] eqn:Ek; [|reflexivity].
    destruct (pos_of_some _ _ _ _ Ek) as (Hk & Hn & _). replace (k - 0) with k in Hn by lia.
    assert (Hlt : (Z.to_nat k < length (items s))%nat) by (apply nth_error_Some; congruence).
    destruct (delitem_int_accepts s k HI ltac:(unfold zlen; lia)) as (_ & p & old & _ & Hp & Hi).
    replace (k <? 0) with false in Hp by lia. assert (p = Z.to_nat k) by lia. subst p. exact Hi.
  - apply reverse_spec; assumption.
  - apply clear_spec, HI.
Qed.

Theorem xrun_refines ops : forall s, Inv s -> Strict s ->
  items (xrun s ops) = fold_left (xref_step (is_root s) (is_sr s)) ops (items s).
Proof.
  unfold xrun. induction ops as [|o ops IH]; intros s HI HS; cbn [fold_left]; [reflexivity|].
  rewrite (IH _ (xstep_inv s o HI) (xstep_strict s o HS)). destruct (xstep_flags s o) as [-> ->].
  rewrite (xstep_refines s o HI HS). reflexivity.
Qed.

Theorem refinement_all c root sr s0 ops : construct c root sr = Ok s0 ->
  let t := xrun s0 ops in
  let L := fold_left (xref_step root sr) ops (match c with FromList l => l | FromSeq ds => map to_item ds end) in
  items t = L /\
  (forall n, exists r, find t n = Ok r /\ Permutation r (filter (has n) L)) /\
  (forall x, index t x = if negb (is_item x) then Err ETYPE
                         else match pos_of x L 0 with Some k => Ok k | None => Err EVALUE end) /\
  (forall x, is_item x = true -> contains t x = Ok (existsb (fun y => item_eqb y x) L)) /\
  (forall x, count t x = Z.of_nat (count_occ item_eq_dec L x)) /\
  get_nodes t = Ok (filter inode L) /\
  is_root t = root /\ is_sr t = sr.
Proof.
  intros H t L. destruct (construct_ok _ _ _ _ H) as (HI0 & HS0 & Hr & Hs & _ & Hl).
  assert (EL : items t = L).
  { subst t L. rewrite (xrun_refines ops s0 HI0 HS0). now rewrite Hl, Hr, Hs. }
  destruct (xhistory_summary c root sr s0 ops H) as (HI & Hfind & _ & Hnodes & _). fold t in HI, Hfind, Hnodes.
  assert (Hfl : is_root t = is_root s0 /\ is_sr t = is_sr s0).
  { apply (closed_xrun (fun u => is_root u = is_root s0 /\ is_sr u = is_sr s0)); [|split; reflexivity].
    intros s' o' [R S]. destruct (step_flags s' o') as [R' S']. split; congruence. }
  destruct Hfl as [R S].
  rewrite <- EL. split; [reflexivity|]. split.
  - intros n. destruct (Hfind n) as (r & Hr1 & Hr2 & _). eauto.
  - split; [intros x; exact (index_exact t x HI)|]. split.
    + intros x Hx. unfold contains. rewrite (index_exact t x HI). rewrite Hx. cbn [negb].
      destruct (pos_of x (items t) 0) eqn:Ep.
      * destruct (pos_of_some _ _ _ _ Ep) as (_ & Hn & _). apply nth_error_In in Hn.
        apply existsb_eqb_In in Hn. now rewrite Hn.
      * apply pos_of_none in Ep. cbn.
        destruct (existsb (fun y => item_eqb y x) (items t)) eqn:E; [apply existsb_eqb_In in E; tauto|reflexivity].
    + split; [intros x; apply count_spec|]. split; [exact Hnodes|]. split; congruence.
Qed.

(* ---- the outcome (error class / returned item) of EVERY operation, without the index ---------------- *)
Definition xoutcome (s : st) (o : xop) : res (option item) :=
  match o with
  | Op o => match guard s o with None => Ok None | Some e => Err e end
  | Pop i => match norm_index i (zlen (items s)) with
             | Some p => match nth_error (items s) p with Some v => Ok (Some v) | None => Err EINDEX end
             | None => Err EINDEX
             end
  | Remove x => if negb (is_item x) then Err ETYPE
                else if existsb (fun y => item_eqb y x) (items s) then Ok None else Err EVALUE
  | Reverse | Clear | ExtendSelf | IAddSelf => Ok None
  end.

Theorem xstep_outcome s o : Inv s -> Strict s -> snd (xstep s o) = xoutcome s o.
Proof.
  intros HI HS. destruct o as [o|i|x| | | |]; cbn [xstep xoutcome snd];
    try (destruct (extend_self_spec s HI HS) as (-> & _); reflexivity).
  - now rewrite (step_error_exact s o HI).
  - destruct (norm_index i (zlen (items s))) as [p|] eqn:Ep.
    + pose proof (norm_index_some _ _ _ Ep) as [Hlt Hp].
      assert (Hr : - zlen (items s) <= i < zlen (items s)).
      { destruct (Z_lt_dec i (- zlen (items s))); [exfalso|destruct (Z_lt_dec i (zlen (items s))); [lia|exfalso]];
          assert (Hn : ~ (- zlen (items s) <= i < zlen (items s))) by lia; apply norm_index_none in Hn; congruence. }
      destruct (pop_in_range s i HI Hr) as (p0 & v & Hp0 & Hv & Hs & _).
      assert (p0 = p) by lia. subst p0. rewrite Hv. destruct (pop s i) as [s1 r]. cbn [snd] in Hs. now subst r.
    + apply norm_index_none in Ep. now rewrite pop_out_of_range.
  - destruct (is_item x) eqn:Hx; cbn [negb]; [|now rewrite remove_junk].
    destruct (existsb (fun y => item_eqb y x) (items s)) eqn:E.
    + apply existsb_eqb_In in E. destruct (remove_present s x HI Hx E) as (p & _ & _ & -> & _). reflexivity.
    + rewrite remove_absent; [reflexivity|exact HI|exact Hx|]. intros Hin. apply existsb_eqb_In in Hin. congruence.
  - destruct (reverse_spec s HI HS) as (-> & _). reflexivity.
  - destruct (clear_spec s HI) as (-> & _). reflexivity.
Qed.
