(* C01 - model of the segmentation mask round trip.
   Mirrors (src/highdicom, state after the fix commits):
     seg/sop.py   Segmentation.__init__ (segment number checks, type/bit depth,
                  _check_and_cast_pixel_array, _combine_segments,
                  _get_nonempty_plane_indices, _get_segment_pixel_array, the
                  frame loop with the remainder_pixels carry, _get_pffg_item's
                  (segment, source index) record, PixelData assembly),
                  get_pixels_by_source_instance / get_pixels_by_source_frame,
                  _get_pixels_by_seg_frame (stacked output)
     image.py     get_raw_frame byte range, _iterate_indices_for_stack join,
                  _get_pixels_by_frame assembly
     frame.py     decode_frame bit offset of a native 1-bit frame
     io.py        ImageFileReader offset table / read_frame_raw length
   pydicom pack_bits / unpack_bits (LSB first) are re-modelled.
   Integers are Z.  A float pixel is the numerator k of k/den (den > 0 a
   per-case dyadic denominator); integer dtypes have den irrelevant.
   A plane is the row-major flattening of Rows x Columns pixels.
   No proofs in this file. *)
From Coq Require Import String ZArith List Bool QArith.
From HD Require Import Base.Val.
Import ListNotations.
Open Scope Z_scope.

(* ------------------------------------------------------------------ *)
(* bits and bytes (pydicom.pixels.utils.pack_bits / unpack_bits)        *)
(* ------------------------------------------------------------------ *)
Fixpoint byte_of (l : list bool) : Z :=
  match l with [] => 0 | b :: t => Z.b2z b + 2 * byte_of t end.

Fixpoint bits_of (k : nat) (z : Z) : list bool :=
  match k with O => [] | S k' => Z.odd z :: bits_of k' (z / 2) end.

(* groups of 8, the last one zero-padded; fuel = number of bits suffices *)
Fixpoint pack_aux (fuel : nat) (l : list bool) : list Z :=
  match fuel with
  | O => []
  | S f => match l with
           | [] => []
           | _ => byte_of (firstn 8 l) :: pack_aux f (skipn 8 l)
           end
  end.
Definition pack_bits (l : list bool) : list Z := pack_aux (length l) l.
Definition unpack_bits (bs : list Z) : list bool := flat_map (bits_of 8) bs.

Definition bit_of_pixel (v : Z) : bool := negb (v =? 0).
Definition pixel_of_bit (b : bool) : Z := Z.b2z b.

(* python l[a:b] for 0 <= a <= b *)
Definition slice {A} (a b : Z) (l : list A) : list A :=
  firstn (Z.to_nat (b - a)) (skipn (Z.to_nat a) l).

(* ------------------------------------------------------------------ *)
(* configuration and input                                              *)
(* ------------------------------------------------------------------ *)
Inductive segtype := BINARY | FRACTIONAL | LABELMAP.
Inductive dtype := DInt | DFloat | DBad.     (* DInt = bool / uint8 / uint16 *)

Inductive input :=
| Label (planes : list (list Z))             (* 2-D/3-D array: plane -> pixel *)
| Stack (planes : list (list (list Z))).     (* 4-D array: plane -> pixel -> segment channel *)

Record cfg := Cfg {
  ty : segtype; dt : dtype; den : Z; maxfrac : Z; omit : bool;
  segs : list Z;                 (* described segment numbers, as passed *)
  rows : Z; cols : Z;            (* of the mask *)
  srows : Z; scols : Z;          (* of the source images *)
  nsrc : Z;                      (* number of source planes *)
  native : bool                  (* native (true) or encapsulated transfer syntax *)
}.
Definition npix (c : cfg) : Z := rows c * cols c.

Definition zrange (n : Z) : list Z := map Z.of_nat (seq 0 (Z.to_nat n)).
Definition zlen {A} (l : list A) : Z := Z.of_nat (length l).
Definition nthz {A} (i : Z) (l : list A) (d : A) : A := nth (Z.to_nat i) l d.
Fixpoint list_eqb (a b : list Z) : bool :=
  match a, b with
  | [], [] => true
  | x :: a', y :: b' => (x =? y) && list_eqb a' b'
  | _, _ => false
  end.
Definition memz (x : Z) (l : list Z) : bool := existsb (Z.eqb x) l.
Definition maxl (l : list Z) : Z := fold_right Z.max 0 l.
Definition all_zero (l : list Z) : bool := forallb (Z.eqb 0) l.
Definition one_to (n : Z) : list Z := map (fun k => k + 1) (zrange n).

Fixpoint strictly_asc (l : list Z) : bool :=
  match l with
  | a :: ((b :: _) as t) => (a <? b) && strictly_asc t
  | _ => true
  end.

(* seg/sop.py _check_segment_numbers *)
Definition seg_numbers_ok (t : segtype) (sg : list Z) : bool :=
  match t with
  | LABELMAP => forallb (fun s => (1 <=? s) && (s <=? 65535)) sg && strictly_asc sg
  | _ => list_eqb sg (one_to (zlen sg))
  end.

(* bit depth chosen by the constructor *)
Definition bits_alloc (c : cfg) : Z :=
  match ty c with
  | BINARY => 1
  | FRACTIONAL => 8
  | LABELMAP => if maxl (segs c) <? 256 then 8 else 16
  end.

(* ------------------------------------------------------------------ *)
(* _check_and_cast_pixel_array                                          *)
(* ------------------------------------------------------------------ *)
(* cast array: [isf] = still floating point (FRACTIONAL from float input) *)
Inductive carr :=
| CLabel (isf : bool) (planes : list (list Z))
| CStack (isf : bool) (planes : list (list (list Z))).

Definition all_pixels (i : input) : list Z :=
  match i with
  | Label ps => concat ps
  | Stack ps => concat (map (@concat Z) ps)
  end.
Definition is_stack (i : input) : bool := match i with Stack _ => true | _ => false end.
Definition n_planes (i : input) : Z :=
  match i with Label ps => zlen ps | Stack ps => zlen ps end.
Definition chans_ok (i : input) (s : Z) : bool :=
  match i with
  | Label _ => true
  | Stack ps => forallb (forallb (fun ch => zlen ch =? s)) ps
  end.
Definition sum (l : list Z) : Z := fold_right Z.add 0 l.
Definition overlaps (i : input) : bool :=
  match i with
  | Label _ => false
  | Stack ps => existsb (existsb (fun ch => 1 <? sum ch)) ps
  end.

(* index of the first maximum (numpy argmax) *)
Fixpoint argmax_from (i : Z) (best bi : Z) (l : list Z) : Z :=
  match l with
  | [] => bi
  | x :: t => if best <? x then argmax_from (i + 1) x i t else argmax_from (i + 1) best bi t
  end.
Definition argmax (l : list Z) : Z :=
  match l with [] => 0 | x :: t => argmax_from 1 x 0 t end.

(* _combine_segments followed by the segment-number mapping (D33 fix) *)
Definition combine_pixel (sg : list Z) (ch : list Z) : Z :=
  let v := if zlen ch =? 1 then nthz 0 ch 0 else (argmax ch + 1) * maxl ch in
  if list_eqb sg (one_to (zlen sg)) then v else nthz v (0 :: sg) 0.

Definition cast_float_bin (dn : Z) (k : Z) : Z := k / dn.   (* astype(uint) of 0.0 / 1.0 *)

Definition check_and_cast (c : cfg) (i : input) : res carr :=
  let s := zlen (segs c) in
  if negb (chans_ok i s) then Err "ValueError" else
  match dt c with
  | DBad => Err "TypeError"
  | DInt =>
      match i with
      | Label ps =>
          let undescribed :=
            if list_eqb (segs c) (one_to s) then s <? maxl (concat ps)
            else existsb (fun v => negb (memz v (0 :: segs c))) (concat ps) in
          if undescribed then Err "ValueError" else Ok (CLabel false ps)
      | Stack ps =>
          if 1 <? maxl (all_pixels i) then Err "ValueError" else
          match ty c with
          | LABELMAP =>
              if negb (maxl (all_pixels i) =? 0) && negb (s =? 1) && overlaps i
              then Err "ValueError"
              else Ok (CLabel false (map (map (combine_pixel (segs c))) ps))
          | _ => Ok (CStack false ps)
          end
      end
  | DFloat =>
      if existsb (fun k => (k <? 0) || (den c <? k)) (all_pixels i) then Err "ValueError" else
      match ty c with
      | FRACTIONAL =>
          Ok (match i with Label ps => CLabel true ps | Stack ps => CStack true ps end)
      | t =>
          if existsb (fun k => (0 <? k) && (k <? den c)) (all_pixels i) then Err "ValueError" else
          match i with
          | Label ps =>
              (* fix of finding D117: a 3-D 0.0/1.0 array is stored as the label 1, like a
                 binary integer array - refused when 1.0 occurs and 1 is not described *)
              if existsb (fun k => k =? den c) (concat ps) && negb (memz 1 (segs c))
              then Err "ValueError"
              else Ok (CLabel false (map (map (cast_float_bin (den c))) ps))
          | Stack ps =>
              let ps' := map (map (map (cast_float_bin (den c)))) ps in
              match t with
              | LABELMAP =>
                  if negb (all_zero (all_pixels i)) && negb (s =? 1) && overlaps (Stack ps')
                  then Err "ValueError"
                  else Ok (CLabel false (map (map (combine_pixel (segs c))) ps'))
              | _ => Ok (CStack false ps')
              end
          end
      end
  end.

(* ------------------------------------------------------------------ *)
(* _get_segment_pixel_array                                             *)
(* ------------------------------------------------------------------ *)
(* np.around(a / b) for b > 0: round half to even *)
Definition rhe (a b : Z) : Z :=
  let q := a / b in
  let r := a mod b in
  if 2 * r <? b then q
  else if b <? 2 * r then q + 1
  else if Z.even q then q else q + 1.

Definition u8 (v : Z) : Z := v mod 256.

Definition carr_planes (a : carr) : Z :=
  match a with CLabel _ ps => zlen ps | CStack _ ps => zlen ps end.

(* _get_nonempty_plane_indices: floating point (FRACTIONAL) planes are judged
   after quantisation (fix of finding D61) *)
Definition quantised (c : cfg) (isf : bool) (k : Z) : Z :=
  if isf then rhe (k * maxfrac c) (den c) else k.

Definition plane_nonempty (c : cfg) (a : carr) (j : Z) : bool :=
  match a with
  | CLabel isf ps => negb (all_zero (map (quantised c isf) (nthz j ps [])))
  | CStack isf ps => negb (all_zero (map (quantised c isf) (concat (nthz j ps []))))
  end.

(* s = 0 encodes segment_number None (LABELMAP: all segments at once) *)
Definition seg_plane (c : cfg) (a : carr) (s j : Z) : list Z :=
  if s =? 0 then
    match a with CLabel _ ps => nthz j ps [] | CStack _ ps => map (fun ch => nthz 0 ch 0) (nthz j ps []) end
  else
  match a with
  | CLabel true ps => map (fun k => u8 (rhe (k * maxfrac c) (den c))) (nthz j ps [])
  | CStack true ps => map (fun ch => u8 (rhe (nthz (s - 1) ch 0 * maxfrac c) (den c))) (nthz j ps [])
  | CLabel false ps =>
      let b := if list_eqb (segs c) [1] then map u8 (nthz j ps [])
               else map (fun v => if v =? s then 1 else 0) (nthz j ps []) in
      match ty c with FRACTIONAL => map (fun v => v * maxfrac c) b | _ => b end
  | CStack false ps =>
      let b := map (fun ch => u8 (nthz (s - 1) ch 0)) (nthz j ps []) in
      match ty c with FRACTIONAL => map (fun v => v * maxfrac c) b | _ => b end
  end.

(* ------------------------------------------------------------------ *)
(* frame loop                                                           *)
(* ------------------------------------------------------------------ *)
Record frame := Frame { f_seg : Z; f_plane : Z; f_pix : list Z }.

Definition seg_iter (c : cfg) : list Z :=
  match ty c with LABELMAP => [0] | _ => segs c end.

(* planes kept by _get_nonempty_plane_indices; [omit'] = omission still on *)
Definition included (c : cfg) (a : carr) : list Z * bool :=
  if omit c then
    let ne := filter (plane_nonempty c a) (zrange (carr_planes a)) in
    match ne with
    | [] => (zrange (carr_planes a), false)
    | _ => (ne, true)
    end
  else (zrange (carr_planes a), false).

Definition frames_of (c : cfg) (a : carr) (order : list Z) (omit' : bool) : list frame :=
  flat_map (fun s =>
    flat_map (fun j =>
      let px := seg_plane c a s j in
      if negb (s =? 0) && omit' && all_zero px then [] else [Frame s j px])
      order)
    (seg_iter c).

(* native encoding of the frame list *)
Definition take8 (l : list bool) : list bool * list bool :=
  let k := (8 * (length l / 8))%nat in (firstn k l, skipn k l).

Definition bin_step (st : list Z * list bool) (f : list bool) : list Z * list bool :=
  let '(out, rem) := st in
  let '(enc, r) := take8 (rem ++ f) in
  (out ++ pack_bits enc, r).

Definition bin_pixel_data (n : Z) (fs : list (list bool)) : list Z :=
  if n mod 8 =? 0 then flat_map pack_bits fs
  else let '(out, rem) := fold_left bin_step fs ([], []) in
       match rem with [] => out | _ => out ++ pack_bits rem end.

Definition le16 (v : Z) : list Z := [v mod 256; (v / 256) mod 256].

Definition even_pad (b : list Z) : list Z :=
  if Z.odd (zlen b) then b ++ [48] else b.       (* the code appends b'0' = 0x30 *)

Definition pixel_data (c : cfg) (fs : list frame) : list Z :=
  even_pad
    match bits_alloc c with
    | 1 => bin_pixel_data (npix c) (map (fun f => map bit_of_pixel (f_pix f)) fs)
    | 8 => flat_map (fun f => map u8 (f_pix f)) fs
    | _ => flat_map (fun f => flat_map le16 (f_pix f)) fs
    end.

(* ------------------------------------------------------------------ *)
(* the stored object and the constructor                                *)
(* ------------------------------------------------------------------ *)
Record stored := Stored {
  s_cfg : cfg;
  s_meta : list (Z * Z);          (* per stored frame: (segment or 0, source plane index) *)
  s_bytes : list Z;               (* PixelData (native) *)
  s_frames : list (list Z)        (* decoded frames (encapsulated: codec premise) *)
}.

Definition construct (c : cfg) (i : input) (perm : list Z) : res stored :=
  if negb (seg_numbers_ok (ty c) (segs c)) then Err "ValueError" else
  if match ty c with BINARY => negb (native c) | _ => false end then Err "ValueError" else
  if match ty c with FRACTIONAL => 255 <? maxfrac c | _ => false end then Err "ValueError" else
  bind (check_and_cast c i) (fun a =>
  if negb (n_planes i =? nsrc c) then Err "ValueError" else
  if negb ((rows c =? srows c) && (cols c =? scols c)) then Err "ValueError" else
  let '(inc, omit') := included c a in
  let order := filter (fun j => memz j inc) perm in
  let fs := frames_of c a order omit' in
  match fs with
  | [] => Err "IndexError"
  | _ => Ok (Stored c (map (fun f => (f_seg f, f_plane f)) fs)
                    (if native c then pixel_data c fs else [])
                    (map f_pix fs))
  end).

(* ------------------------------------------------------------------ *)
(* reading                                                              *)
(* ------------------------------------------------------------------ *)
(* image.py get_raw_frame: [start, end) of frame index i in PixelData *)
Definition raw_range (bits n i : Z) : Z * Z :=
  let flb := bits * n in
  if (bits =? 1) && negb (n mod 8 =? 0)
  then ((i * flb) / 8, ((i + 1) * flb + 7) / 8)
  else let fl := flb / 8 in (i * fl, i * fl + fl).

(* io.py ImageFileReader: offset table entry and read length *)
Definition lazy_range (bits n i : Z) : Z * Z :=
  if bits =? 1 then ((i * n) / 8, ((i * n) mod 8 + n + 7) / 8)
  else let bpf := n * bits / 8 in (i * bpf, bpf).

Fixpoint un16 (b : list Z) : list Z :=
  match b with
  | lo :: hi :: t => lo + 256 * hi :: un16 t
  | _ => []
  end.

(* frame.py decode_frame on the raw bytes of frame index i *)
Definition decode_native (bits n i : Z) (raw : list Z) : list Z :=
  if bits =? 1 then
    map pixel_of_bit (firstn (Z.to_nat n) (skipn (Z.to_nat ((i * n) mod 8)) (unpack_bits raw)))
  else if bits =? 8 then firstn (Z.to_nat n) raw
  else firstn (Z.to_nat n) (un16 raw).

Definition stored_frame (lazy : bool) (st : stored) (i : Z) : list Z :=
  let c := s_cfg st in
  if native c then
    let bits := bits_alloc c in
    let raw := if lazy
               then let '(o, l) := lazy_range bits (npix c) i in slice o (o + l) (s_bytes st)
               else let '(a, b) := raw_range bits (npix c) i in slice a b (s_bytes st) in
    decode_native bits (npix c) i raw
  else nthz i (s_frames st) [].

(* frame LUT look-up: index of the stored frame with this (segment, source) *)
Fixpoint find_from (i : Z) (key : Z * Z) (m : list (Z * Z)) : option Z :=
  match m with
  | [] => None
  | (s, j) :: t => if (s =? fst key) && (j =? snd key) then Some i else find_from (i + 1) key t
  end.
Definition find_frame (st : stored) (s j : Z) : option Z := find_from 0 (s, j) (s_meta st).

Fixpoint nodup_keys (m : list (Z * Z)) : bool :=
  match m with
  | [] => true
  | (s, j) :: t => negb (existsb (fun k => (fst k =? s) && (snd k =? j)) t) && nodup_keys t
  end.

(* position of v in l, 1-based; 0 if absent (the LABELMAP remapping) *)
Fixpoint remap_from (i : Z) (v : Z) (l : list Z) : Z :=
  match l with [] => 0 | x :: t => if x =? v then i else remap_from (i + 1) v t end.

Definition zeros (n : Z) : list Z := repeat 0 (Z.to_nat n).

(* the stored frame of (segment s, source j), or zeros when there is none *)
Definition fetch (lazy : bool) (st : stored) (s j : Z) : list Z :=
  match find_frame st s j with
  | Some i => stored_frame lazy st i
  | None => zeros (npix (s_cfg st))
  end.

(* one output plane: pixel -> channel, for requested source index j *)
Definition read_plane (lazy : bool) (st : stored) (j : Z) : list (list Z) :=
  let c := s_cfg st in
  match ty c with
  | LABELMAP =>
      map (fun v => let r := remap_from 1 v (segs c) in
                    map (fun k => if r =? k then 1 else 0) (one_to (zlen (segs c))))
          (fetch lazy st 0 j)
  | _ =>
      let chans := map (fun s => fetch lazy st s j) (segs c) in
      map (fun p => map (fun ch => nthz p ch 0) chans) (zrange (npix c))
  end.

(* get_pixels_by_source_instance(uids, rescale_fractional=False);
   a request index outside 0..nsrc-1 stands for an unknown UID *)
Definition read_by_instance (lazy : bool) (st : stored) (req : list Z) (assert_missing : bool)
  : res (list (list (list Z))) :=
  match req with [] => Err "ValueError" | _ =>
  if negb (nodup_keys (s_meta st)) then Err "RuntimeError" else
  if negb assert_missing && existsb (fun j => (j <? 0) || (nsrc (s_cfg st) <=? j)) req
  then Err "KeyError"
  else Ok (map (read_plane lazy st) req)
  end.

(* get_pixels_by_source_frame(uid, frame numbers (1-based), rescale_fractional=False) *)
Definition read_by_frame (lazy : bool) (st : stored) (req : list Z) (assert_missing : bool)
  : res (list (list (list Z))) :=
  match req with [] => Err "ValueError" | _ =>
  if existsb (fun f => f <=? 0) req then Err "ValueError" else
  if negb (nodup_keys (s_meta st)) then Err "RuntimeError" else
  let maxref := maxl (map (fun m => snd m + 1) (s_meta st)) in
  if negb assert_missing && existsb (fun f => maxref <? f) req then Err "ValueError"
  else Ok (map (fun f => read_plane lazy st (f - 1)) req)
  end.

(* ------------------------------------------------------------------ *)
(* the specification side: what the user should get back               *)
(* ------------------------------------------------------------------ *)
(* expected stored value of (plane j, pixel p, k-th segment), from the input *)
Definition expected_pixel (c : cfg) (i : input) (j p k : Z) : Z :=
  let sg := nthz k (segs c) 0 in
  match i with
  | Label ps =>
      let v := nthz p (nthz j ps []) 0 in
      match dt c, ty c with
      | DFloat, FRACTIONAL => rhe (v * maxfrac c) (den c)
      | DFloat, _ => if v / den c =? sg then 1 else 0
      | _, FRACTIONAL => if v =? sg then maxfrac c else 0
      | _, _ => if v =? sg then 1 else 0
      end
  | Stack ps =>
      let v := nthz k (nthz p (nthz j ps []) []) 0 in
      match dt c, ty c with
      | DFloat, FRACTIONAL => rhe (v * maxfrac c) (den c)
      | DFloat, _ => v / den c
      | _, FRACTIONAL => v * maxfrac c
      | _, _ => v
      end
  end.

(* the inputs of the documented domain that the constructor accepts *)
Definition binary01 (v : Z) : bool := (v =? 0) || (v =? 1).

Definition shape_ok (c : cfg) (i : input) : bool :=
  match i with
  | Label ps => forallb (fun pl => zlen pl =? npix c) ps
  | Stack ps => forallb (fun pl => (zlen pl =? npix c) &&
                                   forallb (fun ch => zlen ch =? zlen (segs c)) pl) ps
  end.

(* astype(uint) of a 0.0 / 1.0 float array *)
Definition cast_in (dn : Z) (i : input) : input :=
  match i with
  | Label ps => Label (map (map (cast_float_bin dn)) ps)
  | Stack ps => Stack (map (map (map (cast_float_bin dn))) ps)
  end.

(* integer arrays: label values are described segments (or 0); stacked
   channels are binary and, for LABELMAP, do not overlap *)
Definition int_values_ok (t : segtype) (sg : list Z) (i : input) : bool :=
  match i with
  | Label ps => forallb (fun v => memz v (0 :: sg)) (concat ps)
  | Stack ps => forallb binary01 (all_pixels i) &&
                match t with LABELMAP => negb (overlaps i) | _ => true end
  end.

(* a floating point 2-D / 3-D array is ONE mask: for BINARY / FRACTIONAL the only
   segment [1]; for LABELMAP the label 1 among any described numbers (D117) *)
Definition is_labelmap (t : segtype) : bool := match t with LABELMAP => true | _ => false end.
Definition float_label_ok (c : cfg) (i : input) : bool :=
  if is_stack i then true else list_eqb (segs c) [1] || is_labelmap (ty c).

Definition values_ok (c : cfg) (i : input) : bool :=
  match dt c with
  | DBad => false
  | DInt => int_values_ok (ty c) (segs c) i
  | DFloat =>
      (0 <? den c) &&
      float_label_ok c i &&   (* a float label array is one segment / the label 1 *)
      match ty c with
      | FRACTIONAL => forallb (fun k => (0 <=? k) && (k <=? den c)) (all_pixels i)
      | t => forallb (fun k => (k =? 0) || (k =? den c)) (all_pixels i) &&
             int_values_ok t (segs c) (cast_in (den c) i)
      end
  end.

Definition valid (c : cfg) (i : input) : bool :=
  seg_numbers_ok (ty c) (segs c) &&
  (1 <=? npix c) && (1 <=? nsrc c) && (n_planes i =? nsrc c) &&
  (rows c =? srows c) && (cols c =? scols c) &&
  match ty c with
  | BINARY => native c
  | FRACTIONAL => (0 <=? maxfrac c) && (maxfrac c <=? 255)
  | LABELMAP => true
  end &&
  shape_ok c i && values_ok c i.

Definition expected (c : cfg) (i : input) : list (list (list Z)) :=
  map (fun j => map (fun p => map (fun k => expected_pixel c i j p k) (zrange (zlen (segs c))))
                    (zrange (npix c)))
      (zrange (n_planes i)).

(* ------------------------------------------------------------------ *)
(* boundary functions                                                   *)
(* ------------------------------------------------------------------ *)
Definition vz3 (x : list (list (list Z))) : val := VL (map vz_list2 x).

(* the whole observation of one case:
   [NumberOfFrames; per-frame (segment, source index); PixelData bytes (native);
    read-back of the in-memory object; of the eagerly read file; of the lazily read file;
    list of other discrepancies (always empty)] *)
Definition run_seg (c : cfg) (i : input) (perm req : list Z) (byframe assert_missing : bool) : val :=
  match construct c i perm with
  | Err k => VErr k
  | Ok st =>
      let rd := if byframe then read_by_frame else read_by_instance in
      VL [ VZ (zlen (s_meta st));
           VL (map (fun m => vz_list [fst m; snd m]) (s_meta st));
           vz_list (s_bytes st);
           vres vz3 (rd false st req assert_missing);     (* in-memory object *)
           vres vz3 (rd false st req assert_missing);     (* written and read eagerly: same path (premise W1) *)
           vres vz3 (rd true st req assert_missing);      (* written and read lazily *)
           VL [] ]                                        (* no further discrepancy reported *)
  end.

(* the specification evaluated next to the model: reading ALL source planes in
   input order (eagerly and lazily) gives [expected] *)
Fixpoint eqb_list {A} (e : A -> A -> bool) (x y : list A) : bool :=
  match x, y with
  | [], [] => true
  | a :: x', b :: y' => e a b && eqb_list e x' y'
  | _, _ => false
  end.
Definition eqb3 := eqb_list (eqb_list (eqb_list Z.eqb)).

Definition spec_holds (c : cfg) (i : input) (perm : list Z) (byframe : bool) : bool :=
  match construct c i perm with
  | Err _ => false
  | Ok st =>
      let rd := fun lz => if byframe then read_by_frame lz st (one_to (nsrc c)) true
                          else read_by_instance lz st (zrange (nsrc c)) false in
      match rd false, rd true with
      | Ok x, Ok y => eqb3 x (expected c i) && eqb3 y (expected c i)
      | _, _ => false
      end
  end.

Definition run_seg_spec (c : cfg) (i : input) (perm req : list Z) (byframe assert_missing : bool) : val :=
  match run_seg c i perm req byframe assert_missing with
  | VL l => VL (l ++ [VB (spec_holds c i perm byframe); VB (valid c i)])
  | e => e
  end.

(* rescale_fractional=True: stored / MaximumFractionalValue as rationals *)
Definition run_rescaled (c : cfg) (i : input) (perm req : list Z) : val :=
  match construct c i perm with
  | Err k => VErr k
  | Ok st =>
      vres (fun x => VL (map (fun pl => VL (map (fun px => VL (map (fun v =>
              VQ (Qmake v (Z.to_pos (maxfrac c)))) px)) pl)) x))
           (read_by_instance false st req false)
  end.

(* pydicom pack_bits(pad=False) and unpack_bits *)
Definition run_pack (px : list Z) : val :=
  let b := pack_bits (map bit_of_pixel px) in
  VL [vz_list b; vz_list (map pixel_of_bit (unpack_bits b))].

(* Image.get_raw_frame range + decode_frame(index=i), and the lazy reader's
   range, on a bit-packed / 8-bit / 16-bit PixelData *)
Definition run_frame_at (bits n i : Z) (bytes : list Z) : val :=
  let '(a, b) := raw_range bits n i in
  let '(o, l) := lazy_range bits n i in
  VL [vz_list [a; b]; vz_list (decode_native bits n i (slice a b bytes));
      vz_list [o; l]; vz_list (decode_native bits n i (slice o (o + l) bytes))].

Definition run_rhe (a b : Z) : val := VZ (rhe a b).

(* ------------------------------------------------------------------ *)
(* histories: the decoded-array cache and the other read entry points   *)
(* ------------------------------------------------------------------ *)
(* pydicom Dataset.pixel_array / image.py Image.pixel_array: the WHOLE native
   PixelData decoded at once (all bits unpacked / all bytes / all 16-bit words)
   and kept in _pixel_array; once it is there, get_stored_frame,
   get_stored_frames and _get_pixels_by_frame index it instead of decoding the
   byte range of one frame. *)
Definition whole_flat (st : stored) : list Z :=
  match bits_alloc (s_cfg st) with
  | 1 => map pixel_of_bit (unpack_bits (s_bytes st))
  | 8 => s_bytes st
  | _ => un16 (s_bytes st)
  end.

Definition cached_frame (st : stored) (i : Z) : list Z :=
  let c := s_cfg st in
  if native c then slice (i * npix c) (i * npix c + npix c) (whole_flat st)
  else nthz i (s_frames st) [].

(* where frame index i comes from, given the kind of object (lazy file reader
   or not) and whether .pixel_array was touched before (warm).  The lazy
   object fills its cache with get_stored_frames(), i.e. frame by frame. *)
Definition frame_getter (lazy warm : bool) (st : stored) : Z -> list Z :=
  if warm && negb lazy then cached_frame st else stored_frame lazy st.

(* the read path over an arbitrary frame getter g *)
Definition fetch_g (g : Z -> list Z) (st : stored) (s j : Z) : list Z :=
  match find_frame st s j with
  | Some i => g i
  | None => zeros (npix (s_cfg st))
  end.

Definition read_plane_g (g : Z -> list Z) (st : stored) (j : Z) : list (list Z) :=
  let c := s_cfg st in
  match ty c with
  | LABELMAP =>
      map (fun v => let r := remap_from 1 v (segs c) in
                    map (fun k => if r =? k then 1 else 0) (one_to (zlen (segs c))))
          (fetch_g g st 0 j)
  | _ =>
      let chans := map (fun s => fetch_g g st s j) (segs c) in
      map (fun p => map (fun ch => nthz p ch 0) chans) (zrange (npix c))
  end.

(* the query guards do not look at pixels: they are those of read_by_instance /
   read_by_frame; [src_index] is the source plane a request item stands for *)
Definition src_index (byframe : bool) (r : Z) : Z := if byframe then r - 1 else r.

Definition read_guard (st : stored) (req : list Z) (byframe assert_missing : bool) : res unit :=
  match (if byframe then read_by_frame false st req assert_missing
         else read_by_instance false st req assert_missing) with
  | Ok _ => Ok tt
  | Err k => Err k
  end.

Definition read_g (g : Z -> list Z) (st : stored) (req : list Z) (byframe assert_missing : bool)
  : res (list (list (list Z))) :=
  bind (read_guard st req byframe assert_missing) (fun _ =>
  Ok (map (fun r => read_plane_g g st (src_index byframe r)) req)).

(* _get_pixels_by_seg_frame(combine_segments=True, relabel=False), every
   described segment requested.  LABELMAP: the stored labels.  BINARY /
   FRACTIONAL: the frames of one output plane are visited one after the other;
   a FRACTIONAL frame with a value other than 0 / MaximumFractionalValue raises
   ValueError, a pixel set in two segments raises RuntimeError, otherwise the
   pixel gets the number of its segment.  (The order in which the frames of ONE
   output plane are visited is not specified by the SQL query; the model takes
   the order of the described segments, and the harness draws no case where
   the outcome depends on it.) *)
Definition nonbinary (mf : Z) (f : list Z) : bool :=
  existsb (fun v => negb ((v =? 0) || (v =? mf))) f.

Fixpoint overlap2 (b acc : list Z) : bool :=
  match b, acc with
  | x :: b', y :: a' => ((0 <? x) && (0 <? y)) || overlap2 b' a'
  | _, _ => false
  end.

Fixpoint max2 (b acc : list Z) : list Z :=
  match b, acc with
  | x :: b', y :: a' => Z.max x y :: max2 b' a'
  | _, _ => []
  end.

Definition combine_step (g : Z -> list Z) (st : stored) (j : Z) (acc : res (list Z)) (s : Z)
  : res (list Z) :=
  let c := s_cfg st in
  bind acc (fun out =>
  match find_frame st s j with
  | None => Ok out
  | Some i =>
      let f := g i in
      let frac := match ty c with FRACTIONAL => true | _ => false end in
      if frac && nonbinary (maxfrac c) f then Err "ValueError" else
      let b := if frac then map (fun v => v / maxfrac c) f else f in
      if overlap2 b out then Err "RuntimeError"
      else Ok (max2 (map (fun v => v * s) b) out)
  end).

Definition combine_plane (g : Z -> list Z) (st : stored) (j : Z) : res (list Z) :=
  let c := s_cfg st in
  match ty c with
  | LABELMAP => Ok (fetch_g g st 0 j)
  | _ => fold_left (combine_step g st j) (segs c) (Ok (zeros (npix c)))
  end.

Fixpoint map_res {A B} (f : A -> res B) (l : list A) : res (list B) :=
  match l with
  | [] => Ok []
  | x :: t => bind (f x) (fun y => bind (map_res f t) (fun ys => Ok (y :: ys)))
  end.

Definition read_combined (g : Z -> list Z) (st : stored) (req : list Z) (byframe assert_missing : bool)
  : res (list (list Z)) :=
  bind (read_guard st req byframe assert_missing) (fun _ =>
  map_res (fun r => combine_plane g st (src_index byframe r)) req).

(* what combine_segments=True should return for source plane j: per pixel the
   number of the segment the input puts there (0 = none) *)
Definition expected_label (c : cfg) (i : input) (j p : Z) : Z :=
  sum (map (fun k => if expected_pixel c i j p k =? 0 then 0 else nthz k (segs c) 0)
           (zrange (zlen (segs c)))).

Definition expected_labels (c : cfg) (i : input) : list (list Z) :=
  map (fun j => map (fun p => expected_label c i j p) (zrange (npix c))) (zrange (n_planes i)).

(* the input can be shown as one label map: every stored value is 0 or the top
   value (1, or max_fractional_value >= 1), and no pixel is in two segments *)
Definition top_value (c : cfg) : Z := match ty c with FRACTIONAL => maxfrac c | _ => 1 end.

Definition combinable (c : cfg) (i : input) : bool :=
  (1 <=? top_value c) &&
  forallb (fun j => forallb (fun p =>
      let ks := zrange (zlen (segs c)) in
      forallb (fun k => (expected_pixel c i j p k =? 0) || (expected_pixel c i j p k =? top_value c)) ks &&
      forallb (fun k1 => forallb (fun k2 =>
          (k1 =? k2) || (expected_pixel c i j p k1 =? 0) || (expected_pixel c i j p k2 =? 0)) ks) ks)
    (zrange (npix c))) (zrange (n_planes i)).

(* one schedule of calls on one object; step codes: 0 stacked read, 1 combined
   read, 2 access of .pixel_array (returns all frames and warms the cache),
   3 / 5 get_stored_frame for every frame (by number / by index),
   4 get_stored_frames() *)
Fixpoint hist_steps (lazy warm : bool) (st : stored) (req : list Z) (byframe assert_missing : bool)
  (steps : list Z) : list val :=
  match steps with
  | [] => []
  | k :: t =>
      let g := frame_getter lazy warm st in
      (if k =? 0 then vres vz3 (read_g g st req byframe assert_missing)
       else if k =? 1 then vres vz_list2 (read_combined g st req byframe assert_missing)
       else vz_list2 (map (if k =? 2 then frame_getter lazy true st else g) (zrange (zlen (s_meta st)))))
      :: hist_steps lazy (warm || (k =? 2)) st req byframe assert_missing t
  end.

(* [NumberOfFrames; per-frame (segment, source index); the step results on the
   in-memory object; on the eagerly read file (same path, premise W1); on the
   lazily read file] *)
(* the specification evaluated next to the model, for every object and cache
   state: the stacked read of all sources is [expected]; if the input is
   combinable the combined read is [expected_labels] *)
Definition hist_spec_holds (c : cfg) (i : input) (perm : list Z) (byframe : bool) : bool :=
  match construct c i perm with
  | Err _ => false
  | Ok st =>
      let req := if byframe then one_to (nsrc c) else zrange (nsrc c) in
      forallb (fun lw : bool * bool =>
        let g := frame_getter (fst lw) (snd lw) st in
        match read_g g st req byframe byframe with
        | Ok x => eqb3 x (expected c i)
        | Err _ => false
        end &&
        (if combinable c i
         then match read_combined g st req byframe byframe with
              | Ok y => eqb_list (eqb_list Z.eqb) y (expected_labels c i)
              | Err _ => false
              end
         else true))
      [(false, false); (false, true); (true, false); (true, true)]
  end.

Definition run_hist (c : cfg) (i : input) (perm req : list Z) (byframe assert_missing : bool)
  (steps : list Z) : val :=
  match construct c i perm with
  | Err k => VErr k
  | Ok st =>
      VL [ VZ (zlen (s_meta st));
           VL (map (fun m => vz_list [fst m; snd m]) (s_meta st));
           VL (hist_steps false false st req byframe assert_missing steps);
           VL (hist_steps false false st req byframe assert_missing steps);
           VL (hist_steps true false st req byframe assert_missing steps);
           VB (valid c i); VB (hist_spec_holds c i perm byframe); VB (combinable c i) ]
  end.

(* ================================================================== *)
(* extension (session 4): every request list, the label-map refusals,   *)
(* acceptance, worker schedules, iter_segments                          *)
(* ================================================================== *)
(* ---- what ANY request list must read back as ------------------------ *)
Definition in_src (c : cfg) (j : Z) : bool := (0 <=? j) && (j <? nsrc c).

(* one requested source: the input plane, or zeros for a source that is not
   there (only reachable with assert_missing_frames_are_empty) *)
Definition expected_plane (c : cfg) (i : input) (j : Z) : list (list Z) :=
  map (fun p => map (fun k => if in_src c j then expected_pixel c i j p k else 0)
                    (zrange (zlen (segs c))))
      (zrange (npix c)).

Definition expected_req (c : cfg) (i : input) (byframe : bool) (req : list Z) : list (list (list Z)) :=
  map (fun r => expected_plane c i (src_index byframe r)) req.

(* ---- combine_segments=True: result OR refusal, from the input alone -- *)
(* pixel p of source j is already claimed by one of the first m described segments *)
Definition occupied_before (c : cfg) (i : input) (j p m : Z) : bool :=
  existsb (fun k => negb (expected_pixel c i j p k =? 0)) (zrange m).

(* the defect, if any, met when the frame of the m-th described segment is
   visited: a FRACTIONAL value other than 0 / MaximumFractionalValue
   (ValueError), else a pixel already claimed (RuntimeError) *)
Definition seg_defect (c : cfg) (i : input) (j m : Z) : option string :=
  let px := zrange (npix c) in
  if match ty c with FRACTIONAL => true | _ => false end &&
     existsb (fun p => let v := expected_pixel c i j p m in negb ((v =? 0) || (v =? maxfrac c))) px
  then Some "ValueError"%string
  else if existsb (fun p => negb (expected_pixel c i j p m =? 0) && occupied_before c i j p m) px
  then Some "RuntimeError"%string
  else None.

Fixpoint first_some {A B} (f : A -> option B) (l : list A) : option B :=
  match l with
  | [] => None
  | x :: t => match f x with Some y => Some y | None => first_some f t end
  end.

Definition plane_defect (c : cfg) (i : input) (j : Z) : option string :=
  match ty c with
  | LABELMAP => None
  | _ => if in_src c j then first_some (seg_defect c i j) (zrange (zlen (segs c))) else None
  end.

Definition expected_label_plane (c : cfg) (i : input) (j : Z) : list Z :=
  map (fun p => if in_src c j then expected_label c i j p else 0) (zrange (npix c)).

Definition spec_combined (c : cfg) (i : input) (byframe : bool) (req : list Z) : res (list (list Z)) :=
  map_res (fun r => let j := src_index byframe r in
                    match plane_defect c i j with
                    | Some e => Err e
                    | None => Ok (expected_label_plane c i j)
                    end) req.

(* ---- acceptance: arrays as numpy hands them over --------------------- *)
(* facts that hold of every (unsigned / float) numpy array of the stated shape;
   no condition on the CONTENT of the mask beyond the sign of unsigned values
   (hypothesis of C01_construct_ok_valid / C01_no_silent_corruption) *)
Definition planes_shaped (c : cfg) (i : input) : bool :=
  match i with
  | Label ps => forallb (fun pl => zlen pl =? npix c) ps
  | Stack ps => forallb (fun pl => zlen pl =? npix c) ps
  end.

Definition well_formed (c : cfg) (i : input) : bool :=
  (1 <=? npix c) && (1 <=? nsrc c) && (0 <=? maxfrac c) && planes_shaped c i &&
  match dt c with
  | DBad => true
  | DInt => forallb (fun v => 0 <=? v) (all_pixels i)
  | DFloat => (0 <? den c) && float_label_ok c i
  end.

(* ---- workers: the pool completes the encode tasks in ANY order -------- *)
(* encode_frame tasks are submitted in frame order (task id = position in
   frame_futures); the pool completes them in the order [pi]; a completed task
   stores its result in its own future; the constructor then gathers
   fut.result() in submission order.  A future that was never completed
   would block for ever (modelled as an error). *)
Fixpoint set_nth {A} (n : nat) (v : A) (l : list A) : list A :=
  match l, n with
  | [], _ => []
  | _ :: t, O => v :: t
  | x :: t, S n' => x :: set_nth n' v t
  end.

Definition pool_step {A} (tasks : list A) (slots : list (option A)) (id : Z) : list (option A) :=
  if (0 <=? id) && (id <? zlen tasks)
  then set_nth (Z.to_nat id) (nth_error tasks (Z.to_nat id)) slots
  else slots.

Definition pool_run {A} (tasks : list A) (pi : list Z) : list (option A) :=
  fold_left (pool_step tasks) pi (repeat None (length tasks)).

Fixpoint gather {A} (slots : list (option A)) : res (list A) :=
  match slots with
  | [] => Ok []
  | Some x :: t => bind (gather t) (fun r => Ok (x :: r))
  | None :: _ => Err "TimeoutError"
  end.

(* the constructor with workers != 0 on an encapsulated syntax *)
Definition construct_sched (c : cfg) (i : input) (perm pi : list Z) : res stored :=
  bind (construct c i perm) (fun st =>
  if native c then Ok st
  else bind (gather (pool_run (s_frames st) pi)) (fun fr =>
       Ok (Stored (s_cfg st) (s_meta st) (s_bytes st) fr))).

(* completion orders used by the correspondence run: rotation by r, optionally reversed *)
Definition rot_order (n r : Z) (rev : bool) : list Z :=
  let l := map (fun k => (k + r) mod n) (zrange n) in if rev then List.rev l else l.

(* ---- iter_segments ---------------------------------------------------- *)
(* seg/utils.py iter_segments: for every segment number that has a frame, in
   ascending order (= described order for BINARY / FRACTIONAL), the frames of
   that segment in stored order, cut out of dataset.pixel_array, with the source
   each frame refers to.  [g] is the frame getter of the object. *)
Definition indexed {A} (l : list A) : list (Z * A) := combine (zrange (zlen l)) l.

Definition iter_segs (g : Z -> list Z) (st : stored) : list (Z * list (Z * list Z)) :=
  flat_map (fun s =>
    match filter (fun im => fst (snd im) =? s) (indexed (s_meta st)) with
    | [] => []
    | fr => [(s, map (fun im => (snd (snd im), g (fst im))) fr)]
    end) (segs (s_cfg st)).

(* the column of (k-th described segment, source j) in the specification *)
Definition expected_col (c : cfg) (i : input) (j k : Z) : list Z :=
  map (fun p => expected_pixel c i j p k) (zrange (npix c)).

(* ---- boundary functions of the extension ------------------------------ *)
Definition eqb_res {A} (e : A -> A -> bool) (x y : res A) : bool :=
  match x, y with
  | Ok a, Ok b => e a b
  | Err k1, Err k2 => String.eqb k1 k2
  | _, _ => false
  end.

(* the specification of an ARBITRARY request list, evaluated next to the model
   on all four object / cache states: stacked read = expected_req, combined read
   (result or refusal) = spec_combined *)
Definition req_spec_holds (c : cfg) (i : input) (perm req : list Z) (byframe am : bool) : bool :=
  match construct c i perm with
  | Err _ => false
  | Ok st =>
      match read_guard st req byframe am with
      | Err _ => true
      | Ok _ =>
          forallb (fun lw : bool * bool =>
            let g := frame_getter (fst lw) (snd lw) st in
            eqb_res eqb3 (read_g g st req byframe am) (Ok (expected_req c i byframe req)) &&
            eqb_res (eqb_list (eqb_list Z.eqb)) (read_combined g st req byframe am)
                    (spec_combined c i byframe req))
          [(false, false); (false, true); (true, false); (true, true)]
      end
  end.

Definition run_hist2 (c : cfg) (i : input) (perm req : list Z) (byframe assert_missing : bool)
  (steps : list Z) : val :=
  match run_hist c i perm req byframe assert_missing steps with
  | VL l => VL (l ++ [VB (req_spec_holds c i perm req byframe assert_missing)])
  | e => e
  end.

Definition v_iter (x : list (Z * list (Z * list Z))) : val :=
  VL (map (fun sg => VL [VZ (fst sg);
                         VL (map (fun jf => VL [VZ (fst jf); vz_list (snd jf)]) (snd sg))]) x).

(* further observation points of one stored object:
   [NumberOfFrames; per-frame (segment, source); iter_segments of the eagerly read
    file; pydicom's own pixel_array of the written file (all frames);
    does the model accept => valid (well_formed inputs)] *)
Definition run_observe (c : cfg) (i : input) (perm : list Z) : val :=
  match construct c i perm with
  | Err k => VErr k
  | Ok st =>
      VL [ VZ (zlen (s_meta st));
           VL (map (fun m => vz_list [fst m; snd m]) (s_meta st));
           (match ty c with LABELMAP => VNone | _ => v_iter (iter_segs (cached_frame st) st) end);
           (if native c then vz_list2 (map (cached_frame st) (zrange (zlen (s_meta st)))) else VNone);
           VB (negb (well_formed c i) || valid c i) ]
  end.

(* the constructor with a pool that completes the encode tasks in the order
   rot_order n r rev: [NumberOfFrames; per-frame (segment, source); decoded stored frames] *)
Definition run_sched (c : cfg) (i : input) (perm : list Z) (r : Z) (rev : bool) : val :=
  match construct c i perm with
  | Err k => VErr k
  | Ok st0 =>
      match construct_sched c i perm (rot_order (zlen (s_meta st0)) r rev) with
      | Err k => VErr k
      | Ok st =>
          VL [ VZ (zlen (s_meta st));
               VL (map (fun m => vz_list [fst m; snd m]) (s_meta st));
               vz_list2 (map (stored_frame false st) (zrange (zlen (s_meta st)))) ]
      end
  end.

(* ================================================================== *)
(* tiled sources: the mask handed over as ONE total pixel matrix        *)
(* (Segmentation(..., tile_pixel_array=True), spatial.py)               *)
(* ================================================================== *)
(* A total pixel matrix of R rows x C columns is the row-major list of its
   R*C pixels (a pixel of a 4-D array is its list of segment channels).  In a
   cfg of a tiled case rows/cols are the TILE size of the segmentation and
   srows/scols the total pixel matrix size of the SOURCE image. *)

(* spatial.py compute_tile_positions_per_frame: tiles per direction *)
Definition n_tiles_along (extent tile : Z) : Z := (extent - 1) / tile + 1.
Definition n_tiles (R C th tw : Z) : Z := n_tiles_along R th * n_tiles_along C tw.

(* ... and the (RowPositionInTotalImagePixelMatrix, ColumnPosition...) of each
   tile, 1-based, tile rows outermost (meshgrid indexing 'xy', flattened) *)
Definition tile_offsets (R C th tw : Z) : list (Z * Z) :=
  flat_map (fun r => map (fun q => (r * th + 1, q * tw + 1)) (zrange (n_tiles_along C tw)))
           (zrange (n_tiles_along R th)).

(* spatial.py get_tile_array(pixel_array, row_offset, column_offset, tile_rows,
   tile_columns, pad=True): the slice [row_offset-1 : row_end, column_offset-1 :
   column_end] clipped to the matrix, then np.pad with ((0, pad_rows),
   (0, pad_columns)): pad_columns zero pixels AFTER every row, pad_rows zero rows
   AFTER the last one.  [z] is the zero pixel. *)
Definition get_tile_array {A} (z : A) (R C : Z) (m : list A) (row_offset column_offset th tw : Z)
  : res (list A) :=
  if (row_offset <? 1) || (R <? row_offset) then Err "ValueError" else
  if (column_offset <? 1) || (C <? column_offset) then Err "ValueError" else
  let ro := row_offset - 1 in
  let co := column_offset - 1 in
  let row_end := if R <? ro + th then R else ro + th in
  let pad_rows := if R <? ro + th then ro + th - R else 0 in
  let col_end := if C <? co + tw then C else co + tw in
  let pad_cols := if C <? co + tw then co + tw - C else 0 in
  Ok (flat_map (fun k => slice ((ro + k) * C + co) ((ro + k) * C + col_end) m
                         ++ repeat z (Z.to_nat pad_cols))
               (zrange (row_end - ro))
      ++ repeat z (Z.to_nat (pad_rows * tw))).

Definition tile_planes {A} (z : A) (R C th tw : Z) (m : list A) : res (list (list A)) :=
  map_res (fun rc => get_tile_array z R C m (fst rc) (snd rc) th tw) (tile_offsets R C th tw).

(* the frames the constructor cuts out of pixel_array[0] *)
Definition tile_input (c : cfg) (R C : Z) (i : input) : res input :=
  match i with
  | Label ps => bind (tile_planes 0 R C (rows c) (cols c) (nthz 0 ps [])) (fun t => Ok (Label t))
  | Stack ps => bind (tile_planes (zeros (zlen (segs c))) R C (rows c) (cols c) (nthz 0 ps []))
                     (fun t => Ok (Stack t))
  end.

(* the configuration of the frame loop: one "source plane" per tile *)
Definition tiled_cfg (c : cfg) (R C : Z) : cfg :=
  Cfg (ty c) (dt c) (den c) (maxfrac c) (omit c) (segs c) (rows c) (cols c) (rows c) (cols c)
      (n_tiles R C (rows c) (cols c)) (native c).

(* Segmentation.__init__ with tile_pixel_array=True (geometry of the source
   kept): pixel_array.shape[0] must be 1; the checks and casts act pixel-wise on
   the matrix; its shape must be the total pixel matrix of the source; the plane
   sort index is arange (tiles in the order of tile_offsets); TILED_FULL
   ([full]) cannot be combined with omit_empty_frames - unless the mask is
   entirely empty, in which case omission is switched off before *)
Definition omit_on (c : cfg) (i : input) : bool :=
  match check_and_cast c i with Ok a => snd (included c a) | Err _ => false end.

Definition construct_tiled (c : cfg) (R C : Z) (full : bool) (i : input) : res stored :=
  if negb (n_planes i =? 1) then Err "ValueError" else
  bind (tile_input c R C i) (fun ti =>
  let c' := tiled_cfg c R C in
  bind (construct c' ti (zrange (nsrc c'))) (fun st =>
  if negb ((R =? srows c) && (C =? scols c)) then Err "ValueError" else
  if full && omit_on c' ti then Err "ValueError" else Ok st)).

(* ---- the specification, straight from the matrix --------------------- *)
(* the matrix seen as a one-plane input of R x C pixels *)
Definition tpm_cfg (c : cfg) (R C : Z) : cfg :=
  Cfg (ty c) (dt c) (den c) (maxfrac c) (omit c) (segs c) R C R C 1 (native c).

(* tile t (row-major over the tiles), in-tile pixel p, k-th segment: the stored
   value of the matrix pixel under it, zero beyond the bottom / right edge *)
Definition expected_tile_pixel (c : cfg) (R C : Z) (i : input) (t p k : Z) : Z :=
  let ntc := n_tiles_along C (cols c) in
  let r := (t / ntc) * rows c + p / cols c in
  let q := (t mod ntc) * cols c + p mod cols c in
  if (0 <=? t) && (t <? n_tiles R C (rows c) (cols c)) && (r <? R) && (q <? C)
  then expected_pixel (tpm_cfg c R C) i 0 (r * C + q) k else 0.

Definition expected_tile_plane (c : cfg) (R C : Z) (i : input) (t : Z) : list (list Z) :=
  map (fun p => map (fun k => expected_tile_pixel c R C i t p k) (zrange (zlen (segs c))))
      (zrange (rows c * cols c)).

(* what a request list of SOURCE FRAME NUMBERS (1-based) must read back as *)
Definition expected_tiled_req (c : cfg) (R C : Z) (i : input) (req : list Z) : list (list (list Z)) :=
  map (fun f => expected_tile_plane c R C i (f - 1)) req.

(* the matrices of the documented domain *)
Definition valid_tiled (c : cfg) (R C : Z) (i : input) : bool :=
  (1 <=? rows c) && (1 <=? cols c) && (1 <=? R) && (1 <=? C) && valid (tpm_cfg c R C) i.

(* numpy arrays of shape (1, R, C[, S]) - no condition on the content *)
Definition well_formed_tiled (c : cfg) (R C : Z) (i : input) : bool :=
  (1 <=? rows c) && (1 <=? cols c) && (1 <=? R) && (1 <=? C) && (n_planes i =? 1) &&
  well_formed (tpm_cfg c R C) i.

Definition tiled_spec_holds (c : cfg) (R C : Z) (full : bool) (i : input) : bool :=
  match construct_tiled c R C full i with
  | Err _ => false
  | Ok st =>
      let req := one_to (n_tiles R C (rows c) (cols c)) in
      forallb (fun lz : bool =>
        eqb_res eqb3 (read_by_frame lz st req true) (Ok (expected_tiled_req c R C i req)))
        [false; true]
  end.

(* ---- finding D113 (open): the ORDER of the source frames --------------- *)
(* A TILED_SPARSE source may list its frames in any order: [forder] gives, for
   source frame f (1-based), the tile index forder[f-1] it covers.  The code
   refers stored tile k to source frame k+1 whatever that order is (the model
   above does the same: s_meta holds the tile index), so the property - "the
   mask under source frame f" - needs the source to be in row-major order. *)
Definition frame_tile (forder : list Z) (f : Z) : Z :=
  if (1 <=? f) && (f <=? zlen forder) then nthz (f - 1) forder 0 else -1.

(* what the property demands for a source with frame order [forder] *)
Definition expected_tiled_req_order (c : cfg) (R C : Z) (i : input) (forder req : list Z)
  : list (list (list Z)) :=
  map (fun f => expected_tile_plane c R C i (frame_tile forder f)) req.

Definition tiled_order_spec_holds (c : cfg) (R C : Z) (full : bool) (i : input) (forder : list Z) : bool :=
  match construct_tiled c R C full i with
  | Err _ => false
  | Ok st =>
      let req := one_to (n_tiles R C (rows c) (cols c)) in
      forallb (fun lz : bool =>
        eqb_res eqb3 (read_by_frame lz st req true) (Ok (expected_tiled_req_order c R C i forder req)))
        [false; true]
  end.

(* the whole observation of one tiled case:
   [NumberOfFrames; per-frame (segment, tile index); PixelData bytes (native);
    read by source frame of the in-memory / eagerly read / lazily read object
    ([refs] = the stored frames refer to source frames; otherwise indexing by
    source frame is refused); other discrepancies (none); the specification
    (row-major source) holds; the matrix is valid; the decoded stored frames;
    the source frame number each stored frame refers to; does reading all source
    frames return the mask under each of them when the source lists its frames
    in the order [forder] (false = finding D113 shows on this case)] *)
Definition run_tiled (c : cfg) (R C : Z) (full refs : bool) (i : input) (req : list Z)
  (assert_missing : bool) (forder : list Z) : val :=
  match construct_tiled c R C full i with
  | Err k => VErr k
  | Ok st =>
      let rd := fun lz => if refs then vres vz3 (read_by_frame lz st req assert_missing)
                          else VErr "RuntimeError" in
      VL [ VZ (zlen (s_meta st));
           VL (map (fun m => vz_list [fst m; snd m]) (s_meta st));
           vz_list (s_bytes st);
           rd false; rd false; rd true;
           VL [];
           VB (tiled_spec_holds c R C full i);
           VB (valid_tiled c R C i);
           vz_list2 (map (stored_frame false st) (zrange (zlen (s_meta st))));
           vz_list (if refs then map (fun m => snd m + 1) (s_meta st) else []);
           VB (tiled_order_spec_holds c R C full i forder) ]
  end.

(* ================================================================== *)
(* plane positions (session 6): the guard of                            *)
(* seg/content.py DimensionIndexSequence.get_index_values               *)
(* ================================================================== *)
(* [dist]: per plane of the input array (in input order) an integer stand-in of
   its position value - the distance of the plane from the origin along the
   normal (patient coordinates) or the rank of its (row, column, x, y, z) tuple
   (slide coordinates); premise G1 is thereby reduced to "equal positions <->
   equal stand-ins, in the same order".
   np.unique(values, return_index=True)[1]: for every DISTINCT value, in
   ascending order, the index of its first occurrence.  [insert_key] keeps the
   list of (value, first index) pairs strictly ascending by value. *)
Fixpoint insert_key (k : Z * Z) (l : list (Z * Z)) : list (Z * Z) :=
  match l with
  | [] => [k]
  | h :: t => if fst k <? fst h then k :: l
              else if fst k =? fst h then l
              else h :: insert_key k t
  end.

Definition unique_pairs (dist : list Z) : list (Z * Z) :=
  fold_left (fun acc k => insert_key k acc) (combine dist (zrange (zlen dist))) [].

Definition unique_index (dist : list Z) : list Z := map snd (unique_pairs dist).

(* 'Input image/frame positions are not unique ...': len(plane_sort_indices) !=
   len(plane_positions) *)
Definition positions_unique (dist : list Z) : bool := zlen (unique_index dist) =? zlen dist.

(* the constructor with the plane positions of the source as an input: the
   checks in the order of the code (segment numbers, type / syntax, pixel array,
   number of planes, positions, then the rest of [construct]) *)
Definition construct_pos (c : cfg) (i : input) (dist : list Z) : res stored :=
  if negb (seg_numbers_ok (ty c) (segs c)) then Err "ValueError" else
  if match ty c with BINARY => negb (native c) | _ => false end then Err "ValueError" else
  if match ty c with FRACTIONAL => 255 <? maxfrac c | _ => false end then Err "ValueError" else
  bind (check_and_cast c i) (fun _ =>
  if negb (n_planes i =? nsrc c) then Err "ValueError" else
  if negb (positions_unique dist) then Err "ValueError" else
  construct c i (unique_index dist)).

(* the observation of run_seg_spec with the positions, not the permutation, as
   the input *)
Definition run_seg_pos (c : cfg) (i : input) (dist req : list Z) (byframe assert_missing : bool) : val :=
  match construct_pos c i dist with
  | Err k => VErr k
  | Ok _ => run_seg_spec c i (unique_index dist) req byframe assert_missing
  end.
