(* C05 - proofs, extension 1: value ranges, lengths and shapes of the answers; byte-level
   encapsulated streams (payloads, marker detection) and the reader end to end; the native
   reader on the bytes of the file (element header, trailing bytes). *)
From Coq Require Import String ZArith List Bool Lia ZifyBool Arith.
From HD Require Import Base.Val Base.ListZ Base.BitWindow C05_Model C05_Proofs C05_Proofs_Encaps C05_Proofs_State.
Import ListNotations.
Open Scope Z_scope.
Ltac Zify.zify_post_hook ::= Z.to_euclidean_division_equations.

(* ------------------------------------------------------------------ *)
(* values: what is returned fits BitsStored (and so the dtype)          *)
(* ------------------------------------------------------------------ *)
Definition is_byte (b : Z) : Prop := 0 <= b < 256.

Lemma le_word_range : forall bs, Forall is_byte bs -> 0 <= le_word bs < 256 ^ Z.of_nat (length bs).
Proof.
  induction bs as [|b r IH]; intros H; cbn [le_word length].
  - cbn. lia.
  - inversion H as [|? ? Hb Hr]; subst. specialize (IH Hr). unfold is_byte in Hb.
    rewrite Nat2Z.inj_succ, Z.pow_succ_r by lia. lia.
Qed.

Lemma pow2_split : forall bs, 1 <= bs -> 2 ^ bs = 2 * 2 ^ (bs - 1) /\ 0 < 2 ^ (bs - 1).
Proof.
  intros bs H. split.
  - replace bs with (Z.succ (bs - 1)) at 1 by lia. apply Z.pow_succ_r. lia.
  - apply Z.pow_pos_nonneg; lia.
Qed.

(* the low BitsStored bits, as an unsigned or two's-complement number *)
Lemma fix_stored_range : forall bs (sg : bool) u, 1 <= bs ->
  (if sg then - 2 ^ (bs - 1) <= fix_stored bs sg u < 2 ^ (bs - 1) else 0 <= fix_stored bs sg u < 2 ^ bs) /\
  (fix_stored bs sg u - u) mod 2 ^ bs = 0.
Proof.
  intros bs sg u H. destruct (pow2_split bs H) as [E P]. unfold fix_stored. cbv zeta.
  assert (Hm : 0 <= u mod 2 ^ bs < 2 ^ bs) by (apply Z.mod_pos_bound; lia).
  set (M := 2 ^ bs) in *. set (h := 2 ^ (bs - 1)) in *.
  assert (Hq : u = M * (u / M) + u mod M) by (apply Z.div_mod; lia).
  set (q := u / M) in *. set (r := u mod M) in *.
  destruct sg; cbn [andb].
  - destruct (h <=? r) eqn:C; split; try lia.
    + replace (r - M - u) with ((- q - 1) * M) by lia. apply Z.mod_mul. lia.
    + replace (r - u) with ((- q) * M) by lia. apply Z.mod_mul. lia.
  - split; [lia|]. replace (r - u) with ((- q) * M) by lia. apply Z.mod_mul. lia.
Qed.

(* a stored value already inside the range is returned unchanged *)
Lemma fix_stored_id : forall bs (sg : bool) u, 1 <= bs ->
  (if sg then 0 <= u < 2 ^ (bs - 1) else 0 <= u < 2 ^ bs) -> fix_stored bs sg u = u.
Proof.
  intros bs sg u H Hu. destruct (pow2_split bs H) as [E P]. unfold fix_stored. cbv zeta.
  destruct sg; cbn [andb].
  - rewrite Z.mod_small by lia. replace (2 ^ (bs - 1) <=? u) with false by lia. reflexivity.
  - now rewrite Z.mod_small by lia.
Qed.

Definition stored_range (m : fmt) (v : Z) : Prop :=
  if f_bits m =? 1 then 0 <= v <= 1
  else if f_signed m then - 2 ^ (f_stored m - 1) <= v < 2 ^ (f_stored m - 1)
       else 0 <= v < 2 ^ f_stored m.

Lemma unpack_bits_01 : forall l v, In v (unpack_bits l) -> 0 <= v <= 1.
Proof.
  intros l v H. unfold unpack_bits in H. apply in_flat_map in H. destruct H as (b & _ & H).
  unfold byte_bits in H. cbn [In] in H.
  repeat (destruct H as [<- | H]; [lia|]). contradiction.
Qed.

Lemma In_firstn : forall {A} n (l : list A) x, In x (firstn n l) -> In x l.
Proof. intros A n l x H. rewrite <- (firstn_skipn n l). apply in_or_app. now left. Qed.
Lemma In_skipn : forall {A} n (l : list A) x, In x (skipn n l) -> In x l.
Proof. intros A n l x H. rewrite <- (firstn_skipn n l). apply in_or_app. now right. Qed.

Lemma spec_frame_range : forall m pd i v, 1 <= f_stored m -> In v (spec_frame m pd i) -> stored_range m v.
Proof.
  intros m pd i v Hbs H. unfold spec_frame in H. unfold stored_range.
  destruct (f_bits m =? 1) eqn:E.
  - unfold zfirstn, zskipn in H. apply In_firstn, In_skipn in H. now apply unpack_bits_01 in H.
  - unfold words in H. apply in_map_iff in H. destruct H as (ch & <- & _).
    pose proof (fix_stored_range (f_stored m) (f_signed m) (le_word ch) Hbs) as [R _].
    destruct (f_signed m); exact R.
Qed.

Lemma deplane_In : forall p s l v, In v (deplane p s l) -> In v l \/ v = 0.
Proof.
  intros [] s l v H; [|now left]. unfold deplane in H. apply in_map_iff in H. destruct H as (k & <- & _).
  destruct (nth_in_or_default (Z.to_nat (k mod s * (zlen l / s) + k / s)) l 0) as [H | H]; [now left|now right].
Qed.

Lemma stored_range_0 : forall m, 1 <= f_stored m -> stored_range m 0.
Proof.
  intros m H. destruct (pow2_split (f_stored m) H) as [E P]. unfold stored_range.
  destruct (f_bits m =? 1); [lia|]. destruct (f_signed m); lia.
Qed.

(* every value of every answer lies in the range BitsStored / PixelRepresentation allow *)
Lemma spec_frame_c_range : forall c pd i v, 1 <= f_stored (c_fmt c) ->
  In v (spec_frame_c c pd i) -> stored_range (c_fmt c) v.
Proof.
  intros c pd i v Hbs H. unfold spec_frame_c, deplane_on in H. apply deplane_In in H.
  destruct H as [H | ->]; [now apply spec_frame_range in H|now apply stored_range_0].
Qed.

(* ------------------------------------------------------------------ *)
(* lengths and shapes                                                  *)
(* ------------------------------------------------------------------ *)
Lemma words_length : forall bits bs sg cnt data, length (words bits bs sg cnt data) = Z.to_nat cnt.
Proof. intros. unfold words. now rewrite map_length, chunks_length. Qed.

Lemma spec_frame_length : forall m pd i, valid_fmt m -> enough m pd -> 0 <= i < f_frames m ->
  zlen (spec_frame m pd i) = f_npx m.
Proof.
  intros [bits bs sg npx n] pd i (Hb & Hn & Hf) He Hi. unfold enough in He. unfold spec_frame, zlen.
  cbn [f_bits f_stored f_signed f_npx f_frames] in *.
  destruct (bits =? 1) eqn:E.
  - unfold zfirstn, zskipn. rewrite firstn_length, skipn_length, unpack_length.
    assert ((i + 1) * npx <= n * npx) by nia. unfold zlen in He. lia.
  - rewrite words_length. lia.
Qed.

Lemma spec_frame_c_length : forall c pd i, valid_c c -> enough (c_fmt c) pd -> 0 <= i < f_frames (c_fmt c) ->
  zlen (spec_frame_c c pd i) = f_npx (c_fmt c).
Proof.
  intros c pd i (Hv & _) He Hi. unfold spec_frame_c, deplane_on, zlen. rewrite deplane_length.
  now apply spec_frame_length.
Qed.

(* the image geometry is consistent: Rows * Columns * SamplesPerPixel values per frame *)
Definition geometry (c : cfmt) (cols : Z) : Prop :=
  1 <= c_rows c /\ 1 <= cols /\ 1 <= c_spp c /\ f_npx (c_fmt c) = c_rows c * cols * c_spp c.

Lemma shape_of_geometry : forall c cols, geometry c cols ->
  shape_of c = if c_spp c =? 1 then [c_rows c; cols] else [c_rows c; cols; c_spp c].
Proof.
  intros c cols (Hr & Hc & Hs & E). unfold shape_of. cbv zeta. rewrite E.
  replace (c_rows c * cols * c_spp c / (c_rows c * c_spp c)) with cols; [reflexivity|].
  apply Z.div_unique_exact; nia.
Qed.

(* an answer has exactly as many values as its shape says *)
Lemma shape_matches_values : forall c cols pd i, geometry c cols -> valid_c c -> enough (c_fmt c) pd ->
  0 <= i < f_frames (c_fmt c) ->
  fold_right Z.mul 1 (shape_of c) = zlen (spec_frame_c c pd i).
Proof.
  intros c cols pd i G Hv He Hi. rewrite spec_frame_c_length by assumption.
  rewrite (shape_of_geometry c cols G). destruct G as (Hr & Hc & Hs & E). rewrite E.
  destruct (c_spp c =? 1) eqn:S; cbn [fold_right]; nia.
Qed.

Lemma shape_and_values : forall c cols pd i, geometry c cols -> valid_c c -> enough (c_fmt c) pd ->
  0 <= i < f_frames (c_fmt c) ->
  shape_of c = (if c_spp c =? 1 then [c_rows c; cols] else [c_rows c; cols; c_spp c]) /\
  fold_right Z.mul 1 (shape_of c) = zlen (spec_frame_c c pd i).
Proof. intros. split; [now apply shape_of_geometry|now apply (shape_matches_values c cols)]. Qed.

(* ------------------------------------------------------------------ *)
(* the property sentence, for native pixel data                        *)
(* ------------------------------------------------------------------ *)
(* whatever the route - one at a time (in-memory image in ANY cache state), in a batch, lazily from
   the file, as a slice of the whole pixel array that pydicom decodes, or by decoding the raw frame
   bytes of either route - the answer for frame number f is the same function of (image, f, convention):
   the values the bytes say, or IndexError outside the image *)
Definition answer (c : cfmt) (pd : list Z) (f : Z) (ai : bool) : res (list Z) :=
  bind (std_index (f_frames (c_fmt c)) f ai) (fun i => Ok (spec_frame_c c pd i)).

Lemma every_way_same : forall c pd f ai, valid_c c -> enough (c_fmt c) pd ->
  let n := f_frames (c_fmt c) in
  (forall cache, snd (st_one (Img c pd cache) f ai) = answer c pd f ai) /\
  (forall cache, snd (st_batch (Img c pd cache) [f] ai) = rmap (fun a => [a]) (answer c pd f ai)) /\
  snd (lz_one (LImg c pd None) f ai) = answer c pd f ai /\
  (forall i, std_index n f ai = Ok i ->
     exists fs, whole_array_c c pd = Ok fs /\ answer c pd f ai = Ok (nth (Z.to_nat i) fs [])) /\
  (forall lazy, bind (get_raw_frame lazy (c_fmt c) pd f ai) (fun raw =>
                  bind (std_index n f ai) (fun i => decode_native_c c i raw)) = answer c pd f ai) /\
  ((ai = true /\ (f < 0 \/ n <= f)) \/ (ai = false /\ (f < 1 \/ n < f)) <-> answer c pd f ai = Err "IndexError").
Proof.
  intros c pd f ai Hv He n. unfold answer. fold n.
  split; [|split; [|split; [|split; [|split]]]].
  - intros cache. exact (proj1 (st_one_spec (Img c pd cache) f ai Hv He)).
  - intros cache. rewrite (proj1 (st_batch_spec [f] (Img c pd cache) ai Hv He)).
    unfold ref_batch, ref_one. cbn [map sequence i_c i_pd]. fold n.
    destruct (std_index n f ai); reflexivity.
  - unfold lz_one. cbn [l_c l_pd l_cache]. cbv zeta. fold n.
    destruct (index_total n f ai) as [(i & E & Hi) | E]; rewrite E; cbn [bind fst snd]; [|reflexivity].
    rewrite frame_lazy_c_eager. apply (frame_eager_c_ok c pd i Hv He Hi).
  - intros i E. rewrite E. cbn [bind]. exists (map (spec_frame_c c pd) (zrange n)).
    split; [now apply whole_array_c_spec|].
    apply index_rule in E. assert (Hi : 0 <= i < n) by lia.
    rewrite nth_map_zrange by lia. now rewrite Z2Nat.id by lia.
  - intros lazy.
    replace (get_raw_frame lazy (c_fmt c) pd f ai) with (get_raw_frame false (c_fmt c) pd f ai)
      by (destruct lazy; [symmetry; apply raw_frame_lazy_eager|reflexivity]).
    unfold get_raw_frame. fold n.
    destruct (index_total n f ai) as [(i & E & Hi) | E]; rewrite E; cbn [bind]; [|reflexivity].
    apply (frame_eager_c_ok c pd i Hv He Hi).
  - rewrite <- index_rejects. destruct (std_index n f ai) eqn:E; cbn [bind]; split; intro H; try discriminate;
      inversion H; reflexivity.
Qed.

(* ------------------------------------------------------------------ *)
(* encapsulated pixel data at BYTE level                               *)
(* ------------------------------------------------------------------ *)
Definition good_payload (p : list Z) : Prop := 0 < zlen p /\ Z.odd (zlen p) = false.
(* frames given as lists of fragment payloads *)
Definition good_pframes (pfs : list (list (list Z))) : Prop :=
  forall f, In f pfs -> f <> [] /\ forall p, In p f -> good_payload p.
(* the first fragment of the frame (and no other) starts with FF D8 or FF 4F *)
Definition marked_pframe (f : list (list Z)) : Prop :=
  match f with [] => False | p :: r => starts_marker p = true /\ forall q, In q r -> starts_marker q = false end.

Definition items_of (pfs : list (list (list Z))) : list (list item) := map (map item_of) pfs.

Lemma items_concat : forall pfs, concat (items_of pfs) = map item_of (concat pfs).
Proof. intros. unfold items_of. now rewrite concat_map. Qed.

Lemma good_items_of : forall pfs, good_pframes pfs -> good_frames (items_of pfs).
Proof.
  intros pfs H f Hf. unfold items_of in Hf. apply in_map_iff in Hf. destruct Hf as (pf & <- & Hpf).
  destruct (H pf Hpf) as [Hne Hg]. split.
  - destruct pf; [congruence|discriminate].
  - intros it Hit. apply in_map_iff in Hit. destruct Hit as (p & <- & Hp). exact (Hg p Hp).
Qed.

Lemma marked_items_of : forall pf, marked_pframe pf -> marked_frame (map item_of pf).
Proof.
  intros [|p r]; [exact (fun H => H)|]. intros [H1 H2]. cbn [map marked_frame]. split; [exact H1|].
  intros it Hit. apply in_map_iff in Hit. destruct Hit as (q & <- & Hq). exact (H2 q Hq).
Qed.

Lemma zlen_map : forall {A B} (g : A -> B) l, zlen (map g l) = zlen l.
Proof. intros. unfold zlen. now rewrite map_length. Qed.

Lemma join_frame : forall (pfs : list (list (list Z))) i, (i < length pfs)%nat ->
  join_span (concat pfs) (zlen (concat (firstn i pfs)), zlen (nth i pfs [])) = concat (nth i pfs []).
Proof.
  intros pfs i Hi. unfold join_span, zfirstn, zskipn, zlen. cbn [fst snd]. rewrite !Nat2Z.id.
  assert (E : concat (skipn i pfs) = nth i pfs [] ++ concat (skipn (S i) pfs)).
  { clear Hi. revert i. induction pfs as [|f pfs IH]; intros i.
    - destruct i; reflexivity.
    - destruct i as [|i]; [reflexivity|]. cbn [skipn nth]. apply IH. }
  assert (S : concat pfs = concat (firstn i pfs) ++ nth i pfs [] ++ concat (skipn (S i) pfs)).
  { rewrite <- E, <- concat_app. now rewrite firstn_skipn. }
  set (pre := concat (firstn i pfs)) in *. set (fr := nth i pfs []) in *.
  rewrite S. rewrite skipn_app, skipn_all, Nat.sub_diag. cbn [app skipn].
  rewrite firstn_app, firstn_all, Nat.sub_diag. cbn [firstn]. now rewrite app_nil_r.
Qed.

(* open the file (any of the three table situations), read frame i: exactly the bytes of the
   fragments of frame i, in order; outside the image: refused *)
Lemma reader_enc_bytes_correct : forall pfs bot eot i, good_pframes pfs -> pfs <> [] ->
  (forall f, In f pfs -> marked_pframe f) \/ (forall f, In f pfs -> exists p, f = [p]) ->
  (eot = None \/ eot = Some (frame_offsets 0 (items_of pfs))) ->
  (bot = [] \/ bot = frame_offsets 0 (items_of pfs)) ->
  reader_enc_bytes eot bot (concat pfs) (zlen pfs) i =
    if (i <? 0) || (i >=? zlen pfs) then Err "ValueError" else Ok (concat (nth (Z.to_nat i) pfs [])).
Proof.
  intros pfs bot eot i Hg Hne Hshape He Hb. unfold reader_enc_bytes.
  rewrite <- items_concat. rewrite <- (zlen_map (map item_of) pfs). fold (items_of pfs).
  rewrite offset_table_correct; try assumption.
  - cbn [bind]. destruct ((i <? 0) || (i >=? zlen (items_of pfs))) eqn:Ei.
    + rewrite reader_enc_rejects by lia. reflexivity.
    + rewrite read_frame_raw_correct by (try apply good_items_of; try assumption; lia).
      cbn [rmap bind]. f_equal.
      unfold items_of.
      assert (L1 : zlen (concat (firstn (Z.to_nat i) (map (map item_of) pfs))) = zlen (concat (firstn (Z.to_nat i) pfs))).
      { rewrite firstn_map, <- concat_map. apply zlen_map. }
      assert (L2 : zlen (nth (Z.to_nat i) (map (map item_of) pfs) []) = zlen (nth (Z.to_nat i) pfs [])).
      { change (@nil item) with (map item_of []). rewrite map_nth. apply zlen_map. }
      rewrite L1, L2.
      apply join_frame. unfold items_of, zlen in Ei. rewrite map_length in Ei. lia.
  - now apply good_items_of.
  - unfold items_of. destruct pfs; [congruence|discriminate].
  - destruct Hshape as [Hm | Hs]; [left|right]; intros f Hf; unfold items_of in Hf;
      apply in_map_iff in Hf; destruct Hf as (pf & <- & Hpf).
    + apply marked_items_of, Hm, Hpf.
    + destruct (Hs pf Hpf) as (p & ->). now exists (item_of p).
Qed.

(* the same file through hd.imread(lazy): frame NUMBER convention first, then the same bytes *)
Lemma lazy_raw_enc_bytes_correct : forall pfs bot eot f ai, good_pframes pfs -> pfs <> [] ->
  (forall f, In f pfs -> marked_pframe f) \/ (forall f, In f pfs -> exists p, f = [p]) ->
  (eot = None \/ eot = Some (frame_offsets 0 (items_of pfs))) ->
  (bot = [] \/ bot = frame_offsets 0 (items_of pfs)) ->
  lazy_raw_enc_bytes eot bot (concat pfs) (zlen pfs) f ai =
    bind (std_index (zlen pfs) f ai) (fun i => Ok (concat (nth (Z.to_nat i) pfs []))).
Proof.
  intros pfs bot eot f ai Hg Hne Hshape He Hb.
  destruct (index_total (zlen pfs) f ai) as [(i & E & Hi) | E].
  - pose proof (reader_enc_bytes_correct pfs bot eot i Hg Hne Hshape He Hb) as R.
    replace ((i <? 0) || (i >=? zlen pfs)) with false in R by lia.
    unfold lazy_raw_enc_bytes, reader_enc_bytes in *. rewrite E.
    destruct (offset_table eot bot (map item_of (concat pfs)) (zlen pfs)); cbn [bind] in *; [exact R|discriminate].
  - unfold lazy_raw_enc_bytes. rewrite E.
    destruct (offset_table eot bot (map item_of (concat pfs)) (zlen pfs)) eqn:T; cbn [bind]; [reflexivity|].
    exfalso. pose proof (reader_enc_bytes_correct pfs bot eot 0 Hg Hne Hshape He Hb) as R.
    unfold reader_enc_bytes in R. rewrite T in R. cbn [bind] in R.
    assert (0 < zlen pfs) by (destruct pfs; [congruence|unfold zlen; cbn [length]; lia]).
    replace ((0 <? 0) || (0 >=? zlen pfs)) with false in R by lia. discriminate.
Qed.

(* ------------------------------------------------------------------ *)
(* the native reader on the bytes of the FILE                          *)
(* ------------------------------------------------------------------ *)
Lemma pyslice_inside : forall {A} (h pd rest : list A) a b, 0 <= a <= b -> b <= zlen pd ->
  pyslice (zlen h + a) (zlen h + b) (h ++ pd ++ rest) = pyslice a b pd.
Proof.
  intros A h pd rest a b Hab Hb. unfold pyslice, zfirstn, zskipn, zlen in *.
  replace (Z.of_nat (length h) + b - (Z.of_nat (length h) + a)) with (b - a) by lia.
  replace (Z.to_nat (Z.of_nat (length h) + a)) with (length h + Z.to_nat a)%nat by lia.
  rewrite <- skipn_skipn'. rewrite skipn_app, skipn_all, Nat.sub_diag. cbn [app skipn].
  rewrite skipn_app. rewrite firstn_app.
  replace (Z.to_nat (b - a) - length (skipn (Z.to_nat a) pd))%nat with 0%nat by (rewrite skipn_length; lia).
  cbn [firstn]. now rewrite app_nil_r.
Qed.

(* the element header and whatever follows PixelData are never returned: as long as the frame's
   byte range lies inside PixelData, reading the file is reading PixelData *)
Lemma read_file_is_read_pixeldata : forall implicit_vr bits npx n hdr pd rest i,
  zlen hdr = native_header implicit_vr ->
  0 <= fst (lazy_range bits npx i) <= snd (lazy_range bits npx i) -> snd (lazy_range bits npx i) <= zlen pd ->
  read_frame_raw_file implicit_vr bits npx n (hdr ++ pd ++ rest) i = read_frame_raw_native bits npx n pd i.
Proof.
  intros iv bits npx n hdr pd rest i Hh Hr Hl. unfold read_frame_raw_file, read_frame_raw_native.
  destruct ((i <? 0) || (i >=? n)) eqn:Ei; [reflexivity|].
  assert (Hi : 0 <= i < n) by lia.
  rewrite py_nth_in by (rewrite zlen_map, zlen_zrange; lia).
  rewrite nth_error_map, C05_Proofs_Encaps.nth_error_zrange by lia. cbn [option_map]. cbv zeta.
  unfold lazy_range in Hr, Hl. cbn [fst snd] in Hr, Hl.
  rewrite <- Hh. rewrite <- Z.add_assoc.
  rewrite pyslice_inside by lia. reflexivity.
Qed.

(* non-vacuity of geometry / stored_range: 2 x 1 RGB, 12 bits stored, signed *)
Lemma example_shape :
  let c := CFmt (Fmt 16 12 true 6 1) 3 false 2 in
  geometry c 1 /\ shape_of c = [2; 1; 3] /\ stored_range (c_fmt c) (-2048) /\ ~ stored_range (c_fmt c) 2048.
Proof.
  cbv zeta. unfold geometry, stored_range. cbn [c_fmt c_rows c_spp f_bits f_signed f_stored f_npx].
  change (16 =? 1) with false. cbv iota.
  split; [lia|]. split; [reflexivity|]. change (2 ^ (12 - 1)) with 2048. split; lia.
Qed.
