(* C01 - proofs, part 4: value level.  For valid inputs the plane derived by
   _check_and_cast_pixel_array + _get_segment_pixel_array equals the
   specification [expected_pixel], and the stored values fit the allocated bits. *)
From Coq Require Import String ZArith List Bool Lia ZifyBool Arith.
From HD Require Import Base.Val Base.ListZ C01_Model C01_Proofs C01_Proofs_Frames.
Import ListNotations.
Open Scope Z_scope.
Ltac Zify.zify_post_hook ::= Z.to_euclidean_division_equations.

(* ------------------------------------------------------------------ *)
(* list helpers                                                         *)
(* ------------------------------------------------------------------ *)
Lemma in_zrange : forall n j, In j (zrange n) <-> 0 <= j < n.
Proof.
  intros n j. unfold zrange. rewrite in_map_iff. split.
  - intros (k & <- & Hk). apply in_seq in Hk. lia.
  - intros H. exists (Z.to_nat j). split; [lia|]. apply in_seq. lia.
Qed.

Lemma zrange_length : forall n, length (zrange n) = Z.to_nat n.
Proof. intros. unfold zrange. now rewrite map_length, seq_length. Qed.

Lemma nthz_zrange : forall n k d, 0 <= k < n -> nthz k (zrange n) d = k.
Proof.
  intros n k d H. unfold nthz, zrange.
  rewrite (nth_map_default Z.of_nat _ _ 0%nat) by (rewrite seq_length; lia).
  rewrite seq_nth by lia. lia.
Qed.

Lemma nthz_map {A B} : forall (f : A -> B) l p d d', 0 <= p < zlen l ->
  nthz p (map f l) d' = f (nthz p l d).
Proof. intros f l p d d' H. unfold nthz. apply nth_map_default. unfold zlen in H. lia. Qed.

Lemma nthz_in {A} : forall (l : list A) p d, 0 <= p < zlen l -> In (nthz p l d) l.
Proof. intros l p d H. unfold nthz. apply nth_In. unfold zlen in H. lia. Qed.

Lemma list_as_map_nth {A} : forall (l : list A) d,
  l = map (fun k => nthz k l d) (zrange (zlen l)).
Proof.
  intros l d. apply (nth_ext _ _ d d).
  - rewrite map_length, zrange_length. unfold zlen. lia.
  - intros n Hn.
    rewrite (nth_map_default (fun k => nthz k l d) _ _ 0) by (rewrite zrange_length; unfold zlen; lia).
    change (nth n (zrange (zlen l)) 0) with (nthz (Z.of_nat n) (zrange (zlen l)) 0) at 1 || idtac.
    assert (E : nth n (zrange (zlen l)) 0 = Z.of_nat n).
    { replace n with (Z.to_nat (Z.of_nat n)) at 1 by lia.
      apply (nthz_zrange (zlen l) (Z.of_nat n) 0). unfold zlen. lia. }
    rewrite E. unfold nthz. f_equal. lia.
Qed.

Lemma zlen_map {A B} : forall (f : A -> B) l, zlen (map f l) = zlen l.
Proof. intros. unfold zlen. now rewrite map_length. Qed.

Lemma list_eqb_eq : forall a b, list_eqb a b = true -> a = b.
Proof.
  induction a as [|x a IH]; intros [|y b] H; try discriminate; [reflexivity|].
  cbn [list_eqb] in H. apply andb_prop in H as (H1 & H2). f_equal; [lia|now apply IH].
Qed.

Lemma memz_in : forall x l, memz x l = true <-> In x l.
Proof.
  intros x l. unfold memz. rewrite existsb_exists. split.
  - intros (y & Hy & E). assert (x = y) by lia. now subst.
  - intros H. exists x. split; [exact H|lia].
Qed.

Lemma nthz_one_to : forall n k d, 0 <= k < n -> nthz k (one_to n) d = k + 1.
Proof.
  intros n k d H. unfold one_to.
  rewrite (nthz_map (fun k => k + 1) (zrange n) k 0) by (unfold zlen; rewrite zrange_length; lia).
  now rewrite nthz_zrange.
Qed.

Lemma zlen_one_to : forall n, 0 <= n -> zlen (one_to n) = n.
Proof. intros n H. unfold one_to, zlen. rewrite map_length, zrange_length. lia. Qed.

Lemma zlen_nonneg {A} : forall (l : list A), 0 <= zlen l.
Proof. intros. unfold zlen. lia. Qed.

Ltac split_andb :=
  repeat match goal with
         | H : _ && _ = true |- _ => apply andb_prop in H; destruct H
         end.

(* ------------------------------------------------------------------ *)
(* structure of seg_plane                                               *)
(* ------------------------------------------------------------------ *)
Definition stretch (c : cfg) (x : Z) : Z :=
  match ty c with FRACTIONAL => x * maxfrac c | _ => x end.

Lemma seg_plane_label0 : forall c b qs j, seg_plane c (CLabel b qs) 0 j = nthz j qs [].
Proof. reflexivity. Qed.

Lemma seg_plane_len : forall c a s j,
  zlen (seg_plane c a s j) =
  match a with CLabel _ ps => zlen (nthz j ps []) | CStack _ ps => zlen (nthz j ps []) end.
Proof.
  intros c a s j. unfold seg_plane.
  destruct (s =? 0); destruct a as [[|] ps|[|] ps]; cbn zeta;
    try destruct (list_eqb (segs c) [1]); try destruct (ty c); now rewrite ?zlen_map.
Qed.

Lemma seg_plane_Lf : forall c qs s j p, s <> 0 -> 0 <= p < zlen (nthz j qs []) ->
  nthz p (seg_plane c (CLabel true qs) s j) 0
  = u8 (rhe (nthz p (nthz j qs []) 0 * maxfrac c) (den c)).
Proof.
  intros c qs s j p Hs Hp. unfold seg_plane. replace (s =? 0) with false by lia.
  now rewrite (nthz_map _ _ p 0).
Qed.

Lemma seg_plane_Sf : forall c qs s j p, s <> 0 -> 0 <= p < zlen (nthz j qs []) ->
  nthz p (seg_plane c (CStack true qs) s j) 0
  = u8 (rhe (nthz (s - 1) (nthz p (nthz j qs []) []) 0 * maxfrac c) (den c)).
Proof.
  intros c qs s j p Hs Hp. unfold seg_plane. replace (s =? 0) with false by lia.
  now rewrite (nthz_map _ _ p []).
Qed.

Lemma seg_plane_Li : forall c qs s j p, s <> 0 -> 0 <= p < zlen (nthz j qs []) ->
  nthz p (seg_plane c (CLabel false qs) s j) 0
  = stretch c (if list_eqb (segs c) [1] then u8 (nthz p (nthz j qs []) 0)
               else if nthz p (nthz j qs []) 0 =? s then 1 else 0).
Proof.
  intros c qs s j p Hs Hp. unfold seg_plane, stretch. replace (s =? 0) with false by lia.
  cbn zeta.
  destruct (list_eqb (segs c) [1]); destruct (ty c);
    repeat (rewrite (nthz_map _ _ p 0) by (rewrite ?zlen_map; exact Hp)); reflexivity.
Qed.

Lemma seg_plane_Si : forall c qs s j p, s <> 0 -> 0 <= p < zlen (nthz j qs []) ->
  nthz p (seg_plane c (CStack false qs) s j) 0
  = stretch c (u8 (nthz (s - 1) (nthz p (nthz j qs []) []) 0)).
Proof.
  intros c qs s j p Hs Hp. unfold seg_plane, stretch. replace (s =? 0) with false by lia.
  cbn zeta.
  destruct (ty c);
    try (rewrite (nthz_map _ (map _ _) p 0) by (rewrite ?zlen_map; exact Hp));
    rewrite (nthz_map _ _ p []) by exact Hp; reflexivity.
Qed.

(* ------------------------------------------------------------------ *)
(* what _check_and_cast_pixel_array returns                             *)
(* ------------------------------------------------------------------ *)
Definition cast3 (dn : Z) (ps : list (list (list Z))) := map (map (map (cast_float_bin dn))) ps.
Definition cast2 (dn : Z) (ps : list (list Z)) := map (map (cast_float_bin dn)) ps.

Lemma cast_inv : forall c i a, check_and_cast c i = Ok a ->
  match dt c, i, ty c with
  | DBad, _, _ => False
  | DInt, Label ps, _ => a = CLabel false ps
  | DInt, Stack ps, LABELMAP => a = CLabel false (map (map (combine_pixel (segs c))) ps)
  | DInt, Stack ps, _ => a = CStack false ps
  | DFloat, Label ps, FRACTIONAL => a = CLabel true ps
  | DFloat, Stack ps, FRACTIONAL => a = CStack true ps
  | DFloat, Label ps, _ => a = CLabel false (cast2 (den c) ps)
  | DFloat, Stack ps, LABELMAP =>
      a = CLabel false (map (map (combine_pixel (segs c))) (cast3 (den c) ps))
  | DFloat, Stack ps, BINARY => a = CStack false (cast3 (den c) ps)
  end.
Proof.
  intros c i a H. unfold check_and_cast in H.
  destruct (negb (chans_ok i (zlen (segs c)))); [discriminate|].
  destruct (dt c); [| |discriminate].
  - destruct i as [ps|ps].
    + destruct (if list_eqb (segs c) (one_to (zlen (segs c))) then _ else _); [discriminate|].
      destruct (ty c); congruence.
    + destruct (1 <? maxl (all_pixels (Stack ps))); [discriminate|].
      destruct (ty c); try congruence.
      destruct (negb (maxl (all_pixels (Stack ps)) =? 0) && negb (zlen (segs c) =? 1) && overlaps (Stack ps));
        [discriminate|congruence].
  - destruct (existsb _ (all_pixels i)); [discriminate|].
    destruct (ty c) eqn:Et.
    + destruct (existsb _ (all_pixels i)); [discriminate|]. destruct i as [ps|ps]; unfold cast2, cast3; [|congruence].
      match type of H with (if ?b then _ else _) = _ => destruct b end; [discriminate|congruence].
    + destruct i; congruence.
    + destruct (existsb _ (all_pixels i)); [discriminate|]. destruct i as [ps|ps]; unfold cast2, cast3;
      (match type of H with (if ?b then _ else _) = _ => destruct b end; [discriminate|congruence]).
Qed.

(* ------------------------------------------------------------------ *)
(* facts carried by [valid]                                             *)
(* ------------------------------------------------------------------ *)
Definition planes_of (i : input) : Z := n_planes i.

Lemma valid_basic : forall c i, valid c i = true ->
  seg_numbers_ok (ty c) (segs c) = true /\ 1 <= npix c /\ 1 <= nsrc c /\ n_planes i = nsrc c /\
  shape_ok c i = true /\ values_ok c i = true /\
  (ty c = FRACTIONAL -> 0 <= maxfrac c <= 255) /\ (ty c = BINARY -> native c = true).
Proof.
  intros c i H. unfold valid in H. split_andb.
  split; [assumption|]. split; [lia|]. split; [lia|]. split; [lia|].
  split; [assumption|]. split; [assumption|]. split.
  - intros E. rewrite E in *. lia.
  - intros E. rewrite E in *. assumption.
Qed.

Lemma segs_one_to : forall c, seg_numbers_ok (ty c) (segs c) = true -> ty c <> LABELMAP ->
  segs c = one_to (zlen (segs c)).
Proof.
  intros c H Ht. unfold seg_numbers_ok in H. destruct (ty c); try contradiction; now apply list_eqb_eq.
Qed.

Lemma shape_label : forall c ps j, shape_ok c (Label ps) = true -> 0 <= j < zlen ps ->
  zlen (nthz j ps []) = npix c.
Proof.
  intros c ps j H Hj. cbn [shape_ok] in H. rewrite forallb_forall in H.
  specialize (H _ (nthz_in ps j [] Hj)). lia.
Qed.

Lemma shape_stack : forall c ps j, shape_ok c (Stack ps) = true -> 0 <= j < zlen ps ->
  zlen (nthz j ps []) = npix c /\
  forall p, 0 <= p < npix c -> zlen (nthz p (nthz j ps []) []) = zlen (segs c).
Proof.
  intros c ps j H Hj. cbn [shape_ok] in H. rewrite forallb_forall in H.
  specialize (H _ (nthz_in ps j [] Hj)). apply andb_prop in H as (H1 & H2).
  split; [lia|]. intros p Hp. rewrite forallb_forall in H2.
  assert (Hp' : 0 <= p < zlen (nthz j ps [])) by lia.
  specialize (H2 _ (nthz_in _ p [] Hp')). lia.
Qed.

Lemma in_label_pixels : forall (ps : list (list Z)) j p,
  0 <= j < zlen ps -> 0 <= p < zlen (nthz j ps []) -> In (nthz p (nthz j ps []) 0) (concat ps).
Proof.
  intros ps j p Hj Hp. apply in_concat. exists (nthz j ps []). split; now apply nthz_in.
Qed.

Lemma in_stack_pixels : forall (ps : list (list (list Z))) j p k,
  0 <= j < zlen ps -> 0 <= p < zlen (nthz j ps []) -> 0 <= k < zlen (nthz p (nthz j ps []) []) ->
  In (nthz k (nthz p (nthz j ps []) []) 0) (all_pixels (Stack ps)).
Proof.
  intros ps j p k Hj Hp Hk. cbn [all_pixels]. apply in_concat.
  exists (concat (nthz j ps [])). split.
  - apply in_map. now apply nthz_in.
  - apply in_concat. exists (nthz p (nthz j ps []) []). split; now apply nthz_in.
Qed.

Lemma u8_small : forall v, 0 <= v < 256 -> u8 v = v.
Proof. intros v H. unfold u8. lia. Qed.

Lemma cast_bin : forall dn k, 0 < dn -> k = 0 \/ k = dn -> 
  (k = 0 /\ cast_float_bin dn k = 0) \/ (k = dn /\ cast_float_bin dn k = 1).
Proof.
  intros dn k Hd [-> | ->]; unfold cast_float_bin; [left|right]; split; auto;
    first [apply Z.div_0_l; lia | apply Z.div_same; lia].
Qed.

Lemma cast_zero : forall dn, cast_float_bin dn 0 = 0.
Proof. intros dn. unfold cast_float_bin. destruct dn; reflexivity. Qed.

(* ------------------------------------------------------------------ *)
(* BINARY and FRACTIONAL: the derived plane is the specification        *)
(* ------------------------------------------------------------------ *)
Definition value_range (c : cfg) (v : Z) : Prop :=
  match ty c with BINARY => v = 0 \/ v = 1 | _ => 0 <= v < 256 end.

Lemma label_int_case : forall c v s k,
  In v (0 :: segs c) -> segs c = one_to (zlen (segs c)) -> 0 <= k < zlen (segs c) -> s = k + 1 ->
  (if list_eqb (segs c) [1] then u8 v else if v =? s then 1 else 0) = (if v =? s then 1 else 0).
Proof.
  intros c v s k Hin Hsegs Hk ->.
  destruct (list_eqb (segs c) [1]) eqn:E1; [|reflexivity].
  apply list_eqb_eq in E1. rewrite E1 in *. unfold zlen in Hk. cbn [length] in Hk.
  assert (k = 0) by lia. subst k.
  destruct Hin as [<- | [<- | []]]; reflexivity.
Qed.

Lemma seg_plane_expected : forall c i a j k p,
  valid c i = true -> check_and_cast c i = Ok a -> ty c <> LABELMAP ->
  0 <= j < nsrc c -> 0 <= k < zlen (segs c) -> 0 <= p < npix c ->
  nthz p (seg_plane c a (nthz k (segs c) 0) j) 0 = expected_pixel c i j p k /\
  value_range c (expected_pixel c i j p k).
Proof.
  intros c i a j k p Hv Ha Ht Hj Hk Hp.
  destruct (valid_basic c i Hv) as (Hsn & Hn & Hns & Hpl & Hsh & Hval & Hmf & _).
  pose proof (segs_one_to c Hsn Ht) as Hsegs.
  assert (Es : nthz k (segs c) 0 = k + 1) by (rewrite Hsegs; apply nthz_one_to; lia).
  apply cast_inv in Ha. unfold values_ok in Hval. unfold expected_pixel, value_range.
  rewrite Es. set (s := k + 1) in *.
  assert (Hs0 : s <> 0) by (subst s; lia). assert (Hs1 : s - 1 = k) by (subst s; lia).
  revert Ha Hval.
  destruct (dt c) eqn:Ed; [| |intros _ Hval; discriminate].
  - (* integer dtypes *)
    destruct i as [ps|ps]; cbn [n_planes] in Hpl.
    + (* label map *)
      intros Ha Hval.
      assert (Ea : a = CLabel false ps) by (destruct (ty c); assumption). clear Ha. subst a.
      pose proof (shape_label c ps j Hsh ltac:(lia)) as Hlen.
      cbn [int_values_ok] in Hval. rewrite forallb_forall in Hval.
      assert (Hin : In (nthz p (nthz j ps []) 0) (0 :: segs c)).
      { apply memz_in. apply Hval. apply in_label_pixels; lia. }
      rewrite seg_plane_Li by lia. unfold stretch.
      rewrite (label_int_case c _ s k Hin Hsegs Hk eq_refl).
      set (v := nthz p (nthz j ps []) 0) in *.
      destruct (ty c) eqn:Et; [| |contradiction]; cbv beta iota zeta.
      * split; [reflexivity|]. destruct (v =? s); auto.
      * specialize (Hmf eq_refl). split; [destruct (v =? s); lia|destruct (v =? s); lia].
    + (* stacked *)
      intros Ha Hval.
      assert (Ea : a = CStack false ps) by (destruct (ty c); [assumption|assumption|contradiction]).
      clear Ha. subst a.
      destruct (shape_stack c ps j Hsh ltac:(lia)) as (Hlen & Hch).
      cbn [int_values_ok] in Hval. apply andb_prop in Hval as (Hval & _).
      rewrite forallb_forall in Hval.
      assert (Hb : binary01 (nthz k (nthz p (nthz j ps []) []) 0) = true).
      { apply Hval. apply in_stack_pixels; try lia. rewrite Hch; lia. }
      rewrite seg_plane_Si by lia. unfold stretch. rewrite Hs1.
      set (v := nthz k (nthz p (nthz j ps []) []) 0) in *.
      assert (Hv01 : v = 0 \/ v = 1) by (unfold binary01 in Hb; lia).
      rewrite u8_small by lia.
      destruct (ty c) eqn:Et; [| |contradiction]; cbv beta iota zeta.
      * split; [reflexivity|exact Hv01].
      * specialize (Hmf eq_refl). split; [reflexivity|nia].
  - (* floating point dtypes *)
    intros Ha Hval. apply andb_prop in Hval as (Hval & Hvals). apply andb_prop in Hval as (Hden & Hone).
    assert (Hd : 0 < den c) by lia.
    destruct i as [ps|ps]; cbn [n_planes is_stack] in *.
    + (* float label array = one segment *)
      pose proof (shape_label c ps j Hsh ltac:(lia)) as Hlen.
      assert (Hone' : list_eqb (segs c) [1] = true).
      { unfold float_label_ok in Hone. cbn [is_stack] in Hone.
        destruct (ty c); [| |congruence]; cbn [is_labelmap] in Hone; now rewrite orb_false_r in Hone. }
      clear Hone. rename Hone' into Hone.
      apply list_eqb_eq in Hone.
      assert (k = 0) by (rewrite Hone in Hk; unfold zlen in Hk; cbn in Hk; lia). subst s. subst k.
      destruct (ty c) eqn:Et; [| |contradiction]; cbv beta iota zeta.
      * (* BINARY *)
        subst a. apply andb_prop in Hvals as (Hbin & _). rewrite forallb_forall in Hbin.
        assert (Hv0 : let v := nthz p (nthz j ps []) 0 in v = 0 \/ v = den c).
        { cbv zeta. specialize (Hbin _ (in_label_pixels ps j p ltac:(lia) ltac:(lia))). lia. }
        cbv zeta in Hv0.
        rewrite seg_plane_Li by first [lia | unfold cast2; rewrite (nthz_map _ _ j []), zlen_map by lia; lia].
        unfold stretch. rewrite Et, Hone. cbn [list_eqb Z.eqb andb Pos.eqb].
        unfold cast2. rewrite (nthz_map _ _ j []) by lia. rewrite (nthz_map _ _ p 0) by lia.
        destruct (cast_bin (den c) _ Hd Hv0) as [(E0 & E1) | (E0 & E1)]; rewrite E1;
          unfold cast_float_bin in E1; rewrite E1; split; auto.
      * (* FRACTIONAL *)
        subst a. specialize (Hmf eq_refl). rewrite forallb_forall in Hvals.
        specialize (Hvals _ (in_label_pixels ps j p ltac:(lia) ltac:(lia))).
        rewrite seg_plane_Lf by lia.
        set (v := nthz p (nthz j ps []) 0) in *.
        pose proof (rhe_range (v * maxfrac c) (den c) (maxfrac c) Hd ltac:(lia) ltac:(nia)) as Hr.
        rewrite u8_small by lia. split; [reflexivity|lia].
    + (* float stacked *)
      destruct (shape_stack c ps j Hsh ltac:(lia)) as (Hlen & Hch).
      destruct (ty c) eqn:Et; [| |contradiction]; cbv beta iota zeta.
      * (* BINARY *)
        subst a. apply andb_prop in Hvals as (Hbin & _). rewrite forallb_forall in Hbin.
        assert (Hv0 : let v := nthz k (nthz p (nthz j ps []) []) 0 in v = 0 \/ v = den c).
        { cbv zeta. specialize (Hbin _ (in_stack_pixels ps j p k ltac:(lia) ltac:(lia) ltac:(rewrite Hch; lia))). lia. }
        cbv zeta in Hv0.
        rewrite seg_plane_Si by first [lia | unfold cast3; rewrite (nthz_map _ _ j []), zlen_map by lia; lia].
        unfold stretch. rewrite Et, Hs1.
        unfold cast3. rewrite (nthz_map _ _ j []) by lia. rewrite (nthz_map _ _ p []) by lia.
        rewrite (nthz_map _ _ k 0) by (rewrite Hch; lia).
        destruct (cast_bin (den c) _ Hd Hv0) as [(E0 & E1) | (E0 & E1)]; rewrite E1;
          unfold cast_float_bin in E1; rewrite E1; split; auto.
      * (* FRACTIONAL *)
        subst a. specialize (Hmf eq_refl). rewrite forallb_forall in Hvals.
        specialize (Hvals _ (in_stack_pixels ps j p k ltac:(lia) ltac:(lia) ltac:(rewrite Hch; lia))).
        rewrite seg_plane_Sf by lia. rewrite Hs1.
        set (v := nthz k (nthz p (nthz j ps []) []) 0) in *.
        pose proof (rhe_range (v * maxfrac c) (den c) (maxfrac c) Hd ltac:(lia) ltac:(nia)) as Hr.
        rewrite u8_small by lia. split; [reflexivity|lia].
Qed.

(* ------------------------------------------------------------------ *)
(* LABELMAP: remapping and one-hot expansion                            *)
(* ------------------------------------------------------------------ *)
Lemma remap_from_bound : forall l i v, remap_from i v l = 0 \/ i <= remap_from i v l.
Proof.
  induction l as [|x t IH]; intros i v; cbn [remap_from]; [now left|].
  destruct (x =? v); [right; lia|]. destruct (IH (i + 1) v); [now left|right; lia].
Qed.

Lemma nthz_cons {A} : forall (x : A) t k d, 0 < k -> nthz k (x :: t) d = nthz (k - 1) t d.
Proof.
  intros x t k d Hk. unfold nthz. replace (Z.to_nat k) with (S (Z.to_nat (k - 1))) by lia. reflexivity.
Qed.

Lemma remap_spec : forall l i v k, 1 <= i -> NoDup l -> 0 <= k < zlen l ->
  (remap_from i v l =? i + k) = (v =? nthz k l 0).
Proof.
  induction l as [|x t IH]; intros i v k Hi Hnd Hk; [unfold zlen in Hk; cbn in Hk; lia|].
  inversion Hnd as [|? ? Hnx Hnt]; subst.
  assert (Hlt : zlen (x :: t) = zlen t + 1) by (unfold zlen; cbn [length]; lia).
  cbn [remap_from]. destruct (x =? v) eqn:E.
  - assert (x = v) by lia. subst v.
    destruct (Z.eq_dec k 0) as [-> | Hk0].
    + change (nthz 0 (x :: t) 0) with x. lia.
    + rewrite nthz_cons by lia.
      assert (Hin : In (nthz (k - 1) t 0) t) by (apply nthz_in; lia).
      assert (nthz (k - 1) t 0 <> x) by (intros Eq; rewrite Eq in Hin; contradiction). lia.
  - destruct (Z.eq_dec k 0) as [-> | Hk0].
    + change (nthz 0 (x :: t) 0) with x. destruct (remap_from_bound t (i + 1) v); lia.
    + rewrite nthz_cons by lia. rewrite <- (IH (i + 1) v (k - 1)) by (auto; lia).
      f_equal. lia.
Qed.

Lemma strictly_asc_lb : forall l a, strictly_asc (a :: l) = true -> forall x, In x l -> a < x.
Proof.
  induction l as [|b l IH]; intros a H x Hx; [contradiction|].
  cbn [strictly_asc] in H. apply andb_prop in H as (H1 & H2).
  destruct Hx as [<- | Hx]; [lia|]. specialize (IH b H2 x Hx). lia.
Qed.

Lemma strictly_asc_NoDup : forall l, strictly_asc l = true -> NoDup l.
Proof.
  induction l as [|a l IH]; intros H; [constructor|].
  constructor.
  - intros Hin. pose proof (strictly_asc_lb l a H a Hin). lia.
  - apply IH. destruct l; [reflexivity|]. cbn [strictly_asc] in H. now apply andb_prop in H as (_ & H).
Qed.

Lemma NoDup_zrange : forall n, NoDup (zrange n).
Proof.
  intros n. unfold zrange. apply NoDup_map_inj; [|apply seq_NoDup]. intros x y _ _ H. lia.
Qed.

Lemma NoDup_one_to : forall n, NoDup (one_to n).
Proof.
  intros n. unfold one_to. apply NoDup_map_inj; [|apply NoDup_zrange]. intros x y _ _ H. lia.
Qed.

Lemma segs_facts : forall c, seg_numbers_ok (ty c) (segs c) = true ->
  NoDup (segs c) /\ (forall s, In s (segs c) -> 1 <= s) /\
  (ty c = LABELMAP -> forall s, In s (segs c) -> s <= 65535).
Proof.
  intros c H. unfold seg_numbers_ok in H.
  assert (Hone : list_eqb (segs c) (one_to (zlen (segs c))) = true ->
                 NoDup (segs c) /\ (forall s, In s (segs c) -> 1 <= s)).
  { intros E. apply list_eqb_eq in E. rewrite E. split; [apply NoDup_one_to|].
    intros s Hs. unfold one_to in Hs. apply in_map_iff in Hs as (k & <- & Hk). apply in_zrange in Hk. lia. }
  destruct (ty c) eqn:Et.
  - destruct (Hone H) as (H1 & H2). repeat split; auto. discriminate.
  - destruct (Hone H) as (H1 & H2). repeat split; auto. discriminate.
  - apply andb_prop in H as (Hr & Hasc). rewrite forallb_forall in Hr.
    split; [now apply strictly_asc_NoDup|]. split.
    + intros s Hs. specialize (Hr s Hs). lia.
    + intros _ s Hs. specialize (Hr s Hs). lia.
Qed.

(* ------------------------------------------------------------------ *)
(* _combine_segments on binary, non-overlapping channels                *)
(* ------------------------------------------------------------------ *)
Definition bin (v : Z) : Prop := v = 0 \/ v = 1.

Lemma zlen_cons {A} : forall (x : A) t, zlen (x :: t) = zlen t + 1.
Proof. intros. unfold zlen. cbn [length]. lia. Qed.

Lemma nthz_0 {A} : forall (x : A) t d, nthz 0 (x :: t) d = x.
Proof. reflexivity. Qed.

Lemma sum_nonneg : forall l, Forall bin l -> 0 <= sum l.
Proof.
  induction l as [|x t IH]; intros H; cbn [sum fold_right]; [lia|].
  inversion H as [|? ? Hx Ht]; subst. specialize (IH Ht). unfold sum in IH. destruct Hx; lia.
Qed.

Lemma sum_ge_nth : forall l k, Forall bin l -> 0 <= k < zlen l -> nthz k l 0 <= sum l.
Proof.
  induction l as [|x t IH]; intros k H Hk; [unfold zlen in Hk; cbn in Hk; lia|].
  inversion H as [|? ? Hx Ht]; subst. rewrite zlen_cons in Hk.
  pose proof (sum_nonneg t Ht) as Hs. change (sum (x :: t)) with (x + sum t).
  destruct (Z.eq_dec k 0) as [-> | Hk0].
  - rewrite nthz_0. destruct Hx; lia.
  - rewrite nthz_cons by lia. specialize (IH (k - 1) Ht ltac:(lia)). destruct Hx; lia.
Qed.

Lemma all_zero_nth : forall l k, all_zero l = true -> nthz k l 0 = 0.
Proof.
  intros l k H. unfold all_zero in H. rewrite forallb_forall in H.
  unfold nthz. destruct (nth_in_or_default (Z.to_nat k) l 0) as [Hin | ->]; [|reflexivity].
  specialize (H _ Hin). lia.
Qed.

Lemma sum_zero_all_zero : forall l, Forall bin l -> sum l <= 0 -> all_zero l = true.
Proof.
  induction l as [|x t IH]; intros H Hs; [reflexivity|].
  inversion H as [|? ? Hx Ht]; subst. change (sum (x :: t)) with (x + sum t) in Hs.
  pose proof (sum_nonneg t Ht). cbn [all_zero forallb].
  assert (x = 0) by (destruct Hx; lia). subst x. cbn [Z.eqb andb]. apply IH; [exact Ht|lia].
Qed.

Lemma one_unique : forall l m k, Forall bin l -> sum l <= 1 ->
  0 <= m < zlen l -> 0 <= k < zlen l -> nthz m l 0 = 1 -> nthz k l 0 = 1 -> m = k.
Proof.
  induction l as [|x t IH]; intros m k H Hs Hm Hk Em Ek; [unfold zlen in Hm; cbn in Hm; lia|].
  inversion H as [|? ? Hx Ht]; subst. rewrite zlen_cons in *.
  change (sum (x :: t)) with (x + sum t) in Hs. pose proof (sum_nonneg t Ht) as Hn.
  destruct (Z.eq_dec m 0) as [-> | Hm0]; destruct (Z.eq_dec k 0) as [-> | Hk0]; [reflexivity| | |].
  - rewrite nthz_0 in Em. rewrite nthz_cons in Ek by lia.
    pose proof (sum_ge_nth t (k - 1) Ht ltac:(lia)). lia.
  - rewrite nthz_0 in Ek. rewrite nthz_cons in Em by lia.
    pose proof (sum_ge_nth t (m - 1) Ht ltac:(lia)). lia.
  - rewrite nthz_cons in Em, Ek by lia.
    assert (m - 1 = k - 1); [|lia].
    apply IH; auto; try lia. destruct Hx; lia.
Qed.

Lemma maxl_all_zero : forall l, all_zero l = true -> maxl l = 0.
Proof.
  induction l as [|x t IH]; intros H; [reflexivity|].
  cbn [all_zero forallb] in H. apply andb_prop in H as (Hx & Ht).
  change (maxl (x :: t)) with (Z.max x (maxl t)). rewrite (IH Ht). lia.
Qed.

Lemma maxl_bin_one : forall l k, Forall bin l -> 0 <= k < zlen l -> nthz k l 0 = 1 -> maxl l = 1.
Proof.
  induction l as [|x t IH]; intros k H Hk E; [unfold zlen in Hk; cbn in Hk; lia|].
  inversion H as [|? ? Hx Ht]; subst. rewrite zlen_cons in Hk.
  change (maxl (x :: t)) with (Z.max x (maxl t)).
  assert (Hmt : maxl t = 0 \/ maxl t = 1).
  { clear - Ht. induction t as [|y t IHt]; [now left|]. inversion Ht as [|? ? Hy Ht']; subst.
    change (maxl (y :: t)) with (Z.max y (maxl t)). destruct (IHt Ht'), Hy; lia. }
  destruct (Z.eq_dec k 0) as [-> | Hk0].
  - rewrite nthz_0 in E. subst x. destruct Hmt; lia.
  - rewrite nthz_cons in E by lia. rewrite (IH (k - 1) Ht ltac:(lia) E). destruct Hx; lia.
Qed.

Lemma argmax_from_spec : forall l i best bi, Forall bin l -> bin best -> best + sum l <= 1 ->
  (all_zero l = true /\ argmax_from i best bi l = bi) \/
  (exists m, 0 <= m < zlen l /\ nthz m l 0 = 1 /\ argmax_from i best bi l = i + m /\ best = 0).
Proof.
  induction l as [|x t IH]; intros i best bi H Hb Hs; [left; split; reflexivity|].
  inversion H as [|? ? Hx Ht]; subst. change (sum (x :: t)) with (x + sum t) in Hs.
  pose proof (sum_nonneg t Ht) as Hn. cbn [argmax_from]. rewrite zlen_cons.
  destruct Hx as [-> | ->].
  - replace (best <? 0) with false by (destruct Hb; lia).
    destruct (IH (i + 1) best bi Ht Hb ltac:(lia)) as [(Hz & E) | (m & Hm & Em & E & Eb)].
    + left. split; [exact Hz|exact E].
    + right. exists (m + 1). repeat split; try lia.
      rewrite nthz_cons by lia. replace (m + 1 - 1) with m by lia. exact Em.
  - assert (best = 0) by (destruct Hb; lia). subst best. change (0 <? 1) with true. cbn match.
    destruct (IH (i + 1) 1 i Ht ltac:(now right) ltac:(lia)) as [(Hz & E) | (m & _ & _ & _ & Eb)]; [|lia].
    right. exists 0. pose proof (zlen_nonneg t). repeat split; try lia.
Qed.

(* the value computed by _combine_segments before the segment-number mapping *)
Lemma combine_position : forall ch, Forall bin ch -> sum ch <= 1 ->
  let v := if zlen ch =? 1 then nthz 0 ch 0 else (argmax ch + 1) * maxl ch in
  (all_zero ch = true /\ v = 0) \/ (exists m, 0 <= m < zlen ch /\ nthz m ch 0 = 1 /\ v = m + 1).
Proof.
  intros ch H Hs v. subst v.
  destruct ch as [|x t]; [left; split; reflexivity|].
  inversion H as [|? ? Hx Ht]; subst. change (sum (x :: t)) with (x + sum t) in Hs.
  pose proof (sum_nonneg t Ht) as Hn. pose proof (zlen_nonneg t) as Hzl.
  destruct (zlen (x :: t) =? 1) eqn:E1.
  - rewrite nthz_0. destruct t; [|rewrite !zlen_cons in E1; pose proof (zlen_nonneg t); lia].
    destruct Hx as [-> | ->]; [left; split; reflexivity|].
    right. exists 0. rewrite zlen_cons. unfold zlen. cbn [length]. repeat split; lia.
  - unfold argmax. rewrite zlen_cons.
    destruct (argmax_from_spec t 1 x 0 Ht Hx Hs) as [(Hz & E) | (m & Hm & Em & E & Eb)]; rewrite E.
    + destruct Hx as [-> | ->].
      * left. assert (Ha : all_zero (0 :: t) = true) by (cbn [all_zero forallb Z.eqb andb]; exact Hz).
        split; [exact Ha|]. rewrite (maxl_all_zero _ Ha). lia.
      * right. exists 0. rewrite nthz_0. repeat split; try lia.
        change (maxl (1 :: t)) with (Z.max 1 (maxl t)). rewrite (maxl_all_zero _ Hz). lia.
    + subst x. right. exists (m + 1). repeat split; try lia.
      * rewrite nthz_cons by lia. replace (m + 1 - 1) with m by lia. exact Em.
      * assert (Hm1 : maxl (0 :: t) = 1).
        { apply (maxl_bin_one (0 :: t) (m + 1) H); [rewrite zlen_cons; lia|].
          rewrite nthz_cons by lia. replace (m + 1 - 1) with m by lia. exact Em. }
        rewrite Hm1. lia.
Qed.

Lemma NoDup_nthz : forall (l : list Z) m k, NoDup l -> 0 <= m < zlen l -> 0 <= k < zlen l ->
  nthz m l 0 = nthz k l 0 -> m = k.
Proof.
  intros l m k Hnd Hm Hk E. unfold nthz, zlen in *.
  assert (Z.to_nat m = Z.to_nat k); [|lia].
  apply (proj1 (NoDup_nth l 0) Hnd); [lia|lia|exact E].
Qed.

(* combine + segment-number mapping gives a described label (or 0) whose
   one-hot expansion is the input channel *)
Lemma combine_label : forall sg ch, Forall bin ch -> sum ch <= 1 -> zlen ch = zlen sg ->
  NoDup sg -> (forall s, In s sg -> 1 <= s) ->
  let L := combine_pixel sg ch in
  In L (0 :: sg) /\ forall k, 0 <= k < zlen sg -> (L =? nthz k sg 0) = (nthz k ch 0 =? 1).
Proof.
  intros sg ch Hb Hs Hlen Hnd Hpos L. subst L. unfold combine_pixel.
  pose proof (combine_position ch Hb Hs) as Hv. cbv zeta in Hv.
  set (v := if zlen ch =? 1 then nthz 0 ch 0 else (argmax ch + 1) * maxl ch) in *.
  assert (HL : (if list_eqb sg (one_to (zlen sg)) then v else nthz v (0 :: sg) 0) = nthz v (0 :: sg) 0).
  { destruct (list_eqb sg (one_to (zlen sg))) eqn:E; [|reflexivity]. apply list_eqb_eq in E.
    destruct Hv as [(_ & ->) | (m & Hm & _ & ->)]; [reflexivity|].
    rewrite nthz_cons by lia. replace (m + 1 - 1) with m by lia.
    rewrite E. rewrite nthz_one_to by lia. reflexivity. }
  rewrite HL. clear HL.
  destruct Hv as [(Hz & ->) | (m & Hm & Em & ->)].
  - rewrite nthz_0. split; [now left|]. intros k Hk.
    rewrite (all_zero_nth ch k Hz).
    assert (1 <= nthz k sg 0) by (apply Hpos; apply nthz_in; lia). lia.
  - rewrite nthz_cons by lia. replace (m + 1 - 1) with m by lia.
    split; [right; apply nthz_in; lia|]. intros k Hk.
    destruct (Z.eq_dec k m) as [-> | Hkm].
    + rewrite Em. lia.
    + assert (nthz m sg 0 <> nthz k sg 0).
      { intros E. apply Hkm. symmetry. apply (NoDup_nthz sg m k Hnd); lia. }
      assert (nthz k ch 0 <> 1).
      { intros E. apply Hkm. symmetry. apply (one_unique ch m k Hb Hs); lia. }
      lia.
Qed.

(* ------------------------------------------------------------------ *)
(* LABELMAP: the stored label plane expands to the specification        *)
(* ------------------------------------------------------------------ *)
Lemma onehot_label : forall sg L k, NoDup sg -> 0 <= k < zlen sg ->
  (if remap_from 1 L sg =? k + 1 then 1 else 0) = (if L =? nthz k sg 0 then 1 else 0).
Proof.
  intros sg L k Hnd Hk. replace (k + 1) with (1 + k) by lia.
  now rewrite (remap_spec sg 1 L k ltac:(lia) Hnd Hk).
Qed.

Lemma stack_label_core : forall sg (qs : list (list (list Z))) j p n,
  forallb binary01 (all_pixels (Stack qs)) = true -> overlaps (Stack qs) = false ->
  0 <= j < zlen qs -> zlen (nthz j qs []) = n -> 0 <= p < n ->
  zlen (nthz p (nthz j qs []) []) = zlen sg ->
  NoDup sg -> (forall s, In s sg -> 1 <= s) ->
  let ch := nthz p (nthz j qs []) [] in
  let L := combine_pixel sg ch in
  In L (0 :: sg) /\
  forall k, 0 <= k < zlen sg -> (if remap_from 1 L sg =? k + 1 then 1 else 0) = nthz k ch 0.
Proof.
  intros sg qs j p n Hbin Hov Hj Hlen Hp Hch Hnd Hpos ch L.
  rewrite forallb_forall in Hbin.
  assert (Hin_ch : In ch (nthz j qs [])) by (apply nthz_in; lia).
  assert (Hin_pl : In (nthz j qs []) qs) by (apply nthz_in; lia).
  assert (Hb : Forall bin ch).
  { apply Forall_forall. intros x Hx.
    assert (Hx' : In x (all_pixels (Stack qs))).
    { cbn [all_pixels]. apply in_concat. exists (concat (nthz j qs [])). split; [now apply in_map|].
      apply in_concat. now exists ch. }
    specialize (Hbin x Hx'). unfold binary01 in Hbin. unfold bin. lia. }
  assert (Hs : sum ch <= 1).
  { cbn [overlaps] in Hov.
    destruct (1 <? sum ch) eqn:E; [|lia]. exfalso.
    assert (existsb (existsb (fun ch0 => 1 <? sum ch0)) qs = true); [|congruence].
    apply existsb_exists. exists (nthz j qs []). split; [exact Hin_pl|].
    apply existsb_exists. exists ch. split; [exact Hin_ch|exact E]. }
  destruct (combine_label sg ch Hb Hs Hch Hnd Hpos) as (HL & Hk). fold L in HL, Hk.
  split; [exact HL|]. intros k Hkr. rewrite onehot_label by assumption. rewrite (Hk k Hkr).
  assert (Hbk : bin (nthz k ch 0)).
  { rewrite Forall_forall in Hb. apply Hb. apply nthz_in. unfold ch. lia. }
  destruct Hbk as [-> | ->]; reflexivity.
Qed.

Lemma label_plane_expected : forall c i a j p,
  valid c i = true -> check_and_cast c i = Ok a -> ty c = LABELMAP ->
  0 <= j < nsrc c -> 0 <= p < npix c ->
  let L := nthz p (seg_plane c a 0 j) 0 in
  In L (0 :: segs c) /\
  forall k, 0 <= k < zlen (segs c) ->
    (if remap_from 1 L (segs c) =? k + 1 then 1 else 0) = expected_pixel c i j p k.
Proof.
  intros c i a j p Hv Ha Et Hj Hp.
  destruct (valid_basic c i Hv) as (Hsn & Hn & Hns & Hpl & Hsh & Hval & _ & _).
  destruct (segs_facts c Hsn) as (Hnd & Hpos & _).
  apply cast_inv in Ha. unfold values_ok in Hval. unfold expected_pixel.
  revert Ha Hval. rewrite Et.
  destruct (dt c) eqn:Ed; [| |intros _ Hval; discriminate].
  - destruct i as [ps|ps]; cbn [n_planes] in Hpl; intros Ha Hval; subst a; cbv beta iota zeta.
    + (* integer label map *)
      pose proof (shape_label c ps j Hsh ltac:(lia)) as Hlen.
      cbn [int_values_ok] in Hval. rewrite forallb_forall in Hval.
      rewrite seg_plane_label0.
      split; [apply memz_in; apply Hval; apply in_label_pixels; lia|].
      intros k Hk. now apply onehot_label.
    + (* integer stack *)
      destruct (shape_stack c ps j Hsh ltac:(lia)) as (Hlen & Hch).
      cbn [int_values_ok] in Hval. apply andb_prop in Hval as (Hb & Hov).
      rewrite seg_plane_label0.
      rewrite (nthz_map _ _ j []) by lia. rewrite (nthz_map _ _ p []) by lia.
      apply (stack_label_core (segs c) ps j p (npix c)); auto; try lia.
      destruct (overlaps (Stack ps)); [discriminate|reflexivity].
  - intros Ha Hval. apply andb_prop in Hval as (Hval & Hvals). apply andb_prop in Hval as (Hden & Hone).
    assert (Hd : 0 < den c) by lia. apply andb_prop in Hvals as (Hfb & Hint).
    destruct i as [ps|ps]; cbn [n_planes is_stack cast_in] in *; subst a; cbv beta iota zeta.
    + (* float label array *)
      pose proof (shape_label c ps j Hsh ltac:(lia)) as Hlen.
      cbn [int_values_ok] in Hint. rewrite forallb_forall in Hint.
      rewrite seg_plane_label0. unfold cast2.
      assert (HL : In (nthz p (nthz j (map (map (cast_float_bin (den c))) ps) []) 0) (0 :: segs c)).
      { apply memz_in. apply Hint. apply in_label_pixels.
        - rewrite zlen_map. lia.
        - rewrite (nthz_map _ _ j []), zlen_map by lia. lia. }
      split; [exact HL|]. intros k Hk. rewrite onehot_label by assumption.
      rewrite (nthz_map _ _ j []) by lia. rewrite (nthz_map _ _ p 0) by lia. reflexivity.
    + (* float stack *)
      destruct (shape_stack c ps j Hsh ltac:(lia)) as (Hlen & Hch).
      cbn [int_values_ok] in Hint. apply andb_prop in Hint as (Hb & Hov).
      rewrite seg_plane_label0. fold (cast3 (den c) ps) in Hb, Hov.
      rewrite (nthz_map _ _ j []) by (unfold cast3; rewrite zlen_map; lia).
      rewrite (nthz_map _ _ p []) by (unfold cast3; rewrite (nthz_map _ _ j []), zlen_map by lia; lia).
      assert (Hcore := stack_label_core (segs c) (cast3 (den c) ps) j p (npix c) Hb).
      assert (Hch' : nthz p (nthz j (cast3 (den c) ps) []) [] = map (cast_float_bin (den c)) (nthz p (nthz j ps []) [])).
      { unfold cast3. rewrite (nthz_map _ _ j []) by lia. now rewrite (nthz_map _ _ p []) by lia. }
      destruct Hcore as (HL & Hk); auto.
      * destruct (overlaps (Stack (cast3 (den c) ps))); [discriminate|reflexivity].
      * unfold cast3. rewrite zlen_map. lia.
      * unfold cast3. rewrite (nthz_map _ _ j []), zlen_map by lia. exact Hlen.
      * rewrite Hch', zlen_map. now apply Hch.
      * split; [exact HL|]. intros k Hkr. rewrite (Hk k Hkr). rewrite Hch'.
        rewrite (nthz_map _ _ k 0) by (rewrite Hch; lia). reflexivity.
Qed.

(* ------------------------------------------------------------------ *)
(* shape and range of every derived plane: frame_ok                     *)
(* ------------------------------------------------------------------ *)
Lemma seg_plane_zlen : forall c i a s j,
  valid c i = true -> check_and_cast c i = Ok a -> 0 <= j < nsrc c ->
  zlen (seg_plane c a s j) = npix c.
Proof.
  intros c i a s j Hv Ha Hj.
  destruct (valid_basic c i Hv) as (_ & _ & _ & Hpl & Hsh & Hval & _ & _).
  apply cast_inv in Ha. rewrite seg_plane_len. unfold values_ok in Hval. revert Ha Hval.
  destruct (dt c); [| |intros _ Hval; discriminate]; destruct i as [ps|ps]; cbn [n_planes] in Hpl;
    intros Ha _.
  - assert (a = CLabel false ps) by (destruct (ty c); assumption). subst a.
    apply (shape_label c ps j Hsh). lia.
  - destruct (shape_stack c ps j Hsh ltac:(lia)) as (Hlen & _).
    destruct (ty c); subst a; try exact Hlen.
    rewrite (nthz_map _ _ j []) by lia. now rewrite zlen_map.
  - pose proof (shape_label c ps j Hsh ltac:(lia)) as Hlen.
    destruct (ty c); subst a; try exact Hlen;
      unfold cast2; rewrite (nthz_map _ _ j []) by lia; now rewrite zlen_map.
  - destruct (shape_stack c ps j Hsh ltac:(lia)) as (Hlen & _).
    destruct (ty c); subst a; try exact Hlen; unfold cast3.
    + rewrite (nthz_map _ _ j []) by lia. now rewrite zlen_map.
    + rewrite (nthz_map _ _ j []) by (rewrite zlen_map; lia). rewrite zlen_map.
      rewrite (nthz_map _ _ j []) by lia. now rewrite zlen_map.
Qed.

Lemma Forall_nthz : forall (P : Z -> Prop) l n, zlen l = n ->
  (forall p, 0 <= p < n -> P (nthz p l 0)) -> Forall P l.
Proof.
  intros P l n Hn H. apply Forall_forall. intros x Hx.
  destruct (In_nth l x 0 Hx) as (k & Hk & <-).
  specialize (H (Z.of_nat k) ltac:(unfold zlen in Hn; lia)). unfold nthz in H.
  now rewrite Nat2Z.id in H.
Qed.

Lemma in_nthz : forall (l : list Z) x, In x l -> exists k, 0 <= k < zlen l /\ nthz k l 0 = x.
Proof.
  intros l x Hx. destruct (In_nth l x 0 Hx) as (k & Hk & E).
  exists (Z.of_nat k). unfold zlen, nthz. rewrite Nat2Z.id. split; [lia|exact E].
Qed.

Lemma maxl_ge : forall l x, In x l -> x <= maxl l.
Proof.
  induction l as [|y t IH]; intros x Hx; [contradiction|].
  change (maxl (y :: t)) with (Z.max y (maxl t)). destruct Hx as [-> | Hx]; [lia|].
  specialize (IH x Hx). lia.
Qed.

(* residue 2: stored values fit the allocated bits *)
Theorem frame_ok_valid : forall c i a s j,
  valid c i = true -> check_and_cast c i = Ok a -> In s (seg_iter c) -> 0 <= j < nsrc c ->
  frame_ok c (seg_plane c a s j).
Proof.
  intros c i a s j Hv Ha Hs Hj. unfold frame_ok.
  split; [now apply (seg_plane_zlen c i)|].
  pose proof (seg_plane_zlen c i a s j Hv Ha Hj) as Hlen.
  destruct (valid_basic c i Hv) as (Hsn & _).
  destruct (segs_facts c Hsn) as (_ & Hpos & Hub).
  unfold seg_iter in Hs. unfold bits_alloc.
  destruct (ty c) eqn:Et.
  - destruct (in_nthz _ _ Hs) as (k & Hk & <-).
    apply (Forall_nthz _ _ (npix c) Hlen). intros p Hp.
    destruct (seg_plane_expected c i a j k p Hv Ha ltac:(congruence) Hj Hk Hp) as (-> & Hr).
    unfold value_range in Hr. now rewrite Et in Hr.
  - destruct (in_nthz _ _ Hs) as (k & Hk & <-).
    apply (Forall_nthz _ _ (npix c) Hlen). intros p Hp.
    destruct (seg_plane_expected c i a j k p Hv Ha ltac:(congruence) Hj Hk Hp) as (-> & Hr).
    unfold value_range in Hr. now rewrite Et in Hr.
  - destruct Hs as [<- | []].
    specialize (Hub eq_refl).
    assert (HL : forall p, 0 <= p < npix c ->
                 0 <= nthz p (seg_plane c a 0 j) 0 <= 65535 /\ nthz p (seg_plane c a 0 j) 0 <= maxl (segs c)).
    { intros p Hp. destruct (label_plane_expected c i a j p Hv Ha Et Hj Hp) as (HL & _).
      cbv zeta in HL. destruct HL as [<- | HL].
      - split; [lia|]. clear. induction (segs c) as [|y t IH]; [cbn; lia|].
        change (maxl (y :: t)) with (Z.max y (maxl t)). lia.
      - specialize (Hpos _ HL). specialize (Hub _ HL). pose proof (maxl_ge _ _ HL). lia. }
    destruct (maxl (segs c) <? 256) eqn:E8.
    + apply (Forall_nthz _ _ (npix c) Hlen). intros p Hp. destruct (HL p Hp). lia.
    + apply (Forall_nthz _ _ (npix c) Hlen). intros p Hp. destruct (HL p Hp). lia.
Qed.
