(* C02 - model of the read-side segment selection of highdicom.seg.Segmentation.
   Mirrors (src/highdicom):
     seg/sop.py  _get_unsigned_dtype, _check_numpy_value_representation,
                 _get_pixels_by_seg_frame (LABELMAP remap / one-hot branch,
                 BINARY/FRACTIONAL combine loop, stacked + rescale branch),
                 _get_segment_remap_values, the argument checks and the
                 missing-frame policies of get_pixels_by_source_instance /
                 get_pixels_by_source_frame / get_pixels_by_dimension_index_values /
                 get_volume / get_total_pixel_matrix,
                 segment_numbers, get_segment_numbers, get_tracking_ids
     image.py    _prepare_channel_tables + the join of _iterate_indices_for_stack
                 (as a list comprehension), _get_pixels_by_frame (as a gather)
   The stored object is abstract: a list of frames, each with a plane key
   (source instance / source frame number / dimension index tuple / volume
   position / tile, encoded as Z by the harness), the referenced segment number
   (ignored for LABELMAP) and the stored pixel values.
   NO proofs in this file. *)
From Coq Require Import String ZArith List Bool QArith.
From HD Require Import Base.Val.
Import ListNotations.
Open Scope Z_scope.

(* ------------------------------------------------------------------ *)
(* dtypes                                                               *)
Inductive segtype := BINARY | FRACTIONAL | LABELMAP.
Inductive dtype := DBool | DU (w : Z) | DI (w : Z) | DF (w : Z) | DOther.

Definition segtype_eqb (a b : segtype) : bool :=
  match a, b with BINARY, BINARY | FRACTIONAL, FRACTIONAL | LABELMAP, LABELMAP => true | _, _ => false end.

(* largest value v such that every integer 0..v is exactly representable:
   np.iinfo(d).max, 2 ** (np.finfo(d).nmant + 1) for floats, 1 for bool
   (_check_numpy_value_representation) *)
Definition mant (w : Z) : Z := if w =? 16 then 11 else if w =? 32 then 24 else 53.
Definition dtype_max (d : dtype) : Z :=
  match d with
  | DBool => 1
  | DU w => 2 ^ w - 1
  | DI w => 2 ^ (w - 1) - 1
  | DF w => 2 ^ mant w
  | DOther => 0
  end.

Definition is_float (d : dtype) : bool := match d with DF _ => true | _ => false end.
Definition kind_ok (d : dtype) : bool := match d with DOther => false | _ => true end.

(* round-to-nearest-even of a non-negative integer to p significant bits *)
Definition fround (p v : Z) : Z :=
  if v <? 2 ^ p then v
  else
    let e := Z.log2 v + 1 - p in
    let q := v / 2 ^ e in
    let r := v mod 2 ^ e in
    let half := 2 ^ (e - 1) in
    let q' := if r <? half then q else if half <? r then q + 1 else if Z.even q then q else q + 1 in
    q' * 2 ^ e.

(* numpy astype / assignment of a non-negative integer value into dtype d
   (partial application [cast d] computes the modulus once) *)
Definition cast (d : dtype) : Z -> Z :=
  match d with
  | DBool => fun v => if v =? 0 then 0 else 1
  | DU w => let m := 2 ^ w in fun v => v mod m
  | DI w => let m := 2 ^ w in let h := 2 ^ (w - 1) in fun v => (v + h) mod m - h
  | DF w => let p := mant w in fun v => fround p v
  | DOther => fun v => v
  end.

(* _get_unsigned_dtype *)
Definition unsigned_dtype (max_val : Z) : dtype :=
  if max_val <? 256 then DU 8 else if max_val <? 65536 then DU 16 else DU 32.

(* ------------------------------------------------------------------ *)
(* stored object                                                        *)
Record frame := mkFrame { fkey : Z; fseg : Z; fpix : list Z }.

Record stored := mkStored {
  s_ty : segtype;
  s_segs : list Z;        (* Segmentation.segment_numbers (background excluded) *)
  s_bits : Z;             (* BitsStored *)
  s_maxfrac : Z;          (* MaximumFractionalValue *)
  s_npix : Z;             (* Rows * Columns *)
  s_bg : Z;               (* PixelPaddingValue (0 if absent) *)
  s_frames : list frame;
  s_known : list Z        (* keys of the referenced-instance table *)
}.

Record opts := mkOpts {
  o_combine : bool; o_relabel : bool; o_skip : bool; o_rescale : bool;
  o_dtype : option dtype
}.

Definition zlen {A} (l : list A) : Z := Z.of_nat (length l).
Definition memz (x : Z) (l : list Z) : bool := existsb (Z.eqb x) l.
Definition zeros (n : Z) : list Z := repeat 0 (Z.to_nat n).
Fixpoint list_max (l : list Z) : Z := match l with [] => 0 | x :: r => Z.max x (list_max r) end.
Fixpoint zlist_eqb (a b : list Z) : bool :=
  match a, b with
  | [], [] => true
  | x :: a', y :: b' => (x =? y) && zlist_eqb a' b'
  | _, _ => false
  end.
(* 0-based position of the first occurrence: np.nonzero(arr == s)[0][0] *)
Fixpoint index_of (s : Z) (l : list Z) : Z :=
  match l with [] => 0 | x :: r => if x =? s then 0 else 1 + index_of s r end.
(* range(a, b) *)
Fixpoint zrange_from (a : Z) (n : nat) : list Z :=
  match n with O => [] | S n' => a :: zrange_from (a + 1) n' end.
Definition zrange (a b : Z) : list Z := zrange_from a (Z.to_nat (b - a)).

(* last frame satisfying a predicate (later assignments overwrite earlier ones) *)
Definition find_last (p : frame -> bool) (l : list frame) : option frame := find p (rev l).

(* ------------------------------------------------------------------ *)
(* _do_columns_identify_unique_frames([key column, (segment column)])   *)
Definition same_slot (lm : bool) (a b : frame) : bool :=
  (fkey a =? fkey b) && (lm || (fseg a =? fseg b)).
Fixpoint unique_frames (lm : bool) (l : list frame) : bool :=
  match l with
  | [] => true
  | f :: r => negb (existsb (same_slot lm f) r) && unique_frames lm r
  end.

(* ------------------------------------------------------------------ *)
(* _get_segment_remap_values + _prepare_channel_tables: (output channel, segment) *)
Definition chan_labels (req : list Z) (combine relabel : bool) : list Z :=
  if combine then (if relabel then zrange 1 (zlen req + 1) else req)
  else zrange 0 (zlen req).
Definition chan_table (req : list Z) (comb relabel : bool) : list (Z * Z) :=
  List.combine (chan_labels req comb relabel) req.

(* join of _iterate_indices_for_stack for BINARY/FRACTIONAL, restricted to
   one output frame (ORDER BY F.OutputFrameIndex): (stored frame, output channel) *)
Definition join_plane (st : stored) (key : Z) (ct : list (Z * Z)) : list (frame * Z) :=
  flat_map (fun f =>
    if fkey f =? key
    then map (fun cs => (f, fst cs)) (filter (fun cs => snd cs =? fseg f) ct)
    else [])
    (s_frames st).

(* ------------------------------------------------------------------ *)
(* LABELMAP branch                                                      *)
Definition lm_plane (st : stored) (d : dtype) (key : Z) : list Z :=
  match find_last (fun f => fkey f =? key) (s_frames st) with
  | Some f => map (cast d) (fpix f)
  | None => zeros (s_npix st)
  end.

Definition need_remap (st : stored) (req : list Z) (combine relabel : bool) : bool :=
  if negb combine || relabel
  then negb (zlist_eqb req (zrange 1 (zlen req)))       (* np.arange(1, len(req)) *)
  else existsb (fun s => negb (memz s req)) (s_segs st) || existsb (fun s => negb (memz s (s_segs st))) req.

Definition remap_table (st : stored) (req : list Z) (combine relabel : bool) (rd : dtype) : list Z :=
  let n_in := Z.max (s_bg st + 1) (list_max (s_segs st) + 1) in
  let c := cast rd in
  if combine && negb relabel
  then map (fun s => c (if memz s req then s else s_bg st)) (zrange 0 n_in) ++ [0]
  else map (fun s => c (if memz s req then index_of s req + 1 else 0)) (zrange 0 (n_in + 1)).

Fixpoint lookup_all_n (n : Z) (tbl : list Z) (l : list Z) : res (list Z) :=
  match l with
  | [] => Ok []
  | v :: r =>
      if (v <? 0) || (n <=? v) then Err "IndexError"
      else bind (lookup_all_n n tbl r) (fun r' => Ok (nth (Z.to_nat v) tbl 0 :: r'))
  end.
Definition lookup_all (tbl : list Z) (l : list Z) : res (list Z) := lookup_all_n (zlen tbl) tbl l.
Fixpoint map_res {A B} (f : A -> res B) (l : list A) : res (list B) :=
  match l with
  | [] => Ok []
  | x :: r => bind (f x) (fun y => bind (map_res f r) (fun r' => Ok (y :: r')))
  end.

Inductive output :=
| OStack (a : list (list (list Z)))             (* frame x channel x pixel *)
| OStackQ (a : list (list (list Z))) (den : Z)  (* rescaled: value / den *)
| OComb (a : list (list Z)).                    (* frame x pixel *)

Definition onehot (n : Z) (d : dtype) (plane : list Z) : list (list Z) :=
  map (fun k => map (fun v => if v =? k then cast d 1 else 0) plane) (zrange 1 (n + 1)).

Definition labelmap_read (st : stored) (keys req : list Z) (combine relabel : bool) (d : dtype)
  : res output :=
  let nr := need_remap st req combine relabel in
  let idt := if nr then unsigned_dtype (2 ^ s_bits st - 1) else d in
  let planes := map (lm_plane st idt) keys in
  let remapped :=
    if nr then
      let rd := if combine then d else idt in
      map_res (lookup_all (remap_table st req combine relabel rd)) planes
    else Ok planes in
  bind remapped (fun pl =>
    if combine then Ok (OComb pl)
    else
      (* np.eye(n+1)[flat] needs every value <= n *)
      if existsb (existsb (fun v => zlen req <? v)) pl then Err "IndexError"
      else
        let oh := map (onehot (zlen req) d) pl in
        (* a segment requested more than once was remapped to its first position only:
           out_array[..., first_positions] *)
        let fp := map (fun s => index_of s req) req in
        Ok (OStack (if zlist_eqb fp (zrange 0 (zlen req)) then oh
                    else map (fun chans => map (fun j => nth (Z.to_nat j) chans []) fp) oh))).

(* ------------------------------------------------------------------ *)
(* BINARY / FRACTIONAL combine loop, one output frame at a time         *)
Fixpoint any2 (a b : list Z) : bool :=
  match a, b with
  | x :: a', y :: b' => ((0 <? x) && (0 <? y)) || any2 a' b'
  | _, _ => false
  end.
Fixpoint max2 (d : dtype) (pv : Z) (a b : list Z) : list Z :=
  match a, b with
  | x :: a', y :: b' => cast d (Z.max (x * pv) y) :: max2 d pv a' b'
  | _, _ => []
  end.

Fixpoint combine_loop (frac : bool) (maxfrac : Z) (skip : bool) (d : dtype)
         (ins : list (frame * Z)) (out : list Z) : res (list Z) :=
  match ins with
  | [] => Ok out
  | (f, lab) :: rest =>
      let pv := cast d lab in
      if frac && negb (forallb (fun v => (v =? 0) || (v =? maxfrac)) (fpix f)) then Err "ValueError"
      else
        let pix := if frac then map (fun v => v / maxfrac) (fpix f) else fpix f in
        if negb skip && any2 pix out then Err "RuntimeError"
        else combine_loop frac maxfrac skip d rest (max2 d pv pix out)
  end.

(* stacked gather of _get_pixels_by_frame: column of output frame i, channel k *)
Definition stack_col (st : stored) (d : dtype) (key seg : Z) : list Z :=
  match find_last (fun f => (fkey f =? key) && (fseg f =? seg)) (s_frames st) with
  | Some f => map (cast d) (fpix f)
  | None => zeros (s_npix st)
  end.

(* ------------------------------------------------------------------ *)
(* _get_pixels_by_seg_frame                                             *)
Definition max_output_val (st : stored) (req : list Z) (combine relabel rescale : bool) : Z :=
  if combine then (if relabel then zlen req else list_max req)
  else if segtype_eqb (s_ty st) FRACTIONAL && negb rescale then s_maxfrac st
  else 1.

Definition seg_frame (st : stored) (keys req : list Z) (o : opts) : res (dtype * output) :=
  let combine := o_combine o in let relabel := o_relabel o in
  if negb (forallb (fun s => memz s (s_segs st)) req) then Err "ValueError"
  else
    let mv := max_output_val st req combine relabel (o_rescale o) in
    let frac := segtype_eqb (s_ty st) FRACTIONAL in
    let rescaled := o_rescale o && frac && negb combine in
    let d := match o_dtype o with
             | Some d => d
             | None => if rescaled then DF 32 else unsigned_dtype mv
             end in
    if negb (kind_ok d) then Err "ValueError"
    else if dtype_max d <? mv then Err "ValueError"
    else if segtype_eqb (s_ty st) LABELMAP then
      bind (labelmap_read st keys req combine relabel d) (fun r => Ok (d, r))
    else if rescaled && negb (is_float d) then Err "ValueError"
    else
      let idt := if rescaled then DU 8 else d in
      if combine then
        if frac && negb (o_rescale o) then Err "ValueError"
        else
          let ct := chan_table req combine relabel in
          bind (map_res (fun key => combine_loop frac (s_maxfrac st) (o_skip o) idt
                                      (join_plane st key ct) (zeros (s_npix st))) keys)
               (fun pl => Ok (d, OComb pl))
      else
        let a := map (fun key => map (fun s => stack_col st idt key s) req) keys in
        if o_rescale o && frac then
          if existsb (existsb (existsb (fun v => s_maxfrac st <? v))) a then Err "RuntimeError"
          else Ok (d, OStackQ a (s_maxfrac st))
        else Ok (d, OStack a).

(* ------------------------------------------------------------------ *)
(* entry points: argument checks + missing-frame policy                 *)
Inductive entry := EInstance | EFrame | EDimIdx | EVolume | ETpm.

Definition has_frame (st : stored) (k : Z) : bool := existsb (fun f => fkey f =? k) (s_frames st).
Definition max_ref (st : stored) : Z := list_max (map fkey (s_frames st)).

(* None = accepted *)
Definition policy (e : entry) (assert_missing : bool) (st : stored) (keys : list Z) : option string :=
  match e with
  | EInstance =>
      if assert_missing then None
      else if forallb (fun k => memz k (s_known st)) keys then None else Some "KeyError"%string
  | EFrame =>
      if assert_missing then None
      else if forallb (fun k => k <=? max_ref st) keys then None else Some "ValueError"%string
  | EDimIdx =>
      if assert_missing then None
      else if forallb (has_frame st) keys then None else Some "ValueError"%string
  | EVolume =>
      (* allow_missing_positions = assert_missing; keys = all volume positions *)
      if assert_missing then None
      else if forallb (has_frame st) keys then None else Some "RuntimeError"%string
  | ETpm => None
  end.

Definition read (e : entry) (assert_missing : bool) (st : stored) (keys req : list Z) (o : opts)
  : res (dtype * output) :=
  let lm := segtype_eqb (s_ty st) LABELMAP in
  if zlen req =? 0 then Err "ValueError"
  else
    match e with
    | EInstance =>
        if zlen keys =? 0 then Err "ValueError"
        else if negb (unique_frames lm (s_frames st)) then Err "RuntimeError"
        else match policy e assert_missing st keys with
             | Some k => Err k
             | None => seg_frame st keys req o
             end
    | EFrame =>
        if zlen keys =? 0 then Err "ValueError"
        else if negb (forallb (fun k => 0 <? k) keys) then Err "ValueError"
        else if negb (unique_frames lm (s_frames st)) then Err "RuntimeError"
        else match policy e assert_missing st keys with
             | Some k => Err k
             | None => seg_frame st keys req o
             end
    | EDimIdx =>
        if zlen keys =? 0 then Err "ValueError"
        else match policy e assert_missing st keys with
             | Some k => Err k
             | None =>
                 if negb (unique_frames lm (s_frames st)) then Err "RuntimeError"
                 else seg_frame st keys req o
             end
    | EVolume =>
        if negb (unique_frames lm (s_frames st)) then Err "RuntimeError"
        else match policy e assert_missing st keys with
             | Some k => Err k
             | None => seg_frame st keys req o
             end
    | ETpm =>
        if negb (unique_frames lm (s_frames st)) then Err "RuntimeError"
        else seg_frame st keys req o
    end.

(* ------------------------------------------------------------------ *)
(* segment descriptions and search                                      *)
Record desc := mkDesc {
  d_num : Z; d_label : Z; d_cat : Z; d_type : Z; d_alg : Z;
  d_tuid : option Z; d_tid : option Z
}.
Record query := mkQuery {
  q_label : option Z; q_cat : option Z; q_type : option Z; q_alg : option Z;
  q_tuid : option Z; q_tid : option Z
}.
Definition oeq (a : option Z) (b : Z) : bool := match a with Some x => x =? b | None => false end.

(* the list of filter closures built by get_segment_numbers *)
Definition opt_filter (q : option Z) (f : Z -> desc -> bool) : list (desc -> bool) :=
  match q with Some v => [f v] | None => [] end.
Definition filter_funcs (q : query) (bg : option Z) : list (desc -> bool) :=
  opt_filter (q_label q) (fun v d => d_label d =? v) ++
  opt_filter (q_cat q) (fun v d => d_cat d =? v) ++
  opt_filter (q_type q) (fun v d => d_type d =? v) ++
  opt_filter (q_alg q) (fun v d => d_alg d =? v) ++
  opt_filter (q_tuid q) (fun v d => oeq (d_tuid d) v) ++
  opt_filter (q_tid q) (fun v d => oeq (d_tid d) v) ++
  opt_filter bg (fun v d => negb (d_num d =? v)).
Definition get_segment_numbers (ds : list desc) (bg : option Z) (q : query) : list Z :=
  map d_num (filter (fun d => forallb (fun f => f d) (filter_funcs q bg)) ds).

Definition segment_numbers (ds : list desc) (bg : option Z) : list Z :=
  match bg with
  | Some b => map d_num (filter (fun d => negb (d_num d =? b)) ds)
  | None => map d_num ds
  end.
Definition number_of_segments (ds : list desc) (bg : option Z) : Z := zlen (segment_numbers ds bg).

(* get_tracking_ids: only category / type / algorithm filters, no background filter;
   result is a set of (tracking id, tracking uid) *)
Definition tracking_funcs (q : query) : list (desc -> bool) :=
  opt_filter (q_cat q) (fun v d => d_cat d =? v) ++
  opt_filter (q_type q) (fun v d => d_type d =? v) ++
  opt_filter (q_alg q) (fun v d => d_alg d =? v).
Definition pair_mem (p : Z * Z) (l : list (Z * Z)) : bool :=
  existsb (fun x => (fst x =? fst p) && (snd x =? snd p)) l.
Fixpoint dedup (l : list (Z * Z)) : list (Z * Z) :=
  match l with [] => [] | p :: r => if pair_mem p r then dedup r else p :: dedup r end.
Definition tracking_pairs (ds : list desc) (q : query) : list (Z * Z) :=
  flat_map (fun d =>
    match d_tid d, d_tuid d with
    | Some i, Some u => if forallb (fun f => f d) (tracking_funcs q) then [(i, u)] else []
    | _, _ => []
    end) ds.
Definition get_tracking_ids (ds : list desc) (q : query) : list (Z * Z) := dedup (tracking_pairs ds q).

(* ------------------------------------------------------------------ *)
(* boundary functions for the correspondence run                        *)
Definition dtype_name (d : dtype) : string :=
  match d with
  | DBool => "bool"
  | DU w => if w =? 8 then "uint8" else if w =? 16 then "uint16" else if w =? 32 then "uint32" else "uint64"
  | DI w => if w =? 8 then "int8" else if w =? 16 then "int16" else if w =? 32 then "int32" else "int64"
  | DF w => if w =? 16 then "float16" else if w =? 32 then "float32" else "float64"
  | DOther => "other"
  end.
Definition vq (den : Z) (v : Z) : val :=
  match den with
  | Zpos p => VQ (Qmake v p)
  | _ => VErr "ZeroDivisionError"
  end.
Definition voutput (o : output) : val :=
  match o with
  | OStack a => VL (map (fun f => VL (map vz_list f)) a)
  | OStackQ a den => VL (map (fun f => VL (map (fun c => VL (map (vq den) c)) f)) a)
  | OComb a => vz_list2 a
  end.
Definition run_read (e : entry) (am : bool) (st : stored) (keys req : list Z) (o : opts) : val :=
  vres (fun r => VL [VS (dtype_name (fst r)); voutput (snd r)]) (read e am st keys req o).
Definition run_search (ds : list desc) (bg : option Z) (q : query) : val :=
  VL [vz_list (get_segment_numbers ds bg q);
      vz_list (segment_numbers ds bg);
      VZ (number_of_segments ds bg)].
(* insertion sort on pairs so that the set can be compared as a list *)
Definition pair_leb (a b : Z * Z) : bool := (fst a <? fst b) || ((fst a =? fst b) && (snd a <=? snd b)).
Fixpoint insert_pair (p : Z * Z) (l : list (Z * Z)) : list (Z * Z) :=
  match l with [] => [p] | x :: r => if pair_leb p x then p :: l else x :: insert_pair p r end.
Definition sort_pairs (l : list (Z * Z)) : list (Z * Z) := fold_right insert_pair [] l.
Definition run_tracking (ds : list desc) (q : query) : val :=
  VL (map (fun p => VL [VZ (fst p); VZ (snd p)]) (sort_pairs (get_tracking_ids ds q))).

(* ------------------------------------------------------------------ *)
(* segment_numbers=None: every entry point substitutes self.segment_numbers *)
Definition read_default (e : entry) (assert_missing : bool) (st : stored) (keys : list Z) (o : opts)
  : res (dtype * output) := read e assert_missing st keys (s_segs st) o.
Definition run_read_default (e : entry) (am : bool) (st : stored) (keys : list Z) (o : opts) : val :=
  vres (fun r => VL [VS (dtype_name (fst r)); voutput (snd r)]) (read_default e am st keys o).

(* ------------------------------------------------------------------ *)
(* construction side: Segmentation._check_and_cast_pixel_array for an integer
   pixel array and segmentation_type LABELMAP, with _combine_segments.
   A 4-D stack (frames x rows x columns x segments) is given pixel by pixel:
   one list of per-segment values for every pixel. *)
Fixpoint zsum (l : list Z) : Z := match l with [] => 0 | x :: r => x + zsum r end.
(* ndarray.argmax: index of the FIRST maximal entry *)
Definition argmax (l : list Z) : Z := index_of (list_max l) l.
(* _combine_segments, one pixel *)
Definition combine_px (d : dtype) (nseg : Z) (p : list Z) : Z :=
  if nseg =? 1 then cast d (hd 0 p)
  else cast d (cast d (argmax p + 1) * cast d (list_max p)).

Definition ctor_labelmap4 (segs : list Z) (d : dtype) (px : list (list Z)) : res (list Z) :=
  let nseg := zlen segs in
  if negb (forallb (fun p => zlen p =? nseg) px) then Err "ValueError"     (* shape[-1] != number of segments *)
  else
    let mx := list_max (map list_max px) in
    if 1 <? mx then Err "ValueError"                                       (* must be binary *)
    else
      let overlap :=
        if mx =? 0 then false else if nseg =? 1 then false
        else existsb (fun p => 1 <? zsum p) px in
      if overlap then Err "ValueError"                                     (* LABELMAP cannot hold overlaps *)
      else
        let comb := map (combine_px d nseg) px in
        if zlist_eqb segs (zrange 1 (nseg + 1)) then Ok comb
        else lookup_all (map (cast d) (0 :: segs)) comb.                   (* channel k holds the k-th described number *)

(* 3-D "label map style" input: every value must be 0 or a described number *)
Definition ctor_labelmap3 (segs : list Z) (d : dtype) (px : list Z) : res (list Z) :=
  let nseg := zlen segs in
  let consecutive :=
    forallb (fun s => memz s segs) (zrange 1 (nseg + 1)) && forallb (fun s => memz s (zrange 1 (nseg + 1))) segs in
  let undescribed :=
    if consecutive then nseg <? list_max px
    else existsb (fun v => negb (memz v (0 :: segs))) px in
  if undescribed then Err "ValueError" else Ok (map (cast d) px).

Definition run_ctor4 (segs : list Z) (d : dtype) (px : list (list Z)) : val := vres vz_list (ctor_labelmap4 segs d px).
Definition run_ctor3 (segs : list Z) (d : dtype) (px : list Z) : val := vres vz_list (ctor_labelmap3 segs d px).

(* ------------------------------------------------------------------ *)
(* get_segment_description, segmented_property_categories / _types      *)
Definition get_segment_description (ds : list desc) (n : Z) : res desc :=
  match find (fun d => d_num d =? n) ds with Some d => Ok d | None => Err "IndexError" end.
(* values in order of first appearance *)
Fixpoint first_seen (seen l : list Z) : list Z :=
  match l with
  | [] => []
  | x :: r => if memz x seen then first_seen seen r else x :: first_seen (x :: seen) r
  end.
Definition non_background (ds : list desc) (bg : option Z) : list desc :=
  match bg with Some b => filter (fun d => negb (d_num d =? b)) ds | None => ds end.
Definition property_categories (ds : list desc) (bg : option Z) : list Z :=
  first_seen [] (map d_cat (non_background ds bg)).
Definition property_types (ds : list desc) (bg : option Z) : list Z :=
  first_seen [] (map d_type (non_background ds bg)).
Definition vdesc (d : desc) : val :=
  VL [VZ (d_num d); VZ (d_label d); VZ (d_cat d); VZ (d_type d); VZ (d_alg d); vopt VZ (d_tuid d); vopt VZ (d_tid d)].
Definition run_describe (ds : list desc) (bg : option Z) (ns : list Z) : val :=
  VL [VL (map (fun n => vres vdesc (get_segment_description ds n)) ns);
      vz_list (property_categories ds bg); vz_list (property_types ds bg)].

(* ------------------------------------------------------------------ *)
(* Objects whose DimensionIndexValues are NOT the ones highdicom writes (other
   encoders: index values ranked over the segment numbers / plane positions that
   actually occur, gaps, other direction).  Every FrameLUT row carries, besides
   the value columns of the frame (plane key, ReferencedSegmentNumber), the index
   columns: x_kix = the DimensionIndexValues along the plane dimensions (encoded
   as one Z by the harness), x_six = the value along the ReferencedSegmentNumber
   dimension.  image.py _normalize_dimension_queries picks the column a query is
   matched against from its use_indices flag; _iterate_indices_for_stack is
   called with stack_dimension_use_indices = True only by
   get_pixels_by_dimension_index_values and with channel_dimension_use_indices =
   False by every entry point (segments are always addressed by NUMBER). *)
Record ixframe := mkIx { x_frame : frame; x_kix : Z; x_six : Z }.
Definition lut_col (use_indices : bool) (index_col value_col : Z) : Z :=
  if use_indices then index_col else value_col.
Definition stack_use_indices (e : entry) : bool := match e with EDimIdx => true | _ => false end.
Definition channel_use_indices (e : entry) : bool := match e with _ => false end.
Definition lut_row (e : entry) (x : ixframe) : frame :=
  mkFrame (lut_col (stack_use_indices e) (x_kix x) (fkey (x_frame x)))
          (lut_col (channel_use_indices e) (x_six x) (fseg (x_frame x)))
          (fpix (x_frame x)).
Definition lut_view (e : entry) (xs : list ixframe) : list frame := map (lut_row e) xs.
Definition with_frames (st : stored) (fr : list frame) : stored :=
  mkStored (s_ty st) (s_segs st) (s_bits st) (s_maxfrac st) (s_npix st) (s_bg st) fr (s_known st).
(* keys: plane keys, or (EDimIdx) encoded dimension index values *)
Definition read_ix (e : entry) (assert_missing : bool) (st : stored) (xs : list ixframe)
           (keys req : list Z) (o : opts) : res (dtype * output) :=
  read e assert_missing (with_frames st (lut_view e xs)) keys req o.
Definition run_read_ix (e : entry) (am : bool) (st : stored) (xs : list ixframe) (keys req : list Z) (o : opts) : val :=
  vres (fun r => VL [VS (dtype_name (fst r)); voutput (snd r)]) (read_ix e am st xs keys req o).

(* the stored pixel values, frame by frame: what the object must still hold after any sequence of reads
   (reads are functions of the stored object; they never change it) *)
Definition run_stored_state (st : stored) : val := VL (map (fun f => vz_list (fpix f)) (s_frames st)).

(* ------------------------------------------------------------------ *)
(* get_pixels_by_dimension_index_values with an explicit list of dimension index
   pointers (any non-empty selection of the plane dimensions of the object, in any
   order, possibly naming a dimension twice).
   Every FrameLUT row carries its DimensionIndexValues along ALL plane dimensions
   of the object (d_ix, in DimensionIndexSequence order, ReferencedSegmentNumber
   excluded).  A pointer is the position of a dimension in that list (the
   _dim_ind_col_names look-up), -1 stands for ReferencedSegmentNumber and anything
   else for a tag that is not a dimension of the object.  A requested row of values
   addresses the stored frames whose index values along the pointed dimensions are
   exactly the row (the `SELECT DISTINCT cols` existence check and the
   `F.col = L.col AND ...` join of _iterate_indices_for_stack).  Planes are then
   NAMED by the position of the first stored frame with that combination of
   values (-1: no stored frame), which reduces the read to [read EDimIdx]. *)
Record dframe := mkDf { d_frame : frame; d_ix : list Z }.
Definition proj (ptrs ix : list Z) : list Z := map (fun p => nth (Z.to_nat p) ix 0) ptrs.
Fixpoint first_idx (p : dframe -> bool) (l : list dframe) (i : Z) : Z :=
  match l with
  | [] => -1
  | f :: r => if p f then i else first_idx p r (i + 1)
  end.
Definition row_matches (ptrs row : list Z) (f : dframe) : bool := zlist_eqb (proj ptrs (d_ix f)) row.
Definition dim_key (ptrs : list Z) (dfs : list dframe) (row : list Z) : Z :=
  first_idx (row_matches ptrs row) dfs 0.
Definition dim_view (ptrs : list Z) (dfs : list dframe) : list frame :=
  map (fun f => mkFrame (dim_key ptrs dfs (proj ptrs (d_ix f))) (fseg (d_frame f)) (fpix (d_frame f))) dfs.
(* the loop over the pointers given by the caller: first offending pointer decides *)
Fixpoint ptr_check (nd : Z) (ptrs : list Z) : option string :=
  match ptrs with
  | [] => None
  | p :: r =>
      if p =? -1 then Some "ValueError"%string
      else if (p <? 0) || (nd <=? p) then Some "KeyError"%string
      else ptr_check nd r
  end.
(* ptrs = None: dimension_index_pointers=None, all plane dimensions of the object in their own order *)
Definition read_dim (assert_missing : bool) (st : stored) (nd : Z) (dfs : list dframe)
           (ptrs : option (list Z)) (rows : list (list Z)) (req : list Z) (o : opts) : res (dtype * output) :=
  if zlen req =? 0 then Err "ValueError"
  else
    let chk := match ptrs with
               | None => None
               | Some ps => if zlen ps =? 0 then Some "ValueError"%string else ptr_check nd ps
               end in
    match chk with
    | Some k => Err k
    | None =>
        let ps := match ptrs with Some ps => ps | None => zrange 0 nd end in
        if zlen rows =? 0 then Err "ValueError"
        else if negb (forallb (fun r => zlen r =? zlen ps) rows) then Err "ValueError"
        else read EDimIdx assert_missing (with_frames st (dim_view ps dfs)) (map (dim_key ps dfs) rows) req o
    end.
Definition run_read_dim (am : bool) (st : stored) (nd : Z) (dfs : list dframe) (ptrs : option (list Z))
           (rows : list (list Z)) (req : list Z) (o : opts) : val :=
  vres (fun r => VL [VS (dtype_name (fst r)); voutput (snd r)]) (read_dim am st nd dfs ptrs rows req o).
