(* C04 - property theorems.  Nothing but statements, `exact <lemma>` and
   Print Assumptions.  Hypotheses: sizes >= 1 (what the library accepts),
   stored frames are the padded cuts of one matrix at grid positions. *)
From Coq Require Import String ZArith List Bool Permutation Sorted.
From HD Require Import Base.Val C12_Model C12_Proofs C04_Model C04_Proofs C04_Proofs_Store C04_Proofs_Geom
                       C04_Proofs_Arr C04_Proofs_E2E C04_Proofs_Vol C04_Proofs_Order C04_Proofs_Comb C04_Proofs_Free.
Import ListNotations.
Open Scope Z_scope.

(* numpy never has to broadcast or refuse the slice assignment: both slices
   of every tile have the same length, unconditionally *)
Theorem C04_slice_shapes_agree : forall s e t p, in_len s e t p = out_len s e t p.
Proof. exact slice_shapes_agree. Qed.
Print Assumptions C04_slice_shapes_agree.

(* standardize_rc_spec: the standardiser computes exactly the documented
   1-based / 0-based / negative conventions and refuses (ValueError) everything
   else - including, since fix D100, the one-based end 0 *)
Theorem C04_standardize_rc_spec : forall ai rs re cs ce R C, 1 <= R -> 1 <= C ->
  standardize_rc ai rs re cs ce R C =
  match spec_start ai R rs, spec_end ai R re, spec_start ai C cs, spec_end ai C ce with
  | Some s, Some e, Some c0, Some c1 => Ok (s, e, c0, c1)
  | _, _, _, _ => Err "ValueError"
  end.
Proof. exact standardize_rc_eq. Qed.
Print Assumptions C04_standardize_rc_spec.

Theorem C04_standardized_ends_in_matrix : forall ai n x e, 1 <= n ->
  spec_end ai n x = Some e -> 1 <= e <= n + 1.
Proof. exact spec_end_range. Qed.
Print Assumptions C04_standardized_ends_in_matrix.

(* a region read (no count check) returns the region the conventions denote
   (start <= end on both axes), and a ValueError in every other case *)
Theorem C04_read_accept_refuse : forall ts R C th tw ai rs re cs ce, 1 <= R -> 1 <= C ->
  read_std false ts R C th tw ai rs re cs ce =
  match spec_region ai R C rs re cs ce with
  | Some (s, e, c0, c1) => Ok (read_region ts s e c0 c1 th tw)
  | None => Err "ValueError"
  end.
Proof. exact read_std_spec. Qed.
Print Assumptions C04_read_accept_refuse.

Theorem C04_read_accepts_iff : forall ts R C th tw ai rs re cs ce, 1 <= R -> 1 <= C ->
  (exists out, read_std false ts R C th tw ai rs re cs ce = Ok out) <->
  (exists s e c0 c1, spec_start ai R rs = Some s /\ spec_end ai R re = Some e /\
                     spec_start ai C cs = Some c0 /\ spec_end ai C ce = Some c1 /\
                     s <= e /\ c0 <= c1).
Proof. exact read_std_accepts_iff. Qed.
Print Assumptions C04_read_accepts_iff.

Theorem C04_standardized_positions_in_matrix : forall ai n x s, 1 <= n ->
  spec_start ai n x = Some s -> 1 <= s <= n.
Proof. exact spec_start_range. Qed.
Print Assumptions C04_standardized_positions_in_matrix.

(* written_once: a grid tile writes output cell (i, j) exactly when it is the
   tile holding matrix position (s + i, cs + j) ... *)
Theorem C04_written_once : forall s e cs ce th tw t i j, 1 <= th -> 1 <= tw -> on_grid th tw t ->
  1 <= s -> 1 <= cs -> 0 <= i < e - s -> 0 <= j < ce - cs ->
  covers s e cs ce th tw t i j = true <-> at_pos (tile_of th (s + i)) (tile_of tw (cs + j)) t.
Proof. exact covers_iff. Qed.
Print Assumptions C04_written_once.

(* ... and it reads it from the tile-local index of that matrix position *)
Theorem C04_written_from_own_cell : forall s e cs ce th tw t i j, covers s e cs ce th tw t i j = true ->
  src_cell s cs t i j = cell (t_px t) (s + i - t_rp t) (cs + j - t_cp t) /\
  0 <= s + i - t_rp t < th /\ 0 <= cs + j - t_cp t < tw.
Proof. exact src_cell_eq. Qed.
Print Assumptions C04_written_from_own_cell.

(* region_exact: every cell of the returned region is the matrix cell it
   names when the tile holding it is stored, and 0 when that tile is absent
   (omitted empty tile); aligned or not, single rows/columns, whole matrix.
   TILED_FULL and TILED_SPARSE differ only in where [ts] comes from. *)
Theorem C04_region_exact : forall M R C th tw ts s e cs ce i j,
  wf_matrix M R C -> 1 <= R -> 1 <= C -> 1 <= th -> 1 <= tw ->
  unique_positions ts = true -> (forall t, In t ts -> cut_of M R C th tw t) ->
  1 <= s -> e <= R + 1 -> 1 <= cs -> ce <= C + 1 -> 0 <= i < e - s -> 0 <= j < ce - cs ->
  cell (read_region ts s e cs ce th tw) i j =
  if pos_mem (tile_of th (s + i)) (tile_of tw (cs + j)) ts
  then cell M (s - 1 + i) (cs - 1 + j) else 0.
Proof. exact region_exact. Qed.
Print Assumptions C04_region_exact.

Theorem C04_region_shape : forall ts s e cs ce th tw, 0 <= e - s -> 0 <= ce - cs ->
  Z.of_nat (length (read_region ts s e cs ce th tw)) = e - s /\
  forall row, In row (read_region ts s e cs ce th tw) -> Z.of_nat (length row) = ce - cs.
Proof. exact read_region_shape. Qed.
Print Assumptions C04_region_shape.

Theorem C04_complete_grid_holds_every_cell : forall R C th tw ts s e cs ce i j, 1 <= th -> 1 <= tw ->
  (forall pc pr, In (pc, pr) (grid R C th tw) -> pos_mem pr pc ts = true) ->
  1 <= s -> e <= R + 1 -> 1 <= cs -> ce <= C + 1 -> 0 <= i < e - s -> 0 <= j < ce - cs ->
  pos_mem (tile_of th (s + i)) (tile_of tw (cs + j)) ts = true.
Proof. exact complete_grid_holds. Qed.
Print Assumptions C04_complete_grid_holds_every_cell.

(* count_check: on a complete grid the expected-frame count v_frames * h_frames
   is the number of tiles the range predicate selects *)
Theorem C04_count_check : forall R C th tw ts s e cs ce,
  1 <= R -> 1 <= C -> 1 <= th -> 1 <= tw ->
  map (fun t => (t_cp t, t_rp t)) ts = grid R C th tw ->
  1 <= s <= R -> s <= e <= R + 1 -> 1 <= cs <= C -> cs <= ce <= C + 1 ->
  count_selected ts s e cs ce th tw = frames_expected s e th * frames_expected cs ce tw.
Proof. exact count_check. Qed.
Print Assumptions C04_count_check.

(* ... and on an incomplete TILED_SPARSE image the "missing frames" refusal is
   exact: the count test passes iff no grid tile meeting the region is missing *)
Theorem C04_missing_frames_exact : forall R C th tw ts s e cs ce, 1 <= R -> 1 <= C -> 1 <= th -> 1 <= tw ->
  NoDup (positions ts) -> incl (positions ts) (grid R C th tw) ->
  1 <= s <= R -> s <= e <= R + 1 -> 1 <= cs <= C -> cs <= ce <= C + 1 ->
  (count_selected ts s e cs ce th tw = frames_expected s e th * frames_expected cs ce tw <->
   forall p, In p (grid R C th tw) -> sel_pos s e cs ce th tw p = true -> In p (positions ts)).
Proof. exact missing_exact. Qed.
Print Assumptions C04_missing_frames_exact.

(* Image.get_total_pixel_matrix, TILED_SPARSE: the region, or RuntimeError
   exactly when a needed tile is missing *)
Theorem C04_image_sparse_read : forall R C th tw ts ai rs re cs ce s e c0 c1,
  1 <= R -> 1 <= C -> 1 <= th -> 1 <= tw ->
  unique_positions ts = true -> NoDup (positions ts) -> incl (positions ts) (grid R C th tw) ->
  spec_region ai R C rs re cs ce = Some (s, e, c0, c1) ->
  (img_read false ts R C th tw ai rs re cs ce = Ok (read_region ts s e c0 c1 th tw) /\
   forall p, In p (grid R C th tw) -> sel_pos s e c0 c1 th tw p = true -> In p (positions ts)) \/
  (img_read false ts R C th tw ai rs re cs ce = Err "RuntimeError" /\
   exists p, In p (grid R C th tw) /\ sel_pos s e c0 c1 th tw p = true /\ ~ In p (positions ts)).
Proof. exact img_sparse_read. Qed.
Print Assumptions C04_image_sparse_read.

(* tile_then_read: a mask tiled by the library reads back, region by region and
   plane by plane, as the mask (times MaximumFractionalValue for FRACTIONAL),
   for every tile size, organisation, omit flag and segmentation type ... *)
Theorem C04_tile_then_read : forall ty mf full omit planes R C th tw st k Mk s e cs ce i j,
  1 <= R -> 1 <= C -> 1 <= th -> 1 <= tw ->
  NoDup (map fst planes) -> In (k, Mk) planes -> wf_matrix Mk R C ->
  seg_store ty mf full omit planes R C th tw = Ok st ->
  1 <= s -> e <= R + 1 -> 1 <= cs -> ce <= C + 1 -> 0 <= i < e - s -> 0 <= j < ce - cs ->
  cell (read_region (tiles_of_seg k st) s e cs ce th tw) i j =
  cell Mk (s - 1 + i) (cs - 1 + j) * factor ty mf.
Proof. exact tile_then_read. Qed.
Print Assumptions C04_tile_then_read.

(* ... where a tile of a plane is absent only under omission and only if it is all zero *)
Theorem C04_omitted_tiles_are_empty : forall ty mf omit planes R C th tw st k Mk pc pr,
  1 <= R -> 1 <= C -> 1 <= th -> 1 <= tw ->
  NoDup (map fst planes) -> In (k, Mk) planes ->
  seg_store ty mf false omit planes R C th tw = Ok st -> In (pc, pr) (grid R C th tw) ->
  pos_mem pr pc (tiles_of_seg k st) = false ->
  omit = true /\ any_nonzero (cut Mk R C th tw (pc, pr)) = false.
Proof. exact omitted_iff_empty. Qed.
Print Assumptions C04_omitted_tiles_are_empty.

(* full_equals_sparse: implied positions (frame order) = explicit positions *)
Theorem C04_image_full_equals_sparse : forall R C th tw ts,
  map (fun t => (t_cp t, t_rp t)) ts = tile_offsets R C th tw ->
  imply_full R C th tw (map t_px ts) = ts.
Proof. exact image_full_equals_sparse. Qed.
Print Assumptions C04_image_full_equals_sparse.

Theorem C04_seg_full_equals_sparse : forall ty mf omit planes R C th tw st,
  seg_store ty mf true omit planes R C th tw = Ok st ->
  reimply_full (map fst planes) R C th tw st = st /\
  omit_eff omit planes R C th tw = false /\
  seg_store ty mf false false planes R C th tw = Ok st.
Proof. exact seg_full_equals_sparse_all. Qed.
Print Assumptions C04_seg_full_equals_sparse.

(* non-vacuity: a concrete unaligned region of a 5 x 3 matrix in 2 x 2 tiles *)
Example C04_example :
  let M := [[1;2;3];[4;5;6];[7;8;9];[10;11;12];[13;14;15]] in
  let ts := imply_full 5 3 2 2 (map (cut M 5 3 2 2) (tile_offsets 5 3 2 2)) in
  unique_positions ts = true /\
  map (fun t => (t_cp t, t_rp t)) ts = grid 5 3 2 2 /\
  spec_region false 5 3 (Some 2) (Some (-1)) (Some (-2)) None = Some (2, 5, 2, 4) /\
  read_std false ts 5 3 2 2 false (Some 2) (Some (-1)) (Some (-2)) None = Ok [[5;6];[8;9];[11;12]] /\
  read_std false ts 5 3 2 2 true (Some 1) (Some 4) (Some 1) (Some 3) = Ok [[5;6];[8;9];[11;12]] /\
  count_selected ts 2 5 2 4 2 2 = 4 /\
  read_std false ts 5 3 2 2 false (Some (-6)) None None None = Err "ValueError" /\
  (* a label map with one pixel in the padded corner tile, omission on: 1 of 6 tiles stored *)
  let L := [[0;0;0];[0;0;0];[0;0;0];[0;0;0];[0;0;2]] in
  match seg_store Binary 255 false true (planes_of_labelmap L [1;2]) 5 3 2 2 with
  | Ok st => length st = 1%nat /\
             read_region (tiles_of_seg 2 st) 1 6 1 4 2 2 = map (map (fun v => if v =? 2 then 1 else 0)) L
  | Err _ => False
  end.
Proof. vm_compute. repeat split; reflexivity. Qed.
Print Assumptions C04_example.

(* ---- geometry of the segmentation relative to its source image ------------- *)
(* declared_is_mask_shape: whenever the constructor accepts a whole-matrix mask,
   the TotalPixelMatrixRows/Columns it declares are the shape of the mask that
   was passed - for every source matrix size, source tile size, tile size and
   whether or not the mask's total pixel matrix coincides with the source's *)
Theorem C04_declared_is_mask_shape : forall pres R C SR SC th tw sth stw d,
  seg_declared pres R C SR SC th tw sth stw = Ok d -> d = (R, C).
Proof. exact seg_declared_shape. Qed.
Print Assumptions C04_declared_is_mask_shape.

(* shape_guard_exact: a mask is refused exactly when its total pixel matrix is
   said to coincide with the source's (same origin; orientation and spacing not
   given or equal) but its shape differs *)
Theorem C04_shape_guard_exact : forall o uo os um ms R C SR SC th tw sth stw,
  seg_declared (tpm_preserved o uo os um ms) R C SR SC th tw sth stw = Err "ValueError" <->
  ((o = true /\ (uo = true -> os = true) /\ (um = true -> ms = true)) /\ (R <> SR \/ C <> SC)).
Proof. exact shape_guard_exact. Qed.
Print Assumptions C04_shape_guard_exact.

(* geometry_construction: construction with an own geometry is the plain
   construction with tile size `tile_size or (source Rows, Columns)`,
   declaring the mask's own shape, or a ValueError *)
Theorem C04_geometry_construction : forall ty mf full omit planes segs R C g,
  stored_geom ty mf full omit planes segs R C g =
  let th := fst (eff_tile (g_tile g) (g_sth g) (g_stw g)) in
  let tw := snd (eff_tile (g_tile g) (g_sth g) (g_stw g)) in
  if geom_refused R C g then Err "ValueError"
  else bind (stored ty mf full omit planes segs R C th tw) (fun st => Ok (th, tw, R, C, st)).
Proof. exact stored_geom_eq. Qed.
Print Assumptions C04_geometry_construction.

(* geometry_tile_then_read: tile_then_read through the DECLARED matrix size
   (regions are addressed against what the segmentation declares) *)
Theorem C04_geometry_tile_then_read :
  forall ty mf full omit planes R C g th tw RD CD st k Mk s e cs ce i j,
  1 <= R -> 1 <= C -> 1 <= th -> 1 <= tw ->
  NoDup (map fst planes) -> In (k, Mk) planes -> wf_matrix Mk R C ->
  stored_geom ty mf full omit planes (map fst planes) R C g = Ok (th, tw, RD, CD, st) ->
  1 <= s -> e <= RD + 1 -> 1 <= cs -> ce <= CD + 1 -> 0 <= i < e - s -> 0 <= j < ce - cs ->
  cell (read_region (tiles_of_seg k st) s e cs ce th tw) i j =
  cell Mk (s - 1 + i) (cs - 1 + j) * factor ty mf.
Proof. exact geom_tile_then_read. Qed.
Print Assumptions C04_geometry_tile_then_read.

(* non-vacuity: a 3 x 2 mask with its own pixel spacing over a 5 x 4 source in
   2 x 2 tiles, tile_size left at None, TILED_FULL: declares 3 x 2 and reads back;
   the same mask without own geometry is refused *)
Example C04_example_geom :
  let L := [[0;1];[2;0];[1;1]] in
  let g := mkGeom 5 4 2 2 None None true false false true false in
  stored_geom Labelmap 255 true false [(0, L)] [0] 3 2 g =
    Ok (2, 2, 3, 2, [mkS 0 (mkT 1 1 [[0;1];[2;0]]); mkS 0 (mkT 3 1 [[1;1];[0;0]])]) /\
  run_seg_geom Labelmap 255 true false [(0, L)] [0] [1;2] 3 2 g
    [(false, (None, None, None, None)); (false, (Some (-1), None, Some 2, None))] =
    VL [VZ 2; VZ 2; VZ 2; VZ 3; VZ 2; vz_list2 L; vz_list2 [[1]]] /\
  stored_geom Labelmap 255 true false [(0, L)] [0] 3 2
    (mkGeom 5 4 2 2 None None true false false true true) = Err "ValueError".
Proof. vm_compute. repeat split; reflexivity. Qed.
Print Assumptions C04_example_geom.

(* ---- the frame loop as numpy array updates ---------------------------------------------- *)
(* frame_loop_refines: np.zeros + one slice assignment per selected frame in ORDER BY
   order is never refused (no shape mismatch, no broadcasting) and yields exactly the
   cell-wise region of the theorems above - for every tile list, complete or not *)
Theorem C04_frame_loop_refines : forall ts s e cs ce th tw,
  0 <= e - s -> 0 <= ce - cs -> 1 <= th -> 1 <= tw ->
  read_region_arr ts s e cs ce th tw = Ok (read_region ts s e cs ce th tw).
Proof. exact read_region_arr_refines. Qed.
Print Assumptions C04_frame_loop_refines.

Theorem C04_image_read_arr_eq : forall full ts R C th tw ai rs re cs ce, 1 <= th -> 1 <= tw ->
  img_read_arr full ts R C th tw ai rs re cs ce = img_read full ts R C th tw ai rs re cs ce.
Proof. exact img_read_arr_eq. Qed.
Print Assumptions C04_image_read_arr_eq.

Theorem C04_unique_positions_iff_NoDup : forall ts, unique_positions ts = true <-> NoDup (positions ts).
Proof. exact unique_positions_NoDup. Qed.
Print Assumptions C04_unique_positions_iff_NoDup.

(* the row order of the query result is irrelevant: for frames at distinct grid
   positions, the array loop over ANY permutation of the selected frames yields the
   region (so ORDER BY is no premise), and so does any stored frame order *)
Theorem C04_array_loop_any_order : forall ts l s e cs ce th tw,
  1 <= th -> 1 <= tw -> 0 <= e - s -> 0 <= ce - cs -> 1 <= s -> 1 <= cs ->
  Permutation (filter (tile_selected s e cs ce th tw) ts) l ->
  (forall t, In t ts -> on_grid th tw t) -> unique_positions ts = true ->
  fold_left (fun acc t => bind acc (fun o => paste s e cs ce th tw o t)) l (Ok (zeros2 (e - s) (ce - cs))) =
  Ok (read_region ts s e cs ce th tw).
Proof. exact array_loop_any_order. Qed.
Print Assumptions C04_array_loop_any_order.

Theorem C04_region_order_irrelevant : forall ts l s e cs ce th tw, 1 <= th -> 1 <= tw ->
  Permutation ts l -> (forall t, In t ts -> on_grid th tw t) -> unique_positions ts = true ->
  1 <= s -> 1 <= cs ->
  region_in_order l s e cs ce th tw = read_region ts s e cs ce th tw.
Proof. exact region_order_irrelevant. Qed.
Print Assumptions C04_region_order_irrelevant.

Theorem C04_read_region_perm : forall ts ts' s e cs ce th tw, 1 <= th -> 1 <= tw ->
  Permutation ts ts' -> (forall t, In t ts -> on_grid th tw t) -> unique_positions ts = true ->
  1 <= s -> 1 <= cs ->
  read_region ts' s e cs ce th tw = read_region ts s e cs ce th tw.
Proof. exact read_region_perm. Qed.
Print Assumptions C04_read_region_perm.

(* the model's ORDER BY RowPosition, ColumnPosition does sort *)
Theorem C04_sort_tiles_sorted : forall l, StronglySorted tile_le (sort_tiles l).
Proof. exact sort_tiles_sorted. Qed.
Print Assumptions C04_sort_tiles_sorted.

(* ---- end to end: READ (TILE M) region = M[region] ----------------------------------------- *)
(* TILED_FULL image of M (positions implied by frame order): every call of
   get_total_pixel_matrix returns the numpy slice M[s-1:e-1, c0-1:c1-1] the argument
   conventions denote, as a whole array, and ValueError for arguments denoting no region *)
Theorem C04_image_full_end_to_end : forall M R C th tw ai rs re cs ce,
  wf_matrix M R C -> 1 <= R -> 1 <= C -> 1 <= th -> 1 <= tw ->
  img_read true (tiles_full M R C th tw) R C th tw ai rs re cs ce =
  match spec_region ai R C rs re cs ce with
  | Some (s, e, c0, c1) => Ok (submatrix M (s - 1) (e - 1) (c0 - 1) (c1 - 1))
  | None => Err "ValueError"
  end.
Proof. exact image_full_end_to_end. Qed.
Print Assumptions C04_image_full_end_to_end.

(* TILED_SPARSE image: explicit positions, frames in any order, any subset of the grid *)
Theorem C04_image_sparse_end_to_end : forall M R C th tw ts ai rs re cs ce,
  wf_matrix M R C -> 1 <= R -> 1 <= C -> 1 <= th -> 1 <= tw ->
  unique_positions ts = true -> (forall t, In t ts -> cut_of M R C th tw t) ->
  match spec_region ai R C rs re cs ce with
  | Some (s, e, c0, c1) =>
      (img_read false ts R C th tw ai rs re cs ce = Ok (submatrix M (s - 1) (e - 1) (c0 - 1) (c1 - 1)) /\
       forall p, In p (grid R C th tw) -> sel_pos s e c0 c1 th tw p = true -> In p (positions ts)) \/
      (img_read false ts R C th tw ai rs re cs ce = Err "RuntimeError" /\
       exists p, In p (grid R C th tw) /\ sel_pos s e c0 c1 th tw p = true /\ ~ In p (positions ts))
  | None => img_read false ts R C th tw ai rs re cs ce = Err "ValueError" \/
            img_read false ts R C th tw ai rs re cs ce = Err "RuntimeError"
  end.
Proof. exact image_sparse_end_to_end. Qed.
Print Assumptions C04_image_sparse_end_to_end.

(* a mask tiled by the library reads back, for every list of requested segments,
   as the list of numpy slices of the planes that were passed *)
Theorem C04_seg_end_to_end : forall ty mf full omit planes R C th tw st sel ai rs re cs ce,
  1 <= R -> 1 <= C -> 1 <= th -> 1 <= tw ->
  NoDup (map fst planes) -> (forall k Mk, In (k, Mk) planes -> wf_matrix Mk R C) ->
  stored ty mf full omit planes (map fst planes) R C th tw = Ok st ->
  (forall k, In k sel -> In k (map fst planes)) ->
  seg_read st sel R C th tw ai rs re cs ce =
  match spec_region ai R C rs re cs ce with
  | Some (s, e, c0, c1) =>
      Ok (map (fun k => scale_tile (factor ty mf) (submatrix (plane_of k planes) (s - 1) (e - 1) (c0 - 1) (c1 - 1))) sel)
  | None => match sel with [] => Ok [] | _ => Err "ValueError" end
  end.
Proof. exact seg_end_to_end. Qed.
Print Assumptions C04_seg_end_to_end.

Theorem C04_geometry_end_to_end : forall ty mf full omit planes R C g th tw RD CD st sel ai rs re cs ce,
  1 <= R -> 1 <= C -> 1 <= th -> 1 <= tw ->
  NoDup (map fst planes) -> (forall k Mk, In (k, Mk) planes -> wf_matrix Mk R C) ->
  stored_geom ty mf full omit planes (map fst planes) R C g = Ok (th, tw, RD, CD, st) ->
  (forall k, In k sel -> In k (map fst planes)) ->
  seg_read st sel RD CD th tw ai rs re cs ce =
  match spec_region ai R C rs re cs ce with
  | Some (s, e, c0, c1) =>
      Ok (map (fun k => scale_tile (factor ty mf) (submatrix (plane_of k planes) (s - 1) (e - 1) (c0 - 1) (c1 - 1))) sel)
  | None => match sel with [] => Ok [] | _ => Err "ValueError" end
  end.
Proof. exact geom_end_to_end. Qed.
Print Assumptions C04_geometry_end_to_end.

(* LABELMAP: combined (unrequested labels -> 0), one binary plane per requested
   segment, and relabelled (requested label -> its 1-based position in the request) *)
Theorem C04_seg_labelmap_end_to_end : forall mf full omit L R C th tw st sel ai rs re cs ce,
  1 <= R -> 1 <= C -> 1 <= th -> 1 <= tw -> wf_matrix L R C ->
  stored Labelmap mf full omit [(0, L)] [0] R C th tw = Ok st ->
  seg_read_labelmap st sel R C th tw ai rs re cs ce =
  match spec_region ai R C rs re cs ce with
  | Some (s, e, c0, c1) =>
      Ok (map (map (fun v => if existsb (Z.eqb v) sel then v else 0)) (submatrix L (s - 1) (e - 1) (c0 - 1) (c1 - 1)))
  | None => Err "ValueError"
  end.
Proof. exact seg_labelmap_end_to_end. Qed.
Print Assumptions C04_seg_labelmap_end_to_end.

Theorem C04_seg_labelmap_planes_end_to_end : forall mf full omit L R C th tw st sel ai rs re cs ce,
  1 <= R -> 1 <= C -> 1 <= th -> 1 <= tw -> wf_matrix L R C ->
  stored Labelmap mf full omit [(0, L)] [0] R C th tw = Ok st ->
  seg_read_labelmap_planes st sel R C th tw ai rs re cs ce =
  match spec_region ai R C rs re cs ce with
  | Some (s, e, c0, c1) =>
      Ok (map (fun k => map (map (fun v => if v =? k then 1 else 0)) (submatrix L (s - 1) (e - 1) (c0 - 1) (c1 - 1))) sel)
  | None => Err "ValueError"
  end.
Proof. exact seg_labelmap_planes_end_to_end. Qed.
Print Assumptions C04_seg_labelmap_planes_end_to_end.

Theorem C04_seg_labelmap_relabel_end_to_end : forall mf full omit L R C th tw st sel ai rs re cs ce,
  1 <= R -> 1 <= C -> 1 <= th -> 1 <= tw -> wf_matrix L R C ->
  stored Labelmap mf full omit [(0, L)] [0] R C th tw = Ok st ->
  seg_read_labelmap_relabel st sel R C th tw ai rs re cs ce =
  match spec_region ai R C rs re cs ce with
  | Some (s, e, c0, c1) => Ok (map (map (fun v => index1 v sel)) (submatrix L (s - 1) (e - 1) (c0 - 1) (c1 - 1)))
  | None => Err "ValueError"
  end.
Proof. exact seg_labelmap_relabel_end_to_end. Qed.
Print Assumptions C04_seg_labelmap_relabel_end_to_end.

Theorem C04_relabel_index_spec : forall v sel,
  (index1 v sel = 0 /\ ~ In v sel) \/
  (1 <= index1 v sel <= Z.of_nat (length sel) /\ nth (Z.to_nat (index1 v sel - 1)) sel 0 = v /\
   forall m, (m < Z.to_nat (index1 v sel - 1))%nat -> nth m sel 0 <> v).
Proof. exact index1_spec. Qed.
Print Assumptions C04_relabel_index_spec.

(* ---- the region read of get_volume on a tiled image ------------------------------------------ *)
(* the second standardisation (as_indices=True on the zero-based output of the first)
   returns what the first one computed *)
Theorem C04_restandardize : forall ai rs re cs ce R C, 1 <= R -> 1 <= C ->
  bind (standardize_rc_out ai true rs re cs ce R C) (fun t =>
    match t with (a, b, c, d) => standardize_rc true (Some a) (Some b) (Some c) (Some d) R C end) =
  standardize_rc ai rs re cs ce R C.
Proof. exact restandardize. Qed.
Print Assumptions C04_restandardize.

(* volume_region_exact: Image.get_volume on a tiled image refuses what the standardiser
   refuses (first) and otherwise is get_total_pixel_matrix on the same arguments *)
Theorem C04_volume_region_exact : forall full ts R C th tw ai rs re cs ce, 1 <= R -> 1 <= C ->
  img_vol_read full ts R C th tw ai rs re cs ce =
  match standardize_rc ai rs re cs ce R C with
  | Err k => Err k
  | Ok _ => img_read full ts R C th tw ai rs re cs ce
  end.
Proof. exact img_vol_read_exact. Qed.
Print Assumptions C04_volume_region_exact.

(* volume_region_agrees (FULL; was _partial + _refuted before fix D100): on every image
   with unique frame positions get_volume reads exactly what get_total_pixel_matrix
   reads, for every argument in every convention *)
Theorem C04_volume_region_agrees : forall full ts R C th tw ai rs re cs ce, 1 <= R -> 1 <= C ->
  unique_positions ts = true ->
  img_vol_read full ts R C th tw ai rs re cs ce = img_read full ts R C th tw ai rs re cs ce.
Proof. exact img_vol_agrees. Qed.
Print Assumptions C04_volume_region_agrees.

Theorem C04_volume_refuses_duplicates : forall full ts R C th tw ai rs re cs ce, 1 <= R -> 1 <= C ->
  unique_positions ts = false ->
  img_read full ts R C th tw ai rs re cs ce = Err "RuntimeError" /\
  (img_vol_read full ts R C th tw ai rs re cs ce = Err "RuntimeError" \/
   img_vol_read full ts R C th tw ai rs re cs ce = Err "ValueError").
Proof. exact img_vol_refuses_duplicates. Qed.
Print Assumptions C04_volume_refuses_duplicates.

(* regression statement of D100: the one-based end 0 is refused on either axis, by both entry points *)
Theorem C04_end_zero_refused : forall full ts R C th tw rs cs ce, 1 <= R -> 1 <= C ->
  img_vol_read full ts R C th tw false rs (Some 0) cs ce = Err "ValueError" /\
  img_vol_read full ts R C th tw false cs ce rs (Some 0) = Err "ValueError" /\
  read_std false ts R C th tw false rs (Some 0) cs ce = Err "ValueError".
Proof. exact end_zero_refused. Qed.
Print Assumptions C04_end_zero_refused.

Theorem C04_seg_volume_region_exact : forall st sel R C th tw ai rs re cs ce, 1 <= R -> 1 <= C ->
  vol_region ai rs re cs ce R C (seg_read st sel R C th tw) =
  match standardize_rc ai rs re cs ce R C with
  | Err k => Err k
  | Ok _ => seg_read st sel R C th tw ai rs re cs ce
  end.
Proof. exact seg_vol_read_exact. Qed.
Print Assumptions C04_seg_volume_region_exact.

Theorem C04_seg_volume_region_agrees : forall st sel R C th tw ai rs re cs ce, 1 <= R -> 1 <= C -> sel <> [] ->
  vol_region ai rs re cs ce R C (seg_read st sel R C th tw) = seg_read st sel R C th tw ai rs re cs ce.
Proof. exact seg_vol_agrees. Qed.
Print Assumptions C04_seg_volume_region_agrees.

(* non-vacuity of the end-to-end statements: a 5 x 3 matrix in 2 x 2 tiles,
   an unaligned region in the negative / None convention; the same matrix as a
   FRACTIONAL plane with omission; the array loop on an incomplete image *)
Example C04_example_end_to_end :
  let M := [[1;2;3];[4;5;6];[7;8;9];[10;11;12];[13;14;15]] in
  wf_matrix M 5 3 /\
  spec_region false 5 3 (Some 2) (Some (-1)) (Some (-2)) None = Some (2, 5, 2, 4) /\
  submatrix M 1 4 1 3 = [[5;6];[8;9];[11;12]] /\
  img_read true (tiles_full M 5 3 2 2) 5 3 2 2 false (Some 2) (Some (-1)) (Some (-2)) None = Ok [[5;6];[8;9];[11;12]] /\
  img_read_arr true (tiles_full M 5 3 2 2) 5 3 2 2 false (Some 2) (Some (-1)) (Some (-2)) None = Ok [[5;6];[8;9];[11;12]] /\
  img_read_arr false (rev (tl (tiles_full M 5 3 2 2))) 5 3 2 2 true (Some 2) None None None = Ok [[7;8;9];[10;11;12];[13;14;15]] /\
  img_read_arr false (rev (tl (tiles_full M 5 3 2 2))) 5 3 2 2 true (Some 1) None None None = Err "RuntimeError" /\
  img_vol_read true (tiles_full M 5 3 2 2) 5 3 2 2 false (Some 2) (Some (-1)) (Some (-2)) None = Ok [[5;6];[8;9];[11;12]] /\
  img_vol_read true (tiles_full M 5 3 2 2) 5 3 2 2 false (Some 2) (Some 0) None None = Err "ValueError" /\
  let P := [[0;0;0];[0;0;0];[0;0;0];[0;0;0];[0;0;1]] in
  match stored Fractional 255 false true [(1, P); (2, M)] [1; 2] 5 3 2 2 with
  | Ok st => length st = 7%nat /\
             seg_read st [2; 1] 5 3 2 2 true (Some 3) None (Some 1) None =
               Ok [scale_tile 255 [[11;12];[14;15]]; [[0;0];[0;255]]]
  | Err _ => False
  end.
Proof. vm_compute. repeat split; try reflexivity; intros row [<-|[<-|[<-|[<-|[<-|[]]]]]]; reflexivity. Qed.
Print Assumptions C04_example_end_to_end.

(* ---- combine_segments=True on BINARY / FRACTIONAL storage -------------------------------------- *)
(* a LABEL MASK passed as a whole matrix, tiled by the library and stored as one binary
   plane per described segment, reads back combined as the numpy slice of the mask that was
   passed (unrequested labels -> 0; with relabel a requested label -> its 1-based position
   in the request) - the statement of C04_seg_labelmap_end_to_end / _relabel_ for the other
   two segmentation types - for every tile size, organisation, omission flag, request
   without repetitions, argument convention, with or without the overlap check *)
Theorem C04_seg_combined_end_to_end : forall ty mf full omit L segs R C th tw st sel relabel skip ai rs re cs ce,
  ty <> Labelmap -> 1 <= mf -> 1 <= R -> 1 <= C -> 1 <= th -> 1 <= tw -> wf_matrix L R C ->
  NoDup segs -> (forall k, In k segs -> 1 <= k) ->
  stored ty mf full omit (planes_of_labelmap L segs) segs R C th tw = Ok st ->
  NoDup sel -> (forall k, In k sel -> In k segs) ->
  seg_read_combined ty mf st sel relabel true skip R C th tw ai rs re cs ce =
  match spec_region ai R C rs re cs ce with
  | Some (s, e, c0, c1) =>
      Ok (map (map (fun v => if relabel then index1 v sel else if existsb (Z.eqb v) sel then v else 0))
              (submatrix L (s - 1) (e - 1) (c0 - 1) (c1 - 1)))
  | None => Err "ValueError"
  end.
Proof. exact seg_combined_end_to_end. Qed.
Print Assumptions C04_seg_combined_end_to_end.

(* planes passed as a stack may overlap: a combined BINARY read is refused (RuntimeError)
   exactly when two requested planes are both set at one cell INSIDE the region read *)
Theorem C04_seg_combined_overlap_iff : forall mf full omit planes R C th tw st sel relabel rescale ai rs re cs ce s e c0 c1,
  1 <= R -> 1 <= C -> 1 <= th -> 1 <= tw ->
  NoDup (map fst planes) -> (forall k Mk, In (k, Mk) planes -> wf_matrix Mk R C) ->
  stored Binary mf full omit planes (map fst planes) R C th tw = Ok st ->
  (forall k, In k sel -> In k (map fst planes)) ->
  spec_region ai R C rs re cs ce = Some (s, e, c0, c1) ->
  (seg_read_combined Binary mf st sel relabel rescale false R C th tw ai rs re cs ce = Err "RuntimeError" <->
   exists i j, s - 1 <= i < e - 1 /\ c0 - 1 <= j < c1 - 1 /\
     (1 < length (filter (fun k => (0 <? cell (plane_of k planes) i j)%Z) sel))%nat).
Proof. exact seg_combined_overlap_iff. Qed.
Print Assumptions C04_seg_combined_overlap_iff.

(* ... and Segmentation.get_volume(combine_segments=True) on a tiled segmentation reads
   what get_total_pixel_matrix reads, for every argument and option *)
Theorem C04_seg_combined_volume_agrees : forall ty mf st sel relabel rescale skip R C th tw ai rs re cs ce,
  1 <= R -> 1 <= C ->
  vol_region ai rs re cs ce R C (seg_read_combined ty mf st sel relabel rescale skip R C th tw) =
  seg_read_combined ty mf st sel relabel rescale skip R C th tw ai rs re cs ce.
Proof. exact seg_combined_vol_agrees. Qed.
Print Assumptions C04_seg_combined_volume_agrees.

(* non-vacuity: a 4 x 3 label mask in 2 x 2 tiles, stored BINARY with omission / FRACTIONAL
   TILED_FULL, read combined on an unaligned region; overlapping planes refused only where they meet *)
Example C04_example_combined :
  let L := [[0;1;2];[3;3;0];[0;2;2];[1;0;3]] in
  wf_matrix L 4 3 /\
  match stored Binary 1 false true (planes_of_labelmap L [1;2;3]) [1;2;3] 4 3 2 2 with
  | Ok st => length st = 7%nat /\
             seg_read_combined Binary 1 st [3;1] false true false 4 3 2 2 true (Some 1) None (Some (-2)) None =
               Ok [[3;0];[0;0];[0;3]] /\
             seg_read_combined Binary 1 st [3;1] true true false 4 3 2 2 false None (Some 3) None None =
               Ok [[0;2;0];[1;1;0]]
  | Err _ => False
  end /\
  match stored Fractional 255 true false (planes_of_labelmap L [1;2;3]) [1;2;3] 4 3 2 2 with
  | Ok st => seg_read_combined Fractional 255 st [2;3] false true false 4 3 2 2 false None None None None =
               Ok [[0;0;2];[3;3;0];[0;2;2];[0;0;3]] /\
             seg_read_combined Fractional 255 st [2;3] false false false 4 3 2 2 false None None None None =
               Err "ValueError"
  | Err _ => False
  end /\
  let P := [[1;1;0];[0;0;0];[0;0;0];[0;0;0]] in let Q := [[0;1;0];[0;0;0];[0;0;1];[0;0;0]] in
  match stored Binary 1 false true [(1, P); (2, Q)] [1;2] 4 3 2 2 with
  | Ok st => seg_read_combined Binary 1 st [1;2] false true false 4 3 2 2 false None None None None = Err "RuntimeError" /\
             seg_read_combined Binary 1 st [1;2] false true false 4 3 2 2 false (Some 2) None None None = Ok [[0;0;0];[0;0;2];[0;0;0]] /\
             seg_read_combined Binary 1 st [1;2] false true true 4 3 2 2 false None None None None =
               Ok [[1;2;0];[0;0;0];[0;0;2];[0;0;0]]
  | Err _ => False
  end.
Proof. vm_compute. repeat split; try reflexivity; intros row [<-|[<-|[<-|[<-|[]]]]]; reflexivity. Qed.
Print Assumptions C04_example_combined.

(* ---- frames at ARBITRARY explicit positions (off the tile grid, overlapping, with gaps) ------- *)
(* the WHERE clause of the region query selects exactly the frames that overlap the region
   (a frame of t rows at 1-based position p holds rows [p, p + t); the region is [s, e)) ... *)
Theorem C04_selected_iff_overlaps : forall s e t p,
  (selected s e t p = true <-> (p < e /\ s < p + t)) /\
  (* ... and its lower bound start - size + 1 is tight: the frame starting there still holds the
     first requested row, the one before does not *)
  (1 <= t -> s < e -> selected s e t (s - t + 1) = true /\ selected s e t (s - t) = false).
Proof. exact selected_overlaps_and_tight. Qed.
Print Assumptions C04_selected_iff_overlaps.

(* free_tiles_region_exact: frames cut from ONE matrix g at ANY positions - on the grid or not,
   overlapping, with gaps, repeated, stored in any order - reassemble, for every region, to
   exactly that matrix where a stored frame holds the cell and to 0 elsewhere (whole array) *)
Theorem C04_free_tiles_region_exact : forall g ts s e cs ce th tw,
  (forall t, In t ts -> shows_free g th tw t) ->
  read_region ts s e cs ce th tw = masked_slice g th tw ts s e cs ce.
Proof. exact free_region_exact. Qed.
Print Assumptions C04_free_tiles_region_exact.

Theorem C04_free_tiles_end_to_end : forall g ts R C th tw ai rs re cs ce, 1 <= R -> 1 <= C ->
  (forall t, In t ts -> shows_free g th tw t) ->
  read_std false ts R C th tw ai rs re cs ce =
  match spec_region ai R C rs re cs ce with
  | Some (s, e, c0, c1) => Ok (masked_slice g th tw ts s e c0 c1)
  | None => Err "ValueError"
  end /\
  (* where the frames together hold every cell of a region, the read IS the slice of g *)
  (forall s e c0 c1,
     (forall i j, 0 <= i < e - s -> 0 <= j < c1 - c0 -> existsb (holds th tw (s + i) (c0 + j)) ts = true) ->
     masked_slice g th tw ts s e c0 c1 =
     map (fun i => map (fun j => g (s - 1 + i) (c0 - 1 + j)) (zrange (c1 - c0))) (zrange (e - s))).
Proof. exact free_read_end_to_end_covered. Qed.
Print Assumptions C04_free_tiles_end_to_end.

(* Segmentation built FRAME BY FRAME with plane_positions at caller-chosen offsets: the frames of
   segment k, cut from one plane g, read back for every region as that plane (times
   MaximumFractionalValue for FRACTIONAL) where a stored frame holds the cell, else 0 ... *)
Theorem C04_free_seg_plane_exact : forall ty mf omit frames k g th tw s e cs ce,
  (forall f T, In f frames -> In (k, T) (f_planes f) ->
     forall a b, 0 <= a < th -> 0 <= b < tw -> cell T a b = g (f_rp f - 1 + a) (f_cp f - 1 + b)) ->
  read_region (tiles_of_seg k (seg_store_frames ty mf omit frames)) s e cs ce th tw =
  masked_slice (fun r c => g r c * factor ty mf) th tw
               (tiles_of_seg k (seg_store_frames ty mf omit frames)) s e cs ce.
Proof. exact free_seg_plane_exact. Qed.
Print Assumptions C04_free_seg_plane_exact.

(* ... where a frame is left out only under omission and only if it is all zero *)
Theorem C04_free_seg_omitted_empty : forall ty mf omit frames f k T,
  In f frames -> In (k, T) (f_planes f) ->
  pos_mem (f_rp f) (f_cp f) (tiles_of_seg k (seg_store_frames ty mf omit frames)) = false ->
  omit = true /\ any_nonzero T = false.
Proof. exact free_seg_omitted_empty. Qed.
Print Assumptions C04_free_seg_omitted_empty.

(* free_declared_covers (FULL since fix D121; before it only held when one frame sat at the
   bottom-right corner of the bounding box and was refuted otherwise): the TotalPixelMatrixRows /
   Columns a frame-wise segmentation declares hold every frame passed, and no smaller matrix does *)
Theorem C04_free_declared_covers : forall th tw ps,
  (forall p, In p ps -> fst p + th - 1 <= fst (declared_free th tw ps) /\
                        snd p + tw - 1 <= snd (declared_free th tw ps)) /\
  (ps <> [] -> (exists p, In p ps /\ fst p + th - 1 = fst (declared_free th tw ps)) /\
               (exists p, In p ps /\ snd p + tw - 1 = snd (declared_free th tw ps))).
Proof. exact declared_free_covers. Qed.
Print Assumptions C04_free_declared_covers.

(* ---- floating point masks stored as FRACTIONAL levels ---------------------------------------- *)
(* a float mask passed as a whole matrix and tiled by the library reads back (raw levels, one
   plane per requested segment) as the numpy slices of its QUANTISED planes, for every
   MaximumFractionalValue, tile size, organisation and omission flag *)
Theorem C04_seg_frac_end_to_end : forall mf full omit planes R C th tw st sel ai rs re cs ce,
  1 <= R -> 1 <= C -> 1 <= th -> 1 <= tw ->
  NoDup (map fst planes) -> (forall k Mk, In (k, Mk) planes -> wf_matrix Mk R C) ->
  stored_frac mf full omit planes (map fst planes) R C th tw = Ok st ->
  (forall k, In k sel -> In k (map fst planes)) ->
  seg_read st sel R C th tw ai rs re cs ce =
  match spec_region ai R C rs re cs ce with
  | Some (s, e, c0, c1) =>
      Ok (map (fun k => submatrix (plane_of k planes) (s - 1) (e - 1) (c0 - 1) (c1 - 1)) sel)
  | None => match sel with [] => Ok [] | _ => Err "ValueError" end
  end.
Proof. exact seg_frac_end_to_end. Qed.
(* (probabilities outside [0, 1] and max_fractional_value > 255 are refused: the guard of stored_frac) *)
Print Assumptions C04_seg_frac_end_to_end.

(* faint tiles are kept: a tile of plane k is absent from the TILED_SPARSE object only under
   omission and only if every LEVEL in it is zero *)
Theorem C04_seg_frac_omitted_iff_level_zero : forall mf omit planes R C th tw st k Mk pc pr,
  1 <= R -> 1 <= C -> 1 <= th -> 1 <= tw ->
  NoDup (map fst planes) -> In (k, Mk) planes ->
  stored_frac mf false omit planes (map fst planes) R C th tw = Ok st -> In (pc, pr) (grid R C th tw) ->
  pos_mem pr pc (tiles_of_seg k st) = false ->
  omit = true /\ any_nonzero (cut Mk R C th tw (pc, pr)) = false.
Proof. exact seg_frac_omitted_iff_level_zero. Qed.
Print Assumptions C04_seg_frac_omitted_iff_level_zero.

(* non-vacuity: three 2 x 3 frames cut from a 5 x 6 matrix at off-grid, overlapping positions
   (1,1), (2,3), (4,4), stored out of order; regions starting strictly inside an off-grid frame
   past the next grid line; a probability mask with a faint tile (levels 1 and 3 of 255) next
   to an empty one, omission on *)
Example C04_example_free :
  let g := fun r c => 1 + r * 6 + c in
  let fr := fun rp cp => mkT rp cp (map (fun a => map (fun b => g (rp - 1 + a) (cp - 1 + b)) (zrange 3)) (zrange 2)) in
  let ts := [fr 4 4; fr 1 1; fr 2 3] in
  (forall t, In t ts -> shows_free g 2 3 t) /\
  read_std false ts 5 6 2 3 false (Some 3) None (Some 5) None = Ok [[17;0];[23;24];[29;30]] /\
  read_std false ts 5 6 2 3 true (Some 1) (Some 3) (Some 2) (Some 5) = Ok [[9;10;11];[15;16;17]] /\
  selected 3 6 2 2 = true /\ selected 5 7 3 3 = true /\
  declared_free 2 3 [(4, 4); (1, 1); (2, 3)] = (5, 6) /\ declared_free 2 2 [(1, 5); (5, 1)] = (6, 6) /\
  match stored_frac 255 false true [(1, [[0;0;0;0];[0;0;1;3]]); (2, [[255;0;0;0];[0;0;0;0]])] [1; 2] 2 4 2 2 with
  | Ok st => length st = 2%nat /\
             seg_read st [1; 2] 2 4 2 2 false None None (Some 3) None = Ok [[[0;0];[1;3]]; [[0;0];[0;0]]]
  | Err _ => False
  end /\
  stored_frac 255 false true [(1, [[0;256]])] [1] 1 2 1 1 = Err "ValueError".
Proof. exact example_free. Qed.
Print Assumptions C04_example_free.
