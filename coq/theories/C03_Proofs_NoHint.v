(* C03 - proofs, part 7: the gap-tolerant read-back WITHOUT a recorded slice spacing (plain
   images with missing frames and no SpacingBetweenSlices): planes p0 + m sp n with distinct
   integers m in any order, some two of them adjacent (m and m + 1 both present - i.e. sp IS
   the smallest gap), sp above the equality tolerance: the spacing found as the minimum of the
   sorted differences is (Qeq) sp and the result is that of C03_Proofs_Stack.v. *)
From Coq Require Import String ZArith List Bool Lia QArith Qround Qfield Lqa Permutation Sorted.
From HD Require Import Base.Val Base.PySlice C03_Model C03_Proofs_Geom C03_Proofs_Stack C03_Proofs_Infer.
Import ListNotations.
Open Scope Q_scope.

Section NoHint.
  Variables (rowcos colcos p0 : v3) (sp : Q).
  Notation n := (normal rowcos colcos).
  Hypothesis Hn : vdot n n == 1.
  Hypothesis Hsp : 0 < sp.
  Hypothesis Htol : EQTOL < sp.
  Notation c0 := (vdot n p0).
  Notation OL := (on_line n p0 sp).
  Notation DR := (fun (d : Q) (m : Z) => d == c0 + inject_Z m * sp).

  Lemma diffs_ge : forall l ns, Forall2 DR l ns -> incr ns -> Forall (fun x => sp <= x) (diffs l).
  Proof.
    induction l as [|d l IH]; intros ns HF Hi; [constructor|].
    inversion HF as [|? m ? ns' Hd HF']; subst.
    destruct l as [|d' l']; [constructor|].
    inversion HF' as [|? m' ? ns'' Hd' HF'']; subst.
    destruct Hi as (Hlt & Hi). cbn [diffs]. constructor; [|apply (IH (m' :: ns'') HF' Hi)].
    rewrite Hd, Hd'.
    assert (inject_Z m + 1 <= inject_Z m').
    { change 1 with (inject_Z 1). rewrite <- inject_Z_plus, <- Zle_Qle. lia. }
    nra.
  Qed.

  Lemma diffs_has_unit : forall l ns a, Forall2 DR l ns -> incr ns -> In a ns -> In (a + 1)%Z ns ->
    exists x, In x (diffs l) /\ x == sp.
  Proof.
    induction l as [|d l IH]; intros ns a HF Hi Ha Ha1; inversion HF as [|? m ? ns' Hd HF']; subst; [destruct Ha|].
    destruct l as [|d' l'].
    { inversion HF'; subst. destruct Ha as [<- | []]. destruct Ha1 as [E | []]. lia. }
    inversion HF' as [|? m' ? ns'' Hd' HF'']; subst.
    pose proof (incr_head_lt _ _ Hi) as Hgt. pose proof (incr_tail _ _ Hi) as Hi'.
    destruct (Z.eq_dec m a) as [-> | Hma].
    - (* the successor is the head of the tail *)
      assert (Hin1 : In (a + 1)%Z (m' :: ns'')) by (destruct Ha1 as [E | H]; [lia|exact H]).
      assert (Hm' : (a + 1 <= m')%Z) by (apply Hgt; left; reflexivity).
      assert (Hle : (m' <= a + 1)%Z).
      { destruct Hin1 as [-> | Hin1]; [lia|]. pose proof (incr_head_lt _ _ Hi' _ Hin1). lia. }
      assert (m' = (a + 1)%Z) by lia. subst m'.
      exists (d' - d). split; [cbn [diffs]; left; reflexivity|].
      rewrite Hd, Hd'. rewrite inject_Z_plus. change (inject_Z 1) with 1. ring.
    - assert (Ha' : In a (m' :: ns'')) by (destruct Ha as [E | H]; [congruence|exact H]).
      assert (Ha1' : In (a + 1)%Z (m' :: ns'')).
      { destruct Ha1 as [E | H]; [|exact H]. pose proof (Hgt _ Ha'). lia. }
      destruct (IH (m' :: ns'') a HF' Hi' Ha' Ha1') as (x & Hx & Ex).
      exists x. split; [cbn [diffs]; right; exact Hx|exact Ex].
  Qed.

  Lemma core_nohint : forall ps ms a, Forall2 OL ps ms -> NoDup ms -> In a ms -> In (a + 1)%Z ms ->
    exists mmin sp', In mmin ms /\ (forall m, In m ms -> (mmin <= m)%Z) /\ sp' == sp /\
      vol_positions_core true None rowcos colcos ps = Ok (Some (sp', map (fun m => (m - mmin)%Z) ms)).
  Proof.
    intros ps ms a H Hnd Ha Ha1.
    pose proof (line_distances rowcos colcos p0 sp Hn ps ms H) as HD.
    assert (Hne : map (vdot n) ps <> []).
    { intros E. rewrite E in HD. inversion HD; subst. destruct Ha. }
    destruct (line_min rowcos colcos p0 sp Hsp _ _ HD Hne) as (mmin & Hmin_in & Hmin_d & Hmin_all).
    destruct (line_max rowcos colcos p0 sp Hsp _ _ HD Hne) as (mmax & Hmax_in & Hmax_d & Hmax_all).
    assert (Hlt : mmin <> mmax).
    { pose proof (Hmin_all _ Ha). pose proof (Hmax_all _ Ha1). lia. }
    (* the smallest sorted difference is sp *)
    destruct (Forall2_perm_l _ _ _ _ (Permutation_sym (qsort_perm (map (vdot n) ps))) HD) as (ns & Pns & Fns).
    assert (Hincr : incr ns).
    { apply (sorted_labels rowcos colcos p0 sp Hsp _ _ (qsort_sorted _) Fns). apply (Permutation_NoDup Pns Hnd). }
    pose proof (diffs_ge _ _ Fns Hincr) as Hge.
    destruct (diffs_has_unit _ _ a Fns Hincr (Permutation_in _ Pns Ha) (Permutation_in _ Pns Ha1)) as (x & Hx & Ex).
    unfold vol_positions_core. cbv zeta.
    set (ds := map (vdot n) ps) in *.
    set (dmin := qmin_list (hd 0 ds) ds) in *. set (dmax := qmax_list (hd 0 ds) ds) in *.
    set (D := diffs (qsort ds)) in *.
    assert (HDne : D <> []) by (intros E; rewrite E in Hx; destruct Hx).
    destruct (qmin_hd_spec D HDne) as (Hm_in & Hm_all).
    set (m_ := qmin_list (hd 0 D) D) in *.
    assert (Em : m_ == sp).
    { rewrite Forall_forall in Hge. specialize (Hge _ Hm_in). specialize (Hm_all _ Hx). lra. }
    assert (Hmpos : 0 < m_) by (rewrite Em; exact Hsp).
    assert (Etol : Qle_bool (qabs m_) EQTOL = false).
    { rewrite (qabs_pos _ Hmpos). destruct (Qle_bool m_ EQTOL) eqn:E; [|reflexivity].
      apply Qle_bool_iff in E. lra. }
    rewrite Etol.
    (* extreme positions, perpendicularity *)
    destruct (Forall2_in_r _ _ _ _ H Hmin_in) as (q1 & Hq1 & Rq1).
    destruct (Forall2_in_r _ _ _ _ H Hmax_in) as (q2 & Hq2 & Rq2).
    destruct (find_pos_map (vdot n) (fun d => Qeq_bool d dmin) ps) as (p1 & E1 & Hp1 & Hd1).
    { exists q1. split; [exact Hq1|]. apply Qeq_bool_iff.
      rewrite (line_distance rowcos colcos p0 sp Hn _ _ Rq1). symmetry. exact Hmin_d. }
    destruct (find_pos_map (vdot n) (fun d => Qeq_bool d dmax) ps) as (p2 & E2 & Hp2 & Hd2).
    { exists q2. split; [exact Hq2|]. apply Qeq_bool_iff.
      rewrite (line_distance rowcos colcos p0 sp Hn _ _ Rq2). symmetry. exact Hmax_d. }
    fold ds in E1, E2. rewrite E1, E2.
    destruct (Forall2_in_l _ _ _ _ H Hp1) as (m1 & Hm1 & R1).
    destruct (Forall2_in_l _ _ _ _ H Hp2) as (m2 & Hm2 & R2).
    apply Qeq_bool_iff in Hd1, Hd2.
    assert (m1 = mmin).
    { apply (DR_eq rowcos colcos p0 sp Hsp (vdot n p1) m1 dmin mmin);
        [apply (line_distance rowcos colcos p0 sp Hn); exact R1|exact Hmin_d|exact Hd1]. }
    assert (m2 = mmax).
    { apply (DR_eq rowcos colcos p0 sp Hsp (vdot n p2) m2 dmax mmax);
        [apply (line_distance rowcos colcos p0 sp Hn); exact R2|exact Hmax_d|exact Hd2]. }
    subst m1 m2.
    rewrite (line_perp rowcos colcos p0 sp Hn Hsp p1 mmin p2 mmax R1 R2 Hlt).
    (* indices and regularity with the found spacing m_ == sp *)
    assert (Hint : forall d m, DR d m -> (d - dmin) / m_ == inject_Z (m - mmin)).
    { intros d m Hdm. rewrite Em, Hdm, Hmin_d. unfold Zminus. rewrite inject_Z_plus, inject_Z_opp. field. lra. }
    assert (Eidx : map rne (map (fun d => (d - dmin) / m_) ds) = map (fun m => (m - mmin)%Z) ms).
    { rewrite map_map. apply (Forall2_map_eq _ _ _ _ _ HD). intros d m Hdm. apply rne_integer. apply Hint. exact Hdm. }
    assert (Ereg : forallb (fun q => Qle_bool (qabs (q - inject_Z (rne q))) (RTOL * qabs (inject_Z (rne q))))
                           (map (fun d => (d - dmin) / m_) ds) = true).
    { apply forallb_forall. intros q Hq. apply in_map_iff in Hq as (d & <- & Hd).
      destruct (Forall2_in_l _ _ _ _ HD Hd) as (m & _ & Hdm).
      rewrite (rne_integer _ _ (Hint d m Hdm)). apply Qle_bool_iff.
      assert (E : (d - dmin) / m_ - inject_Z (m - mmin) == 0) by (rewrite (Hint d m Hdm); ring).
      rewrite (qabs_zero _ E). apply Qmult_le_0_compat; [unfold RTOL; lra|apply qabs_nonneg]. }
    rewrite Ereg, Eidx. cbn [andb].
    exists mmin, (qabs m_). split; [exact Hmin_in|]. split; [exact Hmin_all|].
    split; [rewrite (qabs_pos _ Hmpos); exact Em|reflexivity].
  Qed.

  (* stacked_full without a recorded spacing *)
  Lemma stacked_nohint : forall st ms a,
    st_rowcos st = rowcos -> st_colcos st = colcos -> st_sbs st = None ->
    Forall2 OL (map fst (st_planes st)) ms -> NoDup ms -> In a ms -> In (a + 1)%Z ms ->
    exists origin mmin n0 sp',
      sp' == sp /\ In mmin ms /\ (forall m, In m ms -> (0 <= m - mmin < n0)%Z) /\ In (mmin + n0 - 1)%Z ms /\
      In origin (map fst (st_planes st)) /\ OL origin mmin /\
      stacked_full true st =
      Ok (attr_aff origin rowcos colcos (st_spr st) (st_spc st) sp', n0, map (fun m => (m - mmin)%Z) ms).
  Proof.
    intros st ms a Hrc Hcc Hsbs H Hnd Ha Ha1.
    destruct (core_nohint _ _ a H Hnd Ha Ha1) as (mmin & sp' & Hmin_in & Hmin_all & Esp & E).
    destruct (find_idx0_line OL _ _ mmin H Hmin_in) as (origin & Eo & Hino & Ro).
    set (idx := map (fun m => (m - mmin)%Z) ms) in *.
    exists origin, mmin, (zmax_list 0 idx + 1)%Z, sp'.
    destruct (zmax_list_spec idx 0) as (Hzin & Hz0 & Hzall).
    split; [exact Esp|]. split; [exact Hmin_in|]. split; [|split; [|split; [exact Hino|split; [exact Ro|]]]].
    - intros m Hm. split; [specialize (Hmin_all m Hm); lia|].
      assert (Hi : In (m - mmin)%Z idx) by (apply in_map_iff; exists m; split; [reflexivity|exact Hm]).
      specialize (Hzall _ Hi). lia.
    - destruct Hzin as [Ez | Hzin].
      + rewrite Ez. replace (mmin + (0 + 1) - 1)%Z with mmin by lia. exact Hmin_in.
      + apply in_map_iff in Hzin as (m & Em & Hm). replace (mmin + (zmax_list 0 idx + 1) - 1)%Z with m by lia. exact Hm.
    - unfold stacked_full, bind, get_volume_positions. rewrite Hrc, Hcc, Hsbs.
      destruct (map fst (st_planes st)) as [|q1 [|q2 l]] eqn:EP.
      { inversion H; subst. destruct Ha. }
      { inversion H as [|? ? ? ? ? Ht]; subst. inversion Ht; subst.
        destruct Ha as [<- | []]. destruct Ha1 as [E1 | []]. lia. }
      rewrite E. fold idx. rewrite Eo. reflexivity.
  Qed.
End NoHint.
