(* C12 - proofs: the pixel-to-reference transform is injective, so the reported
   physical positions identify the tiles (distinct tiles, distinct positions). *)
From Coq Require Import String ZArith List Bool Lia ZifyBool Arith QArith Qfield Lqa Permutation.
From HD Require Import Base.Val Base.ListZ C12_Model C12_Proofs C12_Proofs_Ext C12_Proofs_Ext2.
Import ListNotations.
Open Scope Z_scope.

Definition independent (rc cc : vec3) : Prop :=
  ~ (vx (cross rc cc) == 0 /\ vy (cross rc cc) == 0 /\ vz (cross rc cc) == 0)%Q.

Lemma lin_indep_zero : forall rc cc (A B : Q), independent rc cc ->
  (A * vx rc + B * vx cc == 0)%Q -> (A * vy rc + B * vy cc == 0)%Q -> (A * vz rc + B * vz cc == 0)%Q ->
  (A == 0 /\ B == 0)%Q.
Proof.
  intros [r1 r2 r3] [c1 c2 c3] A B Hind H1 H2 H3. unfold independent, cross in Hind. cbn [vx vy vz] in *.
  assert (N1 : (A * (r2 * c3 - r3 * c2) == 0)%Q).
  { setoid_replace (A * (r2 * c3 - r3 * c2))%Q with ((A * r2 + B * c2) * c3 - (A * r3 + B * c3) * c2)%Q by ring.
    rewrite H2, H3. ring. }
  assert (N2 : (A * (r3 * c1 - r1 * c3) == 0)%Q).
  { setoid_replace (A * (r3 * c1 - r1 * c3))%Q with ((A * r3 + B * c3) * c1 - (A * r1 + B * c1) * c3)%Q by ring.
    rewrite H1, H3. ring. }
  assert (N3 : (A * (r1 * c2 - r2 * c1) == 0)%Q).
  { setoid_replace (A * (r1 * c2 - r2 * c1))%Q with ((A * r1 + B * c1) * c2 - (A * r2 + B * c2) * c1)%Q by ring.
    rewrite H1, H2. ring. }
  assert (M1 : (B * (r2 * c3 - r3 * c2) == 0)%Q).
  { setoid_replace (B * (r2 * c3 - r3 * c2))%Q with ((A * r3 + B * c3) * r2 - (A * r2 + B * c2) * r3)%Q by ring.
    rewrite H2, H3. ring. }
  assert (M2 : (B * (r3 * c1 - r1 * c3) == 0)%Q).
  { setoid_replace (B * (r3 * c1 - r1 * c3))%Q with ((A * r1 + B * c1) * r3 - (A * r3 + B * c3) * r1)%Q by ring.
    rewrite H1, H3. ring. }
  assert (M3 : (B * (r1 * c2 - r2 * c1) == 0)%Q).
  { setoid_replace (B * (r1 * c2 - r2 * c1))%Q with ((A * r2 + B * c2) * r1 - (A * r1 + B * c1) * r2)%Q by ring.
    rewrite H1, H2. ring. }
  destruct (Qeq_dec A 0) as [HA|HA]; destruct (Qeq_dec B 0) as [HB|HB]; try (split; assumption); exfalso; apply Hind.
  - apply Qmult_integral in M1, M2, M3. tauto.
  - apply Qmult_integral in N1, N2, N3. tauto.
  - apply Qmult_integral in N1, N2, N3. tauto.
Qed.

(* the pixel-to-reference transform is injective on pixel indices *)
Lemma pix2ref_injective : forall pos rc cc spr spc c r c' r',
  ~ (spr == 0)%Q -> ~ (spc == 0)%Q -> independent rc cc ->
  veq (pix2ref pos rc cc spr spc c r) (pix2ref pos rc cc spr spc c' r') -> c = c' /\ r = r'.
Proof.
  intros pos rc cc spr spc c r c' r' Hr Hc Hind (Hx & Hy & Hz).
  unfold pix2ref, vadd, vscale in Hx, Hy, Hz. cbn [vx vy vz] in Hx, Hy, Hz.
  set (A := ((inject_Z c - inject_Z c') * spc)%Q). set (B := ((inject_Z r - inject_Z r') * spr)%Q).
  destruct (lin_indep_zero rc cc A B Hind) as [HA HB].
  - unfold A, B. lra.
  - unfold A, B. lra.
  - unfold A, B. lra.
  - unfold A in HA. unfold B in HB. apply Qmult_integral in HA, HB.
    destruct HA as [HA|HA]; [|contradiction]. destruct HB as [HB|HB]; [|contradiction].
    split; apply inject_Z_injective; lra.
Qed.

Definition dot3 (a b : vec3) : Q := (vx a * vx b + vy a * vy b + vz a * vz b)%Q.

(* unit orthogonal direction cosines (what DICOM requires) are independent *)
Lemma orthonormal_independent : forall rc cc,
  (dot3 rc rc == 1)%Q -> (dot3 cc cc == 1)%Q -> (dot3 rc cc == 0)%Q -> independent rc cc.
Proof.
  intros [r1 r2 r3] [c1 c2 c3]. unfold dot3, independent, cross. cbn [vx vy vz]. intros H1 H2 H3 (N1 & N2 & N3).
  assert (L : ((r2 * c3 - r3 * c2) * (r2 * c3 - r3 * c2) + (r3 * c1 - r1 * c3) * (r3 * c1 - r1 * c3) +
               (r1 * c2 - r2 * c1) * (r1 * c2 - r2 * c1) ==
               (r1 * r1 + r2 * r2 + r3 * r3) * (c1 * c1 + c2 * c2 + c3 * c3) -
               (r1 * c1 + r2 * c2 + r3 * c3) * (r1 * c1 + r2 * c2 + r3 * c3))%Q) by ring.
  rewrite N1, N2, N3, H1, H2, H3 in L. lra.
Qed.

(* DISTINCT TILES, DISTINCT POSITIONS: two entries of
   compute_tile_positions_per_frame with the same physical position are the
   same tile *)
Lemma positions_identify_tiles : forall R C th tw pos rc cc spr spc o p o' p',
  ~ (spr == 0)%Q -> ~ (spc == 0)%Q -> independent rc cc ->
  In (o, p) (tile_positions R C th tw pos rc cc spr spc) ->
  In (o', p') (tile_positions R C th tw pos rc cc spr spc) ->
  veq p p' -> o = o'.
Proof.
  intros R C th tw pos rc cc spr spc o p o' p' Hr Hc Hind Hin Hin' Hv.
  apply positions_are_transforms in Hin as [_ ->]. apply positions_are_transforms in Hin' as [_ ->].
  apply pix2ref_injective in Hv as [E1 E2]; auto. destruct o, o'. cbn [fst snd] in *. f_equal; lia.
Qed.

(* the same inside one focal plane of the per-frame data *)
Lemma iter_positions_identify_tiles : forall nch nfp R C th tw x y rc cc spr spc sbs ch k o p ch' o' p',
  1 <= R -> 1 <= C -> 1 <= th -> 1 <= tw -> ~ (spr == 0)%Q -> ~ (spc == 0)%Q -> independent rc cc ->
  In (ch, k, o, p) (iter_tiled_full nch nfp R C th tw x y rc cc spr spc sbs) ->
  In (ch', k, o', p') (iter_tiled_full nch nfp R C th tw x y rc cc spr spc sbs) ->
  veq p p' -> o = o'.
Proof.
  intros nch nfp R C th tw x y rc cc spr spc sbs ch k o p ch' o' p' HR HC Hh Hw Hr Hc Hind Hin Hin' Hv.
  apply iter_membership in Hin as (_ & _ & _ & ->); try lia.
  apply iter_membership in Hin' as (_ & _ & _ & ->); try lia.
  apply pix2ref_injective in Hv as [E1 E2]; auto. destruct o, o'. cbn [fst snd] in *. f_equal; lia.
Qed.

(* non-vacuity: an oblique orthonormal orientation is independent, and two
   different tiles of its grid have positions that differ *)
Lemma ex_geom :
  independent (V3 (3 # 5) (4 # 5) 0) (V3 (-4 # 5) (3 # 5) 0) /\
  map fst (tile_positions 3 3 2 2 (V3 0 0 0) (V3 (3 # 5) (4 # 5) 0) (V3 (-4 # 5) (3 # 5) 0) 1 1) =
    [(1, 1); (3, 1); (1, 3); (3, 3)] /\
  ~ veq (pix2ref (V3 0 0 0) (V3 (3 # 5) (4 # 5) 0) (V3 (-4 # 5) (3 # 5) 0) 1 1 2 0)
        (pix2ref (V3 0 0 0) (V3 (3 # 5) (4 # 5) 0) (V3 (-4 # 5) (3 # 5) 0) 1 1 0 2).
Proof.
  split; [|split].
  - apply orthonormal_independent; vm_compute; reflexivity.
  - reflexivity.
  - intros (H & _). vm_compute in H. discriminate.
Qed.

(* THE PROPERTY SENTENCE, second composite: the index enumeration fed through
   the single-tile helper IS the list of compute_tile_positions_per_frame; its
   offsets are THE grid; the full-tiling test accepts exactly this list; the
   physical positions identify the tiles; cutting (padded or not) and pasting
   reproduces the matrix. *)
Lemma one_tiling_helpers : forall R C th tw x y rc cc spr spc sl M pad,
  1 <= R -> 1 <= C -> 1 <= th -> 1 <= tw -> wf_matrix M R C ->
  ~ (spr == 0)%Q -> ~ (spc == 0)%Q -> independent rc cc ->
  let TP := tile_positions R C th tw (V3 x y (slice_z sl)) rc cc spr spc in
  helper_positions R C th tw x y rc cc spr spc sl = map Ok TP /\
  map fst TP = grid R C th tw /\
  are_tiled_full_code (map rc_of TP) th tw = true /\
  (forall ps, Permutation ps (map rc_of TP) -> are_tiled_full_code ps th tw = true -> ps = map rc_of TP) /\
  (forall o p o' p', In (o, p) TP -> In (o', p') TP -> veq p p' -> o = o') /\
  paste_all R C th tw (cut_all M R C th tw pad) = M.
Proof.
  intros R C th tw x y rc cc spr spc sl M pad HR HC Hh Hw Hwf Hr Hc Hind TP.
  assert (Hacc : are_tiled_full_code (map rc_of TP) th tw = true).
  { pose proof (helper_positions_tiled_full R C th tw x y rc cc spr spc sl HR HC Hh Hw) as H.
    rewrite helper_positions_eq in H by lia. now rewrite oks_map_Ok in H. }
  split; [apply helper_positions_eq; lia|]. split.
  { unfold TP. rewrite positions_offsets. apply tile_offsets_is_grid; lia. }
  split; [exact Hacc|]. split.
  { intros ps Hp Ht. rewrite tiled_full_code_refines in Ht, Hacc.
    exact (tiled_full_perm_unique ps (map rc_of TP) th tw Hp Ht Hacc). }
  split.
  { intros o p o' p' Hin Hin' Hv. exact (positions_identify_tiles R C th tw _ rc cc spr spc o p o' p' Hr Hc Hind Hin Hin' Hv). }
  apply cut_paste_roundtrip_any; auto.
Qed.
