(* C13 - proofs, part 5:
   (a) closedness of a 3D POLYGON is EXACT equality of the end points - there
       is no tolerance, absolute or relative: any gap, however small and
       wherever the contour lies, is refused; the verdict on 3D graphic data
       (count, dimension, closed, coplanar) does not depend on where the
       origin of the frame of reference is (translation invariance) - which is
       exactly what a comparison with a relative tolerance would break;
   (b) the Measurement Units Code Sequence inside the measured value of a NUM
       item is needed when PARSING: X.from_dataset fails with the error of the
       class-specific conversions whenever everything before them is in order,
       and that error is AttributeError when the first measured value has no
       units - whatever else the dataset holds. *)
From Coq Require Import String ZArith List Bool QArith Lia.
From HD Require Import Base.Val C13_Model C13_Proofs C13_Proofs_Seq.
Import ListNotations.
Open Scope string_scope.
Open Scope list_scope.
Open Scope Z_scope.

(* ================================================================== *)
(* (a) closedness                                                      *)
Lemma last_snoc : forall {A} (l : list A) (q d : A), last (l ++ [q]) d = q.
Proof.
  intros A l q d. induction l as [|x l IH]; [reflexivity|].
  destruct l as [|y l]; [reflexivity|]. change (last ((y :: l) ++ [q]) d = q). exact IH.
Qed.

Lemma closed_ends : forall p mid q, closed (p :: mid ++ [q]) = qlist_eqb p q.
Proof.
  intros p mid q. unfold closed. f_equal. change (p :: mid ++ [q]) with ((p :: mid) ++ [q]). apply last_snoc.
Qed.

(* an open contour is refused: whatever lies between the end points, whatever
   the size of the gap *)
Theorem polygon_open_refused : forall p mid q,
  qlist_eqb p q = false -> scoord3d_check G3Polygon (p :: mid ++ [q]) = Err "ValueError".
Proof.
  intros p mid q H. destruct (scoord3d_total G3Polygon (p :: mid ++ [q])) as [Hok|He]; [|exact He].
  apply scoord3d_accepts in Hok. destruct Hok as [_ [_ [Hc _]]]. specialize (Hc eq_refl).
  rewrite closed_ends in Hc. congruence.
Qed.

Lemma Qeq_bool_false_iff : forall x y, Qeq_bool x y = false <-> ~ (x == y)%Q.
Proof.
  intros x y. split.
  - intros H. apply Qeq_bool_neq. exact H.
  - intros H. destruct (Qeq_bool x y) eqn:E; [|reflexivity]. apply Qeq_bool_iff in E. contradiction.
Qed.

(* the last point is the first one moved by (ex, ey, ez) <> 0: refused for
   EVERY size of the gap and every position (x, y, z) of the contour *)
Theorem polygon_gap_refused : forall (x y z ex ey ez : Q) mid,
  ~ (ex == 0 /\ ey == 0 /\ ez == 0)%Q ->
  scoord3d_check G3Polygon ([x; y; z] :: mid ++ [[x + ex; y + ey; z + ez]%Q]) = Err "ValueError".
Proof.
  intros x y z ex ey ez mid H. apply polygon_open_refused. cbn [qlist_eqb].
  destruct (Qeq_bool x (x + ex)) eqn:E1; [|reflexivity].
  destruct (Qeq_bool y (y + ey)) eqn:E2; [|reflexivity].
  destruct (Qeq_bool z (z + ez)) eqn:E3; [|reflexivity].
  exfalso. apply H. apply Qeq_bool_iff in E1, E2, E3.
  repeat split.
  - apply (Qplus_inj_l _ _ x). rewrite <- E1. ring.
  - apply (Qplus_inj_l _ _ y). rewrite <- E2. ring.
  - apply (Qplus_inj_l _ _ z). rewrite <- E3. ring.
Qed.

(* ---- translation: the same contour elsewhere in the frame of reference ---- *)
Definition shift3 (t : v3) (r : list Q) : list Q :=
  match r with
  | [x; y; z] => let '(t1, t2, t3) := t in [x + t1; y + t2; z + t3]%Q
  | _ => r
  end.

Lemma Qeq_bool_shift : forall x y t, Qeq_bool (x + t) (y + t) = Qeq_bool x y.
Proof.
  intros x y t. destruct (Qeq_bool x y) eqn:E.
  - apply Qeq_bool_iff. apply Qeq_bool_iff in E. rewrite E. reflexivity.
  - apply Qeq_bool_false_iff. apply Qeq_bool_false_iff in E. intros H. apply E.
    apply (Qplus_inj_r _ _ t). exact H.
Qed.

Lemma shift3_len : forall t r, List.length (shift3 t r) = List.length r.
Proof.
  intros [[t1 t2] t3] r. destruct r as [|x [|y [|z [|w r]]]]; reflexivity.
Qed.

Lemma qlist_eqb_len : forall a b, qlist_eqb a b = true -> List.length a = List.length b.
Proof.
  induction a as [|x a IH]; intros [|y b] H; try discriminate; [reflexivity|].
  cbn [qlist_eqb] in H. apply andb_prop in H. destruct H as [_ H]. cbn [List.length]. f_equal. apply IH. exact H.
Qed.

Lemma qlist_eqb_shift : forall t p q, qlist_eqb (shift3 t p) (shift3 t q) = qlist_eqb p q.
Proof.
  intros t p q.
  destruct (Nat.eq_dec (List.length p) 3) as [Hp|Hp]; destruct (Nat.eq_dec (List.length q) 3) as [Hq|Hq].
  - destruct p as [|x [|y [|z [|w p]]]]; try discriminate.
    destruct q as [|x' [|y' [|z' [|w' q]]]]; try discriminate.
    destruct t as [[t1 t2] t3]. cbn [shift3 qlist_eqb]. rewrite !Qeq_bool_shift. reflexivity.
  - (* lengths differ: both sides are false *)
    transitivity false.
    + destruct (qlist_eqb (shift3 t p) (shift3 t q)) eqn:E; [|reflexivity].
      apply qlist_eqb_len in E. rewrite !shift3_len in E. congruence.
    + destruct (qlist_eqb p q) eqn:E; [|reflexivity]. apply qlist_eqb_len in E. congruence.
  - transitivity false.
    + destruct (qlist_eqb (shift3 t p) (shift3 t q)) eqn:E; [|reflexivity].
      apply qlist_eqb_len in E. rewrite !shift3_len in E. congruence.
    + destruct (qlist_eqb p q) eqn:E; [|reflexivity]. apply qlist_eqb_len in E. congruence.
  - (* neither has three coordinates: shift3 leaves both alone *)
    assert (Hs : forall r, List.length r <> 3%nat -> shift3 t r = r).
    { intros r Hr. destruct t as [[t1 t2] t3]. destruct r as [|x [|y [|z [|w r]]]]; try reflexivity.
      exfalso. apply Hr. reflexivity. }
    rewrite (Hs p Hp), (Hs q Hq). reflexivity.
Qed.

Lemma last_map : forall {A B} (f : A -> B) l d, last (map f l) (f d) = f (last l d).
Proof.
  intros A B f l d. induction l as [|x l IH]; [reflexivity|].
  cbn [map]. destruct l as [|y l]; [reflexivity|]. cbn [map last] in *. exact IH.
Qed.

Theorem closed_shift : forall t pts, closed (map (shift3 t) pts) = closed pts.
Proof.
  intros t [|p pts]; [reflexivity|]. unfold closed. cbn [map].
  change (shift3 t p :: map (shift3 t) pts) with (map (shift3 t) (p :: pts)).
  rewrite last_map. apply qlist_eqb_shift.
Qed.

Lemma rows_dim_shift : forall d t pts, rows_dim d (map (shift3 t) pts) = rows_dim d pts.
Proof.
  intros d t pts. unfold rows_dim. induction pts as [|r pts IH]; [reflexivity|].
  cbn [map forallb]. rewrite IH. f_equal. unfold len. rewrite shift3_len. reflexivity.
Qed.

Definition vadd (a t : v3) : v3 :=
  let '(a1, a2, a3) := a in let '(t1, t2, t3) := t in (a1 + t1, a2 + t2, a3 + t3)%Q.

Lemma to_v3_shift : forall t r, List.length r = 3%nat -> to_v3 (shift3 t r) = vadd (to_v3 r) t.
Proof.
  intros [[t1 t2] t3] r H. destruct r as [|x [|y [|z [|w r]]]]; try discriminate. reflexivity.
Qed.

Lemma Qeq_bool_compat0 : forall x y, (x == y)%Q -> Qeq_bool x 0 = Qeq_bool y 0.
Proof.
  intros x y H. destruct (Qeq_bool y 0) eqn:E.
  - apply Qeq_bool_iff. apply Qeq_bool_iff in E. rewrite H. exact E.
  - apply Qeq_bool_false_iff. apply Qeq_bool_false_iff in E. intros H'. apply E. rewrite <- H. exact H'.
Qed.

Lemma det3_shift : forall t p0 a b c,
  Qeq_bool (det3 (vsub (vadd a t) (vadd p0 t)) (vsub (vadd b t) (vadd p0 t)) (vsub (vadd c t) (vadd p0 t))) 0 =
  Qeq_bool (det3 (vsub a p0) (vsub b p0) (vsub c p0)) 0.
Proof.
  intros [[t1 t2] t3] [[p1 p2] p3] [[a1 a2] a3] [[b1 b2] b3] [[c1 c2] c3].
  apply Qeq_bool_compat0. unfold det3, vsub, vadd. ring.
Qed.

Lemma coplanar_v_shift : forall t ps, coplanar_v (map (fun p => vadd p t) ps) = coplanar_v ps.
Proof.
  intros t [|p0 rest]; [reflexivity|]. cbn [map coplanar_v]. rewrite !map_map.
  set (f := fun p => vsub (vadd p t) (vadd p0 t)). set (g := fun p => vsub p p0).
  (* forallb over a mapped list, three levels *)
  assert (H : forall l1 l2 l3 : list v3,
             forallb (fun a => forallb (fun b => forallb (fun c => Qeq_bool (det3 a b c) 0) (map f l3)) (map f l2)) (map f l1) =
             forallb (fun a => forallb (fun b => forallb (fun c => Qeq_bool (det3 a b c) 0) (map g l3)) (map g l2)) (map g l1)).
  { intros l1 l2 l3. induction l1 as [|a l1 IH1]; [reflexivity|]. cbn [map forallb]. rewrite IH1. f_equal.
    clear IH1. induction l2 as [|b l2 IH2]; [reflexivity|]. cbn [map forallb]. rewrite IH2. f_equal.
    clear IH2. induction l3 as [|c l3 IH3]; [reflexivity|]. cbn [map forallb]. rewrite IH3. f_equal.
    unfold f, g. apply det3_shift. }
  apply H.
Qed.

Lemma coplanar_shift : forall t pts, rows_dim 3 pts = true ->
  coplanar (map (shift3 t) pts) = coplanar pts.
Proof.
  intros t pts H. unfold coplanar. rewrite map_map.
  rewrite <- (coplanar_v_shift t (map to_v3 pts)). rewrite map_map. f_equal.
  apply map_ext_in. intros r Hr. apply to_v3_shift.
  unfold rows_dim in H. rewrite forallb_forall in H. specialize (H r Hr). unfold len in H. lia.
Qed.

(* the whole verdict on 3D graphic data is the same wherever the origin of the
   frame of reference is *)
Theorem scoord3d_check_shift : forall g t pts,
  scoord3d_check g (map (shift3 t) pts) = scoord3d_check g pts.
Proof.
  intros g t pts. unfold scoord3d_check. rewrite rows_dim_shift, closed_shift.
  unfold len. rewrite map_length.
  destruct (scoord3d_count_ok g (Z.of_nat (List.length pts))); cbn [andb ok_if bind]; [|reflexivity].
  destruct (rows_dim 3 pts) eqn:Hd; cbn [ok_if bind]; [|reflexivity].
  rewrite (coplanar_shift t pts Hd). reflexivity.
Qed.

(* ================================================================== *)
(* (b) the class-specific conversions of X.from_dataset decide, with their
   own error, once everything before them is in order                 *)
Definition before_value_ok (c : ctag) (a : attrs) : Prop :=
  lookup "ValueType" a = Some (DStr (vt_str (class_vt c))) /\
  (forall k, In k (required c) -> lookup k a <> None) /\
  match lookup "ConceptNameCodeSequence" a with
  | Some s => exists n, code_first s = Ok n
  | None => mem (ctag_str c) optional_name_classes = true
  end /\
  match lookup "ContentSequence" a with
  | None => True
  | Some (DSeq items) => Forall (fun d => accept None d = Ok tt) items /\
                         Forall (fun d => rel_present d = Ok tt) items
  | Some _ => False
  end.

Theorem accept_is_value_codes : forall c a, before_value_ok c a ->
  accept (Some c) (DSet a) = value_codes c a.
Proof.
  intros c a [Hvt [Hreq [Hname Hkids]]]. rewrite accept_unfold. unfold accept_body. cbn [bind].
  assert (Ha : assert_value_type (class_vt c) a = Ok tt) by (apply assert_value_type_spec; split; assumption).
  rewrite Ha. cbn [bind]. fold (value_codes c a).
  assert (Hk : match akids_of a with None => Ok tt | Some r => r end = Ok tt).
  { unfold akids_of. destruct (lookup "ContentSequence" a) as [v|]; [|reflexivity].
    destruct v; try contradiction. destruct Hkids as [H1 H2].
    apply mapM_unit_ok in H1. apply mapM_unit_ok in H2.
    apply discard_ok in H1. rewrite H1. cbn [bind]. apply discard_ok. exact H2. }
  destruct (lookup "ConceptNameCodeSequence" a) as [s|].
  - cbn [bind]. rewrite Hk. cbn [bind]. destruct Hname as [n Hn]. rewrite Hn. unfold discard at 1. cbn [bind]. reflexivity.
  - rewrite Hname. cbn [bind]. rewrite Hk. cbn [bind]. reflexivity.
Qed.

(* NUM: the first measured value has no Measurement Units Code Sequence *)
Theorem num_units_required : forall a ms it,
  before_value_ok NumContentItem a ->
  lookup "MeasuredValueSequence" a = Some ms -> first_item ms = Ok it ->
  lookup "MeasurementUnitsCodeSequence" it = None ->
  accept (Some NumContentItem) (DSet a) = Err "AttributeError" /\
  parse2 (Some NumContentItem) (DSet a) = Err "AttributeError".
Proof.
  intros a ms it Hb Hms Hit Hu.
  assert (H : accept (Some NumContentItem) (DSet a) = Err "AttributeError").
  { rewrite (accept_is_value_codes _ _ Hb). cbn [value_codes]. unfold get. rewrite Hms. cbn [bind].
    rewrite Hit. cbn [bind]. rewrite Hu. reflexivity. }
  split; [exact H|]. apply parse2_accept_err. exact H.
Qed.

(* ... in particular: take ANY dataset NumContentItem.from_dataset accepts and
   replace its Measured Value Sequence by one whose first item has no units
   (everything else untouched): refused with AttributeError *)
Theorem num_units_stripped_refused : forall a a' ms' it',
  accept (Some NumContentItem) (DSet a) = Ok tt ->
  (forall k, k <> "MeasuredValueSequence" -> lookup k a' = lookup k a) ->
  lookup "MeasuredValueSequence" a' = Some ms' -> first_item ms' = Ok it' ->
  lookup "MeasurementUnitsCodeSequence" it' = None ->
  accept (Some NumContentItem) (DSet a') = Err "AttributeError" /\
  parse2 (Some NumContentItem) (DSet a') = Err "AttributeError".
Proof.
  intros a a' ms' it' Hacc Hsame Hms Hit Hu.
  apply from_dataset_accepts_iff in Hacc. destruct Hacc as [Hvt [Hreq [Hname [Hkids _]]]].
  apply (num_units_required a' ms' it'); try assumption.
  unfold before_value_ok.
  rewrite (Hsame "ValueType"), (Hsame "ConceptNameCodeSequence"), (Hsame "ContentSequence") by discriminate.
  split; [exact Hvt|]. split; [|split; assumption].
  intros k Hk. destruct (String.eqb k "MeasuredValueSequence") eqn:E.
  - apply String.eqb_eq in E. subst k. rewrite Hms. discriminate.
  - apply String.eqb_neq in E. rewrite (Hsame k E). apply Hreq. exact Hk.
Qed.
