(* C09 - the transformer agrees with the route through physical space
   (map_indices_to_reference of the source, then map_reference_to_indices of the target),
   including rounding and both bounds checks *)
From Coq Require Import String ZArith List Bool Lia ZifyBool QArith Qround Qfield Lqa Morphisms.
From HD Require Import Base.Val Base.PySlice C09_Model C09_Proofs.
Import ListNotations.
Open Scope Z_scope.

Lemma rne_compat : forall q q', (q == q')%Q -> rne q = rne q'.
Proof.
  intros q q' H. unfold rne. rewrite (Qfloor_comp _ _ H).
  assert (E : (q - inject_Z (Qfloor q') ?= 1 # 2)%Q = (q' - inject_Z (Qfloor q') ?= 1 # 2)%Q).
  { apply Qcompare_comp; [rewrite H; reflexivity|reflexivity]. }
  now rewrite E.
Qed.

Lemma vround_compat : forall a b, veq a b -> vround a = vround b.
Proof.
  intros a b (H1 & H2 & H3). unfold vround.
  now rewrite (rne_compat _ _ H1), (rne_compat _ _ H2), (rne_compat _ _ H3).
Qed.

Lemma route_pointwise : forall A B pts,
  Forall2 veq (map (phys (v2v_aff A B)) pts) (map (inv_apply B) (idx2ref A pts)).
Proof.
  intros A B pts. unfold idx2ref. induction pts as [|p pts IH]; cbn [map]; constructor; [|exact IH].
  apply v2v_is_inverse_after_phys.
Qed.

Lemma map_vround_compat : forall l1 l2, Forall2 veq l1 l2 -> map vround l1 = map vround l2.
Proof.
  intros l1 l2 H. induction H as [|a b l1 l2 Hab _ IH]; cbn [map]; [reflexivity|].
  now rewrite (vround_compat _ _ Hab), IH.
Qed.

Lemma comp_compat : forall a b d, veq a b -> (comp a d == comp b d)%Q.
Proof. intros a b d (H1 & H2 & H3). destruct d; assumption. Qed.

Lemma outside_compat : forall shape a b d, veq a b -> outside shape a d -> outside shape b d.
Proof. intros shape a b d H. unfold outside. rewrite (comp_compat _ _ d H). tauto. Qed.

Lemma Forall2_In_l {A B} (R : A -> B -> Prop) : forall l1 l2 a, Forall2 R l1 l2 -> In a l1 ->
  exists b, In b l2 /\ R a b.
Proof.
  intros l1 l2 a H. induction H as [|x y l1 l2 Hxy _ IH]; intros Hin; [destruct Hin|].
  destruct Hin as [->|Hin]; [exists y; split; [now left|exact Hxy]|].
  destruct (IH Hin) as (b & Hb & Hr). exists b. split; [now right|exact Hr].
Qed.

Lemma Forall2_sym_veq : forall l1 l2, Forall2 veq l1 l2 -> Forall2 veq l2 l1.
Proof. intros l1 l2 H. induction H; constructor; [now apply veq_sym|assumption]. Qed.

Lemma bounds_fail_compat : forall shape l1 l2, Forall2 veq l1 l2 -> bounds_fail shape l1 = bounds_fail shape l2.
Proof.
  intros shape l1 l2 H.
  destruct H as [|x y l1 l2 Hxy Hl]; [reflexivity|].
  assert (F : Forall2 veq (x :: l1) (y :: l2)) by (constructor; assumption).
  destruct (bounds_fail_iff shape x l1) as (b1 & E1 & I1).
  destruct (bounds_fail_iff shape y l2) as (b2 & E2 & I2). rewrite E1, E2. f_equal.
  assert (T : b1 = true <-> b2 = true).
  { rewrite I1, I2. split.
    - intros (p & d & Hp & Ho). destruct (Forall2_In_l _ _ _ _ F Hp) as (p' & Hp' & Hr).
      exists p', d. split; [exact Hp'|]. now apply (outside_compat shape p p').
    - intros (p & d & Hp & Ho). destruct (Forall2_In_l _ _ _ _ (Forall2_sym_veq _ _ F) Hp) as (p' & Hp' & Hr).
      exists p', d. split; [exact Hp'|]. now apply (outside_compat shape p p'). }
  destruct b1, b2; try reflexivity; destruct T as [T1 T2]; [now rewrite T1|now rewrite T2].
Qed.

Definition agree (r1 r2 : res (list vec3)) : Prop :=
  match r1, r2 with
  | Ok l1, Ok l2 => Forall2 veq l1 l2
  | Err e1, Err e2 => True
  | _, _ => False
  end.

Lemma det_nz : forall B, ~ (det B == 0)%Q -> Qeq_bool (det B) 0 = false.
Proof. intros B Hd. destruct (Qeq_bool (det B) 0) eqn:E; [apply Qeq_bool_iff in E; contradiction|reflexivity]. Qed.

(* "index mapping between two volumes agrees with mapping through physical space": without rounding the two
   routes give the same indices, and with check_bounds they accept / refuse the same point sets
   (the transformer with ValueError, map_reference_to_indices with RuntimeError) *)
Theorem v2v_agrees_with_physical_route : forall A B shape check pts, ~ (det B == 0)%Q ->
  agree (v2v A B shape false check pts) (ref2idx B shape false check (idx2ref A pts)) /\
  (forall e, v2v A B shape false check pts = Err e -> e = VE /\ check = true) /\
  (forall e, ref2idx B shape false check (idx2ref A pts) = Err e ->
             check = true /\ (e = RT \/ pts = [] /\ e = VE)).
Proof.
  intros A B shape check pts Hd. unfold v2v, ref2idx. rewrite (det_nz B Hd).
  pose proof (route_pointwise A B pts) as F.
  pose proof (bounds_fail_compat shape _ _ F) as E.
  destruct check.
  - rewrite <- E. destruct (bounds_fail shape (map (phys (v2v_aff A B)) pts)) as [[|]|] eqn:EB.
    + split; [exact I|]. split; intros e H; inversion H; subst; auto.
    + split; [exact F|]. split; intros e H; discriminate.
    + split; [exact I|]. split; intros e H; inversion H; subst; [auto|].
      split; [reflexivity|]. right. split; [|reflexivity].
      destruct pts; [reflexivity|discriminate EB].
  - split; [exact F|]. split; intros e H; discriminate.
Qed.

(* with round_output both routes round the same unrounded indices; the transformer then checks the rounded
   indices, map_reference_to_indices the unrounded ones: whenever the transformer accepts, so does the
   physical route, with identical integer indices; whenever the physical route refuses, so does the transformer *)
Theorem v2v_rounded_agrees_with_physical_route : forall A B shape check pts, ~ (det B == 0)%Q ->
  (forall l, v2v A B shape true check pts = Ok l -> ref2idx B shape true check (idx2ref A pts) = Ok l) /\
  (forall e, ref2idx B shape true check (idx2ref A pts) = Err e -> exists e', v2v A B shape true check pts = Err e').
Proof.
  intros A B shape check pts Hd. unfold v2v, ref2idx. rewrite (det_nz B Hd).
  pose proof (route_pointwise A B pts) as F.
  pose proof (bounds_fail_compat shape _ _ F) as E.
  pose proof (map_vround_compat _ _ F) as R.
  destruct check; [|split; [intros l H; inversion H; subst; now rewrite R|intros e H; discriminate]].
  rewrite <- E, <- R. clear E R F.
  set (out := map (phys (v2v_aff A B)) pts).
  assert (K : bounds_fail shape out = Some true -> bounds_fail shape (map vround out) = Some true).
  { destruct out as [|x xs]; [discriminate|]. cbn [map]. intros H.
    destruct (bounds_fail_iff shape x xs) as (b & Eb & Ib). rewrite Eb in H. inversion H; subst b.
    destruct (proj1 Ib eq_refl) as (p & d & Hp & Ho).
    destruct (bounds_fail_iff shape (vround x) (map vround xs)) as (b' & Eb' & Ib'). rewrite Eb'. f_equal.
    apply Ib'. exists (vround p), d. split; [|now apply outside_stays_outside_after_rounding].
    change (vround x :: map vround xs) with (map vround (x :: xs)). now apply in_map. }
  assert (N : bounds_fail shape out = None -> bounds_fail shape (map vround out) = None).
  { destruct out; [reflexivity|discriminate]. }
  destruct (bounds_fail shape out) as [[|]|] eqn:EB.
  - rewrite (K eq_refl). split; [intros l H; discriminate|intros e _; now exists VE].
  - split; [|intros e H; discriminate].
    destruct (bounds_fail shape (map vround out)) as [[|]|]; intros l H; try discriminate. exact H.
  - rewrite (N eq_refl). split; [intros l H; discriminate|intros e _; now exists VE].
Qed.
