(* C10 - proofs, part 3: patient-orientation letters and reference conventions *)
From Coq Require Import String Ascii ZArith List Bool QArith Qabs Qround Lia Lqa Qfield Setoid Morphisms.
From HD Require Import Base.Val C10_Model C10_Proofs.
Import ListNotations.
Open Scope Q_scope.

Ltac proj := cbn [vx vy vz c0 c1 c2 lin tr fst snd].

(* ---------- the 48 orientations are exactly the valid ones ---------- *)
Definition list_letter_eqb (a b : list letter) : bool :=
  match a, b with
  | [a0; a1; a2], [b0; b1; b2] => letter_eqb a0 b0 && letter_eqb a1 b1 && letter_eqb a2 b2
  | _, _ => false
  end.
Lemma letter_eqb_eq a b : letter_eqb a b = true -> a = b.
Proof. destruct a, b; cbn; intro H; try discriminate; reflexivity. Qed.
Lemma list_letter_eqb_eq a b : list_letter_eqb a b = true -> a = b.
Proof.
  destruct a as [|a0 [|a1 [|a2 [|]]]]; cbn; try discriminate.
  destruct b as [|b0 [|b1 [|b2 [|]]]]; try discriminate.
  intro H. apply andb_true_iff in H as (H & H2). apply andb_true_iff in H as (H0 & H1).
  apply letter_eqb_eq in H0, H1, H2. subst. reflexivity.
Qed.
Lemma existsb_In48 c : existsb (list_letter_eqb c) all48 = true -> In c all48.
Proof.
  intro H. apply existsb_exists in H as (x & Hx & E). apply list_letter_eqb_eq in E. subst. exact Hx.
Qed.

Definition six : list letter := [oL; oR; oP; oA; oH; oF].
Lemma six_all l : In l six. Proof. destruct l; cbn; tauto. Qed.

Lemma valid_po_complete_b :
  forallb (fun a => forallb (fun b => forallb (fun c =>
    implb (valid_po [a; b; c]) (existsb (list_letter_eqb [a; b; c]) all48)) six) six) six = true.
Proof. vm_compute. reflexivity. Qed.

Theorem valid_po_iff c : (length c = 3%nat /\ valid_po c = true) <-> In c all48.
Proof.
  split.
  - intros (L & V). destruct c as [|a [|b [|d [|]]]]; try discriminate L.
    pose proof valid_po_complete_b as H.
    rewrite forallb_forall in H. specialize (H a (six_all a)).
    rewrite forallb_forall in H. specialize (H b (six_all b)).
    rewrite forallb_forall in H. specialize (H d (six_all d)).
    rewrite V in H. cbn [implb] in H. apply existsb_In48. exact H.
  - intro H.
    assert (A : forallb (fun c => Nat.eqb (length c) 3 && valid_po c) all48 = true) by (vm_compute; reflexivity).
    rewrite forallb_forall in A. specialize (A c H). apply andb_true_iff in A as (A1 & A2).
    apply Nat.eqb_eq in A1. split; assumption.
Qed.

Theorem all48_count : length all48 = 48%nat /\ NoDup all48.
Proof.
  split; [reflexivity|].
  assert (D : forall (l : list (list letter)),
    (fix nd (l : list (list letter)) : bool :=
       match l with [] => true | x :: t => negb (existsb (list_letter_eqb x) t) && nd t end) l = true ->
    Forall (fun c => length c = 3%nat) l -> NoDup l).
  { induction l as [|x t IH]; intros H F; constructor.
    - apply andb_true_iff in H as (H & _). apply negb_true_iff in H. intro I.
      assert (existsb (list_letter_eqb x) t = true).
      { apply existsb_exists. exists x. split; [exact I|].
        inversion F as [|? ? Lx _]; subst. destruct x as [|a [|b [|d [|]]]]; try discriminate Lx.
        cbn. destruct a, b, d; reflexivity. }
      congruence.
    - apply andb_true_iff in H as (_ & H). inversion F; subst. apply IH; assumption. }
  apply D; [vm_compute; reflexivity|].
  apply Forall_forall. intros c H. apply valid_po_iff in H. tauto.
Qed.

(* ---------- scaling invariance of the closest orientation ---------- *)
Lemma Qle_bool_scale s a b : 0 < s -> Qle_bool (s * a) (s * b) = Qle_bool a b.
Proof.
  intro H. apply eq_true_iff_eq. rewrite !Qle_bool_iff. apply Qmult_le_l. exact H.
Qed.
Lemma Qabs_scale s a : 0 < s -> Qabs (s * a) == s * Qabs a.
Proof. intro H. rewrite Qabs_Qmult. rewrite (Qabs_pos s); [reflexivity | apply Qlt_le_weak; exact H]. Qed.
Lemma Qle_bool_proper a b c d : a == b -> c == d -> Qle_bool a c = Qle_bool b d.
Proof. intros H1 H2. apply eq_true_iff_eq. rewrite !Qle_bool_iff. rewrite H1, H2. reflexivity. Qed.
Lemma Qlt_b_abs_scale s a b : 0 < s -> Qlt_b (Qabs (s * a)) (Qabs (s * b)) = Qlt_b (Qabs a) (Qabs b).
Proof.
  intro H. unfold Qlt_b. f_equal.
  rewrite (Qle_bool_proper _ _ _ _ (Qabs_scale s b H) (Qabs_scale s a H)). apply Qle_bool_scale. exact H.
Qed.
Lemma Qlt_b_0_scale s a : 0 < s -> Qlt_b 0 (s * a) = Qlt_b 0 a.
Proof.
  intro H. unfold Qlt_b. f_equal.
  assert (E : 0 == s * 0) by ring.
  rewrite (Qle_bool_proper (s * a) (s * a) 0 (s * 0) (Qeq_refl _) E). apply Qle_bool_scale. exact H.
Qed.

Lemma order3_scale s v : 0 < s -> order3 (smul s v) = order3 v.
Proof.
  intro H. unfold order3, smul; proj. cbn [insert_desc snd fst].
  rewrite !(Qlt_b_abs_scale s _ _ H).
  destruct (Qlt_b (Qabs (vx v)) (Qabs (vy v))); cbn [insert_desc snd fst];
    rewrite ?(Qlt_b_abs_scale s _ _ H);
    repeat match goal with |- context [if ?b then _ else _] => destruct b end; reflexivity.
Qed.
Lemma vget_smul s v i : vget (smul s v) i = s * vget v i.
Proof. destruct i as [|[|i]]; reflexivity. Qed.
Lemma closest_col_scale used s v : 0 < s -> closest_col used (smul s v) = closest_col used v.
Proof.
  intro H. unfold closest_col. rewrite (order3_scale s v H). rewrite vget_smul.
  rewrite (Qlt_b_0_scale s _ H). reflexivity.
Qed.
Theorem closest_letters_scale s0 s1 s2 u0 u1 u2 : 0 < s0 -> 0 < s1 -> 0 < s2 ->
  closest_letters (M3 (smul s0 u0) (smul s1 u1) (smul s2 u2)) = closest_letters (M3 u0 u1 u2).
Proof.
  intros H0 H1 H2. unfold closest_letters; proj.
  rewrite (closest_col_scale [] s0 u0 H0). destruct (closest_col [] u0) as [i0 l0].
  rewrite (closest_col_scale [i0] s1 u1 H1). destruct (closest_col [i0] u1) as [i1 l1].
  rewrite (closest_col_scale [i0; i1] s2 u2 H2). reflexivity.
Qed.

(* an exactly orthogonal matrix passes _is_matrix_orthogonal(require_unit=False) *)
Lemma allclose1_exact atol a b : 0 <= atol -> a == b -> allclose1 atol a b = true.
Proof.
  intros Ht E. unfold allclose1. apply Qle_bool_iff.
  setoid_replace (a - b) with 0 by (rewrite E; ring). cbn [Qabs Qnum Z.abs].
  setoid_replace 0 with (0 + 0) at 1 by ring. apply Qplus_le_compat; [exact Ht|].
  apply Qmult_le_0_compat; [discriminate | apply Qabs_nonneg].
Qed.
Lemma is_orthogonal_exact M : ortho_cols M -> is_orthogonal M false tol5 = true.
Proof.
  intros (H1 & H2 & H3). unfold is_orthogonal.
  assert (T : 0 <= tol5) by discriminate.
  rewrite !allclose1_exact; try assumption; reflexivity.
Qed.
Lemma is_orthogonal_unit_exact M : ortho_cols M -> veq (norms_sq M) (V3 1 1 1) ->
  is_orthogonal M true tol5 = true.
Proof.
  intros (H1 & H2 & H3) (N0 & N1 & N2). unfold norms_sq in *; cbn [vx vy vz] in *. unfold is_orthogonal.
  assert (T : 0 <= tol5) by discriminate.
  rewrite !allclose1_exact; try assumption; reflexivity.
Qed.

Definition letters3 (o : list letter) : mat :=
  match o with
  | [l0; l1; l2] => M3 (letter_vec l0) (letter_vec l1) (letter_vec l2)
  | _ => mident
  end.

Lemma letters_unit_b :
  forallb (fun o => list_letter_eqb (closest_letters (letters3 o)) o &&
                    Qeq_bool (dot (c0 (letters3 o)) (c1 (letters3 o))) 0 &&
                    Qeq_bool (dot (c0 (letters3 o)) (c2 (letters3 o))) 0 &&
                    Qeq_bool (dot (c1 (letters3 o)) (c2 (letters3 o))) 0) all48 = true.
Proof. vm_compute. reflexivity. Qed.

Lemma ortho_cols_scale s0 s1 s2 u0 u1 u2 : ortho_cols (M3 u0 u1 u2) ->
  ortho_cols (M3 (smul s0 u0) (smul s1 u1) (smul s2 u2)).
Proof.
  unfold ortho_cols; proj. intros (H1 & H2 & H3). rewrite !dot_smul, H1, H2, H3. repeat split; ring.
Qed.

(* letters -> matrix -> letters is the identity, for all 48 orientations and all
   positive spacings *)
Theorem letters_matrix o s0 s1 s2 : In o all48 -> 0 < s0 -> 0 < s1 -> 0 < s2 ->
  exists M, rot_for_letters o [s0; s1; s2] = Ok M /\ get_closest_patient_orientation M = Ok o.
Proof.
  intros I H0 H1 H2.
  pose proof letters_unit_b as B. rewrite forallb_forall in B. specialize (B o I).
  apply valid_po_iff in I as (L & _).
  apply andb_true_iff in B as (B & Q3). apply andb_true_iff in B as (B & Q2).
  apply andb_true_iff in B as (B & Q1). apply list_letter_eqb_eq in B.
  destruct o as [|l0 [|l1 [|l2 [|]]]]; try discriminate L.
  cbn [letters3 c0 c1 c2] in *.
  eexists. split; [reflexivity|].
  unfold get_closest_patient_orientation.
  assert (OC : ortho_cols (M3 (letter_vec l0) (letter_vec l1) (letter_vec l2))).
  { unfold ortho_cols; proj. repeat split; apply Qeq_bool_eq; assumption. }
  rewrite (is_orthogonal_exact _ (ortho_cols_scale s0 s1 s2 _ _ _ OC)).
  rewrite closest_letters_scale by assumption.
  rewrite B. reflexivity.
Qed.

Lemma all_some_length {A B} (f : A -> option B) l c : all_some (map f l) = Some c -> length c = length l.
Proof.
  revert c. induction l as [|a l IH]; intros c H.
  - cbn in H. injection H as <-. reflexivity.
  - cbn [map all_some] in H. destruct (f a); [|discriminate].
    destruct (all_some (map f l)) as [r|]; [|discriminate]. injection H as <-.
    cbn [length]. f_equal. apply IH. reflexivity.
Qed.
Lemma normalize_po_all48 po o : normalize_po po = Ok o -> In o all48.
Proof.
  intro N. apply valid_po_iff.
  unfold normalize_po in N. destruct (Nat.eqb (length po) 3) eqn:E; cbn [negb] in N; [|discriminate].
  destruct (all_some (map letter_of_ascii po)) as [c|] eqn:A; [|discriminate].
  destruct (valid_po c) eqn:V; [|discriminate]. injection N as <-. split; [|exact V].
  apply Nat.eqb_eq in E. rewrite (all_some_length _ _ _ A). exact E.
Qed.
Theorem letters_matrix_strings po o s0 s1 s2 : normalize_po po = Ok o -> 0 < s0 -> 0 < s1 -> 0 < s2 ->
  exists M, rotation_for_patient_orientation po (SSeq [s0; s1; s2]) = Ok M /\
            get_closest_patient_orientation M = Ok o.
Proof.
  intros N H0 H1 H2. unfold rotation_for_patient_orientation. rewrite N. cbn [bind].
  apply letters_matrix; try assumption. apply (normalize_po_all48 _ _ N).
Qed.

(* scalar spacing *)
Theorem letters_matrix_scalar o s : In o all48 -> 0 < s ->
  exists M, rot_for_letters o [s; s; s] = Ok M /\ get_closest_patient_orientation M = Ok o.
Proof. intros I H. apply letters_matrix; assumption. Qed.

(* ================= reference conventions ================= *)
Lemma meq_refl M : meq M M. Proof. repeat split; reflexivity. Qed.
Lemma aeq_refl A : aeq A A. Proof. split; [apply meq_refl | apply veq_refl]. Qed.
Lemma aeq_sym A B : aeq A B -> aeq B A.
Proof. intros ((H0 & H1 & H2) & H3). repeat split; first [apply H0 | apply H1 | apply H2 | apply H3 | idtac]; symmetry;
  first [apply H0 | apply H1 | apply H2 | apply H3]. Qed.
Lemma aeq_trans A B C : aeq A B -> aeq B C -> aeq A C.
Proof.
  intros ((H0 & H1 & H2) & H3) ((K0 & K1 & K2) & K3).
  split; [split; [|split]|]; etransitivity; eassumption.
Qed.

Definition nthb (f : list bool) (i : nat) : bool := nth i f false.
Definition nthn (p : list nat) (k : nat) : nat := nth k p 0%nat.
Definition vop (f : list bool) (p : list nat) (v : vec) : vec :=
  V3 (sgn (nthb f (nthn p 0)) * vget v (nthn p 0))
     (sgn (nthb f (nthn p 1)) * vget v (nthn p 1))
     (sgn (nthb f (nthn p 2)) * vget v (nthn p 2)).
Definition aop (f : list bool) (p : list nat) (A : aff) : aff :=
  Aff (M3 (vop f p (c0 (lin A))) (vop f p (c1 (lin A))) (vop f p (c2 (lin A)))) (vop f p (tr A)).

Lemma vget_proper v w i : veq v w -> vget v i == vget w i.
Proof. intros (H1 & H2 & H3). destruct i as [|[|i]]; assumption. Qed.
Lemma vop_proper f p v w : veq v w -> veq (vop f p v) (vop f p w).
Proof.
  intro H. unfold veq, vop; proj.
  rewrite (vget_proper v w (nthn p 0) H), (vget_proper v w (nthn p 1) H), (vget_proper v w (nthn p 2) H).
  repeat split; reflexivity.
Qed.
Lemma aop_proper f p A B : aeq A B -> aeq (aop f p A) (aop f p B).
Proof.
  intros ((H0 & H1 & H2) & H3). unfold aop. split; [split; [|split]|]; proj; apply vop_proper; assumption.
Qed.
Lemma vget_vop f p v k : (k < 3)%nat ->
  vget (vop f p v) k = sgn (nthb f (nthn p k)) * vget v (nthn p k).
Proof. intro H. destruct k as [|[|[|k]]]; try reflexivity. lia. Qed.
Lemma sgn_xorb a b : sgn (xorb a b) == sgn a * sgn b.
Proof. destruct a, b; cbn; ring. Qed.

Definition comp_cond (f1 f2 f3 : list bool) (p1 p2 p3 : list nat) (k : nat) : bool :=
  Nat.ltb (nthn p2 k) 3 && Nat.eqb (nthn p3 k) (nthn p1 (nthn p2 k)) &&
  Bool.eqb (nthb f3 (nthn p3 k)) (xorb (nthb f2 (nthn p2 k)) (nthb f1 (nthn p3 k))).

Lemma vop_compose f1 f2 f3 p1 p2 p3 v :
  comp_cond f1 f2 f3 p1 p2 p3 0 = true -> comp_cond f1 f2 f3 p1 p2 p3 1 = true ->
  comp_cond f1 f2 f3 p1 p2 p3 2 = true ->
  veq (vop f2 p2 (vop f1 p1 v)) (vop f3 p3 v).
Proof.
  intros C0 C1 C2.
  assert (K : forall k, comp_cond f1 f2 f3 p1 p2 p3 k = true ->
     sgn (nthb f2 (nthn p2 k)) * vget (vop f1 p1 v) (nthn p2 k) == sgn (nthb f3 (nthn p3 k)) * vget v (nthn p3 k)).
  { intros k C. unfold comp_cond in C. apply andb_true_iff in C as (C & E3). apply andb_true_iff in C as (L & E2).
    apply Nat.ltb_lt in L. apply Nat.eqb_eq in E2. apply Bool.eqb_prop in E3.
    rewrite (vget_vop f1 p1 v _ L). rewrite <- E2. rewrite E3. rewrite sgn_xorb. ring. }
  unfold veq. unfold vop at 1 4 7. proj. unfold vop at 2 4 6. proj.
  split; [apply (K 0%nat C0) | split; [apply (K 1%nat C1) | apply (K 2%nat C2)]].
Qed.

(* the code path for given flips / permutation *)
Lemma flip_rows_veq v f0 f1 f2 :
  veq (flip_rows v f0 f1 f2) (V3 (sgn f0 * vx v) (sgn f1 * vy v) (sgn f2 * vz v)).
Proof. apply veq_refl. Qed.

Lemma flip_reference_step_eq A f0 f1 f2 :
  aeq (flip_reference_step A f0 f1 f2)
      (Aff (M3 (flip_rows (c0 (lin A)) f0 f1 f2) (flip_rows (c1 (lin A)) f0 f1 f2) (flip_rows (c2 (lin A)) f0 f1 f2))
           (flip_rows (tr A) f0 f1 f2)).
Proof.
  unfold flip_reference_step. destruct (f0 || f1 || f2) eqn:E; [apply aeq_refl|].
  destruct f0, f1, f2; try discriminate E.
  unfold aeq, meq, veq, flip_rows, sgn; proj. repeat split; ring.
Qed.

Lemma vperm_flip_rows v f0 f1 f2 p0 p1 p2 : (p0 < 3)%nat -> (p1 < 3)%nat -> (p2 < 3)%nat ->
  vperm (flip_rows v f0 f1 f2) p0 p1 p2 = vop [f0; f1; f2] [p0; p1; p2] v.
Proof.
  intros H0 H1 H2. unfold vperm, vop, nthn, nthb. cbn [nth].
  destruct p0 as [|[|[|p0]]]; try lia; destruct p1 as [|[|[|p1]]]; try lia; destruct p2 as [|[|[|p2]]]; try lia;
    reflexivity.
Qed.
Lemma vperm_proper v w p0 p1 p2 : veq v w -> veq (vperm v p0 p1 p2) (vperm w p0 p1 p2).
Proof.
  intro H. unfold veq, vperm; proj. repeat split; apply vget_proper; exact H.
Qed.
Lemma permute_reference_step_proper A B p0 p1 p2 : aeq A B ->
  aeq (permute_reference_step A p0 p1 p2) (permute_reference_step B p0 p1 p2).
Proof.
  intros ((H0 & H1 & H2) & H3). unfold permute_reference_step.
  split; [split; [|split]|]; proj; apply vperm_proper; assumption.
Qed.

Definition lt3 (p : nat) : bool := Nat.ltb p 3.

Lemma transform_reference_only A n0 n1 n2 f0 f1 f2 p0 p1 p2 :
  valid_perm [Z.of_nat p0; Z.of_nat p1; Z.of_nat p2] = true ->
  lt3 p0 = true -> lt3 p1 = true -> lt3 p2 = true ->
  exists R, transform_affine_matrix A [n0; n1; n2] None (Some [f0; f1; f2]) None
              (Some [Z.of_nat p0; Z.of_nat p1; Z.of_nat p2]) = Ok R /\
            aeq R (aop [f0; f1; f2] [p0; p1; p2] A).
Proof.
  intros V L0 L1 L2. unfold lt3 in L0, L1, L2. apply Nat.ltb_lt in L0, L1, L2.
  unfold transform_affine_matrix. cbn [bool3 bind]. unfold flip_indices_step. cbn [orb].
  rewrite V. rewrite !Nat2Z.id. eexists. split; [reflexivity|].
  eapply aeq_trans; [apply permute_reference_step_proper, flip_reference_step_eq|].
  unfold permute_reference_step, aop; proj. rewrite !vperm_flip_rows by assumption. apply aeq_refl.
Qed.

(* nat-indexed view of convention_ops *)
Definition convention_ops_nat (from to : list letter) : option (list bool * list nat) :=
  match all_some (map (fun d => if mem_letter d from then index_of d from 0 else index_of (opposite d) from 0) to) with
  | Some p => Some (map (fun d => negb (mem_letter d to)) from, p)
  | None => None
  end.
Lemma convention_ops_nat_eq from to f p : convention_ops_nat from to = Some (f, p) ->
  convention_ops from to = Ok (f, map Z.of_nat p).
Proof.
  unfold convention_ops_nat, convention_ops.
  destruct (all_some _) as [q|]; [|discriminate]. intro H; injection H as <- <-. reflexivity.
Qed.

Definition ops_ok (a b : list letter) : bool :=
  match convention_ops_nat a b with
  | Some ([f0; f1; f2], [p0; p1; p2]) =>
      valid_perm [Z.of_nat p0; Z.of_nat p1; Z.of_nat p2] && lt3 p0 && lt3 p1 && lt3 p2
  | _ => false
  end.
Definition comp_ok (a b c : list letter) : bool :=
  match convention_ops_nat a b, convention_ops_nat b c, convention_ops_nat a c with
  | Some (f1, p1), Some (f2, p2), Some (f3, p3) =>
      comp_cond f1 f2 f3 p1 p2 p3 0 && comp_cond f1 f2 f3 p1 p2 p3 1 && comp_cond f1 f2 f3 p1 p2 p3 2
  | _, _, _ => false
  end.
Definition ident_ok (a : list letter) : bool :=
  match convention_ops_nat a a with
  | Some ([false; false; false], [O; S O; S (S O)]) => true
  | _ => false
  end.
(* meaning: output axis k is the input axis with the same anatomical axis, negated iff the letters differ *)
Definition meaning_ok (a b : list letter) : bool :=
  match convention_ops_nat a b with
  | Some (f, p) =>
      forallb (fun k => let j := nthn p k in
                 match nth_error a j, nth_error b k with
                 | Some x, Some y => Nat.eqb (axis_of x) (axis_of y) && Bool.eqb (nthb f j) (negb (letter_eqb x y))
                 | _, _ => false
                 end) [0; 1; 2]%nat
  | None => false
  end.

Lemma ops_ok_all : forallb (fun a => forallb (fun b => ops_ok a b && meaning_ok a b) all48) all48 = true.
Proof. vm_compute. reflexivity. Qed.
Lemma ident_ok_all : forallb ident_ok all48 = true.
Proof. vm_compute. reflexivity. Qed.
Lemma comp_ok_all : forallb (fun a => forallb (fun b => forallb (fun c => comp_ok a b c) all48) all48) all48 = true.
Proof. vm_compute. reflexivity. Qed.

Lemma to_convention_spec A n0 n1 n2 a b : In a all48 -> In b all48 ->
  exists f p R, convention_ops_nat a b = Some (f, p) /\
                to_convention_letters A [n0; n1; n2] a b = Ok R /\ aeq R (aop f p A).
Proof.
  intros Ia Ib. pose proof ops_ok_all as H. rewrite forallb_forall in H. specialize (H a Ia).
  rewrite forallb_forall in H. specialize (H b Ib). apply andb_true_iff in H as (H & _).
  unfold ops_ok in H. destruct (convention_ops_nat a b) as [[f p]|] eqn:E; [|discriminate].
  destruct f as [|f0 [|f1 [|f2 [|]]]]; try discriminate. destruct p as [|p0 [|p1 [|p2 [|]]]]; try discriminate.
  apply andb_true_iff in H as (H & L2). apply andb_true_iff in H as (H & L1). apply andb_true_iff in H as (V & L0).
  destruct (transform_reference_only A n0 n1 n2 f0 f1 f2 p0 p1 p2 V L0 L1 L2) as (R & HR & AR).
  exists [f0; f1; f2], [p0; p1; p2], R. split; [reflexivity|]. split; [|exact AR].
  unfold to_convention_letters. rewrite (convention_ops_nat_eq _ _ _ _ E). cbn [bind fst snd map]. exact HR.
Qed.

Theorem convention_identity A n0 n1 n2 a : In a all48 ->
  exists R, to_convention_letters A [n0; n1; n2] a a = Ok R /\ aeq R A.
Proof.
  intro Ia. destruct (to_convention_spec A n0 n1 n2 a a Ia Ia) as (f & p & R & E & HR & AR).
  exists R. split; [exact HR|]. eapply aeq_trans; [exact AR|].
  pose proof ident_ok_all as H. rewrite forallb_forall in H. specialize (H a Ia). unfold ident_ok in H. rewrite E in H.
  destruct f as [|[] [|[] [|[] [|]]]]; try discriminate.
  destruct p as [|[|] [|[|[|]] [|[|[|[|]]] [|]]]]; try discriminate.
  unfold aeq, meq, veq, aop, vop, nthn, nthb, sgn; cbn [nth vget]; proj. repeat split; ring.
Qed.

Theorem convention_compose A n0 n1 n2 a b c : In a all48 -> In b all48 -> In c all48 ->
  exists R1 R2 R3,
    to_convention_letters A [n0; n1; n2] a b = Ok R1 /\
    to_convention_letters R1 [n0; n1; n2] b c = Ok R2 /\
    to_convention_letters A [n0; n1; n2] a c = Ok R3 /\ aeq R2 R3.
Proof.
  intros Ia Ib Ic.
  destruct (to_convention_spec A n0 n1 n2 a b Ia Ib) as (f1 & p1 & R1 & E1 & H1 & A1).
  destruct (to_convention_spec R1 n0 n1 n2 b c Ib Ic) as (f2 & p2 & R2 & E2 & H2 & A2).
  destruct (to_convention_spec A n0 n1 n2 a c Ia Ic) as (f3 & p3 & R3 & E3 & H3 & A3).
  exists R1, R2, R3. repeat (split; [assumption|]).
  pose proof comp_ok_all as H. rewrite forallb_forall in H. specialize (H a Ia).
  rewrite forallb_forall in H. specialize (H b Ib). rewrite forallb_forall in H. specialize (H c Ic).
  unfold comp_ok in H. rewrite E1, E2, E3 in H.
  apply andb_true_iff in H as (H & C2). apply andb_true_iff in H as (C0 & C1).
  eapply aeq_trans; [exact A2|]. eapply aeq_trans; [apply aop_proper; exact A1|].
  eapply aeq_trans; [|apply aeq_sym; exact A3].
  unfold aop; proj. split; [split; [|split]|]; proj; apply vop_compose; assumption.
Qed.

(* meaning of the operation in terms of the letters *)
Theorem convention_meaning A n0 n1 n2 a b : In a all48 -> In b all48 ->
  exists f p R, to_convention_letters A [n0; n1; n2] a b = Ok R /\ aeq R (aop f p A) /\
    forall k, (k < 3)%nat -> exists x y, nth_error a (nthn p k) = Some x /\ nth_error b k = Some y /\
      axis_of x = axis_of y /\ nthb f (nthn p k) = negb (letter_eqb x y).
Proof.
  intros Ia Ib. destruct (to_convention_spec A n0 n1 n2 a b Ia Ib) as (f & p & R & E & HR & AR).
  exists f, p, R. split; [exact HR|]. split; [exact AR|].
  pose proof ops_ok_all as H. rewrite forallb_forall in H. specialize (H a Ia).
  rewrite forallb_forall in H. specialize (H b Ib). apply andb_true_iff in H as (_ & H).
  unfold meaning_ok in H. rewrite E in H. rewrite forallb_forall in H.
  intros k Hk. assert (Ik : In k [0; 1; 2]%nat) by (destruct k as [|[|[|k]]]; cbn; try tauto; lia).
  specialize (H k Ik). cbn beta zeta in H.
  destruct (nth_error a (nthn p k)) as [x|]; [|discriminate]. destruct (nth_error b k) as [y|]; [|discriminate].
  apply andb_true_iff in H as (H1 & H2). apply Nat.eqb_eq in H1. apply Bool.eqb_prop in H2.
  exists x, y. repeat split; assumption.
Qed.

(* malformed conventions are refused *)
Theorem convention_refuses A shape from to :
  (forall o, normalize_po from <> Ok o) \/ (forall o, normalize_po to <> Ok o) ->
  exists k, transform_affine_to_convention A shape from to = Err k.
Proof.
  intros [H|H]; unfold transform_affine_to_convention.
  - destruct (normalize_po from) as [o|k]; [exfalso; apply (H o); reflexivity | eexists; reflexivity].
  - destruct (normalize_po from) as [o|k]; [|eexists; reflexivity]. cbn [bind].
    destruct (normalize_po to) as [o'|k]; [exfalso; apply (H o'); reflexivity | eexists; reflexivity].
Qed.
