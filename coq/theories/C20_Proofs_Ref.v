(* C20 - proofs, part 5: VOI LUT transformations that refer to frames of the
   referenced images (the check leaves the caller's frame numbers alone - on
   acceptance and on refusal -, accepts only pairwise disjoint claims on known
   images and accepts every such combination on multi-frame images; a check whose
   accumulator is the caller's own multi-valued element is refuted), and copies
   of objects that already are objects of the library (no copying operation
   writes to the original; handing the instance dictionary itself to the copier
   does, exactly for image objects and every operation but copy=False). *)
From Coq Require Import String ZArith List Bool Arith PeanoNat Lia.
From HD Require Import Base.Val C20_Model C20_Model_Ref.
Import ListNotations.
Open Scope Z_scope.

(* ------------------------------------------------------------ store *)
Lemma lookup_set s i a q :
  lookup_acc (set_acc s i a) q = if Nat.eqb i q then Some a else lookup_acc s q.
Proof.
  induction s as [|[j b] r IH]; cbn [set_acc lookup_acc].
  - reflexivity.
  - destruct (Nat.eqb_spec j i) as [->|Hji]; cbn [lookup_acc].
    + destruct (Nat.eqb_spec i q); reflexivity.
    + rewrite IH. destruct (Nat.eqb_spec j q) as [->|Hjq]; destruct (Nat.eqb_spec i q) as [->|Hiq];
        try reflexivity. congruence.
Qed.

(* the frames an accumulator of the function's own holds for image i *)
Definition acc_of (s : store) (i : nat) : list Z :=
  match lookup_acc s i with Some (AFresh l) => l | _ => [] end.
(* no accumulator is an object of the caller *)
Definition fresh_store (s : store) : Prop := forall i t k, lookup_acc s i <> Some (AAlias t k).
(* the accumulators hold exactly the claims processed so far *)
Definition Inv (s : store) (done : list (nat * Z)) : Prop :=
  forall i f, In f (acc_of s i) <-> In (i, f) done.

Lemma acc_of_set s i l q : acc_of (set_acc s i (AFresh l)) q = if Nat.eqb i q then l else acc_of s q.
Proof. unfold acc_of. rewrite lookup_set. destruct (Nat.eqb i q); reflexivity. Qed.

Lemma fresh_set s i l : fresh_store s -> fresh_store (set_acc s i (AFresh l)).
Proof.
  intros H q t k. rewrite lookup_set. destruct (Nat.eqb i q); [discriminate | apply H].
Qed.

Lemma cur_acc_fresh s i : fresh_store s ->
  match lookup_acc s i with Some a => a | None => AFresh [] end = AFresh (acc_of s i).
Proof.
  intros Hf. unfold acc_of. destruct (lookup_acc s i) as [[l|t k]|] eqn:E; try reflexivity.
  exfalso. exact (Hf i t k E).
Qed.

Lemma zmem_In f l : zmem f l = true <-> In f l.
Proof.
  unfold zmem. rewrite existsb_exists. split.
  - intros (x & Hx & He). apply Z.eqb_eq in He. subst. exact Hx.
  - intros H. exists f. split; [exact H | apply Z.eqb_refl].
Qed.

Lemma NoDup_snoc {A} (l : list A) x : NoDup l -> ~ In x l -> NoDup (l ++ [x]).
Proof.
  induction l as [|y r IH]; intros Hn Hx; cbn [app].
  - constructor; [intros []|constructor].
  - inversion Hn as [|? ? Hy Hr]; subst. constructor.
    + rewrite in_app_iff. intros [H|[H|[]]]; [exact (Hy H)|]. subst. apply Hx. left. reflexivity.
    + apply IH; [exact Hr|]. intros H. apply Hx. right. exact H.
Qed.

Lemma NoDup_app_l {A} (a b : list A) : NoDup (a ++ b) -> NoDup a.
Proof.
  induction a as [|x r IH]; cbn [app]; intros H; [constructor|].
  inversion H as [|? ? Hx Hr]; subst. constructor.
  - intros Hin. apply Hx. apply in_app_iff. left. exact Hin.
  - exact (IH Hr).
Qed.

Lemma Inv_step s i f done : Inv s done ->
  Inv (set_acc s i (AFresh (acc_of s i ++ [f]))) (done ++ [(i, f)]).
Proof.
  intros HI q g. rewrite acc_of_set. destruct (Nat.eqb_spec i q) as [->|Hiq].
  - rewrite !in_app_iff, (HI q g). cbn [In]. split.
    + intros [H|[H|[]]]; [left; exact H | right; left; congruence].
    + intros [H|[H|[]]]; [left; exact H | right; left; congruence].
  - rewrite in_app_iff, (HI q g). cbn [In]. split.
    + intros H. left. exact H.
    + intros [H|[H|[]]]; [exact H | congruence].
Qed.

(* ------------------------------------------------- one list of frames *)
Lemma add_frames_sound c i : forall fs s done c' s',
  fresh_store s -> Inv s done -> add_frames c s i fs = Ok (c', s') ->
  c' = c /\ fresh_store s' /\ Inv s' (done ++ map (pair i) fs) /\
  (NoDup done -> NoDup (done ++ map (pair i) fs)).
Proof.
  induction fs as [|f r IH]; intros s done c' s' Hf HI H; cbn [add_frames] in H.
  - inversion H; subst. cbn [map]. rewrite app_nil_r. exact (conj eq_refl (conj Hf (conj HI (fun x => x)))).
  - rewrite (cur_acc_fresh s i Hf) in H. cbn [contents acc_app] in H.
    destruct (zmem f (acc_of s i)) eqn:Ez; [discriminate|].
    assert (Hnot : ~ In (i, f) done).
    { intros Hin. apply (HI i f) in Hin. apply zmem_In in Hin. congruence. }
    apply (IH _ (done ++ [(i, f)])%list) in H; [|apply fresh_set; exact Hf|apply Inv_step; exact HI].
    destruct H as (-> & Hf' & HI' & HN). rewrite <- app_assoc in HI', HN. cbn [app] in HI', HN.
    cbn [map]. refine (conj eq_refl (conj Hf' (conj HI' _))).
    intros Hnd. apply HN. apply NoDup_snoc; assumption.
Qed.

Lemma add_frames_complete c i : forall fs s done,
  fresh_store s -> Inv s done -> NoDup (done ++ map (pair i) fs) ->
  exists s', add_frames c s i fs = Ok (c, s').
Proof.
  induction fs as [|f r IH]; intros s done Hf HI Hn; cbn [add_frames].
  - eexists. reflexivity.
  - rewrite (cur_acc_fresh s i Hf). cbn [contents acc_app]. cbn [map] in Hn.
    assert (Hnot : ~ In (i, f) done).
    { apply NoDup_remove_2 in Hn. intros Hin. apply Hn. apply in_app_iff. left. exact Hin. }
    destruct (zmem f (acc_of s i)) eqn:Ez.
    { exfalso. apply Hnot. apply (HI i f). apply zmem_In. exact Ez. }
    apply (IH _ (done ++ [(i, f)])%list); [apply fresh_set; exact Hf|apply Inv_step; exact HI|].
    rewrite <- app_assoc. exact Hn.
Qed.

Lemma add_frames_error i : forall fs c s k, add_frames c s i fs = Err k -> k = "ValueError"%string.
Proof.
  induction fs as [|f r IH]; intros c s k H; cbn [add_frames] in H; [discriminate|].
  destruct (zmem f _); [inversion H; reflexivity|].
  destruct (acc_app c _ [f]) as [c1 a1]. exact (IH _ _ _ H).
Qed.

(* ------------------------------------------------------- items, lists *)
Definition known (imgs : list rimg) (it : ritem) : Prop := (fst it < length imgs)%nat.

Lemma voi_item_sound imgs c s t k it done c' s' :
  fresh_store s -> Inv s done -> voi_item false imgs (c, s) t k it = Ok (c', s') ->
  c' = c /\ fresh_store s' /\ Inv s' (done ++ item_claims imgs it) /\
  (NoDup done -> NoDup (done ++ item_claims imgs it)) /\ known imgs it.
Proof.
  intros Hf HI H. unfold voi_item in H. unfold item_claims, known. destruct it as [i f]. cbn [fst snd].
  destruct (nth_error imgs i) as [im|] eqn:E; [|discriminate].
  destruct (keyed s i && negb (ri_mf im)); [discriminate|].
  apply (add_frames_sound c i _ s done) in H; [|exact Hf|exact HI].
  destruct H as (H1 & H2 & H3 & H4). refine (conj H1 (conj H2 (conj H3 (conj H4 _)))).
  apply nth_error_Some. congruence.
Qed.

Lemma voi_items_sound imgs t : forall its c s k done c' s',
  fresh_store s -> Inv s done -> voi_items false imgs (c, s) t k its = Ok (c', s') ->
  c' = c /\ fresh_store s' /\ Inv s' (done ++ flat_map (item_claims imgs) its) /\
  (NoDup done -> NoDup (done ++ flat_map (item_claims imgs) its)) /\ Forall (known imgs) its.
Proof.
  induction its as [|it r IH]; intros c s k done c' s' Hf HI H; cbn [voi_items] in H.
  - inversion H; subst. cbn [flat_map]. rewrite app_nil_r.
    exact (conj eq_refl (conj Hf (conj HI (conj (fun x => x) (Forall_nil _))))).
  - destruct (voi_item false imgs (c, s) t k it) as [[c1 s1]|e] eqn:E1; cbn [bind] in H; [|discriminate].
    apply (voi_item_sound imgs c s t k it done) in E1; [|exact Hf|exact HI].
    destruct E1 as (-> & Hf1 & HI1 & HN1 & Hk).
    apply (IH _ _ _ (done ++ item_claims imgs it)%list) in H; [|exact Hf1|exact HI1].
    destruct H as (-> & Hf2 & HI2 & HN2 & Hks). cbn [flat_map]. rewrite app_assoc.
    refine (conj eq_refl (conj Hf2 (conj HI2 (conj _ (Forall_cons _ Hk Hks))))).
    intros Hnd. exact (HN2 (HN1 Hnd)).
Qed.

Lemma voi_trans_sound imgs : forall ts c s t done c' s',
  fresh_store s -> Inv s done -> voi_trans false imgs (c, s) t ts = Ok (c', s') ->
  c' = c /\ fresh_store s' /\ Inv s' (done ++ claims imgs ts) /\
  (NoDup done -> NoDup (done ++ claims imgs ts)) /\ Forall (known imgs) (all_items ts).
Proof.
  unfold claims.
  induction ts as [|tr r IH]; intros c s t done c' s' Hf HI H; cbn [voi_trans] in H.
  - inversion H; subst. cbn [all_items flat_map]. rewrite app_nil_r.
    exact (conj eq_refl (conj Hf (conj HI (conj (fun x => x) (Forall_nil _))))).
  - destruct tr as [its|]; cbn [all_items flat_map] in *.
    + destruct (voi_items false imgs (c, s) t 0 its) as [[c1 s1]|e] eqn:E1; cbn [bind] in H; [|discriminate].
      apply (voi_items_sound imgs t its c s 0%nat done) in E1; [|exact Hf|exact HI].
      destruct E1 as (-> & Hf1 & HI1 & HN1 & Hk).
      apply (IH _ _ _ (done ++ flat_map (item_claims imgs) its)%list) in H; [|exact Hf1|exact HI1].
      destruct H as (-> & Hf2 & HI2 & HN2 & Hks).
      fold (all_items r) in *. rewrite flat_map_app, app_assoc.
      refine (conj eq_refl (conj Hf2 (conj HI2 (conj _ _)))).
      * intros Hnd. exact (HN2 (HN1 Hnd)).
      * apply Forall_app. split; assumption.
    + cbn [bind] in H. fold (all_items r) in *. cbn [app]. exact (IH _ _ _ _ _ _ Hf HI H).
Qed.

Lemma fresh_nil : fresh_store [].
Proof. intros i t k. cbn. discriminate. Qed.
Lemma Inv_nil : Inv [] [].
Proof. intros i f. cbn. tauto. Qed.

(* accepted: the caller's frame numbers are what they were, no (image, frame)
   is claimed twice, every reference is to an image of the presentation state *)
Theorem voi_refs_sound imgs ts c : voi_refs imgs ts = Ok c ->
  c = cells_of ts /\ NoDup (claims imgs ts) /\ Forall (known imgs) (all_items ts).
Proof.
  unfold voi_refs, voi_refs_gen. destruct ts as [|tr r]; [discriminate|]. set (ts := tr :: r).
  destruct ((1 <? length ts)%nat && negb (forallb has_refs ts)); [discriminate|].
  destruct (voi_trans false imgs (cells_of ts, []) 0 ts) as [[c1 s1]|e] eqn:E; cbn [bind]; [|discriminate].
  intros H. inversion H; subst. cbn [fst].
  apply (voi_trans_sound imgs ts _ _ _ []) in E; [|exact fresh_nil|exact Inv_nil].
  destruct E as (-> & _ & _ & HN & Hk). cbn [app] in HN.
  refine (conj eq_refl (conj (HN (NoDup_nil _)) Hk)).
Qed.

(* ------------------------------------------------------- completeness *)
Definition known_mf (imgs : list rimg) (it : ritem) : Prop :=
  exists im, nth_error imgs (fst it) = Some im /\ ri_mf im = true.

Lemma voi_item_complete imgs c s t k it done :
  fresh_store s -> Inv s done -> known_mf imgs it -> NoDup (done ++ item_claims imgs it) ->
  exists s', voi_item false imgs (c, s) t k it = Ok (c, s').
Proof.
  intros Hf HI (im & E & Hmf) Hn. unfold voi_item. unfold item_claims in Hn. destruct it as [i f].
  cbn [fst snd] in *. rewrite E in *. rewrite Hmf. cbn [negb]. rewrite andb_false_r.
  exact (add_frames_complete c i _ s done Hf HI Hn).
Qed.

Lemma voi_items_complete imgs t : forall its c s k done,
  fresh_store s -> Inv s done -> Forall (known_mf imgs) its ->
  NoDup (done ++ flat_map (item_claims imgs) its) ->
  exists s', voi_items false imgs (c, s) t k its = Ok (c, s').
Proof.
  induction its as [|it r IH]; intros c s k done Hf HI Hk Hn; cbn [voi_items].
  - eexists. reflexivity.
  - inversion Hk as [|? ? Hk1 Hkr]; subst. cbn [flat_map] in Hn. rewrite app_assoc in Hn.
    destruct (voi_item_complete imgs c s t k it done Hf HI Hk1) as (s1 & E1).
    { exact (NoDup_app_l _ _ Hn). }
    rewrite E1. cbn [bind].
    apply (voi_item_sound imgs c s t k it done) in E1; [|exact Hf|exact HI].
    destruct E1 as (_ & Hf1 & HI1 & _ & _).
    exact (IH c s1 (S k) _ Hf1 HI1 Hkr Hn).
Qed.

Lemma voi_trans_complete imgs : forall ts c s t done,
  fresh_store s -> Inv s done -> Forall (known_mf imgs) (all_items ts) ->
  NoDup (done ++ claims imgs ts) ->
  exists s', voi_trans false imgs (c, s) t ts = Ok (c, s').
Proof.
  unfold claims.
  induction ts as [|tr r IH]; intros c s t done Hf HI Hk Hn; cbn [voi_trans].
  - eexists. reflexivity.
  - destruct tr as [its|]; cbn [all_items flat_map] in *; fold (all_items r) in *.
    + apply Forall_app in Hk. destruct Hk as [Hk1 Hkr]. rewrite flat_map_app, app_assoc in Hn.
      destruct (voi_items_complete imgs t its c s 0%nat done Hf HI Hk1) as (s1 & E1).
      { exact (NoDup_app_l _ _ Hn). }
      rewrite E1. cbn [bind].
      apply (voi_items_sound imgs t its c s 0%nat done) in E1; [|exact Hf|exact HI].
      destruct E1 as (_ & Hf1 & HI1 & _ & _).
      exact (IH c s1 (S t) _ Hf1 HI1 Hkr Hn).
    + cbn [bind app] in *. exact (IH c s (S t) done Hf HI Hk Hn).
Qed.

Lemma voi_refs_gen_unfold alias imgs ts : ts <> [] ->
  voi_refs_gen alias imgs ts =
  if (1 <? length ts)%nat && negb (forallb has_refs ts) then Err "ValueError"%string
  else bind (voi_trans alias imgs (cells_of ts, []) 0 ts) (fun cs => Ok (fst cs)).
Proof. destruct ts; [congruence | reflexivity]. Qed.

(* every combination of pairwise disjoint claims on multi-frame images of the
   presentation state is accepted (and leaves the caller's frame numbers alone) *)
Theorem voi_refs_complete imgs ts :
  ts <> [] -> ((1 < length ts)%nat -> forallb has_refs ts = true) ->
  Forall (known_mf imgs) (all_items ts) -> NoDup (claims imgs ts) ->
  voi_refs imgs ts = Ok (cells_of ts).
Proof.
  intros Hne Hrefs Hk Hn. unfold voi_refs. rewrite (voi_refs_gen_unfold false imgs ts Hne).
  assert (Hc : (1 <? length ts)%nat && negb (forallb has_refs ts) = false).
  { destruct (1 <? length ts)%nat eqn:E1; [|reflexivity].
    apply Nat.ltb_lt in E1. rewrite (Hrefs E1). reflexivity. }
  rewrite Hc.
  destruct (voi_trans_complete imgs ts (cells_of ts) [] 0%nat [] fresh_nil Inv_nil Hk Hn) as (s' & E).
  exact (f_equal (fun x => bind x (fun cs : cells * store => Ok (fst cs))) E).
Qed.

(* ---------------------------------------------------------- refusals *)
Lemma voi_items_error imgs t : forall its cs k e,
  voi_items false imgs cs t k its = Err e -> e = "ValueError"%string.
Proof.
  induction its as [|it r IH]; intros cs k e H; cbn [voi_items] in H; [discriminate|].
  destruct (voi_item false imgs cs t k it) as [cs1|e1] eqn:E1; cbn [bind] in H.
  - exact (IH _ _ _ H).
  - inversion H; subst. unfold voi_item in E1. destruct cs as [c s]. destruct it as [i f].
    destruct (nth_error imgs i) as [im|]; [|inversion E1; reflexivity].
    destruct (keyed s i && negb (ri_mf im)); [inversion E1; reflexivity|].
    exact (add_frames_error _ _ _ _ _ E1).
Qed.

Lemma voi_trans_error imgs : forall ts cs t e,
  voi_trans false imgs cs t ts = Err e -> e = "ValueError"%string.
Proof.
  induction ts as [|tr r IH]; intros cs t e H; cbn [voi_trans] in H; [discriminate|].
  destruct tr as [its|].
  - destruct (voi_items false imgs cs t 0 its) as [cs1|e1] eqn:E1; cbn [bind] in H.
    + exact (IH _ _ _ H).
    + inversion H; subst. exact (voi_items_error _ _ _ _ _ _ E1).
  - cbn [bind] in H. exact (IH _ _ _ H).
Qed.

Theorem voi_refs_error imgs ts e : voi_refs imgs ts = Err e -> e = "ValueError"%string.
Proof.
  unfold voi_refs, voi_refs_gen. destruct ts as [|tr r]; [intros H; inversion H; reflexivity|]. set (ts := tr :: r).
  destruct ((1 <? length ts)%nat && negb (forallb has_refs ts)); [intros H; inversion H; reflexivity|].
  destruct (voi_trans false imgs (cells_of ts, []) 0 ts) as [cs|e1] eqn:E; cbn [bind]; [discriminate|].
  intros H. inversion H; subst. exact (voi_trans_error _ _ _ _ _ E).
Qed.

(* a single-frame image cannot be referenced by two items *)
Lemma single_frame_twice_refused :
  voi_refs [{| ri_mf := false; ri_n := 1 |}] [Some [(0%nat, None)]; Some [(0%nat, None)]] = Err "ValueError".
Proof. vm_compute. reflexivity. Qed.

(* the variant whose accumulator is the caller's own multi-valued element
   (seed C20-m10): accepted like the code, and the FIRST transformation of the
   caller now also lists the frames of the second *)
Lemma voi_alias_refuted : exists imgs ts c,
  voi_refs_aliasing imgs ts = Ok c /\ c <> cells_of ts /\ voi_refs imgs ts = Ok (cells_of ts) /\
  c = [[Some [1; 2; 3; 4]]; [Some [3; 4]]].
Proof.
  exists [{| ri_mf := true; ri_n := 6 |}], [Some [(0%nat, Some [1; 2])]; Some [(0%nat, Some [3; 4])]],
         [[Some [1; 2; 3; 4]]; [Some [3; 4]]].
  vm_compute. repeat split; try reflexivity. discriminate.
Qed.

(* ... but not when the first item that mentions the image lists ONE frame (a
   scalar element: the code wraps it in a list of its own) *)
Lemma voi_alias_single_first_unchanged :
  voi_refs_aliasing [{| ri_mf := true; ri_n := 6 |}] [Some [(0%nat, Some [6])]; Some [(0%nat, Some [1; 2])]]
  = Ok [[Some [6]]; [Some [1; 2]]].
Proof. vm_compute. reflexivity. Qed.

(* ----------------------------------------------- copies of objects *)
Lemma obj_copy_spec image op :
  snd (obj_copy image op) = false /\ (fst (obj_copy image op) = true <-> op = CFromNoCopy).
Proof.
  destruct image, op; vm_compute; (split; [reflexivity|]); split; intros H; try reflexivity; discriminate.
Qed.

(* exact write criterion for either way of obtaining the state *)
Lemma obj_copy_write_criterion copy_first image op :
  snd (run_ops View (obj_copy_ops_gen copy_first image op)) =
  negb copy_first && image && match op with CFromNoCopy => false | _ => true end.
Proof. destruct copy_first, image, op; reflexivity. Qed.

Lemma obj_copy_vars_writes_iff image op :
  snd (run_ops View (obj_copy_ops_vars image op)) = true <-> image = true /\ op <> CFromNoCopy.
Proof.
  unfold obj_copy_ops_vars. rewrite obj_copy_write_criterion.
  destruct image, op; cbn; split; try (intros [? ?]); try discriminate; try congruence;
    intros _; split; try reflexivity; discriminate.
Qed.

Lemma ex_voi_obj :
  run_voi_refs [(true, 6)] [Some [(0%nat, Some [1; 2])]; Some [(0%nat, Some [3; 4])]] =
    VL [VL [VL [vz_list [1; 2]]; VL [vz_list [3; 4]]]; VL [VL [vz_list [1; 2]]; VL [vz_list [3; 4]]]] /\
  run_voi_refs [(true, 6)] [Some [(0%nat, None)]; Some [(0%nat, Some [2])]] = VErr "ValueError" /\
  run_voi_refs [(true, 6)] [None] = VL [VL [VL []]; VL [VL []]] /\
  run_voi_refs [(true, 6)] [None; None] = VErr "ValueError" /\
  run_voi_refs [(true, 6)] [] = VErr "ValueError" /\
  run_voi_refs [(true, 3)] [Some [(1%nat, Some [1; 2])]] = VErr "ValueError" /\
  run_voi_refs [(false, 1); (false, 1)] [Some [(0%nat, None)]; Some [(1%nat, None)]] =
    VL [VL [VL [VNone]; VL [VNone]]; VL [VL [VNone]; VL [VNone]]] /\
  run_obj_copy true 0 = VL [VB false; VB false] /\ run_obj_copy true 1 = VL [VB true; VB false] /\
  run_obj_copy false 3 = VL [VB false; VB false].
Proof. vm_compute. repeat split; reflexivity. Qed.
