(* C01 - proofs, part 5: the full round trip.  Uniqueness of the frame keys,
   every (segment, source) fetch returns the derived plane (included or omitted),
   the pixel/channel transposition of read_plane, and the final theorem. *)
From Coq Require Import String ZArith List Bool Lia ZifyBool Arith Permutation.
From HD Require Import Base.Val Base.ListZ C01_Model C01_Proofs C01_Proofs_Frames C01_Proofs_Lut
  C01_Proofs_Value.
Import ListNotations.
Open Scope Z_scope.
Ltac Zify.zify_post_hook ::= Z.to_euclidean_division_equations.

(* ------------------------------------------------------------------ *)
(* the frame keys are unique                                            *)
(* ------------------------------------------------------------------ *)
Lemma nodup_keys_NoDup : forall m, NoDup m -> nodup_keys m = true.
Proof.
  induction m as [|[s j] t IH]; intros H; [reflexivity|].
  inversion H as [|? ? Hn Ht]; subst. cbn [nodup_keys]. rewrite (IH Ht), andb_true_r.
  apply negb_true_iff. destruct (existsb _ t) eqn:E; [|reflexivity]. exfalso.
  apply existsb_exists in E as ([s' j'] & Hin & Hk). cbn [fst snd] in Hk.
  assert (s' = s /\ j' = j) as (-> & ->) by lia. contradiction.
Qed.

Lemma keys_NoDup : forall c a order om, NoDup order -> NoDup (seg_iter c) ->
  NoDup (map key_of (frames_of c a order om)).
Proof.
  intros c a order om Ho Hs. unfold frames_of. rewrite map_flat_map.
  apply NoDup_flat_map; [exact Hs| |].
  - intros s _. rewrite map_flat_map. apply NoDup_flat_map; [exact Ho| |].
    + intros j _. destruct (negb (s =? 0) && om && all_zero (seg_plane c a s j)); cbn [map];
        [constructor|constructor; [intros []|constructor]].
    + intros x y z _ _ Hx Hy.
      destruct (negb (s =? 0) && om && all_zero (seg_plane c a s x)); [contradiction|].
      destruct (negb (s =? 0) && om && all_zero (seg_plane c a s y)); [contradiction|].
      destruct Hx as [<- | []]. destruct Hy as [Hy | []]. unfold key_of in Hy. cbn in Hy. congruence.
  - intros x y z _ _ Hx Hy.
    assert (Hfst : forall s, In z (map key_of (flat_map (fun j =>
                     if negb (s =? 0) && om && all_zero (seg_plane c a s j) then []
                     else [Frame s j (seg_plane c a s j)]) order)) -> fst z = s).
    { intros s H. apply in_map_iff in H as (f & <- & Hf). apply in_flat_map in Hf as (j & _ & Hf).
      destruct (negb (s =? 0) && om && all_zero (seg_plane c a s j)); [contradiction|].
      destruct Hf as [<- | []]. reflexivity. }
    rewrite <- (Hfst x Hx). now apply Hfst.
Qed.

(* ------------------------------------------------------------------ *)
(* planes that were dropped as empty read as zeros = the derived plane   *)
(* ------------------------------------------------------------------ *)
Definition carr_isf (a : carr) : bool := match a with CLabel b _ => b | CStack b _ => b end.

Lemma rhe_zero : forall b, 0 < b -> rhe 0 b = 0.
Proof.
  intros b Hb. unfold rhe. rewrite Z.div_0_l, Z.mod_0_l by lia.
  replace (2 * 0 <? b) with true by lia. reflexivity.
Qed.

Lemma stretch_zero : forall c, stretch c 0 = 0.
Proof. intros c. unfold stretch. destruct (ty c); reflexivity. Qed.

Lemma empty_plane_pixels : forall c a s j p,
  plane_nonempty c a j = false -> (carr_isf a = true -> 0 < den c) ->
  (s = 0 -> carr_isf a = false) ->
  0 <= p < zlen (seg_plane c a s j) ->
  nthz p (seg_plane c a s j) 0 = 0.
Proof.
  intros c a s j p Hne Hden Hs0 Hp. rewrite seg_plane_len in Hp.
  unfold plane_nonempty in Hne.
  destruct a as [isf qs | isf qs]; apply negb_false_iff in Hne; cbn [carr_isf] in *.
  - (* CLabel *)
    assert (Hq : quantised c isf (nthz p (nthz j qs []) 0) = 0).
    { rewrite <- (nthz_map (quantised c isf) _ p 0 0) by exact Hp. now apply all_zero_nth. }
    destruct (Z.eq_dec s 0) as [-> | Hs].
    + rewrite seg_plane_label0. rewrite (Hs0 eq_refl) in Hq. exact Hq.
    + destruct isf.
      * rewrite seg_plane_Lf by assumption. unfold quantised in Hq. rewrite Hq. reflexivity.
      * rewrite seg_plane_Li by assumption. unfold quantised in Hq. rewrite Hq.
        replace (0 =? s) with false by lia. unfold u8. change (0 mod 256) with 0.
        destruct (list_eqb (segs c) [1]); apply stretch_zero.
  - (* CStack *)
    assert (Hq : forall x, In x (nthz p (nthz j qs []) []) -> quantised c isf x = 0).
    { intros x Hx. unfold all_zero in Hne. rewrite forallb_forall in Hne.
      assert (Hin : In (quantised c isf x) (map (quantised c isf) (concat (nthz j qs [])))).
      { apply in_map. apply in_concat. exists (nthz p (nthz j qs []) []). split; [now apply nthz_in|exact Hx]. }
      specialize (Hne _ Hin). lia. }
    assert (Hx0 : forall k, quantised c isf (nthz k (nthz p (nthz j qs []) []) 0) = 0).
    { intros k. unfold nthz at 1.
      destruct (nth_in_or_default (Z.to_nat k) (nthz p (nthz j qs []) []) 0) as [Hin | ->]; [now apply Hq|].
      unfold quantised. destruct isf; [|reflexivity]. change (0 * maxfrac c) with 0. now apply rhe_zero, Hden. }
    destruct (Z.eq_dec s 0) as [-> | Hs].
    + specialize (Hs0 eq_refl). subst isf. unfold seg_plane. change (0 =? 0) with true. cbn match.
      rewrite (nthz_map _ _ p []) by exact Hp. exact (Hx0 0).
    + destruct isf.
      * rewrite seg_plane_Sf by assumption. specialize (Hx0 (s - 1)). unfold quantised in Hx0.
        rewrite Hx0. reflexivity.
      * rewrite seg_plane_Si by assumption. specialize (Hx0 (s - 1)). unfold quantised in Hx0.
        rewrite Hx0. unfold u8. change (0 mod 256) with 0. apply stretch_zero.
Qed.

Lemma zeros_nth_ext : forall l n, zlen l = n -> (forall p, 0 <= p < n -> nthz p l 0 = 0) -> l = zeros n.
Proof.
  intros l n Hn H. apply (nth_ext _ _ 0 0).
  - unfold zeros. rewrite repeat_length. unfold zlen in Hn. lia.
  - intros k Hk. unfold zeros. rewrite nth_repeat.
    specialize (H (Z.of_nat k) ltac:(unfold zlen in Hn; lia)). unfold nthz in H. now rewrite Nat2Z.id in H.
Qed.

(* facts about the cast array of a valid input *)
Lemma cast_facts : forall c i a, valid c i = true -> check_and_cast c i = Ok a ->
  carr_planes a = nsrc c /\ (carr_isf a = true -> 0 < den c) /\ (ty c = LABELMAP -> carr_isf a = false).
Proof.
  intros c i a Hv Ha.
  destruct (valid_basic c i Hv) as (_ & _ & _ & Hpl & _ & Hval & _ & _).
  apply cast_inv in Ha. unfold values_ok in Hval. revert Ha Hval.
  destruct (dt c); [| |intros _ Hval; discriminate]; destruct i as [ps|ps]; cbn [n_planes] in Hpl; intros Ha Hval.
  - assert (a = CLabel false ps) by (destruct (ty c); assumption). subst a.
    cbn [carr_planes carr_isf]. repeat split; auto; discriminate.
  - destruct (ty c); subst a; cbn [carr_planes carr_isf]; rewrite ?zlen_map;
      repeat split; auto; discriminate.
  - apply andb_prop in Hval as (Hval & _). apply andb_prop in Hval as (Hd & _).
    destruct (ty c); subst a; unfold cast2; cbn [carr_planes carr_isf]; rewrite ?zlen_map;
      repeat split; auto; try discriminate; intros; lia.
  - apply andb_prop in Hval as (Hval & _). apply andb_prop in Hval as (Hd & _).
    destruct (ty c); subst a; unfold cast3; cbn [carr_planes carr_isf]; rewrite ?zlen_map;
      repeat split; auto; try discriminate; intros; lia.
Qed.

Lemma seg_iter_nonzero : forall c s, seg_numbers_ok (ty c) (segs c) = true -> In s (seg_iter c) ->
  s = 0 -> ty c = LABELMAP.
Proof.
  intros c s Hsn Hs ->. destruct (segs_facts c Hsn) as (_ & Hpos & _). unfold seg_iter in Hs.
  destruct (ty c); [|  |reflexivity]; specialize (Hpos 0 Hs); lia.
Qed.

Lemma seg_iter_NoDup : forall c, seg_numbers_ok (ty c) (segs c) = true -> NoDup (seg_iter c).
Proof.
  intros c Hsn. destruct (segs_facts c Hsn) as (Hnd & _). unfold seg_iter.
  destruct (ty c); try exact Hnd. constructor; [intros []|constructor].
Qed.

(* ------------------------------------------------------------------ *)
(* every fetch returns the derived plane                                *)
(* ------------------------------------------------------------------ *)
Theorem fetch_correct : forall c i perm st a lazy s j,
  valid c i = true -> Permutation perm (zrange (nsrc c)) ->
  construct c i perm = Ok st -> check_and_cast c i = Ok a ->
  In s (seg_iter c) -> 0 <= j < nsrc c ->
  fetch lazy st s j = seg_plane c a s j.
Proof.
  intros c i perm st a lazy s j Hv Hperm Hc Ha Hs Hj.
  destruct (valid_basic c i Hv) as (Hsn & Hn & _).
  destruct (cast_facts c i a Hv Ha) as (Hcp & Hden & Hlm).
  destruct (included c a) as [inc om] eqn:Hinc.
  assert (Hjp : In j perm).
  { apply (Permutation_in j (Permutation_sym Hperm)). now apply in_zrange. }
  assert (Hin_range : forall j', In j' perm -> 0 <= j' < nsrc c).
  { intros j' H. apply in_zrange. now apply (Permutation_in j' Hperm). }
  pose proof (seg_plane_zlen c i a s j Hv Ha Hj) as Hlen.
  assert (Hcfg : s_cfg st = c).
  { destruct (construct_inv c i perm st Hc) as (? & ? & ? & _ & _ & _ & _ & Hst). cbv zeta in Hst.
    destruct Hst as (_ & ->). reflexivity. }
  unfold fetch. rewrite Hcfg.
  destruct (memz j inc) eqn:Hm.
  - apply (read_segment_plane c i perm st a inc om lazy s j); auto.
    intros _ s' j' Hs' Hj'. apply (frame_ok_valid c i a s' j' Hv Ha Hs'). now apply Hin_range.
  - (* plane j was dropped as empty: no frame, and the derived plane is all zero *)
    destruct (construct_inv c i perm st Hc) as (a' & inc' & om' & _ & Ha' & _ & Hinc' & Hst).
    rewrite Ha in Ha'. injection Ha' as <-. rewrite Hinc in Hinc'. injection Hinc' as <- <-.
    cbv zeta in Hst. destruct Hst as (_ & ->). unfold find_frame. cbn [s_meta].
    assert (Hnone : find_from 0 (s, j) (map key_of (frames_of c a (filter (fun j0 => memz j0 inc) perm) om)) = None).
    { apply find_from_none. intros Hin. apply in_map_iff in Hin as (f & Hk & Hf).
      apply in_frames_of in Hf. destruct Hf as (_ & Hjo & _ & _).
      unfold key_of in Hk. assert (f_plane f = j) by congruence.
      apply filter_In in Hjo. destruct Hjo as (_ & Hmj). congruence. }
    rewrite Hnone. symmetry. apply (zeros_nth_ext _ _ Hlen).
    intros p Hp. apply empty_plane_pixels; auto.
    + apply (not_included_empty c a inc om j Hinc); [lia|exact Hm].
    + intros Es. apply Hlm. now apply (seg_iter_nonzero c s Hsn Hs).
    + lia.
Qed.

(* ------------------------------------------------------------------ *)
(* transposition: one output plane equals the specification             *)
(* ------------------------------------------------------------------ *)
Theorem read_plane_expected : forall c i perm st a lazy j,
  valid c i = true -> Permutation perm (zrange (nsrc c)) ->
  construct c i perm = Ok st -> check_and_cast c i = Ok a -> 0 <= j < nsrc c ->
  read_plane lazy st j =
  map (fun p => map (fun k => expected_pixel c i j p k) (zrange (zlen (segs c)))) (zrange (npix c)).
Proof.
  intros c i perm st a lazy j Hv Hperm Hc Ha Hj.
  destruct (valid_basic c i Hv) as (Hsn & Hn & _).
  assert (Hcfg : s_cfg st = c).
  { destruct (construct_inv c i perm st Hc) as (? & ? & ? & _ & _ & _ & _ & Hst). cbv zeta in Hst.
    destruct Hst as (_ & ->). reflexivity. }
  unfold read_plane. rewrite Hcfg. cbv zeta.
  destruct (ty c) eqn:Et.
  - (* BINARY *)
    apply map_ext_in. intros p Hp. apply in_zrange in Hp.
    rewrite map_map. rewrite (list_as_map_nth (segs c) 0) at 1. rewrite map_map.
    apply map_ext_in. intros k Hk. apply in_zrange in Hk.
    rewrite (fetch_correct c i perm st a lazy _ j Hv Hperm Hc Ha); auto.
    + apply (seg_plane_expected c i a j k p Hv Ha); auto. congruence.
    + unfold seg_iter. rewrite Et. apply nthz_in. exact Hk.
  - (* FRACTIONAL *)
    apply map_ext_in. intros p Hp. apply in_zrange in Hp.
    rewrite map_map. rewrite (list_as_map_nth (segs c) 0) at 1. rewrite map_map.
    apply map_ext_in. intros k Hk. apply in_zrange in Hk.
    rewrite (fetch_correct c i perm st a lazy _ j Hv Hperm Hc Ha); auto.
    + apply (seg_plane_expected c i a j k p Hv Ha); auto. congruence.
    + unfold seg_iter. rewrite Et. apply nthz_in. exact Hk.
  - (* LABELMAP *)
    rewrite (fetch_correct c i perm st a lazy 0 j Hv Hperm Hc Ha); auto;
      [|unfold seg_iter; rewrite Et; now left].
    pose proof (seg_plane_zlen c i a 0 j Hv Ha Hj) as Hlen.
    rewrite (list_as_map_nth (seg_plane c a 0 j) 0) at 1. rewrite Hlen, map_map.
    apply map_ext_in. intros p Hp. apply in_zrange in Hp.
    unfold one_to. rewrite map_map.
    apply map_ext_in. intros k Hk. apply in_zrange in Hk.
    destruct (label_plane_expected c i a j p Hv Ha Et Hj Hp) as (_ & H). cbv zeta in H.
    now apply H.
Qed.

(* ------------------------------------------------------------------ *)
(* the round trip                                                       *)
(* ------------------------------------------------------------------ *)
Theorem roundtrip : forall c i perm st,
  valid c i = true -> Permutation perm (zrange (nsrc c)) -> construct c i perm = Ok st ->
  forall lazy, read_by_instance lazy st (zrange (nsrc c)) false = Ok (expected c i).
Proof.
  intros c i perm st Hv Hperm Hc lazy.
  destruct (valid_basic c i Hv) as (Hsn & Hn & Hns & Hpl & _).
  destruct (construct_inv c i perm st Hc) as (a & inc & om & _ & Ha & _ & Hinc & Hst).
  cbv zeta in Hst. destruct Hst as (_ & Hst).
  assert (Hkeys : nodup_keys (s_meta st) = true).
  { rewrite Hst. cbn [s_meta]. apply nodup_keys_NoDup. apply keys_NoDup.
    - apply NoDup_filter. apply (Permutation_NoDup (Permutation_sym Hperm)). apply NoDup_zrange.
    - now apply seg_iter_NoDup. }
  assert (Hcfg : s_cfg st = c) by (rewrite Hst; reflexivity).
  assert (Hex : existsb (fun j => (j <? 0) || (nsrc c <=? j)) (zrange (nsrc c)) = false).
  { destruct (existsb _ (zrange (nsrc c))) eqn:E; [|reflexivity]. exfalso.
    apply existsb_exists in E as (j & Hj & Hb). apply in_zrange in Hj. lia. }
  assert (Hmap : map (read_plane lazy st) (zrange (nsrc c)) = expected c i).
  { unfold expected. rewrite Hpl. apply map_ext_in. intros j Hj. apply in_zrange in Hj.
    now apply (read_plane_expected c i perm st a lazy j). }
  assert (Hne : zrange (nsrc c) <> []).
  { intros E. assert (H0 : In 0 (zrange (nsrc c))) by (apply in_zrange; lia). rewrite E in H0. contradiction. }
  unfold read_by_instance. rewrite Hkeys, Hcfg, Hex, Hmap. cbn [negb andb].
  destruct (zrange (nsrc c)); [contradiction|reflexivity].
Qed.

(* the same through get_pixels_by_source_frame (multi-frame source), all frame
   numbers 1..nsrc in order, assert_missing_frames_are_empty = True *)
Theorem roundtrip_by_frame : forall c i perm st,
  valid c i = true -> Permutation perm (zrange (nsrc c)) -> construct c i perm = Ok st ->
  forall lazy, read_by_frame lazy st (one_to (nsrc c)) true = Ok (expected c i).
Proof.
  intros c i perm st Hv Hperm Hc lazy.
  pose proof (roundtrip c i perm st Hv Hperm Hc lazy) as H.
  destruct (valid_basic c i Hv) as (_ & _ & Hns & _).
  unfold read_by_instance in H. unfold read_by_frame.
  assert (Hne : zrange (nsrc c) <> []).
  { intros E. assert (H0 : In 0 (zrange (nsrc c))) by (apply in_zrange; lia). rewrite E in H0. contradiction. }
  assert (Hne' : one_to (nsrc c) <> []).
  { unfold one_to. intros E. apply map_eq_nil in E. contradiction. }
  destruct (zrange (nsrc c)) as [|z0 zs] eqn:Ez; [contradiction|]. rewrite <- Ez in *.
  destruct (one_to (nsrc c)) as [|o0 os] eqn:Eo; [contradiction|]. rewrite <- Eo in *.
  assert (Hpos : existsb (fun f => f <=? 0) (one_to (nsrc c)) = false).
  { destruct (existsb _ (one_to (nsrc c))) eqn:E; [|reflexivity]. exfalso.
    apply existsb_exists in E as (f & Hf & Hb). unfold one_to in Hf.
    apply in_map_iff in Hf as (k & <- & Hk). apply in_zrange in Hk. lia. }
  rewrite Hpos.
  destruct (negb (nodup_keys (s_meta st))); [discriminate|].
  cbn [negb andb].
  destruct (negb false && existsb _ (zrange (nsrc c))); [discriminate|].
  injection H as H. f_equal. rewrite <- H. unfold one_to. rewrite map_map.
  apply map_ext. intros k. f_equal. lia.
Qed.

(* ------------------------------------------------------------------ *)
(* valid inputs pass every check of the constructor                     *)
(* ------------------------------------------------------------------ *)
Lemma existsb_negb : forall {A} (f : A -> bool) l, forallb f l = true ->
  existsb (fun v => negb (f v)) l = false.
Proof.
  intros A f l H. rewrite forallb_forall in H. destruct (existsb _ l) eqn:E; [|reflexivity].
  apply existsb_exists in E as (x & Hx & Hn). rewrite (H x Hx) in Hn. discriminate.
Qed.

Lemma existsb_false_of_forall : forall {A} (f : A -> bool) l, (forall x, In x l -> f x = false) ->
  existsb f l = false.
Proof.
  intros A f l H. destruct (existsb f l) eqn:E; [|reflexivity].
  apply existsb_exists in E as (x & Hx & Hn). rewrite (H x Hx) in Hn. discriminate.
Qed.

Lemma maxl_le : forall l b, 0 <= b -> (forall x, In x l -> x <= b) -> maxl l <= b.
Proof.
  induction l as [|y t IH]; intros b Hb H; [cbn; lia|].
  change (maxl (y :: t)) with (Z.max y (maxl t)).
  specialize (IH b Hb ltac:(intros x Hx; apply H; now right)). specialize (H y ltac:(now left)). lia.
Qed.

(* the guard of the fix of D117 does not fire on a float label array whose cast
   values are all described *)
Lemma float_label_guard_false : forall c t ps, 0 < den c ->
  int_values_ok t (segs c) (cast_in (den c) (Label ps)) = true ->
  existsb (fun k => k =? den c) (concat ps) && negb (memz 1 (segs c)) = false.
Proof.
  intros c t ps Hd Hint. destruct (existsb (fun k => k =? den c) (concat ps)) eqn:E; [|reflexivity].
  apply existsb_exists in E as (k & Hk & Ek). assert (k = den c) by lia. subst k.
  cbn [cast_in int_values_ok] in Hint. rewrite forallb_forall in Hint.
  assert (Hin : In 1 (concat (map (map (cast_float_bin (den c))) ps))).
  { apply in_concat in Hk as (pl & Hpl & Hk). apply in_concat. exists (map (cast_float_bin (den c)) pl).
    split; [now apply in_map|]. apply in_map_iff. exists (den c). split; [|exact Hk].
    unfold cast_float_bin. apply Z.div_same. lia. }
  specialize (Hint 1 Hin). unfold memz in Hint. cbn [existsb] in Hint. change (1 =? 0) with false in Hint.
  cbn [orb] in Hint. unfold memz. rewrite Hint. reflexivity.
Qed.

Theorem cast_accepts : forall c i, valid c i = true -> exists a, check_and_cast c i = Ok a.
Proof.
  intros c i Hv.
  destruct (valid_basic c i Hv) as (Hsn & _ & _ & _ & Hsh & Hval & _ & _).
  unfold check_and_cast.
  assert (Hch : chans_ok i (zlen (segs c)) = true).
  { destruct i as [ps|ps]; [reflexivity|]. cbn [chans_ok shape_ok] in *.
    apply forallb_forall. intros pl Hpl. rewrite forallb_forall in Hsh.
    specialize (Hsh pl Hpl). now apply andb_prop in Hsh as (_ & Hsh). }
  rewrite Hch. cbn [negb]. unfold values_ok in Hval.
  destruct (dt c); [| |discriminate].
  - destruct i as [ps|ps]; cbn [int_values_ok] in Hval.
    + assert (Hund : (if list_eqb (segs c) (one_to (zlen (segs c)))
                      then zlen (segs c) <? maxl (concat ps)
                      else existsb (fun v => negb (memz v (0 :: segs c))) (concat ps)) = false).
      { destruct (list_eqb (segs c) (one_to (zlen (segs c)))) eqn:E.
        - apply list_eqb_eq in E. rewrite forallb_forall in Hval.
          assert (maxl (concat ps) <= zlen (segs c)); [|lia].
          apply maxl_le; [apply zlen_nonneg|]. intros x Hx. specialize (Hval x Hx).
          apply memz_in in Hval. destruct Hval as [<- | Hval]; [apply zlen_nonneg|].
          rewrite E in Hval. unfold one_to in Hval. apply in_map_iff in Hval as (k & <- & Hk).
          apply in_zrange in Hk. lia.
        - now apply existsb_negb. }
      rewrite Hund. eexists; reflexivity.
    + apply andb_prop in Hval as (Hb & Hov). rewrite forallb_forall in Hb.
      assert (Hmax : maxl (all_pixels (Stack ps)) <= 1).
      { apply maxl_le; [lia|]. intros x Hx. specialize (Hb x Hx). unfold binary01 in Hb. lia. }
      replace (1 <? maxl (all_pixels (Stack ps))) with false by lia.
      destruct (ty c); try (eexists; reflexivity).
      apply negb_true_iff in Hov. rewrite Hov, andb_false_r. eexists; reflexivity.
  - apply andb_prop in Hval as (Hval & Hvals). apply andb_prop in Hval as (Hd & _).
    assert (Hden : 0 < den c) by lia.
    destruct (ty c) eqn:Et.
    + apply andb_prop in Hvals as (Hfb & Hint). rewrite forallb_forall in Hfb.
      rewrite existsb_false_of_forall by (intros x Hx; specialize (Hfb x Hx); lia).
      rewrite existsb_false_of_forall by (intros x Hx; specialize (Hfb x Hx); lia).
      destruct i as [ps|ps]; [|eexists; reflexivity].
      rewrite (float_label_guard_false c BINARY ps Hden Hint). eexists; reflexivity.
    + rewrite forallb_forall in Hvals.
      rewrite existsb_false_of_forall by (intros x Hx; specialize (Hvals x Hx); lia).
      destruct i; eexists; reflexivity.
    + apply andb_prop in Hvals as (Hfb & Hint). rewrite forallb_forall in Hfb.
      rewrite existsb_false_of_forall by (intros x Hx; specialize (Hfb x Hx); lia).
      rewrite existsb_false_of_forall by (intros x Hx; specialize (Hfb x Hx); lia).
      destruct i as [ps|ps]; [rewrite (float_label_guard_false c LABELMAP ps Hden Hint); eexists; reflexivity|].
      cbn [cast_in int_values_ok] in Hint. apply andb_prop in Hint as (_ & Hov).
      apply negb_true_iff in Hov. rewrite Hov, andb_false_r. eexists; reflexivity.
Qed.

(* no ValueError / TypeError for a valid input: the constructor either succeeds
   or reports that no frame was left to store *)
Theorem construct_not_refused : forall c i perm, valid c i = true ->
  (exists st, construct c i perm = Ok st) \/ construct c i perm = Err "IndexError".
Proof.
  intros c i perm Hv. destruct (cast_accepts c i Hv) as (a & Ha).
  pose proof Hv as Hv'. unfold valid in Hv'. split_andb.
  unfold construct.
  match goal with H : seg_numbers_ok _ _ = true |- _ => rewrite H end. cbn [negb].
  assert (G1 : match ty c with BINARY => negb (native c) | _ => false end = false).
  { destruct (ty c); auto. match goal with H : native c = true |- _ => now rewrite H end. }
  assert (G2 : match ty c with FRACTIONAL => 255 <? maxfrac c | _ => false end = false).
  { destruct (ty c); auto. lia. }
  rewrite G1, G2, Ha. cbn [bind].
  replace (n_planes i =? nsrc c) with true by lia. cbn [negb].
  replace ((rows c =? srows c) && (cols c =? scols c)) with true by lia. cbn [negb].
  destruct (included c a) as [inc om].
  destruct (frames_of c a (filter (fun j => memz j inc) perm) om); [now right|left; eexists; reflexivity].
Qed.

(* ------------------------------------------------------------------ *)
(* a valid input always leaves at least one frame to store              *)
(* ------------------------------------------------------------------ *)
Lemma not_all_zero_ex : forall l, all_zero l = false -> exists p, 0 <= p < zlen l /\ nthz p l 0 <> 0.
Proof.
  induction l as [|x t IH]; intros H; [discriminate|].
  cbn [all_zero forallb] in H. rewrite zlen_cons. pose proof (zlen_nonneg t).
  destruct (0 =? x) eqn:E.
  - cbn [andb] in H. destruct (IH H) as (p & Hp & Hn). exists (p + 1). split; [lia|].
    rewrite nthz_cons by lia. now replace (p + 1 - 1) with p by lia.
  - exists 0. split; [lia|]. rewrite nthz_0. lia.
Qed.

Lemma nth_nonzero_not_all_zero : forall l p, nthz p l 0 <> 0 -> all_zero l = false.
Proof.
  intros l p H. destruct (all_zero l) eqn:E; [|reflexivity]. now rewrite (all_zero_nth l p E) in H.
Qed.

Lemma in_concat_idx : forall (pl : list (list Z)) x, In x (concat pl) ->
  exists p k, 0 <= p < zlen pl /\ 0 <= k < zlen (nthz p pl []) /\ nthz k (nthz p pl []) 0 = x.
Proof.
  intros pl x H. apply in_concat in H as (ch & Hch & Hx).
  destruct (In_nth pl ch [] Hch) as (p & Hp & Ep). destruct (in_nthz ch x Hx) as (k & Hk & Ek).
  assert (E : nthz (Z.of_nat p) pl [] = ch) by (unfold nthz; now rewrite Nat2Z.id).
  exists (Z.of_nat p), k. rewrite E. unfold zlen in *. repeat split; try lia; auto.
Qed.

Lemma nonempty_has_segment : forall c i a j,
  valid c i = true -> check_and_cast c i = Ok a -> ty c <> LABELMAP ->
  (ty c = FRACTIONAL -> 1 <= maxfrac c) -> 0 <= j < nsrc c ->
  plane_nonempty c a j = true ->
  exists k, 0 <= k < zlen (segs c) /\ all_zero (seg_plane c a (nthz k (segs c) 0) j) = false.
Proof.
  intros c i a j Hv Ha Ht Hmf1 Hj Hne.
  destruct (valid_basic c i Hv) as (Hsn & Hn & Hns & Hpl & Hsh & Hval & Hmf & _).
  assert (Hwit : forall k p, 0 <= k < zlen (segs c) -> 0 <= p < npix c -> expected_pixel c i j p k <> 0 ->
            exists k, 0 <= k < zlen (segs c) /\ all_zero (seg_plane c a (nthz k (segs c) 0) j) = false).
  { intros k p Hk Hp Hx. exists k. split; [exact Hk|]. apply (nth_nonzero_not_all_zero _ p).
    destruct (seg_plane_expected c i a j k p Hv Ha Ht Hj Hk Hp) as (-> & _). exact Hx. }
  pose proof Ha as Ha0. apply cast_inv in Ha. unfold values_ok in Hval. unfold plane_nonempty in Hne.
  revert Ha Hval Hwit. unfold expected_pixel.
  destruct (dt c) eqn:Ed; [| |intros _ Hval; discriminate]; destruct i as [ps|ps];
    cbn [n_planes] in Hpl; intros Ha Hval Hwit.
  - (* integer label map *)
    assert (a = CLabel false ps) by (destruct (ty c); assumption). clear Ha. subst a. cbv beta iota in Hne. apply negb_true_iff in Hne.
    pose proof (shape_label c ps j Hsh ltac:(lia)) as Hlen.
    destruct (not_all_zero_ex _ Hne) as (p & Hp & Hx). rewrite zlen_map in Hp.
    rewrite (nthz_map _ _ p 0) in Hx by exact Hp. unfold quantised in Hx.
    cbn [int_values_ok] in Hval. rewrite forallb_forall in Hval.
    assert (Hin : In (nthz p (nthz j ps []) 0) (0 :: segs c)).
    { apply memz_in. apply Hval. apply in_label_pixels; lia. }
    destruct Hin as [E | Hin]; [congruence|]. destruct (in_nthz _ _ Hin) as (k & Hk & Ek).
    apply (Hwit k p Hk ltac:(lia)). cbv beta iota zeta. rewrite Ek, Z.eqb_refl.
    destruct (ty c); [lia| |contradiction]. specialize (Hmf1 eq_refl). lia.
  - (* integer stack *)
    assert (a = CStack false ps) by (destruct (ty c); [assumption|assumption|contradiction]). clear Ha. subst a. cbv beta iota in Hne. apply negb_true_iff in Hne.
    destruct (shape_stack c ps j Hsh ltac:(lia)) as (Hlen & Hch).
    destruct (not_all_zero_ex _ Hne) as (q & Hq & Hx). rewrite zlen_map in Hq.
    rewrite (nthz_map _ _ q 0) in Hx by exact Hq. unfold quantised in Hx.
    destruct (in_concat_idx (nthz j ps []) _ (nthz_in _ q 0 Hq)) as (p & k & Hp & Hk & Ek).
    rewrite Hch in Hk by lia.
    apply (Hwit k p Hk ltac:(lia)). cbv beta iota zeta. rewrite Ek.
    destruct (ty c); [exact Hx| |contradiction]. specialize (Hmf1 eq_refl). nia.
  - (* float label array *)
    apply andb_prop in Hval as (Hval & Hvals). apply andb_prop in Hval as (Hden & Hone).
    assert (Hd : 0 < den c) by lia.
    assert (Hone' : list_eqb (segs c) [1] = true).
    { unfold float_label_ok in Hone. cbn [is_stack] in Hone.
      destruct (ty c); [| |congruence]; cbn [is_labelmap] in Hone; now rewrite orb_false_r in Hone. }
    clear Hone. rename Hone' into Hone. apply list_eqb_eq in Hone.
    pose proof (shape_label c ps j Hsh ltac:(lia)) as Hlen.
    assert (Hk0 : 0 <= 0 < zlen (segs c)) by (rewrite Hone; unfold zlen; cbn; lia).
    destruct (ty c) eqn:Et; [| |contradiction]; subst a; cbv beta iota in Hne; apply negb_true_iff in Hne.
    + (* BINARY *)
      destruct (not_all_zero_ex _ Hne) as (p & Hp & Hx). rewrite zlen_map in Hp.
      unfold cast2 in Hp, Hx. rewrite (nthz_map _ _ j []), zlen_map in Hp by lia.
      rewrite (nthz_map _ (nthz j _ []) p 0) in Hx by (rewrite (nthz_map _ _ j []), zlen_map by lia; exact Hp).
      unfold quantised in Hx. rewrite (nthz_map _ _ j []) in Hx by lia.
      rewrite (nthz_map _ _ p 0) in Hx by exact Hp.
      apply andb_prop in Hvals as (Hbin & _). rewrite forallb_forall in Hbin.
      specialize (Hbin _ (in_label_pixels ps j p ltac:(lia) Hp)).
      apply (Hwit 0 p Hk0 ltac:(lia)). cbv beta iota zeta. rewrite Hone. rewrite nthz_0.
      destruct (cast_bin (den c) (nthz p (nthz j ps []) 0) Hd ltac:(lia)) as [(E0 & E1) | (E0 & E1)];
        unfold cast_float_bin in *; [congruence|rewrite E1; cbn; lia].
    + (* FRACTIONAL *)
      destruct (not_all_zero_ex _ Hne) as (p & Hp & Hx). rewrite zlen_map in Hp.
      rewrite (nthz_map _ _ p 0) in Hx by exact Hp. unfold quantised in Hx.
      apply (Hwit 0 p Hk0 ltac:(lia)). cbv beta iota zeta. exact Hx.
  - (* float stack *)
    apply andb_prop in Hval as (Hval & Hvals). apply andb_prop in Hval as (Hden & _).
    assert (Hd : 0 < den c) by lia.
    destruct (shape_stack c ps j Hsh ltac:(lia)) as (Hlen & Hch).
    destruct (ty c) eqn:Et; [| |contradiction]; subst a; cbv beta iota in Hne; apply negb_true_iff in Hne.
    + (* BINARY *)
      destruct (not_all_zero_ex _ Hne) as (q & Hq & Hx). rewrite zlen_map in Hq.
      rewrite (nthz_map _ _ q 0) in Hx by exact Hq. unfold quantised in Hx.
      unfold cast3 in Hq, Hx. rewrite (nthz_map _ _ j []) in Hq, Hx by lia.
      destruct (in_concat_idx _ _ (nthz_in _ q 0 Hq)) as (p & k & Hp & Hk & Ek).
      rewrite zlen_map in Hp. rewrite (nthz_map _ _ p []) in Hk, Ek by exact Hp.
      rewrite zlen_map in Hk. rewrite (nthz_map _ _ k 0) in Ek by exact Hk.
      rewrite Hch in Hk by lia.
      apply (Hwit k p Hk ltac:(lia)). cbv beta iota zeta. unfold cast_float_bin in Ek. rewrite Ek. exact Hx.
    + (* FRACTIONAL *)
      destruct (not_all_zero_ex _ Hne) as (q & Hq & Hx). rewrite zlen_map in Hq.
      rewrite (nthz_map _ _ q 0) in Hx by exact Hq. unfold quantised in Hx.
      destruct (in_concat_idx (nthz j ps []) _ (nthz_in _ q 0 Hq)) as (p & k & Hp & Hk & Ek).
      rewrite Hch in Hk by lia.
      apply (Hwit k p Hk ltac:(lia)). cbv beta iota zeta. rewrite Ek. exact Hx.
Qed.

Lemma frames_nonempty : forall c i a perm inc om,
  valid c i = true -> check_and_cast c i = Ok a -> Permutation perm (zrange (nsrc c)) ->
  1 <= zlen (segs c) -> (ty c = FRACTIONAL -> 1 <= maxfrac c) ->
  included c a = (inc, om) ->
  frames_of c a (filter (fun j => memz j inc) perm) om <> [].
Proof.
  intros c i a perm inc om Hv Ha Hperm HS Hmf1 Hinc.
  destruct (valid_basic c i Hv) as (Hsn & _ & Hns & _).
  destruct (cast_facts c i a Hv Ha) as (Hcp & _ & _).
  assert (Hex : exists s j, In s (seg_iter c) /\ In j perm /\ memz j inc = true /\ kept c a om s j = true).
  { assert (Hperm_in : forall j, 0 <= j < nsrc c -> In j perm).
    { intros j Hj. apply (Permutation_in j (Permutation_sym Hperm)). now apply in_zrange. }
    assert (Hs0 : In (nthz 0 (segs c) 0) (segs c)) by (apply nthz_in; lia).
    assert (Hall : inc = zrange (nsrc c) -> om = false ->
                   exists s j, In s (seg_iter c) /\ In j perm /\ memz j inc = true /\ kept c a om s j = true).
    { intros -> ->.
      exists (match ty c with LABELMAP => 0 | _ => nthz 0 (segs c) 0 end), 0.
      split; [unfold seg_iter; destruct (ty c); auto; now left|].
      split; [apply Hperm_in; lia|]. split; [apply memz_in, in_zrange; lia|].
      unfold kept. now rewrite andb_false_r. }
    unfold included in Hinc. rewrite Hcp in Hinc.
    destruct (omit c); [|apply Hall; congruence].
    destruct (filter (plane_nonempty c a) (zrange (nsrc c))) as [|j0 rest] eqn:Ef;
      [apply Hall; congruence|].
    assert (Hj0 : In j0 (filter (plane_nonempty c a) (zrange (nsrc c)))) by (rewrite Ef; now left).
    apply filter_In in Hj0 as (Hr & Hne). apply in_zrange in Hr.
    injection Hinc as <- <-.
    assert (Hm : memz j0 (j0 :: rest) = true) by (apply memz_in; now left).
    destruct (ty c) eqn:Et.
    - destruct (nonempty_has_segment c i a j0 Hv Ha ltac:(congruence) ltac:(congruence) Hr Hne) as (k & Hk & Hz).
      exists (nthz k (segs c) 0), j0. unfold seg_iter. rewrite Et.
      split; [now apply nthz_in|]. split; [now apply Hperm_in|]. split; [exact Hm|].
      unfold kept. now rewrite Hz, andb_false_r.
    - specialize (Hmf1 eq_refl).
      destruct (nonempty_has_segment c i a j0 Hv Ha ltac:(congruence) ltac:(intros _; exact Hmf1) Hr Hne) as (k & Hk & Hz).
      exists (nthz k (segs c) 0), j0. unfold seg_iter. rewrite Et.
      split; [now apply nthz_in|]. split; [now apply Hperm_in|]. split; [exact Hm|].
      unfold kept. now rewrite Hz, andb_false_r.
    - exists 0, j0. unfold seg_iter. rewrite Et.
      split; [now left|]. split; [now apply Hperm_in|]. split; [exact Hm|]. reflexivity. }
  destruct Hex as (s & j & Hs & Hj & Hm & Hk).
  intros E.
  assert (Hin : In (Frame s j (seg_plane c a s j)) (frames_of c a (filter (fun j0 => memz j0 inc) perm) om)).
  { apply in_frames_of. cbn [f_seg f_plane f_pix]. repeat split; auto. apply filter_In. auto. }
  rewrite E in Hin. contradiction.
Qed.

(* the constructor accepts every valid input *)
Theorem construct_succeeds : forall c i perm,
  valid c i = true -> Permutation perm (zrange (nsrc c)) ->
  1 <= zlen (segs c) -> (ty c = FRACTIONAL -> 1 <= maxfrac c) ->
  exists st, construct c i perm = Ok st.
Proof.
  intros c i perm Hv Hperm HS Hmf1.
  destruct (construct_not_refused c i perm Hv) as [H | H]; [exact H|]. exfalso.
  destruct (cast_accepts c i Hv) as (a & Ha).
  destruct (included c a) as [inc om] eqn:Hinc.
  pose proof (frames_nonempty c i a perm inc om Hv Ha Hperm HS Hmf1 Hinc) as Hne.
  pose proof Hv as Hv'. unfold valid in Hv'. split_andb.
  unfold construct in H.
  match goal with H0 : seg_numbers_ok _ _ = true |- _ => rewrite H0 in H end. cbn [negb] in H.
  assert (G1 : match ty c with BINARY => negb (native c) | _ => false end = false).
  { destruct (ty c); auto. match goal with H0 : native c = true |- _ => now rewrite H0 end. }
  assert (G2 : match ty c with FRACTIONAL => 255 <? maxfrac c | _ => false end = false).
  { destruct (ty c); auto. lia. }
  rewrite G1, G2, Ha in H. cbn [bind] in H.
  replace (n_planes i =? nsrc c) with true in H by lia. cbn [negb] in H.
  replace ((rows c =? srows c) && (cols c =? scols c)) with true in H by lia. cbn [negb] in H.
  rewrite Hinc in H.
  destruct (frames_of c a (filter (fun j => memz j inc) perm) om); [now apply Hne|discriminate].
Qed.
