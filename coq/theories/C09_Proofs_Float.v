(* C09 - index arrays of reduced floating point precision (float16 / float32) given to
   VolumeToVolumeTransformer.__call__:
   (a) fl_round p is a rounding to p significant bits: relative error <= 2^-p, identity on every number
       m * 2^e with |m| < 2^p;
   (b) the ROUNDED mapping never sees the precision of the input: v2v_fp = v2v_dt = (when the indices fit) v2v,
       hence agrees with the route through physical space for float16 / float32 / float64 alike;
   (c) the un-rounded mapping returns, coordinate by coordinate, the correctly rounded value of the
       dtype-independent mapping (relative error <= 2^-11 / 2^-24), and is the dtype-independent mapping for
       every non-float dtype and for float64;
   (d) witnesses: casting to the input precision BEFORE rounding (the order the code must not use) names another
       voxel (float32, index 65601.497 -> 65602; float16, 512.7 -> 512) and leaves the array (715.3 -> 716). *)
From Coq Require Import String ZArith List Bool Lia ZifyBool QArith Qround Qpower Qfield Lqa.
From HD Require Import Base.Val Base.PySlice C09_Model C09_Proofs C09_Proofs_Index C09_Proofs_Dtype.
Import ListNotations.
Open Scope Z_scope.

(* ---- powers of two ----------------------------------------------------------------------------------- *)
Lemma two_nz : ~ ((2 # 1) == 0)%Q.
Proof. discriminate. Qed.
Lemma pow2_pos : forall e, (0 < pow2 e)%Q.
Proof. intros e. unfold pow2. apply Qpower_0_lt. reflexivity. Qed.
Lemma pow2_nz : forall e, ~ (pow2 e == 0)%Q.
Proof. intros e H. pose proof (pow2_pos e) as P. rewrite H in P. discriminate P. Qed.
Lemma pow2_add : forall a b, (pow2 (a + b) == pow2 a * pow2 b)%Q.
Proof. intros a b. unfold pow2. apply Qpower_plus. exact two_nz. Qed.
Lemma pow2_succ : forall a, (pow2 (a + 1) == 2 * pow2 a)%Q.
Proof. intros a. rewrite pow2_add. change (pow2 1) with (2 # 1)%Q. ring. Qed.
Lemma pow2_Z : forall n, 0 <= n -> (pow2 n == inject_Z (2 ^ n))%Q.
Proof. intros n Hn. unfold pow2. rewrite (Zpower_Qpower 2 n Hn). reflexivity. Qed.
Lemma pow2_le : forall a b, a <= b -> (pow2 a <= pow2 b)%Q.
Proof. intros a b H. unfold pow2. apply Qpower_le_compat_l; [exact H|discriminate]. Qed.
Lemma pow2_lt_inv : forall a b, (pow2 a < pow2 b)%Q -> a < b.
Proof. intros a b H. unfold pow2 in H. apply (Qpower_lt_compat_l_inv (2 # 1)); [exact H|reflexivity]. Qed.

(* ---- |q| ------------------------------------------------------------------------------------------------ *)
Lemma Qabs'_nonneg : forall q, (0 <= Qabs' q)%Q.
Proof.
  intros q. unfold Qabs'. destruct (Qle_bool 0 q) eqn:E.
  - now apply Qle_bool_iff.
  - assert (H : ~ (0 <= q)%Q) by (intros H; apply Qle_bool_iff in H; congruence). lra.
Qed.
Lemma Qabs'_cases : forall q, ((0 <= q)%Q /\ Qabs' q = q) \/ ((q < 0)%Q /\ Qabs' q = (- q)%Q).
Proof.
  intros q. unfold Qabs'. destruct (Qle_bool 0 q) eqn:E.
  - left. split; [now apply Qle_bool_iff|reflexivity].
  - right. split; [|reflexivity].
    assert (H : ~ (0 <= q)%Q) by (intros H; apply Qle_bool_iff in H; congruence). lra.
Qed.
Lemma Qabs'_make : forall q, (Qabs' q == Z.abs (Qnum q) # Qden q)%Q.
Proof.
  intros [n d]. destruct (Qabs'_cases (n # d)) as [[H E]|[H E]]; rewrite E; cbn [Qnum Qden].
  - unfold Qle in H. cbn in H. rewrite Z.abs_eq by lia. reflexivity.
  - unfold Qlt in H. cbn in H. rewrite Z.abs_neq by lia. reflexivity.
Qed.
Lemma Qabs'_pos : forall q, ~ (q == 0)%Q -> (0 < Qabs' q)%Q.
Proof. intros q H. destruct (Qabs'_cases q) as [[H1 E]|[H1 E]]; rewrite E; lra. Qed.

(* ---- the binary exponent: 2^(qlog2 q) <= |q| ------------------------------------------------------------- *)
Lemma le_make : forall (x : Q) n d, (x * inject_Z (Zpos d) <= inject_Z n)%Q -> (x <= n # d)%Q.
Proof.
  intros x n d H. rewrite (Qmake_Qdiv n d). apply Qle_shift_div_l; [reflexivity|exact H].
Qed.

Lemma qlog2_lower : forall q, ~ (q == 0)%Q -> (pow2 (qlog2 q) <= Qabs' q)%Q.
Proof.
  intros q Hq. unfold qlog2.
  set (n := Z.abs (Qnum q)). set (d := Zpos (Qden q)).
  destruct (Qle_bool (pow2 (Z.log2 n - Z.log2 d)) (Qabs' q)) eqn:E; [now apply Qle_bool_iff|].
  rewrite (Qabs'_make q). fold n. apply le_make. fold d.
  assert (Hn : 0 < n).
  { subst n. destruct q as [qn qd]. cbn [Qnum] in *. unfold Qeq in Hq. cbn in Hq. lia. }
  assert (Hd : 0 < d) by (subst d; lia).
  pose proof (Z.log2_spec n Hn) as [Hn1 _]. pose proof (Z.log2_spec d Hd) as [_ Hd2].
  pose proof (Z.log2_nonneg n) as Ln. pose proof (Z.log2_nonneg d) as Ld.
  (* 2^(a-b-1) * d <= 2^(a-b-1) * 2^(b+1) = 2^a <= n *)
  apply Qle_trans with (pow2 (Z.log2 n - Z.log2 d - 1) * pow2 (Z.log2 d + 1))%Q.
  - apply Qmult_le_l; [apply pow2_pos|]. rewrite (pow2_Z (Z.log2 d + 1)) by lia.
    rewrite <- Zle_Qle. replace (Z.log2 d + 1) with (Z.succ (Z.log2 d)) by lia. lia.
  - rewrite <- pow2_add. replace (Z.log2 n - Z.log2 d - 1 + (Z.log2 d + 1)) with (Z.log2 n) by lia.
    rewrite (pow2_Z (Z.log2 n)) by lia. rewrite <- Zle_Qle. exact Hn1.
Qed.

(* ---- (a) fl_round is a rounding to p significant bits ------------------------------------------------------- *)
Lemma rne_err : forall x, (Qabs' (inject_Z (rne x) - x) <= 1 # 2)%Q.
Proof.
  intros x. pose proof (rne_bounds x) as [H1 H2]. unfold half in *.
  destruct (Qabs'_cases (inject_Z (rne x) - x)) as [[_ E]|[_ E]]; rewrite E; lra.
Qed.

Lemma Qabs'_mult_pos : forall a c, (0 < c)%Q -> (Qabs' (a * c) == Qabs' a * c)%Q.
Proof.
  intros a c Hc.
  destruct (Qabs'_cases a) as [[Ha Ea]|[Ha Ea]]; destruct (Qabs'_cases (a * c)) as [[Hm Em]|[Hm Em]];
    rewrite Ea, Em; try ring.
  - assert (0 <= a * c)%Q by (apply Qmult_le_0_compat; lra). lra.
  - assert (a * c < 0)%Q.
    { setoid_replace (a * c)%Q with (- ((- a) * c))%Q by ring.
      assert (0 < (- a) * c)%Q by (apply Qmult_lt_0_compat; lra). lra. }
    lra.
Qed.

Lemma Qabs'_comp : forall a b, (a == b)%Q -> (Qabs' a == Qabs' b)%Q.
Proof.
  intros a b H. destruct (Qabs'_cases a) as [[Ha Ea]|[Ha Ea]]; destruct (Qabs'_cases b) as [[Hb Eb]|[Hb Eb]];
    rewrite Ea, Eb; lra.
Qed.

(* absolute error: at most half a unit in the last place *)
Lemma fl_round_half_ulp : forall p q, ~ (q == 0)%Q ->
  (Qabs' (fl_round p q - q) <= (1 # 2) * pow2 (qlog2 q - (p - 1)))%Q.
Proof.
  intros p q Hq. unfold fl_round.
  destruct (Qeq_bool q 0) eqn:E; [apply Qeq_bool_iff in E; contradiction|].
  set (e := qlog2 q - (p - 1)).
  pose proof (pow2_pos e) as Pe. pose proof (pow2_nz e) as Ne.
  assert (R : (inject_Z (rne (q / pow2 e)) * pow2 e - q == (inject_Z (rne (q / pow2 e)) - q / pow2 e) * pow2 e)%Q)
    by (field; exact Ne).
  rewrite (Qabs'_comp _ _ R), (Qabs'_mult_pos _ _ Pe).
  apply Qmult_le_compat_r; [apply rne_err|lra].
Qed.

(* relative error: |fl_round p q - q| <= |q| / 2^p  (also for q = 0) *)
Theorem fl_round_rel_err : forall p q, (Qabs' (fl_round p q - q) * pow2 p <= Qabs' q)%Q.
Proof.
  intros p q. destruct (Qeq_dec q 0) as [Hz|Hq].
  - unfold fl_round. rewrite (proj2 (Qeq_bool_iff q 0) Hz).
    assert (E : (0 - q == 0)%Q) by lra. rewrite (Qabs'_comp _ _ E).
    change (Qabs' 0) with 0%Q. pose proof (Qabs'_nonneg q). lra.
  - pose proof (fl_round_half_ulp p q Hq) as H. pose proof (qlog2_lower q Hq) as L.
    pose proof (pow2_pos p) as Pp.
    apply Qle_trans with ((1 # 2) * pow2 (qlog2 q - (p - 1)) * pow2 p)%Q.
    + apply Qmult_le_compat_r; [exact H|lra].
    + assert (E : (pow2 (qlog2 q - (p - 1)) * pow2 p == 2 * pow2 (qlog2 q))%Q).
      { rewrite <- pow2_add. replace (qlog2 q - (p - 1) + p) with (qlog2 q + 1) by lia. apply pow2_succ. }
      setoid_replace ((1 # 2) * pow2 (qlog2 q - (p - 1)) * pow2 p)%Q with (pow2 (qlog2 q))%Q; [exact L|].
      rewrite <- Qmult_assoc, E. field.
Qed.

(* every number m * 2^e with |m| < 2^p is a fixed point: values that the format holds are returned unchanged *)
Theorem fl_round_representable : forall p m e, Z.abs m < 2 ^ p -> 0 <= p ->
  (fl_round p (inject_Z m * pow2 e) == inject_Z m * pow2 e)%Q.
Proof.
  intros p m e Hm Hp. set (q := (inject_Z m * pow2 e)%Q). unfold fl_round.
  destruct (Qeq_bool q 0) eqn:E; [apply Qeq_bool_iff in E; rewrite E; reflexivity|].
  assert (Hq : ~ (q == 0)%Q) by (intros H; apply Qeq_bool_iff in H; congruence).
  pose proof (qlog2_lower q Hq) as L.
  pose proof (pow2_pos e) as Pe.
  (* |q| = |m| 2^e < 2^(p+e), so qlog2 q < p + e, i.e. the rounding exponent is <= e *)
  assert (A : (Qabs' q == inject_Z (Z.abs m) * pow2 e)%Q).
  { unfold q. rewrite (Qabs'_mult_pos _ _ Pe). apply Qmult_comp; [|reflexivity].
    destruct (Qabs'_cases (inject_Z m)) as [[H1 E1]|[H1 E1]]; rewrite E1.
    - assert (0 <= m) by (unfold Qle in H1; cbn in H1; lia). rewrite Z.abs_eq by assumption. reflexivity.
    - assert (m < 0) by (unfold Qlt in H1; cbn in H1; lia). rewrite Z.abs_neq by lia.
      rewrite inject_Z_opp. reflexivity. }
  assert (U : (Qabs' q < pow2 (p + e))%Q).
  { rewrite A, pow2_add. apply Qmult_lt_compat_r; [exact Pe|].
    rewrite (pow2_Z p Hp). rewrite <- Zlt_Qlt. exact Hm. }
  assert (Hlog : qlog2 q < p + e) by (apply pow2_lt_inv; lra).
  set (e' := qlog2 q - (p - 1)). assert (He' : 0 <= e - e') by (subst e'; lia).
  pose proof (pow2_nz e') as Ne'.
  assert (X : (q / pow2 e' == inject_Z (m * 2 ^ (e - e')))%Q).
  { rewrite inject_Z_mult, <- (pow2_Z _ He'). unfold q.
    replace e with ((e - e') + e') at 1 by lia. rewrite pow2_add. field. exact Ne'. }
  rewrite (rne_eq_compat _ _ X). rewrite inject_Z_mult, <- (pow2_Z _ He').
  unfold q. replace e with ((e - e') + e') at 2 by lia. rewrite (pow2_add (e - e') e'). ring.
Qed.

(* ---- (b) the rounded mapping does not depend on the precision of a floating point input ---------------------- *)
Lemma cast_out_fp_round : forall dt v, cast_out_fp dt true v = cast_out dt true v.
Proof. reflexivity. Qed.

Theorem v2v_fp_rounded : forall dt A B shape check pts,
  v2v_fp dt A B shape true check pts = v2v_dt dt A B shape true check pts.
Proof. reflexivity. Qed.

Theorem v2v_fp_rounded_exact : forall dt A B shape check pts,
  Forall (vfits (round_width dt)) (map (phys (v2v_aff A B)) pts) ->
  v2v_fp dt A B shape true check pts = v2v A B shape true check pts.
Proof. intros. rewrite v2v_fp_rounded. now apply v2v_dt_rounded_exact. Qed.

(* float16, float32 and float64 index arrays holding the same points give the same rounded result *)
Corollary v2v_fp_rounded_width_irrelevant : forall w w' A B shape check pts,
  v2v_fp (DFloat w) A B shape true check pts = v2v_fp (DFloat w') A B shape true check pts.
Proof. reflexivity. Qed.

Theorem v2v_fp_rounded_agrees_with_physical_route : forall dt A B shape check pts, ~ (det B == 0)%Q ->
  Forall (vfits (round_width dt)) (map (phys (v2v_aff A B)) pts) ->
  (forall l, v2v_fp dt A B shape true check pts = Ok l -> ref2idx B shape true check (idx2ref A pts) = Ok l) /\
  (forall e, ref2idx B shape true check (idx2ref A pts) = Err e ->
             exists e', v2v_fp dt A B shape true check pts = Err e').
Proof.
  intros dt A B shape check pts Hd H. rewrite v2v_fp_rounded.
  now apply v2v_dt_rounded_agrees_with_physical_route.
Qed.

(* ---- (c) the un-rounded mapping ------------------------------------------------------------------------------ *)
Definition is_lowprec (dt : idtype) : bool :=
  match dt with DFloat W64 => false | DFloat _ => true | _ => false end.

Lemma to_float_fp_64 : forall v, to_float_fp W64 v = v.
Proof. intros [x y z]. reflexivity. Qed.

Lemma cast_out_fp_full : forall dt v, is_lowprec dt = false -> cast_out_fp dt false v = v.
Proof.
  intros dt v H. unfold cast_out_fp. destruct dt as [w|w|w]; try reflexivity.
  destruct w; try discriminate H. apply to_float_fp_64.
Qed.

Theorem v2v_fp_unrounded_full_precision : forall dt A B shape check pts, is_lowprec dt = false ->
  v2v_fp dt A B shape false check pts = v2v A B shape false check pts.
Proof.
  intros dt A B shape check pts H. unfold v2v_fp, v2v.
  assert (E : map (cast_out_fp dt false) (map (phys (v2v_aff A B)) pts) = map (phys (v2v_aff A B)) pts).
  { rewrite (map_ext _ (fun v => v) (fun v => cast_out_fp_full dt v H)). apply map_id. }
  now rewrite E.
Qed.

(* without bounds check: the returned list is the dtype-independent list, each coordinate rounded to the format *)
Theorem v2v_fp_unrounded_values : forall w A B shape pts l,
  v2v A B shape false false pts = Ok l ->
  v2v_fp (DFloat w) A B shape false false pts = Ok (map (to_float_fp w) l).
Proof.
  intros w A B shape pts l. unfold v2v, v2v_fp. destruct (Qeq_bool (det B) 0); [discriminate|].
  intros H. injection H as H. subst l. reflexivity.
Qed.

Definition vrel_close (p : Z) (u v : vec3) : Prop :=
  (Qabs' (vx u - vx v) * pow2 p <= Qabs' (vx v))%Q /\
  (Qabs' (vy u - vy v) * pow2 p <= Qabs' (vy v))%Q /\
  (Qabs' (vz u - vz v) * pow2 p <= Qabs' (vz v))%Q.

Lemma fl_cast_rel_err : forall w q, (Qabs' (fl_cast w q - q) * pow2 (fbits w) <= Qabs' q)%Q.
Proof.
  intros w q. destruct w; cbn [fl_cast]; try apply fl_round_rel_err.
  assert (E : (q - q == 0)%Q) by ring. rewrite (Qabs'_comp _ _ E). change (Qabs' 0) with 0%Q.
  pose proof (Qabs'_nonneg q). lra.
Qed.

Theorem to_float_fp_close : forall w v, vrel_close (fbits w) (to_float_fp w v) v.
Proof. intros w [x y z]. unfold vrel_close, to_float_fp. cbn [vx vy vz]. repeat split; apply fl_cast_rel_err. Qed.

(* "agrees with mapping through physical space" for an un-rounded float16 / float32 call: every returned coordinate
   is within |x| / 2^11 resp. |x| / 2^24 of the coordinate the physical route returns *)
Theorem v2v_fp_unrounded_close_to_physical_route : forall w A B shape pts l, ~ (det B == 0)%Q ->
  v2v_fp (DFloat w) A B shape false false pts = Ok l ->
  exists l', ref2idx B shape false false (idx2ref A pts) = Ok l' /\
             exists l0, Forall2 veq l0 l' /\ Forall2 (vrel_close (fbits w)) l l0.
Proof.
  intros w A B shape pts l Hd H.
  destruct (v2v_agrees_with_physical_route A B shape false pts Hd) as [Hag _].
  unfold v2v_fp in H. unfold v2v in Hag. rewrite (det_nz B Hd) in H, Hag. injection H as H.
  destruct (ref2idx B shape false false (idx2ref A pts)) as [l'|k] eqn:E; cbn [agree] in Hag; [|contradiction].
  exists l'. split; [reflexivity|]. exists (map (phys (v2v_aff A B)) pts). split; [exact Hag|].
  subst l. generalize (map (phys (v2v_aff A B)) pts). intros l0. induction l0 as [|v l0 IH]; constructor.
  - cbn [cast_out_fp]. apply to_float_fp_close.
  - exact IH.
Qed.

(* ---- (d) witnesses: the order "cast to the input precision, then round" is NOT the rounded mapping ------------- *)
Lemma cast_then_round_differs :
  (* float32, whole-slide pyramid: 65601.497 -> 65601.5 -> 65602 (true voxel 65601) *)
  rne (65601497 # 1000) = 65601 /\ cast_then_round W32 (65601497 # 1000) = 65602 /\
  (* float32: 65600.503 -> 65600.5 -> 65600 (true voxel 65601) *)
  rne (65600503 # 1000) = 65601 /\ cast_then_round W32 (65600503 # 1000) = 65600 /\
  (* float16: 512.7 -> 512.5 -> 512 (true voxel 513) *)
  rne (5127 # 10) = 513 /\ cast_then_round W16 (5127 # 10) = 512 /\
  (* float16: 715.3 -> 715.5 -> 716 = outside an axis of 716 voxels (true voxel 715, the last one) *)
  rne (7153 # 10) = 715 /\ cast_then_round W16 (7153 # 10) = 716.
Proof. vm_compute. repeat split; reflexivity. Qed.

(* the model on such a point (identity source, target 16 x finer and shifted by 1.497 target voxels, float32 point
   4100 on the axis): the rounded mapping names voxel 65601 whatever the float width, and equals the dtype-free one *)
Definition fp_A : aff := Aff (V3 1 0 0) (V3 0 1 0) (V3 0 0 1) (V3 0 0 0).
Definition fp_B : aff := Aff (V3 (1 # 16) 0 0) (V3 0 1 0) (V3 0 0 1) (V3 (- (1497 # 16000)) 0 0).
Lemma fp_example :
  ~ (det fp_B == 0)%Q /\
  Forall (vfits W64) (map (phys (v2v_aff fp_A fp_B)) [V3 4100 0 0]) /\
  (forall w, exists l, v2v_fp (DFloat w) fp_A fp_B (T3 131072 1 1) true true [V3 4100 0 0] = Ok l /\
                       Forall2 veq l [V3 65601 0 0]) /\
  exists l, v2v_fp (DFloat W32) fp_A fp_B (T3 131072 1 1) false true [V3 4100 0 0] = Ok l /\
            Forall2 veq l [V3 (131203 # 2) 0 0].
Proof.
  split; [vm_compute; discriminate|]. split.
  { constructor; [|constructor]. unfold vfits, zfits. vm_compute. repeat split; discriminate. }
  split.
  - intros w. rewrite (v2v_fp_rounded_width_irrelevant w W64). eexists. split; [vm_compute; reflexivity|].
    constructor; [|constructor]. repeat split; reflexivity.
  - eexists. split; [vm_compute; reflexivity|]. constructor; [|constructor]. repeat split; reflexivity.
Qed.
