(* C06 - get_volume_from_series: every slice of the volume is its OWN instance passed through
   the stages found in that instance (own rescale, own window centre / width / function, own
   LUTs, own photometric interpretation), whatever its neighbours in the series carry and
   wherever it sits in the series.  A transform of a neighbouring slice is never a substitute. *)
From Coq Require Import String ZArith List Bool Lia ZifyBool QArith Qfield Lqa.
From HD Require Import Base.Val C06_Model C06_Proofs C06_Proofs_Fold C06_Proofs_E2E.
Import ListNotations.
Open Scope Z_scope.

(* ------------------------------------------------------------------ *)
(* mapM: slice-wise characterisation                                   *)
(* ------------------------------------------------------------------ *)
Lemma mapM_Ok_Forall2 {A B} (f : A -> res B) l ys :
  mapM f l = Ok ys <-> Forall2 (fun a b => f a = Ok b) l ys.
Proof.
  revert ys. induction l as [|a l IH]; intros ys; cbn [mapM].
  - split; intros H.
    + injection H as <-. constructor.
    + inversion H. reflexivity.
  - split; intros H.
    + destruct (f a) as [b|k] eqn:Fa; cbn [bind] in H; [|discriminate].
      destruct (mapM f l) as [bs|k] eqn:M; cbn [bind] in H; [|discriminate].
      injection H as <-. constructor; [exact Fa|]. now apply IH.
    + inversion H as [|a' b l' bs Fa Ft]; subst. rewrite Fa. cbn [bind].
      apply IH in Ft. rewrite Ft. reflexivity.
Qed.

(* a failing call: the FIRST slice whose own transform / values are refused aborts it, with that
   slice's error; every slice in front of it was accepted *)
Lemma mapM_Err_first {A B} (f : A -> res B) l k :
  mapM f l = Err k <->
  exists l1 a l2, l = l1 ++ a :: l2 /\ f a = Err k /\ Forall (fun x => exists y, f x = Ok y) l1.
Proof.
  induction l as [|a l IH]; cbn [mapM].
  - split; [discriminate|]. intros (l1 & a & l2 & H & _). destruct l1; discriminate.
  - split.
    + intros H. destruct (f a) as [b|k'] eqn:Fa; cbn [bind] in H.
      * destruct (mapM f l) as [bs|k'] eqn:M; cbn [bind] in H; [discriminate|].
        injection H as ->. destruct IH as [IH _]. destruct (IH eq_refl) as (l1 & a' & l2 & -> & Fa' & Fl).
        exists (a :: l1), a', l2. split; [reflexivity|]. split; [exact Fa'|].
        constructor; [eauto|exact Fl].
      * injection H as ->. exists [], a, l. split; [reflexivity|]. split; [exact Fa|constructor].
    + intros (l1 & a' & l2 & Hl & Fa' & Fl). destruct l1 as [|x l1]; cbn [app] in Hl.
      * injection Hl as <- <-. rewrite Fa'. reflexivity.
      * injection Hl as <- ->. inversion Fl as [|x' l' (y & Fx) Fl']; subst. rewrite Fx. cbn [bind].
        destruct IH as [_ IH]. rewrite IH; [reflexivity|]. eauto 8.
Qed.

Lemma Forall2_app_mid {A B} (R : A -> B -> Prop) l1 a l2 ys :
  Forall2 R (l1 ++ a :: l2) ys ->
  exists y1 y y2, ys = y1 ++ y :: y2 /\ length y1 = length l1 /\ R a y.
Proof.
  revert ys. induction l1 as [|x l1 IH]; intros ys H; cbn [app] in H.
  - inversion H as [|a' y l' ys' Ra Rt]; subst. exists [], y, ys'. repeat split; assumption.
  - inversion H as [|a' y0 l' ys' Ra Rt]; subst. destruct (IH _ Rt) as (y1 & y & y2 & -> & L & Ry).
    exists (y0 :: y1), y, y2. cbn [app length]. repeat split; [now rewrite L|exact Ry].
Qed.

Section SeriesPlain.
Variable E : Q -> Q.

(* what get_frame returns for the single-frame instance s = (dataset, stored frame) *)
Definition slice_frame (fl : flags) (rsel vsel : sel) (ymin ymax : Q) (odt : dtype)
           (s : dataset * list Z) : res (list Q) :=
  get_frame E (fst s) fl rsel vsel ymin ymax odt [snd s] 0.

(* accepted series: slice k of the volume IS get_frame of instance k alone (and conversely) *)
Theorem series_slicewise : forall fl rsel vsel ymin ymax odt slices yss,
  get_series E fl rsel vsel ymin ymax odt slices = Ok yss <->
  Forall2 (fun s ys => slice_frame fl rsel vsel ymin ymax odt s = Ok ys) slices yss.
Proof. intros. unfold get_series. apply mapM_Ok_Forall2. Qed.

(* refused series: exactly when some instance alone is refused; the first such instance decides the error *)
Theorem series_error : forall fl rsel vsel ymin ymax odt slices k,
  get_series E fl rsel vsel ymin ymax odt slices = Err k <->
  exists l1 s l2, slices = l1 ++ s :: l2 /\ slice_frame fl rsel vsel ymin ymax odt s = Err k /\
                  Forall (fun x => exists ys, slice_frame fl rsel vsel ymin ymax odt x = Ok ys) l1.
Proof. intros. unfold get_series. apply mapM_Err_first. Qed.

(* neighbour independence: the values of an instance in the volume do not depend on which other
   instances the series contains, nor on the position of the instance in the series *)
Theorem series_neighbour_independent : forall fl rsel vsel ymin ymax odt l1 l2 l1' l2' s yss yss',
  get_series E fl rsel vsel ymin ymax odt (l1 ++ s :: l2) = Ok yss ->
  get_series E fl rsel vsel ymin ymax odt (l1' ++ s :: l2') = Ok yss' ->
  nth_error yss (length l1) = nth_error yss' (length l1') /\
  nth_error yss (length l1) = match slice_frame fl rsel vsel ymin ymax odt s with Ok ys => Some ys | Err _ => None end.
Proof.
  intros fl rsel vsel ymin ymax odt l1 l2 l1' l2' s yss yss' H H'.
  apply series_slicewise in H. apply series_slicewise in H'.
  apply Forall2_app_mid in H. apply Forall2_app_mid in H'.
  destruct H as (y1 & y & y2 & -> & L & R). destruct H' as (y1' & y' & y2' & -> & L' & R').
  rewrite <- L, <- L'. rewrite !nth_error_app2 by lia. rewrite !Nat.sub_diag. cbn [nth_error].
  rewrite R in R'. injection R' as <-. rewrite R. split; reflexivity.
Qed.

End SeriesPlain.

Section Series.
Variable E : Q -> Q.
Hypothesis E_compat : forall a b, (a == b)%Q -> (E a == E b)%Q.
Hypothesis E_inv : forall t, (E (- t) * E t == 1)%Q.
Hypothesis E_pos : forall t, (0 < E t)%Q.

(* THE property sentence for a series: with a floating point output dtype, every slice of the
   returned volume is - value by value - the stored frame of ITS OWN instance passed through the
   stages let through by the flag gate and discovered in THAT instance: the selected real world
   value map, or else modality -> VOI (own window / own LUT) -> presentation inversion (own
   photometric interpretation, own stored range) *)
Theorem series_staged : forall fl rsel vsel ymin ymax odt slices yss,
  is_float odt = true -> Forall (fun s => d_float_in (fst s) = false) slices ->
  get_series E fl rsel vsel ymin ymax odt slices = Ok yss ->
  Forall2 (fun s ys =>
    exists u fd,
      gate fl (d_ctype (fst s)) = Ok u /\ (ymin < ymax)%Q /\
      discover u (f_pres fl) (fst s) rsel vsel 0 = Ok fd /\
      match fd_rwvm fd with
      | Some r => Forall2 (rwvm_value r) (snd s) ys
      | None => fd_guards fd ->
          Forall2 (fun x y => (y == staged E (stage_mod fd) (stage_voi fd) (fd_invert fd) ymin ymax
                                           (stored_min (fst s)) (stored_max (fst s)) x)%Q) (snd s) ys
      end) slices yss.
Proof.
  intros fl rsel vsel ymin ymax odt slices yss Hf Hin H.
  apply (series_slicewise E) in H.
  induction H as [|s ys l yl Hs Ht IH]; [constructor|].
  inversion Hin as [|s' l' Hs0 Hl0]; subst.
  constructor; [|now apply IH].
  unfold slice_frame in Hs.
  destruct (get_frame_staged E E_compat E_inv E_pos _ _ _ _ _ _ _ _ _ _ Hs0 Hf Hs)
    as (u & fd & xs & G & Y & D & FA & M).
  unfold frame_at in FA. cbn in FA. injection FA as <-.
  exists u, fd. repeat split; assumption.
Qed.
End Series.

(* ------------------------------------------------------------------ *)
(* non-vacuity / the regression class: same rescale, different windows  *)
(* ------------------------------------------------------------------ *)
Definition ser_slice (c w : Z) (fn : option vfn) : dataset :=
  DS Mono false None false true 16 (DT KI 16) None None
     (Level None (Some (inject_Z 2)) (Some (inject_Z (-30)))
            (Some (Windows [inject_Z c] [inject_Z w] None fn)))
     None None None false.
Definition ser_fl : flags := Flags TN TN TT true TN TN.

(* three adjacent instances with IDENTICAL rescale and different window width / function: each
   slice is windowed with its own parameters (the three results differ although the stored
   frames are the same), and the middle slice is what get_frame of that instance alone gives *)
Lemma series_nonvacuous :
  exists y0 y1 y2,
    get_series E0 ser_fl (SIdx 0) (SIdx 0) 0 1 F64
      [(ser_slice 40 400 None, [0; 35; 90]); (ser_slice 40 150 None, [0; 35; 90]);
       (ser_slice 40 150 (Some LinearExact), [0; 35; 90])] = Ok [y0; y1; y2] /\
    get_frame E0 (ser_slice 40 150 None) ser_fl (SIdx 0) (SIdx 0) 0 1 F64 [[0; 35; 90]] 0 = Ok y1 /\
    map Qred y0 <> map Qred y1 /\ map Qred y1 <> map Qred y2.
Proof.
  eexists. eexists. eexists. split; [vm_compute; reflexivity|]. split; [vm_compute; reflexivity|].
  split; vm_compute; intros H; discriminate H.
Qed.
