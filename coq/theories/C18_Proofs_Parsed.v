(* C18 - proofs, part 6: Measurements.get_values on ANY requested count - the complete
   behaviour on constructed and on parsed vectors (the parsed dataset does not record the
   vector length: what is and what is not recoverable, exactly). *)
From Coq Require Import String ZArith List Bool Lia ZifyBool Arith.
From HD Require Import Base.Val Base.ListZ C18_Model C18_Proofs C18_Proofs_Meas.
Import ListNotations.
Ltac Zify.zify_post_hook ::= Z.to_euclidean_division_equations.
Open Scope Z_scope.

(* a vector cut / padded with "absent" to n entries *)
Definition resize (n : Z) (l : list word) : list word :=
  firstn (Z.to_nat n) l ++ repeat canonical_nan32 (Z.to_nat n - length l).

Lemma positions_none {A} : forall (keep : A -> bool) l i n,
  (forall p, In p (positions_from i keep l) -> p < n) -> n <= i -> positions_from i keep l = [].
Proof.
  intros keep l i n H Hn. remember (positions_from i keep l) as ps eqn:E. destruct ps as [|p t]; [reflexivity|].
  exfalso. assert (Hin : In p (positions_from i keep l)) by (rewrite <- E; now left).
  pose proof (positions_ge keep l i p Hin). specialize (H p (or_introl eq_refl)). lia.
Qed.

Lemma scatter_nil_idx : forall n vals acc, scatter n [] vals acc = Ok acc.
Proof. intros. destruct vals; reflexivity. Qed.

(* scattering the present values into n slots, all stored positions being inside *)
Lemma scatter_resize : forall (vs pre : list word) (n : Z),
  zlen pre <= n ->
  (forall p, In p (positions_from (zlen pre) present vs) -> p < n) ->
  scatter n (positions_from (zlen pre) present vs) (filter present vs)
          (pre ++ repeat canonical_nan32 (Z.to_nat (n - zlen pre)))
  = Ok (pre ++ firstn (Z.to_nat (n - zlen pre)) (map canon vs)
            ++ repeat canonical_nan32 (Z.to_nat (n - zlen pre) - length vs)).
Proof.
  induction vs as [|v t IH]; intros pre n Hpre Hpos.
  - cbn [positions_from filter map length]. rewrite scatter_nil_idx, firstn_nil, Nat.sub_0_r. reflexivity.
  - pose proof (zlen_nonneg pre) as Hp0.
    cbn [positions_from filter map length] in *.
    destruct (present v) eqn:Ep.
    + assert (Hlt : zlen pre < n) by (apply Hpos; now left).
      assert (Ec : canon v = v)
        by (unfold canon; unfold present in Ep; destruct (is_nan false v); [discriminate|reflexivity]).
      rewrite Ec. cbn [scatter].
      replace (zlen pre <? 0) with false by lia.
      replace ((zlen pre <? 0) || (n <=? zlen pre)) with false by lia.
      replace (Z.to_nat (n - zlen pre)) with (S (Z.to_nat (n - (zlen pre + 1)))) by lia.
      cbn [repeat firstn Nat.sub]. unfold zlen at 2. rewrite Nat2Z.id, set_nth_mid.
      replace (pre ++ v :: repeat canonical_nan32 (Z.to_nat (n - (zlen pre + 1))))
        with ((pre ++ [v]) ++ repeat canonical_nan32 (Z.to_nat (n - (zlen pre + 1))))
        by (rewrite <- app_assoc; reflexivity).
      assert (El : zlen pre + 1 = zlen (pre ++ [v])) by (rewrite zlen_app; reflexivity).
      rewrite El. rewrite IH.
      * rewrite <- app_assoc. reflexivity.
      * lia.
      * intros p Hp. apply Hpos. right. rewrite El. exact Hp.
    + assert (Ec : canon v = canonical_nan32)
        by (unfold canon; unfold present in Ep; destruct (is_nan false v); [reflexivity|discriminate]).
      rewrite Ec.
      destruct (Z.eq_dec (zlen pre) n) as [En|En].
      * (* no slot left: nothing is stored further on *)
        rewrite (positions_none present t (zlen pre + 1) n Hpos) by lia.
        rewrite scatter_nil_idx. replace (Z.to_nat (n - zlen pre)) with 0%nat by lia. reflexivity.
      * replace (Z.to_nat (n - zlen pre)) with (S (Z.to_nat (n - (zlen pre + 1)))) by lia.
        cbn [repeat firstn Nat.sub].
        replace (pre ++ canonical_nan32 :: repeat canonical_nan32 (Z.to_nat (n - (zlen pre + 1))))
          with ((pre ++ [canonical_nan32]) ++ repeat canonical_nan32 (Z.to_nat (n - (zlen pre + 1))))
          by (rewrite <- app_assoc; reflexivity).
        assert (El : zlen pre + 1 = zlen (pre ++ [canonical_nan32])) by (rewrite zlen_app; reflexivity).
        rewrite El. rewrite IH.
        -- rewrite <- app_assoc. reflexivity.
        -- lia.
        -- intros p Hp. apply Hpos. rewrite El. exact Hp.
Qed.

Lemma existsb_false_all {A} : forall (f : A -> bool) l, existsb f l = false -> forall x, In x l -> f x = false.
Proof.
  intros f l H x Hx. destruct (f x) eqn:E; [|reflexivity].
  assert (existsb f l = true) by (apply existsb_exists; eauto). congruence.
Qed.

(* sparse vector (some value absent), any requested count n >= 0:
   IndexError iff a value is stored for an annotation number beyond n, otherwise the
   vector cut / padded to n entries *)
Lemma sparse_get_values_exact : forall vs n, 0 <= n -> existsb (is_nan false) vs = true ->
  m_decode (m_encode vs) n =
  if existsb (fun p => n <? p) (positions_from 1 present vs) then Err "IndexError"
  else Ok (resize n (map canon vs)).
Proof.
  intros vs n Hn En.
  destruct (existsb (fun p => n <? p) (positions_from 1 present vs)) eqn:Ex.
  - apply existsb_exists in Ex as (p & Hp & Hlt).
    rewrite <- (m_decode_parsed (m_encode vs) n). apply (sparse_parsed_beyond vs n p); [exact Hn|exact En|exact Hp|lia].
  - unfold m_decode. rewrite m_encode_eq. cbn [m_idx m_values]. rewrite En.
    replace (n <? 0) with false by lia. rewrite positions_shift1.
    replace (zlen (filter present vs) =? zlen (positions_from 0 present vs)) with true
      by (unfold zlen; rewrite length_positions; lia).
    cbn [negb].
    pose proof (scatter_resize vs [] n) as S. change (zlen (@nil word)) with 0 in S.
    rewrite Z.sub_0_r in S. cbn [app] in S. unfold resize. rewrite map_length. apply S; [exact Hn|].
    intros p Hp. rewrite <- positions_shift1 in Hp. apply in_map_iff in Hp as (p1 & <- & Hp1).
    pose proof (existsb_false_all _ _ Ex p1 Hp1) as Hf. cbn beta in Hf. lia.
Qed.

(* dense vector (nothing absent): only its own length is accepted *)
Lemma dense_get_values_exact : forall vs n, 0 <= n -> existsb (is_nan false) vs = false ->
  m_decode (m_encode vs) n = if n =? zlen vs then Ok vs else Err "IndexError".
Proof.
  intros vs n Hn En. destruct (n =? zlen vs) eqn:E.
  - assert (n = zlen vs) by lia. subst n. rewrite measurements_roundtrip. f_equal.
    rewrite <- (map_id vs) at 2. apply map_ext_in. intros v Hv. apply canon_present.
    exact (existsb_false_all _ _ En v Hv).
  - unfold m_decode. rewrite m_encode_eq. cbn [m_idx m_values]. rewrite En.
    replace (n <? 0) with false by lia.
    rewrite (filter_all present vs (no_nan_present vs En)).
    rewrite zlen_zrange2 by lia. replace (n - 0) with n by lia.
    replace (zlen vs =? n) with false by lia. reflexivity.
Qed.

(* THE complete behaviour of get_values, constructed or parsed, every requested count *)
Lemma get_values_exact : forall vs n,
  m_decode (m_encode vs) n =
  if n <? 0 then Err VE
  else if existsb (is_nan false) vs
       then (if existsb (fun p => n <? p) (positions_from 1 present vs) then Err "IndexError"
             else Ok (resize n (map canon vs)))
       else (if n =? zlen vs then Ok vs else Err "IndexError").
Proof.
  intros vs n. destruct (n <? 0) eqn:E0.
  - unfold m_decode. now rewrite E0.
  - destruct (existsb (is_nan false) vs) eqn:En.
    + apply sparse_get_values_exact; [lia|exact En].
    + apply dense_get_values_exact; [lia|exact En].
Qed.

Lemma get_values_exact_parsed : forall vs n,
  m_decode (m_parsed (m_encode vs)) n =
  if n <? 0 then Err VE
  else if existsb (is_nan false) vs
       then (if existsb (fun p => n <? p) (positions_from 1 present vs) then Err "IndexError"
             else Ok (resize n (map canon vs)))
       else (if n =? zlen vs then Ok vs else Err "IndexError").
Proof. intros. rewrite m_decode_parsed. apply get_values_exact. Qed.

(* resize to the own length is the identity: the exact theorem contains the round trip *)
Lemma resize_self : forall l, resize (zlen l) l = l.
Proof.
  intros l. unfold resize, zlen. rewrite Nat2Z.id, firstn_all, Nat.sub_diag. cbn [repeat]. apply app_nil_r.
Qed.

(* a parsed dense vector is accepted by get_values for exactly one count: its length IS
   recoverable *)
Lemma dense_parsed_iff : forall vs n, existsb (is_nan false) vs = false ->
  ((exists out, m_decode (m_parsed (m_encode vs)) n = Ok out) <-> n = zlen vs).
Proof.
  intros vs n En. pose proof (zlen_nonneg vs). rewrite get_values_exact_parsed, En. split.
  - intros (out & H1). destruct (n <? 0); [discriminate|]. destruct (n =? zlen vs) eqn:E; [lia|discriminate].
  - intros ->. replace (zlen vs <? 0) with false by lia. rewrite Z.eqb_refl. eauto.
Qed.

(* a parsed sparse vector is accepted for every count from the last stored annotation
   number on, and hands back the vector cut / padded with "absent" *)
Lemma sparse_parsed_accepts : forall vs n, 0 <= n -> existsb (is_nan false) vs = true ->
  (forall p, In p (positions_from 1 present vs) -> p <= n) ->
  m_decode (m_parsed (m_encode vs)) n = Ok (resize n (map canon vs)).
Proof.
  intros vs n Hn En Hp. rewrite get_values_exact_parsed, En. replace (n <? 0) with false by lia.
  destruct (existsb (fun p => n <? p) (positions_from 1 present vs)) eqn:Ex; [|reflexivity].
  apply existsb_exists in Ex as (p & Hin & Hlt). specialize (Hp p Hin). lia.
Qed.

(* ... hence the length of a sparse vector is NOT recoverable from the written dataset:
   two vectors of different lengths are stored identically *)
Lemma sparse_length_not_recoverable : exists vs vs',
  zlen vs <> zlen vs' /\ m_parsed (m_encode vs) = m_parsed (m_encode vs') /\
  existsb (is_nan false) vs = true.
Proof.
  exists [1065353216; 2143289344], [1065353216; 2143289344; 2143289344].
  split; [vm_compute; discriminate|]. split; vm_compute; reflexivity.
Qed.

(* entry (i, j) of the value matrix get_measurements returns: measurement j of annotation i *)
Lemma transpose_entry : forall n (cols : list (list word)) i j c, (i < Z.to_nat n)%nat ->
  nth_error cols j = Some c ->
  exists row, nth_error (transpose_cols n cols) i = Some row /\
              nth_error row j = Some (nth i c canonical_nan32).
Proof.
  intros n cols i j c Hi Hc. unfold transpose_cols.
  exists (map (fun c0 => nth i c0 canonical_nan32) cols). split.
  - rewrite nth_error_map, nth_error_nth' with (d := 0%nat) by (rewrite seq_length; exact Hi).
    rewrite seq_nth by exact Hi. reflexivity.
  - rewrite nth_error_map, Hc. reflexivity.
Qed.

Lemma zlen_map' {A B} : forall (f : A -> B) l, zlen (map f l) = zlen l.
Proof. intros. unfold zlen. now rewrite map_length. Qed.

Lemma transpose_shape : forall n (cols : list (list word)), 0 <= n ->
  zlen (transpose_cols n cols) = n /\ Forall (fun r => zlen r = zlen cols) (transpose_cols n cols).
Proof.
  intros n cols Hn. unfold transpose_cols, zlen. rewrite map_length, seq_length. split; [lia|].
  apply Forall_forall. intros r Hr. apply in_map_iff in Hr as (i & <- & _). now rewrite map_length.
Qed.

(* the matrix as the property reads it: n rows, one column per selected measurement,
   entry (i, j) = value of measurement j for annotation i+1 (absent -> canonical NaN) *)
Lemma measurement_matrix_exact : forall n (ms : list (Z * list word)) name, 0 <= n ->
  (forall m, In m ms -> zlen (snd m) = n) ->
  let sel := filter (fun m => match name with None => true | Some q => fst m =? q end) ms in
  exists mat, get_measurement_matrix n (map (fun m => (fst m, m_encode (snd m))) ms) name = Ok (map fst sel, mat) /\
    zlen mat = n /\
    forall i j m v, nth_error sel j = Some m -> nth_error (snd m) i = Some v ->
      exists row, nth_error mat i = Some row /\ zlen row = zlen sel /\ nth_error row j = Some (canon v).
Proof.
  intros n ms name Hn H sel. unfold get_measurement_matrix.
  rewrite (get_measurements_exact n ms name H). cbn zeta. fold sel. cbn [bind fst snd].
  eexists. split; [reflexivity|].
  destruct (transpose_shape n (map (fun m : Z * list word => map canon (snd m)) sel) Hn) as [Hs1 Hs2].
  split; [exact Hs1|].
  intros i j m v Hm Hv.
  assert (Hmin : In m ms) by (apply nth_error_In in Hm; apply filter_In in Hm; tauto).
  assert (Hi : (i < Z.to_nat n)%nat).
  { rewrite <- (H m Hmin). unfold zlen. rewrite Nat2Z.id. apply nth_error_Some. congruence. }
  destruct (transpose_entry n (map (fun m0 : Z * list word => map canon (snd m0)) sel) i j (map canon (snd m)) Hi)
    as (row & Hr1 & Hr2).
  { rewrite nth_error_map, Hm. reflexivity. }
  exists row. split; [exact Hr1|]. split.
  - rewrite Forall_forall in Hs2. rewrite (Hs2 row (nth_error_In _ _ Hr1)). apply zlen_map'.
  - rewrite Hr2. f_equal. apply nth_error_nth. rewrite nth_error_map, Hv. reflexivity.
Qed.
