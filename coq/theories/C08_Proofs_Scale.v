(* C08 - proofs, part 9: the operations have no length scale.
   Multiplying the affine of the receiver by a positive constant k (another unit of length: mm -> um,
   a CT volume -> a whole-slide volume at 0.25 um per pixel) changes NOTHING in what an operation
   decides and does: it is accepted or refused alike (same error class), it has the same index map
   and the same resulting shape, channels and array, and the resulting affine is k times the
   resulting affine of the unscaled receiver, entry by entry.  Hence no entry of an affine is ever
   compared with, or replaced because of, an absolute length (an "absolute tolerance in mm"
   cannot occur in the model), and every theorem about voxel positions holds at every scale.
   Ring-generic; "k is positive" enters as the one law of an ordered ring that the order test
   needs: multiplying both sides of a comparison by k does not change it (instance Qc below). *)
From Coq Require Import String ZArith List Bool Lia ZifyBool Ring QArith Qcanon Lqa.
From HD Require Import C08_Model C08_Proofs C08_Proofs_Step C08_Proofs_Qc C08_Proofs_Top.
Import ListNotations.
Ltac Zify.zify_post_hook ::= Z.to_euclidean_division_equations.
Open Scope list_scope.
Open Scope Z_scope.

Section Scale.
Variable R : Type.
Variables (rO rI : R) (radd rmul rsub : R -> R -> R) (ropp : R -> R).
Variable inj : Z -> R.
Variable ltb : R -> R -> bool.
Variable Vx : Type.
Variable padval : pmode -> bool -> Vx -> list Vx -> Vx.

(* ================================================================== weak forward simulation
   as Section Sim of C08_Proofs_Step, but the two objects need not have the SAME affine: it is
   enough that the two order-dependent observations of the affine agree *)
Section SimW.
Variables T1 T2 : Type.
Variable aff1 : T1 -> aff R. Variable aff2 : T2 -> aff R.
Variable shape1 : T1 -> idx. Variable shape2 : T2 -> idx.
Variable pat1 : T1 -> bool. Variable pat2 : T2 -> bool.
Variable get1 : T1 -> index -> res (T1 * imap). Variable get2 : T2 -> index -> res (T2 * imap).
Variable pad1 : T1 -> padw -> pmode -> Vx -> bool -> res (T1 * imap).
Variable pad2 : T2 -> padw -> pmode -> Vx -> bool -> res (T2 * imap).
Variable perm1 : T1 -> list Z -> res (T1 * imap). Variable perm2 : T2 -> list Z -> res (T2 * imap).
Variable sim : T1 -> T2 -> Prop.
Hypothesis sim_closest : forall a b, sim a b ->
  closest R rO ropp ltb (aff1 a) = closest R rO ropp ltb (aff2 b).
Hypothesis sim_left : forall a b, sim a b ->
  is_left R rO radd rmul rsub ltb (aff1 a) = is_left R rO radd rmul rsub ltb (aff2 b).
Hypothesis sim_shape : forall a b, sim a b -> shape1 a = shape2 b.
Hypothesis sim_pat : forall a b, sim a b -> pat1 a = pat2 b.
Hypothesis sim_get : forall a b ix a' f, sim a b -> get1 a ix = Ok (a', f) ->
  exists b', get2 b ix = Ok (b', f) /\ sim a' b'.
Hypothesis sim_pad : forall a b w m cv pc a' f, sim a b -> pad1 a w m cv pc = Ok (a', f) ->
  exists b', pad2 b w m cv pc = Ok (b', f) /\ sim a' b'.
Hypothesis sim_perm : forall a b l a' f, sim a b -> perm1 a l = Ok (a', f) ->
  exists b', perm2 b l = Ok (b', f) /\ sim a' b'.
Hypothesis sim_get_err : forall a b ix e, sim a b -> get1 a ix = Err e -> get2 b ix = Err e.
Hypothesis sim_pad_err : forall a b w m cv pc e, sim a b ->
  pad1 a w m cv pc = Err e -> pad2 b w m cv pc = Err e.
Hypothesis sim_perm_err : forall a b l e, sim a b -> perm1 a l = Err e -> perm2 b l = Err e.

Notation step1 := (step_sp R rO radd rmul rsub ropp ltb Vx T1 aff1 shape1 pat1 get1 pad1 perm1).
Notation step2 := (step_sp R rO radd rmul rsub ropp ltb Vx T2 aff2 shape2 pat2 get2 pad2 perm2).

Lemma flip_simw : forall a b ax a' f, sim a b -> flip_spatial T1 get1 a ax = Ok (a', f) ->
  exists b', flip_spatial T2 get2 b ax = Ok (b', f) /\ sim a' b'.
Proof.
  intros a b ax a' f S H. unfold flip_spatial in *.
  destruct (_ || _); [discriminate|]. eapply sim_get; eassumption.
Qed.

Lemma swap_simw : forall a b x y a' f, sim a b -> swap_axes_m T1 perm1 a x y = Ok (a', f) ->
  exists b', swap_axes_m T2 perm2 b x y = Ok (b', f) /\ sim a' b'.
Proof.
  intros a b x y a' f S H. unfold swap_axes_m in *.
  destruct (_ || _); [discriminate|]. destruct (x =? y); [discriminate|]. eapply sim_perm; eassumption.
Qed.

Theorem step_sp_simw : forall a b o a' f, sim a b -> step1 a o = Ok (a', f) ->
  exists b', step2 b o = Ok (b', f) /\ sim a' b'.
Proof.
  intros a b o a' f S H. destruct o; cbn [step_sp] in *.
  - eapply sim_get; eassumption.
  - eapply flip_simw; eassumption.
  - eapply sim_perm; eassumption.
  - eapply swap_simw; eassumption.
  - eapply sim_pad; eassumption.
  - unfold pad_to in *. rewrite <- (sim_shape a b S). destruct (negb _); [discriminate|].
    inv_bind H as w Ew. cbn [bind]. eapply sim_pad; eassumption.
  - unfold crop_to in *. rewrite <- (sim_shape a b S). destruct (negb _); [discriminate|].
    inv_bind H as its Ei. cbn [bind]. eapply sim_get; eassumption.
  - unfold pad_or_crop_to in *. rewrite <- (sim_shape a b S). destruct (negb _); [discriminate|].
    destruct (pad_or_crop_plan _ _) as [pw cr].
    inv_bind H as c Ec. inv_bind H as p Ep. destruct c as [c fc], p as [p fp]. cbn [fst snd] in *.
    inversion H; subst.
    destruct (sim_get _ _ _ _ _ S Ec) as (c2 & Ec2 & Sc). rewrite Ec2; cbn [bind fst snd].
    destruct (sim_pad _ _ _ _ _ _ _ _ Sc Ep) as (p2 & Ep2 & Sp). rewrite Ep2; cbn [bind fst snd].
    eexists; split; [reflexivity|exact Sp].
  - unfold to_orientation in *. rewrite <- (sim_pat a b S), <- (sim_closest a b S).
    destruct (negb _); [discriminate|].
    inv_bind H as des Ed. cbn [bind]. inv_bind H as pf Ep. cbn [bind]. destruct pf as [perm flips].
    inv_bind H as fl Ef. inv_bind H as p Epm. destruct fl as [fl ffl], p as [p fp]. cbn [fst snd] in *.
    inversion H; subst.
    assert (exists fl2, match flips with [] => Ok (b, imap_id) | _ :: _ => flip_spatial T2 get2 b (FList flips) end
                        = Ok (fl2, ffl) /\ sim fl fl2) as (fl2 & Ef2 & Sf).
    { destruct flips; [inversion Ef; subst; eexists; split; [reflexivity|exact S]|].
      eapply flip_simw; eassumption. }
    rewrite Ef2; cbn [bind fst snd].
    destruct (sim_perm _ _ _ _ _ Sf Epm) as (p2 & Ep2 & Sp). rewrite Ep2; cbn [bind fst snd].
    eexists; split; [reflexivity|exact Sp].
  - unfold ensure_handedness in *. rewrite <- (sim_left a b S).
    destruct flip_axis as [x|], swap_axes as [sw|]; try discriminate; destruct h; try discriminate;
      destruct (Bool.eqb _ _);
      try (inversion H; subst; eexists; split; [reflexivity|exact S]);
      try (eapply flip_simw; eassumption).
    all: try (destruct sw as [|x [|y [|? ?]]]; try discriminate; eapply swap_simw; eassumption).
  - unfold rand_op in *. rewrite <- (sim_shape a b S). inv_bind H as pl Epl. cbn [bind].
    destruct pl as [ix|p]; [eapply sim_get|eapply sim_perm]; eassumption.
Qed.

Lemma flip_simw_err : forall a b ax e, sim a b -> flip_spatial T1 get1 a ax = Err e ->
  flip_spatial T2 get2 b ax = Err e.
Proof.
  intros a b ax e S H. unfold flip_spatial in *.
  destruct (_ || _); [inversion H; reflexivity|]. eapply sim_get_err; eassumption.
Qed.

Lemma swap_simw_err : forall a b x y e, sim a b -> swap_axes_m T1 perm1 a x y = Err e ->
  swap_axes_m T2 perm2 b x y = Err e.
Proof.
  intros a b x y e S H. unfold swap_axes_m in *.
  destruct (_ || _); [inversion H; reflexivity|]. destruct (x =? y); [inversion H; reflexivity|].
  eapply sim_perm_err; eassumption.
Qed.

Theorem step_sp_simw_err : forall a b o e, sim a b -> step1 a o = Err e -> step2 b o = Err e.
Proof.
  intros a b o e S H. destruct o; cbn [step_sp] in *.
  - eapply sim_get_err; eassumption.
  - eapply flip_simw_err; eassumption.
  - eapply sim_perm_err; eassumption.
  - eapply swap_simw_err; eassumption.
  - eapply sim_pad_err; eassumption.
  - unfold pad_to in *. rewrite <- (sim_shape a b S). destruct (negb _); [inversion H; reflexivity|].
    destruct (pad_to_widths _ _) as [w|]; cbn [bind] in *; [|inversion H; reflexivity]. eapply sim_pad_err; eassumption.
  - unfold crop_to in *. rewrite <- (sim_shape a b S). destruct (negb _); [inversion H; reflexivity|].
    destruct (crop_to_items _ _) as [its|]; cbn [bind] in *; [|inversion H; reflexivity]. eapply sim_get_err; eassumption.
  - unfold pad_or_crop_to in *. rewrite <- (sim_shape a b S). destruct (negb _); [inversion H; reflexivity|].
    destruct (pad_or_crop_plan _ _) as [pw cr].
    destruct (get1 a (XTup cr)) as [[c fc]|kc] eqn:Ec; cbn [bind fst snd] in H.
    + destruct (sim_get _ _ _ _ _ S Ec) as (c2 & Ec2 & Sc). rewrite Ec2; cbn [bind fst snd].
      destruct (pad1 c (PWNest pw) m cval pc) as [[p fp]|kp] eqn:Ep; cbn [bind] in H; [discriminate|].
      inversion H; subst kp. rewrite (sim_pad_err _ _ _ _ _ _ _ Sc Ep). reflexivity.
    + inversion H; subst kc. rewrite (sim_get_err _ _ _ _ S Ec). reflexivity.
  - unfold to_orientation in *. rewrite <- (sim_pat a b S), <- (sim_closest a b S).
    destruct (negb _); [inversion H; reflexivity|].
    destruct (normalize_orientation o) as [des|]; cbn [bind] in *; [|inversion H; reflexivity].
    destruct (orient_plan _ des) as [[perm flips]|]; cbn [bind] in *; [|inversion H; reflexivity].
    destruct (match flips with [] => Ok (a, imap_id) | _ :: _ => flip_spatial T1 get1 a (FList flips) end)
      as [[fl ffl]|kf] eqn:Ef; cbn [bind fst snd] in H.
    + assert (exists fl2, match flips with [] => Ok (b, imap_id) | _ :: _ => flip_spatial T2 get2 b (FList flips) end
                          = Ok (fl2, ffl) /\ sim fl fl2) as (fl2 & Ef2 & Sf).
      { destruct flips; [inversion Ef; subst; eexists; split; [reflexivity|exact S]|].
        eapply flip_simw; eassumption. }
      rewrite Ef2; cbn [bind fst snd].
      destruct (perm1 fl perm) as [[p fp]|kp] eqn:Ep; cbn [bind] in H; [discriminate|].
      inversion H; subst kp. rewrite (sim_perm_err _ _ _ _ Sf Ep). reflexivity.
    + inversion H; subst kf. destruct flips; [discriminate|].
      rewrite (flip_simw_err _ _ _ _ S Ef). reflexivity.
  - unfold ensure_handedness in *. rewrite <- (sim_left a b S).
    destruct flip_axis as [x|], swap_axes as [sw|]; try (inversion H; reflexivity); destruct h; try (inversion H; reflexivity);
      destruct (Bool.eqb _ _); try discriminate;
      try (eapply flip_simw_err; eassumption).
    all: try (destruct sw as [|x [|y [|? ?]]]; try (inversion H; reflexivity); eapply swap_simw_err; eassumption).
  - unfold rand_op in *. rewrite <- (sim_shape a b S).
    destruct (rand_plan _ r) as [pl|]; cbn [bind] in *; [|inversion H; reflexivity].
    destruct pl as [ix|p]; [eapply sim_get_err|eapply sim_perm_err]; eassumption.
Qed.
End SimW.

(* ================================================================== scaling the affine *)
Variable Rth : ring_theory rO rI radd rmul rsub ropp (@eq R).
Add Ring RrScale : Rth.

Variable k : R.
(* k > 0, as far as the order test can tell *)
Hypothesis k_pos : forall x y, ltb (rmul k x) (rmul k y) = ltb x y.

Definition svec (v : vec R) : vec R := V (rmul k (vx v)) (rmul k (vy v)) (rmul k (vz v)).
Definition saff (A : aff R) : aff R := Aff (svec (c0 A)) (svec (c1 A)) (svec (c2 A)) (svec (tr A)).
Definition svol (v : vol R Vx) : vol R Vx :=
  Vol R Vx (saff (v_aff _ _ v)) (v_shape _ _ v) (v_chans _ _ v) (v_arr _ _ v) (v_isint _ _ v)
      (v_patient _ _ v) (v_for _ _ v).
Definition sgeom (g : geom R) : geom R :=
  Geom R (saff (g_aff _ g)) (g_shape _ g) (g_patient _ g) (g_for _ g).

Notation closestR := (closest R rO ropp ltb).
Notation is_leftR := (is_left R rO radd rmul rsub ltb).

Lemma k_neg : forall x, ltb (rmul k x) rO = ltb x rO.
Proof. intros x. rewrite <- (k_pos x rO). f_equal. ring. Qed.
Lemma k_pos0 : forall x, ltb rO (rmul k x) = ltb rO x.
Proof. intros x. rewrite <- (k_pos rO x). f_equal. ring. Qed.

Lemma get_aff_scale : forall A p, get_aff R radd rmul inj (saff A) p = saff (get_aff R radd rmul inj A p).
Proof.
  intros A [[[f0 f1] f2] [[s0 s1] s2] n]. unfold get_aff, getitem_aff, saff, svec, phys, vadd, smul.
  cbn. f_equal; apply vec_eq; cbn; ring.
Qed.

Lemma pad_aff_scale : forall A pw, pad_aff R radd rmul inj (saff A) pw = saff (pad_aff R radd rmul inj A pw).
Proof.
  intros A [[[a0 b0] [a1 b1]] [a2 b2]]. unfold pad_aff, saff, svec, phys, vadd, smul.
  cbn. f_equal; apply vec_eq; cbn; ring.
Qed.

Lemma col_scale : forall A d, col R (saff A) d = svec (col R A d).
Proof. intros A d. unfold col, sel3, saff. cbn. destruct (d =? 0); [reflexivity|]. destruct (d =? 1); reflexivity. Qed.

Lemma comp_scale : forall v i, comp R (svec v) i = rmul k (comp R v i).
Proof. intros v i. unfold comp, sel3, svec. cbn. destruct (i =? 0); [reflexivity|]. destruct (i =? 1); reflexivity. Qed.

Lemma perm_aff_scale : forall A p, perm_aff R (saff A) p = saff (perm_aff R A p).
Proof.
  intros A [[a b] c]. unfold perm_aff. rewrite !col_scale. reflexivity.
Qed.

(* ---- the order-dependent observations do not see the scale *)
Lemma rabs_scale : forall x, rabs R rO ropp ltb (rmul k x) = rmul k (rabs R rO ropp ltb x).
Proof. intros x. unfold rabs. rewrite k_neg. destruct (ltb x rO); ring. Qed.

Lemma okey_scale : forall x, okey R rO ropp ltb (rmul k x) = rmul k (okey R rO ropp ltb x).
Proof. intros x. unfold okey. rewrite rabs_scale. ring. Qed.

Definition sc2 (p : Z * R) : Z * R := (fst p, rmul k (snd p)).

Lemma ins_sorted_scale : forall x l, ins_sorted R ltb (sc2 x) (map sc2 l) = map sc2 (ins_sorted R ltb x l).
Proof.
  intros x l. induction l as [|y l IH]; [reflexivity|].
  cbn [map ins_sorted]. unfold sc2 at 1 2. cbn [fst snd]. rewrite k_pos.
  destruct (ltb (snd x) (snd y)); [reflexivity|]. cbn [map]. f_equal. exact IH.
Qed.

Lemma argsort3_scale : forall v, argsort3 R rO ropp ltb (svec v) = argsort3 R rO ropp ltb v.
Proof.
  intros v. unfold argsort3. cbn [fold_left]. unfold svec. cbn [vx vy vz]. rewrite !okey_scale.
  change ((0, rmul k (okey R rO ropp ltb (vx v)))) with (sc2 (0, okey R rO ropp ltb (vx v))).
  change ((1, rmul k (okey R rO ropp ltb (vy v)))) with (sc2 (1, okey R rO ropp ltb (vy v))).
  change ((2, rmul k (okey R rO ropp ltb (vz v)))) with (sc2 (2, okey R rO ropp ltb (vz v))).
  change (@nil (Z * R)) with (map sc2 []) at 1.
  rewrite !ins_sorted_scale. rewrite map_map. apply map_ext. intros [a b]. reflexivity.
Qed.

Lemma closest_step_scale : forall A result d,
  closest_step R rO ropp ltb (saff A) result d = closest_step R rO ropp ltb A result d.
Proof.
  intros A result d. unfold closest_step. rewrite col_scale, argsort3_scale, comp_scale, k_pos0. reflexivity.
Qed.

Lemma closest_scale : forall A, closestR (saff A) = closestR A.
Proof. intros A. unfold closest. rewrite !closest_step_scale. reflexivity. Qed.

Lemma det3_scale : forall A,
  det3 R radd rmul rsub (saff A) = rmul k (rmul k (rmul k (det3 R radd rmul rsub A))).
Proof. intros A. unfold det3, saff, svec. cbn. ring. Qed.

Lemma is_left_scale : forall A, is_leftR (saff A) = is_leftR A.
Proof. intros A. unfold is_left. rewrite det3_scale, !k_neg. reflexivity. Qed.

(* ---- the three primitive methods of a volume and of a geometry *)
Notation vget := (vol_get R radd rmul inj Vx).
Notation vpad := (vol_pad R radd rmul inj Vx padval).
Notation vperm := (vol_perm R Vx).
Notation gget := (geom_get R radd rmul inj).
Notation gpad := (geom_pad R radd rmul inj Vx).
Notation gperm := (geom_perm R).
Notation vstep_sp := (vol_step_sp R rO radd rmul rsub ropp inj ltb Vx padval).
Notation gstep_sp := (geom_step_sp R rO radd rmul rsub ropp inj ltb Vx).
Notation vstep_tr := (step_tr R rO radd rmul rsub ropp inj ltb Vx padval).
Notation vrun_tr := (run_tr R rO radd rmul rsub ropp inj ltb Vx padval).
Notation vrun := (run R rO radd rmul rsub ropp inj ltb Vx padval).
Notation ggstep := (gstep R rO radd rmul rsub ropp inj ltb Vx).
Notation ggrun := (grun R rO radd rmul rsub ropp inj ltb Vx).

Definition lift_v (r : res (vol R Vx * imap)) : res (vol R Vx * imap) :=
  match r with Ok p => Ok (svol (fst p), snd p) | Err e => Err e end.
Definition lift_g (r : res (geom R * imap)) : res (geom R * imap) :=
  match r with Ok p => Ok (sgeom (fst p), snd p) | Err e => Err e end.

Lemma vget_scale : forall v ix, vget (svol v) ix = lift_v (vget v ix).
Proof.
  intros v ix. unfold vol_get. cbn [svol v_shape v_aff v_chans v_arr v_isint v_patient v_for].
  destruct (prep_getitem (v_shape R Vx v) ix) as [p|e]; cbn [bind lift_v fst snd]; [|reflexivity].
  unfold svol. cbn [v_shape v_aff v_chans v_arr v_isint v_patient v_for]. rewrite get_aff_scale. reflexivity.
Qed.

Lemma vperm_scale : forall v l, vperm (svol v) l = lift_v (vperm v l).
Proof.
  intros v l. unfold vol_perm. destruct (is_perm3 l); cbn [lift_v fst snd]; [|reflexivity].
  unfold svol. cbn [v_shape v_aff v_chans v_arr v_isint v_patient v_for]. rewrite perm_aff_scale. reflexivity.
Qed.

Lemma cshape_scale : forall v, cshape R Vx (svol v) = cshape R Vx v.
Proof. reflexivity. Qed.

Lemma vpad_scale : forall v w m cv pc, vpad (svol v) w m cv pc = lift_v (vpad v w m cv pc).
Proof.
  intros v w m cv pc. unfold vol_pad. rewrite cshape_scale.
  cbn [svol v_shape v_aff v_chans v_arr v_isint v_patient v_for].
  destruct m; cbn [lift_v]; try reflexivity;
    (destruct (prep_pad_width w) as [l|e]; cbn [bind lift_v]; [|reflexivity];
     destruct (existsb _ l); cbn [lift_v]; [reflexivity|];
     destruct (v_shape R Vx v) as [[n0 n1] n2];
     destruct (pw_triple l) as [[[a0 b0] [a1 b1]] [a2 b2]];
     cbn [lift_v fst snd]; unfold svol;
     cbn [v_shape v_aff v_chans v_arr v_isint v_patient v_for]; rewrite pad_aff_scale; reflexivity).
Qed.

Lemma gget_scale : forall g ix, gget (sgeom g) ix = lift_g (gget g ix).
Proof.
  intros g ix. unfold geom_get. cbn [sgeom g_shape g_aff g_patient g_for].
  destruct (prep_getitem (g_shape R g) ix) as [p|e]; cbn [bind lift_g fst snd]; [|reflexivity].
  unfold sgeom. cbn [g_shape g_aff g_patient g_for]. rewrite get_aff_scale. reflexivity.
Qed.

Lemma gperm_scale : forall g l, gperm (sgeom g) l = lift_g (gperm g l).
Proof.
  intros g l. unfold geom_perm. destruct (is_perm3 l); cbn [lift_g fst snd]; [|reflexivity].
  unfold sgeom. cbn [g_shape g_aff g_patient g_for]. rewrite perm_aff_scale. reflexivity.
Qed.

Lemma gpad_scale : forall g w m cv pc, gpad (sgeom g) w m cv pc = lift_g (gpad g w m cv pc).
Proof.
  intros g w m cv pc. unfold geom_pad. cbn [sgeom g_shape g_aff g_patient g_for].
  destruct (prep_pad_width w) as [l|e]; cbn [bind lift_g fst snd]; [|reflexivity].
  unfold sgeom. cbn [g_shape g_aff g_patient g_for]. rewrite pad_aff_scale. reflexivity.
Qed.

(* ---- one spatial operation *)
Definition vsim (a b : vol R Vx) : Prop := b = svol a.
Definition gsimS (a b : geom R) : Prop := b = sgeom a.

Ltac prim_ok L :=
  intros; match goal with S : _ = _, H : _ = Ok _ |- _ =>
    rewrite S, L, H; cbn [lift_v lift_g fst snd]; eexists; split; reflexivity end.
Ltac prim_err L :=
  intros; match goal with S : _ = _, H : _ = Err _ |- _ =>
    rewrite S, L, H; reflexivity end.

Theorem vstep_sp_scale_ok : forall v o v' f, vstep_sp v o = Ok (v', f) -> vstep_sp (svol v) o = Ok (svol v', f).
Proof.
  intros v o v' f H.
  destruct (step_sp_simw (vol R Vx) (vol R Vx) (v_aff R Vx) (v_aff R Vx) (v_shape R Vx) (v_shape R Vx)
              (v_patient R Vx) (v_patient R Vx) vget vget vpad vpad vperm vperm vsim) with (a := v) (b := svol v)
              (o := o) (a' := v') (f := f) as (b' & Hb & Sb); try exact H; try reflexivity.
  - intros a b S. rewrite S. cbn [svol v_aff]. symmetry. apply closest_scale.
  - intros a b S. rewrite S. cbn [svol v_aff]. symmetry. apply is_left_scale.
  - intros a b S. rewrite S. reflexivity.
  - intros a b S. rewrite S. reflexivity.
  - unfold vsim. prim_ok vget_scale.
  - unfold vsim. prim_ok vpad_scale.
  - unfold vsim. prim_ok vperm_scale.
  - unfold vsim in Sb. rewrite <- Sb. exact Hb.
Qed.

Theorem vstep_sp_scale_err : forall v o e, vstep_sp v o = Err e -> vstep_sp (svol v) o = Err e.
Proof.
  intros v o e H.
  apply (step_sp_simw_err (vol R Vx) (vol R Vx) (v_aff R Vx) (v_aff R Vx) (v_shape R Vx) (v_shape R Vx)
              (v_patient R Vx) (v_patient R Vx) vget vget vpad vpad vperm vperm vsim) with (a := v);
    try exact H; try reflexivity.
  - intros a b S. rewrite S. cbn [svol v_aff]. symmetry. apply closest_scale.
  - intros a b S. rewrite S. cbn [svol v_aff]. symmetry. apply is_left_scale.
  - intros a b S. rewrite S. reflexivity.
  - intros a b S. rewrite S. reflexivity.
  - unfold vsim. prim_ok vget_scale.
  - unfold vsim. prim_err vget_scale.
  - unfold vsim. prim_err vpad_scale.
  - unfold vsim. prim_err vperm_scale.
Qed.

Theorem vstep_sp_scale : forall v o, vstep_sp (svol v) o = lift_v (vstep_sp v o).
Proof.
  intros v o. destruct (vstep_sp v o) as [[v' f]|e] eqn:E; cbn [lift_v fst snd].
  - apply vstep_sp_scale_ok; exact E.
  - apply vstep_sp_scale_err; exact E.
Qed.

Theorem gstep_sp_scale : forall g o, gstep_sp (sgeom g) o = lift_g (gstep_sp g o).
Proof.
  intros g o. destruct (gstep_sp g o) as [[g' f]|e] eqn:E; cbn [lift_g fst snd].
  - destruct (step_sp_simw (geom R) (geom R) (g_aff R) (g_aff R) (g_shape R) (g_shape R)
                (g_patient R) (g_patient R) gget gget gpad gpad gperm gperm gsimS) with (a := g) (b := sgeom g)
                (o := o) (a' := g') (f := f) as (b' & Hb & Sb); try exact E; try reflexivity.
    + intros a b S. rewrite S. cbn [sgeom g_aff]. symmetry. apply closest_scale.
    + intros a b S. rewrite S. cbn [sgeom g_aff]. symmetry. apply is_left_scale.
    + intros a b S. rewrite S. reflexivity.
    + intros a b S. rewrite S. reflexivity.
    + unfold gsimS. prim_ok gget_scale.
    + unfold gsimS. prim_ok gpad_scale.
    + unfold gsimS. prim_ok gperm_scale.
    + unfold gsimS in Sb. rewrite <- Sb. exact Hb.
  - apply (step_sp_simw_err (geom R) (geom R) (g_aff R) (g_aff R) (g_shape R) (g_shape R)
                (g_patient R) (g_patient R) gget gget gpad gpad gperm gperm gsimS) with (a := g);
      try exact E; try reflexivity.
    + intros a b S. rewrite S. cbn [sgeom g_aff]. symmetry. apply closest_scale.
    + intros a b S. rewrite S. cbn [sgeom g_aff]. symmetry. apply is_left_scale.
    + intros a b S. rewrite S. reflexivity.
    + intros a b S. rewrite S. reflexivity.
    + unfold gsimS. prim_ok gget_scale.
    + unfold gsimS. prim_err gget_scale.
    + unfold gsimS. prim_err gpad_scale.
    + unfold gsimS. prim_err gperm_scale.
Qed.

(* ---- every operation of the alphabet (channel operations, copy, with_array do not look at
   the affine at all) *)
Theorem step_tr_scale : forall v o, vstep_tr (svol v) o = lift_v (vstep_tr v o).
Proof.
  intros v o. destruct o as [s| |sh a i ch|keep sel|ds|ds]; cbn [step_tr].
  - apply vstep_sp_scale.
  - reflexivity.
  - unfold vol_with_array. cbn [svol v_shape v_aff v_chans v_arr v_isint v_patient v_for]. rewrite cshape_scale.
    destruct (negb _); [reflexivity|].
    destruct (match ch with Some c => Ok c | None => _ end) as [c|e]; [|reflexivity].
    destruct (ctor_ok sh c); reflexivity.
  - unfold vol_get_channel. cbn [svol v_shape v_aff v_chans v_arr v_isint v_patient v_for].
    destruct (get_channel_plan _ _ _ _) as [plan|e]; reflexivity.
  - unfold vol_permute_channels. cbn [svol v_shape v_aff v_chans v_arr v_isint v_patient v_for].
    destruct (chan_indices _ _) as [p|e]; cbn [bind]; [|reflexivity].
    destruct (has_dup ds); [reflexivity|]. destruct (negb _); reflexivity.
  - unfold vol_squeeze_channel. cbn [svol v_shape v_aff v_chans v_arr v_isint v_patient v_for].
    destruct ds as [l|]; [|reflexivity].
    destruct (chan_indices _ _) as [ks|e]; cbn [bind]; [|reflexivity].
    destruct (existsb _ ks); [reflexivity|]. destruct (has_dup l); reflexivity.
Qed.

Theorem gstep_scale : forall g o,
  ggstep (sgeom g) o = match ggstep g o with
                       | Some (Ok g') => Some (Ok (sgeom g'))
                       | Some (Err e) => Some (Err e)
                       | None => None
                       end.
Proof.
  intros g o. destruct o as [s| |sh a i ch|keep sel|ds|ds]; cbn [gstep]; try reflexivity.
  rewrite gstep_sp_scale. destruct (gstep_sp g s) as [[g' f]|e]; reflexivity.
Qed.

(* ---- every finite history *)
Theorem run_tr_scale : forall ops v f,
  fold_left (step_skip_tr R rO radd rmul rsub ropp inj ltb Vx padval) ops (svol v, f) =
  (svol (fst (fold_left (step_skip_tr R rO radd rmul rsub ropp inj ltb Vx padval) ops (v, f))),
   snd (fold_left (step_skip_tr R rO radd rmul rsub ropp inj ltb Vx padval) ops (v, f))).
Proof.
  induction ops as [|o ops IH]; intros v f; [reflexivity|].
  cbn [fold_left]. unfold step_skip_tr at 2 4 6. cbn [fst snd].
  rewrite step_tr_scale. destruct (vstep_tr v o) as [[v' g]|e]; cbn [lift_v fst snd]; apply IH.
Qed.

Theorem history_scale : forall ops v,
  vrun_tr (svol v) ops = (svol (fst (vrun_tr v ops)), snd (vrun_tr v ops)).
Proof. intros ops v. unfold run_tr. apply run_tr_scale. Qed.

Theorem grun_scale : forall ops g, ggrun (sgeom g) ops = sgeom (ggrun g ops).
Proof.
  induction ops as [|o ops IH]; intros g; [reflexivity|].
  unfold grun in *. cbn [fold_left]. unfold gstep_skip at 2 4. rewrite gstep_scale.
  destruct (ggstep g o) as [[g'|e]|]; apply IH.
Qed.
End Scale.

(* ================================================================== instance: Qc *)
Lemma this_mul : forall a b : Qc, (this (Qcmult a b) == this a * this b)%Q.
Proof. intros a b. unfold Qcmult. cbn [this Q2Qc]. apply Qred_correct. Qed.

Lemma qc_scale_pos : forall k : Qc, qc_ltb (Q2Qc 0%Q) k = true ->
  forall x y, qc_ltb (Qcmult k x) (Qcmult k y) = qc_ltb x y.
Proof.
  intros k Hk x y. apply qc_ltb_lt in Hk. rewrite this_0 in Hk.
  apply qc_ltb_eq. rewrite !this_mul. apply Qmult_lt_l. exact Hk.
Qed.

(* conversely the law says nothing else: it fails for k = 0 and for k < 0 *)
Lemma qc_scale_pos_conv : forall k : Qc,
  (forall x y, qc_ltb (Qcmult k x) (Qcmult k y) = qc_ltb x y) -> qc_ltb (Q2Qc 0%Q) k = true.
Proof.
  intros k H. specialize (H (Q2Qc 0%Q) (Q2Qc 1%Q)).
  assert (E1 : qc_ltb (Q2Qc 0%Q) (Q2Qc 1%Q) = true) by reflexivity.
  rewrite E1 in H. apply qc_ltb_lt in H. apply qc_ltb_lt. rewrite !this_mul in H.
  rewrite this_0 in *. cbn [this Q2Qc] in H. rewrite Qred_correct in H. lra.
Qed.

(* ---- non-vacuity: a whole-slide volume at 0.25 um per pixel (k = 1/4000 mm), tilted by
   tan(angle / 2) = 1/100 (1.15 degrees) against the slide axes: the off-axis entries of its affine are
   1/200020 mm = 5e-6 mm - legitimate, non-zero, and below 1e-5 mm; one origin component is 3e-6 mm.
   It IS the k-fold of a volume with unit pixels, k satisfies the law, and after a cyclic permutation
   of the axes and a handedness fix by swapping two axes the tiny entries are still there, at their
   new places, unchanged *)
Definition ex_tilt : qvol :=
  mkvol (Aff (V (q 9999 10001) (q 200 10001) (q 0 1)) (V (q (-200) 10001) (q 9999 10001) (q 0 1))
             (V (q 0 1) (q 0 1) (q 4 1)) (V (q 49200 1) (q 86800 1) (q 3 250)))
        (2, 3, 2) [] (map inject_Z [1;2;3;4;5;6;7;8;9;10;11;12]) true false None.
Definition ex_k : Qc := q 1 4000.
Definition ex_micro : qvol := svol Qc Qcmult Q ex_k ex_tilt.
Definition ex_ops_scale : list qop :=
  [Sp (OPermute [2; 0; 1]); Sp (OHanded HLeft None (Some [1; 2]))].

Lemma ex_scale :
  qc_ltb (Q2Qc 0%Q) ex_k = true /\
  this (vy (c0 (v_aff _ _ ex_micro))) = (1 # 200020)%Q /\ this (vz (tr (v_aff _ _ ex_micro))) = (3 # 1000000)%Q /\
  let r := run_tr Qc (Q2Qc 0) Qcplus Qcmult Qcminus Qcopp qc_inj qc_ltb Q q_padval ex_micro ex_ops_scale in
  v_shape _ _ (fst r) = (2, 3, 2) /\ snd r (1, 2, 0) = Some (0, 2, 1) /\
  this (vy (c2 (v_aff _ _ (fst r)))) = (1 # 200020)%Q /\ this (vx (c1 (v_aff _ _ (fst r)))) = (-1 # 200020)%Q /\
  this (vz (tr (v_aff _ _ (fst r)))) = (3 # 1000000)%Q.
Proof. vm_compute. repeat split; reflexivity. Qed.

(* ================================================================== top-level forms *)
Definition PosScale (R : Type) (rmul : R -> R -> R) (ltb : R -> R -> bool) (k : R) : Prop :=
  forall x y, ltb (rmul k x) (rmul k y) = ltb x y.

Lemma PosScale_Qc : forall k : Qc, PosScale Qc Qcmult qc_ltb k <-> qc_ltb (Q2Qc 0%Q) k = true.
Proof. intros k. split; [exact (qc_scale_pos_conv k)|exact (qc_scale_pos k)]. Qed.

Section TopScale.
Variable R : Type.
Variables (rO rI : R) (radd rmul rsub : R -> R -> R) (ropp : R -> R).
Variable inj : Z -> R.
Variable ltb : R -> R -> bool.
Variable Vx : Type.
Variable padval : pmode -> bool -> Vx -> list Vx -> Vx.
Hypothesis ZR : Zring R rO rI radd rmul rsub ropp inj.
Variable k : R.
Hypothesis Hk : PosScale R rmul ltb k.

Lemma top_step_scale : forall v o,
  step_tr R rO radd rmul rsub ropp inj ltb Vx padval (svol R rmul Vx k v) o =
  match step_tr R rO radd rmul rsub ropp inj ltb Vx padval v o with
  | Ok (v', f) => Ok (svol R rmul Vx k v', f)
  | Err e => Err e
  end.
Proof.
  destruct ZR as (Rth & _). intros v o.
  rewrite (step_tr_scale R rO rI radd rmul rsub ropp inj ltb Vx padval Rth k Hk).
  destruct (step_tr R rO radd rmul rsub ropp inj ltb Vx padval v o) as [[v' f]|e]; reflexivity.
Qed.

Lemma top_history_scale : forall ops v,
  let r := run_tr R rO radd rmul rsub ropp inj ltb Vx padval v ops in
  run_tr R rO radd rmul rsub ropp inj ltb Vx padval (svol R rmul Vx k v) ops = (svol R rmul Vx k (fst r), snd r) /\
  grun R rO radd rmul rsub ropp inj ltb Vx (sgeom R rmul k (geom_of R Vx v)) ops =
    sgeom R rmul k (grun R rO radd rmul rsub ropp inj ltb Vx (geom_of R Vx v) ops).
Proof.
  destruct ZR as (Rth & _). intros ops v. split.
  - apply (history_scale R rO rI radd rmul rsub ropp inj ltb Vx padval Rth k Hk).
  - apply (grun_scale R rO rI radd rmul rsub ropp inj ltb Vx Rth k Hk).
Qed.

Lemma top_observations_scale : forall A,
  closest R rO ropp ltb (saff R rmul k A) = closest R rO ropp ltb A /\
  is_left R rO radd rmul rsub ltb (saff R rmul k A) = is_left R rO radd rmul rsub ltb A.
Proof.
  destruct ZR as (Rth & _). intros A. split.
  - apply (closest_scale R rO rI radd rmul rsub ropp ltb Rth k Hk).
  - apply (is_left_scale R rO rI radd rmul rsub ropp ltb Rth k Hk).
Qed.
End TopScale.
