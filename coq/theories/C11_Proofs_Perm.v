(* C11 - order_invariant at full strength for sort = True: for EVERY stack (regular or not), every option,
   hint and tolerance, a permutation of the input planes changes neither the verdict nor the spacing, and
   every plane keeps its index.  Route: np.unique(axis=0) (lexuniq) of a permuted list is the SAME list
   (sorted distinct canonical rows are unique), and everything after it depends on the input order only
   through unique_index, which is computed plane by plane. *)
From Coq Require Import String ZArith List Bool QArith Qreduction Lia Lqa Permutation Sorted RelationClasses.
From HD Require Import Base.Val C11_Model C11_Proofs C11_Proofs_Stack C11_Proofs_Sort C11_Proofs_Rank C11_Proofs_Top.
Import ListNotations.
Open Scope Q_scope.

(* ---------- canonical vectors: float equality is Leibniz equality ---------------------------- *)
Definition canon (p : vec3) : Prop := vred p = p.
Lemma Qred_idem q : Qred (Qred q) = Qred q.
Proof. apply Qred_complete, Qred_correct. Qed.
Lemma vred_canon p : canon (vred p).
Proof. unfold canon, vred; cbn [vx vy vz]. now rewrite !Qred_idem. Qed.
Lemma Forall_canon_map ps : Forall canon (map vred ps).
Proof. apply Forall_forall. intros x H. apply in_map_iff in H. destruct H as [p [<- _]]. apply vred_canon. Qed.
Lemma veqb_canon_eq a b : canon a -> canon b -> veqb a b = true -> a = b.
Proof.
  unfold canon, veqb. intros Ca Cb. rewrite !andb_true_iff. intros [[H1 H2] H3].
  apply Qeq_bool_iff in H1, H2, H3. rewrite <- Ca, <- Cb. unfold vred.
  now rewrite (Qred_complete _ _ H1), (Qred_complete _ _ H2), (Qred_complete _ _ H3).
Qed.
Lemma veqb_refl a : veqb a a = true.
Proof. unfold veqb. rewrite !andb_true_iff. repeat split; apply Qeq_bool_iff; reflexivity. Qed.

Lemma vmem_In x l : canon x -> Forall canon l -> (vmem x l = true <-> In x l).
Proof.
  intros Cx F. split.
  - intro H. destruct (vmem_exists _ _ H) as [y [Iy E]]. rewrite Forall_forall in F.
    now rewrite (veqb_canon_eq x y Cx (F y Iy) E).
  - intro H. apply (vmem_intro x x l H (veqb_refl x)).
Qed.
Lemma vnodup_In x l : Forall canon l -> (In x (vnodup l) <-> In x l).
Proof.
  intro F. split; [apply In_vnodup|].
  induction l as [|y l IH]; [contradiction|]. inversion F as [|? ? Cy Fl]; subst.
  cbn [vnodup]. intros [->|H].
  - destruct (vmem x l) eqn:V; [apply IH; [exact Fl|]; now apply vmem_In|now left].
  - destruct (vmem y l); [now apply IH|right; now apply IH].
Qed.
Lemma vnodup_NoDup l : Forall canon l -> NoDup (vnodup l).
Proof.
  induction l as [|y l IH]; intro F; [constructor|]. inversion F as [|? ? Cy Fl]; subst.
  cbn [vnodup]. destruct (vmem y l) eqn:V; [now apply IH|]. constructor; [|now apply IH].
  intro H. apply In_vnodup in H. apply (vmem_In y l Cy Fl) in H. congruence.
Qed.
Lemma vnodup_perm l l2 : Forall canon l -> Permutation l l2 -> Permutation (vnodup l) (vnodup l2).
Proof.
  intros F P. assert (F2 : Forall canon l2) by (eapply Permutation_Forall; eassumption).
  apply NoDup_Permutation; [now apply vnodup_NoDup|now apply vnodup_NoDup|].
  intro x. rewrite (vnodup_In x l F), (vnodup_In x l2 F2). split; apply Permutation_in; [exact P|now symmetry].
Qed.

(* ---------- the lexicographic order of np.unique(axis=0) ----------------------------------------- *)
Definition vlex (a b : vec3) : Prop :=
  vx a < vx b \/ (vx a == vx b /\ (vy a < vy b \/ (vy a == vy b /\ vz a <= vz b))).
Lemma vlex_leb_spec a b : vlex_leb a b = true <-> vlex a b.
Proof.
  unfold vlex_leb, vlex.
  destruct (Qlt_b (vx a) (vx b)) eqn:X1; [apply Qlt_b_true in X1; split; [intros _; now left|reflexivity]|].
  apply Qlt_b_false in X1.
  destruct (Qlt_b (vx b) (vx a)) eqn:X2; [apply Qlt_b_true in X2; split; [discriminate|intro H; exfalso; lra]|].
  apply Qlt_b_false in X2.
  destruct (Qlt_b (vy a) (vy b)) eqn:Y1; [apply Qlt_b_true in Y1; split; [intros _; right; split; [lra|now left]|reflexivity]|].
  apply Qlt_b_false in Y1.
  destruct (Qlt_b (vy b) (vy a)) eqn:Y2; [apply Qlt_b_true in Y2; split; [discriminate|intro H; exfalso; lra]|].
  apply Qlt_b_false in Y2. rewrite Qle_bool_iff. split; intro H; [right; split; [lra|right; split; lra]|lra].
Qed.
Definition vle (a b : vec3) : Prop := vlex_leb a b = true.
Lemma vle_total a b : vlex_leb a b = false -> vle b a.
Proof.
  intro H. unfold vle. apply vlex_leb_spec. unfold vlex.
  assert (N : ~ vlex a b) by (intro V; apply vlex_leb_spec in V; congruence). unfold vlex in N. lra.
Qed.
Lemma vle_trans a b c : vle a b -> vle b c -> vle a c.
Proof. unfold vle. rewrite !vlex_leb_spec. unfold vlex. lra. Qed.
Lemma vle_antisym a b : canon a -> canon b -> vle a b -> vle b a -> a = b.
Proof.
  intros Ca Cb. unfold vle. rewrite !vlex_leb_spec. unfold vlex. intros H1 H2.
  apply veqb_canon_eq; try assumption. unfold veqb. rewrite !andb_true_iff.
  repeat split; apply Qeq_bool_iff; lra.
Qed.

Lemma vHdRel_insert y x l : HdRel vle y l -> vle y x -> HdRel vle y (insert vlex_leb x l).
Proof.
  intros H Hx. destruct l as [|z l]; cbn [insert]; [now constructor|].
  destruct (vlex_leb x z); constructor; [exact Hx|]. now inversion H.
Qed.
Lemma vinsert_sorted x l : Sorted vle l -> Sorted vle (insert vlex_leb x l).
Proof.
  induction 1 as [|y l S IH H]; cbn [insert]; [repeat constructor|].
  destruct (vlex_leb x y) eqn:E.
  - constructor; [now constructor|]. constructor. exact E.
  - constructor; [exact IH|]. apply vHdRel_insert; [exact H|]. now apply vle_total.
Qed.
Lemma visort_sorted l : Sorted vle (isort vlex_leb l).
Proof. induction l as [|x l IH]; [constructor|]. cbn [isort fold_right]. now apply vinsert_sorted. Qed.
Lemma visort_strongly_sorted l : StronglySorted vle (isort vlex_leb l).
Proof. apply Sorted_StronglySorted; [exact vle_trans|apply visort_sorted]. Qed.

Lemma vsorted_perm_unique : forall l1 l2 : list vec3,
  Forall canon l1 -> StronglySorted vle l1 -> StronglySorted vle l2 -> Permutation l1 l2 -> l1 = l2.
Proof.
  induction l1 as [|a l1 IH]; intros l2 C S1 S2 P.
  - apply Permutation_nil in P. now subst.
  - destruct l2 as [|b l2]; [apply Permutation_sym, Permutation_nil in P; discriminate|].
    assert (C2 : Forall canon (b :: l2)) by (eapply Permutation_Forall; eassumption).
    inversion S1 as [|? ? S1' F1]; inversion S2 as [|? ? S2' F2]; subst.
    inversion C as [|? ? Ca Cl]; inversion C2 as [|? ? Cb Cl2]; subst.
    assert (a = b).
    { assert (Ia : In a (b :: l2)) by (eapply Permutation_in; [exact P|now left]).
      assert (Ib : In b (a :: l1)) by (eapply Permutation_in; [symmetry; exact P|now left]).
      rewrite Forall_forall in F1, F2.
      destruct Ia as [->|Ia]; [reflexivity|]. destruct Ib as [->|Ib]; [reflexivity|].
      apply vle_antisym; auto. }
    subst b. f_equal. apply IH; try assumption. now apply Permutation_cons_inv in P.
Qed.

(* np.unique(axis=0) does not depend on the order of its input *)
Lemma lexuniq_perm l l2 : Forall canon l -> Permutation l l2 -> lexuniq l = lexuniq l2.
Proof.
  intros F P. unfold lexuniq. apply vsorted_perm_unique; try apply visort_strongly_sorted.
  - eapply Permutation_Forall; [symmetry; apply isort_perm|].
    apply Forall_forall. intros x H. apply In_vnodup in H. rewrite Forall_forall in F. now apply F.
  - rewrite !isort_perm. now apply vnodup_perm.
Qed.

(* ---------- the input order enters gvp_core only through unique_index ---------------------------- *)
Definition lift_idx (v : res (option (Q * list Z))) (uidx : list nat) : res (option (Q * list Z)) :=
  match v with
  | Ok (Some (sp, inv)) => Ok (Some (sp, map (fun u => nth u inv 0%Z) uidx))
  | Ok None => Ok None
  | Err k => Err k
  end.
Lemma gvp_core_shape uniq nv rtol atol sort missing enforce hint :
  exists v, forall uidx, gvp_core uniq uidx nv rtol atol sort missing enforce hint = lift_idx v uidx.
Proof.
  unfold gvp_core. destruct missing.
  - destruct (match hint with Some h => Some h | None => _ end) as [spacing|]; [|exists (Ok None); reflexivity].
    destruct (_ && enforce && Qlt_b spacing 0); [exists (Ok None); reflexivity|].
    destruct (_ && is_perp nv _); [|exists (Ok None); reflexivity].
    eexists (Ok (Some (_, _))). intro uidx. reflexivity.
  - destruct (negb _); [exists (Err "RuntimeError"%string); reflexivity|].
    destruct (_ && enforce && Qlt_b _ 0); [exists (Ok None); reflexivity|].
    destruct (_ && is_perp nv _); [|exists (Ok None); reflexivity].
    eexists (Ok (Some (_, _))). intro uidx. reflexivity.
Qed.

(* ---------- get_volume_positions on two or more planes ----------------------------------------------- *)
Definition gvp_body (ps : list vec3) (nv : vec3) (rtol atol : Q) (hint : option Q) (o : opts) :=
  let n := length ps in
  let ps' := map vred ps in
  let uq := lexuniq ps' in
  if negb (o_dups o) && (length uq <? n)%nat then Ok None
  else
    let uniq := if o_sort o then uq else ps' in
    let uidx := if o_sort o then map (fun p => index_of p uq) ps' else seq 0 n in
    if (length uniq =? 1)%nat then Ok (Some (hint_or_one hint, repeat 0%Z n))
    else gvp_core uniq uidx nv rtol atol (o_sort o) (o_missing o) (o_enforce o) hint.
Definition gvp_head (ps : list vec3) (rowc colc : vec3) (o : opts)
           (k : Q -> Q -> option Q -> res (option (Q * list Z))) : res (option (Q * list Z)) :=
  if negb (o_sort o) && (o_dups o || o_missing o) then Err "ValueError" else
  match norm_hint (o_hint o) with
  | Err e => Err e
  | Ok hint =>
    match tolerances (o_rtol o) (o_atol o) with
    | Err e => Err e
    | Ok (rtol, atol) => k rtol atol hint
    end
  end.
Lemma gvp_long ps rowc colc o : (2 <= length ps)%nat ->
  get_volume_positions ps rowc colc o =
  gvp_head ps rowc colc o (fun rtol atol hint =>
    match normal_vector rowc colc (o_c0 o) (o_c1 o) (o_rh o) with
    | Err e => Err e
    | Ok nv => gvp_body ps nv rtol atol hint o
    end).
Proof.
  intro L. destruct ps as [|p [|q l]]; [cbn in L; lia|cbn in L; lia|]. reflexivity.
Qed.

(* what "the same answer for both orders" means: same error, same rejection, or the same spacing and
   one assignment f from (canonicalised) plane position to volume index that explains both index lists *)
Definition same_verdict (ps ps2 : list vec3) (r r2 : res (option (Q * list Z))) : Prop :=
  match r, r2 with
  | Ok (Some (sp, idx)), Ok (Some (sp2, idx2)) =>
      sp = sp2 /\ exists f : vec3 -> Z, idx = map f (map vred ps) /\ idx2 = map f (map vred ps2)
  | Ok None, Ok None => True
  | Err k, Err k2 => k = k2
  | _, _ => False
  end.

Lemma repeat_map {A} (l : list A) (z : Z) : repeat z (length l) = map (fun _ => z) l.
Proof. induction l; cbn; [reflexivity|]. now rewrite IHl. Qed.

Lemma gvp_order_invariant : forall ps ps2 rowc colc o,
  o_sort o = true -> Permutation ps ps2 ->
  same_verdict ps ps2 (get_volume_positions ps rowc colc o) (get_volume_positions ps2 rowc colc o).
Proof.
  intros ps ps2 rowc colc o Hs P.
  pose proof (Permutation_length P) as LP.
  destruct (le_lt_dec 2 (length ps)) as [L2|L1].
  - rewrite (gvp_long ps) by exact L2. rewrite (gvp_long ps2) by lia.
    unfold gvp_head. destruct (negb (o_sort o) && _); [reflexivity|].
    destruct (norm_hint (o_hint o)) as [hint|e]; [|reflexivity].
    destruct (tolerances _ _) as [[rtol atol]|e]; [|reflexivity].
    destruct (normal_vector _ _ _ _ _) as [nv|e]; [|reflexivity].
    unfold gvp_body. rewrite Hs, <- LP.
    assert (EU : lexuniq (map vred ps2) = lexuniq (map vred ps)).
    { symmetry. apply lexuniq_perm; [apply Forall_canon_map|now apply Permutation_map]. }
    rewrite EU. set (uq := lexuniq (map vred ps)).
    destruct (negb (o_dups o) && _); [exact I|].
    destruct (length uq =? 1)%nat.
    + split; [reflexivity|]. exists (fun _ => 0%Z).
      rewrite <- (map_length vred ps) at 1. rewrite LP, <- (map_length vred ps2).
      split; apply repeat_map.
    + destruct (gvp_core_shape uq nv rtol atol true (o_missing o) (o_enforce o) hint) as [v Hv].
      rewrite !Hv. destruct v as [[[sp inv]|]|k]; cbn [lift_idx same_verdict]; [|exact I|reflexivity].
      split; [reflexivity|]. exists (fun p => nth (index_of p uq) inv 0%Z). now rewrite !map_map.
  - (* zero or one plane: a permutation is the identity *)
    destruct ps as [|p [|q l]]; [| |cbn in L1; lia].
    + apply Permutation_nil in P. subst ps2.
      destruct (empty_refused rowc colc o) as [k ->]. reflexivity.
    + apply Permutation_length_1_inv in P. subst ps2.
      unfold get_volume_positions. destruct (negb (o_sort o) && _); [reflexivity|].
      destruct (norm_hint (o_hint o)) as [hint|e]; [|reflexivity].
      destruct (tolerances _ _) as [[rtol atol]|e]; [|reflexivity].
      split; [reflexivity|]. exists (fun _ => 0%Z). split; reflexivity.
Qed.
