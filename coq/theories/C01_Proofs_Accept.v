(* C01 - proofs, part 9 (extension): the constructor accepts ONLY valid masks. *)
From Coq Require Import String ZArith List Bool Lia ZifyBool Arith Permutation.
From HD Require Import Base.Val Base.ListZ C01_Model C01_Proofs C01_Proofs_Frames
  C01_Proofs_Lut C01_Proofs_Value C01_Proofs_Full C01_Proofs_Hist C01_Proofs_Ext.
Import ListNotations.
Open Scope Z_scope.
Ltac Zify.zify_post_hook ::= Z.to_euclidean_division_equations.

Lemma forallb_of_existsb_negb {A} : forall (f : A -> bool) l,
  existsb (fun v => negb (f v)) l = false -> forallb f l = true.
Proof.
  intros f l. induction l as [|a l IH]; cbn [existsb forallb]; [reflexivity|]. intros H.
  apply orb_false_elim in H as (H1 & H2). rewrite (IH H2). destruct (f a); [reflexivity|discriminate].
Qed.

Lemma existsb_false_forall {A} : forall (f : A -> bool) l, existsb f l = false -> forall x, In x l -> f x = false.
Proof.
  intros f l H x Hx. destruct (f x) eqn:E; [|reflexivity].
  assert (existsb f l = true) by (apply existsb_exists; now exists x). congruence.
Qed.

Lemma sum_all_zero : forall l, (forall v, In v l -> v = 0) -> sum l = 0.
Proof.
  induction l as [|x l IH]; intros H; [reflexivity|].
  change (sum (x :: l)) with (x + sum l). rewrite (H x) by now left. rewrite IH; [lia|].
  intros v Hv. apply H. now right.
Qed.

Lemma in_stack_all : forall (ps : list (list (list Z))) pl ch v,
  In pl ps -> In ch pl -> In v ch -> In v (all_pixels (Stack ps)).
Proof.
  intros ps pl ch v Hpl Hch Hv. cbn [all_pixels]. apply in_concat. exists (concat pl). split.
  - now apply in_map.
  - apply in_concat. now exists ch.
Qed.

Lemma no_overlap_when : forall ps s,
  (forall v, In v (all_pixels (Stack ps)) -> v = 0 \/ v = 1) ->
  chans_ok (Stack ps) s = true ->
  (forall v, In v (all_pixels (Stack ps)) -> v = 0) \/ s = 1 ->
  overlaps (Stack ps) = false.
Proof.
  intros ps s Hbin Hch Hcase. destruct (overlaps (Stack ps)) eqn:E; [|reflexivity]. exfalso.
  cbn [overlaps] in E. apply existsb_exists in E as (pl & Hpl & E). apply existsb_exists in E as (ch & Hc & E).
  destruct Hcase as [Hz | ->].
  - rewrite sum_all_zero in E; [lia|]. intros v Hv. apply Hz. now apply (in_stack_all ps pl ch).
  - cbn [chans_ok] in Hch. rewrite forallb_forall in Hch. specialize (Hch pl Hpl).
    rewrite forallb_forall in Hch. specialize (Hch ch Hc).
    destruct ch as [|x [|y t]]; unfold zlen in Hch; cbn [length] in Hch; try lia.
    destruct (Hbin x (in_stack_all ps pl [x] x Hpl Hc (or_introl eq_refl))) as [-> | ->]; cbn in E; lia.
Qed.

Lemma memz_one_to : forall s v, 0 <= v <= s -> memz v (0 :: one_to s) = true.
Proof.
  intros s v Hv. apply memz_in. destruct (Z.eq_dec v 0) as [-> | Hn]; [now left|]. right.
  unfold one_to. apply in_map_iff. exists (v - 1). split; [lia|]. apply in_zrange. lia.
Qed.

Lemma maxl_zero_all : forall l, (forall v, In v l -> 0 <= v) -> maxl l = 0 -> forall v, In v l -> v = 0.
Proof. intros l Hn Hm v Hv. pose proof (maxl_ge l v Hv). specialize (Hn v Hv). lia. Qed.

(* integer arrays *)
Lemma int_values : forall c i a,
  dt c = DInt -> check_and_cast c i = Ok a -> forallb (fun v => 0 <=? v) (all_pixels i) = true ->
  int_values_ok (ty c) (segs c) i = true.
Proof.
  intros c i a Hd Ha Hnn. unfold check_and_cast in Ha. rewrite Hd in Ha.
  destruct (chans_ok i (zlen (segs c))) eqn:Hch; cbn [negb] in Ha; [|discriminate].
  rewrite forallb_forall in Hnn.
  destruct i as [ps|ps].
  - cbn [int_values_ok]. cbn [all_pixels] in Hnn.
    destruct (list_eqb (segs c) (one_to (zlen (segs c)))) eqn:El.
    + destruct (zlen (segs c) <? maxl (concat ps)) eqn:Em; [discriminate|].
      apply forallb_forall. intros v Hv. rewrite (list_eqb_eq _ _ El). apply memz_one_to.
      pose proof (maxl_ge _ _ Hv). specialize (Hnn v Hv). lia.
    + destruct (existsb (fun v => negb (memz v (0 :: segs c))) (concat ps)) eqn:Ex; [discriminate|].
      now apply forallb_of_existsb_negb.
  - cbn [int_values_ok].
    destruct (1 <? maxl (all_pixels (Stack ps))) eqn:Em; [discriminate|].
    assert (Hbin : forall v, In v (all_pixels (Stack ps)) -> v = 0 \/ v = 1).
    { intros v Hv. pose proof (maxl_ge _ _ Hv). specialize (Hnn v Hv). lia. }
    assert (Hb : forallb binary01 (all_pixels (Stack ps)) = true).
    { apply forallb_forall. intros v Hv. unfold binary01. destruct (Hbin v Hv); lia. }
    rewrite Hb. cbn [andb].
    destruct (ty c); try reflexivity.
    destruct (negb (maxl (all_pixels (Stack ps)) =? 0) && negb (zlen (segs c) =? 1) && overlaps (Stack ps)) eqn:Eg;
      [discriminate|].
    destruct (overlaps (Stack ps)) eqn:Eo; [|reflexivity]. exfalso.
    rewrite (no_overlap_when ps (zlen (segs c)) Hbin Hch) in Eo; [discriminate|].
    destruct (maxl (all_pixels (Stack ps)) =? 0) eqn:E0.
    + left. apply maxl_zero_all; [|lia]. intros v Hv. specialize (Hnn v Hv). lia.
    + right. cbn [negb andb] in Eg. rewrite andb_true_r in Eg. lia.
Qed.

(* float arrays *)
Lemma in_all_cast : forall (f : Z -> Z) (ps : list (list (list Z))) v,
  In v (all_pixels (Stack (map (map (map f)) ps))) -> exists k, In k (all_pixels (Stack ps)) /\ v = f k.
Proof.
  intros f ps v H. cbn [all_pixels] in H. apply in_concat in H as (l & Hl & Hv).
  apply in_map_iff in Hl as (pl' & <- & Hpl'). apply in_map_iff in Hpl' as (pl & <- & Hpl).
  apply in_concat in Hv as (ch' & Hch' & Hv). apply in_map_iff in Hch' as (ch & <- & Hch).
  apply in_map_iff in Hv as (k & <- & Hk). exists k. split; [|reflexivity].
  now apply (in_stack_all ps pl ch).
Qed.

Lemma forallb_map_comp {A B} : forall (g : B -> bool) (h : A -> B) l,
  forallb g (map h l) = forallb (fun x => g (h x)) l.
Proof. induction l as [|x l IH]; cbn [map forallb]; [reflexivity|now rewrite IH]. Qed.

Lemma forallb_ext' {A} : forall (f g : A -> bool) l, (forall x, f x = g x) -> forallb f l = forallb g l.
Proof. intros f g l H. induction l as [|x l IH]; cbn [forallb]; [reflexivity|now rewrite H, IH]. Qed.

Lemma chans_ok_cast : forall (f : Z -> Z) ps s,
  chans_ok (Stack (map (map (map f)) ps)) s = chans_ok (Stack ps) s.
Proof.
  intros f ps s. cbn [chans_ok]. rewrite forallb_map_comp. apply forallb_ext'. intros pl.
  rewrite forallb_map_comp. apply forallb_ext'. intros ch. unfold zlen. now rewrite map_length.
Qed.

(* a float label array that passed the guard of the D117 fix: every cast value is 0
   or a described number *)
Lemma float_label_described : forall c ps,
  (forall k, In k (concat ps) -> k = 0 \/ k = den c) -> 0 < den c ->
  existsb (fun k => k =? den c) (concat ps) && negb (memz 1 (segs c)) = false ->
  forallb (fun v => memz v (0 :: segs c)) (concat (map (map (cast_float_bin (den c))) ps)) = true.
Proof.
  intros c ps H01 Hd Hg. apply forallb_forall. intros v Hv.
  apply in_concat in Hv as (l & Hl & Hv). apply in_map_iff in Hl as (pl & <- & Hpl).
  apply in_map_iff in Hv as (k & <- & Hk).
  assert (Hin : In k (concat ps)) by (apply in_concat; now exists pl).
  apply memz_in. unfold cast_float_bin. destruct (H01 k Hin) as [-> | ->].
  - left. symmetry. apply Zdiv_0_l.
  - right. rewrite Z.div_same by lia.
    assert (He : existsb (fun k => k =? den c) (concat ps) = true).
    { apply existsb_exists. exists (den c). split; [exact Hin|lia]. }
    rewrite He in Hg. cbn [andb] in Hg. apply negb_false_iff in Hg. now apply memz_in.
Qed.

Lemma float_values : forall c i a,
  dt c = DFloat -> check_and_cast c i = Ok a -> 0 < den c ->
  float_label_ok c i = true ->
  values_ok c i = true.
Proof.
  intros c i a Hd Ha Hden Hlab. unfold values_ok. rewrite Hd, Hlab.
  replace (0 <? den c) with true by lia. cbn [andb].
  unfold check_and_cast in Ha. rewrite Hd in Ha.
  destruct (chans_ok i (zlen (segs c))) eqn:Hch; cbn [negb] in Ha; [|discriminate].
  destruct (existsb (fun k => (k <? 0) || (den c <? k)) (all_pixels i)) eqn:Er; [discriminate|].
  pose proof (existsb_false_forall _ _ Er) as Hr. cbv beta in Hr.
  destruct (ty c) eqn:Et.
  2:{ apply forallb_forall. intros k Hk. specialize (Hr k Hk). lia. }
  all: destruct (existsb (fun k => (0 <? k) && (k <? den c)) (all_pixels i)) eqn:Eb; [discriminate|];
       pose proof (existsb_false_forall _ _ Eb) as Hb; cbv beta in Hb;
       assert (H01 : forall k, In k (all_pixels i) -> k = 0 \/ k = den c)
         by (intros k Hk; specialize (Hr k Hk); specialize (Hb k Hk); lia);
       assert (Hf : forallb (fun k => (k =? 0) || (k =? den c)) (all_pixels i) = true)
         by (apply forallb_forall; intros k Hk; destruct (H01 k Hk); lia);
       rewrite Hf; cbn [andb];
       assert (Hcast : forall k, In k (all_pixels i) -> cast_float_bin (den c) k = 0 \/ cast_float_bin (den c) k = 1)
         by (intros k Hk; unfold cast_float_bin; destruct (H01 k Hk) as [-> | ->];
             [left; apply Zdiv_0_l | right; apply Z.div_same; lia]).
  - (* BINARY *)
    destruct i as [ps|ps]; cbn [cast_in int_values_ok].
    + destruct (existsb (fun k => k =? den c) (concat ps) && negb (memz 1 (segs c))) eqn:Eg; [discriminate|].
      cbn [all_pixels] in H01. now apply float_label_described.
    + rewrite andb_true_r. apply forallb_forall. intros v Hv.
      apply in_all_cast in Hv as (k & Hk & ->). unfold binary01. destruct (Hcast k Hk); lia.
  - (* LABELMAP *)
    destruct i as [ps|ps]; cbn [cast_in int_values_ok].
    + destruct (existsb (fun k => k =? den c) (concat ps) && negb (memz 1 (segs c))) eqn:Eg; [discriminate|].
      cbn [all_pixels] in H01. now apply float_label_described.
    + set (ps' := map (map (map (cast_float_bin (den c)))) ps) in *.
      assert (Hbin : forall v, In v (all_pixels (Stack ps')) -> v = 0 \/ v = 1).
      { intros v Hv. apply in_all_cast in Hv as (k & Hk & ->). now apply Hcast. }
      assert (Hbb : forallb binary01 (all_pixels (Stack ps')) = true).
      { apply forallb_forall. intros v Hv. unfold binary01. destruct (Hbin v Hv); lia. }
      rewrite Hbb. cbn [andb].
      destruct (negb (all_zero (all_pixels (Stack ps))) && negb (zlen (segs c) =? 1) && overlaps (Stack ps')) eqn:Eg;
        [discriminate|].
      destruct (overlaps (Stack ps')) eqn:Eo; [|reflexivity]. exfalso.
      rewrite (no_overlap_when ps' (zlen (segs c)) Hbin) in Eo; [discriminate| |].
      * unfold ps'. now rewrite chans_ok_cast.
      * destruct (all_zero (all_pixels (Stack ps))) eqn:E0.
        -- left. intros v Hv. apply in_all_cast in Hv as (k & Hk & ->).
           unfold all_zero in E0. rewrite forallb_forall in E0. specialize (E0 k Hk).
           replace k with 0 by lia. apply Zdiv_0_l.
        -- right. cbn [negb andb] in Eg. rewrite andb_true_r in Eg. lia.
Qed.

(* THE CONVERSE OF ACCEPTANCE: an array as numpy hands it over (planes of
   Rows*Columns values, unsigned integers non-negative, float label array = one
   segment) that the constructor accepts IS valid - so, with
   C01_construct_succeeds, accepted <-> valid, and nothing the constructor
   accepts escapes the round-trip theorems *)
Theorem construct_ok_valid : forall c i perm st,
  construct c i perm = Ok st -> well_formed c i = true -> valid c i = true.
Proof.
  intros c i perm st H Hw. unfold construct in H.
  destruct (seg_numbers_ok (ty c) (segs c)) eqn:E1; cbn [negb] in H; [|discriminate].
  destruct (match ty c with BINARY => negb (native c) | _ => false end) eqn:E2; [discriminate|].
  destruct (match ty c with FRACTIONAL => 255 <? maxfrac c | _ => false end) eqn:E3; [discriminate|].
  destruct (check_and_cast c i) as [a|k] eqn:E4; cbn [bind] in H; [|discriminate].
  destruct (n_planes i =? nsrc c) eqn:E5; cbn [negb] in H; [|discriminate].
  destruct ((rows c =? srows c) && (cols c =? scols c)) eqn:E6; cbn [negb] in H; [|discriminate].
  clear H. unfold well_formed in Hw.
  apply andb_prop in Hw as (Hw & Hdt). apply andb_prop in Hw as (Hw & Hsh).
  apply andb_prop in Hw as (Hw & Hmf). apply andb_prop in Hw as (Hnp & Hns).
  apply andb_prop in E6 as (Er & Ec).
  assert (Hch : chans_ok i (zlen (segs c)) = true).
  { unfold check_and_cast in E4. destruct (chans_ok i (zlen (segs c))); [reflexivity|discriminate]. }
  assert (Hshape : shape_ok c i = true).
  { destruct i as [ps|ps]; cbn [shape_ok planes_shaped chans_ok] in *; [exact Hsh|].
    rewrite forallb_forall in *. intros pl Hpl. now rewrite (Hsh pl Hpl), (Hch pl Hpl). }
  assert (Hval : values_ok c i = true).
  { destruct (dt c) eqn:Ed.
    - unfold values_ok. rewrite Ed. now apply (int_values c i a).
    - apply andb_prop in Hdt as (Hden & Hlab). apply (float_values c i a); auto. lia.
    - unfold check_and_cast in E4. rewrite Ed, Hch in E4. discriminate. }
  unfold valid. rewrite E1, Hnp, Hns, E5, Er, Ec, Hshape, Hval. cbn [andb].
  rewrite !andb_true_r.
  destruct (ty c); [now destruct (native c)| |reflexivity]. lia.
Qed.

Theorem accepted_iff_valid : forall c i perm,
  well_formed c i = true -> Permutation perm (zrange (nsrc c)) ->
  1 <= zlen (segs c) -> (ty c = FRACTIONAL -> 1 <= maxfrac c) ->
  ((exists st, construct c i perm = Ok st) <-> valid c i = true).
Proof.
  intros c i perm Hw Hp Hs Hm. split.
  - intros (st & Hc). now apply (construct_ok_valid c i perm st).
  - intros Hv. now apply construct_succeeds.
Qed.

(* THE PROPERTY without a hypothesis on the content of the mask: whatever array
   (of the stated shape and dtype class) the constructor accepts reads back as the
   specification, for every request list passing the guards, from every object
   and cache state - there is no silently corrupted mask *)
Theorem no_silent_corruption : forall c i perm st,
  well_formed c i = true -> Permutation perm (zrange (nsrc c)) -> construct c i perm = Ok st ->
  forall lazy warm req byframe am,
    read_guard st req byframe am = Ok tt ->
    read_g (frame_getter lazy warm st) st req byframe am = Ok (expected_req c i byframe req).
Proof.
  intros c i perm st Hw Hp Hc. apply (roundtrip_any_request c i perm st); auto.
  now apply (construct_ok_valid c i perm st).
Qed.

Lemma nonvacuous_acceptance :
  let c1 := Cfg BINARY DInt 1 1 true [1; 2] 1 3 1 3 3 true in
  let i1 := Stack [[[1;0];[0;0];[0;1]]; [[0;0];[0;0];[0;0]]; [[0;1];[1;0];[1;0]]] in
  let c2 := Cfg LABELMAP DInt 1 1 false [2; 300] 1 3 1 3 2 true in
  let c4 := Cfg LABELMAP DFloat 4 1 true [5; 7] 1 2 1 2 2 false in
  well_formed c1 i1 = true /\ (exists st, construct c1 i1 [2;0;1] = Ok st) /\ valid c1 i1 = true /\
  well_formed c2 (Label [[0;300;3]; [2;2;0]]) = true /\ valid c2 (Label [[0;300;3]; [2;2;0]]) = false /\
  construct c2 (Label [[0;300;3]; [2;2;0]]) [1;0] = Err "ValueError"%string /\
  well_formed c4 (Stack [[[4;4];[0;0]]; [[0;4];[0;4]]]) = true /\
  construct c4 (Stack [[[4;4];[0;0]]; [[0;4];[0;4]]]) [0;1] = Err "ValueError"%string /\
  well_formed c4 (Stack [[[4;0];[0;0]]; [[0;4];[0;4]]]) = true /\
  (exists st, construct c4 (Stack [[[4;0];[0;0]]; [[0;4];[0;4]]]) [0;1] = Ok st).
Proof. vm_compute. repeat split; eexists; reflexivity. Qed.
