(* C10 - proofs, part 2: the transformers *)
From Coq Require Import String Ascii ZArith List Bool QArith Qabs Qround Lia Lqa Qfield Setoid Morphisms.
From HD Require Import Base.Val C10_Model C10_Proofs.
Import ListNotations.
Open Scope Q_scope.

Ltac proj := cbn [vx vy vz c0 c1 c2 lin tr fst snd].
Ltac projin H := cbn [vx vy vz c0 c1 c2 lin tr fst snd] in H.
Lemma existsb_map_false {A B} (f : A -> B) (g : B -> bool) l : (forall x, g (f x) = false) -> existsb g (map f l) = false.
Proof. intro H. induction l; cbn; [reflexivity | rewrite H, IHl; reflexivity]. Qed.

Definition rotRD (r c : vec) (sr sc ss : Q) : mat := rotation_core r c PR PD false RH sr sc ss.

Lemma p2r_make_ok pos r c sr sc : 0 < sr -> 0 < sc ->
  p2r_make (apos pos) (aori r c) (asp sr sc) = Ok (Aff (rotRD r c sr sc 1) pos).
Proof.
  intros Hr Hc. destruct pos, r, c. unfold p2r_make, apos, aori, asp; proj.
  apply (affine_from_attributes_ok _ _ _ _ _ _ _ _ _ RD PR PD false RHs RH sr sc 1); try reflexivity; assumption.
Qed.

Lemma det_rotRD r c sr sc ss : orthonormal r c -> det (rotRD r c sr sc ss) == sc * sr * ss.
Proof.
  intro O. destruct (rotation_shape r c PR PD false RH sr sc ss O eq_refl) as (_ & _ & D).
  unfold rotRD. rewrite D. cbn [hand_sign conv_sp]. ring.
Qed.

Lemma det_rotRD_flat r c sr sc ss : ss == 0 -> det (rotRD r c sr sc ss) == 0.
Proof.
  intro H. unfold rotRD, rotation_core. cbn [conv_vec conv_sp normal].
  transitivity (ss * det (M3 (smul sc r) (smul sr c) (cross r c))).
  - unfold det, dot, cross, smul; proj. ring.
  - rewrite H. ring.
Qed.

Lemma nonzero_prod3 a b c : ~ a == 0 -> ~ b == 0 -> ~ c == 0 -> ~ a * b * c == 0.
Proof.
  intros Ha Hb Hc H. apply Qmult_integral in H as [H|H]; [|contradiction].
  apply Qmult_integral in H as [H|H]; contradiction.
Qed.
Lemma pos_nonzero a : 0 < a -> ~ a == 0.
Proof. intros H E. rewrite E in H. apply (Qlt_irrefl 0 H). Qed.

Lemma r2p_make_unfold pos r c sr sc ss : 0 < sr -> 0 < sc ->
  r2p_make (apos pos) (aori r c) (asp sr sc) ss =
  bind (inv3 (rotRD r c sr sc ss)) (fun Ri => Ok (Aff Ri (vred (vneg (mapply Ri pos))))).
Proof.
  intros Hr Hc. destruct pos, r, c. unfold r2p_make, inv_affine_from_attributes, check_args, apos, aori, asp; proj.
  cbn [seq_len length Nat.eqb bind vec_of].
  rewrite (create_rotation_matrix_ok _ _ _ _ _ _ RD PR PD false RHs RH sr sc ss eq_refl eq_refl Hr Hc).
  reflexivity.
Qed.

Lemma r2p_make_ok pos r c sr sc ss : orthonormal r c -> 0 < sr -> 0 < sc -> ~ ss == 0 ->
  exists Mi, inv3 (rotRD r c sr sc ss) = Ok Mi /\
             r2p_make (apos pos) (aori r c) (asp sr sc) ss = Ok (Aff Mi (vred (vneg (mapply Mi pos)))).
Proof.
  intros O Hr Hc Hs.
  destruct (inv3_exists (rotRD r c sr sc ss)) as (Mi & E).
  - rewrite (det_rotRD _ _ _ _ _ O). apply nonzero_prod3; [apply pos_nonzero | apply pos_nonzero |]; assumption.
  - exists Mi. split; [exact E|]. rewrite r2p_make_unfold by assumption. rewrite E. reflexivity.
Qed.

Lemma r2p_make_singular pos r c sr sc ss : 0 < sr -> 0 < sc -> ss == 0 ->
  r2p_make (apos pos) (aori r c) (asp sr sc) ss = Err EValue.
Proof.
  intros Hr Hc Hs. rewrite r2p_make_unfold by assumption.
  rewrite (inv3_singular _ (det_rotRD_flat r c sr sc ss Hs)). reflexivity.
Qed.

(* points of the plane do not depend on the slice spacing *)
Lemma plane_indep r c sr sc s1 s2 pos i j :
  veq (aapply (Aff (rotRD r c sr sc s1) pos) (V3 i j 0)) (aapply (Aff (rotRD r c sr sc s2) pos) (V3 i j 0)).
Proof.
  unfold rotRD, rotation_core; cbn [conv_vec conv_sp normal].
  unfold veq, aapply, mapply, vadd, smul; proj. repeat split; ring.
Qed.

Lemma shift_apply h a b z : veq (aapply (shift2 h) (V3 a b z)) (V3 (a + h) (b + h) z).
Proof. unfold veq, shift2, mident, aapply, mapply, vadd, smul; proj. repeat split; ring. Qed.

(* ---------------- inverse pairs ---------------- *)
Theorem inverse_pairs pos r c sr sc ss :
  orthonormal r c -> 0 < sr -> 0 < sc -> ~ ss == 0 ->
  exists P Rv I Ri,
    p2r_make (apos pos) (aori r c) (asp sr sc) = Ok P /\
    r2p_make (apos pos) (aori r c) (asp sr sc) ss = Ok Rv /\
    i2r_make (apos pos) (aori r c) (asp sr sc) = Ok I /\
    r2i_make (apos pos) (aori r c) (asp sr sc) ss = Ok Ri /\
    (forall i j, veq (aapply Rv (aapply P (V3 i j 0))) (V3 i j 0)) /\
    (forall x, vz (aapply Rv x) == 0 ->
               veq (aapply P (V3 (vx (aapply Rv x)) (vy (aapply Rv x)) 0)) x) /\
    (forall u v, veq (aapply Ri (aapply I (V3 u v 0))) (V3 u v 0)) /\
    (forall x, vz (aapply Ri x) == 0 ->
               veq (aapply I (V3 (vx (aapply Ri x)) (vy (aapply Ri x)) 0)) x).
Proof.
  intros O Hr Hc Hs.
  destruct (r2p_make_ok pos r c sr sc ss O Hr Hc Hs) as (Mi & E & HR).
  pose proof (aff_inverse (Aff (rotRD r c sr sc ss) pos) Mi E) as INV. cbn [lin tr] in INV.
  set (A := Aff (rotRD r c sr sc ss) pos) in *.
  set (Rv := Aff Mi (vred (vneg (mapply Mi pos)))) in *.
  set (P := Aff (rotRD r c sr sc 1) pos).
  assert (PA : forall i j, veq (aapply P (V3 i j 0)) (aapply A (V3 i j 0))) by (intros; apply plane_indep).
  assert (F1 : forall i j, veq (aapply Rv (aapply P (V3 i j 0))) (V3 i j 0)).
  { intros i j. rewrite (aapply_proper Rv _ _ (PA i j)). apply (proj1 (INV _)). }
  assert (F2 : forall x, vz (aapply Rv x) == 0 ->
               veq (aapply P (V3 (vx (aapply Rv x)) (vy (aapply Rv x)) 0)) x).
  { intros x Hz. rewrite PA.
    transitivity (aapply A (aapply Rv x)); [|apply (proj2 (INV x))].
    apply aapply_proper. unfold veq; proj. repeat split; try reflexivity. symmetry; exact Hz. }
  exists P, Rv, (acomp P (shift2 (- (1 # 2)))), (acomp (shift2 (1 # 2)) Rv).
  split; [apply p2r_make_ok; assumption|]. split; [exact HR|].
  split; [unfold i2r_make; fold (p2r_make (apos pos) (aori r c) (asp sr sc)); rewrite p2r_make_ok by assumption; reflexivity|].
  split; [unfold r2i_make; fold (r2p_make (apos pos) (aori r c) (asp sr sc) ss); rewrite HR; reflexivity|].
  split; [exact F1|]. split; [exact F2|]. split.
  - intros u v.
    rewrite (aapply_proper _ _ _ (acomp_apply P (shift2 (- (1 # 2))) (V3 u v 0))).
    rewrite (aapply_proper _ _ _ (aapply_proper P _ _ (shift_apply _ u v 0))).
    rewrite acomp_apply. rewrite (aapply_proper _ _ _ (F1 _ _)). rewrite shift_apply.
    unfold veq; proj. repeat split; ring.
  - intros x Hz.
    assert (S : veq (aapply (acomp (shift2 (1 # 2)) Rv) x)
                    (V3 (vx (aapply Rv x) + (1 # 2)) (vy (aapply Rv x) + (1 # 2)) (vz (aapply Rv x)))).
    { rewrite acomp_apply. destruct (aapply Rv x) as [a b z]. apply shift_apply. }
    destruct S as (S1 & S2 & S3). projin S1; projin S2; projin S3.
    assert (Hz' : vz (aapply Rv x) == 0) by (rewrite <- S3; exact Hz).
    rewrite acomp_apply.
    transitivity (aapply P (V3 (vx (aapply Rv x)) (vy (aapply Rv x)) 0)); [|apply F2; exact Hz'].
    apply aapply_proper. rewrite shift_apply. unfold veq; proj. rewrite S1, S2. repeat split; ring.
Qed.

(* rounded outputs: integer pixel indices survive the round trip exactly *)
Lemma map_ext_in' {A B} (f g : A -> B) l : (forall x, f x = g x) -> map f l = map g l.
Proof. intro H. induction l; cbn; [reflexivity | rewrite H, IHl; reflexivity]. Qed.

Lemma r2p_call_drop_round A l : l <> [] -> off_plane (call_3to3 A l) = false ->
  r2p_call A true true l = Ok (OutZ2 (map (fun x => (rne (vx (aapply A x)), rne (vy (aapply A x)))) l)).
Proof.
  intros NE OP. unfold r2p_call. rewrite OP. destruct l as [|x l]; [contradiction|].
  unfold call_3to3. cbn [map]. f_equal. f_equal. unfold round2, drop3. cbn [map fst snd]. f_equal.
  rewrite !map_map. reflexivity.
Qed.

Theorem inverse_pairs_rounded pos r c sr sc ss (zs : list (Z * Z)) :
  orthonormal r c -> 0 < sr -> 0 < sc -> ~ ss == 0 ->
  exists P Rv,
    p2r_make (apos pos) (aori r c) (asp sr sc) = Ok P /\
    r2p_make (apos pos) (aori r c) (asp sr sc) ss = Ok Rv /\
    r2p_call Rv true false (call_2to3 P (map zpt zs)) = Ok (OutZ3 (map (fun p => (fst p, snd p, 0%Z)) zs)) /\
    (zs <> [] -> r2p_call Rv true true (call_2to3 P (map zpt zs)) = Ok (OutZ2 zs)).
Proof.
  intros O Hr Hc Hs.
  destruct (inverse_pairs pos r c sr sc ss O Hr Hc Hs) as (P & Rv & I & Ri & HP & HR & _ & _ & F1 & _).
  exists P, Rv. split; [exact HP|]. split; [exact HR|].
  assert (E : forall p : Z * Z, veq (aapply Rv (aapply P (V3 (fst (zpt p)) (snd (zpt p)) 0)))
                                   (V3 (inject_Z (fst p)) (inject_Z (snd p)) (inject_Z 0))).
  { intro p. apply F1. }
  split.
  - unfold r2p_call, call_3to3, call_2to3, round3. rewrite !map_map. f_equal. f_equal.
    apply map_ext_in'. intro p. destruct (E p) as (E1 & E2 & E3). projin E1; projin E2; projin E3.
    rewrite (rne_integer _ _ E1), (rne_integer _ _ E2), (rne_integer _ _ E3). reflexivity.
  - intro NE. rewrite r2p_call_drop_round.
    + f_equal. f_equal. unfold call_2to3. rewrite !map_map.
      transitivity (map (fun p : Z * Z => p) zs); [|apply map_id]. apply map_ext_in'. intro p.
      destruct (E p) as (E1 & E2 & _). projin E1; projin E2.
      rewrite (rne_integer _ _ E1), (rne_integer _ _ E2). destruct p; reflexivity.
    + unfold call_2to3. destruct zs as [|z zs']; [exfalso; apply NE; reflexivity | cbn [map]; discriminate].
    + unfold off_plane, call_3to3, call_2to3. rewrite !map_map. apply existsb_map_false. intro p.
      destruct (E p) as (_ & _ & E3). projin E3. unfold Qlt_b. apply negb_false_iff. apply Qle_bool_iff.
      rewrite E3. discriminate.
Qed.

(* ---------------- half pixel ---------------- *)
Theorem half_pixel pos ori sp P :
  p2r_make pos ori sp = Ok P ->
  exists I, i2r_make pos ori sp = Ok I /\
    forall i j, veq (aapply I (V3 (i + (1 # 2)) (j + (1 # 2)) 0)) (aapply P (V3 i j 0)).
Proof.
  intro H. exists (acomp P (shift2 (- (1 # 2)))). split.
  - unfold i2r_make. unfold p2r_make in H. rewrite H. reflexivity.
  - intros i j. rewrite acomp_apply. apply aapply_proper. rewrite shift_apply.
    unfold veq; proj. repeat split; ring.
Qed.

Theorem half_pixel_inverse pos ori sp ss Rv :
  r2p_make pos ori sp ss = Ok Rv ->
  exists Ri, r2i_make pos ori sp ss = Ok Ri /\
    forall x, veq (aapply Ri x) (vadd (aapply Rv x) (V3 (1 # 2) (1 # 2) 0)).
Proof.
  intro H. exists (acomp (shift2 (1 # 2)) Rv). split.
  - unfold r2i_make. unfold r2p_make in H. rewrite H. reflexivity.
  - intro x. rewrite acomp_apply. destruct (aapply Rv x) as [a b z]. rewrite shift_apply.
    unfold veq, vadd; proj. repeat split; ring.
Qed.

(* ---------------- pixel to pixel / image to image ---------------- *)
Theorem p2p_via_reference pf of_ sf pt ot st T :
  p2p_make pf of_ sf pt ot st = Ok T ->
  exists P Rv, p2r_make pf of_ sf = Ok P /\ r2p_make pt ot st 1 = Ok Rv /\
    forall p, veq (aapply T p) (aapply Rv (aapply P p)).
Proof.
  unfold p2p_make, p2r_make, r2p_make.
  destruct (coplanar_guard pf of_ pt ot) as [[]|k]; cbn [bind]; [|discriminate].
  destruct (affine_from_attributes pf of_ sf 1 RD false RHs) as [P|k]; cbn [bind]; [|discriminate].
  destruct (inv_affine_from_attributes pt ot st 1) as [Rv|k]; cbn [bind]; [|discriminate].
  intro H; injection H as <-. exists P, Rv. split; [reflexivity|]. split; [reflexivity|].
  intro p. apply acomp_apply.
Qed.

Theorem i2i_via_reference pf of_ sf pt ot st T :
  i2i_make pf of_ sf pt ot st = Ok T ->
  exists I Ri, i2r_make pf of_ sf = Ok I /\ r2i_make pt ot st 1 = Ok Ri /\
    forall p, veq (aapply T p) (aapply Ri (aapply I p)).
Proof.
  unfold i2i_make, i2r_make, r2i_make.
  destruct (coplanar_guard pf of_ pt ot) as [[]|k]; cbn [bind]; [|discriminate].
  destruct (inv_affine_from_attributes pt ot st 1) as [Rv|k]; cbn [bind]; [|discriminate].
  destruct (affine_from_attributes pf of_ sf 1 RD false RHs) as [P|k]; cbn [bind]; [|discriminate].
  intro H; injection H as <-. eexists; eexists. split; [reflexivity|]. split; [reflexivity|].
  intro p. rewrite acomp_apply. rewrite acomp_apply.
  symmetry. apply aapply_proper. apply acomp_apply.
Qed.

(* the batch call of P2P returns the first two coordinates of R2P o P2R *)
Theorem p2p_call_via_reference T P Rv pts :
  (forall p, veq (aapply T p) (aapply Rv (aapply P p))) ->
  Forall2 (fun q v => fst q == vx v /\ snd q == vy v) (call_2to2 T pts) (call_3to3 Rv (call_2to3 P pts)).
Proof.
  intro H. induction pts as [|p pts IH]; cbn [call_2to2 call_3to3 call_2to3 map]; constructor.
  - destruct (H (V3 (fst p) (snd p) 0)) as (H1 & H2 & _). cbn [fst snd]. split; assumption.
  - exact IH.
Qed.

Theorem non_coplanar_refused pa oa sa pb ob sb :
  are_images_coplanar pa oa pb ob = Ok false ->
  p2p_make (ASeq pa) (ASeq oa) sa (ASeq pb) (ASeq ob) sb = Err EValue /\
  i2i_make (ASeq pa) (ASeq oa) sa (ASeq pb) (ASeq ob) sb = Err EValue.
Proof.
  intro H. unfold p2p_make, i2i_make, coplanar_guard. cbn [list_of_arg bind]. rewrite H. split; reflexivity.
Qed.

Lemma Qlt_b_iff a b : Qlt_b a b = true <-> a < b.
Proof.
  unfold Qlt_b. rewrite negb_true_iff. split.
  - intro H. apply Qnot_le_lt. intro L. apply Qle_bool_iff in L. congruence.
  - intro H. apply Qle_bool_false. exact H.
Qed.

(* what the guard decides: normals parallel within tol and plane offsets within tol *)
Theorem coplanar_core_iff tol pa ra ca pb rb cb :
  coplanar_core tol pa ra ca pb rb cb = true <->
  (1 - Qabs (dot (cross ra ca) (cross rb cb)) <= tol /\
   Qabs (dot (vsub pa pb) (cross ra ca)) < tol).
Proof.
  unfold coplanar_core.
  assert (E : dot pa (cross ra ca) - dot pb (cross ra ca) == dot (vsub pa pb) (cross ra ca))
    by (unfold dot, vsub; proj; ring).
  destruct (Qlt_b tol (1 - Qabs (dot (cross ra ca) (cross rb cb)))) eqn:B.
  - split; [discriminate|]. intros (H & _). apply Qlt_b_iff in B. exfalso. apply (Qlt_not_le _ _ B H).
  - rewrite Qlt_b_iff. rewrite E. split.
    + intro H. split; [|exact H]. apply Qnot_lt_le. intro L. apply Qlt_b_iff in L. congruence.
    + intros (_ & H); exact H.
Qed.

(* ---------------- single-point helpers ---------------- *)
Theorem helper_pixel_agrees pos ori sp P (zs : list (Z * Z)) k p :
  p2r_make pos ori sp = Ok P -> nth_error zs k = Some p ->
  exists v, map_pixel_into_coordinate_system (zpt p) pos ori sp = Ok v /\
            nth_error (call_2to3 P (map zpt zs)) k = Some v.
Proof.
  intros H N. unfold map_pixel_into_coordinate_system. rewrite H. cbn [bind call_2to3 map].
  unfold zpt. cbn [fst snd]. rewrite !qtrunc_integer.
  eexists. split; [reflexivity|].
  unfold call_2to3. rewrite map_map. rewrite (map_nth_error _ _ _ N). reflexivity.
Qed.

Theorem helper_coordinate_agrees pos ori sp ss Rv (xs : list vec) k x :
  r2p_make pos ori sp ss = Ok Rv -> nth_error xs k = Some x ->
  exists t l, map_coordinate_into_pixel_matrix x pos ori sp ss = Ok t /\
              r2p_call Rv true false xs = Ok (OutZ3 l) /\ nth_error l k = Some t.
Proof.
  intros H N. unfold map_coordinate_into_pixel_matrix. rewrite H. cbn [bind r2p_call call_3to3 round3 map].
  eexists; eexists. split; [reflexivity|]. split; [reflexivity|].
  unfold round3, call_3to3. rewrite map_map. rewrite (map_nth_error _ _ _ N). reflexivity.
Qed.

(* ---------------- frame of a tiled image vs total pixel matrix ---------------- *)
Theorem frame_vs_tpm r c sr sc pos C0 R0 i j :
  let T := Aff (rotRD r c sr sc 1) pos in
  let Fm := Aff (rotRD r c sr sc 1) (aapply T (V3 C0 R0 0)) in
  veq (aapply Fm (V3 i j 0)) (aapply T (V3 (C0 + i) (R0 + j) 0)).
Proof.
  unfold rotRD, rotation_core; cbn [conv_vec conv_sp normal].
  unfold veq, aapply, mapply, vadd, smul; proj. repeat split; ring.
Qed.

(* ---------------- affine from attributes: the shape theorem ---------------- *)
Theorem affine_shape pos r c conv d0 d1 sf hs h sr sc ss :
  orthonormal r c -> normalize_pix conv = Ok (d0, d1) -> hand_of_string hs = Ok h ->
  0 < sr -> 0 < sc -> 0 < ss ->
  (no_LU d0 d1 = true ->
     exists A, affine_from_attributes (apos pos) (aori r c) (asp sr sc) ss conv sf hs = Ok A /\
       ortho_cols (lin A) /\
       veq (norms_sq (lin A)) (vsq (axis_spacings d0 d1 sf sr sc ss)) /\
       veq (aapply A (V3 0 0 0)) pos /\
       (0 < det (lin A) <-> h = RH) /\ (det (lin A) < 0 <-> h = LH)) /\
  (no_LU d0 d1 = false ->
     exists k, affine_from_attributes (apos pos) (aori r c) (asp sr sc) ss conv sf hs = Err k).
Proof.
  intros O N H Hr Hc Hs. pose proof (normalize_pix_valid _ _ _ N) as V. split.
  - intro L. exists (Aff (rotation_core r c d0 d1 sf h sr sc ss) pos). split.
    + destruct pos, r, c. unfold apos, aori, asp; proj. apply affine_from_attributes_ok; assumption.
    + destruct (rotation_shape r c d0 d1 sf h sr sc ss O V) as (S1 & S2 & _). proj.
      split; [exact S1|]. split; [exact S2|]. split.
      * unfold veq, aapply, mapply, vadd, smul; proj. repeat split; ring.
      * apply rotation_handedness; assumption.
  - intro L. apply affine_from_attributes_refuses_LU with (d0 := d0) (d1 := d1); assumption.
Qed.

(* create_rotation_matrix itself accepts all eight conventions *)
Theorem rotation_matrix_shape r c conv d0 d1 sf hs h sr sc ss :
  orthonormal r c -> normalize_pix conv = Ok (d0, d1) -> hand_of_string hs = Ok h ->
  0 < sr -> 0 < sc -> 0 < ss ->
  exists M, create_rotation_matrix [vx r; vy r; vz r; vx c; vy c; vz c] conv sf hs (asp sr sc) ss = Ok M /\
    ortho_cols M /\ veq (norms_sq M) (vsq (axis_spacings d0 d1 sf sr sc ss)) /\
    (0 < det M <-> h = RH) /\ (det M < 0 <-> h = LH).
Proof.
  intros O N H Hr Hc Hs. pose proof (normalize_pix_valid _ _ _ N) as V.
  exists (rotation_core r c d0 d1 sf h sr sc ss). split.
  - destruct r, c; proj. apply create_rotation_matrix_ok; assumption.
  - destruct (rotation_shape r c d0 d1 sf h sr sc ss O V) as (S1 & S2 & _).
    split; [exact S1|]. split; [exact S2|]. apply rotation_handedness; assumption.
Qed.
