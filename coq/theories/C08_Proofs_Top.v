(* C08 - top-level statements (generic ring) and their instance on the executable model. *)
From Coq Require Import String ZArith List Bool Lia Ring QArith Qcanon.
From HD Require Import C08_Model C08_Proofs C08_Proofs_Step C08_Proofs_More C08_Proofs_Qc C08_Proofs_Ext C08_Proofs_Orient.
Import ListNotations.
Open Scope Z_scope.

(* a commutative ring with a torsion-free ring morphism from Z *)
Definition Zring (R : Type) (rO rI : R) (radd rmul rsub : R -> R -> R) (ropp : R -> R)
           (inj : Z -> R) : Prop :=
  ring_theory rO rI radd rmul rsub ropp (@eq R) /\
  (forall a b, inj (a + b) = radd (inj a) (inj b)) /\
  (forall a b, inj (a * b) = rmul (inj a) (inj b)) /\
  (forall a, inj (- a) = ropp (inj a)) /\
  inj 1 = rI /\
  (forall s x, s <> 0 -> rmul (inj s) x = rO -> x = rO).

Lemma Zring_Qc : Zring Qc (Q2Qc 0) (Q2Qc 1) Qcplus Qcmult Qcminus Qcopp qc_inj.
Proof.
  split; [exact Qcrt|]. split; [exact qc_inj_add|]. split; [exact qc_inj_mul|].
  split; [exact qc_inj_opp|]. split; [exact qc_inj_1|exact qc_inj_regular].
Qed.

(* the sign laws of an ordered ring that the orientation theorem needs of the order test *)
Definition SignLaws (R : Type) (rO : R) (ropp : R -> R) (ltb : R -> R -> bool) : Prop :=
  (forall x, ltb (ropp x) rO = ltb rO x) /\ (forall x, ltb rO (ropp x) = ltb x rO) /\
  (forall x, ltb x rO = true -> ltb rO x = false) /\
  (forall x, ltb x rO = false -> ltb rO x = false -> x = rO).

Lemma SignLaws_Qc : SignLaws Qc (Q2Qc 0) Qcopp qc_ltb.
Proof. split; [exact qc_ltb_opp_0|]. split; [exact qc_ltb_0_opp|]. split; [exact qc_ltb_asym0|exact qc_ltb_tri0]. Qed.

Definition no_with_array {Vx} (ops : list (op Vx)) : bool :=
  forallb (fun o => negb (match o with WithArray _ _ _ _ => true | _ => false end)) ops.

Section Top.
Variable R : Type.
Variables (rO rI : R) (radd rmul rsub : R -> R -> R) (ropp : R -> R).
Variable inj : Z -> R.
Variable ltb : R -> R -> bool.
Variable Vx : Type.
Variable padval : pmode -> bool -> Vx -> list Vx -> Vx.
Hypothesis ZR : Zring R rO rI radd rmul rsub ropp inj.

Notation physz := (physZ R radd rmul inj).
Notation so := (scaled_orthogonal R rO radd rmul).
Notation vstep_sp := (vol_step_sp R rO radd rmul rsub ropp inj ltb Vx padval).
Notation vstep_tr := (step_tr R rO radd rmul rsub ropp inj ltb Vx padval).
Notation vrun_tr := (run_tr R rO radd rmul rsub ropp inj ltb Vx padval).
Notation vrun := (run R rO radd rmul rsub ropp inj ltb Vx padval).

Lemma top_step_fixes_voxels : forall v o v' f, vstep_sp v o = Ok (v', f) -> wf (v_shape R Vx v) ->
  wf (v_shape R Vx v') /\
  forall j, inr (v_shape R Vx v') j -> forall i, f j = Some i ->
    inr (v_shape R Vx v) i /\
    physz (v_aff R Vx v') j = physz (v_aff R Vx v) i /\
    forall c, v_arr R Vx v' j c = v_arr R Vx v i c.
Proof.
  destruct ZR as (Rth & Ia & Im & Io & I1 & Ir). intros v o v' f H W.
  destruct (vol_step_sp_Fix R rO rI radd rmul rsub ropp inj ltb Vx padval Rth Ia Im Io Ir v o v' f H)
    as (_ & _ & _ & K). destruct (K W) as (W' & _ & V). split; [exact W'|exact V].
Qed.

Lemma top_step_keeps_scaled_orthogonal : forall v o v' f, vstep_tr v o = Ok (v', f) ->
  wf (v_shape R Vx v) -> so (v_aff R Vx v) -> so (v_aff R Vx v') /\ wf (v_shape R Vx v').
Proof.
  destruct ZR as (Rth & Ia & Im & Io & I1 & Ir). intros v o v' f H W S.
  destruct (step_tr_FixPos R rO rI radd rmul rsub ropp inj ltb Vx padval Rth Ia Im Io Ir v o v' f H)
    as (_ & _ & K). destruct (K W) as (W' & S' & _). split; [apply S'; exact S|exact W'].
Qed.

Lemma top_history : forall ops v, wf (v_shape R Vx v) ->
  let v' := fst (vrun_tr v ops) in
  let Phi := snd (vrun_tr v ops) in
  v' = vrun v ops /\
  wf (v_shape R Vx v') /\
  (so (v_aff R Vx v) -> so (v_aff R Vx v')) /\
  v_patient R Vx v' = v_patient R Vx v /\ v_for R Vx v' = v_for R Vx v /\
  (forall j, inr (v_shape R Vx v') j -> forall i, Phi j = Some i ->
     inr (v_shape R Vx v) i /\ physz (v_aff R Vx v') j = physz (v_aff R Vx v) i) /\
  (no_with_array ops = true ->
   exists psi : list Z -> list Z,
     forall j, inr (v_shape R Vx v') j -> forall i, Phi j = Some i ->
       forall c, v_arr R Vx v' j c = v_arr R Vx v i (psi c)).
Proof.
  destruct ZR as (Rth & Ia & Im & Io & I1 & Ir). intros ops v W v' Phi.
  pose proof (history_fixes_positions R rO rI radd rmul rsub ropp inj ltb Vx padval Rth Ia Im Io Ir ops v)
    as (Pa & Fo & K).
  destruct (K W) as (W' & S' & V).
  split; [apply run_tr_fst|]. split; [exact W'|]. split; [exact S'|]. split; [exact Pa|]. split; [exact Fo|].
  split; [exact V|]. intros Hn.
  destruct (history_fixes_voxels R rO rI radd rmul rsub ropp inj ltb Vx padval Rth Ia Im Io Ir ops v Hn)
    as (_ & HV). exact (HV W).
Qed.

Lemma top_channels_untouched : forall v o v' f, vstep_sp v o = Ok (v', f) ->
  v_chans R Vx v' = v_chans R Vx v /\ v_patient R Vx v' = v_patient R Vx v /\ v_for R Vx v' = v_for R Vx v.
Proof.
  destruct ZR as (Rth & Ia & Im & Io & I1 & Ir). intros v o v' f H.
  destruct (vol_step_sp_Fix R rO rI radd rmul rsub ropp inj ltb Vx padval Rth Ia Im Io Ir v o v' f H)
    as (A & B & C & _). auto.
Qed.

Lemma top_handedness_reached :
  (forall x, x <> rO -> ltb (ropp x) rO = negb (ltb x rO)) ->
  forall v h fa sw v' f, vstep_sp v (OHanded h fa sw) = Ok (v', f) ->
  det3 R radd rmul rsub (v_aff R Vx v) <> rO ->
  is_left R rO radd rmul rsub ltb (v_aff R Vx v') = match h with HLeft => true | _ => false end.
Proof.
  destruct ZR as (Rth & Ia & Im & Io & I1 & Ir). intros L.
  exact (handedness_reached R rO rI radd rmul rsub ropp inj ltb Vx padval Rth Ia Im Io I1 Ir L).
Qed.

Hypothesis SL : SignLaws R rO ropp ltb.

Lemma top_orientation_reached : forall v o v' f s0 s1 s2,
  wf (v_shape R Vx v) -> Dom R rO ropp ltb (v_aff R Vx v) s0 s1 s2 ->
  vstep_sp v (OOrient o) = Ok (v', f) -> closest R rO ropp ltb (v_aff R Vx v') = o.
Proof.
  destruct ZR as (Rth & Ia & Im & Io & I1 & Ir). destruct SL as (L1 & L2 & L3 & L4).
  exact (orientation_reached R rO rI radd rmul rsub ropp Rth inj Ia Im Io I1 ltb L1 L2 L3 L4 Vx padval).
Qed.

Lemma top_orientation_accepted : forall v o d s0 s1 s2,
  wf (v_shape R Vx v) -> Dom R rO ropp ltb (v_aff R Vx v) s0 s1 s2 -> v_patient R Vx v = true ->
  normalize_orientation o = Ok d ->
  exists v' f, vstep_sp v (OOrient o) = Ok (v', f) /\ closest R rO ropp ltb (v_aff R Vx v') = o.
Proof.
  destruct ZR as (Rth & Ia & Im & Io & I1 & Ir). destruct SL as (L1 & L2 & L3 & L4).
  exact (orientation_run R rO rI radd rmul rsub ropp Rth inj Ia Im Io I1 ltb L1 L2 L3 L4 Vx padval).
Qed.
End Top.

(* ---- non-vacuity of the orientation theorem: a rotated (3-4-5), left-handed affine with
   spacing 2 on the third axis is dominant with signature H, A, R; every one of the three
   results below is computed by the executable model *)
Definition ex_aff : aff Qc :=
  Aff (V (q 0 1) (q 3 5) (q 4 5)) (V (q 0 1) (q (-4) 5) (q 3 5)) (V (q (-2) 1) (q 0 1) (q 0 1))
      (V (q 1 2) (q 0 1) (q (-7) 1)).
Definition ex_vol2 : qvol :=
  mkvol ex_aff (2, 3, 2) [] (map inject_Z [1;2;3;4;5;6;7;8;9;10;11;12]) true true (Some 5).

Lemma qc_nz : forall n d, n <> 0 -> q n d <> Q2Qc 0.
Proof.
  intros n d Hn E. apply (f_equal this) in E. unfold q in E. cbn [this Q2Qc] in E.
  assert (Qred (n # d) == Qred 0)%Q as E' by (rewrite E; reflexivity).
  rewrite !Qred_correct in E'. unfold Qeq in E'. cbn in E'. lia.
Qed.

Lemma ex_dom : Dom Qc (Q2Qc 0) Qcopp qc_ltb ex_aff (2, true) (1, false) (0, false).
Proof.
  unfold Dom, dom. cbn [fst snd ex_aff c0 c1 c2].
  repeat split; try lia; try (vm_compute; reflexivity); try (apply qc_nz; lia).
  all: match goal with i : Z |- _ => assert (Hc : i = 0 \/ i = 1 \/ i = 2) by lia;
         destruct Hc as [-> | [-> | ->]]; try lia; vm_compute; reflexivity end.
Qed.

Lemma ex_orientation :
  wf (v_shape _ _ ex_vol2) /\
  closest Qc (Q2Qc 0) Qcopp qc_ltb (v_aff _ _ ex_vol2) = [4; 3; 1] /\
  match q_step_tr ex_vol2 (Sp (OOrient [5; 2; 0])) with
  | Ok (v', f) => closest Qc (Q2Qc 0) Qcopp qc_ltb (v_aff _ _ v') = [5; 2; 0] /\
                  v_shape _ _ v' = (2, 3, 2) /\ f (0, 0, 0) = Some (1, 2, 1)
  | Err _ => False
  end.
Proof. split; [cbn; lia|]. split; vm_compute; repeat split; reflexivity. Qed.

(* a history of re-arrangements only (flip, orientation, handedness, random flip with the drawn
   bits 1,0, channel-free copy) and a crop: bijective resp. total index maps *)
Definition ex_ops_rearr : list qop :=
  [Sp (OFlip (FList [0; 2])); Sp (OOrient [1; 4; 3]); Sp (OHanded HRight None (Some [0; 1]));
   Sp (ORand (RFlip [0; 2] [1; 0])); Copy; Sp (ORand (RPermute [0; 2] [2; 0]))].
Lemma ex_rearr :
  forallb (op_rearr Q) ex_ops_rearr = true /\ forallb (op_nopad Q) (Sp (OCropTo [1; 2; 2]) :: ex_ops_rearr) = true /\
  let r := run_tr Qc (Q2Qc 0) Qcplus Qcmult Qcminus Qcopp qc_inj qc_ltb Q q_padval ex_vol2 ex_ops_rearr in
  v_shape _ _ (fst r) = (3, 2, 2) /\ snd r (0, 0, 0) = Some (1, 0, 0) /\ snd r (2, 1, 1) = Some (0, 2, 1).
Proof. vm_compute. repeat split; reflexivity. Qed.

Lemma ex_geometry_history :
  Forall (op_modes_ok Q) ex_ops_rearr /\
  g_shape _ (grun Qc (Q2Qc 0) Qcplus Qcmult Qcminus Qcopp qc_inj qc_ltb Q (geom_of _ _ ex_vol2) ex_ops_rearr) = (3, 2, 2).
Proof. split; [repeat constructor|vm_compute; reflexivity]. Qed.
