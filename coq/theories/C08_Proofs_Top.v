(* C08 - top-level statements (generic ring) and their instance on the executable model. *)
From Coq Require Import String ZArith List Bool Lia Ring QArith Qcanon.
From HD Require Import C08_Model C08_Proofs C08_Proofs_Step C08_Proofs_More C08_Proofs_Qc.
Import ListNotations.
Open Scope Z_scope.

(* a commutative ring with a torsion-free ring morphism from Z *)
Definition Zring (R : Type) (rO rI : R) (radd rmul rsub : R -> R -> R) (ropp : R -> R)
           (inj : Z -> R) : Prop :=
  ring_theory rO rI radd rmul rsub ropp (@eq R) /\
  (forall a b, inj (a + b) = radd (inj a) (inj b)) /\
  (forall a b, inj (a * b) = rmul (inj a) (inj b)) /\
  (forall a, inj (- a) = ropp (inj a)) /\
  inj 1 = rI /\
  (forall s x, s <> 0 -> rmul (inj s) x = rO -> x = rO).

Lemma Zring_Qc : Zring Qc (Q2Qc 0) (Q2Qc 1) Qcplus Qcmult Qcminus Qcopp qc_inj.
Proof.
  split; [exact Qcrt|]. split; [exact qc_inj_add|]. split; [exact qc_inj_mul|].
  split; [exact qc_inj_opp|]. split; [exact qc_inj_1|exact qc_inj_regular].
Qed.

Definition no_with_array {Vx} (ops : list (op Vx)) : bool :=
  forallb (fun o => negb (match o with WithArray _ _ _ _ => true | _ => false end)) ops.

Section Top.
Variable R : Type.
Variables (rO rI : R) (radd rmul rsub : R -> R -> R) (ropp : R -> R).
Variable inj : Z -> R.
Variable ltb : R -> R -> bool.
Variable Vx : Type.
Variable padval : pmode -> bool -> Vx -> list Vx -> Vx.
Hypothesis ZR : Zring R rO rI radd rmul rsub ropp inj.

Notation physz := (physZ R radd rmul inj).
Notation so := (scaled_orthogonal R rO radd rmul).
Notation vstep_sp := (vol_step_sp R rO radd rmul rsub ropp inj ltb Vx padval).
Notation vstep_tr := (step_tr R rO radd rmul rsub ropp inj ltb Vx padval).
Notation vrun_tr := (run_tr R rO radd rmul rsub ropp inj ltb Vx padval).
Notation vrun := (run R rO radd rmul rsub ropp inj ltb Vx padval).

Lemma top_step_fixes_voxels : forall v o v' f, vstep_sp v o = Ok (v', f) -> wf (v_shape R Vx v) ->
  wf (v_shape R Vx v') /\
  forall j, inr (v_shape R Vx v') j -> forall i, f j = Some i ->
    inr (v_shape R Vx v) i /\
    physz (v_aff R Vx v') j = physz (v_aff R Vx v) i /\
    forall c, v_arr R Vx v' j c = v_arr R Vx v i c.
Proof.
  destruct ZR as (Rth & Ia & Im & Io & I1 & Ir). intros v o v' f H W.
  destruct (vol_step_sp_Fix R rO rI radd rmul rsub ropp inj ltb Vx padval Rth Ia Im Io Ir v o v' f H)
    as (_ & _ & _ & K). destruct (K W) as (W' & _ & V). split; [exact W'|exact V].
Qed.

Lemma top_step_keeps_scaled_orthogonal : forall v o v' f, vstep_tr v o = Ok (v', f) ->
  wf (v_shape R Vx v) -> so (v_aff R Vx v) -> so (v_aff R Vx v') /\ wf (v_shape R Vx v').
Proof.
  destruct ZR as (Rth & Ia & Im & Io & I1 & Ir). intros v o v' f H W S.
  destruct (step_tr_FixPos R rO rI radd rmul rsub ropp inj ltb Vx padval Rth Ia Im Io Ir v o v' f H)
    as (_ & _ & K). destruct (K W) as (W' & S' & _). split; [apply S'; exact S|exact W'].
Qed.

Lemma top_history : forall ops v, wf (v_shape R Vx v) ->
  let v' := fst (vrun_tr v ops) in
  let Phi := snd (vrun_tr v ops) in
  v' = vrun v ops /\
  wf (v_shape R Vx v') /\
  (so (v_aff R Vx v) -> so (v_aff R Vx v')) /\
  v_patient R Vx v' = v_patient R Vx v /\ v_for R Vx v' = v_for R Vx v /\
  (forall j, inr (v_shape R Vx v') j -> forall i, Phi j = Some i ->
     inr (v_shape R Vx v) i /\ physz (v_aff R Vx v') j = physz (v_aff R Vx v) i) /\
  (no_with_array ops = true ->
   exists psi : list Z -> list Z,
     forall j, inr (v_shape R Vx v') j -> forall i, Phi j = Some i ->
       forall c, v_arr R Vx v' j c = v_arr R Vx v i (psi c)).
Proof.
  destruct ZR as (Rth & Ia & Im & Io & I1 & Ir). intros ops v W v' Phi.
  pose proof (history_fixes_positions R rO rI radd rmul rsub ropp inj ltb Vx padval Rth Ia Im Io Ir ops v)
    as (Pa & Fo & K).
  destruct (K W) as (W' & S' & V).
  split; [apply run_tr_fst|]. split; [exact W'|]. split; [exact S'|]. split; [exact Pa|]. split; [exact Fo|].
  split; [exact V|]. intros Hn.
  destruct (history_fixes_voxels R rO rI radd rmul rsub ropp inj ltb Vx padval Rth Ia Im Io Ir ops v Hn)
    as (_ & HV). exact (HV W).
Qed.

Lemma top_channels_untouched : forall v o v' f, vstep_sp v o = Ok (v', f) ->
  v_chans R Vx v' = v_chans R Vx v /\ v_patient R Vx v' = v_patient R Vx v /\ v_for R Vx v' = v_for R Vx v.
Proof.
  destruct ZR as (Rth & Ia & Im & Io & I1 & Ir). intros v o v' f H.
  destruct (vol_step_sp_Fix R rO rI radd rmul rsub ropp inj ltb Vx padval Rth Ia Im Io Ir v o v' f H)
    as (A & B & C & _). auto.
Qed.

Lemma top_handedness_reached :
  (forall x, x <> rO -> ltb (ropp x) rO = negb (ltb x rO)) ->
  forall v h fa sw v' f, vstep_sp v (OHanded h fa sw) = Ok (v', f) ->
  det3 R radd rmul rsub (v_aff R Vx v) <> rO ->
  is_left R rO radd rmul rsub ltb (v_aff R Vx v') = match h with HLeft => true | _ => false end.
Proof.
  destruct ZR as (Rth & Ia & Im & Io & I1 & Ir). intros L.
  exact (handedness_reached R rO rI radd rmul rsub ropp inj ltb Vx padval Rth Ia Im Io I1 Ir L).
Qed.
End Top.
