(* C04 - combine_segments=True on BINARY / FRACTIONAL segmentations: a LABEL MASK
   passed as a whole matrix, tiled and stored one binary plane per segment, reads
   back (combined) as the numpy slice of the label mask that was passed - the same
   statement as for LABELMAP storage - for every tile size, organisation, omission
   flag, request list without repetitions and argument convention; overlapping
   planes are refused exactly when two requested planes meet inside the region. *)
From Coq Require Import String ZArith List Bool Lia ZifyBool Arith.
From HD Require Import Base.Val Base.ListZ C12_Model C12_Proofs C04_Model C04_Proofs C04_Proofs_Store
                       C04_Proofs_Arr C04_Proofs_Geom C04_Proofs_E2E C04_Proofs_Vol.
Import ListNotations.
Ltac Zify.zify_post_hook ::= Z.to_euclidean_division_equations.
Open Scope Z_scope.

(* ---- small facts ------------------------------------------------------------------- *)
Definition ind (v k : Z) : Z := if v =? k then 1 else 0.

Lemma map_fst_planes_of_labelmap : forall L segs, map fst (planes_of_labelmap L segs) = segs.
Proof. intros. unfold planes_of_labelmap. rewrite map_map. cbn [fst]. apply map_id. Qed.

Lemma wf_map_map : forall (g : Z -> Z) M R C, wf_matrix M R C -> wf_matrix (map (map g) M) R C.
Proof.
  intros g M R C [HL HR]. split; [now rewrite map_length|].
  intros row Hin. apply in_map_iff in Hin as (x & <- & Hx). rewrite map_length. now apply HR.
Qed.

Lemma cell_map_map : forall (g : Z -> Z) M a b, g 0 = 0 -> cell (map (map g) M) a b = g (cell M a b).
Proof.
  intros g M a b Hg. unfold cell.
  rewrite (nth_map_default (map g) M (Z.to_nat a) [] []) by reflexivity.
  now rewrite (nth_map_default g _ _ 0 0) by exact Hg.
Qed.

Lemma shape_map_map : forall (g : Z -> Z) H W A, shape H W A -> shape H W (map (map g) A).
Proof.
  intros g H W A [L Rw]. split; [now rewrite map_length|].
  intros row Hin. apply in_map_iff in Hin as (x & <- & Hx). rewrite map_length. now apply Rw.
Qed.

Definition tabulate (h w : Z) (g : Z -> Z -> Z) : list (list Z) :=
  map (fun i => map (fun j => g i j) (zrange w)) (zrange h).

Lemma shape_tabulate : forall h w g, shape h w (tabulate h w g).
Proof.
  intros. unfold tabulate. split.
  - now rewrite map_length, length_zrange.
  - intros row Hin. apply in_map_iff in Hin as (i & <- & _). now rewrite map_length, length_zrange.
Qed.

Lemma cell_tabulate : forall h w g i j, 0 <= i < h -> 0 <= j < w -> cell (tabulate h w g) i j = g i j.
Proof. intros. unfold cell, tabulate. rewrite nth_map_zrange by lia. now rewrite nth_map_zrange by lia. Qed.

Lemma all_cells_true : forall h w P,
  (forall i j, 0 <= i < h -> 0 <= j < w -> P i j = true) -> all_cells h w P = true.
Proof.
  intros h w P H. unfold all_cells. apply forallb_forall. intros i Hi. apply in_zrange in Hi.
  apply forallb_forall. intros j Hj. apply in_zrange in Hj. now apply H.
Qed.

Lemma all_cells_false : forall h w P i j,
  0 <= i < h -> 0 <= j < w -> P i j = false -> all_cells h w P = false.
Proof.
  intros h w P i j Hi Hj Hp. destruct (all_cells h w P) eqn:E; [|reflexivity].
  unfold all_cells in E. rewrite forallb_forall in E.
  specialize (E i ltac:(now apply in_zrange)). rewrite forallb_forall in E.
  specialize (E j ltac:(now apply in_zrange)). congruence.
Qed.

Lemma all_cells_spec : forall h w P,
  all_cells h w P = true <-> (forall i j, 0 <= i < h -> 0 <= j < w -> P i j = true).
Proof.
  intros h w P. split; [|apply all_cells_true].
  intros E i j Hi Hj. destruct (P i j) eqn:Ep; [reflexivity|].
  now rewrite (all_cells_false h w P i j Hi Hj Ep) in E.
Qed.

(* the region guard of a reader = the documented conventions *)
Lemma std_guard_spec : forall {A} (F : Z -> Z -> Z -> Z -> res A) ai rs re cs ce R C, 1 <= R -> 1 <= C ->
  bind (standardize_rc ai rs re cs ce R C) (fun t =>
    match t with (s, e, c0, c1) =>
      if (e - s <? 0) || (c1 - c0 <? 0) then Err "ValueError" else F s e c0 c1 end) =
  match spec_region ai R C rs re cs ce with
  | Some (s, e, c0, c1) => F s e c0 c1
  | None => Err "ValueError"
  end.
Proof.
  intros A F ai rs re cs ce R C HR HC. rewrite standardize_rc_eq by lia. unfold spec_region.
  destruct (spec_start ai R rs) as [s|]; [|reflexivity].
  destruct (spec_end ai R re) as [e|]; [|reflexivity].
  destruct (spec_start ai C cs) as [c0|]; [|reflexivity].
  destruct (spec_end ai C ce) as [c1|]; [|reflexivity].
  cbn [bind].
  destruct ((s <=? e) && (c0 <=? c1)) eqn:E1.
  - replace ((e - s <? 0) || (c1 - c0 <? 0)) with false by lia. reflexivity.
  - replace ((e - s <? 0) || (c1 - c0 <? 0)) with true by lia. reflexivity.
Qed.

Lemma fold_right_ext_in : forall {A B} (f g : A -> B -> B) l b,
  (forall x acc, In x l -> f x acc = g x acc) -> fold_right f b l = fold_right g b l.
Proof.
  intros A B f g l b H. induction l as [|x l IH]; [reflexivity|]. cbn [fold_right].
  rewrite IH by (intros; apply H; now right). apply H. now left.
Qed.

(* ---- the label a cell receives ---------------------------------------------------------- *)
(* requested numbers as labels *)
Lemma label_fold_numbers : forall v sel, (forall k, In k sel -> 1 <= k) ->
  fold_right (fun k acc => Z.max (ind v k * k) acc) 0 sel = if existsb (Z.eqb v) sel then v else 0.
Proof.
  intros v sel Hpos. induction sel as [|k r IH]; [reflexivity|]. cbn [fold_right existsb].
  rewrite IH by (intros; apply Hpos; now right).
  assert (Hk : 1 <= k) by (apply Hpos; now left). unfold ind.
  destruct (v =? k) eqn:E; cbn [orb].
  - destruct (existsb (Z.eqb v) r); lia.
  - destruct (existsb (Z.eqb v) r) eqn:Er; [|lia].
    apply existsb_exists in Er as (x & Hx & Ex). assert (1 <= x) by (apply Hpos; now right). lia.
Qed.

Lemma zrange_succ : forall n, zrange (Z.of_nat (S n)) = 0 :: map (fun i => i + 1) (zrange (Z.of_nat n)).
Proof.
  intros n. unfold zrange. rewrite !Nat2Z.id. cbn [seq map]. f_equal.
  rewrite <- seq_shift, !map_map. apply map_ext. intros a. lia.
Qed.

Lemma index1_bounds : forall v sel, 0 <= index1 v sel.
Proof. intros. destruct (index1_spec v sel) as [[E _]|[H _]]; lia. Qed.

(* positions in the request as labels (relabel), offset a - 1 *)
Lemma label_fold_positions : forall v sel a, 1 <= a -> NoDup sel ->
  fold_right (fun p acc => Z.max (ind v (snd p) * fst p) acc) 0
             (combine (map (fun i => i + a) (zrange (Z.of_nat (length sel)))) sel) =
  if index1 v sel =? 0 then 0 else index1 v sel + (a - 1).
Proof.
  intros v sel. induction sel as [|k r IH]; intros a Ha Hnd; [reflexivity|].
  inversion Hnd as [|x l Hnotin Hnd']; subst.
  cbn [length]. rewrite zrange_succ. cbn [map combine fold_right fst snd index1].
  rewrite map_map.
  rewrite (map_ext (fun i => i + 1 + a) (fun i => i + (a + 1))) by (intros; lia).
  rewrite (IH (a + 1)) by (auto; lia). unfold ind.
  pose proof (index1_bounds v r) as Hb.
  destruct (v =? k) eqn:E; cbv iota.
  - assert (v = k) by lia. subst v.
    destruct (index1_spec k r) as [[E0 _]|(Hr & Hn & _)].
    + rewrite E0. change (0 =? 0) with true. change (1 =? 0) with false. cbv iota. lia.
    + exfalso. apply Hnotin. rewrite <- Hn. apply nth_In. lia.
  - destruct (index1 v r =? 0) eqn:E0; cbv iota.
    + change (0 =? 0) with true. cbv iota. lia.
    + replace (index1 v r + 1 =? 0) with false by lia. lia.
Qed.

Lemma filter_nil_notin : forall v l, ~ In v l -> filter (Z.eqb v) l = [].
Proof.
  intros v l. induction l as [|a l IH]; intros H; [reflexivity|]. cbn [filter].
  destruct (v =? a) eqn:E; [exfalso; apply H; left; lia|]. apply IH. intros Hin. apply H. now right.
Qed.

Lemma filter_eqb_NoDup : forall v l, NoDup l -> (length (filter (Z.eqb v) l) <= 1)%nat.
Proof.
  intros v l H. induction H as [|x l Hnotin Hnd IH]; [cbn; lia|]. cbn [filter].
  destruct (v =? x) eqn:E; [|exact IH].
  assert (v = x) by lia. subst x. rewrite (filter_nil_notin v l Hnotin). cbn. lia.
Qed.

(* ---- the theorem's cell-level core ------------------------------------------------------- *)
Section Cells.
  Variables (ty : segtype) (mf : Z).
  Hypothesis Hty : ty <> Labelmap.
  Hypothesis Hmf : 1 <= mf.

  Lemma unit_of_stored : forall b, unit_value ty mf (b * factor ty mf) = b.
  Proof.
    intros b. destruct ty; cbn [unit_value factor]; try lia.
    now rewrite Z.div_mul by lia.
  Qed.

  Lemma label_cell_map : forall labels (sel : list Z) (F : Z -> list (list Z)) i j,
    label_cell ty mf (combine labels (map F sel)) i j =
    fold_right (fun p acc => Z.max (unit_value ty mf (cell (F (snd p)) i j) * fst p) acc) 0 (combine labels sel).
  Proof.
    intros labels. induction labels as [|a labels IH]; intros sel F i j; [reflexivity|].
    destruct sel as [|k sel]; [reflexivity|]. cbn [map combine label_cell fold_right fst snd].
    f_equal. apply IH.
  Qed.

  (* planes whose cell (i, j) is the indicator of "label G = k", stored *)
  Variables (G : Z) (sel : list Z) (F : Z -> list (list Z)) (i j : Z).
  Hypothesis HF : forall k, In k sel -> cell (F k) i j = ind G k * factor ty mf.
  Hypothesis Hpos : forall k, In k sel -> 1 <= k.
  Hypothesis Hnd : NoDup sel.

  Lemma binary_cell : forallb (fun A => (cell A i j =? 0) || (cell A i j =? factor ty mf)) (map F sel) = true.
  Proof.
    apply forallb_forall. intros A HA. apply in_map_iff in HA as (k & <- & Hk).
    rewrite (HF k Hk). unfold ind. destruct (G =? k); lia.
  Qed.

  Lemma count_cell : count_positive ty mf (map F sel) i j <=? 1 = true.
  Proof.
    unfold count_positive.
    rewrite <- (filter_map_length F (fun A => 0 <? unit_value ty mf (cell A i j)) sel). cbv beta.
    assert (E : filter (fun x => 0 <? unit_value ty mf (cell (F x) i j)) sel = filter (Z.eqb G) sel).
    { apply filter_ext_in. intros k Hk. rewrite (HF k Hk), unit_of_stored. unfold ind. destruct (G =? k); reflexivity. }
    rewrite E. pose proof (filter_eqb_NoDup G sel Hnd). lia.
  Qed.

  Lemma label_numbers_cell :
    label_cell ty mf (combine sel (map F sel)) i j = if existsb (Z.eqb G) sel then G else 0.
  Proof.
    rewrite label_cell_map.
    rewrite <- (label_fold_numbers G sel Hpos).
    rewrite <- (map_id sel) at 2. rewrite combine_map_r. clear Hnd.
    induction sel as [|k r IH]; [reflexivity|]. cbn [map fold_right fst snd].
    rewrite IH by (intros; try apply HF; try apply Hpos; now right).
    rewrite (HF k (or_introl eq_refl)), unit_of_stored. reflexivity.
  Qed.

  Lemma label_positions_cell :
    label_cell ty mf (combine (labels_of true sel) (map F sel)) i j = index1 G sel.
  Proof.
    rewrite label_cell_map. unfold labels_of.
    transitivity (fold_right (fun p acc => Z.max (ind G (snd p) * fst p) acc) 0
                    (combine (map (fun i0 => i0 + 1) (zrange (Z.of_nat (length sel)))) sel)).
    - generalize (map (fun i0 => i0 + 1) (zrange (Z.of_nat (length sel)))) as labels.
      clear Hnd. induction sel as [|k r IH]; intros labels.
      + destruct labels; reflexivity.
      + destruct labels as [|a labels]; [reflexivity|]. cbn [combine fold_right fst snd].
        rewrite IH by (intros; try apply HF; try apply Hpos; now right).
        rewrite (HF k (or_introl eq_refl)), unit_of_stored. reflexivity.
    - rewrite (label_fold_positions G sel 1 ltac:(lia) Hnd).
      destruct (index1 G sel =? 0) eqn:E; lia.
  Qed.
End Cells.

(* ---- end to end -------------------------------------------------------------------------- *)
(* value shown for a stored label: itself when requested (else background), or
   with relabel its 1-based position in the request *)
Definition shown (relabel : bool) (sel : list Z) (v : Z) : Z :=
  if relabel then index1 v sel else if existsb (Z.eqb v) sel then v else 0.

Lemma shown_zero : forall relabel sel, (forall k, In k sel -> 1 <= k) -> shown relabel sel 0 = 0.
Proof.
  intros relabel sel Hpos. unfold shown. destruct relabel.
  - destruct (index1_spec 0 sel) as [[E _]|(Hr & Hn & _)]; [exact E|].
    exfalso. assert (Hin : In 0 sel) by (rewrite <- Hn; apply nth_In; lia).
    specialize (Hpos 0 Hin). lia.
  - destruct (existsb (Z.eqb 0) sel); reflexivity.
Qed.


Lemma plane_of_labelmap : forall L segs k, NoDup segs -> In k segs ->
  plane_of k (planes_of_labelmap L segs) = map (map (fun v => ind v k)) L.
Proof.
  intros L segs k Hnd Hk. apply plane_of_in.
  - now rewrite map_fst_planes_of_labelmap.
  - unfold planes_of_labelmap. apply in_map_iff. exists k. split; [reflexivity|exact Hk].
Qed.

(* READ_COMBINED (TILE label mask as binary planes) = label mask[region] *)
Theorem seg_combined_end_to_end : forall ty mf full omit L segs R C th tw st sel relabel skip ai rs re cs ce,
  ty <> Labelmap -> 1 <= mf -> 1 <= R -> 1 <= C -> 1 <= th -> 1 <= tw -> wf_matrix L R C ->
  NoDup segs -> (forall k, In k segs -> 1 <= k) ->
  stored ty mf full omit (planes_of_labelmap L segs) segs R C th tw = Ok st ->
  NoDup sel -> (forall k, In k sel -> In k segs) ->
  seg_read_combined ty mf st sel relabel true skip R C th tw ai rs re cs ce =
  match spec_region ai R C rs re cs ce with
  | Some (s, e, c0, c1) =>
      Ok (map (map (shown relabel sel)) (submatrix L (s - 1) (e - 1) (c0 - 1) (c1 - 1)))
  | None => Err "ValueError"
  end.
Proof.
  intros ty mf full omit L segs R C th tw st sel relabel skip ai rs re cs ce
         Hty Hmf HR HC Hh Hw Hwf Hnds Hposs Hst Hnd Hsel.
  unfold seg_read_combined.
  replace (match ty with Fractional => negb true | _ => false end) with false by (destruct ty; reflexivity).
  rewrite (std_guard_spec (fun s e c0 c1 =>
             bind (seg_read st sel R C th tw ai rs re cs ce) (fun pl =>
               combine_planes ty mf skip (labels_of relabel sel) pl (e - s) (c1 - c0)))) by lia.
  assert (Hfst : map fst (planes_of_labelmap L segs) = segs) by apply map_fst_planes_of_labelmap.
  pose proof (seg_end_to_end ty mf full omit (planes_of_labelmap L segs) R C th tw st sel ai rs re cs ce HR HC Hh Hw) as Hread.
  rewrite Hfst in Hread. specialize (Hread Hnds).
  assert (Hwfp : forall k Mk, In (k, Mk) (planes_of_labelmap L segs) -> wf_matrix Mk R C).
  { intros k Mk Hin. unfold planes_of_labelmap in Hin. apply in_map_iff in Hin as (k' & E & _).
    inversion E; subst. now apply wf_map_map. }
  specialize (Hread Hwfp Hst Hsel).
  destruct (spec_region ai R C rs re cs ce) as [[[[s e] c0] c1]|] eqn:Es; [|reflexivity].
  pose proof (spec_region_bounds _ _ _ _ _ _ _ _ _ _ _ HR HC Es) as Hb.
  rewrite Hread. cbn [bind].
  assert (Hpos : forall k, In k sel -> 1 <= k) by (intros k Hk; apply Hposs; now apply Hsel).
  set (F := fun k => scale_tile (factor ty mf) (submatrix (plane_of k (planes_of_labelmap L segs)) (s - 1) (e - 1) (c0 - 1) (c1 - 1))).
  assert (HF : forall i j, 0 <= i < e - s -> 0 <= j < c1 - c0 -> forall k, In k sel ->
               cell (F k) i j = ind (cell L (s - 1 + i) (c0 - 1 + j)) k * factor ty mf).
  { intros i j Hi Hj k Hk. unfold F. rewrite cell_scale, cell_submatrix by lia. f_equal.
    rewrite plane_of_labelmap by (auto; now apply Hsel).
    apply cell_map_map. unfold ind. specialize (Hpos k Hk). replace (0 =? k) with false by lia. reflexivity. }
  unfold combine_planes.
  replace (match ty with
           | Fractional => negb (all_cells (e - s) (c1 - c0) (fun i j =>
                             forallb (fun A => (cell A i j =? 0) || (cell A i j =? mf)) (map F sel)))
           | _ => false end) with false.
  2:{ destruct ty; try reflexivity. symmetry. apply negb_false_iff. apply all_cells_true.
      intros i j Hi Hj. apply (binary_cell Fractional mf (cell L (s - 1 + i) (c0 - 1 + j)) sel F i j); auto. }
  replace (all_cells (e - s) (c1 - c0) (fun i j => count_positive ty mf (map F sel) i j <=? 1)) with true.
  2:{ symmetry. apply all_cells_true. intros i j Hi Hj.
      apply (count_cell ty mf Hty Hmf (cell L (s - 1 + i) (c0 - 1 + j)) sel F i j); auto. }
  rewrite andb_false_r. f_equal.
  change (tabulate (e - s) (c1 - c0) (fun i j => label_cell ty mf (combine (labels_of relabel sel) (map F sel)) i j) =
          map (map (shown relabel sel)) (submatrix L (s - 1) (e - 1) (c0 - 1) (c1 - 1))).
  apply (arr_ext (e - s) (c1 - c0)).
  - apply shape_tabulate.
  - apply shape_map_map.
    replace (e - s) with (e - 1 - (s - 1)) by lia. replace (c1 - c0) with (c1 - 1 - (c0 - 1)) by lia.
    apply (shape_submatrix L R C); auto; lia.
  - intros i j Hi Hj. rewrite cell_tabulate by lia.
    rewrite cell_map_map by (now apply shown_zero). rewrite cell_submatrix by lia.
    unfold shown. destruct relabel.
    + apply (label_positions_cell ty mf Hty Hmf); auto.
    + apply (label_numbers_cell ty mf Hty Hmf); auto.
Qed.

(* ---- overlapping planes: refused exactly when two requested planes meet in the region ---------- *)
Lemma forallb_false_exists : forall {A} (f : A -> bool) l, forallb f l = false -> exists x, In x l /\ f x = false.
Proof.
  intros A f l. induction l as [|x l IH]; cbn [forallb]; [discriminate|].
  destruct (f x) eqn:E; cbn [andb]; intros H.
  - destruct (IH H) as (y & Hy & Ey). exists y. split; [now right|exact Ey].
  - exists x. split; [now left|exact E].
Qed.

Lemma all_cells_false_exists : forall h w P, all_cells h w P = false ->
  exists i j, 0 <= i < h /\ 0 <= j < w /\ P i j = false.
Proof.
  intros h w P H. unfold all_cells in H. apply forallb_false_exists in H as (i & Hi & H).
  apply forallb_false_exists in H as (j & Hj & H). apply in_zrange in Hi, Hj. now exists i, j.
Qed.

Theorem seg_combined_overlap_iff : forall mf full omit planes R C th tw st sel relabel rescale ai rs re cs ce s e c0 c1,
  1 <= R -> 1 <= C -> 1 <= th -> 1 <= tw ->
  NoDup (map fst planes) -> (forall k Mk, In (k, Mk) planes -> wf_matrix Mk R C) ->
  stored Binary mf full omit planes (map fst planes) R C th tw = Ok st ->
  (forall k, In k sel -> In k (map fst planes)) ->
  spec_region ai R C rs re cs ce = Some (s, e, c0, c1) ->
  (seg_read_combined Binary mf st sel relabel rescale false R C th tw ai rs re cs ce = Err "RuntimeError" <->
   exists i j, s - 1 <= i < e - 1 /\ c0 - 1 <= j < c1 - 1 /\
     (1 < length (filter (fun k => (0 <? cell (plane_of k planes) i j)%Z) sel))%nat).
Proof.
  intros mf full omit planes R C th tw st sel relabel rescale ai rs re cs ce s e c0 c1
         HR HC Hh Hw Hnd Hwf Hst Hsel Es.
  unfold seg_read_combined.
  rewrite (std_guard_spec (fun s e c0 c1 =>
             bind (seg_read st sel R C th tw ai rs re cs ce) (fun pl =>
               combine_planes Binary mf false (labels_of relabel sel) pl (e - s) (c1 - c0)))) by lia.
  rewrite (seg_end_to_end Binary mf full omit planes R C th tw st sel ai rs re cs ce) by auto.
  rewrite Es. cbn [bind].
  pose proof (spec_region_bounds _ _ _ _ _ _ _ _ _ _ _ HR HC Es) as Hb.
  set (F := fun k => scale_tile (factor Binary mf) (submatrix (plane_of k planes) (s - 1) (e - 1) (c0 - 1) (c1 - 1))).
  assert (Hcount : forall i j, 0 <= i < e - s -> 0 <= j < c1 - c0 ->
            count_positive Binary mf (map F sel) i j =
            Z.of_nat (length (filter (fun k => 0 <? cell (plane_of k planes) (s - 1 + i) (c0 - 1 + j)) sel))).
  { intros i j Hi Hj. unfold count_positive.
    rewrite <- (filter_map_length F (fun A => 0 <? unit_value Binary mf (cell A i j)) sel). cbv beta.
    do 2 f_equal. apply filter_ext. intros k. unfold F. cbn [unit_value factor].
    rewrite cell_scale, cell_submatrix by lia. f_equal. lia. }
  unfold combine_planes. cbn [negb andb].
  destruct (all_cells (e - s) (c1 - c0) (fun i j => count_positive Binary mf (map F sel) i j <=? 1)) eqn:E; cbn [negb].
  - split; [discriminate|]. intros (i & j & Hi & Hj & Hlen). exfalso.
    rewrite all_cells_spec in E. specialize (E (i - (s - 1)) (j - (c0 - 1)) ltac:(lia) ltac:(lia)).
    rewrite Hcount in E by lia.
    replace (s - 1 + (i - (s - 1))) with i in E by lia. replace (c0 - 1 + (j - (c0 - 1))) with j in E by lia. lia.
  - split; [|reflexivity]. intros _.
    apply all_cells_false_exists in E as (i & j & Hi & Hj & E). rewrite Hcount in E by lia.
    exists (s - 1 + i), (c0 - 1 + j). split; [lia|]. split; [lia|]. lia.
Qed.

(* ---- the same through get_volume ------------------------------------------------------------------ *)
Lemma standardize_rc_err : forall ai rs re cs ce R C k, 1 <= R -> 1 <= C ->
  standardize_rc ai rs re cs ce R C = Err k -> k = "ValueError"%string.
Proof.
  intros ai rs re cs ce R C k HR HC. rewrite standardize_rc_eq by lia.
  destruct (spec_start ai R rs); [|intros E; now inversion E].
  destruct (spec_end ai R re); [|intros E; now inversion E].
  destruct (spec_start ai C cs); [|intros E; now inversion E].
  destruct (spec_end ai C ce); intros E; now inversion E.
Qed.

Definition comb_G (ty : segtype) (mf : Z) (st : list stile) (sel : list Z) (relabel rescale skip : bool)
           (th tw : Z) (r : res (Z * Z * Z * Z)) : res (list (list Z)) :=
  if match ty with Fractional => negb rescale | _ => false end then Err "ValueError"
  else bind r (fun t => match t with (s, e, c0, c1) =>
         if (e - s <? 0) || (c1 - c0 <? 0) then Err "ValueError"
         else bind (seg_G st sel th tw r) (fun pl =>
                combine_planes ty mf skip (labels_of relabel sel) pl (e - s) (c1 - c0)) end).

Theorem seg_combined_vol_agrees : forall ty mf st sel relabel rescale skip R C th tw ai rs re cs ce,
  1 <= R -> 1 <= C ->
  vol_region ai rs re cs ce R C (seg_read_combined ty mf st sel relabel rescale skip R C th tw) =
  seg_read_combined ty mf st sel relabel rescale skip R C th tw ai rs re cs ce.
Proof.
  intros ty mf st sel relabel rescale skip R C th tw ai rs re cs ce HR HC.
  rewrite (vol_region_exact (comb_G ty mf st sel relabel rescale skip th tw)) by auto.
  destruct (standardize_rc ai rs re cs ce R C) as [t|k] eqn:E; [reflexivity|].
  unfold seg_read_combined. rewrite E. cbn [bind].
  rewrite (standardize_rc_err _ _ _ _ _ _ _ _ HR HC E).
  destruct (match ty with Fractional => negb rescale | _ => false end); reflexivity.
Qed.
