(* C07 - decode_frame as the whole entry point ([decode_frame_entry]): reading
   an encoded frame with OTHER parameters, size safety of every decoder,
   the composite round trip through the entry point for all lossless
   syntaxes, injectivity of the encoder. *)
From Coq Require Import String ZArith List Bool Lia ZifyBool.
From HD Require Import Base.Val C07_Model C07_Proofs C07_Proofs_RLE C07_Proofs_Ext C07_Proofs_Full C07_Proofs_Accept.
Import ListNotations.
Open Scope Z_scope.
Ltac Zify.zify_post_hook ::= Z.to_euclidean_division_equations.

(* ------------- native words written with [p], read with ANY parameters [q] *)
(* [q] needs only the same word width and the same number of samples: Bits
   Stored, pixel representation, photometric interpretation, the split of the
   samples into rows / columns / samples may all differ.  Every sample is read
   as [stored_view q]. *)
Theorem decode_words_encode_native : forall p q f,
  p_balloc p <> 1 -> 1 <= p_dsize p <= 8 -> p_balloc q = 8 * p_dsize p ->
  1 <= p_bstored q <= p_balloc q -> (spp q = 1 \/ spp q = 3) ->
  Z.of_nat (length f) = npix q ->
  (spp q =? 3) && pi_is q YBR_FULL = false ->
  decode_words q (encode_native p f) = Ok (DArr (out_shape q) (map (stored_view q) f)).
Proof.
  intros p q f B Hds Hba Hbs Hspp Hlen Hy.
  unfold encode_native. replace (p_balloc p =? 1) with false by lia.
  unfold decode_words. cbv zeta.
  replace (negb ((1 <=? p_balloc q) && (p_balloc q <=? 64))
           || negb (p_balloc q =? 1) && negb (p_balloc q mod 8 =? 0)) with false by lia.
  replace (negb ((1 <=? p_bstored q) && (p_bstored q <=? p_balloc q))) with false by lia.
  replace (negb ((spp q =? 1) || (spp q =? 3))) with false by lia.
  replace (p_balloc q / 8) with (p_dsize p) by lia.
  set (k := Z.to_nat (p_dsize p)).
  assert (Hk : Z.of_nat k = p_dsize p) by (subst k; lia).
  assert (Hact : Z.of_nat (length (flat_map (le_bytes k) f)) = npix q * p_dsize p).
  { rewrite length_flat_le_bytes. nia. }
  rewrite Hact.
  replace ((npix q * p_dsize p <? npix q * p_dsize p + (npix q * p_dsize p) mod 2)
           && negb (npix q * p_dsize p =? npix q * p_dsize p)) with false by lia.
  replace ((npix q * p_dsize p + (npix q * p_dsize p) mod 2 <? npix q * p_dsize p)
           && (1 <? npix q * p_dsize p / (npix q * p_dsize p))) with false by lia.
  cbn [Z.ltb Z.compare]. rewrite Z.mul_1_r.
  replace (Z.to_nat (npix q * p_dsize p)) with (length (flat_map (le_bytes k) f)) by lia.
  rewrite firstn_all. rewrite words_flat by lia. rewrite map_map.
  rewrite Hy. unfold out_shape.
  assert (Hmap : map (fun x => if p_pixrep q =? 1 then to_signed (p_bstored q) (x mod 256 ^ Z.of_nat k)
                               else (x mod 256 ^ Z.of_nat k) mod 2 ^ p_bstored q) f
                 = map (stored_view q) f).
  { apply map_ext. intros v. unfold stored_view. cbv zeta. rewrite pow256.
    replace (8 * Z.of_nat k) with (p_balloc q) by lia. reflexivity. }
  rewrite Hmap. destruct (spp q =? 1); reflexivity.
Qed.

(* ---------------------------- an RLE stream is non-empty and of even length *)
Lemma pad_even_even : forall l, Nat.even (length (pad_even l)) = true.
Proof.
  intros l. unfold pad_even. destruct (Nat.even (length l)) eqn:E; [exact E|].
  rewrite app_length. cbn [length]. rewrite Nat.add_1_r, Nat.even_succ, <- Nat.negb_even, E. reflexivity.
Qed.

Lemma concat_even : forall segs : list (list Z),
  Forall (fun s => Nat.even (length s) = true) segs -> Nat.even (length (concat segs)) = true.
Proof.
  induction segs as [|a l IH]; intros H; [reflexivity|].
  inversion H as [|x y Ha Hl]; subst. cbn [concat]. rewrite app_length, Nat.even_add, Ha, (IH Hl). reflexivity.
Qed.

Lemma rle_segments_even : forall p f,
  Forall (fun s => Nat.even (length s) = true) (rle_segments p f).
Proof.
  intros p f. rewrite Forall_forall. intros sg Hin. unfold rle_segments in Hin. cbv zeta in Hin.
  apply in_flat_map in Hin. destruct Hin as (smp & _ & Hin).
  apply in_map_iff in Hin. destruct Hin as (b & <- & _).
  unfold rle_encode_segment. apply pad_even_even.
Qed.

Lemma rle_stream_shape : forall p f bs, rle_encode_frame p f = Ok bs ->
  (64 <= length bs)%nat /\ Nat.even (length bs) = true.
Proof.
  intros p f bs H. unfold rle_encode_frame in H. cbv zeta in H.
  destruct (15 <? zlen (rle_segments p f)) eqn:E15; [discriminate|].
  destruct (existsb _ _); [discriminate|]. apply Ok_inj in H. rewrite <- H. clear H bs.
  set (segs := rle_segments p f) in *.
  set (hdr := le_bytes 4 (zlen segs) ++ flat_map (le_bytes 4) (prefix_sums 64 (map zlen segs))).
  assert (Hh : length hdr = (4 + length segs * 4)%nat).
  { unfold hdr. rewrite app_length, le_bytes_length, length_flat_le_bytes, prefix_sums_length, map_length. reflexivity. }
  assert (H15 : (length segs <= 15)%nat) by (unfold zlen in E15; lia).
  rewrite !app_length, repeat_length.
  replace (length hdr + (64 - length hdr + length (concat segs)))%nat with (64 + length (concat segs))%nat by lia.
  split; [lia|]. rewrite Nat.even_add, (concat_even segs (rle_segments_even p f)). reflexivity.
Qed.

Lemma rle_stream_entry : forall p f bs, rle_encode_frame p f = Ok bs ->
  bs <> [] /\ pad_even bs = bs.
Proof.
  intros p f bs H. destruct (rle_stream_shape p f bs H) as [H64 He]. split.
  - intros ->. cbn in H64. lia.
  - unfold pad_even. now rewrite He.
Qed.

(* ------------------------------------- the entry point after an accepted encode *)
Lemma entry_guard_common : forall T p, check_common T p = None -> entry_guard p = false.
Proof.
  intros T p H. destruct (check_common_None _ _ H) as (_ & Hpr & Hpi & Hpl).
  unfold entry_guard.
  replace (negb ((p_pixrep p =? 0) || (p_pixrep p =? 1))) with false by lia.
  replace (is_none (p_pi p)) with false by (destruct (p_pi p); [reflexivity|congruence]).
  cbn [orb]. unfold spp. destruct (p_ndim3 p); [|reflexivity].
  destruct (Hpl eq_refl) as [-> | ->]; cbn [is_none optZ_eqb]; rewrite !andb_false_r; reflexivity.
Qed.

Lemma decode_bits_index_irrel : forall rows cols s i v,
  (rows * cols * s) mod 8 = 0 -> decode_bits rows cols s i v = decode_bits rows cols s 0 v.
Proof.
  intros rows cols s i v H. unfold decode_bits. cbv zeta.
  replace ((i * (rows * cols * s)) mod 8) with 0.
  - reflexivity.
  - rewrite Z.mul_mod by lia. rewrite H, Z.mul_0_r. reflexivity.
Qed.

Section Entry.
  Variable codec_decode : params -> list Z -> res decoded.

  (* with the parameters of an accepted native encoding, at ANY frame index *)
  Lemma entry_full_native : forall p f bs index,
    native_ts p -> encode_frame default_tables p f = Ok bs ->
    decode_frame_entry codec_decode p index bs = decode_native p 0 bs.
  Proof.
    intros p f bs index Hn He.
    apply encode_frame_Ok in He. destruct He as [Hc ->].
    destruct (check_None_native p _ _ Hn Hc) as (Hcc & Hcn & _).
    destruct (check_native_None _ Hcn) as (Hspp & Hpl3 & Hn8 & _).
    unfold decode_frame_entry, decode_native.
    rewrite (proj2 (is_native_default p) Hn). cbn [andb].
    destruct (p_balloc p =? 1) eqn:B1.
    - apply decode_bits_index_irrel. apply Hn8. lia.
    - rewrite (entry_guard_common _ _ Hcc).
      replace ((1 <? spp p) && optZ_eqb (p_planar p) 1) with false.
      + destruct (decode_words p _) as [[sh vals|raw]|e]; reflexivity.
      + destruct Hspp as [S1|S3]; [replace (1 <? spp p) with false by lia; reflexivity|].
        rewrite (Hpl3 S3). cbn. now rewrite andb_false_r.
  Qed.

  Lemma entry_full_rle : forall p f bs index,
    p_ts p = TRLE -> encode_rle default_tables p f = Ok bs ->
    decode_frame_entry codec_decode p index bs = decode_rle p bs.
  Proof.
    intros p f bs index Hts He. unfold encode_rle in He.
    destruct (check default_tables p (list_min f) (list_max f)) eqn:Hc; [discriminate|].
    assert (Hcc : check_common default_tables p = None).
    { unfold check, check_cascade, check_hd in Hc. destruct (check_common default_tables p); [discriminate|reflexivity]. }
    destruct (rle_stream_entry p f bs He) as [Hne Hpad].
    unfold decode_frame_entry.
    replace (is_native default_tables p) with false by (unfold is_native; rewrite Hts; reflexivity).
    cbn [andb]. rewrite (entry_guard_common _ _ Hcc).
    destruct bs as [|b bs']; [congruence|]. rewrite Hts. change (ts_eqb TRLE TRLE) with true. cbv iota.
    now rewrite Hpad.
  Qed.
End Entry.

(* --------------- the property sentence through the entry point, any index *)
Section EntryAll.
  Variable codec_encode : params -> list Z -> option (list Z).
  Variable codec_decode : params -> list Z -> res decoded.
  (* the only premise: the JPEG-LS (NEAR = 0) / JPEG 2000 Lossless codec produces
     a non-empty code stream that its decoder (given the fragment as
     pydicom.encaps.encapsulate stores it: padded to even length) reads back *)
  Hypothesis codec_lossless : forall p f bs,
    p_ts p = TJLS \/ p_ts p = TJ2KL ->
    accepts default_tables p (list_min f) (list_max f) = true ->
    Z.of_nat (length f) = npix p -> values_fit p f ->
    codec_encode p f = Some bs ->
    bs <> [] /\ codec_decode p (pad_even bs) = Ok (DArr (out_shape p) f).

  Theorem entry_lossless_roundtrip : forall p f bs index,
    lossless_ts p ->
    encode_any codec_encode default_tables p f = Ok bs ->
    open_gap p = false ->
    Z.of_nat (length f) = npix p -> (p_ts p <> TRLE -> values_fit p f) -> p_dsize p <= 8 ->
    decode_frame_entry codec_decode p index bs = Ok (DArr (out_shape p) f).
  Proof.
    intros p f bs index Hts He Hgap Hlen Hfit Hds. unfold encode_any in He.
    destruct Hts as [Hts|[Hts|[Hts|Hts]]].
    - assert (Hn : native_ts p) by (now left).
      rewrite (proj2 (is_native_default p) Hn) in He.
      rewrite (entry_full_native codec_decode p f bs index Hn He).
      apply (native_roundtrip_partial p f bs Hn He Hlen Hds); [apply Hfit; rewrite Hts; discriminate|].
      intros S3 _. apply open_gap_guard; auto.
    - assert (Hn : native_ts p) by (now right).
      rewrite (proj2 (is_native_default p) Hn) in He.
      rewrite (entry_full_native codec_decode p f bs index Hn He).
      apply (native_roundtrip_partial p f bs Hn He Hlen Hds); [apply Hfit; rewrite Hts; discriminate|].
      intros S3 _. apply open_gap_guard; auto.
    - assert (Hnn : is_native default_tables p = false) by (unfold is_native; rewrite Hts; reflexivity).
      rewrite Hnn, Hts in He. change (ts_eqb TRLE TRLE) with true in He. cbv iota in He.
      rewrite (entry_full_rle codec_decode p f bs index Hts He).
      now apply rle_roundtrip_full.
    - assert (Hnn : is_native default_tables p = false)
        by (unfold is_native; destruct Hts as [-> | ->]; reflexivity).
      assert (Hnr : ts_eqb (p_ts p) TRLE = false) by (destruct Hts as [-> | ->]; reflexivity).
      assert (Hnt : p_ts p <> TRLE) by (destruct Hts as [-> | ->]; discriminate).
      rewrite Hnn, Hnr in He. unfold encode_encaps in He.
      destruct (check default_tables p (list_min f) (list_max f)) as [e|] eqn:Hc; [discriminate|].
      destruct (codec_encode p f) as [bs'|] eqn:Hce; [|discriminate]. apply Ok_inj in He. subst bs'.
      assert (Hcc : check_common default_tables p = None).
      { unfold check, check_cascade, check_hd in Hc. destruct (check_common default_tables p); [discriminate|reflexivity]. }
      assert (Hacc : accepts default_tables p (list_min f) (list_max f) = true) by (unfold accepts; now rewrite Hc).
      destruct (codec_lossless p f bs Hts Hacc Hlen (Hfit Hnt) Hce) as [Hne Hdec].
      unfold decode_frame_entry. rewrite Hnn. cbn [andb]. rewrite (entry_guard_common _ _ Hcc).
      destruct bs as [|b bs']; [congruence|]. rewrite Hnr. exact Hdec.
  Qed.

  (* ... hence no two different frames are ever turned into the same bytes *)
  Theorem encode_any_injective : forall p f g bs,
    lossless_ts p ->
    encode_any codec_encode default_tables p f = Ok bs ->
    encode_any codec_encode default_tables p g = Ok bs ->
    open_gap p = false -> p_dsize p <= 8 ->
    Z.of_nat (length f) = npix p -> Z.of_nat (length g) = npix p ->
    (p_ts p <> TRLE -> values_fit p f /\ values_fit p g) ->
    f = g.
  Proof.
    intros p f g bs Hts Hf Hg Hgap Hds Hlf Hlg Hfit.
    pose proof (entry_lossless_roundtrip p f bs 0 Hts Hf Hgap Hlf (fun H => proj1 (Hfit H)) Hds) as H1.
    pose proof (entry_lossless_roundtrip p g bs 0 Hts Hg Hgap Hlg (fun H => proj2 (Hfit H)) Hds) as H2.
    rewrite H1 in H2. apply Ok_inj in H2. congruence.
  Qed.
End EntryAll.

(* -------------------------- the entry point refuses exactly by its guard *)
Theorem entry_refuses : forall cd p index value,
  is_native default_tables p && (p_balloc p =? 1) = false ->
  entry_guard p = true -> decode_frame_entry cd p index value = Err EV.
Proof. intros cd p index value H G. unfold decode_frame_entry. now rewrite H, G. Qed.

Theorem entry_ok_guard : forall cd p index value d,
  decode_frame_entry cd p index value = Ok d ->
  is_native default_tables p && (p_balloc p =? 1) = true
  \/ ((p_pixrep p = 0 \/ p_pixrep p = 1) /\ p_pi p <> None
      /\ (1 < spp p -> p_planar p = Some 0 \/ p_planar p = Some 1)
      /\ (is_native default_tables p = false -> value <> [])).
Proof.
  intros cd p index value d H. unfold decode_frame_entry in H.
  destruct (is_native default_tables p && (p_balloc p =? 1)) eqn:B; [now left|right].
  destruct (entry_guard p) eqn:G; [discriminate|]. unfold entry_guard in G.
  apply orb_false_elim in G. destruct G as [G G4]. apply orb_false_elim in G. destruct G as [G G3].
  apply orb_false_elim in G. destruct G as [G1 G2].
  split; [lia|]. split; [destruct (p_pi p); [discriminate|discriminate G2]|]. split.
  - intros S. replace (1 <? spp p) with true in * by lia. cbn [andb] in *.
    unfold optZ_eqb, is_none in *. destruct (p_planar p) as [z|]; [|discriminate].
    destruct (z =? 0) eqn:Z0; [left; f_equal; lia|]. destruct (z =? 1) eqn:Z1; [right; f_equal; lia|]. discriminate.
  - intros Hn ->. rewrite Hn in H. discriminate.
Qed.

(* -------------- an accepted native word frame read with other parameters *)
(* Bits Stored / pixel representation / photometric interpretation of the
   decode_frame call may differ from the encoding call: every sample comes back
   as [stored_view q]; with planar configuration 1 the samples are taken plane
   by plane *)
Theorem entry_native_other_params : forall cd p q f bs index,
  native_ts p -> native_ts q ->
  encode_frame default_tables p f = Ok bs ->
  p_balloc p <> 1 -> p_dsize p <= 8 ->
  p_balloc q = p_balloc p -> npix q = npix p -> Z.of_nat (length f) = npix p ->
  1 <= p_bstored q <= p_balloc q -> (spp q = 1 \/ spp q = 3) ->
  entry_guard q = false ->
  (spp q =? 3) && pi_is q YBR_FULL = false ->
  decode_frame_entry cd q index bs
  = Ok (DArr (out_shape q)
         (if (1 <? spp q) && optZ_eqb (p_planar q) 1
          then planar_frames (Z.to_nat (p_rows q * p_cols q)) (Z.to_nat (spp q)) (map (stored_view q) f)
          else map (stored_view q) f)).
Proof.
  intros cd p q f bs index Hn Hq He B Hds Hba Hnp Hlen Hbs Hspp G Hy.
  apply encode_frame_Ok in He. destruct He as [Hc ->].
  destruct (check_None_native p _ _ Hn Hc) as (Hcc & Hcn & _).
  destruct (check_native_None _ Hcn) as (_ & _ & _ & Hsz & _).
  specialize (Hsz B).
  unfold decode_frame_entry. rewrite (proj2 (is_native_default q) Hq).
  replace (p_balloc q =? 1) with false by lia. cbn [andb]. rewrite G.
  rewrite (decode_words_encode_native p q f) by (auto; lia).
  destruct ((1 <? spp q) && optZ_eqb (p_planar q) 1); reflexivity.
Qed.

(* ==================== size safety: whatever a decoder returns has the size
   of its shape - no byte string, damaged or not, is turned into an array of
   another size than the parameters say *)
Definition shape_size (sh : list Z) : Z := fold_right Z.mul 1 sh.

Lemma decode_bits_size : forall r c s i v sh vals,
  decode_bits r c s i v = Ok (DArr sh vals) ->
  sh = bits_shape r c s /\ Z.of_nat (length vals) = shape_size sh.
Proof.
  intros r c s i v sh vals H. unfold decode_bits in H. cbv zeta in H. unfold bits_shape.
  destruct (1 <? s) eqn:S.
  - destruct (_ =? _) eqn:E in H; [|discriminate]. apply Ok_inj in H. injection H as <- <-.
    split; [reflexivity|]. unfold shape_size. cbn [fold_right]. lia.
  - destruct (_ =? _) eqn:E in H; [|discriminate]. apply Ok_inj in H. injection H as <- <-.
    split; [reflexivity|]. unfold shape_size. cbn [fold_right]. lia.
Qed.

Lemma words_fuel_length : forall k fuel m bs, (1 <= k)%nat -> length bs = (m * k)%nat -> (m <= fuel)%nat ->
  length (words_fuel fuel k bs) = m.
Proof.
  intros k. induction fuel as [|n IH]; intros m bs Hk Hl Hm.
  - cbn. lia.
  - destruct bs as [|a l].
    + cbn in *. nia.
    + destruct m as [|m']; [cbn in Hl; lia|].
      cbn [words_fuel length]. f_equal. apply IH; [lia| |lia].
      rewrite skipn_length. cbn [length] in *. nia.
Qed.

Lemma words_length : forall k m bs, (1 <= k)%nat -> length bs = (m * k)%nat -> length (words k bs) = m.
Proof. intros k m bs Hk Hl. unfold words. apply words_fuel_length; auto. nia. Qed.

Lemma chunks_fuel_length : forall c fuel m l, (1 <= c)%nat -> length l = (m * c)%nat -> (m <= fuel)%nat ->
  length (chunks_fuel fuel c l) = m.
Proof.
  intros c. induction fuel as [|n IH]; intros m l Hc Hl Hm.
  - cbn. lia.
  - destruct l as [|a l].
    + cbn in *. nia.
    + destruct m as [|m']; [cbn in Hl; lia|].
      cbn [chunks_fuel length]. f_equal. apply IH; [lia| |lia].
      rewrite skipn_length. cbn [length] in *. nia.
Qed.

Lemma planar_read_length : forall n s ws, length (planar_read n s ws) = (n * s)%nat.
Proof.
  intros n s ws. unfold planar_read.
  rewrite (length_flat_map_c _ _ _ s) by (intros; now rewrite map_length, seq_length).
  now rewrite seq_length.
Qed.

Lemma planar_frames_length : forall n s m ws, (1 <= n * s)%nat -> length ws = (m * (n * s))%nat ->
  length (planar_frames n s ws) = length ws.
Proof.
  intros n s m ws Hns Hl. unfold planar_frames.
  rewrite (length_flat_map_c _ _ _ (n * s)%nat) by (intros; apply planar_read_length).
  unfold chunks. rewrite (chunks_fuel_length (n * s) (length ws) m ws Hns Hl) by nia. lia.
Qed.

Lemma decode_words_size : forall p v sh vals,
  p_balloc p <> 1 -> 1 <= p_rows p -> 1 <= p_cols p ->
  decode_words p v = Ok (DArr sh vals) ->
  exists nf, 1 <= nf /\ sh = (if 1 <? nf then [nf] else []) ++ out_shape p
             /\ Z.of_nat (length vals) = nf * npix p /\ (spp p = 1 \/ spp p = 3).
Proof.
  intros p v sh vals B Hr Hc H. unfold decode_words in H. cbv zeta in H.
  destruct (negb ((1 <=? p_balloc p) && (p_balloc p <=? 64))
            || negb (p_balloc p =? 1) && negb (p_balloc p mod 8 =? 0)) eqn:G1; [discriminate|].
  destruct (negb ((1 <=? p_bstored p) && (p_bstored p <=? p_balloc p))) eqn:G2; [discriminate|].
  destruct (negb ((spp p =? 1) || (spp p =? 3))) eqn:G3; [discriminate|].
  assert (Hspp : spp p = 1 \/ spp p = 3) by lia.
  assert (Hk : 1 <= p_balloc p / 8) by lia.
  assert (Hnp : 1 <= npix p) by (unfold npix; nia).
  remember (p_balloc p / 8) as k.
  remember (npix p * k) as e.
  assert (He1 : 1 <= e) by nia.
  remember (Z.of_nat (length v)) as a.
  destruct ((a <? e + e mod 2) && negb (a =? e)) eqn:G4; [discriminate|].
  remember (if (e + e mod 2 <? a) && (1 <? a / e) then a / e else 1) as nf.
  assert (Hnf : 1 <= nf /\ e * nf <= a).
  { subst nf. destruct ((e + e mod 2 <? a) && (1 <? a / e)) eqn:G5.
    - split; [lia|]. apply Z.mul_div_le. lia.
    - split; [lia|]. lia. }
  destruct Hnf as [Hnf1 Hnf2].
  destruct ((spp p =? 3) && pi_is p YBR_FULL).
  { destruct ((p_balloc p =? 8) && (p_pixrep p =? 0)); discriminate. }
  apply Ok_inj in H. injection H as Hsh Hvals. exists nf. split; [exact Hnf1|].
  split.
  - rewrite <- Hsh. unfold out_shape. reflexivity.
  - split; [|exact Hspp]. rewrite <- Hvals, map_length.
    rewrite (words_length (Z.to_nat k) (Z.to_nat (nf * npix p))).
    + nia.
    + lia.
    + rewrite firstn_length. nia.
Qed.

Lemma rle_decode_frame_length : forall rows cols s k src ws,
  rle_decode_frame rows cols s k src = Ok ws -> length ws = (Z.to_nat (rows * cols) * s)%nat.
Proof.
  intros rows cols s k src ws H. unfold rle_decode_frame in H. cbv zeta in H.
  destruct (negb _); [discriminate|]. destruct (15 <? _); [discriminate|].
  destruct (negb _); [discriminate|]. destruct (existsb _ _); [discriminate|].
  apply Ok_inj in H. rewrite <- H.
  rewrite (length_flat_map_c _ _ _ s) by (intros; now rewrite map_length, seq_length).
  now rewrite seq_length.
Qed.

Lemma decode_rle_size : forall p v sh vals,
  1 <= p_rows p -> 1 <= p_cols p ->
  decode_rle p v = Ok (DArr sh vals) ->
  sh = out_shape p /\ Z.of_nat (length vals) = npix p.
Proof.
  intros p v sh vals Hr Hc H. unfold decode_rle in H. cbv zeta in H.
  destruct ((1 <? spp p) && is_none (p_planar p)); [discriminate|].
  destruct (negb ((1 <=? p_balloc p) && (p_balloc p <=? 64))
            || negb (p_balloc p =? 1) && negb (p_balloc p mod 8 =? 0)); [discriminate|].
  destruct (negb ((1 <=? p_bstored p) && (p_bstored p <=? p_balloc p))); [discriminate|].
  destruct (negb ((spp p =? 1) || (spp p =? 3))) eqn:G3; [discriminate|].
  destruct (rle_decode_frame _ _ _ _ v) as [ws|e] eqn:R; [|discriminate].
  apply rle_decode_frame_length in R.
  destruct ((spp p =? 3) && pi_is p YBR_FULL).
  { destruct ((p_balloc p =? 8) && (p_pixrep p =? 0)); discriminate. }
  apply Ok_inj in H. injection H as Hsh Hvals. split.
  - rewrite <- Hsh. unfold out_shape. reflexivity.
  - rewrite <- Hvals, map_length, R. unfold npix. nia.
Qed.

(* the entry point, native and RLE Lossless, arbitrary bytes and parameters *)
Theorem entry_output_size : forall cd p index value sh vals,
  native_ts p \/ p_ts p = TRLE -> 1 <= p_rows p -> 1 <= p_cols p -> 1 <= spp p ->
  decode_frame_entry cd p index value = Ok (DArr sh vals) ->
  Z.of_nat (length vals) = shape_size sh
  /\ exists nf, 1 <= nf /\ sh = (if 1 <? nf then [nf] else []) ++ out_shape p.
Proof.
  intros cd p index value sh vals Hts Hr Hc Hs1 H. unfold decode_frame_entry in H.
  assert (Hsz : forall nf, 1 <= nf -> (spp p = 1 \/ spp p = 3) ->
           shape_size ((if 1 <? nf then [nf] else []) ++ out_shape p) = nf * npix p).
  { intros nf Hnf Hs. unfold shape_size, out_shape, npix.
    destruct (1 <? nf) eqn:N; destruct (spp p =? 1) eqn:S; cbn [app fold_right]; nia. }
  destruct (is_native default_tables p && (p_balloc p =? 1)) eqn:B.
  - apply decode_bits_size in H. destruct H as [-> Hl]. split; [exact Hl|].
    exists 1. split; [lia|]. cbn [app]. unfold bits_shape, out_shape.
    destruct (1 <? spp p) eqn:S.
    + replace (spp p =? 1) with false by lia. reflexivity.
    + replace (spp p =? 1) with true by lia. reflexivity.
  - destruct (entry_guard p); [discriminate|].
    destruct (is_native default_tables p) eqn:N.
    + assert (B1 : p_balloc p <> 1) by (cbn [andb] in B; lia).
      destruct (decode_words p value) as [[sh' vals'|raw]|e] eqn:W; try discriminate.
      destruct (decode_words_size p value sh' vals' B1 Hr Hc W) as (nf & Hnf & Hsh & Hl & Hs).
      assert (Hn : (1 <= Z.to_nat (p_rows p * p_cols p) * Z.to_nat (spp p))%nat) by nia.
      destruct ((1 <? spp p) && optZ_eqb (p_planar p) 1); apply Ok_inj in H; injection H as <- <-.
      * split; [|exists nf; auto].
        rewrite (planar_frames_length _ _ (Z.to_nat nf)) by (auto; unfold npix in Hl; nia).
        rewrite Hl, Hsh. symmetry. now apply Hsz.
      * split; [|exists nf; auto]. rewrite Hl, Hsh. symmetry. now apply Hsz.
    + destruct Hts as [Hn|Hts]; [apply is_native_default in Hn; congruence|].
      destruct value as [|b v']; [discriminate|]. rewrite Hts in H. change (ts_eqb TRLE TRLE) with true in H.
      cbv iota in H. destruct (decode_rle_size p _ sh vals Hr Hc H) as [-> Hl].
      split; [|exists 1; split; [lia|reflexivity]].
      rewrite Hl. unfold shape_size, out_shape, npix. destruct (spp p =? 1) eqn:S; cbn [fold_right]; nia.
Qed.

(* ------------------ the frame index matters on the bit-packed path only *)
Theorem entry_index_irrel : forall cd p index value,
  is_native default_tables p && (p_balloc p =? 1) = false \/ npix p mod 8 = 0 ->
  decode_frame_entry cd p index value = decode_frame_entry cd p 0 value.
Proof.
  intros cd p index value H. unfold decode_frame_entry.
  destruct (is_native default_tables p && (p_balloc p =? 1)) eqn:B; [|reflexivity].
  destruct H as [H|H]; [discriminate|]. apply decode_bits_index_irrel. exact H.
Qed.

(* ------------- damaged RLE streams: what every decodable stream must satisfy *)
Theorem rle_decode_frame_Ok : forall rows cols s k src ws,
  rle_decode_frame rows cols s k src = Ok ws ->
  (64 <= length src)%nat /\ le_word (firstn 4 src) = Z.of_nat (s * k) /\ (s * k <= 15)%nat
  /\ length ws = (Z.to_nat (rows * cols) * s)%nat.
Proof.
  intros rows cols s k src ws H. pose proof (rle_decode_frame_length _ _ _ _ _ _ H) as Hl.
  unfold rle_decode_frame in H. cbv zeta in H.
  destruct (negb (Nat.eqb (length (firstn 64 src)) 64)) eqn:G1; [discriminate|].
  destruct (15 <? le_word (firstn 4 (firstn 64 src))) eqn:G2; [discriminate|].
  destruct (negb (le_word (firstn 4 (firstn 64 src)) =? Z.of_nat (s * k))) eqn:G3; [discriminate|].
  rewrite firstn_firstn in *. change (Nat.min 4 64) with 4%nat in *.
  apply negb_false_iff, Nat.eqb_eq in G1. rewrite firstn_length in G1.
  repeat split; [lia|lia|lia|exact Hl].
Qed.

Corollary decode_rle_short : forall p v, (length v < 64)%nat ->
  forall sh vals, decode_rle p v <> Ok (DArr sh vals).
Proof.
  intros p v Hv sh vals H. unfold decode_rle in H. cbv zeta in H.
  destruct ((1 <? spp p) && is_none (p_planar p)); [discriminate|].
  destruct (negb ((1 <=? p_balloc p) && (p_balloc p <=? 64))
            || negb (p_balloc p =? 1) && negb (p_balloc p mod 8 =? 0)); [discriminate|].
  destruct (negb ((1 <=? p_bstored p) && (p_bstored p <=? p_balloc p))); [discriminate|].
  destruct (negb ((spp p =? 1) || (spp p =? 3))); [discriminate|].
  destruct (rle_decode_frame _ _ _ _ v) as [ws|e] eqn:R; [|discriminate].
  apply rle_decode_frame_Ok in R. lia.
Qed.

(* ----------------- 1-bit JPEG 2000 Lossless: astype(bool) in front of the codec *)
Theorem as_bool_exact_iff : forall f, as_bool f = f <-> Forall (fun v => 0 <= v < 2 ^ 1) f.
Proof.
  induction f as [|a l IH]; [split; [constructor|reflexivity]|].
  unfold as_bool in *. cbn [map]. split.
  - intros H. injection H as Ha Hl. constructor; [|now apply IH].
    destruct (a =? 0) eqn:E; lia.
  - intros H. inversion H as [|x y Ha Hl]; subst. f_equal; [|now apply IH].
    destruct (a =? 0) eqn:E; lia.
Qed.

(* ================= the property sentence as one dichotomy ================= *)
Lemma encode_any_Ok_accepts : forall ce p f bs,
  encode_any ce default_tables p f = Ok bs -> accepts default_tables p (list_min f) (list_max f) = true.
Proof.
  intros ce p f bs H. unfold accepts. unfold encode_any, encode_frame, encode_rle, encode_encaps in H.
  destruct (check default_tables p (list_min f) (list_max f)); [|reflexivity].
  destruct (is_native default_tables p); [discriminate|]. destruct (ts_eqb (p_ts p) TRLE); discriminate.
Qed.

Section Sentence.
  Variable codec_encode : params -> list Z -> option (list Z).
  Variable codec_decode : params -> list Z -> res decoded.
  Hypothesis codec_lossless : forall p f bs,
    p_ts p = TJLS \/ p_ts p = TJ2KL ->
    accepts default_tables p (list_min f) (list_max f) = true ->
    Z.of_nat (length f) = npix p -> values_fit p f ->
    codec_encode p f = Some bs ->
    bs <> [] /\ codec_decode p (pad_even bs) = Ok (DArr (out_shape p) f).

  (* for every lossless syntax, every parameter combination and every frame:
     EITHER encode_frame raises, OR the combination is one the syntax can
     represent and decode_frame (same parameters, any frame index) returns
     exactly the frame.  Outside the cells of D51 ([open_gap]). *)
  Theorem property_sentence : forall p f index,
    lossless_ts p -> 1 <= p_rows p -> 1 <= p_cols p -> In (p_dsize p) [1; 2; 4; 8] ->
    Z.of_nat (length f) = npix p -> open_gap p = false ->
    (p_ts p <> TRLE -> values_fit p f) ->
    (exists e, encode_any codec_encode default_tables p f = Err e)
    \/ (exists bs, encode_any codec_encode default_tables p f = Ok bs
                   /\ representable p = true
                   /\ decode_frame_entry codec_decode p index bs = Ok (DArr (out_shape p) f)).
  Proof.
    intros p f index Hts Hr Hc Hds Hlen Hgap Hfit.
    destruct (encode_any codec_encode default_tables p f) as [bs|e] eqn:He; [right|left; now exists e].
    exists bs. split; [reflexivity|]. split.
    - destruct (accept_sound_all p _ _ Hr Hc Hds (encode_any_Ok_accepts _ _ _ _ He)) as [H|H]; [exact H|congruence].
    - apply (entry_lossless_roundtrip codec_encode codec_decode codec_lossless p f bs index); auto.
      cbn [In] in Hds. lia.
  Qed.

  (* and what cannot be represented is refused, whatever the content *)
  Theorem unrepresentable_refused_any : forall p f,
    1 <= p_rows p -> 1 <= p_cols p -> In (p_dsize p) [1; 2; 4; 8] ->
    representable p = false -> open_gap p = false ->
    exists e, encode_any codec_encode default_tables p f = Err e.
  Proof.
    intros p f Hr Hc Hds Hrep Hgap.
    destruct (encode_any codec_encode default_tables p f) as [bs|e] eqn:He; [|now exists e].
    destruct (accept_sound_all p _ _ Hr Hc Hds (encode_any_Ok_accepts _ _ _ _ He)); congruence.
  Qed.
End Sentence.

(* ------------------------- length of a bit-packed frame (pydicom pack_bits) *)
Lemma pack_fuel_length : forall fuel l, (length l <= fuel)%nat ->
  length (pack_fuel fuel l) = ((length l + 7) / 8)%nat.
Proof.
  induction fuel as [|k IH]; intros l Hl.
  - destruct l; [reflexivity|cbn in Hl; lia].
  - destruct l as [|a l']; [reflexivity|].
    cbn [pack_fuel]. cbn [length]. rewrite IH by (rewrite skipn_length; cbn [length] in *; lia).
    rewrite skipn_length. cbn [length].
    set (n := length l'). clearbody n. clear.
    replace (S n + 7)%nat with (n + 1 * 8)%nat by lia. rewrite Nat.div_add by lia.
    destruct (Nat.le_gt_cases 7 n) as [H7|H7].
    + replace (S n - 8 + 7)%nat with n by lia. lia.
    + replace (S n - 8 + 7)%nat with 7%nat by lia. rewrite (Nat.div_small n 8) by lia. reflexivity.
Qed.

Lemma pack_bits_length : forall l,
  length (pack_bits l) = (let b := ((length l + 7) / 8)%nat in if Nat.even b then b else S b).
Proof.
  intros l. unfold pack_bits, pad_even, pack_bits_nopad. cbv zeta.
  rewrite <- (pack_fuel_length (length l) l) by lia.
  destruct (Nat.even (length (pack_fuel (length l) l))); [reflexivity|]. rewrite app_length. cbn [length]. lia.
Qed.

(* a bit-packed frame occupies npix/8 bytes, padded to an even number: exactly
   what pydicom expects for a one-frame image with Bits Allocated 1 *)
Theorem encode_bits_length : forall p f,
  p_balloc p = 1 -> Z.of_nat (length f) = npix p -> npix p mod 8 = 0 ->
  Z.of_nat (length (encode_native p f)) = npix p / 8 + (npix p / 8) mod 2.
Proof.
  intros p f B Hl H8. unfold encode_native. rewrite B. change (1 =? 1) with true. cbv iota.
  rewrite pack_bits_length. cbv zeta.
  assert (Hb : Z.of_nat ((length f + 7) / 8) = npix p / 8).
  { rewrite Nat2Z.inj_div, Nat2Z.inj_add, Hl. change (Z.of_nat 7) with 7. change (Z.of_nat 8) with 8. lia. }
  set (b := ((length f + 7) / 8)%nat) in *. rewrite <- Hb.
  destruct (Nat.even b) eqn:E.
  - apply Nat.even_spec in E. destruct E as [m ->]. lia.
  - rewrite <- Nat.negb_odd in E. apply negb_false_iff, Nat.odd_spec in E. destruct E as [m ->]. lia.
Qed.

(* ------------------------------------------------------------ non-vacuity *)
Definition no_codec_enc : params -> list Z -> option (list Z) := fun _ _ => None.
Definition no_codec_dec : params -> list Z -> res decoded := fun _ _ => Err ERT.

Lemma no_codec_premise : forall p f bs,
  p_ts p = TJLS \/ p_ts p = TJ2KL ->
  accepts default_tables p (list_min f) (list_max f) = true ->
  Z.of_nat (length f) = npix p -> values_fit p f ->
  no_codec_enc p f = Some bs ->
  bs <> [] /\ no_codec_dec p (pad_even bs) = Ok (DArr (out_shape p) f).
Proof. intros p f bs _ _ _ _ H. discriminate H. Qed.

(* both branches of the dichotomy occur; two native colour frames read with planar
   configuration 1 are re-ordered frame by frame; an empty / odd RLE value;
   a 16-bit frame read back with 12 stored bits *)
Example entry_examples :
  let p := mkP TRLE 2 3 false 0 16 12 (Some MONO2) 1 None KInt 2 in
  let f := [-2048; 2047; 0; -1; -1; -1] in
  let u := mkP TRLE 2 3 false 0 32 32 (Some MONO2) 0 None KUInt 4 in
  let q := mkP TExplicit 1 2 true 3 8 8 (Some RGB) 0 (Some 1) KUInt 1 in
  let w := mkP TExplicit 1 2 false 0 16 16 (Some MONO2) 0 None KUInt 2 in
  let w12 := mkP TImplicit 2 1 false 0 16 12 (Some MONO1) 1 None KUInt 2 in
  (exists bs, encode_any no_codec_enc default_tables p f = Ok bs
              /\ decode_frame_entry no_codec_dec p 5 bs = Ok (DArr [2; 3] f))
  /\ representable p = true /\ representable u = false
  /\ encode_any no_codec_enc default_tables u [1; 2; 3; 4; 5; 6] = Err EV
  /\ decode_frame_entry no_codec_dec q 0 [0; 1; 2; 3; 4; 5; 6; 7; 8; 9; 10; 11]
     = Ok (DArr [2; 1; 2; 3] [0; 2; 4; 1; 3; 5; 6; 8; 10; 7; 9; 11])
  /\ decode_frame_entry no_codec_dec p 0 [] = Err EV
  /\ decode_frame_entry no_codec_dec p 0 [1; 2; 3] = Err ERT
  /\ encode_frame default_tables w [4096; 63488] = Ok [0; 16; 0; 248]
  /\ decode_frame_entry no_codec_dec w12 0 [0; 16; 0; 248] = Ok (DArr [2; 1] [0; -2048]).
Proof.
  cbv zeta. split; [eexists; split; vm_compute; reflexivity|].
  repeat split; vm_compute; reflexivity.
Qed.

(* ----------- an accepted RLE Lossless frame read with other parameters *)
(* Bits Stored, pixel representation, photometric interpretation and planar
   configuration of the decode_frame call may differ: every sample comes back
   as [stored_view q] (the planar configuration has no influence: pydicom's RLE
   decoder always returns the frame pixel-interleaved) *)
Theorem decode_rle_other_params : forall p q f bs,
  p_ts p = TRLE ->
  encode_rle default_tables p f = Ok bs ->
  Z.of_nat (length f) = npix p ->
  p_rows q = p_rows p -> p_cols q = p_cols p -> spp q = spp p -> p_balloc q = p_balloc p ->
  1 <= p_bstored q <= p_balloc q -> (1 < spp q -> p_planar q <> None) ->
  (spp q =? 3) && pi_is q YBR_FULL = false ->
  decode_rle q bs = Ok (DArr (out_shape q) (map (stored_view q) f)).
Proof.
  intros p q f bs Hts He Hlen Hqr Hqc Hqs Hqb Hbsq Hplq Hy. unfold encode_rle in He.
  destruct (check default_tables p (list_min f) (list_max f)) eqn:Hc; [discriminate|].
  destruct (rle_check_facts p _ _ Hts Hc) as (Hspp & Hba & Hbs & H70 & Hr & Hcl & Hpr & Hpl).
  set (k := Z.to_nat (p_balloc p / 8)). set (s := Z.to_nat (spp p)).
  set (n := Z.to_nat (p_rows p * p_cols p)).
  assert (Hk : Z.of_nat k * 8 = p_balloc p) by (subst k; lia).
  assert (Hfr : rle_decode_frame (p_rows p) (p_cols p) s k bs
                = Ok (map (fun v => v mod 256 ^ Z.of_nat k) f)).
  { assert (Hrc : 1 <= p_rows p * p_cols p) by nia.
    assert (Hlen' : length f = (n * s)%nat) by (subst n s; unfold npix in Hlen; nia).
    apply (rle_frame_roundtrip p f bs k s n); try (subst k s n; lia); try exact He; try exact Hlen'.
    - subst k. unfold rle_bytes_alloc. f_equal. lia.
    - subst k. unfold rle_itemsize. f_equal.
      destruct (p_bstored p <=? 8) eqn:E8; [lia|]. destruct (p_bstored p <=? 16) eqn:E16; lia. }
  unfold decode_rle. cbv zeta. rewrite Hqr, Hqc, Hqs, Hqb. fold s. fold k. rewrite Hfr.
  replace ((1 <? spp p) && is_none (p_planar q)) with false
    by (destruct (1 <? spp p) eqn:E1; [|reflexivity]; destruct (p_planar q); [reflexivity|exfalso; apply Hplq; [lia|reflexivity]]).
  replace (negb ((1 <=? p_balloc p) && (p_balloc p <=? 64))
           || negb (p_balloc p =? 1) && negb (p_balloc p mod 8 =? 0)) with false by lia.
  replace (negb ((1 <=? p_bstored q) && (p_bstored q <=? p_balloc p))) with false by lia.
  replace (negb ((spp p =? 1) || (spp p =? 3))) with false by lia.
  rewrite map_map. rewrite <- Hqs, Hy.
  assert (Hmap : map (fun x => if p_pixrep q =? 1 then to_signed (p_bstored q) (x mod 256 ^ Z.of_nat k)
                               else (x mod 256 ^ Z.of_nat k) mod 2 ^ p_bstored q) f
                 = map (stored_view q) f).
  { apply map_ext. intros v. unfold stored_view. cbv zeta. rewrite pow256.
    replace (8 * Z.of_nat k) with (p_balloc q) by lia. reflexivity. }
  rewrite Hmap. unfold out_shape. rewrite Hqr, Hqc. destruct (spp q =? 1); reflexivity.
Qed.

Theorem entry_rle_other_params : forall cd p q f bs index,
  p_ts p = TRLE -> p_ts q = TRLE ->
  encode_rle default_tables p f = Ok bs ->
  Z.of_nat (length f) = npix p ->
  p_rows q = p_rows p -> p_cols q = p_cols p -> spp q = spp p -> p_balloc q = p_balloc p ->
  1 <= p_bstored q <= p_balloc q -> entry_guard q = false ->
  (spp q =? 3) && pi_is q YBR_FULL = false ->
  decode_frame_entry cd q index bs = Ok (DArr (out_shape q) (map (stored_view q) f)).
Proof.
  intros cd p q f bs index Hts Hq He Hlen Hqr Hqc Hqs Hqb Hbsq G Hy.
  assert (Hplq : 1 < spp q -> p_planar q <> None).
  { intros S Hn. unfold entry_guard in G. rewrite Hn in G. replace (1 <? spp q) with true in G by lia.
    cbn in G. rewrite !orb_true_r in G. discriminate. }
  rewrite <- (decode_rle_other_params p q f bs Hts He Hlen Hqr Hqc Hqs Hqb Hbsq Hplq Hy).
  unfold encode_rle in He.
  destruct (check default_tables p (list_min f) (list_max f)); [discriminate|].
  destruct (rle_stream_entry p f bs He) as [Hne Hpad].
  unfold decode_frame_entry.
  replace (is_native default_tables q) with false by (unfold is_native; rewrite Hq; reflexivity).
  cbn [andb]. rewrite G. destruct bs as [|b bs']; [congruence|].
  rewrite Hq. change (ts_eqb TRLE TRLE) with true. cbv iota. now rewrite Hpad.
Qed.

(* ------------------------------------- truncated values are never decoded *)
Lemma unpack_bits_length : forall v, length (unpack_bits v) = (length v * 8)%nat.
Proof. intros v. unfold unpack_bits. apply length_flat_map_c. apply bits_of_byte_length. Qed.

Theorem decode_bits_truncated : forall rows cols s i v,
  1 <= s -> 1 <= rows * cols ->
  8 * Z.of_nat (length v) < (i * (rows * cols * s)) mod 8 + rows * cols * s ->
  decode_bits rows cols s i v = Err EV.
Proof.
  intros rows cols s i v Hs Hn H. unfold decode_bits. cbv zeta.
  set (n := rows * cols * s) in *. set (off := (i * n) mod 8) in *.
  assert (Hoff : 0 <= off < 8) by (subst off; apply Z.mod_pos_bound; lia).
  assert (Hn0 : 1 <= n) by (subst n; nia).
  assert (Hl : Z.of_nat (length (firstn (Z.to_nat n) (skipn (Z.to_nat off) (unpack_bits v)))) < n).
  { rewrite firstn_length, skipn_length, unpack_bits_length. lia. }
  destruct (1 <? s) eqn:S.
  - replace (_ =? n) with false by lia. reflexivity.
  - assert (s = 1) by lia. subst s. replace (rows * cols) with n by (subst n; lia).
    replace (_ =? n) with false by lia. reflexivity.
Qed.

Theorem entry_truncated : forall cd p index value,
  native_ts p -> 1 <= spp p -> 1 <= p_rows p -> 1 <= p_cols p ->
  (if p_balloc p =? 1
   then 8 * Z.of_nat (length value) < (index * npix p) mod 8 + npix p
   else Z.of_nat (length value) < npix p * (p_balloc p / 8)) ->
  decode_frame_entry cd p index value = Err EV.
Proof.
  intros cd p index value Hn Hs Hr Hc H. unfold decode_frame_entry.
  assert (Hrc : 1 <= p_rows p * p_cols p) by nia.
  rewrite (proj2 (is_native_default p) Hn). cbn [andb].
  destruct (p_balloc p =? 1).
  - apply decode_bits_truncated; auto.
  - destruct (entry_guard p); [reflexivity|]. now rewrite (decode_truncated p value H).
Qed.

(* ------------------------- error classes: ValueError or RuntimeError only *)
Lemma decode_words_err : forall p v e, decode_words p v = Err e -> e = EV.
Proof.
  intros p v e H. unfold decode_words in H. cbv zeta in H.
  repeat match type of H with
         | (if ?c then _ else _) = Err _ => destruct c
         end; try discriminate; congruence.
Qed.

Lemma rle_decode_frame_err : forall r c s k src e, rle_decode_frame r c s k src = Err e -> e = ERT.
Proof.
  intros r c s k src e H. unfold rle_decode_frame in H. cbv zeta in H.
  repeat match type of H with
         | (if ?c then _ else _) = Err _ => destruct c
         end; try discriminate; congruence.
Qed.

Lemma decode_rle_err : forall p v e, decode_rle p v = Err e -> e = EV \/ e = ERT.
Proof.
  intros p v e H. unfold decode_rle in H. cbv zeta in H.
  repeat match type of H with
         | (if ?c then _ else _) = Err _ => destruct c; [left; congruence|]
         end.
  destruct (rle_decode_frame _ _ _ _ v) as [ws|e'] eqn:R.
  - repeat match type of H with
           | (if ?c then _ else _) = Err _ => destruct c
           end; try discriminate; left; congruence.
  - apply rle_decode_frame_err in R. right. congruence.
Qed.

Theorem entry_error_class : forall cd p index value e,
  native_ts p \/ p_ts p = TRLE ->
  decode_frame_entry cd p index value = Err e -> e = EV \/ e = ERT.
Proof.
  intros cd p index value e Hts H. unfold decode_frame_entry in H.
  destruct (is_native default_tables p && (p_balloc p =? 1)).
  - left. unfold decode_bits in H. cbv zeta in H.
    repeat match type of H with (if ?c then _ else _) = Err _ => destruct c end; try discriminate; congruence.
  - destruct (entry_guard p); [left; congruence|].
    destruct (is_native default_tables p) eqn:N.
    + left. destruct (decode_words p value) as [[sh vals|raw]|e'] eqn:W.
      * destruct (_ && _) in H; discriminate.
      * discriminate.
      * apply decode_words_err in W. congruence.
    + destruct Hts as [Hn|Hts]; [apply is_native_default in Hn; congruence|].
      destruct value as [|b v']; [left; congruence|]. rewrite Hts in H. change (ts_eqb TRLE TRLE) with true in H.
      cbv iota in H. now apply decode_rle_err in H.
Qed.

(* ==================== exception classes of the encoder ==================== *)

(* exception classes of encode_frame's own refusals *)
Ltac split_if H :=
  repeat match type of H with
         | (if ?c then _ else _) = Some _ => destruct c
         | (match ?c with Some _ => _ | None => _ end) = Some _ => destruct c
         end.

Lemma check_common_class : forall T p e, check_common T p = Some e -> e = EV.
Proof. intros T p e H. unfold check_common in H. split_if H; try discriminate; congruence. Qed.

Lemma check_native_class : forall T p e, check_native T p = Some e -> e = EV \/ e = EK.
Proof.
  intros T p e H. unfold check_native in H.
  destruct ((1 <? spp p) && negb (optZ_eqb (p_planar p) 0)); [left; congruence|].
  destruct (assocZ (spp p) (t_native_pis T)); [|right; congruence].
  left. split_if H; try discriminate; congruence.
Qed.

Ltac split_all H := repeat match type of H with context [if ?c then _ else _] => destruct c end.

Lemma check_jpeg_class : forall T p e, check_jpeg T p = Some e -> e = EV.
Proof.
  intros T p e H. unfold check_jpeg in H. cbv zeta in H.
  split_all H; try discriminate; congruence.
Qed.

Lemma check_codec_class : forall T p e, check_codec T p = Some e -> e = EV \/ e = EK.
Proof.
  intros T p e H. unfold check_codec in H. cbv zeta in H.
  destruct (negb (mem_ts (p_ts p) (t_codec_names T))); [right; congruence|].
  destruct (negb (memZ (spp p) (t_codec_spp T))); [left; congruence|].
  destruct (assoc_ts (p_ts p) (t_required_pi T)) as [rq|].
  - left. split_all H; try discriminate; congruence.
  - split_all H; try discriminate; try (left; congruence); right; congruence.
Qed.

Lemma check_pydicom_class : forall T p e, check_pydicom T p = Some e -> e = EV \/ e = EA.
Proof.
  intros T p e H. unfold check_pydicom in H.
  repeat match type of H with
         | (if ?c then Some EA else _) = Some _ => destruct c; [right; congruence|]
         | (if ?c then _ else _) = Some _ => destruct c; [left; congruence|]
         end.
  destruct (p_dkind p); split_if H; try discriminate; left; congruence.
Qed.

Theorem check_error_class : forall T p lo hi e,
  check T p lo hi = Some e -> e = EV \/ e = EK \/ e = EA.
Proof.
  intros T p lo hi e H. unfold check in H.
  destruct (check_cascade T p lo hi) as [e'|] eqn:C.
  - injection H as <-. unfold check_cascade in C.
    destruct (check_hd T p) as [e''|] eqn:Hd.
    + injection C as <-. unfold check_hd in Hd.
      destruct (check_common T p) as [e3|] eqn:CC.
      * injection Hd as <-. left. eapply check_common_class; eauto.
      * destruct (is_native T p).
        -- destruct (check_native_class _ _ _ Hd); auto.
        -- destruct (ts_eqb (p_ts p) TJPEG).
           ++ left. eapply check_jpeg_class; eauto.
           ++ destruct (check_codec_class _ _ _ Hd); auto.
    + unfold check_hd_content in C. left. split_if C; try discriminate; congruence.
  - unfold check_encoder in H.
    destruct (is_native T p || negb (uses_pydicom_encoder p)); [discriminate|].
    destruct (check_pydicom T p) as [e'|] eqn:P.
    + injection H as <-. destruct (check_pydicom_class _ _ _ P); auto.
    + destruct (negb (fits_stored p lo hi)); [left; congruence|].
      unfold check_profile in H. left. split_if H; try discriminate; congruence.
Qed.

Theorem encode_any_error_class : forall ce T p f e,
  encode_any ce T p f = Err e -> e = EV \/ e = EK \/ e = EA \/ e = ERT.
Proof.
  intros ce T p f e H. unfold encode_any, encode_frame, encode_rle, encode_encaps in H.
  destruct (check T p (list_min f) (list_max f)) as [e'|] eqn:C.
  - assert (e = e') by (destruct (is_native T p); [|destruct (ts_eqb (p_ts p) TRLE)]; congruence). subst e'.
    destruct (check_error_class _ _ _ _ _ C) as [?|[?|?]]; auto.
  - destruct (is_native T p); [discriminate|]. destruct (ts_eqb (p_ts p) TRLE).
    + unfold rle_encode_frame in H. cbv zeta in H.
      repeat match type of H with (if ?c then _ else _) = Err _ => destruct c end; try discriminate.
      all: right; right; right; inversion H; reflexivity.
    + destruct (ce p f); [discriminate|]. right; right; right. inversion H; reflexivity.
Qed.



(* the older entry-point model [decode_frame_model] and [decode_frame_entry]
   agree wherever the older one is faithful: native syntaxes read pixel
   interleaved, RLE Lossless values as encapsulate leaves them unchanged
   (non-empty, even length) *)
Theorem entry_model_agree : forall cd p index value,
  (native_ts p /\ (1 <? spp p) && optZ_eqb (p_planar p) 1 = false)
  \/ (p_ts p = TRLE /\ value <> [] /\ Nat.even (length value) = true) ->
  decode_frame_entry cd p index value = decode_frame_model p index value.
Proof.
  intros cd p index value Hd. unfold decode_frame_entry, decode_frame_model, entry_guard.
  destruct (is_native default_tables p && (p_balloc p =? 1)); [reflexivity|].
  destruct (negb ((p_pixrep p =? 0) || (p_pixrep p =? 1))); [reflexivity|].
  destruct (is_none (p_pi p)); [reflexivity|].
  destruct ((1 <? spp p) && is_none (p_planar p)); [reflexivity|].
  destruct ((1 <? spp p) && negb (optZ_eqb (p_planar p) 0 || optZ_eqb (p_planar p) 1)); [reflexivity|].
  cbn [orb].
  destruct Hd as [[Hn Hpl]|[Hts [Hne Hev]]].
  - rewrite (proj2 (is_native_default p) Hn).
    assert (Hr : ts_eqb (p_ts p) TRLE = false) by (destruct Hn as [-> | ->]; reflexivity).
    rewrite Hr, Hpl. cbn [andb]. reflexivity.
  - replace (is_native default_tables p) with false by (unfold is_native; rewrite Hts; reflexivity).
    rewrite Hts. change (ts_eqb TRLE TRLE) with true. cbv iota.
    destruct value as [|b v']; [congruence|]. unfold pad_even. now rewrite Hev.
Qed.
